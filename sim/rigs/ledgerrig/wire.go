package ledgerrig

import (
	"fmt"
	"math"
	"math/big"

	"github.com/lianxiangcloud/linkchain/config"
	"github.com/lianxiangcloud/linkchain/libs/common"
	"github.com/lianxiangcloud/linkchain/libs/ser"
	"github.com/lianxiangcloud/linkchain/types"

	"verif/sim/kernel"
	"verif/sim/txgen"
)

// Account transactions assembled at wire level. The constructors of the
// transaction types normalise some fields (they always write the fixed gas
// price); a peer is not bound to them: it sends bytes. A valid generated
// transaction is encoded, decoded into a mirror of the wire layout, one field
// is set to an out-of-policy or boundary value, and the result is encoded,
// decoded into the real type, signed with the sender's key and offered to the
// mempool and inside a block built by the trie replica for the kv replica's
// CheckBlock.
//
// Nothing here is invalid by construction as far as C06 is concerned (a chain
// could accept a higher gas price if it credited the collector accordingly),
// so the oracle is: no panic, and if CheckBlock accepts the block, committing
// it on a scratch replica must leave the total supply of every token
// unchanged (Σ over all accounts; fee debited == fee credited).

// wireTx mirrors types.txdata (plain Transaction).
type wireTx struct {
	AccountNonce uint64
	Price        *big.Int
	GasLimit     uint64
	Recipient    *common.Address `rlp:"nil"`
	Amount       *big.Int
	Payload      []byte
	V, R, S      *big.Int
}

// wireSig mirrors the exported part of types.signdata.
type wireSig struct {
	V, R, S *big.Int
}

// wireTokenTx mirrors types.tokenData (TokenTransaction).
type wireTokenTx struct {
	TokenAddress common.Address `rlp:"nil"`
	AccountNonce uint64
	Price        *big.Int
	GasLimit     uint64
	Recipient    *common.Address `rlp:"nil"`
	Amount       *big.Int
	Payload      []byte
	Signdata     wireSig
}

type wireFields struct {
	nonce  *uint64
	price  **big.Int
	gas    *uint64
	amount **big.Int
	to     *common.Address
	data   []byte
	create bool
}

type wireMutation struct {
	name  string
	apply func(tt *kernel.Tape, f wireFields, intr, need uint64, stateNonce uint64) bool
}

var fixedPrice = big.NewInt(types.ParGasPrice)

var wireMutations = []wireMutation{
	{"gas-price-doubled", func(tt *kernel.Tape, f wireFields, intr, need, sn uint64) bool {
		*f.price = new(big.Int).Mul(fixedPrice, big.NewInt(2))
		return true
	}},
	{"gas-price-plus-one", func(tt *kernel.Tape, f wireFields, intr, need, sn uint64) bool {
		*f.price = new(big.Int).Add(fixedPrice, big.NewInt(1))
		return true
	}},
	{"gas-price-times-random", func(tt *kernel.Tape, f wireFields, intr, need, sn uint64) bool {
		*f.price = new(big.Int).Mul(fixedPrice, big.NewInt(int64(3+tt.Int(1000))))
		return true
	}},
	{"gas-price-2^64", func(tt *kernel.Tape, f wireFields, intr, need, sn uint64) bool {
		*f.price = new(big.Int).Lsh(big.NewInt(1), 64)
		return true
	}},
	{"gas-price-2^200", func(tt *kernel.Tape, f wireFields, intr, need, sn uint64) bool {
		*f.price = new(big.Int).Lsh(big.NewInt(1), 200)
		return true
	}},
	{"gas-price-minus-one", func(tt *kernel.Tape, f wireFields, intr, need, sn uint64) bool {
		*f.price = new(big.Int).Sub(fixedPrice, big.NewInt(1))
		return true
	}},
	{"gas-price-halved", func(tt *kernel.Tape, f wireFields, intr, need, sn uint64) bool {
		*f.price = new(big.Int).Rsh(fixedPrice, 1)
		return true
	}},
	{"gas-price-zero", func(tt *kernel.Tape, f wireFields, intr, need, sn uint64) bool {
		*f.price = new(big.Int)
		return true
	}},
	{"gas-price-one", func(tt *kernel.Tape, f wireFields, intr, need, sn uint64) bool {
		*f.price = big.NewInt(1)
		return true
	}},
	{"gas-limit-below-intrinsic", func(tt *kernel.Tape, f wireFields, intr, need, sn uint64) bool {
		if intr == 0 {
			return false
		}
		*f.gas = intr - 1
		return true
	}},
	{"gas-limit-exactly-intrinsic", func(tt *kernel.Tape, f wireFields, intr, need, sn uint64) bool {
		*f.gas = intr
		return true
	}},
	{"gas-limit-one-below-rule", func(tt *kernel.Tape, f wireFields, intr, need, sn uint64) bool {
		if need == 0 {
			return false
		}
		*f.gas = need - 1
		return true
	}},
	{"gas-limit-exactly-at-rule", func(tt *kernel.Tape, f wireFields, intr, need, sn uint64) bool {
		*f.gas = need
		return true
	}},
	{"gas-limit-one-above-rule", func(tt *kernel.Tape, f wireFields, intr, need, sn uint64) bool {
		*f.gas = need + 1
		return true
	}},
	{"gas-limit-zero", func(tt *kernel.Tape, f wireFields, intr, need, sn uint64) bool {
		*f.gas = 0
		return true
	}},
	{"gas-limit-2^63", func(tt *kernel.Tape, f wireFields, intr, need, sn uint64) bool {
		*f.gas = 1 << 63
		return true
	}},
	{"gas-limit-max-uint64", func(tt *kernel.Tape, f wireFields, intr, need, sn uint64) bool {
		*f.gas = math.MaxUint64
		return true
	}},
	{"amount-2^255", func(tt *kernel.Tape, f wireFields, intr, need, sn uint64) bool {
		*f.amount = new(big.Int).Lsh(big.NewInt(1), 255)
		return true
	}},
	{"amount-2^256", func(tt *kernel.Tape, f wireFields, intr, need, sn uint64) bool {
		*f.amount = new(big.Int).Lsh(big.NewInt(1), 256)
		return true
	}},
	{"amount-2^256-plus-original", func(tt *kernel.Tape, f wireFields, intr, need, sn uint64) bool {
		// equal to the original modulo 2^256 (the word size of the VM)
		*f.amount = new(big.Int).Add(new(big.Int).Lsh(big.NewInt(1), 256), *f.amount)
		return true
	}},
	{"amount-2^64-times-original", func(tt *kernel.Tape, f wireFields, intr, need, sn uint64) bool {
		if (*f.amount).Sign() == 0 {
			return false
		}
		*f.amount = new(big.Int).Lsh(*f.amount, 64)
		return true
	}},
	{"amount-zero", func(tt *kernel.Tape, f wireFields, intr, need, sn uint64) bool {
		*f.amount = new(big.Int)
		return true
	}},
	{"nonce-gap", func(tt *kernel.Tape, f wireFields, intr, need, sn uint64) bool {
		*f.nonce = sn + 1 + uint64(tt.Int(3))
		return true
	}},
	{"nonce-replayed", func(tt *kernel.Tape, f wireFields, intr, need, sn uint64) bool {
		if sn == 0 {
			return false
		}
		*f.nonce = sn - 1
		return true
	}},
	{"nonce-max-uint64", func(tt *kernel.Tape, f wireFields, intr, need, sn uint64) bool {
		*f.nonce = math.MaxUint64
		return true
	}},
	{"nonce-max-uint64-minus-one", func(tt *kernel.Tape, f wireFields, intr, need, sn uint64) bool {
		*f.nonce = math.MaxUint64 - 1
		return true
	}},
}

// wireBase builds a valid account transaction of one of the basic kinds.
func (rs *rigState) wireBase(tt *kernel.Tape) (*txgen.Item, string) {
	g := rs.gen
	from := g.Accts[tt.Int(len(g.Accts))]
	dest := func() common.Address {
		if tt.Bool(1, 2) {
			return g.Accts[tt.Int(len(g.Accts))].Addr
		}
		return rs.freshAddr()
	}
	value := func() *big.Int {
		switch tt.Pick(1, 3, 2) {
		case 0:
			return new(big.Int)
		case 1:
			return txgen.LK(int64(1 + tt.Int(30)))
		default:
			return new(big.Int).SetUint64(1 + tt.Uint64()%5000000000000000000)
		}
	}
	switch tt.Pick(4, 2, 3, 2, 1) {
	case 0:
		return g.Transfer(from, dest(), value()), "transfer"
	case 1:
		return g.TokenTransfer(from, txgen.Native, dest(), value()), "tokentx-coin"
	case 2:
		if hs := rs.tokenHolders(); len(hs) > 0 {
			h := hs[tt.Int(len(hs))]
			amt := new(big.Int).Div(g.Avail(h.tok, h.a.Addr), big.NewInt(int64(1+tt.Int(4))))
			if cs := g.L.LiveContracts(txgen.CStore); len(cs) > 0 && tt.Bool(1, 3) {
				return g.TokenCall(h.a, txgen.KTokenContract, h.tok, cs[tt.Int(len(cs))], amt, nil, 0, false), "token-to-contract"
			}
			return g.TokenTransfer(h.a, h.tok, dest(), amt), "token-transfer"
		}
		return g.Transfer(from, dest(), value()), "transfer"
	case 3:
		if cs := g.L.LiveContracts(txgen.CStore); len(cs) > 0 {
			var data []byte
			if tt.Bool(1, 2) {
				data = txgen.CallStore(big.NewInt(int64(tt.Int(8))), big.NewInt(int64(1+tt.Int(3))), 1+tt.Int(2))
			}
			return g.Call(from, txgen.KCallStore, cs[tt.Int(len(cs))], value(), data, 0, false), "contract-call"
		}
		return g.Transfer(from, dest(), value()), "transfer"
	default:
		return g.Create(from, txgen.CStore, value(), 18), "creation"
	}
}

// wireRebuild applies mut to the wire image of an honest transaction and signs the result.
func (rs *rigState) wireRebuild(tt *kernel.Tape, it *txgen.Item, mut wireMutation) (types.Tx, bool, error) {
	acct := rs.gen.Account(it.From)
	if acct == nil {
		return nil, false, fmt.Errorf("no key for %x", it.From)
	}
	sn := rs.gen.L.Nonce(it.From)
	rule := func(create bool, to *common.Address, token common.Address, amount *big.Int, data []byte, tokenTx bool) (intr, need uint64) {
		// the smallest gas limit the documented rule admits for this shape
		// (used to aim at the boundary, never to judge)
		intr, _ = types.IntrinsicGas(data, create, config.EvmGasRate)
		hascode := to != nil && rs.gen.L.Contracts[*to] != nil
		switch {
		case create:
			need = intr + types.CalNewAmountGas(amount, types.EverContractLiankeFee)
		case hascode && token == txgen.Native && amount.Sign() > 0:
			need = types.CalNewAmountGas(amount, types.EverContractLiankeFee)
		case hascode:
			need = intr
		case token == txgen.Native:
			need = types.CalNewAmountGas(amount, types.EverLiankeFee)
		default:
			need = uint64(types.MinGasLimit)
		}
		if need < intr {
			need = intr
		}
		return
	}
	switch tx := it.Tx.(type) {
	case *types.Transaction:
		raw, err := ser.EncodeToBytes(tx)
		if err != nil {
			return nil, false, err
		}
		var w wireTx
		if err := ser.DecodeBytes(raw, &w); err != nil {
			return nil, false, fmt.Errorf("wire mirror of Transaction out of sync: %v", err)
		}
		if w.AccountNonce != tx.Nonce() || w.GasLimit != tx.Gas() || w.Price.Cmp(tx.GasPrice()) != 0 || w.Amount.Cmp(tx.Value()) != 0 {
			return nil, false, fmt.Errorf("wire mirror of Transaction out of sync")
		}
		intr, need := rule(w.Recipient == nil, w.Recipient, txgen.Native, w.Amount, w.Payload, false)
		if !mut.apply(tt, wireFields{nonce: &w.AccountNonce, price: &w.Price, gas: &w.GasLimit, amount: &w.Amount, to: w.Recipient, data: w.Payload, create: w.Recipient == nil}, intr, need, sn) {
			return nil, false, nil
		}
		if raw, err = ser.EncodeToBytes(&w); err != nil {
			return nil, false, nil // not encodable: cannot exist on the wire
		}
		out := new(types.Transaction)
		if err := ser.DecodeBytes(raw, out); err != nil {
			return nil, false, nil
		}
		if err := out.Sign(types.GlobalSTDSigner, acct.Key); err != nil {
			return nil, false, err
		}
		fresh, err := txgen.CloneTx(out)
		return fresh, err == nil, err
	case *types.TokenTransaction:
		raw, err := ser.EncodeToBytes(tx)
		if err != nil {
			return nil, false, err
		}
		var w wireTokenTx
		if err := ser.DecodeBytes(raw, &w); err != nil {
			return nil, false, fmt.Errorf("wire mirror of TokenTransaction out of sync: %v", err)
		}
		if w.AccountNonce != tx.Nonce() || w.GasLimit != tx.Gas() || w.Price.Cmp(tx.GasPrice()) != 0 || w.Amount.Cmp(tx.Value()) != 0 || w.TokenAddress != tx.TokenAddress() {
			return nil, false, fmt.Errorf("wire mirror of TokenTransaction out of sync")
		}
		intr, need := rule(false, w.Recipient, w.TokenAddress, w.Amount, w.Payload, true)
		if !mut.apply(tt, wireFields{nonce: &w.AccountNonce, price: &w.Price, gas: &w.GasLimit, amount: &w.Amount, to: w.Recipient, data: w.Payload}, intr, need, sn) {
			return nil, false, nil
		}
		if raw, err = ser.EncodeToBytes(&w); err != nil {
			return nil, false, nil
		}
		out := new(types.TokenTransaction)
		if err := ser.DecodeBytes(raw, out); err != nil {
			return nil, false, nil
		}
		if err := out.Sign(types.GlobalSTDSigner, acct.Key); err != nil {
			return nil, false, err
		}
		fresh, err := txgen.CloneTx(out)
		return fresh, err == nil, err
	}
	return nil, false, nil
}

// wireRound offers a few wire-level assembled account transactions. Pending
// generator state must be empty (it is reset afterwards).
func (rs *rigState) wireRound() {
	c, g := rs.c, rs.gen
	tt := c.Tape.Fork("wire")
	n := 1 + tt.Int(2)
	for i := 0; i < n && !c.Failed(); i++ {
		g.Reset()
		it, shape := rs.wireBase(tt)
		if it == nil {
			c.Probe("wire-no-base")
			continue
		}
		mut := wireMutations[tt.Int(len(wireMutations))]
		if tt.Bool(1, 3) {
			mut = wireMutations[tt.Int(9)] // the price family
		}
		tx, ok, err := rs.wireRebuild(tt, it, mut)
		if err != nil {
			c.HarnessTrouble("wire: %v", err)
			return
		}
		if !ok {
			c.Probe("wire-not-applicable/" + mut.name)
			continue
		}
		name := shape + "/" + mut.name
		c.Fault("wire/" + name)
		c.Evals(1)
		poolTx, _ := txgen.CloneTx(tx)
		errPool := rs.K.Submit(poolTx)
		if errPool == nil {
			c.Probe("wire-accepted-by-mempool/" + mut.name)
		}
		blockTx, _ := txgen.CloneTx(tx)
		block, _, perr := rs.T.Propose(txgen.BlockSpec{Explicit: true, Txs: types.Txs{blockTx}, Time: rs.now})
		if perr != nil {
			if _, isPanic := perr.(*txgen.ProposePanic); !isPanic {
				c.HarnessTrouble("propose wire-level transaction: %v", perr)
				return
			}
			c.Probe("wire-refused-by-proposer-stage")
			continue
		}
		blk, err := txgen.CloneBlock(block)
		if err != nil {
			c.HarnessTrouble("clone: %v", err)
			return
		}
		accepted, err := rs.K.Check(blk)
		if err != nil {
			c.Violate("panic", "panic/CheckBlock/wire/"+mut.name, "%s: %v", name, err)
			return
		}
		if !accepted {
			c.Probe("wire-refused-by-CheckBlock")
			continue
		}
		diff, committed, err := rs.supplyEffect(tx, txgen.Native, nil)
		if err != nil {
			c.HarnessTrouble("scratch replica: %v", err)
			return
		}
		c.Evals(1)
		if !committed {
			c.Probe("wire-accepted-but-not-committable")
			continue
		}
		if eff, changed := effectString(diff); changed {
			c.Violate("fees", "supply/changed-by-wire-level-transaction/"+mut.name, "a block carrying a wire-level assembled %s with %s (gas price %v, gas limit %d) was accepted; committing it on a scratch replica: %s (what the sender is charged must reach the fee collector)",
				shape, mut.name, priceOfTx(tx), gasOfTx(tx), eff)
			return
		}
		c.Probe("wire-accepted-and-conserving/" + mut.name)
	}
	g.Reset()
}

func priceOfTx(tx types.Tx) *big.Int {
	switch t := tx.(type) {
	case *types.Transaction:
		return t.GasPrice()
	case *types.TokenTransaction:
		return t.GasPrice()
	}
	return nil
}

func gasOfTx(tx types.Tx) uint64 {
	switch t := tx.(type) {
	case *types.Transaction:
		return t.Gas()
	case *types.TokenTransaction:
		return t.Gas()
	}
	return 0
}
