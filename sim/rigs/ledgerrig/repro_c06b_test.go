package ledgerrig

// Direct reproductions (real code path: CreateBlock/PreRunBlock -> CheckBlock
// on a second replica -> CommitBlock -> state) for the directed part of the
// C06 workload. Run with:
//
//   cd /verif/sim && . ../env.sh && mkoverlay && \
//   go1.26.8 test -tags verif -overlay /verif/build/overlay.json ./rigs/ledgerrig -run 'TestRepro|TestControl' -v

import (
	"math/big"
	"testing"

	"github.com/lianxiangcloud/linkchain/libs/common"
	"github.com/lianxiangcloud/linkchain/libs/crypto"

	"verif/sim/txgen"
)

// tokenSupply sums one token over every account of the trie replica.
func (rc *reproChain) tokenSupply(tok common.Address) *big.Int {
	sum := new(big.Int)
	for _, a := range rc.P.Chain.App.GetLatestStateDB().RawDump().Accounts {
		if v := a.Tokens[tok]; v != nil {
			sum.Add(sum, v)
		}
	}
	return sum
}

// TestReproTokensAtFutureContractAddress: an address holds an issued token
// (anyone can send it there: the address of a contract is a function of its
// creator, the creator's nonce and the code); a contract is then created at
// that address. StateDB.CreateAccount carries the coin balance of the existing
// account over to the new object, but not its token balances: the tokens are
// gone, total token supply shrinks outside the two designed exceptions.
func TestReproTokensAtFutureContractAddress(t *testing.T) {
	rc := newReproChain(t, 21)
	gen := rc.gen
	a, b := gen.Accts[0], gen.Accts[1]

	// block 1: an issuer; block 2: it issues 5000 units of its token to b
	mk := gen.Create(a, txgen.CIssuer, big.NewInt(0), 18)
	rc.commit([]*txgen.Item{mk}, false)
	tok := mk.NewAddr
	amount := new(big.Int).Mul(big.NewInt(5000), big.NewInt(1e10))
	issue := gen.Call(a, txgen.KCallIssue, tok, big.NewInt(0), txgen.CallIssue(amount, b.Addr), 0, false)
	rc.commit([]*txgen.Item{issue}, false)
	if got := rc.tokenSupply(tok); got.Cmp(amount) != 0 {
		t.Fatalf("control: token supply after the issue is %v, want %v", got, amount)
	}

	// block 3: b sends 1200 units of the token and 3 coins to the address a's next
	// contract will get, then a creates that contract (same block, in this order;
	// TestReproTokensAtFutureContractAddressLaterBlock: creation in a later block)
	create := gen.Create(a, txgen.CStore, txgen.LK(2), 18) // built first: its address is known now
	future := create.NewAddr
	sent := new(big.Int).Mul(big.NewInt(1200), big.NewInt(1e10))
	pay := gen.TokenTransfer(b, tok, future, sent)
	coin := gen.Transfer(b, future, txgen.LK(3))
	coinBefore := rc.supply()
	_, receipts := rc.commit([]*txgen.Item{pay, coin, create}, false)
	for i, r := range receipts {
		t.Logf("receipt %d: status %d %s contract %x", i, r.Status, r.VMErr, r.ContractAddress)
	}
	st := rc.P.Chain.App.GetLatestStateDB()
	t.Logf("after the block: address %x (code %d bytes) holds %v token units and %v wei; token supply %v", future, len(st.GetCode(future)), st.GetTokenBalance(future, tok), st.GetBalance(future), rc.tokenSupply(tok))
	if d := new(big.Int).Sub(rc.supply(), coinBefore); d.Sign() != 0 {
		t.Errorf("coin supply changed by %v", d)
	}
	if got := st.GetBalance(future); got.Cmp(txgen.LK(5)) != 0 {
		t.Errorf("coin at the new contract is %v, want 3 (held before) + 2 (endowment) coins", got)
	}
	if d := new(big.Int).Sub(amount, rc.tokenSupply(tok)); d.Sign() != 0 {
		t.Errorf("DEFECT REPRODUCED: %v token units vanished (the %v sent to the address before the contract was created there): CreateAccount carries over the coin balance only", d, sent)
	}
}

// TestReproTokensAtFutureContractAddressLaterBlock: the same with the tokens
// already committed at the address (loaded from the trie) when the contract is
// created in a later block.
func TestReproTokensAtFutureContractAddressLaterBlock(t *testing.T) {
	rc := newReproChain(t, 22)
	gen := rc.gen
	a, b := gen.Accts[0], gen.Accts[1]
	mk := gen.Create(a, txgen.CIssuer, big.NewInt(0), 10)
	rc.commit([]*txgen.Item{mk}, false)
	tok := mk.NewAddr
	amount := big.NewInt(777777)
	issue := gen.Call(a, txgen.KCallIssue, tok, big.NewInt(0), txgen.CallIssue(amount, b.Addr), 0, false)
	rc.commit([]*txgen.Item{issue}, false)

	// the generator numbers its contract codes: the code (and with it the address)
	// of a's next creation follows from a throw-away creation built now
	probe := gen.Create(a, txgen.CStore, big.NewInt(0), 18)
	gen.Reset()
	nextCode := txgen.ContractCode(txgen.CStore, probe.Data[1]+1, 18)
	future := crypto.CreateAddress(a.Addr, gen.L.Nonce(a.Addr), nextCode)

	sent := big.NewInt(555555)
	pay := gen.TokenTransfer(b, tok, future, sent)
	rc.commit([]*txgen.Item{pay}, false)
	st := rc.P.Chain.App.GetLatestStateDB()
	t.Logf("block 3: address %x holds %v token units; token supply %v", future, st.GetTokenBalance(future, tok), rc.tokenSupply(tok))
	if got := rc.tokenSupply(tok); got.Cmp(amount) != 0 {
		t.Fatalf("control: token supply after the transfer is %v, want %v", got, amount)
	}

	create := gen.Create(a, txgen.CStore, big.NewInt(0), 18)
	if create.NewAddr != future {
		t.Fatalf("harness: the creation got address %x, predicted %x", create.NewAddr, future)
	}
	_, receipts := rc.commit([]*txgen.Item{create}, false)
	st = rc.P.Chain.App.GetLatestStateDB()
	t.Logf("block 4: creation status %d; address %x (code %d bytes) holds %v token units; token supply %v", receipts[0].Status, future, len(st.GetCode(future)), st.GetTokenBalance(future, tok), rc.tokenSupply(tok))
	if d := new(big.Int).Sub(amount, rc.tokenSupply(tok)); d.Sign() != 0 {
		t.Errorf("DEFECT REPRODUCED: %v token units vanished when the contract was created at the address holding them", d)
	}
}
