package ledgerrig

import (
	"fmt"
	"math/big"

	"github.com/lianxiangcloud/linkchain/config"
	"github.com/lianxiangcloud/linkchain/libs/common"
	"github.com/lianxiangcloud/linkchain/libs/crypto"
	"github.com/lianxiangcloud/linkchain/types"

	"verif/sim/kernel"
	"verif/sim/txgen"
)

// Directed part of the workload: effects that the kind-by-kind random mix
// reaches only by accident or not at all. Every block of a run that has the
// directed part switched on gets, after its random transactions, a few
// transactions of these families (all built with the generator's explicit
// builders, so the reference ledger models them like everything else):
//
//   - contracts holding coin AND issued tokens that execute SELFDESTRUCT more
//     than once per block (several transactions) and more than once per
//     transaction (through a contract that calls its target k times), towards
//     itself / a fresh address / an account / another contract / a contract
//     that died earlier in the block, with value or tokens arriving in between;
//   - the same inside frames that are reverted afterwards (REVERT or INVALID
//     after the inner calls succeeded, at depth 1 and 2), followed by the real
//     thing in the same block: journal paths of SELFDESTRUCT, ISSUE,
//     TRANSFERTOKEN and value-carrying CALL with tokens involved;
//   - a contract paying coin and tokens out of its holdings with TRANSFERTOKEN
//     (covered / not covered / reverted afterwards / repeated);
//   - value-carrying call trees whose gas limit is swept across the point
//     where the transfer fees of the inner calls are paid (fails at different
//     depths; fee refunds);
//   - issued tokens entering and leaving the confidential pool.
//
// The oracle is the one of the rig: per-token supply over all accounts of the
// trie + hidden outputs, and every known account against the ledger.

const (
	kScFund     txgen.Kind = "sc-fund"
	kScIssue    txgen.Kind = "sc-issue-to"
	kScKill     txgen.Kind = "sc-kill"
	kScKillTok  txgen.Kind = "sc-kill-carrying-token"
	kScKillRep  txgen.Kind = "sc-kill-repeated-in-tx"
	kScKillNest txgen.Kind = "sc-kill-nested"
	kScAfter    txgen.Kind = "sc-send-after-kill"
	kScVault    txgen.Kind = "sc-vault-pay"
	kScVaultRep txgen.Kind = "sc-vault-pay-repeated"
	kScIssueRep txgen.Kind = "sc-issue-repeated"
	kScTight    txgen.Kind = "sc-tight-gas-tree"
	kScTokCall  txgen.Kind = "sc-token-carrying-call"
)

type scenario struct {
	t     *kernel.Tape
	on    bool
	fresh int
	// contracts created in the block being generated (not yet in the ledger)
	newKind map[common.Address]txgen.ContractKind
	// contracts this block already sent a SELFDESTRUCT to
	killed []common.Address
}

func (rs *rigState) freshAddr() common.Address {
	rs.sc.fresh++
	var a common.Address
	copy(a[:], crypto.Keccak256([]byte(fmt.Sprintf("c06-scenario-fresh-%d-%d", rs.c.Tape.Seed(), rs.sc.fresh)))[:20])
	return a
}

// contractsOf lists committed contracts of a kind plus the ones created earlier in this block.
func (rs *rigState) contractsOf(kind txgen.ContractKind) []common.Address {
	out := rs.gen.L.LiveContracts(kind)
	var extra []common.Address
	for a, k := range rs.sc.newKind {
		if k == kind {
			extra = append(extra, a)
		}
	}
	sortAddrs(extra)
	return append(out, extra...)
}

func sortAddrs(as []common.Address) {
	for i := 1; i < len(as); i++ {
		for j := i; j > 0 && string(as[j][:]) < string(as[j-1][:]); j-- {
			as[j], as[j-1] = as[j-1], as[j]
		}
	}
}

func (rs *rigState) pick(list []common.Address) (common.Address, bool) {
	if len(list) == 0 {
		return common.Address{}, false
	}
	return list[rs.sc.t.Int(len(list))], true
}

func (rs *rigState) acct() *txgen.Account { return rs.gen.Accts[rs.sc.t.Int(len(rs.gen.Accts))] }

// coins draws a small coin amount (0 allowed when zeroOK).
func (rs *rigState) coins(zeroOK bool) *big.Int {
	t := rs.sc.t
	switch t.Pick(3, 3, 2, 1) {
	case 0:
		if zeroOK {
			return new(big.Int)
		}
		return big.NewInt(1)
	case 1:
		return txgen.LK(int64(1 + t.Int(12)))
	case 2:
		v := txgen.LK(int64(1 + t.Int(9)))
		return v.Add(v, big.NewInt(int64(t.Int(3))-1)) // straddles a whole coin: the fee is per started coin
	default:
		return big.NewInt(int64(1 + t.Int(1000)))
	}
}

func (rs *rigState) tokenAmount() *big.Int {
	t := rs.sc.t
	v := new(big.Int).Mul(big.NewInt(int64(1+t.Int(100000))), big.NewInt(1e10))
	if t.Bool(1, 4) {
		v.Add(v, big.NewInt(int64(t.Int(1000)))) // issued tokens need not be multiples of anything
	}
	return v
}

// beneficiary draws the target of a SELFDESTRUCT of s.
func (rs *rigState) beneficiary(s common.Address) (common.Address, string) {
	t := rs.sc.t
	switch t.Pick(2, 1, 3, 3, 3, 2) {
	case 0:
		return common.Address{}, "itself"
	case 1:
		return s, "itself-by-address"
	case 2:
		return rs.freshAddr(), "fresh"
	case 3:
		return rs.acct().Addr, "account"
	case 4:
		var cs []common.Address
		for _, k := range []txgen.ContractKind{txgen.CStore, txgen.CVault, txgen.CSuicide, txgen.CIssuer, txgen.CRepeat} {
			cs = append(cs, rs.contractsOf(k)...)
		}
		if c, ok := rs.pick(cs); ok {
			if c == s {
				return s, "itself-by-address"
			}
			return c, "contract"
		}
		return rs.freshAddr(), "fresh"
	default:
		if c, ok := rs.pick(rs.sc.killed); ok && c != s {
			return c, "dead-contract"
		}
		return rs.acct().Addr, "account"
	}
}

// issuers with valid decimals (committed or created earlier in this block)
func (rs *rigState) issuer() (common.Address, bool) { return rs.pick(rs.contractsOf(txgen.CIssuer)) }

// scenarioItems generates the directed transactions of one block. They are
// appended to the block's random batch (same pending view).
func (rs *rigState) scenarioItems() []*txgen.Item {
	sc, g := rs.sc, rs.gen
	if !sc.on {
		return nil
	}
	t := sc.t
	if t.Pick(1, 3) == 0 {
		return nil // this block stays purely random (and may go through the mempool)
	}
	sc.newKind = map[common.Address]txgen.ContractKind{}
	sc.killed = nil
	var out []*txgen.Item
	add := func(it *txgen.Item) bool {
		if it == nil {
			rs.c.Probe("scenario-item-unbuildable")
			return false
		}
		out = append(out, it)
		return true
	}
	create := func(kind txgen.ContractKind, endow *big.Int, dec byte) {
		it := g.Create(rs.acct(), kind, endow, dec)
		if add(it) {
			sc.newKind[it.NewAddr] = kind
		}
	}
	// the cast: two contracts that can die, an issuer, a repeater, a vault, a forwarder
	want := []struct {
		k txgen.ContractKind
		n int
	}{{txgen.CSuicide, 2}, {txgen.CIssuer, 1}, {txgen.CRepeat, 1}, {txgen.CVault, 1}, {txgen.CForward, 1}}
	for _, w := range want {
		for have := len(rs.contractsOf(w.k)); have < w.n; have++ {
			endow := new(big.Int)
			if w.k != txgen.CIssuer && t.Bool(1, 2) {
				endow = rs.coins(true)
			}
			create(w.k, endow, []byte{10, 18, 18, 8}[t.Int(4)])
		}
	}
	nAct := 1 + t.Int(3)
	for i := 0; i < nAct; i++ {
		switch t.Pick(6, 3, 3, 2, 2, 1, 3, 2) {
		case 7:
			out = append(out, rs.scPrefund()...)
		case 6:
			out = append(out, rs.scTokenCalls()...)
		case 0:
			out = append(out, rs.scKills()...)
		case 1:
			out = append(out, rs.scVault()...)
		case 2:
			out = append(out, rs.scTight()...)
		case 3:
			out = append(out, rs.scIssueRepeated()...)
		case 4:
			out = append(out, rs.scTokenPool()...)
		default:
			// one more mortal contract, so that later blocks have something left to kill
			create(txgen.CSuicide, rs.coins(true), 18)
		}
	}
	for _, it := range out {
		if it != nil {
			rs.c.Probe("scenario/" + string(it.Kind))
		}
	}
	return out
}

// fund gives contract s coin and/or issued tokens (transactions of this block).
func (rs *rigState) fund(s common.Address, out *[]*txgen.Item) {
	t, g := rs.sc.t, rs.gen
	if t.Bool(2, 3) {
		if it := g.Call(rs.acct(), kScFund, s, rs.coins(false), nil, 0, false); it != nil {
			*out = append(*out, it)
		}
	}
	nTok := t.Pick(1, 4, 2)
	for k := 0; k < nTok; k++ {
		if is, ok := rs.issuer(); ok {
			if it := g.Call(rs.acct(), kScIssue, is, new(big.Int), txgen.CallIssue(rs.tokenAmount(), s), 0, false); it != nil {
				*out = append(*out, it)
			}
		}
	}
}

// killCall wraps the SELFDESTRUCT call of s into one of the call shapes.
func (rs *rigState) killCall(s, b common.Address, bname string) *txgen.Item {
	t, g := rs.sc.t, rs.gen
	inner := txgen.CallSuicide(b)
	from := rs.acct()
	shape := t.Pick(4, 4, 2, 2, 1)
	rep, haveRep := rs.pick(rs.contractsOf(txgen.CRepeat))
	fwd, haveFwd := rs.pick(rs.contractsOf(txgen.CForward))
	if (shape == 1 && !haveRep) || (shape >= 2 && shape <= 3 && !(haveRep && haveFwd)) {
		shape = 0
	}
	v := rs.coins(true)
	var it *txgen.Item
	switch shape {
	case 0:
		it = g.Call(from, kScKill, s, v, inner, 0, false)
	case 1, 2, 3:
		k := 1 + t.Int(3)
		mode := t.Pick(3, 3, 2, 1) // 0 strict, 1 lenient, 2 revert at the end, 3 INVALID at the end
		per := new(big.Int)
		switch t.Pick(2, 2, 1) {
		case 1:
			per = new(big.Int).Div(v, big.NewInt(int64(k)))
		case 2:
			per = new(big.Int).Set(v) // covered once only unless the repeater has funds of its own
		}
		switch shape {
		case 1:
			it = g.Call(from, kScKillRep, rep, v, txgen.CallRepeat(s, k, mode, per, inner), 0, false)
		case 2:
			// forwarder -> repeater -> s
			it = g.Call(from, kScKillNest, fwd, v, txgen.CallForward(rep, t.Bool(1, 2), txgen.CallRepeat(s, k, mode, per, inner)), 0, false)
		default:
			// repeater -> forwarder -> s (the forwarder passes its call value on)
			if mode == 3 && k > 2 {
				k = 2
			}
			it = g.Call(from, kScKillNest, rep, v, txgen.CallRepeat(fwd, k, mode, per, txgen.CallForward(s, t.Bool(1, 2), inner)), 0, false)
		}
		if it != nil {
			it.Note += fmt.Sprintf(" [x%d mode %d per-call %v]", k, mode, per)
		}
	default:
		// the call itself carries an issued token the sender holds
		type hold struct {
			a   *txgen.Account
			tok common.Address
		}
		var hs []hold
		for _, tok := range g.L.Tokens() {
			if tok == txgen.Native || g.L.OpaqueTokens[tok] {
				continue
			}
			for _, h := range g.L.HoldersOf(tok) {
				if a := g.Account(h); a != nil && g.Avail(tok, h).Sign() > 0 {
					hs = append(hs, hold{a, tok})
				}
			}
		}
		if len(hs) == 0 {
			it = g.Call(from, kScKill, s, v, inner, 0, false)
			break
		}
		h := hs[t.Int(len(hs))]
		av := g.Avail(h.tok, h.a.Addr)
		amt := new(big.Int).Div(av, big.NewInt(int64(1+t.Int(4))))
		it = g.TokenCall(h.a, kScKillTok, h.tok, s, amt, inner, 0, false)
	}
	if it != nil {
		it.Note += " beneficiary " + bname
	}
	return it
}

// scKills: a mortal contract is funded and then reached by SELFDESTRUCT
// several times in this block.
func (rs *rigState) scKills() []*txgen.Item {
	t, g := rs.sc.t, rs.gen
	s, ok := rs.pick(rs.contractsOf(txgen.CSuicide))
	if !ok {
		return nil
	}
	var out []*txgen.Item
	rs.fund(s, &out)
	n := 1 + t.Pick(1, 4, 2)
	for i := 0; i < n; i++ {
		b, bname := rs.beneficiary(s)
		if it := rs.killCall(s, b, bname); it != nil {
			out = append(out, it)
			rs.sc.killed = append(rs.sc.killed, s)
		}
		if i+1 < n && t.Bool(1, 3) {
			// more value reaches the dead contract before it is killed again
			if t.Bool(1, 2) {
				rs.fund(s, &out)
			} else if it := g.Call(rs.acct(), kScAfter, s, rs.coins(false), nil, 0, false); it != nil {
				out = append(out, it)
			}
		}
	}
	return out
}

// scVault: a contract pays coin / tokens out of its holdings with TRANSFERTOKEN.
func (rs *rigState) scVault() []*txgen.Item {
	t, g := rs.sc.t, rs.gen
	v, ok := rs.pick(rs.contractsOf(txgen.CVault))
	if !ok {
		return nil
	}
	var out []*txgen.Item
	if t.Bool(2, 3) {
		rs.fund(v, &out)
	}
	n := 1 + t.Int(3)
	for i := 0; i < n; i++ {
		// what it holds according to the ledger (funding of this block not included: may be more)
		tok := txgen.Native
		var toks []common.Address
		for _, x := range g.L.Tokens() {
			if !g.L.OpaqueTokens[x] && g.L.Balance(x, v).Sign() > 0 {
				toks = append(toks, x)
			}
		}
		if len(toks) > 0 {
			tok = toks[t.Int(len(toks))]
		} else if is, ok := rs.issuer(); ok && t.Bool(1, 2) {
			tok = is
		}
		held := g.L.Balance(tok, v)
		var amt *big.Int
		switch t.Pick(4, 2, 2, 1) {
		case 0:
			amt = new(big.Int).Div(held, big.NewInt(int64(1+t.Int(4))))
		case 1:
			amt = held
		case 2:
			amt = new(big.Int).Add(held, rs.tokenAmount()) // may exceed the holdings: the opcode reverts
		default:
			amt = new(big.Int)
		}
		to, _ := rs.beneficiary(v)
		if to == (common.Address{}) {
			to = v
		}
		mode := t.Pick(5, 2, 1)
		callv := new(big.Int)
		if t.Bool(1, 3) {
			callv = rs.coins(false)
		}
		rep, haveRep := rs.pick(rs.contractsOf(txgen.CRepeat))
		if haveRep && t.Bool(1, 3) {
			k := 1 + t.Int(2)
			rmode := t.Pick(2, 3, 2)
			if it := g.Call(rs.acct(), kScVaultRep, rep, callv, txgen.CallRepeat(v, k, rmode, new(big.Int), txgen.CallVault(to, tok, amt, mode)), 0, false); it != nil {
				it.Note += fmt.Sprintf(" [x%d mode %d vault mode %d amount %v]", k, rmode, mode, amt)
				out = append(out, it)
			}
			continue
		}
		if it := g.Call(rs.acct(), kScVault, v, callv, txgen.CallVault(to, tok, amt, mode), 0, false); it != nil {
			it.Note += fmt.Sprintf(" [vault mode %d amount %v]", mode, amt)
			out = append(out, it)
		}
	}
	return out
}

// scIssueRepeated: ISSUE + TRANSFERTOKEN executed several times in one
// transaction, kept or reverted afterwards.
func (rs *rigState) scIssueRepeated() []*txgen.Item {
	t, g := rs.sc.t, rs.gen
	is, ok1 := rs.issuer()
	rep, ok2 := rs.pick(rs.contractsOf(txgen.CRepeat))
	if !ok1 || !ok2 {
		return nil
	}
	to, _ := rs.beneficiary(is)
	if to == (common.Address{}) {
		to = rs.acct().Addr
	}
	k := 1 + t.Int(3)
	mode := t.Pick(2, 3, 3, 1)
	if mode == 3 && k > 2 {
		k = 2
	}
	it := g.Call(rs.acct(), kScIssueRep, rep, new(big.Int), txgen.CallRepeat(is, k, mode, new(big.Int), txgen.CallIssue(rs.tokenAmount(), to)), 0, false)
	if it == nil {
		return nil
	}
	it.Note += fmt.Sprintf(" [x%d mode %d]", k, mode)
	return []*txgen.Item{it}
}

// scTight: value-carrying call trees in which every frame reverts when its
// inner call fails (all or nothing), with a gas limit around the point where
// the transfer fees of the inner calls (charged as gas, at least 500000 each)
// are paid: the transaction fails at different depths, fees are refunded.
func (rs *rigState) scTight() []*txgen.Item {
	t, g := rs.sc.t, rs.gen
	rep, haveRep := rs.pick(rs.contractsOf(txgen.CRepeat))
	fwd, haveFwd := rs.pick(rs.contractsOf(txgen.CForward))
	if !haveRep && !haveFwd {
		return nil
	}
	// leaf: an account, a store contract, a mortal contract (dies), a vault (accepts)
	var leaf common.Address
	var inner []byte
	var out []*txgen.Item
	switch t.Pick(3, 2, 3, 1) {
	case 0:
		leaf = rs.acct().Addr
		if t.Bool(1, 2) {
			leaf = rs.freshAddr()
		}
	case 1:
		if c, ok := rs.pick(rs.contractsOf(txgen.CStore)); ok {
			leaf = c
			if t.Bool(1, 2) {
				inner = txgen.CallStore(big.NewInt(int64(t.Int(8))), big.NewInt(int64(t.Int(3))), 1+t.Int(3))
			}
		} else {
			leaf = rs.acct().Addr
		}
	case 2:
		if c, ok := rs.pick(rs.contractsOf(txgen.CSuicide)); ok {
			leaf = c
			if t.Bool(1, 2) {
				rs.fund(c, &out)
			}
			b, _ := rs.beneficiary(c)
			inner = txgen.CallSuicide(b)
			rs.sc.killed = append(rs.sc.killed, c)
		} else {
			leaf = rs.acct().Addr
		}
	default:
		if c, ok := rs.pick(rs.contractsOf(txgen.CVault)); ok {
			leaf = c
		} else {
			leaf = rs.acct().Addr
		}
	}
	v := rs.coins(false)
	var to common.Address
	var data []byte
	depthFees := 1 // value transfers below the top frame
	switch {
	case haveRep && haveFwd && t.Bool(1, 3):
		k := 1 + t.Int(2)
		to, data = fwd, txgen.CallForward(rep, false, txgen.CallRepeat(leaf, k, 0, new(big.Int).Div(v, big.NewInt(int64(k))), inner))
		depthFees = 1 + k
	case haveRep && (!haveFwd || t.Bool(1, 2)):
		k := 1 + t.Int(3)
		to, data = rep, txgen.CallRepeat(leaf, k, 0, new(big.Int).Div(v, big.NewInt(int64(k))), inner)
		depthFees = k
	default:
		to, data = fwd, txgen.CallForward(leaf, false, inner)
	}
	// the smallest limit the validity stage admits, plus a sweep over the fee steps
	intr, _ := types.IntrinsicGas(data, false, config.EvmGasRate)
	vfee := types.CalNewAmountGas(v, types.EverContractLiankeFee)
	gas := intr + vfee + uint64(500000*t.Int(depthFees+2)) + uint64(t.Int(120000))
	if t.Bool(1, 6) {
		// admitted by the validity stage, but the transfer fee of the top call
		// cannot be paid once the intrinsic gas is gone: fails before the VM runs
		gas = vfee + uint64(t.Int(int(intr)))
		if gas < intr {
			gas = intr
		}
	}
	it := g.Call(rs.acct(), kScTight, to, v, data, gas, true)
	if it == nil {
		return out
	}
	it.Note += fmt.Sprintf(" [%d inner transfers]", depthFees)
	return append(out, it)
}

// scPrefund: coin and issued tokens are sent to the address a contract is
// about to be created at (the address follows from creator, nonce and code);
// the creation comes later in the same block. Whatever the address held must
// still be there (or be accounted for) afterwards.
func (rs *rigState) scPrefund() []*txgen.Item {
	t, g := rs.sc.t, rs.gen
	creator := rs.acct()
	kind := []txgen.ContractKind{txgen.CStore, txgen.CSuicide, txgen.CVault, txgen.CRevert}[t.Int(4)]
	var mk *txgen.Item
	if t.Bool(1, 5) {
		mk = g.CreateFailing(creator, t.Int(3), rs.coins(true)) // constructor fails: nothing may change
	} else {
		mk = g.Create(creator, kind, rs.coins(true), 18)
	}
	if mk == nil {
		return nil
	}
	future := mk.NewAddr
	var out []*txgen.Item
	// senders other than the creator: their transactions precede the creation in the block
	if t.Bool(3, 4) {
		for _, h := range rs.tokenHolders() {
			if h.a == creator {
				continue
			}
			amt := new(big.Int).Div(g.Avail(h.tok, h.a.Addr), big.NewInt(int64(1+t.Int(4))))
			if it := g.TokenTransfer(h.a, h.tok, future, amt); it != nil {
				out = append(out, it)
			}
			if t.Bool(1, 2) {
				break
			}
		}
	}
	if t.Bool(1, 2) {
		from := rs.acct()
		if from != creator {
			if it := g.Transfer(from, future, rs.coins(false)); it != nil {
				out = append(out, it)
			}
		}
	}
	if len(out) > 0 {
		rs.c.Probe("scenario/prefunded-creation")
	}
	if !mk.CreateFails {
		rs.sc.newKind[future] = kind
	}
	return append(out, mk)
}

// tokenHolders lists (generator account, issued token) pairs with something left to spend.
type tokenHold struct {
	a   *txgen.Account
	tok common.Address
}

func (rs *rigState) tokenHolders() []tokenHold {
	g := rs.gen
	var hs []tokenHold
	for _, tok := range g.L.Tokens() {
		if tok == txgen.Native || g.L.OpaqueTokens[tok] {
			continue
		}
		for _, h := range g.L.HoldersOf(tok) {
			if a := g.Account(h); a != nil && g.Avail(tok, h).Sign() > 0 {
				hs = append(hs, tokenHold{a, tok})
			}
		}
	}
	return hs
}

// scTokenCalls: contract calls that carry an issued token as their call value
// and succeed, revert, hit INVALID, or have their inner calls fail: the token
// must end up on the callee or back on the sender, nowhere else.
func (rs *rigState) scTokenCalls() []*txgen.Item {
	t, g := rs.sc.t, rs.gen
	hs := rs.tokenHolders()
	if len(hs) == 0 {
		// nobody holds an issued token yet: issue some to a generator account
		if is, ok := rs.issuer(); ok {
			a := rs.acct()
			if it := g.Call(a, kScIssue, is, new(big.Int), txgen.CallIssue(rs.tokenAmount(), a.Addr), 0, false); it != nil {
				return []*txgen.Item{it}
			}
		}
		return nil
	}
	var out []*txgen.Item
	n := 1 + t.Int(3)
	for i := 0; i < n; i++ {
		hs = rs.tokenHolders()
		if len(hs) == 0 {
			break
		}
		h := hs[t.Int(len(hs))]
		av := g.Avail(h.tok, h.a.Addr)
		amt := new(big.Int).Div(av, big.NewInt(int64(1+t.Int(5))))
		if t.Bool(1, 6) {
			amt = av
		}
		var to common.Address
		var data []byte
		note := ""
		switch t.Pick(4, 3, 2, 2, 1) {
		case 0:
			// vault: keeps the token it is sent, pays something out (or fails doing so)
			v, ok := rs.pick(rs.contractsOf(txgen.CVault))
			if !ok {
				continue
			}
			tok := h.tok
			if t.Bool(1, 4) {
				tok = txgen.Native
			}
			pay := new(big.Int).Div(g.L.Balance(tok, v), big.NewInt(int64(1+t.Int(3))))
			switch t.Pick(3, 2, 2) {
			case 1:
				pay = new(big.Int).Add(amt, g.L.Balance(tok, v)) // the token just received included (coin: not covered)
			case 2:
				pay = new(big.Int).Add(new(big.Int).Add(amt, g.L.Balance(tok, v)), rs.tokenAmount()) // not covered
			}
			dst, _ := rs.beneficiary(v)
			if dst == (common.Address{}) {
				dst = h.a.Addr
			}
			mode := t.Pick(4, 3, 1)
			to, data, note = v, txgen.CallVault(dst, tok, pay, mode), fmt.Sprintf("vault mode %d pays %v", mode, pay)
		case 1:
			// repeater over a vault / a mortal contract / an issuer (no forwarder below:
			// CALLVALUE is zero in every frame of a token transaction)
			rep, ok := rs.pick(rs.contractsOf(txgen.CRepeat))
			if !ok {
				continue
			}
			var leaf common.Address
			var inner []byte
			switch t.Pick(2, 2, 1) {
			case 0:
				if v, ok := rs.pick(rs.contractsOf(txgen.CVault)); ok {
					dst, _ := rs.beneficiary(v)
					leaf, inner = v, txgen.CallVault(dst, h.tok, new(big.Int).Div(g.L.Balance(h.tok, v), big.NewInt(2)), t.Pick(3, 1))
				}
			case 1:
				if c, ok := rs.pick(rs.contractsOf(txgen.CSuicide)); ok {
					b, _ := rs.beneficiary(c)
					leaf, inner = c, txgen.CallSuicide(b)
					rs.sc.killed = append(rs.sc.killed, c)
				}
			default:
				if is, ok := rs.issuer(); ok {
					leaf, inner = is, txgen.CallIssue(rs.tokenAmount(), rs.acct().Addr)
				}
			}
			if leaf == (common.Address{}) {
				continue
			}
			k, mode := 1+t.Int(2), t.Pick(2, 2, 2, 1)
			per := new(big.Int)
			if t.Bool(1, 3) {
				per = rs.coins(false) // out of the repeater's own coin, if it has any
			}
			to, data, note = rep, txgen.CallRepeat(leaf, k, mode, per, inner), fmt.Sprintf("x%d mode %d per-call %v", k, mode, per)
		case 2:
			c, ok := rs.pick(rs.contractsOf(txgen.CRevert))
			if !ok {
				continue
			}
			to, data, note = c, txgen.CallRevert(t.Bool(1, 3)), "always fails"
		case 3:
			// a mortal contract dies while receiving the token
			c, ok := rs.pick(rs.contractsOf(txgen.CSuicide))
			if !ok {
				continue
			}
			b, bn := rs.beneficiary(c)
			to, data, note = c, txgen.CallSuicide(b), "dies, beneficiary "+bn
			rs.sc.killed = append(rs.sc.killed, c)
		default:
			f, ok := rs.pick(rs.contractsOf(txgen.CForward))
			if !ok {
				continue
			}
			tgt := rs.acct().Addr
			if c, ok := rs.pick(rs.contractsOf(txgen.CRevert)); ok && t.Bool(1, 2) {
				tgt = c
			}
			sw := t.Bool(1, 2)
			to, data, note = f, txgen.CallForward(tgt, sw, nil), fmt.Sprintf("forwarder (lenient %v)", sw)
		}
		if it := g.TokenCall(h.a, kScTokCall, h.tok, to, amt, data, 0, false); it != nil {
			it.Note += " [" + note + "]"
			out = append(out, it)
		}
	}
	return out
}

// scTokenPool: issued tokens enter / leave the confidential pool.
func (rs *rigState) scTokenPool() []*txgen.Item {
	t, g := rs.sc.t, rs.gen
	if !txgen.UtxoReady() {
		return nil
	}
	var out []*txgen.Item
	for _, tok := range g.L.Tokens() {
		if tok == txgen.Native || g.L.OpaqueTokens[tok] || g.UnitOf(tok) == nil {
			continue
		}
		// spend first (outputs of earlier blocks), then hide more
		for _, w := range g.Wallets() {
			has := false
			for _, h := range g.L.Hidden[tok] {
				if h.Owner == w.Index && !h.Spent {
					has = true
				}
			}
			if has && t.Bool(1, 2) {
				if it := g.UtxoSpend(txgen.SpendOpts{Wallet: w, Token: tok, ToAccount: t.Bool(2, 3)}); it != nil {
					out = append(out, it)
				}
			}
		}
		for _, h := range g.L.HoldersOf(tok) {
			if a := g.Account(h); a != nil && g.Avail(tok, h).Cmp(g.UnitOf(tok)) >= 0 && t.Bool(1, 2) {
				if it := g.AccToUtxo(a, tok); it != nil {
					out = append(out, it)
				}
				break
			}
		}
		if len(out) >= 3 {
			break
		}
	}
	if len(out) == 0 {
		// nobody holds an issued token yet: issue some to a generator account
		if is, ok := rs.issuer(); ok {
			a := rs.acct()
			if it := g.Call(a, kScIssue, is, new(big.Int), txgen.CallIssue(new(big.Int).Mul(big.NewInt(int64(1+t.Int(100000))), big.NewInt(1e10)), a.Addr), 0, false); it != nil {
				out = append(out, it)
			}
		}
	}
	return out
}
