package ledgerrig

// Direct reproductions, against the real code path (mempool AddTx ->
// CreateBlock/PreRunBlock -> CheckBlock on a second replica -> CommitBlock ->
// state), of the two C06 findings. Run with:
//
//   cd /verif/sim && . ../env.sh && mkoverlay && \
//   go1.26.8 test -tags verif -overlay /verif/build/overlay.json ./rigs/ledgerrig -run TestRepro -v

import (
	"math/big"
	"testing"

	"github.com/lianxiangcloud/linkchain/libs/common"
	"github.com/lianxiangcloud/linkchain/types"

	"verif/sim/kernel"
	"verif/sim/simdb"
	"verif/sim/simnode"
	"verif/sim/txgen"
)

type reproChain struct {
	t    *testing.T
	gen  *txgen.Gen
	P, V *txgen.Replica
	now  uint64
}

func newReproChain(t *testing.T, seed uint64) *reproChain {
	tape := kernel.NewTape(seed)
	vals := valKeys(seed, 1)
	gen := txgen.New(tape, txgen.Config{Accounts: 3, Utxo: true, Validators: vals, Kinds: []txgen.Kind{txgen.KTransfer}})
	open := func(name string, isTrie bool) *txgen.Replica {
		spec := &simnode.GenesisSpec{ChainID: "verif-repro", Vals: vals, Alloc: gen.Alloc(), IsTrie: isTrie}
		disk := simdb.NewDisk(t.TempDir())
		if err := spec.Install(disk); err != nil {
			t.Fatal(err)
		}
		r, err := txgen.OpenReplica(name, spec, disk, simnode.ChainOpts{})
		if err != nil {
			t.Fatal(err)
		}
		return r
	}
	rc := &reproChain{t: t, gen: gen, P: open("proposer", true), V: open("validator", false), now: 946684900}
	gen.Outputs = func(token common.Address, seq uint64) (*types.UTXOOutputData, error) {
		return rc.P.Chain.UtxoStore.GetUtxoOutput(token, seq)
	}
	return rc
}

// commit builds a block from the proposer's mempool (viaPool) or from the
// explicit list, has the validator replica check it, and commits it on both.
func (rc *reproChain) commit(items []*txgen.Item, viaPool bool) (*types.Block, types.Receipts) {
	t := rc.t
	bs := txgen.BlockSpec{Time: rc.now}
	rc.now += 5
	if viaPool {
		for _, it := range items {
			if err := rc.P.Submit(it.Tx); err != nil {
				t.Fatalf("mempool refused %s: %v", it.Note, err)
			}
		}
	} else {
		bs.Explicit, bs.Txs = true, txgen.Txs(items)
	}
	block, parts, err := rc.P.Propose(bs)
	if err != nil {
		t.Fatal(err)
	}
	if len(block.Data.Txs) != len(items) {
		t.Fatalf("block carries %d txs, want %d", len(block.Data.Txs), len(items))
	}
	seen, err := rc.P.SignCommit(block, parts)
	if err != nil {
		t.Fatal(err)
	}
	for _, r := range []*txgen.Replica{rc.P, rc.V} {
		blk, _ := txgen.CloneBlock(block)
		ok, err := r.Check(blk)
		if err != nil || !ok {
			t.Fatalf("replica %s: CheckBlock = %v, %v", r.Name, ok, err)
		}
		if _, err := r.Commit(blk, blk.MakePartSet(partSize(r)), seen, false); err != nil {
			t.Fatal(err)
		}
	}
	receipts := rc.P.Receipts(block.Height)
	if _, err := rc.gen.Committed(block.Height, block.Data.Txs, receipts); err != nil {
		t.Fatal(err)
	}
	return block, receipts
}

// supply sums the coin over every account of the trie replica.
func (rc *reproChain) supply() *big.Int {
	sum := new(big.Int)
	for _, a := range rc.P.Chain.App.GetLatestStateDB().RawDump().Accounts {
		b, _ := new(big.Int).SetString(a.Balance, 10)
		sum.Add(sum, b)
	}
	return sum
}

// TestReproShortRingInflation: a hidden output worth A is spent with a ring of
// one member while the transaction claims it holds A + X; the mempool accepts
// the transaction, an honest proposer puts it in a block, a second replica
// accepts the block, and the recipient account is credited with value that
// never existed.
func TestReproShortRingInflation(t *testing.T) {
	if !txgen.UtxoReady() {
		t.Skip("xcrypto model not installed")
	}
	rc := newReproChain(t, 7)
	gen := rc.gen
	genesis := rc.supply()

	// block 1: an account funds hidden outputs
	var fund *txgen.Item
	for i := 0; i < 50 && fund == nil; i++ {
		fund = gen.AccToUtxo(gen.Accts[0], txgen.Native)
	}
	if fund == nil {
		t.Fatalf("could not build the funding tx: %v", gen.LastUtxoError)
	}
	rc.commit([]*txgen.Item{fund}, true)
	hiddenBefore := gen.L.HiddenSupply(txgen.Native)
	t.Logf("after funding: accounts %v + hidden %v = %v (genesis %v)", rc.supply(), hiddenBefore, new(big.Int).Add(rc.supply(), hiddenBefore), genesis)

	// block 2: spend one hidden output to an account with ring size 1, claiming 100000 coins more than it holds
	surplus := txgen.LK(100000)
	var w *txgen.Wallet
	for _, x := range gen.Wallets() {
		for _, h := range gen.L.Hidden[txgen.Native] {
			if h.Owner == x.Index {
				w = x
			}
		}
	}
	var atk *txgen.Item
	for i := 0; i < 50 && atk == nil; i++ {
		atk = gen.UtxoSpend(txgen.SpendOpts{Wallet: w, Token: txgen.Native, ToAccount: true, RingSize: 1, Inflate: surplus})
	}
	if atk == nil {
		t.Fatalf("could not build the attack tx: %v", gen.LastUtxoError)
	}
	t.Logf("attack: %s", atk.Note)
	utx := atk.Tx.(*types.UTXOTransaction)
	var to common.Address
	var credited *big.Int
	for _, o := range utx.Outputs {
		if ao, ok := o.(*types.AccountOutput); ok {
			to, credited = ao.To, ao.Amount
		}
	}
	before := rc.P.Chain.App.GetLatestStateDB().GetBalance(to)
	err := rc.P.Submit(atk.Tx)
	t.Logf("mempool AddTx(attack) = %v", err)
	if err != nil {
		t.Logf("FIXED? the mempool refuses the inflated short-ring spend: %v", err)
		return
	}
	rc.commit([]*txgen.Item{atk}, false) // same tx object as submitted: the pool already holds it
	after := rc.P.Chain.App.GetLatestStateDB().GetBalance(to)
	hiddenAfter := gen.L.HiddenSupply(txgen.Native)
	total := new(big.Int).Add(rc.supply(), hiddenAfter)
	t.Logf("recipient %x: %v -> %v (credited %v)", to, before, after, credited)
	t.Logf("after attack: accounts %v + hidden %v = %v (genesis %v)", rc.supply(), hiddenAfter, total, genesis)
	if d := new(big.Int).Sub(total, genesis); d.Sign() > 0 {
		t.Errorf("DEFECT REPRODUCED: total supply grew by %v wei (= the forged surplus %v): the ring-size-1 path does not bind the pseudo-out commitment to the spent output's commitment", d, surplus)
	}
}

// TestReproValueSentAfterSelfdestruct: value sent to a contract later in the
// block in which it self-destructed disappears.
func TestReproValueSentAfterSelfdestruct(t *testing.T) {
	rc := newReproChain(t, 9)
	gen := rc.gen
	genesis := rc.supply()
	a := gen.Accts[0]
	create := gen.Create(a, txgen.CSuicide, txgen.LK(3), 18)
	rc.commit([]*txgen.Item{create}, false)
	c := create.NewAddr
	kill := gen.Call(a, txgen.KCallSuicide, c, big.NewInt(0), txgen.CallSuicide(gen.Accts[1].Addr), 0, false)
	late := gen.Call(gen.Accts[2], txgen.KCallDying, c, txgen.LK(5), nil, 0, false)
	_, receipts := rc.commit([]*txgen.Item{kill, late}, false)
	for i, r := range receipts {
		t.Logf("receipt %d: status %d %s", i, r.Status, r.VMErr)
	}
	total := rc.supply()
	t.Logf("genesis %v, now %v", genesis, total)
	if d := new(big.Int).Sub(genesis, total); d.Sign() != 0 {
		t.Errorf("DEFECT REPRODUCED: %v wei vanished (5 coins sent to the contract after its SELFDESTRUCT in the same block)", d)
	}
}

// TestLeadStaleCallAfterSelfdestructPanicsProposer (a lead for C15/C16, not a
// C06 matter): a call with contract-style gas sits in the mempool; the
// contract self-destructs in block N; the mempool's recheck (state check only)
// keeps the call; the next CreateBlock reaps it and PreRunBlock panics because
// the gas rule for a code-less destination now rejects it at the validity
// stage ("PreRunBlock: processBlock fail, should not happen!!!").
func TestLeadStaleCallAfterSelfdestructPanicsProposer(t *testing.T) {
	rc := newReproChain(t, 11)
	gen := rc.gen
	a, b := gen.Accts[0], gen.Accts[1]
	create := gen.Create(a, txgen.CSuicide, big.NewInt(0), 18)
	rc.commit([]*txgen.Item{create}, false)
	c := create.NewAddr
	// b's call goes to the proposer's mempool and stays there
	call := gen.Call(b, txgen.KValueContract, c, txgen.LK(1), nil, 0, false)
	if err := rc.P.Submit(call.Tx); err != nil {
		t.Fatalf("mempool refused the call: %v", err)
	}
	// block N: only the self-destruct (explicit list), the call stays pooled
	gen.Reset()
	kill := gen.Call(a, txgen.KCallSuicide, c, big.NewInt(0), txgen.CallSuicide(a.Addr), 0, false)
	rc.commit([]*txgen.Item{kill}, false)
	t.Logf("after the self-destruct the proposer's pool still holds %d good tx", rc.P.Chain.Mempool.GoodTxsSize())
	// block N+1 from the pool
	_, _, err := rc.P.Propose(txgen.BlockSpec{Time: rc.now})
	if err != nil {
		t.Errorf("LEAD REPRODUCED: proposing from the mempool after the self-destruct: %v", err)
	}
}
