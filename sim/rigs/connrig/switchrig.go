package connrig

import (
	"fmt"
	"net"
	"sync"
	"testing/synctest"
	"time"

	"github.com/lianxiangcloud/linkchain/config"
	"github.com/lianxiangcloud/linkchain/libs/crypto"
	"github.com/lianxiangcloud/linkchain/libs/log"
	"github.com/lianxiangcloud/linkchain/libs/p2p"
	pcommon "github.com/lianxiangcloud/linkchain/libs/p2p/common"
	"github.com/lianxiangcloud/linkchain/libs/p2p/conn"
	"github.com/lianxiangcloud/linkchain/types"

	"verif/sim/kernel"
)

func init() {
	// the two seams the p2p package offers: no real sockets, no discovery table
	// (and with a nil table the connection manager is not created either)
	p2p.ListenerBindFunc = func(types.NodeType, string, string, log.Logger) (net.Listener, *p2p.NetAddress, *net.UDPConn, bool) {
		return nil, nil, nil, false
	}
	p2p.DefaultNewTableFunc = func(*p2p.Switch, []*pcommon.Node) error { return nil }
}

// fakeListener hands SimLink endpoints to the switch's real listenerRoutine.
type fakeListener struct {
	ch   chan net.Conn
	once sync.Once
}

func (l *fakeListener) Connections() <-chan net.Conn { return l.ch }
func (l *fakeListener) ExternalAddress() *p2p.NetAddress {
	return p2p.NewNetAddressIPPort(net.IPv4(10, 0, 0, 1), 40001)
}
func (l *fakeListener) ExternalAddressHost() string { return "10.0.0.1" }
func (l *fakeListener) String() string              { return "fakeListener" }
func (l *fakeListener) Stop() error                 { l.once.Do(func() { close(l.ch) }); return nil }

// recReactor records what the switch's peers deliver.
type recReactor struct {
	*p2p.BaseReactor
	descs []*conn.ChannelDescriptor
	rcv   *mrecv

	mu      sync.Mutex
	added   []string
	removed []string
}

func (rr *recReactor) GetChannels() []*conn.ChannelDescriptor { return rr.descs }
func (rr *recReactor) AddPeer(p p2p.Peer) {
	rr.mu.Lock()
	rr.added = append(rr.added, p.ID())
	rr.mu.Unlock()
}
func (rr *recReactor) RemovePeer(p p2p.Peer, reason interface{}) {
	rr.mu.Lock()
	rr.removed = append(rr.removed, p.ID())
	rr.mu.Unlock()
}
func (rr *recReactor) Receive(ch byte, p p2p.Peer, b []byte) {
	rr.mu.Lock()
	rcv := rr.rcv
	rr.mu.Unlock()
	rcv.onReceive(ch, b)
}

// fresh starts a new record (one per connection under test).
func (rr *recReactor) fresh() *mrecv {
	rr.mu.Lock()
	defer rr.mu.Unlock()
	rr.rcv = newMrecv()
	return rr.rcv
}

// remoteNode is the far side of an inbound connection: the same three steps a
// dialing node performs (secret connection, NodeInfo exchange, MConnection),
// with the key it proves and the key it claims chosen independently.
type remoteNode struct {
	mu    sync.Mutex
	stage string
	sc    *conn.SecretConnection
	got   p2p.NodeInfo
	err   error
	done  bool
}

var switchVariants = []string{"honest", "nodeinfo-claims-victim-key", "nodeinfo-claims-other-honest-key", "nodeinfo-claims-switch-key"}

// scenarioSwitch: a real p2p.Switch accepts inbound connections through
// listenerRoutine -> addInboundPeerWithConfig -> newPeerConn (peer.go) ->
// addPeer -> HandShakeFunc (handshake.go) -> newPeer/createMConnection.
// Oracle: the identity under which the switch registers a peer is a public key
// whose private key the remote side proved to hold on this connection.
func (r *runState) scenarioSwitch() {
	c := r.c
	kS := newRecKey(r.keys.Bytes(32), r.led)
	kP := newRecKey(r.keys.Bytes(32), r.led)
	kQ := newRecKey(r.keys.Bytes(32), r.led)
	kM := newRecKey(r.keys.Bytes(32), r.led)
	victim := crypto.GenPrivKeyEd25519FromSecret(r.keys.Bytes(32)).PubKey().(crypto.PubKeyEd25519)

	pcfg := config.DefaultP2PConfig()
	switch r.cfg.Pick(2, 3, 2) {
	case 0:
		pcfg.MaxPacketMsgPayloadSize = r.cfg.Range(16, 128)
	case 1:
		pcfg.MaxPacketMsgPayloadSize = r.cfg.Range(129, 4096)
	}
	nch := r.cfg.Range(1, 3)
	var chans []chanSpec
	for i := 0; i < nch; i++ {
		p := r.cfg.Range(1, 10)
		chans = append(chans, chanSpec{id: byte(0x20 + 7*i), prio: [2]int{p, r.cfg.Range(1, 10)}, qcap: [2]int{r.cfg.Pick(1, 1) * r.cfg.Range(1, 4), 0}})
	}
	chIDs := []byte{}
	for _, cs := range chans {
		chIDs = append(chIDs, cs.id)
	}
	info := func(pk crypto.PubKeyEd25519, name string) p2p.NodeInfo {
		return p2p.NodeInfo{PubKey: pk, ListenAddr: "", Network: "simnet", Version: "1.0.0", Channels: chIDs,
			Moniker: name, Type: types.NodePeer}
	}
	sw, err := p2p.NewP2pManager(log.Root(), kS, pcfg, info(kS.inner.PubKey().(crypto.PubKeyEd25519), "switch"), nil, nil)
	if err != nil {
		c.HarnessTrouble("NewP2pManager: %v", err)
		return
	}
	rr := &recReactor{rcv: newMrecv()}
	rr.BaseReactor = p2p.NewBaseReactor("rec", rr)
	plSw := &mplan{mode: 2, payload: pcfg.MaxPacketMsgPayloadSize, chans: chans}
	rr.descs = plSw.descs(0)
	sw.AddReactor("rec", rr)
	fl := &fakeListener{ch: make(chan net.Conn, 8)}
	sw.AddListener(fl)
	if err := sw.Start(); err != nil {
		c.HarnessTrouble("Switch.Start: %v", err)
		return
	}
	defer func() {
		sw.Stop()
		synctest.Wait()
	}()
	r.sample["payload"] = pcfg.MaxPacketMsgPayloadSize
	r.finger("switch", pcfg.MaxPacketMsgPayloadSize, nch)

	idOf := func(pk crypto.PubKey) string { return pcommon.TransPubKeyToStringID(pk) }
	verdicts := []string{}
	honestUp := false
	n := r.flt.Range(1, 3)
	if r.tier == kernel.Thorough {
		n = r.flt.Range(1, 6)
	}
	for i := 0; i < n && !r.stop; i++ {
		variant := r.flt.Pick(5, 6, 3, 2)
		if honestUp && variant == 0 {
			variant = 1
		}
		// what the remote proves (connKey) and what it claims (claimed)
		connKey := kM
		var claimed crypto.PubKeyEd25519
		switch variant {
		case 0:
			connKey = kP
			claimed = kP.inner.PubKey().(crypto.PubKeyEd25519)
		case 1:
			claimed = victim
		case 2:
			claimed = kQ.inner.PubKey().(crypto.PubKeyEd25519) // an honest node that is not connected
		default:
			claimed = kS.inner.PubKey().(crypto.PubKeyEd25519)
		}
		link := r.newLink(0, 0)
		pm := newPump(r.net, r.pumpBudget(), link)
		pm.gate = gateFirstWrite
		rn := &remoteNode{}
		// the switch side first (its ephemeral key is drawn first), then the remote
		fl.ch <- link.End(0)
		synctest.Wait()
		go func() {
			set := func(f func()) { rn.mu.Lock(); f(); rn.mu.Unlock() }
			set(func() { rn.stage = "secret" })
			link.End(1).SetDeadline(time.Now().Add(pcfg.HandshakeTimeout))
			sc, err := conn.MakeSecretConnection(link.End(1), connKey)
			if err != nil {
				set(func() { rn.err, rn.done = err, true })
				return
			}
			set(func() { rn.sc, rn.stage = sc, "nodeinfo" })
			ni, err := p2p.HandShakeFunc(sc, info(claimed, fmt.Sprintf("remote-%d", i)), pcfg.HandshakeTimeout, false)
			set(func() { rn.got, rn.err, rn.done, rn.stage = ni, err, true, "up" })
		}()
		synctest.Wait()
		pm.settle()
		pm.gate = nil
		synctest.Wait()
		c.Evals(1)
		c.Event(1)
		rn.mu.Lock()
		rdone, rerr, rsc := rn.done, rn.err, rn.sc
		rn.mu.Unlock()
		tag := switchVariants[variant]
		if variant != 0 {
			c.Fault("switch_" + tag)
		}
		accepted := sw.Peers().HasID(idOf(claimed))
		verdicts = append(verdicts, fmt.Sprintf("%s: remote done=%v err=%v, switch has peer %v", tag, rdone, rerr != nil, accepted))
		r.finger("switch-session", i, tag, accepted)
		c.NonTrivial()
		// the oracle: every peer the switch holds is known under a key that was
		// proven on its connection
		for _, p := range sw.Peers().List() {
			ni := p.NodeInfo()
			if ni.PubKey == claimed && claimed != connKey.inner.PubKey().(crypto.PubKeyEd25519) && p.ID() == idOf(claimed) {
				proven := "none"
				if rsc != nil {
					proven = fmt.Sprintf("%X", rawPub(connKey)[:8])
				}
				r.violateAnyMode("auth", "auth/switch-registers-peer-under-unproven-nodeinfo-key",
					"(%s) the switch registered an inbound peer under identity %s = NodeInfo.PubKey %X, but the remote side proved possession only of key %s on this connection",
					tag, p.ID()[:12], claimed[:8], proven)
			}
		}
		if r.stop {
			return
		}
		if variant == 0 {
			if !accepted || rerr != nil || !rdone {
				r.violate("handshake", "switch/honest-inbound-peer-not-added", "an honest inbound peer was not added by the switch (remote done=%v err=%v stage=%s)", rdone, rerr, rn.stage)
				return
			}
			honestUp = true
			c.Probe("switch_honest_peer_added")
			if !r.switchTraffic(sw, rr, rsc, plSw, pm, idOf(claimed)) {
				return
			}
		} else if accepted {
			c.Probe("switch_accepted_" + tag)
		}
		// tear this connection down from the remote side; the switch notices
		link.End(1).Close()
		synctest.Wait()
		r.sleep(time.Duration(r.flt.Range(1, 200)) * time.Millisecond)
		synctest.Wait()
		if variant == 0 {
			honestUp = sw.Peers().HasID(idOf(claimed))
		}
	}
	r.sample["sessions"] = verdicts
}

// switchTraffic moves tagged messages both ways between the remote node's
// MConnection and the switch's peer (Peer.Send / Reactor.Receive).
func (r *runState) switchTraffic(sw *p2p.Switch, rr *recReactor, sc *conn.SecretConnection, pl *mplan, pm *pump, peerID string) bool {
	c := r.c
	peer := sw.Peers().GetByID(peerID)
	if peer == nil {
		return true
	}
	rcv := newMrecv()
	mc := conn.DefaultMConnConfig()
	mc.MaxPacketMsgPayloadSize = pl.payload
	mc.FlushThrottle = 41*time.Millisecond + 137*time.Microsecond
	m := conn.NewMConnectionWithConfig(sc, pl.descs(1), rcv.onReceive, rcv.onError, mc)
	if err := m.Start(); err != nil {
		c.HarnessTrouble("remote MConnection.Start: %v", err)
		return false
	}
	defer func() {
		m.Stop()
		synctest.Wait()
	}()
	d := &mdriver{r: r, pl: pl, pump: pm, all: map[string]*flow{}}
	swRcv := rr.fresh()
	d.recvs[0], d.recvs[1] = swRcv, rcv
	d.flows[0] = newFlow("switch->remote", peer, rcv)
	d.flows[1] = newFlow("remote->switch", m, swRcv)
	r.sleep(500 * time.Microsecond)
	left := 3000
	steps := r.work.Range(3, 20)
	for i := 0; i < steps && !r.stop; i++ {
		st := mstep{kind: r.work.Pick(8, 2)}
		if st.kind == 0 {
			st.side = r.work.Int(2)
			st.ch = r.work.Int(len(pl.chans))
			st.size = r.drawMsgSize(r.work, pl.payload, &left)
			d.doSend(st)
		} else {
			d.sleepQuanta(time.Duration(r.work.Range(1, 300)) * time.Millisecond)
		}
		synctest.Wait()
		d.check()
	}
	if r.stop {
		return false
	}
	d.drain(60*time.Second, 100*time.Millisecond)
	if r.stop {
		return false
	}
	msgs := 0
	for s := 0; s < 2; s++ {
		n, _ := d.flows[s].fingerprint(r)
		msgs += n
	}
	r.sample["switch_traffic_delivered"] = msgs
	if msgs > 0 {
		c.Probe("switch_peer_traffic")
	}
	return true
}
