package connrig

import (
	"bytes"
	"crypto/sha256"
	"encoding/binary"
	"io"
	"sync"
	"testing/synctest"

	"golang.org/x/crypto/curve25519"

	"github.com/lianxiangcloud/linkchain/libs/crypto"
	"github.com/lianxiangcloud/linkchain/libs/ser"
)

// rawAuthSig has the layout of conn.authSigMessage (an unregistered struct of
// two registered interfaces); the control session checks that it still encodes
// to what MakeSecretConnection accepts.
type rawAuthSig struct {
	Key crypto.PubKey
	Sig crypto.Signature
}

var rawVariants = []string{"control", "victim-key-own-sig", "challenge-halves-swapped", "challenge-of-one-key", "nil-key",
	"low-order-ephemeral-key", "oversize-frame-length", "truncated-auth-frame", "own-key-sig-by-victimless-garbage", "two-auth-frames"}

// handwrittenSession: end 1 is not MakeSecretConnection but a hand-written
// speaker of the wire protocol (compress mode), which lets the attacker choose
// every byte: its ephemeral key, the message it signs, the frame header. A
// control session (real key, correct signature) runs first; if the verifier
// refuses the control, the hand-written speaker no longer matches the protocol
// and its negative variants are skipped (counted by a probe).
func (a *authState) handwrittenSession() {
	r := a.r
	if r.mode != wireTypeCompress {
		a.keylessSession()
		return
	}
	if ok := a.rawSession(0); !ok {
		// the hand-written speaker no longer matches what MakeSecretConnection
		// accepts (the protocol under test changed): its negative sessions would
		// prove nothing, so they are skipped - visibly (this probe is 0 on the
		// unchanged tree) - and the other scenarios, which use the real code on
		// both ends, judge the change
		r.c.Probe("handwritten_control_refused_variants_skipped")
		return
	}
	if r.stop {
		return
	}
	a.rawSession(1 + r.flt.Int(len(rawVariants)-1))
}

func (a *authState) rawSession(variant int) (accepted bool) {
	r := a.r
	name := rawVariants[variant]
	link := r.newLink(0, 0)
	s := r.newSession(link, a.kA, nil)
	s.start(0)
	s.ephWrote[0] = link.Peek(0)
	s.ephShown[0] = s.ephWrote[0]
	var ephPriv, ephPub [32]byte
	copy(ephPriv[:], r.flt.Bytes(32))
	curve25519.ScalarBaseMult(&ephPub, &ephPriv)
	if variant == 5 {
		ephPub = [32]byte{} // a low-order point: the shared secret becomes predictable
	}
	garbage := r.flt.Bytes(64)
	c := link.End(1)
	var mu sync.Mutex
	trouble := ""
	go func() {
		fail := func(m string) { mu.Lock(); trouble = m; mu.Unlock() }
		my, err := ser.EncodeToBytesWithType(&ephPub)
		if err != nil {
			fail("encode eph: " + err.Error())
			return
		}
		if _, err := c.Write(my); err != nil {
			return
		}
		rem := make([]byte, len(my))
		if _, err := io.ReadFull(c, rem); err != nil {
			return
		}
		var remEph [32]byte
		copy(remEph[:], rem[len(rem)-32:])
		lo, hi := ephPub[:], remEph[:]
		if bytes.Compare(lo, hi) > 0 {
			lo, hi = hi, lo
		}
		sum := func(x, y []byte) []byte { h := sha256.Sum256(append(append([]byte(nil), x...), y...)); return h[:] }
		challenge := sum(lo, hi)
		m := rawAuthSig{Key: a.kM.inner.PubKey()}
		sign := func(msg []byte) crypto.Signature { x, _ := a.kM.Sign(msg); return x }
		switch variant {
		case 0, 5, 6, 7, 9:
			m.Sig = sign(challenge)
		case 1:
			m.Key, m.Sig = a.victim, sign(challenge)
		case 2:
			m.Sig = sign(sum(hi, lo))
		case 3:
			m.Sig = sign(sum(remEph[:], remEph[:]))
		case 4:
			m.Key, m.Sig = nil, sign(challenge)
		case 8:
			m.Sig = sigFrom(garbage)
		}
		var plain []byte
		if _, _, pan := tryEncode(func() { plain, err = ser.EncodeToBytesWithType(m) }); pan || err != nil {
			// a nil interface may not be encodable: send the struct with an empty key field instead
			plain, err = ser.EncodeToBytesWithType(struct {
				Key []byte
				Sig crypto.Signature
			}{nil, m.Sig})
			if err != nil {
				fail("encode auth: " + err.Error())
				return
			}
		}
		frame := compressedFrame(plain)
		switch variant {
		case 6:
			binary.BigEndian.PutUint32(frame[1:5], 0xFFFFFFFF)
		case 7:
			frame = frame[:len(frame)/2]
		case 9:
			frame = append(frame, frame...)
		}
		if _, err := c.Write(frame); err != nil {
			return
		}
		if variant == 7 {
			c.Close()
			return
		}
		io.Copy(io.Discard, c)
	}()
	synctest.Wait()
	s.pump.gate = gateFirstWrite
	s.pump.settle()
	s.pump.gate = nil
	mu.Lock()
	tr := trouble
	mu.Unlock()
	if tr != "" {
		r.c.HarnessTrouble("hand-written protocol speaker: %s", tr)
		return false
	}
	r.c.Fault("handwritten_peer_" + name)
	tag := "handwritten-peer/" + name
	s.judge(tag)
	sc, ok := s.succeeded(0)
	accepted = ok && sc.RemotePubKey() != nil && sc.RemotePubKey().Equals(a.kM.inner.PubKey())
	if variant == 5 && accepted {
		r.c.Probe("low_order_ephemeral_key_accepted")
	}
	a.verdict(s, tag)
	s.finish(true)
	return accepted
}

func tryEncode(f func()) (site, msg string, panicked bool) {
	defer func() {
		if rec := recover(); rec != nil {
			panicked = true
		}
	}()
	f()
	return
}
