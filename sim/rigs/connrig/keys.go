package connrig

import (
	"sync"

	"github.com/lianxiangcloud/linkchain/libs/crypto"
)

// ledger is the run's ground truth about signatures: every signature made in
// this run with a private key that really exists, by public key. A public key
// that never appears here was never used to sign anything - whoever presents
// it did not prove possession of its private key.
type ledger struct {
	mu     sync.Mutex
	signed map[string][][]byte // string(pub bytes) -> messages signed with the matching private key
}

func newLedger() *ledger { return &ledger{signed: map[string][][]byte{}} }

func (l *ledger) add(pub crypto.PubKey, msg []byte) {
	l.mu.Lock()
	k := string(pub.Bytes())
	l.signed[k] = append(l.signed[k], append([]byte(nil), msg...))
	l.mu.Unlock()
}

// has reports whether the holder of pub's private key signed exactly msg.
func (l *ledger) has(pub crypto.PubKey, msg []byte) bool {
	if pub == nil {
		return false
	}
	l.mu.Lock()
	defer l.mu.Unlock()
	for _, m := range l.signed[string(pub.Bytes())] {
		if string(m) == string(msg) {
			return true
		}
	}
	return false
}

// signRec is one Sign call seen by a recording key.
type signRec struct {
	msg []byte
	sig crypto.Signature
}

// recKey is a real ed25519 private key that records what it signs: into the
// run's ledger (ground truth) and into its own per-session log (so that the
// harness learns the challenge an endpoint signed without re-deriving it).
type recKey struct {
	inner crypto.PrivKeyEd25519
	led   *ledger
	mu    *sync.Mutex
	log   *[]signRec
}

func newRecKey(secret []byte, led *ledger) recKey {
	return recKey{inner: crypto.GenPrivKeyEd25519FromSecret(secret), led: led, mu: new(sync.Mutex), log: new([]signRec)}
}

func (k recKey) Bytes() []byte         { return k.inner.Bytes() }
func (k recKey) PubKey() crypto.PubKey { return k.inner.PubKey() }
func (k recKey) Equals(o crypto.PrivKey) bool {
	if ok, is := o.(recKey); is {
		return k.inner.Equals(ok.inner)
	}
	return k.inner.Equals(o)
}
func (k recKey) Sign(msg []byte) (crypto.Signature, error) {
	sig, err := k.inner.Sign(msg)
	if err == nil {
		k.led.add(k.inner.PubKey(), msg)
		k.mu.Lock()
		*k.log = append(*k.log, signRec{append([]byte(nil), msg...), sig})
		k.mu.Unlock()
	}
	return sig, err
}

// signs returns a copy of the key's Sign log.
func (k recKey) signs() []signRec {
	k.mu.Lock()
	defer k.mu.Unlock()
	return append([]signRec(nil), (*k.log)...)
}

// fakeKey presents a public key and produces "signatures" by an arbitrary
// function: an endpoint that does not hold the private key of what it presents.
type fakeKey struct {
	pub  crypto.PubKey
	sign func(msg []byte) crypto.Signature
	mu   *sync.Mutex
	log  *[]signRec
}

func newFakeKey(pub crypto.PubKey, sign func(msg []byte) crypto.Signature) fakeKey {
	return fakeKey{pub: pub, sign: sign, mu: new(sync.Mutex), log: new([]signRec)}
}

func (k fakeKey) Bytes() []byte                { return []byte("fake") }
func (k fakeKey) PubKey() crypto.PubKey        { return k.pub }
func (k fakeKey) Equals(o crypto.PrivKey) bool { return false }
func (k fakeKey) Sign(msg []byte) (crypto.Signature, error) {
	sig := k.sign(msg)
	k.mu.Lock()
	*k.log = append(*k.log, signRec{append([]byte(nil), msg...), sig})
	k.mu.Unlock()
	return sig, nil
}
func (k fakeKey) signs() []signRec {
	k.mu.Lock()
	defer k.mu.Unlock()
	return append([]signRec(nil), (*k.log)...)
}

// signer is what the handshake helper needs from a key.
type signer interface {
	crypto.PrivKey
	signs() []signRec
}
