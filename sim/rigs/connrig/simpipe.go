// Package connrig is the rig of property C18: peer connections deliver each
// channel's messages intact, in order, authenticated.
//
// Everything of a run lives inside one testing/synctest bubble. The transport
// is SimLink, an in-memory duplex byte pipe whose delivery is driven by the
// single driver goroutine: a Write only appends to the "in flight" queue of
// its direction; bytes become readable only when the driver delivers a
// tape-chosen chunk of them, and the driver delivers only while every other
// goroutine of the bubble is durably blocked (synctest.Wait). The result of
// every Read is therefore a pure function of the tape (chunk sizes split and
// coalesce writes arbitrarily; a read returns 1..n bytes) and never of
// goroutine scheduling.
package connrig

import (
	"errors"
	"io"
	"net"
	"os"
	"sync"
	"time"
)

// SimLink is one duplex connection: two directions, two endpoints.
type SimLink struct {
	mu   sync.Mutex
	cond *sync.Cond
	dir  [2]*simHalf // dir[0]: end 0 -> end 1, dir[1]: end 1 -> end 0
	end  [2]*SimConn
}

// simHalf is one direction of a link.
type simHalf struct {
	inflight []byte // written, not yet delivered by the driver
	readable []byte // delivered, not yet consumed by Read
	capacity int    // bound on len(inflight)+len(readable); 0 = unbounded
	readCap  int    // upper bound on the bytes one Read returns; 0 = none

	wrote     int64
	delivered int64
	consumed  int64
	writes    []int    // size of every Write call, in order (for the man in the middle)
	wlog      [][]byte // content of the first few Write calls (handshake transcript)
	parkedW   int      // writers parked for space
	parkedR   int      // readers parked for data
}

// SimConn is one endpoint of a SimLink; it implements net.Conn.
type SimConn struct {
	l      *SimLink
	side   int
	closed bool // this endpoint called Close
	rdl    time.Time
	wdl    time.Time
	rtimer *time.Timer
	wtimer *time.Timer
	addr   [2]net.Addr // local, remote
}

var errSimClosed = errors.New("simpipe: use of closed connection")

// NewSimLink creates a link; capacity 0 = unbounded per direction.
func NewSimLink(capacity01, capacity10 int) *SimLink {
	l := &SimLink{}
	l.cond = sync.NewCond(&l.mu)
	l.dir[0] = &simHalf{capacity: capacity01}
	l.dir[1] = &simHalf{capacity: capacity10}
	for s := 0; s < 2; s++ {
		l.end[s] = &SimConn{l: l, side: s}
	}
	// private-range addresses: the switch treats them as LAN peers
	a0 := &net.TCPAddr{IP: net.IPv4(10, 0, 0, 1), Port: 40001}
	a1 := &net.TCPAddr{IP: net.IPv4(10, 0, 0, 2), Port: 40002}
	l.end[0].addr = [2]net.Addr{a0, a1}
	l.end[1].addr = [2]net.Addr{a1, a0}
	return l
}

// End returns endpoint s (0 or 1).
func (l *SimLink) End(s int) *SimConn { return l.end[s] }

// ---------------------------------------------------------------- net.Conn

func (c *SimConn) out() *simHalf { return c.l.dir[c.side] }
func (c *SimConn) in() *simHalf  { return c.l.dir[1-c.side] }
func (c *SimConn) peer() *SimConn {
	return c.l.end[1-c.side]
}

func expired(dl time.Time) bool { return !dl.IsZero() && !time.Now().Before(dl) }

// Read returns between 1 and len(p) of the delivered bytes, blocking (durably,
// on a sync.Cond) until the driver has delivered something.
func (c *SimConn) Read(p []byte) (int, error) {
	l := c.l
	l.mu.Lock()
	defer l.mu.Unlock()
	h := c.in()
	for {
		if c.closed {
			return 0, errSimClosed
		}
		if len(h.readable) > 0 {
			if len(p) == 0 {
				return 0, nil
			}
			n := len(h.readable)
			if n > len(p) {
				n = len(p)
			}
			if h.readCap > 0 && n > h.readCap {
				n = h.readCap
			}
			copy(p, h.readable[:n])
			h.readable = h.readable[n:]
			if len(h.readable) == 0 {
				h.readable = nil
			}
			h.consumed += int64(n)
			l.cond.Broadcast() // space for a parked writer
			return n, nil
		}
		if c.peer().closed {
			// the remote end is gone; what it had in flight is lost with it
			return 0, io.EOF
		}
		if expired(c.rdl) {
			return 0, os.ErrDeadlineExceeded
		}
		h.parkedR++
		l.cond.Wait()
		h.parkedR--
	}
}

// Write appends to the in-flight queue of this direction, blocking (durably)
// while the direction's capacity is exhausted.
func (c *SimConn) Write(p []byte) (int, error) {
	l := c.l
	l.mu.Lock()
	defer l.mu.Unlock()
	h := c.out()
	h.writes = append(h.writes, len(p))
	if len(h.wlog) < 4 {
		h.wlog = append(h.wlog, append([]byte(nil), p...))
	}
	total := 0
	for {
		if c.closed {
			return total, errSimClosed
		}
		if c.peer().closed {
			return total, io.ErrClosedPipe
		}
		if expired(c.wdl) {
			return total, os.ErrDeadlineExceeded
		}
		if len(p) == 0 {
			return total, nil
		}
		n := len(p)
		if h.capacity > 0 {
			space := h.capacity - len(h.inflight) - len(h.readable)
			if space < n {
				n = space
			}
		}
		if n > 0 {
			h.inflight = append(h.inflight, p[:n]...)
			h.wrote += int64(n)
			p = p[n:]
			total += n
			continue
		}
		h.parkedW++
		l.cond.Wait()
		h.parkedW--
	}
}

// Close closes this endpoint; parked readers and writers of both ends wake.
func (c *SimConn) Close() error {
	l := c.l
	l.mu.Lock()
	defer l.mu.Unlock()
	if c.closed {
		return errSimClosed
	}
	c.closed = true
	if c.rtimer != nil {
		c.rtimer.Stop()
	}
	if c.wtimer != nil {
		c.wtimer.Stop()
	}
	l.cond.Broadcast()
	return nil
}

func (c *SimConn) LocalAddr() net.Addr  { return c.addr[0] }
func (c *SimConn) RemoteAddr() net.Addr { return c.addr[1] }

func (c *SimConn) SetDeadline(t time.Time) error {
	c.l.mu.Lock()
	defer c.l.mu.Unlock()
	if c.closed {
		return errSimClosed
	}
	c.setDL(&c.rdl, &c.rtimer, t)
	c.setDL(&c.wdl, &c.wtimer, t)
	return nil
}

func (c *SimConn) SetReadDeadline(t time.Time) error {
	c.l.mu.Lock()
	defer c.l.mu.Unlock()
	if c.closed {
		return errSimClosed
	}
	c.setDL(&c.rdl, &c.rtimer, t)
	return nil
}

func (c *SimConn) SetWriteDeadline(t time.Time) error {
	c.l.mu.Lock()
	defer c.l.mu.Unlock()
	if c.closed {
		return errSimClosed
	}
	c.setDL(&c.wdl, &c.wtimer, t)
	return nil
}

// setDL: caller holds the link mutex. The timer lives on the bubble's fake
// clock; its only job is to wake parked readers/writers.
func (c *SimConn) setDL(dl *time.Time, tm **time.Timer, t time.Time) {
	if *tm != nil {
		(*tm).Stop()
		*tm = nil
	}
	*dl = t
	if t.IsZero() {
		return
	}
	d := time.Until(t)
	if d < 0 {
		d = 0
	}
	l := c.l
	*tm = time.AfterFunc(d, func() {
		l.mu.Lock()
		l.cond.Broadcast()
		l.mu.Unlock()
	})
}

// ---------------------------------------------------------------- driver side

// InFlight returns the number of bytes written in direction d (0: end0->end1)
// and not yet delivered.
func (l *SimLink) InFlight(d int) int {
	l.mu.Lock()
	defer l.mu.Unlock()
	return len(l.dir[d].inflight)
}

// Deliver makes the first n in-flight bytes of direction d readable.
func (l *SimLink) Deliver(d, n int) int {
	l.mu.Lock()
	defer l.mu.Unlock()
	h := l.dir[d]
	if n > len(h.inflight) {
		n = len(h.inflight)
	}
	if n <= 0 {
		return 0
	}
	h.readable = append(h.readable, h.inflight[:n]...)
	h.inflight = h.inflight[n:]
	if len(h.inflight) == 0 {
		h.inflight = nil
	}
	h.delivered += int64(n)
	l.cond.Broadcast()
	return n
}

// SetCapacity changes the capacity of direction d (0 = unbounded).
func (l *SimLink) SetCapacity(d, n int) {
	l.mu.Lock()
	l.dir[d].capacity = n
	l.cond.Broadcast()
	l.mu.Unlock()
}

// SetReadCap bounds what one Read of direction d's reader returns (0 = no bound).
func (l *SimLink) SetReadCap(d, n int) {
	l.mu.Lock()
	l.dir[d].readCap = n
	l.mu.Unlock()
}

// Peek returns a copy of the in-flight bytes of direction d.
func (l *SimLink) Peek(d int) []byte {
	l.mu.Lock()
	defer l.mu.Unlock()
	return append([]byte(nil), l.dir[d].inflight...)
}

// Replace substitutes the in-flight bytes of direction d (man in the middle).
func (l *SimLink) Replace(d int, b []byte) {
	l.mu.Lock()
	l.dir[d].inflight = append([]byte(nil), b...)
	l.cond.Broadcast()
	l.mu.Unlock()
}

// Inject appends bytes to the in-flight queue of direction d as if written.
func (l *SimLink) Inject(d int, b []byte) {
	l.mu.Lock()
	l.dir[d].inflight = append(l.dir[d].inflight, b...)
	l.mu.Unlock()
}

// Stats of direction d.
type HalfStats struct {
	Wrote, Delivered, Consumed int64
	InFlight, Readable         int
	ParkedW, ParkedR           int
	Writes                     int
}

func (l *SimLink) Stats(d int) HalfStats {
	l.mu.Lock()
	defer l.mu.Unlock()
	h := l.dir[d]
	return HalfStats{Wrote: h.wrote, Delivered: h.delivered, Consumed: h.consumed,
		InFlight: len(h.inflight), Readable: len(h.readable), ParkedW: h.parkedW, ParkedR: h.parkedR, Writes: len(h.writes)}
}

// WriteSizes returns the sizes of the Write calls made so far in direction d.
func (l *SimLink) WriteSizes(d int) []int {
	l.mu.Lock()
	defer l.mu.Unlock()
	return append([]int(nil), l.dir[d].writes...)
}

// WriteLog returns the content of the first (up to four) Write calls of direction d.
func (l *SimLink) WriteLog(d int) [][]byte {
	l.mu.Lock()
	defer l.mu.Unlock()
	out := make([][]byte, len(l.dir[d].wlog))
	for i, w := range l.dir[d].wlog {
		out[i] = append([]byte(nil), w...)
	}
	return out
}

// CloseBoth closes both endpoints (end of run).
func (l *SimLink) CloseBoth() {
	l.end[0].Close()
	l.end[1].Close()
}
