package connrig

import (
	"testing/synctest"

	"verif/sim/kernel"
)

// pump is the driver's delivery policy over a set of links: which direction
// moves next and how many bytes, all from the tape.
type pump struct {
	tape   *kernel.Tape
	links  []*SimLink
	w      [5]int // weights of the chunk classes: 1 B, 2..16, 17..1 KiB, 1..64 KiB, all
	budget int    // deliveries left before falling back to "all" (bounds the cost of a run)

	deliveries int
	bytes      int64
	tiny       int                     // deliveries of < 8 bytes
	capReads   bool                    // also draw a bound on what a single Read returns
	runaway    bool                    // a settle did not terminate (see maxSettleSteps)
	hook       func(l *SimLink, d int) // optional man-in-the-middle hook, called before a delivery of (l,d)
	// gate, if set, bounds how many in-flight bytes of (l,d) may be delivered
	// now (0 = hold everything back for the moment).
	gate func(l *SimLink, d int, avail int) int
	// onDeliver, if set, is told about every delivery before it happens.
	onDeliver func(l *SimLink, d int, n int)
}

func newPump(t *kernel.Tape, budget int, links ...*SimLink) *pump {
	p := &pump{tape: t, links: links, budget: budget}
	// swarm: per-run chunk-size profile
	switch t.Pick(3, 2, 2, 2, 1) {
	case 0: // mixed
		p.w = [5]int{2, 3, 4, 4, 4}
	case 1: // mostly whole
		p.w = [5]int{0, 1, 1, 2, 12}
	case 2: // small
		p.w = [5]int{4, 6, 6, 1, 1}
	case 3: // medium
		p.w = [5]int{1, 1, 6, 6, 2}
	default: // byte-at-a-time heavy
		p.w = [5]int{10, 4, 1, 0, 1}
	}
	return p
}

func (p *pump) chunk(avail int) int {
	if p.budget <= 0 {
		return avail
	}
	p.budget--
	var n int
	switch p.tape.Pick(p.w[0], p.w[1], p.w[2], p.w[3], p.w[4]) {
	case 0:
		n = 1
	case 1:
		n = p.tape.Range(2, 16)
	case 2:
		n = p.tape.Range(17, 1024)
	case 3:
		n = p.tape.Range(1025, 65536)
	default:
		n = avail
	}
	if n > avail {
		n = avail
	}
	return n
}

// step waits for quiescence and delivers one chunk in one tape-chosen
// direction that has bytes in flight. It reports whether anything moved.
func (p *pump) step() bool {
	synctest.Wait()
	type cand struct {
		l *SimLink
		d int
	}
	avail := func(l *SimLink, d int) int {
		n := l.InFlight(d)
		if n > 0 && p.gate != nil {
			if g := p.gate(l, d, n); g < n {
				n = g
			}
		}
		return n
	}
	var cs []cand
	for _, l := range p.links {
		for d := 0; d < 2; d++ {
			if avail(l, d) > 0 {
				cs = append(cs, cand{l, d})
			}
		}
	}
	if len(cs) == 0 {
		return false
	}
	c := cs[p.tape.Int(len(cs))]
	if p.hook != nil {
		p.hook(c.l, c.d)
		if avail(c.l, c.d) == 0 {
			return true
		}
	}
	n := p.chunk(avail(c.l, c.d))
	if p.capReads {
		switch p.tape.Pick(6, 1, 2, 2) {
		case 0:
			c.l.SetReadCap(c.d, 0)
		case 1:
			c.l.SetReadCap(c.d, 1)
		case 2:
			c.l.SetReadCap(c.d, p.tape.Range(2, 64))
		default:
			c.l.SetReadCap(c.d, p.tape.Range(65, 5000))
		}
	}
	if p.onDeliver != nil {
		p.onDeliver(c.l, c.d, n)
	}
	c.l.Deliver(c.d, n)
	p.deliveries++
	p.bytes += int64(n)
	if n < 8 {
		p.tiny++
	}
	return true
}

// settle delivers until nothing is in flight and every goroutine is quiescent.
// It returns the number of deliveries made.
func (p *pump) settle() int {
	n := 0
	for p.step() {
		n++
		if n >= maxSettleSteps {
			// traffic that never stops although no virtual time passes: the
			// code under test is answering itself in a loop
			p.runaway = true
			break
		}
	}
	return n
}

// maxSettleSteps bounds one settle; a correct connection pair needs a few
// thousand deliveries at most to quiesce (budgeted tiny chunks, then whole ones).
const maxSettleSteps = 200000

// parkedWriters reports how many writers are parked for space on any link.
func (p *pump) parkedWriters() int {
	n := 0
	for _, l := range p.links {
		for d := 0; d < 2; d++ {
			n += l.Stats(d).ParkedW
		}
	}
	return n
}

// gateFirstWrite is a delivery gate that never lets bytes of a direction's
// second Write become readable before the reader has consumed the whole first
// Write (the two are never coalesced into one read). It is the "safe" handshake
// transport; see the known finding about read-ahead in shareEphPubKey.
func gateFirstWrite(l *SimLink, d int, avail int) int {
	ws := l.WriteSizes(d)
	if len(ws) == 0 {
		return avail
	}
	st := l.Stats(d)
	first := int64(ws[0])
	if st.Consumed >= first {
		return avail
	}
	room := int(first - st.Delivered)
	if room < 0 {
		room = 0
	}
	if room < avail {
		return room
	}
	return avail
}
