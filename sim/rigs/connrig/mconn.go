package connrig

import (
	"bytes"
	"crypto/sha256"
	"encoding/binary"
	"fmt"
	"net"
	"sort"
	"sync"
	"testing/synctest"
	"time"

	"github.com/lianxiangcloud/linkchain/libs/crypto"
	"github.com/lianxiangcloud/linkchain/libs/p2p"
	"github.com/lianxiangcloud/linkchain/libs/p2p/conn"
	"github.com/lianxiangcloud/linkchain/types"

	"verif/sim/kernel"
)

// mrecv is the receiving half of one MConnection endpoint: what onReceive and
// onError were called with. Callbacks run on the connection's recvRoutine.
type mrecv struct {
	mu    sync.Mutex
	byCh  map[byte][][]byte
	order []byte // channel id of every delivery, in arrival order (diagnostics only)
	errs  []string
	count int
}

func newMrecv() *mrecv { return &mrecv{byCh: map[byte][][]byte{}} }

func (m *mrecv) onReceive(ch byte, b []byte) {
	cp := append([]byte(nil), b...) // the slice is reused by the channel
	m.mu.Lock()
	m.byCh[ch] = append(m.byCh[ch], cp)
	m.order = append(m.order, ch)
	m.count++
	m.mu.Unlock()
}

func (m *mrecv) onError(e interface{}) {
	m.mu.Lock()
	m.errs = append(m.errs, fmt.Sprint(e))
	m.mu.Unlock()
}

// msender is anything with Send/TrySend (an MConnection, or a switch's Peer).
type msender interface {
	Send(ch byte, b []byte) bool
	TrySend(ch byte, b []byte) bool
}

// flow is one direction of a multiplexed connection under the oracle: what the
// sender got accepted per channel, what the receiver was handed per channel.
type flow struct {
	name     string
	snd      msender
	rcv      *mrecv
	accepted map[byte][][]byte
	checked  map[byte]int
	nAcc     int
	seq      map[byte]uint32
	accOrder []byte // channel of every accepted message, in acceptance order
}

// crossChannelReordered reports whether messages of different channels arrived
// in another order than they were accepted (priority scheduling at work).
func (f *flow) crossChannelReordered() bool {
	f.rcv.mu.Lock()
	defer f.rcv.mu.Unlock()
	n := len(f.rcv.order)
	if n > len(f.accOrder) {
		n = len(f.accOrder)
	}
	for i := 0; i < n; i++ {
		if f.rcv.order[i] != f.accOrder[i] {
			return true
		}
	}
	return false
}

func newFlow(name string, snd msender, rcv *mrecv) *flow {
	return &flow{name: name, snd: snd, rcv: rcv, accepted: map[byte][][]byte{}, checked: map[byte]int{}, seq: map[byte]uint32{}}
}

// makeMsg builds the uniquely tagged message (flow, channel, seq) of n bytes.
func makeMsg(flowID byte, ch byte, seq uint32, n int) []byte {
	b := make([]byte, n)
	x := &xs{s: uint64(flowID)<<40 | uint64(ch)<<32 | uint64(seq)}
	for i := 0; i < n; i += 8 {
		v := x.next()
		for k := 0; k < 8 && i+k < n; k++ {
			b[i+k] = byte(v >> (8 * k))
		}
	}
	if n >= 6 {
		b[0] = flowID
		b[1] = ch
		binary.BigEndian.PutUint32(b[2:6], seq)
	}
	return b
}

func describe(b []byte) string {
	if len(b) >= 6 {
		return fmt.Sprintf("[%d bytes, tag flow=%d ch=%#x seq=%d]", len(b), b[0], b[1], binary.BigEndian.Uint32(b[2:6]))
	}
	return fmt.Sprintf("[%d bytes %x]", len(b), b)
}

// check compares, per channel, what was delivered so far with what was
// accepted: the delivered sequence must be a prefix of the accepted one.
func (f *flow) check(r *runState, all map[string]*flow) {
	f.rcv.mu.Lock()
	defer f.rcv.mu.Unlock()
	chs := make([]int, 0, len(f.rcv.byCh))
	for ch := range f.rcv.byCh {
		chs = append(chs, int(ch))
	}
	sort.Ints(chs)
	for _, chi := range chs {
		ch := byte(chi)
		got := f.rcv.byCh[ch]
		acc := f.accepted[ch]
		for i := f.checked[ch]; i < len(got); i++ {
			f.checked[ch] = i + 1
			r.c.Event(1)
			if i < len(acc) && bytes.Equal(got[i], acc[i]) {
				continue
			}
			kind := "altered"
			switch {
			case i >= len(acc) && !f.wasAccepted(got[i]):
				kind = "never-sent"
			case i >= len(acc):
				kind = "duplicated"
			default:
				for j, a := range acc {
					if bytes.Equal(a, got[i]) {
						if j < i {
							kind = "duplicated"
						} else {
							kind = "reordered"
						}
					}
				}
				if kind == "altered" {
					switch {
					case f.onOtherChannel(ch, got[i]):
						kind = "from-other-channel"
					case len(got[i]) < len(acc[i]) && bytes.HasPrefix(acc[i], got[i]):
						kind = "truncated"
					case len(got[i]) > len(acc[i]) && bytes.HasPrefix(got[i], acc[i]):
						kind = "merged-with-more-bytes"
					case len(got[i]) > 0 && bytes.HasSuffix(got[i], acc[i]):
						kind = "prefixed-with-foreign-bytes"
					}
				}
			}
			exp := "nothing (all accepted messages of this channel were already delivered)"
			if i < len(acc) {
				exp = describe(acc[i])
			}
			r.violate("mconn", "mconn/delivered-sequence-differs/"+kind,
				"%s channel %#x: delivery #%d is %s, expected %s (%s)", f.name, ch, i, describe(got[i]), exp, kind)
			return
		}
	}
}

func (f *flow) wasAccepted(b []byte) bool {
	for _, l := range f.accepted {
		for _, a := range l {
			if bytes.Equal(a, b) {
				return true
			}
		}
	}
	return false
}

func (f *flow) onOtherChannel(ch byte, b []byte) bool {
	for c, l := range f.accepted {
		if c == ch {
			continue
		}
		for _, a := range l {
			if bytes.Equal(a, b) {
				return true
			}
		}
	}
	return false
}

func (f *flow) allDelivered() bool {
	f.rcv.mu.Lock()
	defer f.rcv.mu.Unlock()
	for ch, acc := range f.accepted {
		if len(f.rcv.byCh[ch]) < len(acc) {
			return false
		}
	}
	return true
}

func (f *flow) missing() string {
	f.rcv.mu.Lock()
	defer f.rcv.mu.Unlock()
	chs := make([]int, 0)
	for ch := range f.accepted {
		chs = append(chs, int(ch))
	}
	sort.Ints(chs)
	for _, chi := range chs {
		ch := byte(chi)
		if n, a := len(f.rcv.byCh[ch]), len(f.accepted[ch]); n < a {
			return fmt.Sprintf("%s channel %#x: %d of %d accepted messages delivered, next missing %s", f.name, ch, n, a, describe(f.accepted[ch][n]))
		}
	}
	return ""
}

// fingerprint folds the per-channel delivered sequences (what the property
// observes) into the run fingerprint.
func (f *flow) fingerprint(r *runState) (msgs int, multi bool) {
	f.rcv.mu.Lock()
	defer f.rcv.mu.Unlock()
	chs := make([]int, 0)
	for ch := range f.rcv.byCh {
		chs = append(chs, int(ch))
	}
	sort.Ints(chs)
	for _, chi := range chs {
		h := sha256.New()
		for _, m := range f.rcv.byCh[byte(chi)] {
			var l [4]byte
			binary.BigEndian.PutUint32(l[:], uint32(len(m)))
			h.Write(l[:])
			h.Write(m)
			msgs++
		}
		r.finger(f.name, chi, len(f.rcv.byCh[byte(chi)]), fmt.Sprintf("%x", h.Sum(nil)[:8]))
	}
	return
}

// ---------------------------------------------------------------- configuration

type chanSpec struct {
	id      byte
	prio    [2]int
	qcap    [2]int
	recvBuf [2]int
}

type mstep struct {
	kind  int // 0 send, 1 sleep, 2 pump a little, 3 settle
	side  int
	ch    int
	size  int
	try   bool
	bad   int // 0 ok, 1 empty message, 2 unknown channel
	dur   time.Duration
	pumpN int
}

type mplan struct {
	mode     int // 0 bounded pipe (B), 1 rate limited (R), 2 defaults (D)
	layered  bool
	nodeInfo bool
	payload  int
	chans    []chanSpec
	steps    []mstep
	cfg      [2]conn.MConnConfig
	caps     [2]int
	wire     [2]int64 // estimated wire bytes per sending side
	packets  int
}

func (r *runState) drawMsgSize(t *kernel.Tape, p int, left *int) int {
	var n int
	switch t.Pick(2, 4, 6, 4, 2) {
	case 0:
		n = 1
	case 1:
		n = t.Range(1, p)
	case 2:
		n = t.Range(1, 6)*p + t.Range(-1, 1)
	case 3:
		n = t.Range(1, 64*p)
	default:
		n = t.Range(1, 256*1024)
	}
	if n < 1 {
		n = 1
	}
	if n > 256*1024 {
		n = 256 * 1024
	}
	pk := (n + p - 1) / p
	if pk > *left {
		if *left <= 1 {
			n = t.Range(1, p)
			pk = 1
		} else {
			n = *left * p
			pk = *left
		}
	}
	*left -= pk
	if *left < 0 {
		*left = 0
	}
	return n
}

func (r *runState) planMConn() *mplan {
	cfg, w := r.cfg, r.work
	pl := &mplan{}
	pl.mode = cfg.Pick(55, 30, 15)
	pl.layered = cfg.Bool(1, 2)
	pl.nodeInfo = pl.layered && cfg.Bool(1, 2)
	switch cfg.Pick(2, 3, 4, 2, 2) {
	case 0:
		pl.payload = cfg.Range(1, 8)
	case 1:
		pl.payload = cfg.Range(9, 64)
	case 2:
		pl.payload = cfg.Range(65, 1024)
	case 3:
		pl.payload = cfg.Range(1025, 8192)
	default:
		pl.payload = 32 * 1024
	}
	if pl.mode == 2 {
		pl.payload = conn.DefaultMConnConfig().MaxPacketMsgPayloadSize
	}
	nch := cfg.Range(1, 5)
	used := map[byte]bool{}
	for len(pl.chans) < nch {
		id := byte(cfg.Int(256))
		for used[id] { // never a rejection loop on the tape: a replayed tape may be all zeros
			id++
		}
		used[id] = true
		cs := chanSpec{id: id}
		for s := 0; s < 2; s++ {
			cs.prio[s] = cfg.Range(1, 20)
			switch cfg.Pick(3, 2, 3, 2) {
			case 0:
				cs.qcap[s] = 1
			case 1:
				cs.qcap[s] = 2
			case 2:
				cs.qcap[s] = cfg.Range(3, 8)
			default:
				cs.qcap[s] = 0 // the default capacity
			}
			switch cfg.Pick(2, 1, 2) {
			case 0:
				cs.recvBuf[s] = cfg.Range(1, 64)
			case 1:
				cs.recvBuf[s] = 4096
			default:
				cs.recvBuf[s] = 0
			}
		}
		pl.chans = append(pl.chans, cs)
	}
	// workload
	budget := 8000
	nsteps := w.Range(5, 60)
	if r.tier == kernel.Thorough {
		budget = 40000
		nsteps = w.Range(5, 150)
	}
	left := budget
	for i := 0; i < nsteps; i++ {
		st := mstep{}
		st.kind = w.Pick(70, 12, 9, 9)
		switch st.kind {
		case 0:
			st.side = w.Int(2)
			st.ch = w.Int(len(pl.chans))
			st.size = r.drawMsgSize(w, pl.payload, &left)
			st.try = pl.mode == 0 && w.Bool(1, 2)
			if w.Bool(1, 25) {
				st.bad = 1 + w.Int(2)
			}
			pk := int64((st.size + pl.payload - 1) / pl.payload)
			pl.wire[st.side] += int64(st.size) + pk*16
		case 1:
			switch w.Pick(4, 3, 2) {
			case 0:
				st.dur = time.Duration(w.Range(1, 20)) * time.Millisecond
			case 1:
				st.dur = time.Duration(w.Range(21, 300)) * time.Millisecond
			default:
				st.dur = time.Duration(w.Range(301, 2500)) * time.Millisecond
			}
		case 2:
			st.pumpN = w.Range(1, 20)
		}
		pl.steps = append(pl.steps, st)
	}
	pl.packets = budget - left
	// connection configuration per side
	for s := 0; s < 2; s++ {
		c := conn.DefaultMConnConfig()
		if pl.mode != 2 {
			c.MaxPacketMsgPayloadSize = pl.payload
			// offsets keep flush (x.137 ms), pong timeout (x.3 ms), ping and stats
			// (x.0 ms) and driver instants (x.5 ms) from ever coinciding
			c.FlushThrottle = time.Duration(cfg.Range(1, 150))*time.Millisecond + 137*time.Microsecond
		}
		switch pl.mode {
		case 0:
			c.SendRate, c.RecvRate = 0, 0 // unlimited
			ping := cfg.Range(1500, 20000)
			c.PingInterval = time.Duration(ping) * time.Millisecond
			c.PongTimeout = time.Duration(cfg.Range(1000, ping-100))*time.Millisecond + 300*time.Microsecond
		case 1:
			switch cfg.Pick(2, 2, 1) {
			case 0:
				c.SendRate = int64(cfg.Range(1000, 20000))
			case 1:
				c.SendRate = int64(cfg.Range(20001, 500000))
			default:
				c.SendRate = int64(cfg.Range(500001, 5120000))
			}
			// a receiver slower than the backlog makes pongs late, which is a
			// legitimate pong timeout; keep the receive lag under ~3 s
			minRecv := pl.wire[1-s]/3 + 20000
			switch cfg.Pick(2, 2) {
			case 0:
				c.RecvRate = 0
			default:
				c.RecvRate = minRecv + int64(cfg.Range(0, 2000000))
			}
			ping := cfg.Range(12000, 40000)
			c.PingInterval = time.Duration(ping) * time.Millisecond
			c.PongTimeout = time.Duration(cfg.Range(10000, ping-1000))*time.Millisecond + 300*time.Microsecond
		}
		pl.cfg[s] = c
	}
	if pl.mode == 0 {
		for d := 0; d < 2; d++ {
			switch cfg.Pick(2, 3, 3, 2) {
			case 0:
				pl.caps[d] = cfg.Range(1, 100)
			case 1:
				pl.caps[d] = cfg.Range(101, 5000)
			case 2:
				pl.caps[d] = cfg.Range(5001, 100000)
			default:
				pl.caps[d] = 0
			}
		}
	}
	return pl
}

func (pl *mplan) descs(side int) []*conn.ChannelDescriptor {
	var ds []*conn.ChannelDescriptor
	for _, cs := range pl.chans {
		ds = append(ds, &conn.ChannelDescriptor{ID: cs.id, Priority: cs.prio[side], SendQueueCapacity: cs.qcap[side], RecvBufferCapacity: cs.recvBuf[side]})
	}
	return ds
}

func modeLetter(m int) string { return []string{"bounded-pipe", "rate-limited", "defaults"}[m] }

// ---------------------------------------------------------------- driver

// mdriver runs a step plan over two flows (one per direction).
type mdriver struct {
	r     *runState
	pl    *mplan
	pump  *pump
	flows [2]*flow // flows[s]: messages sent by side s
	recvs [2]*mrecv
	all   map[string]*flow

	trySendRefused int
	sendBlocked    int
	sendRefused    int
	maxMsg         int
	multiPacket    bool
	exactMultiple  bool
}

func (d *mdriver) check() {
	if d.pump.runaway && !d.r.stop {
		d.r.violate("liveness", "net/traffic-never-quiesces", "the two connections kept exchanging bytes through %d deliveries without any virtual time passing", maxSettleSteps)
		return
	}
	for s := 0; s < 2; s++ {
		if d.r.stop {
			return
		}
		d.flows[s].check(d.r, d.all)
	}
	for s := 0; s < 2; s++ {
		d.recvs[s].mu.Lock()
		errs := append([]string(nil), d.recvs[s].errs...)
		d.recvs[s].mu.Unlock()
		if len(errs) > 0 && !d.r.stop {
			d.r.violate("mconn", "mconn/onError-in-fault-free-run/"+errClass(errs[0]),
				"side %d: onError was called in a run without faults: %s", s, errs[0])
		}
	}
}

func errClass(e string) string {
	for _, k := range []string{"pong timeout", "Unknown channel", "exceeds available capacity", "Unknown message type", "EOF", "closed", "rlp", "decode", "decrypt", "timeout"} {
		if bytes.Contains([]byte(e), []byte(k)) {
			return string(bytes.ReplaceAll([]byte(k), []byte(" "), []byte("-")))
		}
	}
	return "other"
}

// sleepQuanta lets virtual time pass in quanta small against every pong
// timeout, settling the network before and after each one.
func (d *mdriver) sleepQuanta(total time.Duration) {
	const q = 400 * time.Millisecond
	for total > 0 && !d.r.stop {
		d.pump.settle()
		step := total
		if step > q {
			step = q
		}
		d.r.sleep(step)
		total -= step
	}
	d.pump.settle()
}

func (d *mdriver) doSend(st mstep) {
	r := d.r
	f := d.flows[st.side]
	cs := d.pl.chans[st.ch]
	ch := cs.id
	var msg []byte
	switch st.bad {
	case 1:
		msg = []byte{}
	case 2:
		// a channel id neither side has
		for {
			ch++
			known := false
			for _, c := range d.pl.chans {
				if c.id == ch {
					known = true
				}
			}
			if !known {
				break
			}
		}
		msg = makeMsg(byte(st.side), ch, 0xFFFFFFFF, st.size)
	default:
		msg = makeMsg(byte(st.side), ch, f.seq[ch], st.size)
	}
	var ok bool
	if st.try {
		ok = f.snd.TrySend(ch, msg)
		synctest.Wait()
		if !ok && st.bad == 0 {
			d.trySendRefused++
		}
	} else {
		var mu sync.Mutex
		returned := false
		go func() {
			res := f.snd.Send(ch, msg)
			mu.Lock()
			ok, returned = res, true
			mu.Unlock()
		}()
		isBack := func() bool {
			mu.Lock()
			defer mu.Unlock()
			return returned
		}
		synctest.Wait()
		if !isBack() {
			d.sendBlocked++
		}
		waited := time.Duration(0)
		for !isBack() {
			if d.pump.step() {
				continue
			}
			// nothing in flight and the call is still parked: only time helps
			// (a rate limiter asleep, or the send timeout)
			d.r.wait(20 * time.Millisecond)
			waited += 20 * time.Millisecond
			synctest.Wait()
			if waited > 5*time.Minute {
				r.violate("mconn", "mconn/send-never-returns", "Send on %s channel %#x did not return within 5 virtual minutes", f.name, ch)
				return
			}
		}
		if !ok && st.bad == 0 {
			d.sendRefused++
		}
	}
	r.c.Event(1)
	if st.bad != 0 {
		if ok {
			r.violate("mconn", fmt.Sprintf("mconn/accepted-invalid-send/%d", st.bad), "Send/TrySend returned true for %s", []string{"", "an empty message", "an unknown channel"}[st.bad])
		}
		return
	}
	if ok {
		f.accepted[ch] = append(f.accepted[ch], msg)
		f.accOrder = append(f.accOrder, ch)
		if len(msg)%d.pl.payload == 0 {
			d.exactMultiple = true
		}
		f.nAcc++
		f.seq[ch]++
		if len(msg) > d.maxMsg {
			d.maxMsg = len(msg)
		}
		if len(msg) > d.pl.payload {
			d.multiPacket = true
		}
	}
}

func (d *mdriver) runSteps() {
	r := d.r
	for _, st := range d.pl.steps {
		if r.stop {
			return
		}
		switch st.kind {
		case 0:
			d.doSend(st)
		case 1:
			d.sleepQuanta(st.dur)
		case 2:
			for i := 0; i < st.pumpN && d.pump.step(); i++ {
			}
		default:
			d.pump.settle()
		}
		synctest.Wait()
		d.check()
	}
}

// drain lets everything accepted arrive: bounded virtual time, generous.
func (d *mdriver) drain(budget time.Duration, quantum time.Duration) {
	r := d.r
	start := time.Now()
	for !r.stop {
		d.pump.settle()
		d.check()
		if r.stop {
			return
		}
		if d.flows[0].allDelivered() && d.flows[1].allDelivered() {
			return
		}
		if time.Since(start) > budget {
			m := d.flows[0].missing()
			if m == "" {
				m = d.flows[1].missing()
			}
			r.violate("mconn", "mconn/accepted-message-not-delivered", "after %v of idle virtual time with the network fully pumped: %s", budget, m)
			return
		}
		r.wait(quantum)
	}
}

// scenarioMConn: part (2).
func (r *runState) scenarioMConn() {
	c := r.c
	pl := r.planMConn()
	kA := newRecKey(r.keys.Bytes(32), r.led)
	kB := newRecKey(r.keys.Bytes(32), r.led)
	r.sample["mode"] = modeLetter(pl.mode)
	r.sample["layered"] = pl.layered
	r.sample["payload"] = pl.payload
	r.sample["caps"] = pl.caps
	chs := []string{}
	for _, cs := range pl.chans {
		chs = append(chs, fmt.Sprintf("%#x prio %d/%d q %d/%d", cs.id, cs.prio[0], cs.prio[1], cs.qcap[0], cs.qcap[1]))
	}
	r.sample["channels"] = chs
	r.finger("mconn", pl.mode, pl.layered, pl.nodeInfo, pl.payload, len(pl.chans), len(pl.steps))

	var link *SimLink
	var ends [2]net.Conn
	if pl.layered {
		l, sc0, sc1, ok := r.securePair(pl.caps[0], pl.caps[1], kA, kB, r.cfg.Bool(1, 6))
		if !ok {
			return
		}
		link = l
		ends = [2]net.Conn{sc0, sc1}
	} else {
		link = r.newLink(pl.caps[0], pl.caps[1])
		ends = [2]net.Conn{link.End(0), link.End(1)}
	}
	for d := 0; d < 2; d++ {
		mode := byte(wireTypeCompress)
		if pl.layered {
			mode = r.mode
		}
		// layered over sealed/raw frames every flush is one 32 KiB frame
		link.SetCapacity(d, minCapacity(mode, pl.caps[d], pl.wire[d], len(pl.steps)*4))
	}
	pm := newPump(r.net, r.pumpBudget(), link)
	if pl.nodeInfo {
		if !r.nodeInfoExchange(pm, ends, [2]recKey{kA, kB}, pl) {
			return
		}
	}
	d := &mdriver{r: r, pl: pl, pump: pm, all: map[string]*flow{}}
	var ms [2]*conn.MConnection
	for s := 0; s < 2; s++ {
		d.recvs[s] = newMrecv()
	}
	for s := 0; s < 2; s++ {
		ms[s] = conn.NewMConnectionWithConfig(ends[s], pl.descs(s), d.recvs[s].onReceive, d.recvs[s].onError, pl.cfg[s])
	}
	for s := 0; s < 2; s++ {
		d.flows[s] = newFlow(fmt.Sprintf("side%d->side%d", s, 1-s), ms[s], d.recvs[1-s])
		d.all[d.flows[s].name] = d.flows[s]
	}
	defer func() {
		for s := 0; s < 2; s++ {
			ms[s].Stop()
		}
		synctest.Wait()
	}()
	for s := 0; s < 2; s++ {
		if err := ms[s].Start(); err != nil {
			c.HarnessTrouble("MConnection.Start: %v", err)
			return
		}
	}
	synctest.Wait()
	r.sleep(500 * time.Microsecond) // driver instants at x.5 ms from here on
	d.runSteps()
	if r.stop {
		return
	}
	// drain
	budget, quantum := 15*time.Second, 50*time.Millisecond
	if pl.mode != 0 {
		quantum = 100 * time.Millisecond
		rate := pl.cfg[0].SendRate
		if pl.cfg[1].SendRate < rate {
			rate = pl.cfg[1].SendRate
		}
		w := pl.wire[0]
		if pl.wire[1] > w {
			w = pl.wire[1]
		}
		if rate < 1 {
			rate = 1
		}
		budget = 60*time.Second + 3*time.Duration(w*int64(time.Second)/rate)
		if budget > 10*time.Minute {
			budget = 10 * time.Minute
		}
	}
	d.drain(budget, quantum)
	if r.stop {
		return
	}
	// idle tail: pings and pongs with nothing else going on
	idle := time.Duration(0)
	if r.work.Bool(1, 2) {
		idle = time.Duration(r.work.Range(1, 2*int(pl.cfg[0].PingInterval/time.Millisecond))) * time.Millisecond
		before := link.Stats(0).Wrote + link.Stats(1).Wrote
		d.sleepQuanta(idle)
		d.check()
		if link.Stats(0).Wrote+link.Stats(1).Wrote > before && idle >= pl.cfg[0].PingInterval {
			c.Probe("idle_ping_pong")
		}
	}
	if r.stop {
		return
	}
	// final verdict
	msgs := 0
	for s := 0; s < 2; s++ {
		n, _ := d.flows[s].fingerprint(r)
		msgs += n
		r.finger("accepted", s, d.flows[s].nAcc)
	}
	r.sample["steps"] = len(pl.steps)
	r.sample["accepted"] = [2]int{d.flows[0].nAcc, d.flows[1].nAcc}
	r.sample["delivered"] = msgs
	r.sample["largest_msg"] = d.maxMsg
	r.sample["packets_planned"] = pl.packets
	r.sample["trysend_refused"] = d.trySendRefused
	r.sample["send_blocked"] = d.sendBlocked
	r.sample["planned_virtual_time"] = r.slept.String()
	if msgs >= 3 && d.multiPacket {
		c.NonTrivial()
	}
	if d.trySendRefused > 0 {
		c.Probe("trysend_refused_queue_full")
	}
	if d.sendBlocked > 0 {
		c.Probe("send_blocked_queue_full")
	}
	if d.sendRefused > 0 {
		c.Probe("send_timed_out")
	}
	if pl.layered {
		c.Probe("mconn_over_secret_connection")
	}
	if d.maxMsg > 64*pl.payload {
		c.Probe("message_over_64_packets")
	}
	if len(pl.chans) >= 3 {
		c.Probe("three_or_more_channels")
	}
	if d.exactMultiple {
		c.Probe("message_exact_multiple_of_packet_payload")
	}
	// arrival order across channels is only schedule-independent where no
	// virtual time passes during a backlog
	if pl.mode == 0 && (d.flows[0].crossChannelReordered() || d.flows[1].crossChannelReordered()) {
		c.Probe("channels_overtook_each_other")
	}
	c.Probe("mconn_mode_" + modeLetter(pl.mode))
}

// nodeInfoExchange runs the real p2p.HandShakeFunc on both ends, as
// Switch.addPeer does right after the secret connection is up.
func (r *runState) nodeInfoExchange(pm *pump, ends [2]net.Conn, keys [2]recKey, pl *mplan) bool {
	var infos [2]p2p.NodeInfo
	chIDs := []byte{}
	for _, cs := range pl.chans {
		chIDs = append(chIDs, cs.id)
	}
	for s := 0; s < 2; s++ {
		infos[s] = p2p.NodeInfo{
			PubKey:     keys[s].inner.PubKey().(crypto.PubKeyEd25519),
			ListenAddr: fmt.Sprintf("10.0.0.%d:%d", s+1, 40001+s),
			Network:    "simnet",
			Version:    "1.2.3",
			Channels:   chIDs,
			Moniker:    fmt.Sprintf("node-%d-%x", s, genData(r.work, r.work.Pick(3, 1)*r.work.Range(0, 2500))),
			Other:      []string{"a=b"},
			Type:       types.NodePeer,
			LocalAddrs: []string{"10.0.0.9:1"},
		}
	}
	type res struct {
		ni   p2p.NodeInfo
		err  error
		done bool
	}
	var mu sync.Mutex
	var out [2]res
	for s := 0; s < 2; s++ {
		s := s
		go func() {
			ni, err := p2p.HandShakeFunc(ends[s], infos[s], 20*time.Second, s == 1)
			mu.Lock()
			out[s] = res{ni, err, true}
			mu.Unlock()
		}()
		synctest.Wait()
	}
	pm.settle()
	synctest.Wait()
	mu.Lock()
	defer mu.Unlock()
	for s := 0; s < 2; s++ {
		o := out[s]
		want := infos[1-s]
		switch {
		case !o.done:
			r.violate("handshake", "nodeinfo/exchange-stalls", "side %d: HandShakeFunc did not return although everything written was delivered", s)
			return false
		case o.err != nil:
			r.violate("handshake", "nodeinfo/exchange-fails", "side %d: HandShakeFunc over an established secret connection failed: %v", s, o.err)
			return false
		case o.ni.PubKey != want.PubKey || o.ni.Moniker != want.Moniker || o.ni.ListenAddr != want.ListenAddr || o.ni.Network != want.Network ||
			o.ni.Version != want.Version || !bytes.Equal(o.ni.Channels, want.Channels) || o.ni.Type != want.Type:
			r.violate("handshake", "nodeinfo/received-differs-from-sent", "side %d: the NodeInfo received differs from the one the peer sent", s)
			return false
		}
	}
	r.c.Probe("nodeinfo_handshake")
	return true
}
