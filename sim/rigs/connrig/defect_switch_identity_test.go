package connrig

import (
	"net"
	"os"
	"testing"
	"testing/synctest"
	"time"

	"github.com/lianxiangcloud/linkchain/config"
	"github.com/lianxiangcloud/linkchain/libs/crypto"
	"github.com/lianxiangcloud/linkchain/libs/log"
	"github.com/lianxiangcloud/linkchain/libs/p2p"
	pcommon "github.com/lianxiangcloud/linkchain/libs/p2p/common"
	"github.com/lianxiangcloud/linkchain/libs/p2p/conn"
	"github.com/lianxiangcloud/linkchain/types"
)

// Direct reproduction (no kernel, no tape) of the finding
// "auth/switch-registers-peer-under-unproven-nodeinfo-key":
//
// Switch.addPeer takes the peer's identity from the self-reported
// NodeInfo.PubKey received by HandShakeFunc and never compares it with the key
// authenticated by the secret connection (SecretConnection.RemotePubKey() has
// no caller outside tests). An inbound peer that holds only its own key M can
// therefore be registered under the identity of any public key V.
//
// Input: a real p2p.Switch (real listenerRoutine/newPeerConn/addPeer, fed by a
// fake Listener over an in-memory pipe). The remote side runs the real
// MakeSecretConnection with key M, then the real HandShakeFunc with
// NodeInfo{PubKey: V}; the private key of V does not exist anywhere.
// Expected: the switch refuses the peer (identity not proven).
// Actual:   sw.Peers() contains a started peer whose ID() is the ID of V.
//
//	Run: cd /verif/sim && VERIF_DEFECT_REPRO=1 go1.26.8 test -vet=off -tags verif \
//	       -overlay /verif/build/overlay.json -run TestDefectSwitchIdentity -v ./rigs/connrig/
func TestDefectSwitchIdentity(t *testing.T) {
	if os.Getenv("VERIF_DEFECT_REPRO") != "1" {
		t.Skip("set VERIF_DEFECT_REPRO=1: this test fails on the unchanged tree by design")
	}
	synctest.Test(t, func(t *testing.T) {
		kS := crypto.GenPrivKeyEd25519FromSecret([]byte("switch"))
		kM := crypto.GenPrivKeyEd25519FromSecret([]byte("attacker"))
		victim := crypto.GenPrivKeyEd25519FromSecret([]byte("victim - private half discarded")).PubKey().(crypto.PubKeyEd25519)
		info := func(pk crypto.PubKeyEd25519, name string) p2p.NodeInfo {
			return p2p.NodeInfo{PubKey: pk, Network: "simnet", Version: "1.0.0", Channels: []byte{0x20}, Moniker: name, Type: types.NodePeer}
		}
		pcfg := config.DefaultP2PConfig()
		sw, err := p2p.NewP2pManager(log.Root(), kS, pcfg, info(kS.PubKey().(crypto.PubKeyEd25519), "switch"), nil, nil)
		if err != nil {
			t.Fatal(err)
		}
		rr := &recReactor{rcv: newMrecv(), descs: []*conn.ChannelDescriptor{{ID: 0x20, Priority: 1}}}
		rr.BaseReactor = p2p.NewBaseReactor("rec", rr)
		sw.AddReactor("rec", rr)
		fl := &fakeListener{ch: make(chan net.Conn, 1)}
		sw.AddListener(fl)
		if err := sw.Start(); err != nil {
			t.Fatal(err)
		}
		l := NewSimLink(0, 0)
		fl.ch <- l.End(0)
		var remoteErr error
		go func() {
			sc, err := conn.MakeSecretConnection(l.End(1), kM) // proves possession of M
			if err != nil {
				remoteErr = err
				return
			}
			_, remoteErr = p2p.HandShakeFunc(sc, info(victim, "i am the victim"), 20*time.Second, false) // claims V
		}()
		// a plain lossless network: deliver message by message
		for i := 0; i < 100; i++ {
			synctest.Wait()
			moved := false
			for d := 0; d < 2; d++ {
				if n := gateFirstWrite(l, d, l.InFlight(d)); n > 0 {
					l.Deliver(d, n)
					moved = true
				}
			}
			if !moved {
				break
			}
		}
		id := pcommon.TransPubKeyToStringID(victim)
		has := sw.Peers().HasID(id)
		t.Logf("remote err=%v; switch has a peer with the victim's identity %s...: %v (running: %v)", remoteErr, id[:12], has, has && sw.Peers().GetByID(id).IsRunning())
		l.CloseBoth()
		synctest.Wait()
		sw.Stop()
		synctest.Wait()
		mPub := kM.PubKey().(crypto.PubKeyEd25519)
		if has {
			t.Errorf("DEFECT REPRODUCED: inbound peer that proved key %X was registered under the unproven identity of key %X", mPub[:6], victim[:6])
		}
	})
}
