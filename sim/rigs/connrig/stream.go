package connrig

import (
	"bytes"
	"crypto/sha256"
	"encoding/hex"
	"fmt"
	"io"
	"runtime"
	"sync"
	"testing/synctest"

	"verif/sim/kernel"
)

// xs is a small local PRNG for bulk content (seeded by one tape draw, so that
// megabytes of payload do not become megabytes of tape).
type xs struct{ s uint64 }

func (x *xs) next() uint64 {
	x.s += 0x9e3779b97f4a7c15
	z := x.s
	z = (z ^ (z >> 30)) * 0xbf58476d1ce4e5b9
	z = (z ^ (z >> 27)) * 0x94d049bb133111eb
	return z ^ (z >> 31)
}

// genData makes n bytes out of segments of different compressibility: random,
// a counter (every position distinct), runs of one byte, a short period.
func genData(t *kernel.Tape, n int) []byte {
	out := make([]byte, 0, n)
	x := &xs{s: t.Uint64()}
	for len(out) < n {
		seg := 1 + int(x.next()%uint64(1+n/3+64))
		if seg > n-len(out) {
			seg = n - len(out)
		}
		switch x.next() % 5 {
		case 0, 1: // incompressible
			for i := 0; i < seg; i += 8 {
				v := x.next()
				for k := 0; k < 8 && i+k < seg; k++ {
					out = append(out, byte(v>>(8*k)))
				}
			}
		case 2: // counter words
			base := x.next()
			for i := 0; i < seg; i++ {
				c := base + uint64(len(out))
				out = append(out, byte(c>>(8*(uint(len(out))%3))))
			}
		case 3: // run of a single value
			b := byte(x.next())
			for i := 0; i < seg; i++ {
				out = append(out, b)
			}
		default: // short period
			per := 1 + int(x.next()%37)
			start := len(out)
			for i := 0; i < seg; i++ {
				if i < per {
					out = append(out, byte(x.next()))
				} else {
					out = append(out, out[start+i%per])
				}
			}
		}
	}
	return out
}

const frameData = 32 * 1024 // the documented frame payload ("chunked at 32KiB")

func (r *runState) drawWriteSize(t *kernel.Tape, left int) int {
	var n int
	switch t.Pick(3, 4, 4, 4, 4, 2) {
	case 0:
		n = 1
	case 1:
		n = t.Range(2, 100)
	case 2:
		n = t.Range(101, 5000)
	case 3:
		n = frameData + t.Range(-2, 2)
	case 4:
		n = t.Range(1, 5)*frameData + t.Range(-1, 1)
	default:
		n = t.Range(5001, 170000)
	}
	if n < 1 {
		n = 1
	}
	if n > left {
		n = left
	}
	return n
}

func drawReadSize(t *kernel.Tape) int {
	switch t.Pick(1, 3, 4, 5, 3, 4) {
	case 0:
		return 0
	case 1:
		return 1
	case 2:
		return t.Range(2, 64)
	case 3:
		return t.Range(65, 4096)
	case 4:
		return frameData + t.Range(-1, 1)
	default:
		return t.Range(4097, 100000)
	}
}

// dirPlan is the workload of one direction of the stream scenario.
type dirPlan struct {
	data   []byte
	writes []int
	reads  []int // cyclic list of read buffer sizes
	// yield[i]: after read i (cyclic) the reader parks until the driver lets it
	// go on, so that the tape decides how the Reads of the two connections of
	// the process interleave (a Read that left a remainder in the connection
	// does not otherwise block before it drains it)
	yield  []bool
	parked bool
	resume chan struct{}

	mu       sync.Mutex
	wDone    bool
	wErr     string
	wrote    int
	rDone    bool
	rErr     string
	got      int
	nReads   int
	shortest int
	mismatch string
	hash     []byte
	// the read issued after the stream is complete: it must stay blocked
	// (nothing more was written) until the frame-tampering step, if any
	tailDone bool
	tailN    int
	tailErr  error
	tailData []byte
}

func (r *runState) planDir(maxTotal int) *dirPlan {
	t := r.work
	p := &dirPlan{shortest: 1 << 30}
	var total int
	switch t.Pick(2, 3, 3) {
	case 0:
		total = t.Range(1, 2000)
	case 1:
		total = t.Range(2001, 100000)
	default:
		total = t.Range(100001, maxTotal)
	}
	p.data = genData(t, total)
	// every Write costs at least one frame (a full 32 KiB one in the sealed and
	// raw modes): bound their number, the rest goes out in one piece
	maxWrites := 1500
	if r.mode != wireTypeCompress {
		maxWrites = 300
	}
	for left := total; left > 0; {
		n := r.drawWriteSize(t, left)
		if len(p.writes) >= maxWrites {
			n = left
		}
		p.writes = append(p.writes, n)
		left -= n
	}
	nr := t.Range(1, 24)
	for i := 0; i < nr; i++ {
		p.reads = append(p.reads, drawReadSize(t))
	}
	// a cycle of only zero-length buffers would never finish
	p.reads = append(p.reads, t.Range(1, 70000))
	y := r.c.Tape.Fork("yield")
	if y.Bool(2, 3) {
		den := y.Range(2, 12)
		for range p.reads {
			p.yield = append(p.yield, y.Bool(1, den))
		}
	}
	p.resume = make(chan struct{})
	return p
}

func (p *dirPlan) writer(w io.Writer) {
	off := 0
	for _, n := range p.writes {
		k, err := w.Write(p.data[off : off+n])
		p.mu.Lock()
		p.wrote += k
		if err != nil || k != n {
			p.wErr = fmt.Sprintf("Write of %d bytes at offset %d returned (%d, %v)", n, off, k, err)
			p.wDone = true
			p.mu.Unlock()
			return
		}
		p.mu.Unlock()
		off += n
	}
	p.mu.Lock()
	p.wDone = true
	p.mu.Unlock()
}

func (p *dirPlan) reader(rd io.Reader) {
	h := sha256.New()
	got := 0
	i := 0
	maxBuf := 0
	for _, n := range p.reads {
		if n > maxBuf {
			maxBuf = n
		}
	}
	buf := make([]byte, maxBuf+1)
	fail := func(msg string) {
		p.mu.Lock()
		p.rErr = msg
		p.rDone = true
		p.got = got
		p.mu.Unlock()
	}
	for got < len(p.data) {
		size := p.reads[i%len(p.reads)]
		i++
		b := buf[:size]
		for k := range b {
			b[k] = 0xEE
		}
		n, err := rd.Read(b)
		if n < 0 || n > size {
			fail(fmt.Sprintf("Read with a %d byte buffer returned n=%d", size, n))
			return
		}
		if err != nil {
			fail(fmt.Sprintf("Read returned error %v after %d of %d bytes", err, got, len(p.data)))
			return
		}
		if got+n > len(p.data) {
			fail(fmt.Sprintf("read %d bytes beyond the %d written", got+n-len(p.data), len(p.data)))
			return
		}
		if !bytes.Equal(b[:n], p.data[got:got+n]) {
			j := 0
			for j < n && b[j] == p.data[got+j] {
				j++
			}
			p.mu.Lock()
			p.mismatch = fmt.Sprintf("byte %d of the stream differs: read %#02x, written %#02x (read call %d, buffer %d, n=%d)", got+j, b[j], p.data[got+j], i, size, n)
			p.rDone = true
			p.got = got
			p.mu.Unlock()
			return
		}
		h.Write(b[:n])
		got += n
		p.mu.Lock()
		p.got = got
		p.nReads++
		if size > 0 && n < p.shortest {
			p.shortest = n
		}
		park := len(p.yield) > 0 && p.yield[(i-1)%len(p.yield)] && got < len(p.data)
		p.parked = park
		p.mu.Unlock()
		if park {
			<-p.resume
		}
	}
	p.mu.Lock()
	p.hash = h.Sum(nil)
	p.rDone = true
	p.mu.Unlock()
	// tail: nothing more may come out
	tb := make([]byte, 70000)
	n, err := rd.Read(tb)
	p.mu.Lock()
	p.tailDone, p.tailN, p.tailErr, p.tailData = true, n, err, tb[:n]
	p.mu.Unlock()
}

func (p *dirPlan) done() bool {
	p.mu.Lock()
	defer p.mu.Unlock()
	return p.wDone && p.rDone
}

// minCapacity keeps a bounded pipe from turning a large transfer into hundreds
// of thousands of deliveries (each one a synctest.Wait): at most ~5000
// deliveries are forced by the capacity. A one-byte pipe stays a one-byte pipe
// for transfers of a few KiB.
func minCapacity(mode byte, drawn int, payloadBytes int64, writes int) int {
	if drawn == 0 {
		return 0
	}
	wire := payloadBytes + payloadBytes/5 + int64(writes)*8
	if mode != wireTypeCompress {
		// sealed and raw frames are always 32 KiB on the wire
		wire = (payloadBytes/frameData + int64(writes) + 1) * (frameData + 64)
	}
	if m := int(wire / 5000); m > drawn {
		return m
	}
	return drawn
}

// scenarioStream: part (1), a SecretConnection pair carrying two independent
// byte streams.
func (r *runState) scenarioStream() {
	c := r.c
	// one P: whatever process-wide state the connections of one process share
	// (pools, caches) is then shared between the two ends deterministically
	defer runtime.GOMAXPROCS(runtime.GOMAXPROCS(1))
	kA := newRecKey(r.keys.Bytes(32), r.led)
	kB := newRecKey(r.keys.Bytes(32), r.led)
	caps := [2]int{}
	for d := 0; d < 2; d++ {
		switch r.cfg.Pick(3, 2, 2, 2) {
		case 0:
			caps[d] = 0
		case 1:
			caps[d] = r.cfg.Range(1, 64)
		case 2:
			caps[d] = r.cfg.Range(65, 40000)
		default:
			caps[d] = r.cfg.Range(40001, 200000)
		}
	}
	hazard := r.cfg.Bool(1, 5)
	maxTotal := 400000
	if r.tier == kernel.Thorough {
		maxTotal = 1500000
	}
	link, sc0, sc1, ok := r.securePair(caps[0], caps[1], kA, kB, hazard)
	if !ok {
		return
	}
	plans := [2]*dirPlan{r.planDir(maxTotal), r.planDir(maxTotal)} // [0]: end0 -> end1
	link.SetCapacity(0, minCapacity(r.mode, caps[0], int64(len(plans[0].data)), len(plans[0].writes)))
	link.SetCapacity(1, minCapacity(r.mode, caps[1], int64(len(plans[1].data)), len(plans[1].writes)))
	p := newPump(r.net, r.pumpBudget(), link)
	p.capReads = r.cfg.Bool(1, 2)
	go plans[0].writer(sc0)
	go plans[0].reader(sc1)
	go plans[1].writer(sc1)
	go plans[1].reader(sc0)
	// deliveries and the release of parked readers, both in tape order
	for steps := 0; steps < maxSettleSteps; steps++ {
		moved := p.step()
		synctest.Wait()
		var parked []*dirPlan
		for _, pl := range plans {
			pl.mu.Lock()
			if pl.parked {
				parked = append(parked, pl)
			}
			pl.mu.Unlock()
		}
		released := false
		if len(parked) > 0 && (!moved || r.net.Bool(1, 2)) {
			pl := parked[r.net.Int(len(parked))]
			pl.mu.Lock()
			pl.parked = false
			pl.mu.Unlock()
			pl.resume <- struct{}{}
			released = true
			c.Probe("reader_interleaved_at_read_boundary")
		}
		if !moved && !released {
			break
		}
	}
	synctest.Wait()

	r.sample["caps"] = caps
	r.sample["hazard_chunking"] = hazard
	r.sample["deliveries"] = p.deliveries
	nontrivial := false
	for d := 0; d < 2; d++ {
		pl := plans[d]
		pl.mu.Lock()
		c.Event(len(pl.writes) + pl.nReads)
		r.sample[fmt.Sprintf("dir%d", d)] = map[string]interface{}{
			"bytes": len(pl.data), "writes": len(pl.writes), "reads": pl.nReads, "first_writes": pl.writes[:min(6, len(pl.writes))],
			"read_sizes": pl.reads[:min(6, len(pl.reads))], "got": pl.got,
		}
		r.finger("dir", d, len(pl.data), len(pl.writes), hex.EncodeToString(pl.hash))
		if len(pl.writes) >= 3 && pl.nReads >= 3 && len(pl.data) >= 1024 {
			nontrivial = true
		}
		if pl.shortest < 1<<30 && pl.shortest == 1 {
			c.Probe("read_returned_1_byte")
		}
		for _, w := range pl.writes {
			if w > frameData {
				c.Probe("write_spans_frames")
				break
			}
		}
		for _, w := range pl.writes {
			if w == frameData {
				c.Probe("write_exactly_one_frame")
				break
			}
		}
		for _, n := range pl.reads {
			if n == 0 {
				c.Probe("zero_length_read_buffer")
				break
			}
		}
		switch {
		case pl.mismatch != "":
			r.violate("stream", "stream/bytes-differ", "direction %d: %s", d, pl.mismatch)
		case pl.rErr != "":
			r.violate("stream", "stream/read-failed", "direction %d: %s", d, pl.rErr)
		case pl.wErr != "":
			r.violate("stream", "stream/write-failed", "direction %d: %s", d, pl.wErr)
		case !pl.wDone || !pl.rDone:
			st := link.Stats(d)
			r.violate("stream", "stream/stalled", "direction %d: all written bytes were delivered but the stream is stuck: read %d of %d bytes, wrote %d (writer done=%v); pipe %+v", d, pl.got, len(pl.data), pl.wrote, pl.wDone, st)
		case pl.tailDone:
			r.violate("stream", "stream/extra-bytes", "direction %d: after the complete stream one more Read returned (n=%d, err=%v) although nothing more was written", d, pl.tailN, pl.tailErr)
		}
		pl.mu.Unlock()
		if r.stop {
			return
		}
	}
	if caps[0] > 0 || caps[1] > 0 {
		c.Probe("bounded_pipe")
	}
	if nontrivial {
		c.NonTrivial()
	}
	// optional: a flipped bit in a later frame (observation in compress mode)
	if r.flt.Bool(1, 3) {
		r.tamperTail(link, sc0, plans[0], p)
	}
}

// tamperTail: end 0 writes one more single-frame message, a man in the middle
// flips one bit of the frame in flight, and the read that end 1 has pending
// shows what the receiver makes of it. Sealed and raw frames are
// authenticated: altered plaintext without an error is a violation there. The
// compiled-in compress mode has no authenticator (and the property does not
// claim one): the outcome is recorded as a probe only.
func (r *runState) tamperTail(link *SimLink, w io.Writer, pl *dirPlan, p *pump) {
	msg := genData(r.flt, r.flt.Range(1, 30000))
	go w.Write(msg)
	synctest.Wait()
	b := link.Peek(0)
	if len(b) == 0 {
		return
	}
	var pos int
	switch r.flt.Pick(2, 6, 1) {
	case 0:
		pos = r.flt.Int(min(wireHeader, len(b)))
	case 1:
		pos = r.flt.Int(len(b))
	default:
		pos = len(b) - 1
	}
	bit := r.flt.Int(8)
	var forged []byte
	if r.mode == wireTypeSealed && r.flt.Bool(1, 3) {
		// instead of a bit flip: replace the sealed frame by an unsealed
		// (compress-type) frame with a plaintext of the attacker's choice. Read
		// dispatches on the type of each frame, not on the connection's mode.
		// Observation only: the sealed mode is not reachable in production.
		forged = genData(r.flt, r.flt.Range(1, 2000))
		link.Replace(0, compressedFrame(forged))
		r.c.Fault("frame_substituted_by_unsealed_frame")
	} else {
		b[pos] ^= 1 << uint(bit)
		link.Replace(0, b)
		r.c.Fault("frame_bitflip")
	}
	r.c.Evals(1)
	p.capReads = false
	link.SetReadCap(0, 0)
	p.settle()
	synctest.Wait()
	pl.mu.Lock()
	defer pl.mu.Unlock()
	switch {
	case forged != nil:
		if pl.tailDone && pl.tailErr == nil && bytes.Equal(pl.tailData, forged) {
			r.c.Probe("sealed_connection_accepts_injected_unsealed_frame")
		} else {
			r.c.Probe("sealed_connection_rejects_injected_unsealed_frame")
		}
	case !pl.tailDone:
		r.c.Probe("tampered_frame_receiver_waits")
	case pl.tailErr != nil:
		r.c.Probe("tampered_frame_rejected")
	case bytes.Equal(pl.tailData, msg[:min(len(msg), pl.tailN)]):
		r.c.Probe("tampered_frame_plaintext_unchanged")
	default:
		if r.mode == wireTypeCompress {
			r.c.Probe("tampered_frame_altered_plaintext_accepted_compress_mode")
		} else {
			r.violate("integrity", "integrity/authenticated-frame-altered-plaintext-accepted",
				"a bit flip at byte %d of a %s frame was not detected: Read returned %d bytes that differ from what was written", pos, modeName(r.mode), pl.tailN)
		}
	}
}
