package connrig

import (
	"bytes"
	"fmt"
	"strings"
	"sync"
	"testing/synctest"
	"time"

	"github.com/lianxiangcloud/linkchain/libs/crypto"
	"github.com/lianxiangcloud/linkchain/libs/p2p/conn"

	"verif/sim/kernel"
)

// hsEnd is one endpoint running the real MakeSecretConnection.
type hsEnd struct {
	key signer

	mu       sync.Mutex
	done     bool
	sc       *conn.SecretConnection
	err      error
	panicMsg string
	nSignsAt int // len(key.signs()) when the session started
}

func (e *hsEnd) result() (done bool, sc *conn.SecretConnection, err error) {
	e.mu.Lock()
	defer e.mu.Unlock()
	return e.done, e.sc, e.err
}

// challenge returns what this endpoint signed in this session (nil if it did
// not get that far). It is how the harness learns the session challenge
// without deriving it.
func (e *hsEnd) challenge() []byte {
	s := e.key.signs()
	if len(s) <= e.nSignsAt {
		return nil
	}
	return s[e.nSignsAt].msg
}

func (e *hsEnd) signature() crypto.Signature {
	s := e.key.signs()
	if len(s) <= e.nSignsAt {
		return nil
	}
	return s[e.nSignsAt].sig
}

// session is one secret-connection handshake over one link. ends[i] == nil
// means that side is not a MakeSecretConnection call (replayed or hand-written
// peer, reflection).
type session struct {
	r    *runState
	link *SimLink
	pump *pump
	ends [2]*hsEnd

	// the bytes of the first message (ephemeral key) of direction d as written
	// and as shown to the reader (after the man in the middle)
	ephWrote [2][]byte
	ephShown [2][]byte
	// the second message (auth frame) of direction d as written
	authWrote [2][]byte

	tampered  bool // the man in the middle changed or injected something
	coalesced [2]bool
	// forgedFor[i]: end i was shown an auth message that names this raw public
	// key together with a signature that by construction is not that key's
	// signature over this session's challenge
	forgedFor [2][]byte
}

// wire returns what end i wrote during the handshake, write by write.
func (s *session) wire(i int) [][]byte {
	if s.ends[i] == nil {
		return nil
	}
	return s.link.WriteLog(i)
}

func (r *runState) newSession(link *SimLink, k0, k1 signer) *session {
	s := &session{r: r, link: link}
	s.pump = newPump(r.net, r.pumpBudget(), link)
	if k0 != nil {
		s.ends[0] = &hsEnd{key: k0}
	}
	if k1 != nil {
		s.ends[1] = &hsEnd{key: k1}
	}
	return s
}

// start launches MakeSecretConnection on end i and waits until it is blocked
// on the link (its ephemeral key is then in flight).
func (s *session) start(i int) {
	e := s.ends[i]
	if e == nil {
		return
	}
	e.nSignsAt = len(e.key.signs())
	c := s.link.End(i)
	go func() {
		var sc *conn.SecretConnection
		var err error
		site, msg, pan := kernel.Try(func() { sc, err = conn.MakeSecretConnection(c, e.key) })
		e.mu.Lock()
		e.done, e.sc, e.err = true, sc, err
		if pan {
			e.panicMsg = site + ": " + msg
			e.sc, e.err = nil, fmt.Errorf("panic: %s", msg)
		}
		e.mu.Unlock()
	}()
	synctest.Wait()
}

// startBoth starts both ends in tape order and records the ephemeral-key
// messages as written.
func (s *session) startBoth() {
	first := s.r.net.Int(2)
	s.start(first)
	s.start(1 - first)
	for d := 0; d < 2; d++ {
		s.ephWrote[d] = s.link.Peek(d)
		s.ephShown[d] = s.ephWrote[d]
	}
}

// allDone reports whether every real end has returned.
func (s *session) allDone() bool {
	for _, e := range s.ends {
		if e == nil {
			continue
		}
		if d, _, _ := e.result(); !d {
			return false
		}
	}
	return true
}

// gateFirstOnly lets only bytes of each direction's first Write through.
func gateFirstOnly(l *SimLink, d int, avail int) int {
	ws := l.WriteSizes(d)
	if len(ws) == 0 {
		return 0
	}
	room := int(int64(ws[0]) - l.Stats(d).Delivered)
	if room < 0 {
		room = 0
	}
	if room < avail {
		return room
	}
	return avail
}

// runPlain drives an untampered handshake to its end. safe = never coalesce a
// direction's first two messages into one read (see the known finding);
// otherwise chunking is free and coalescing is detected and counted.
func (s *session) runPlain(safe bool) {
	s.startBoth()
	if safe {
		s.pump.gate = gateFirstWrite
	} else {
		s.pump.onDeliver = func(l *SimLink, d int, n int) {
			ws := l.WriteSizes(d)
			if len(ws) == 0 {
				return
			}
			st := l.Stats(d)
			first := int64(ws[0])
			// bytes of the second message become readable while the reader has
			// not yet consumed the whole first message
			if st.Consumed < first && st.Delivered+int64(n) > first {
				if !s.coalesced[d] {
					s.coalesced[d] = true
					s.r.c.Fault("coalesce_eph_with_auth")
				}
			}
		}
	}
	s.pump.settle()
	s.pump.gate, s.pump.onDeliver = nil, nil
}

// finish closes the link if an end is still blocked (optionally after letting
// a deadline expire on the fake clock) and waits for the goroutines.
func (s *session) finish(closeLink bool) {
	if !s.allDone() {
		if s.r.flt.Bool(1, 3) {
			// let the handshake deadline do the work, as newPeerConn sets one
			for i := 0; i < 2; i++ {
				s.link.End(i).SetDeadline(time.Now().Add(3 * time.Second))
			}
			s.r.sleep(3*time.Second + time.Millisecond)
			synctest.Wait()
			if s.allDone() {
				s.r.c.Probe("handshake_ended_by_deadline")
			}
		}
	}
	if closeLink || !s.allDone() {
		s.link.CloseBoth()
		synctest.Wait()
	}
}

// succeeded reports whether end i returned a connection.
func (s *session) succeeded(i int) (*conn.SecretConnection, bool) {
	e := s.ends[i]
	if e == nil {
		return nil, false
	}
	d, sc, err := e.result()
	return sc, d && err == nil && sc != nil
}

// judge applies the authentication oracle to every real end that succeeded.
// honest maps public key bytes -> index of the end that holds that key in this
// session (only real ends with real keys).
func (s *session) judge(fullTag string) {
	r := s.r
	// violation keys carry the scenario kind only; the variant is in the message
	tag := fullTag
	if i := strings.Index(tag, "/"); i >= 0 {
		tag = tag[:i]
	}
	r.c.Evals(1)
	for i := 0; i < 2; i++ {
		sc, ok := s.succeeded(i)
		if !ok {
			continue
		}
		e := s.ends[i]
		if _, isFake := e.key.(fakeKey); isFake {
			continue // the attacker's own end: nothing is claimed about it
		}
		p := sc.RemotePubKey()
		ch := e.challenge()
		if p == nil {
			r.violate("auth", "auth/success-with-nil-remote-key/"+tag, "end %d: MakeSecretConnection succeeded but RemotePubKey() is nil", i)
			continue
		}
		if ch == nil {
			r.violate("auth", "auth/success-without-signing/"+tag, "end %d: MakeSecretConnection succeeded without signing a challenge", i)
			continue
		}
		// (0) the man in the middle showed this end a forged proof for a key
		if f := s.forgedFor[i]; f != nil {
			if ed, is := p.(crypto.PubKeyEd25519); is && bytes.Equal(ed[:], f) {
				r.violate("auth", "auth/accepted-forged-proof/"+tag,
					"end %d accepted remote key %X although the signature it was shown is not that key's signature over this session's challenge (scenario %s)", i, f[:8], fullTag)
				continue
			}
		}
		// (1) the holder of RemotePubKey's private key signed what this end
		// signed as this session's challenge
		if !r.led.has(p, ch) {
			r.violate("auth", "auth/accepted-key-that-did-not-sign-this-challenge/"+tag,
				"end %d accepted remote key %X, but no holder of its private key signed this session's challenge %X (scenario %s)", i, p.Bytes()[:8], ch[:min(8, len(ch))], fullTag)
			continue
		}
		// (2) if that key belongs to the other real end, both must have been
		// in the same session: each saw the ephemeral key the other wrote
		o := s.ends[1-i]
		if o != nil {
			if _, isFake := o.key.(fakeKey); !isFake && o.key.PubKey().Equals(p) {
				din, dout := 1-i, i // direction into end i, out of end i
				if !bytes.Equal(s.ephShown[din], s.ephWrote[din]) || !bytes.Equal(s.ephShown[dout], s.ephWrote[dout]) {
					r.violate("auth", "auth/accepted-although-ephemeral-keys-differ/"+tag,
						"end %d accepted the other end's key although the two ends did not see the same ephemeral keys: the signed challenge does not bind both ephemeral keys (scenario %s)", i, fullTag)
				}
			}
		}
	}
}

// securePair performs an untampered handshake between two real keys and
// returns the two connections. hazard = free chunking of the first two
// messages. A failure of an honest pair over a lossless pipe is reported; if it
// is the listed known finding the handshake is repeated on a fresh link with
// safe chunking so that the run can go on.
func (r *runState) securePair(cap01, cap10 int, k0, k1 recKey, hazard bool) (*SimLink, *conn.SecretConnection, *conn.SecretConnection, bool) {
	for attempt := 0; attempt < 2; attempt++ {
		link := r.newLink(cap01, cap10)
		s := r.newSession(link, k0, k1)
		s.runPlain(!hazard || attempt > 0)
		sc0, ok0 := s.succeeded(0)
		sc1, ok1 := s.succeeded(1)
		if ok0 && ok1 {
			s.judge("honest-pair")
			if !sc0.RemotePubKey().Equals(k1.PubKey()) || !sc1.RemotePubKey().Equals(k0.PubKey()) {
				r.violate("auth", "auth/honest-pair-wrong-remote-key", "untampered handshake: RemotePubKey() is not the peer's key")
				return nil, nil, nil, false
			}
			if r.stop {
				return nil, nil, nil, false
			}
			return link, sc0, sc1, true
		}
		// an honest pair failed or is stuck
		stuck := !s.allDone()
		_, _, e0 := s.ends[0].result()
		_, _, e1 := s.ends[1].result()
		co := s.coalesced[0] || s.coalesced[1]
		s.finish(true)
		if co {
			r.c.Probe("honest_handshake_failed_after_coalescing")
			// the defect is in shareEphPubKey, before any frame is read: one key for all frame modes
			if r.violateAnyMode("handshake", "handshake/honest-pair-fails/first-two-messages-coalesced",
				"two honest endpoints over a lossless ordered pipe did not establish a connection (stuck=%v, errors: %v / %v): the peer's ephemeral-key message and auth frame became readable together and the auth frame was lost", stuck, e0, e1) {
				return nil, nil, nil, false
			}
			continue // known finding: retry with safe chunking
		}
		r.violate("handshake", "handshake/honest-pair-fails", "two honest endpoints over a lossless ordered pipe did not establish a connection (stuck=%v, errors: %v / %v)", stuck, e0, e1)
		return nil, nil, nil, false
	}
	return nil, nil, nil, false
}
