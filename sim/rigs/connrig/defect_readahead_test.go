package connrig

import (
	"os"
	"testing"
	"testing/synctest"
	"time"

	"github.com/lianxiangcloud/linkchain/libs/crypto"
	"github.com/lianxiangcloud/linkchain/libs/p2p/conn"
)

// Direct reproduction (no kernel, no tape) of the finding
// "handshake/honest-pair-stalls/first-two-messages-coalesced":
//
// shareEphPubKey decodes the peer's ephemeral key with
// ser.DecodeReaderWithType(conn, ...), which wraps the raw connection in a
// throw-away bufio.Reader (ser.Stream.Reset). When the peer's second
// handshake message (the auth-signature frame) is already in the socket
// buffer at the time of that read, the bufio.Reader reads it too and it is
// discarded together with the Stream; the endpoint then waits for an auth
// frame that will never come again.
//
// Input: two honest endpoints over a lossless, ordered in-memory pipe.
//  1. A's 33-byte ephemeral-key message is delivered to B.
//  2. B answers with its ephemeral key and (having everything it needs)
//     immediately with its auth frame: 33+123 bytes in flight toward A.
//  3. Both messages are delivered to A in one piece (one TCP segment / one
//     read of a slow reader).
//
// Expected: both MakeSecretConnection calls succeed.
// Actual:   B succeeds... and then waits; A blocks reading the auth frame
//
//	until its deadline expires (i/o timeout) - the connection fails.
//
//	Run: cd /verif/sim && VERIF_DEFECT_REPRO=1 go1.26.8 test -vet=off -tags verif \
//	       -overlay /verif/build/overlay.json -run TestDefectEphReadAhead -v ./rigs/connrig/
func TestDefectEphReadAhead(t *testing.T) {
	if os.Getenv("VERIF_DEFECT_REPRO") != "1" {
		t.Skip("set VERIF_DEFECT_REPRO=1: this test fails on the unchanged tree by design")
	}
	synctest.Test(t, func(t *testing.T) {
		l := NewSimLink(0, 0)
		kA := crypto.GenPrivKeyEd25519FromSecret([]byte("a"))
		kB := crypto.GenPrivKeyEd25519FromSecret([]byte("b"))
		l.End(0).SetDeadline(time.Now().Add(20 * time.Second)) // as newPeerConn does
		l.End(1).SetDeadline(time.Now().Add(20 * time.Second))
		type res struct {
			sc  *conn.SecretConnection
			err error
		}
		ra, rb := make(chan res, 1), make(chan res, 1)
		go func() { sc, err := conn.MakeSecretConnection(l.End(0), kA); ra <- res{sc, err} }()
		go func() { sc, err := conn.MakeSecretConnection(l.End(1), kB); rb <- res{sc, err} }()
		synctest.Wait()             // both have written their ephemeral key
		l.Deliver(0, l.InFlight(0)) // A's key reaches B
		synctest.Wait()             // B has computed the challenge and written its auth frame
		if n := l.InFlight(1); n <= 33 {
			t.Fatalf("expected B's key and auth frame in flight, have %d bytes", n)
		}
		l.Deliver(1, l.InFlight(1)) // both of B's messages reach A together
		synctest.Wait()
		l.Deliver(0, l.InFlight(0)) // whatever A still sends
		synctest.Wait()
		a := <-ra // returns only when the 20 s deadline fires (virtual time)
		l.CloseBoth()
		b := <-rb
		t.Logf("A: err=%v   B: err=%v   virtual time elapsed=%v", a.err, b.err, time.Since(time.Date(2000, 1, 1, 0, 0, 0, 0, time.UTC)))
		if a.err != nil || b.err != nil {
			t.Errorf("DEFECT REPRODUCED: honest handshake over a lossless ordered pipe failed (A: %v, B: %v)", a.err, b.err)
		}
	})
}
