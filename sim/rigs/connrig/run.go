package connrig

import (
	crand "crypto/rand"
	"crypto/sha256"
	"encoding/json"
	"fmt"
	"io"
	"os"
	"runtime"
	"strconv"
	"strings"
	"sync"
	"testing"
	"testing/synctest"
	"time"

	"github.com/lianxiangcloud/linkchain/libs/log"

	"verif/sim/kernel"
)

func init() {
	log.Root().SetHandler(log.DiscardHandler())
	rig := &kernel.Rig{
		Property: "C18",
		Name:     "connrig",
		Level:    "exploration",
		Rule: "one run = one scenario in one synctest bubble over SimLink (in-memory net.Conn; the driver delivers in-flight bytes in tape-chosen chunks of 1 B..everything, in tape-chosen direction order, only at quiescence; optional per-read cap; per-direction capacity 1 B..200 KiB or unbounded). " +
			"stream (30%): SecretConnection pair, both directions at once, 1 B..1.5 MiB per direction in writes of 1 B..5 frames (sizes around the 32 KiB frame boundary favoured), reads with 0 B..100 KiB buffers, contents of mixed compressibility; oracle: bytes read == bytes written, in order, nothing after the end; then optionally one bit of a later frame flipped in flight. " +
			"mconn (40%): MConnection pair, raw or layered over SecretConnection (+ NodeInfo exchange by p2p.HandShakeFunc) as peer.go does; 1-5 channels, priority 1-20 and send-queue capacity 1-8/default per side, packet payload 1 B..32 KiB, flush/ping/pong periods drawn; 5-150 steps of Send/TrySend (uniquely tagged messages 1 B..256 KiB, sizes around multiples of the payload favoured), partial pumping, settling, virtual sleeps; three timing regimes: bounded pipe with unlimited rate (back-pressure, TrySend refusals), rate-limited, all defaults; oracle after every step: per channel the delivered sequence is a prefix of the accepted sequence (whole, unmixed, nothing foreign), onError never called, and after a generous drain everything accepted is delivered. " +
			"auth (22%): 1-6 handshakes under attack: man in the middle flips/substitutes/replays the ephemeral-key message or edits the auth message (signature or key bits, signature by another key, zero, replayed; key replaced by a victim's or the attacker's), endpoint without the private key of the key it presents (real MakeSecretConnection driven by a fake key object), replayed transcript, reflection, hand-written protocol speaker (wrong challenge, nil key, low-order ephemeral key, oversize/truncated/duplicated frames) with a positive control; oracle: an honest end that returns success holds a RemotePubKey whose private-key holder signed exactly the challenge this end signed (ledger of all real signatures of the run), was not shown a by-construction forged proof for it, and - when it is the other honest end's key - both ends were shown the ephemeral keys the other wrote. " +
			"switch (8%): real p2p.Switch inbound path fed by a fake Listener; remote side proves one key and claims the same or another one in NodeInfo; oracle: the switch registers a peer only under a key proven on that connection; honest peers then exchange tagged messages through Peer.Send / Reactor.Receive under the mconn oracle. " +
			"Non-trivial: stream with >= 3 writes, >= 3 reads and >= 1 KiB in a direction; mconn with >= 3 delivered messages of which one spans >= 2 packets; auth/switch with >= 1 handshake brought to a verdict. " +
			"Fingerprint: scenario, frame mode, configuration, per-direction stream hash / per-channel delivered sequences and accept counts / per-session attack kind and verdict.",
		Real: []string{
			"libs/p2p/conn.MakeSecretConnection, SecretConnection.Read/Write (compiled-in frame mode; sealed and raw modes in a labelled minority of runs)",
			"libs/p2p/conn.MConnection (sendRoutine, recvRoutine, Channel, flush throttle, ping/pong, flowrate limiter) on the bubble's fake clock",
			"libs/p2p.HandShakeFunc (defaultHandshakeTimeout), NodeInfo; libs/p2p.Switch inbound path incl. peer.go newPeerConn/newPeer/createMConnection (switch scenario)",
			"libs/ser codec, libs/crypto ed25519 keys, golang.org/x/crypto nacl box/secretbox, snappy",
		},
		Stub: []string{
			"network: SimLink (lossless ordered in-memory duplex pipe; delivery chunking, capacity, deadlines on the fake clock; man-in-the-middle editing of in-flight bytes)",
			"crypto/rand.Reader replaced by a tape stream for the duration of a run (ephemeral keys become a function of the seed)",
			"switch scenario: Listener (hands SimLink endpoints to the real listenerRoutine), discovery table and connection manager absent (DefaultNewTableFunc/ListenerBindFunc seams), Reactor = recorder",
			"outbound dialing (net.Dial) not simulated",
		},
		Assumptions: []string{
			"Go's select among several ready cases is unseedable; the driver issues one send per step and waits for quiescence, never lets virtual time pass while an MConnection has a backlog in runs that use TrySend (bounded-pipe regime), uses only blocking Send in the rate-limited and all-defaults regimes (where a sendRoutine returning from a limiter sleep can find send, flush and stats ready together), and keeps driver instants (x.5 ms), flush (x.137 ms), pong-timeout (x.3 ms), ping and stats periods (x.0 ms) on non-coinciding offsets; what is recorded (fingerprint, sample, events, probes, simulated time = planned sleeps only) depends only on what the property observes - per-channel accepted and delivered sequences, stream contents, handshake verdicts - which is schedule-independent on correct code; the number of iterations of wait-until loops (blocked Send, final drain) is deliberately not recorded",
			"the transport is lossless and ordered (TCP); faults are chunking, back-pressure, timing, and an active man in the middle during the handshake",
			"ground truth for authentication is by construction: a ledger of every signature made with a private key that exists in the run, and the ephemeral-key bytes each endpoint wrote and was shown; the challenge derivation is never re-implemented by the oracle",
			"frame tampering after the handshake is an observation only in the compiled-in compress mode (frames carry no authenticator there; the property statement does not claim one); it is an oracle in sealed/raw mode runs",
			"sealed/raw frame modes are reached by writing the unexported package variable conn.leadingType through go:linkname; they are outside the property's quantifier and every violation found there carries /mode=... in its key",
			"Go 1.26.8 runtime instead of the repository's 1.23 toolchain",
		},
		QuickRuns:      12000,
		QuickBudget:    55 * time.Second,
		ThoroughRuns:   260000,
		ThoroughBudget: 18 * time.Minute,
		Run:            Run,
		MaxProcs:       2,
		RunsPerProcess: 150,
		RunTimeout:     120 * time.Second,
	}
	// determinism self-test: the kernel gives workers GOMAXPROCS = MaxProcs
	if v, err := strconv.Atoi(os.Getenv("VERIF_C18_MAXPROCS")); err == nil && v > 0 {
		rig.MaxProcs = v
	}
	kernel.Register(rig)
}

// runState is the per-run context shared by the scenarios.
type runState struct {
	c     *kernel.Ctx
	tier  kernel.Tier
	cfg   *kernel.Tape // configuration (swarm) stream
	work  *kernel.Tape // workload stream
	net   *kernel.Tape // delivery stream
	flt   *kernel.Tape // fault / attack stream
	keys  *kernel.Tape // static keys
	mode  byte         // frame mode of this run
	led   *ledger
	links []*SimLink

	traceOn bool
	trace   []string
	stop    bool // a new violation was recorded: wind the run down
	sample  map[string]interface{}
	start   time.Time
	slept   time.Duration // planned virtual sleeps
}

// violate records a violation; in non-default frame modes the key says so.
func (r *runState) violate(class, key, format string, args ...interface{}) bool {
	// the frame mode matters to what runs through SecretConnection.Read/Write
	if r.mode != wireTypeCompress && (class == "stream" || class == "integrity" || class == "auth" || class == "handshake") {
		key += "/mode=" + modeName(r.mode)
	}
	if r.c.Violate(class, key, format, args...) {
		r.stop = true
		return true
	}
	return false
}

// finger folds parts into the run fingerprint (and into the debug trace).
func (r *runState) finger(parts ...interface{}) {
	r.c.Finger(parts...)
	if r.traceOn {
		r.trace = append(r.trace, fmt.Sprint(parts...))
	}
}

// violateAnyMode is violate for findings that do not depend on the frame mode.
func (r *runState) violateAnyMode(class, key, format string, args ...interface{}) bool {
	if r.c.Violate(class, key, format, args...) {
		r.stop = true
		return true
	}
	return false
}

// sleep is a planned (tape-decided) advance of virtual time; it is what the
// run reports as simulated time.
func (r *runState) sleep(d time.Duration) {
	time.Sleep(d)
	r.slept += d
}

// wait is an advance of virtual time inside a wait-until loop (a blocked Send,
// the final drain). How many iterations such a loop needs can depend on the
// order in which a sendRoutine's select served simultaneously ready cases, so
// it is kept out of everything the run records.
func (r *runState) wait(d time.Duration) {
	time.Sleep(d)
}

// tapeReader serves crypto/rand.Reader from a tape stream during a run.
type tapeReader struct {
	mu sync.Mutex
	t  *kernel.Tape
}

func (tr *tapeReader) Read(p []byte) (int, error) {
	tr.mu.Lock()
	defer tr.mu.Unlock()
	return tr.t.Read(p)
}

var _ io.Reader = (*tapeReader)(nil)

// Run is one run of the rig.
func Run(c *kernel.Ctx) {
	r := &runState{c: c, tier: c.Tier, led: newLedger(), sample: map[string]interface{}{}}
	wall0 := time.Now()
	fplog := os.Getenv("VERIF_C18_FPLOG")
	r.traceOn = fplog != ""
	// fork every stream up front: Fork touches a shared map
	r.cfg = c.Tape.Fork("cfg")
	r.work = c.Tape.Fork("work")
	r.net = c.Tape.Fork("net")
	r.flt = c.Tape.Fork("fault")
	r.keys = c.Tape.Fork("keys")
	eph := &tapeReader{t: c.Tape.Fork("eph")}

	scenario := r.cfg.Pick(30, 40, 22, 8) // stream, mconn, auth, switch
	names := []string{"stream", "mconn", "auth", "switch"}
	// frame mode: the compiled-in default in most runs
	defMode := scLeadingType
	r.mode = defMode
	switch r.cfg.Pick(80, 13, 7) {
	case 1:
		r.mode = wireTypeSealed
	case 2:
		r.mode = wireTypeRaw
	}
	r.sample["scenario"] = names[scenario]
	r.sample["frame_mode"] = modeName(r.mode)
	r.finger("scenario", names[scenario], "mode", r.mode)

	oldRand := crand.Reader
	crand.Reader = eph
	scLeadingType = r.mode
	defer func() {
		crand.Reader = oldRand
		scLeadingType = defMode
	}()

	var pSite, pMsg string
	var pRepo, panicked bool
	leak := ""
	func() {
		defer func() {
			if rec := recover(); rec != nil {
				// synctest reports goroutines that could not be stopped as a
				// deadlock panic of Test; the worker process is recycled by
				// RunsPerProcess, so the leak does not accumulate.
				leak = fmt.Sprint(rec)
			}
		}()
		synctest.Test(c.T, func(t *testing.T) {
			defer func() {
				if rec := recover(); rec != nil {
					pSite, pRepo = kernel.PanicSite()
					pMsg = fmt.Sprint(rec)
					if len(pMsg) > 300 {
						pMsg = pMsg[:300]
					}
					panicked = true
				}
				// whatever happened: close every link so that goroutines exit
				for _, l := range r.links {
					l.CloseBoth()
				}
				// goroutines of the code under test that are in a timed sleep
				// (flowrate limiter) need virtual time to notice the stop; time
				// no longer advances once this root goroutine has returned
				time.Sleep(3 * time.Second)
				synctest.Wait()
			}()
			r.start = time.Now()
			switch scenario {
			case 0:
				r.scenarioStream()
			case 1:
				r.scenarioMConn()
			case 2:
				r.scenarioAuth()
			default:
				r.scenarioSwitch()
			}
		})
	}()
	if panicked {
		if pRepo {
			r.violate("panic", "panic/"+pSite, "panic in code under test at %s: %s", pSite, pMsg)
		} else {
			c.HarnessTrouble("harness panic at %s: %s", pSite, pMsg)
		}
	}
	if leak != "" {
		if strings.Contains(leak, "deadlock") {
			c.Probe("bubble_goroutines_left_blocked")
			r.sample["leak"] = leak
			if dbg := os.Getenv("VERIF_C18_DEBUG"); dbg != "" {
				buf := make([]byte, 1<<20)
				n := runtime.Stack(buf, true)
				var keep []string
				for _, g := range strings.Split(string(buf[:n]), "\n\n") {
					if strings.Contains(g, "synctest bubble") {
						keep = append(keep, g)
					}
				}
				os.WriteFile(fmt.Sprintf("%s/leak-%d.txt", dbg, c.Tape.Seed()), []byte(fmt.Sprintf("%v\n\n%s", r.sample, strings.Join(keep, "\n\n"))), 0644)
			}
		} else {
			c.HarnessTrouble("synctest.Test panicked: %s", leak)
		}
	}
	c.SimTime(r.slept)
	c.Sample(r.sample)
	if fplog != "" {
		// determinism evidence: one line per run, appended per process
		h := sha256.Sum256([]byte(strings.Join(r.trace, "\n")))
		sj, _ := json.Marshal(r.sample)
		sh := sha256.Sum256(sj)
		f, err := os.OpenFile(fplog, os.O_CREATE|os.O_WRONLY|os.O_APPEND, 0644)
		if err == nil {
			fmt.Fprintf(f, "%d trace=%x sample=%x slept=%d failed=%v\n", c.Tape.Seed(), h[:8], sh[:8], r.slept, c.Failed())
			if os.Getenv("VERIF_C18_WALL") != "" { // profiling aid, not part of the determinism line
				fmt.Fprintf(f, "#wall %d ms=%d %s %v\n", c.Tape.Seed(), time.Since(wall0).Milliseconds(), r.sample["scenario"], r.sample["mode"])
			}
			f.Close()
		}
	}
}

func (r *runState) newLink(cap01, cap10 int) *SimLink {
	l := NewSimLink(cap01, cap10)
	r.links = append(r.links, l)
	return l
}

// pumpBudget bounds the number of tape-chosen (possibly tiny) deliveries of a run.
func (r *runState) pumpBudget() int {
	if r.tier == kernel.Thorough {
		return r.cfg.Range(2000, 12000)
	}
	return r.cfg.Range(500, 4000)
}
