package connrig

import (
	"os"
	"runtime"
	"strconv"
	"testing"
	"time"

	"verif/sim/kernel"
)

func TestDbgSeed(t *testing.T) {
	s := os.Getenv("VERIF_DBG_SEED")
	if s == "" {
		t.Skip()
	}
	seed, _ := strconv.ParseUint(s, 10, 64)
	go func() {
		time.Sleep(8 * time.Second)
		buf := make([]byte, 1<<20)
		n := runtime.Stack(buf, true)
		os.WriteFile("/tmp/c18dbg/stack.txt", buf[:n], 0644)
	}()
	st := time.Now()
	res := kernel.Execute(t, kernel.RigFor("C18"), kernel.Quick, kernel.NewTape(seed), map[string]string{})
	if len(res.Violations) > 0 && os.Getenv("VERIF_DBG_SHRINK") != "" {
		tape := kernel.NewTape(seed)
		res = kernel.Execute(t, kernel.RigFor("C18"), kernel.Quick, tape, map[string]string{})
		st2 := time.Now()
		_, n := kernel.Shrink(t, kernel.RigFor("C18"), kernel.Quick, seed, tape.Streams(), res.Violations[0], map[string]string{}, 400, 90*time.Second)
		t.Logf("shrink: %d candidates in %v", n, time.Since(st2))
	}
	t.Logf("wall=%v violations=%v harness=%q sample=%v", time.Since(st), res.Violations, res.Harness, res.Sample)
}
