package connrig

import (
	"bytes"
	"fmt"
	"io"
	"testing/synctest"

	"github.com/lianxiangcloud/linkchain/libs/crypto"

	"verif/sim/kernel"
)

func rawPub(k recKey) []byte {
	p := k.inner.PubKey().(crypto.PubKeyEd25519)
	return append([]byte(nil), p[:]...)
}

func rawSig(s crypto.Signature) []byte {
	if e, ok := s.(crypto.SignatureEd25519); ok {
		return append([]byte(nil), e[:]...)
	}
	return nil
}

func sigFrom(b []byte) crypto.SignatureEd25519 {
	var s crypto.SignatureEd25519
	copy(s[:], b)
	return s
}

// transcript is what one end of an honest session put on the wire, write by
// write, and what it signed: the material of replay attacks.
type transcript struct {
	key    recKey
	writes [][]byte
	sig    []byte
}

// authState carries material across the sessions of one auth run.
type authState struct {
	r        *runState
	kA, kB   recKey // honest keys
	kM       recKey // the attacker's own, real key
	victim   crypto.PubKeyEd25519
	past     []transcript
	verdicts []string
}

var authKinds = []string{"eph-bitflip", "eph-substitute", "auth-frame-bitflip", "auth-edit", "keyless-endpoint", "replayed-peer", "reflection", "handwritten-peer", "honest"}

// scenarioAuth: part (3). One to three sessions per run; the first one may be
// an honest session whose transcript later sessions replay.
func (r *runState) scenarioAuth() {
	a := &authState{r: r}
	a.kA = newRecKey(r.keys.Bytes(32), r.led)
	a.kB = newRecKey(r.keys.Bytes(32), r.led)
	a.kM = newRecKey(r.keys.Bytes(32), r.led)
	// a key pair whose private half is thrown away: nobody in the run can sign for it
	a.victim = crypto.GenPrivKeyEd25519FromSecret(r.keys.Bytes(32)).PubKey().(crypto.PubKeyEd25519)

	n := r.flt.Range(1, 3)
	if r.tier == kernel.Thorough {
		n = r.flt.Range(1, 6)
	}
	for i := 0; i < n && !r.stop; i++ {
		kind := r.flt.Pick(14, 12, 10, 22, 18, 8, 4, 10, 6)
		if i == 0 && n > 1 && r.flt.Bool(1, 2) {
			kind = 8
		}
		r.finger("session", i, authKinds[kind])
		before := len(a.verdicts)
		switch kind {
		case 0, 1, 2, 3:
			a.mitmSession(kind)
		case 4:
			a.keylessSession()
		case 5:
			a.replaySession()
		case 6:
			a.reflectionSession()
		case 7:
			a.handwrittenSession()
		default:
			a.honestSession()
		}
		if len(a.verdicts) > before {
			r.c.NonTrivial()
		}
	}
	r.sample["sessions"] = a.verdicts
	for _, v := range a.verdicts {
		r.finger(v)
	}
}

func (a *authState) verdict(s *session, what string) {
	v := what + ":"
	for i := 0; i < 2; i++ {
		if s.ends[i] == nil {
			v += " -"
			continue
		}
		if _, ok := s.succeeded(i); ok {
			v += " accepted"
		} else {
			v += " refused"
		}
	}
	a.verdicts = append(a.verdicts, v)
	a.r.c.Event(1)
}

// honestSession: an untampered handshake; its transcript is kept for replays.
func (a *authState) honestSession() {
	r := a.r
	link := r.newLink(0, 0)
	s := r.newSession(link, a.kA, a.kB)
	s.runPlain(true)
	s.judge("honest")
	_, ok0 := s.succeeded(0)
	_, ok1 := s.succeeded(1)
	if !ok0 || !ok1 {
		_, _, e0 := s.ends[0].result()
		_, _, e1 := s.ends[1].result()
		r.violate("handshake", "handshake/honest-pair-fails", "two honest endpoints over a lossless ordered pipe did not establish a connection (errors: %v / %v)", e0, e1)
	}
	a.verdict(s, "honest")
	a.remember(s)
	s.finish(true)
}

// remember stores the transcript of end 0 and end 1 of an untampered session.
func (a *authState) remember(s *session) {
	for i := 0; i < 2; i++ {
		if s.ends[i] == nil {
			continue
		}
		k, ok := s.ends[i].key.(recKey)
		if !ok {
			continue
		}
		a.past = append(a.past, transcript{key: k, writes: s.wire(i), sig: rawSig(s.ends[i].signature())})
	}
}

// flipBits flips 1..3 tape-chosen bits of b[lo:hi), never bit 255 of a
// 32-byte curve25519 key (that bit is ignored by the curve arithmetic).
func (a *authState) flipBits(b []byte, lo, hi int, avoidTop bool) []byte {
	out := append([]byte(nil), b...)
	n := a.r.flt.Range(1, 3)
	for i := 0; i < n; i++ {
		pos := lo + a.r.flt.Int(hi-lo)
		bit := a.r.flt.Int(8)
		if avoidTop && pos == hi-1 && bit == 7 {
			bit = 0
		}
		out[pos] ^= 1 << uint(bit)
	}
	if bytes.Equal(out, b) { // flips cancelled out
		out[lo] ^= 1
	}
	return out
}

// mitmSession: two honest ends, a man in the middle who sees and rewrites the
// two handshake messages of each direction.
func (a *authState) mitmSession(kind int) {
	r := a.r
	link := r.newLink(0, 0)
	s := r.newSession(link, a.kA, a.kB)
	s.startBoth()
	tag := authKinds[kind]
	switch kind {
	case 0: // flip bits of the ephemeral key in one or both directions
		dirs := [][]int{{0}, {1}, {0, 1}}[r.flt.Int(3)]
		for _, d := range dirs {
			b := s.ephWrote[d]
			if len(b) < 32 {
				continue
			}
			nb := a.flipBits(b, len(b)-32, len(b), true)
			link.Replace(d, nb)
			s.ephShown[d] = nb
			s.tampered = true
			r.c.Fault("mitm_eph_bitflip")
		}
	case 1: // substitute the ephemeral key
		d := r.flt.Int(2)
		b := s.ephWrote[d]
		if len(b) >= 32 {
			nb := append([]byte(nil), b...)
			key := nb[len(nb)-32:]
			variant := r.flt.Int(5)
			switch variant {
			case 0:
				for i := range key {
					key[i] = 0
				}
			case 1:
				for i := range key {
					key[i] = 0xFF
				}
			case 2:
				copy(key, r.flt.Bytes(32))
			case 3: // the other direction's key: both ends are shown B's key / A's key
				o := s.ephWrote[1-d]
				if len(o) >= 32 {
					copy(key, o[len(o)-32:])
				}
			default: // a key seen in an earlier session
				if len(a.past) > 0 && len(a.past[0].writes) > 0 && len(a.past[0].writes[0]) >= 32 {
					w := a.past[0].writes[0]
					copy(key, w[len(w)-32:])
				} else {
					key[0] ^= 0x40
				}
			}
			if bytes.Equal(nb, b) {
				nb[len(nb)-32] ^= 1
			}
			tag += fmt.Sprintf("/%d", variant)
			link.Replace(d, nb)
			s.ephShown[d] = nb
			s.tampered = true
			r.c.Fault("mitm_eph_substitute")
		}
	}
	s.pump.gate = gateFirstOnly
	s.pump.settle()
	for d := 0; d < 2; d++ {
		s.authWrote[d] = link.Peek(d)
	}
	switch kind {
	case 2:
		d := r.flt.Int(2)
		if b := s.authWrote[d]; len(b) > 0 {
			nb := a.flipBits(b, 0, len(b), false)
			link.Replace(d, nb)
			s.tampered = true
			r.c.Fault("mitm_auth_frame_bitflip")
		}
	case 3:
		tag += "/" + a.editAuth(s)
	}
	s.pump.gate = nil
	s.pump.settle()
	s.judge(tag)
	a.verdict(s, tag)
	s.finish(true)
}

// editAuth rewrites the auth message of one direction at plaintext level
// (possible for the man in the middle in the compress mode, where frames are
// not encrypted). It returns the variant name.
func (a *authState) editAuth(s *session) string {
	r := a.r
	d := r.flt.Int(2) // message from end d to end 1-d
	from := s.ends[d]
	b := s.authWrote[d]
	if len(b) == 0 || from.challenge() == nil {
		return "nothing-to-edit"
	}
	typ, body, rest, ok := splitFrame(b)
	var plain []byte
	if ok && typ == wireTypeCompress && len(rest) == 0 {
		plain, ok = openCompressed(body)
	} else {
		ok = false
	}
	key := rawPub(from.key.(recKey))
	sig := rawSig(from.signature())
	if !ok || bytes.Count(plain, key) != 1 || bytes.Count(plain, sig) != 1 {
		// encrypted (sealed/raw mode) or unknown layout: the attacker can only corrupt
		nb := a.flipBits(b, 0, len(b), false)
		s.link.Replace(d, nb)
		s.tampered = true
		r.c.Fault("mitm_auth_frame_bitflip")
		return "opaque-frame-bitflip"
	}
	ch := from.challenge()
	mSig := func(msg []byte) []byte { x, _ := a.kM.Sign(msg); return rawSig(x) }
	variant := r.flt.Int(7)
	names := []string{"sig-bitflip", "key-bitflip", "sig-by-other-key", "sig-zero", "sig-replayed", "victim-key-with-own-sig", "own-key-own-sig"}
	np := plain
	forgedFor := []byte(nil) // the key the (invalid) proof names
	switch variant {
	case 0:
		np, _ = replaceOnce(plain, sig, a.flipBits(sig, 0, len(sig), false))
		forgedFor = key
	case 1:
		nk := a.flipBits(key, 0, len(key), false)
		np, _ = replaceOnce(plain, key, nk)
		forgedFor = nk
	case 2:
		np, _ = replaceOnce(plain, sig, mSig(ch))
		forgedFor = key
	case 3:
		np, _ = replaceOnce(plain, sig, make([]byte, len(sig)))
		forgedFor = key
	case 4:
		old := []byte(nil)
		for _, t := range a.past {
			if t.key.inner.Equals(from.key.(recKey).inner) && len(t.sig) == len(sig) && !bytes.Equal(t.sig, sig) {
				old = t.sig
			}
		}
		if old == nil {
			old = mSig(append([]byte("other session"), ch...))
		}
		np, _ = replaceOnce(plain, sig, old)
		forgedFor = key
	case 5:
		np, _ = replaceOnce(plain, key, a.victim[:])
		np, _ = replaceOnce(np, sig, mSig(ch))
		forgedFor = a.victim[:]
	default:
		np, _ = replaceOnce(plain, key, rawPub(a.kM))
		np, _ = replaceOnce(np, sig, mSig(ch))
	}
	if np == nil {
		return "nothing-to-edit"
	}
	s.link.Replace(d, compressedFrame(np))
	s.tampered = true
	s.forgedFor[1-d] = forgedFor
	r.c.Fault("mitm_auth_" + names[variant])
	return names[variant]
}

// keylessSession: end 1 is the real MakeSecretConnection driven by a key
// object that presents a public key it cannot sign for.
func (a *authState) keylessSession() {
	r := a.r
	variant := r.flt.Int(9)
	names := []string{"victim-key-garbage-sig", "victim-key-own-sig", "victim-key-zero-sig", "honest-key-replayed-sig", "verifier-key-own-sig",
		"secp-key-ed-sig", "own-key-own-sig", "nil-key", "victim-key-sig-over-other-message"}
	mSign := func(msg []byte) crypto.Signature { x, _ := a.kM.Sign(msg); return x }
	var pub crypto.PubKey = a.victim
	var sign func(msg []byte) crypto.Signature
	switch variant {
	case 0:
		g := r.flt.Bytes(64)
		sign = func([]byte) crypto.Signature { return sigFrom(g) }
	case 1:
		sign = mSign
	case 2:
		sign = func([]byte) crypto.Signature { return sigFrom(make([]byte, 64)) }
	case 3:
		// B's key with a signature B really made - in another session
		pub = a.kB.inner.PubKey()
		old := []byte(nil)
		for _, t := range a.past {
			if t.key.inner.Equals(a.kB.inner) && t.sig != nil {
				old = t.sig
			}
		}
		if old == nil {
			x, _ := a.kB.Sign([]byte("a message of some other session"))
			old = rawSig(x)
		}
		sign = func([]byte) crypto.Signature { return sigFrom(old) }
	case 4:
		pub = a.kA.inner.PubKey()
		sign = mSign
	case 5:
		pub = crypto.GenPrivKeySecp256k1FromSecret(r.flt.Bytes(16)).PubKey()
		sign = mSign
	case 6:
		pub = a.kM.inner.PubKey()
		sign = mSign
	case 7:
		pub = nil
		sign = mSign
	default:
		sign = func(msg []byte) crypto.Signature { return mSign(append([]byte{1}, msg...)) }
	}
	link := r.newLink(0, 0)
	s := r.newSession(link, a.kA, newFakeKey(pub, sign))
	s.runPlain(true)
	r.c.Fault("keyless_endpoint_" + names[variant])
	tag := "keyless-endpoint/" + names[variant]
	s.judge(tag)
	if variant == 6 {
		if sc, ok := s.succeeded(0); ok && sc.RemotePubKey().Equals(a.kM.inner.PubKey()) {
			r.c.Probe("control_real_key_accepted")
		} else {
			r.c.Probe("control_real_key_refused")
		}
	}
	a.verdict(s, tag)
	s.finish(true)
}

// replaySession: end 1 replays, write by write, what an honest endpoint sent
// in an earlier session of this run.
func (a *authState) replaySession() {
	r := a.r
	if len(a.past) == 0 {
		a.honestSession()
		if r.stop || len(a.past) == 0 {
			return
		}
	}
	t := a.past[r.flt.Int(len(a.past))]
	link := r.newLink(0, 0)
	// the verifier is the other honest key (or the same one: replay to itself)
	ver := a.kA
	if t.key.inner.Equals(a.kA.inner) && r.flt.Bool(3, 4) {
		ver = a.kB
	}
	s := r.newSession(link, ver, nil)
	s.start(0)
	s.ephWrote[0] = link.Peek(0)
	s.ephShown[0] = s.ephWrote[0]
	c := link.End(1)
	go func() {
		for _, w := range t.writes {
			if _, err := c.Write(w); err != nil {
				return
			}
		}
		io.Copy(io.Discard, c)
	}()
	synctest.Wait()
	s.pump.gate = gateFirstWrite
	s.pump.settle()
	s.pump.gate = nil
	r.c.Fault("replayed_transcript")
	s.judge("replayed-peer")
	a.verdict(s, "replayed-peer")
	s.finish(true)
}

// reflectionSession: everything end 0 writes is sent back to it. Accepting
// one's own key here is how the protocol is specified (the signature covers
// the challenge only); it is recorded, not judged: the key that is accepted
// did sign this session's challenge.
func (a *authState) reflectionSession() {
	r := a.r
	link := r.newLink(0, 0)
	s := r.newSession(link, a.kA, nil)
	s.start(0)
	c := link.End(1)
	n0 := len(link.Peek(0)) // the reflector echoes the first message as one message
	go func() {
		first := make([]byte, n0)
		if _, err := io.ReadFull(c, first); err != nil {
			return
		}
		if _, err := c.Write(first); err != nil {
			return
		}
		buf := make([]byte, 4096)
		for {
			n, err := c.Read(buf)
			if n > 0 {
				if _, werr := c.Write(buf[:n]); werr != nil {
					return
				}
			}
			if err != nil {
				return
			}
		}
	}()
	synctest.Wait()
	s.pump.gate = gateFirstWrite
	s.pump.settle()
	s.pump.gate = nil
	r.c.Fault("reflected_handshake")
	s.judge("reflection")
	if sc, ok := s.succeeded(0); ok && sc.RemotePubKey().Equals(a.kA.inner.PubKey()) {
		r.c.Probe("reflection_accepts_own_key")
	}
	a.verdict(s, "reflection")
	s.finish(true)
}
