package connrig

import (
	"bytes"
	"encoding/binary"
	_ "unsafe" // go:linkname

	"github.com/golang/snappy"

	// the variables below live in this package
	_ "github.com/lianxiangcloud/linkchain/libs/p2p/conn"
)

// The secret connection's frame mode is a package variable of
// libs/p2p/conn that no exported function sets ("the frame mode is the
// compiled-in default"). The rig reads it to know how the man in the middle
// has to parse frames, and - for a minority of runs, always labelled in the
// sample and in every violation key - switches it to the two other modes the
// source contains (sealed, raw) so that the nonce/secretbox paths listed in
// the property's anchors are executed as well.
//
//go:linkname scLeadingType github.com/lianxiangcloud/linkchain/libs/p2p/conn.leadingType
var scLeadingType byte

// What an attacker on the wire knows about the format (secret_connection.go):
// frame = 1 byte version|type, 4 bytes big-endian body length, body.
const (
	wireHeader       = 5
	wireTypeCompress = 0x0F
	wireTypeSealed   = 0x0E
	wireTypeRaw      = 0x00
	wireVersion      = 0xF0
)

func modeName(m byte) string {
	switch m {
	case wireTypeCompress:
		return "compress"
	case wireTypeSealed:
		return "sealed"
	case wireTypeRaw:
		return "raw"
	}
	return "unknown"
}

// splitFrame cuts the first frame off b (compress and sealed modes).
func splitFrame(b []byte) (typ byte, body, rest []byte, ok bool) {
	if len(b) < wireHeader {
		return 0, nil, nil, false
	}
	n := int(binary.BigEndian.Uint32(b[1:5]))
	if n < 0 || len(b) < wireHeader+n {
		return 0, nil, nil, false
	}
	return b[0] & 0x0F, b[wireHeader : wireHeader+n], b[wireHeader+n:], true
}

// compressedFrame builds a frame of the compress mode around plain.
func compressedFrame(plain []byte) []byte {
	body := snappy.Encode(nil, plain)
	f := make([]byte, wireHeader+len(body))
	f[0] = wireVersion | wireTypeCompress
	binary.BigEndian.PutUint32(f[1:5], uint32(len(body)))
	copy(f[wireHeader:], body)
	return f
}

// openCompressed returns the plaintext of a compress-mode frame body.
func openCompressed(body []byte) ([]byte, bool) {
	p, err := snappy.Decode(nil, body)
	return p, err == nil
}

// replaceOnce replaces the single occurrence of old in b by new (same length).
func replaceOnce(b, old, new []byte) ([]byte, bool) {
	if len(old) == 0 || len(old) != len(new) || bytes.Count(b, old) != 1 {
		return nil, false
	}
	i := bytes.Index(b, old)
	out := append([]byte(nil), b...)
	copy(out[i:], new)
	return out, true
}
