package connrig

func (a *authState) handwrittenSession() { a.honestSession() }
func (r *runState) scenarioSwitch()      { r.scenarioAuth() }
