package trierig

import (
	"bytes"
	"fmt"
	"sort"

	"github.com/lianxiangcloud/linkchain/libs/common"
	"github.com/lianxiangcloud/linkchain/libs/crypto"
	dbm "github.com/lianxiangcloud/linkchain/libs/db"
	"github.com/lianxiangcloud/linkchain/libs/trie"

	"verif/sim/kernel"
)

// checkpoint verifies everything the statement says about the current
// content: gets, root canonicity, iteration, proofs and their tamperings.
func (s *sim) checkpoint(final bool) {
	s.tracef("checkpoint(final=%v, %d keys)", final, len(s.m))
	root := s.t.hash()
	s.noteRoot(root, "checkpoint")
	if s.stop || s.checkAllGets("checkpoint") {
		return
	}
	if s.checkIteration(root) || s.checkProofs(root, final) {
		return
	}
	if final || s.ops.Bool(1, 2) {
		s.checkCanonical(root)
	}
}

// ---------------------------------------------------------------- iteration

func (s *sim) iterate(start []byte, withProofs bool, root common.Hash) (out []kv, itErr error, stop bool) {
	it := trie.NewIterator(s.t.nodeIterator(start))
	limit := len(s.m) + 5
	for it.Next() {
		out = append(out, kv{append([]byte{}, it.Key...), append([]byte{}, it.Value...)})
		if withProofs {
			// the iterator's own proof of the leaf it stands on
			blobs := it.Prove()
			val, _, err := trie.VerifyProof(root, it.Key, newProofSet(blobs))
			s.c.Evals(1)
			if err != nil || !bytes.Equal(val, it.Value) {
				return out, nil, s.violate("proof", "iter/leaf-proof", "Iterator.Prove() for leaf %s (value %s) verifies to (%s, %v)", hx(it.Key), hx(it.Value), hx(val), err)
			}
		}
		if len(out) > limit {
			break
		}
	}
	return out, it.Err, false
}

func diffLeaves(exp, act []kv) (string, string) {
	n := len(exp)
	if len(act) < n {
		n = len(act)
	}
	for i := 0; i < n; i++ {
		if !bytes.Equal(exp[i].k, act[i].k) {
			inExp := false
			for _, e := range exp {
				if bytes.Equal(e.k, act[i].k) {
					inExp = true
				}
			}
			if !inExp {
				return "extra", fmt.Sprintf("item %d is key %s which the content does not hold", i, hx(act[i].k))
			}
			for j := 0; j < i; j++ {
				if bytes.Equal(act[j].k, act[i].k) {
					return "dup", fmt.Sprintf("item %d repeats key %s", i, hx(act[i].k))
				}
			}
			for j := i + 1; j < len(act); j++ {
				if bytes.Equal(act[j].k, exp[i].k) {
					return "order", fmt.Sprintf("item %d is %s, expected %s (which comes later)", i, hx(act[i].k), hx(exp[i].k))
				}
			}
			return "missing", fmt.Sprintf("key %s expected at item %d is not enumerated (got %s)", hx(exp[i].k), i, hx(act[i].k))
		}
		if !bytes.Equal(exp[i].v, act[i].v) {
			return "value", fmt.Sprintf("key %s enumerated with value %s, content holds %s", hx(exp[i].k), hx(act[i].v), hx(exp[i].v))
		}
	}
	if len(act) < len(exp) {
		return "missing", fmt.Sprintf("enumeration ends after %d of %d pairs (next expected %s)", len(act), len(exp), hx(exp[len(act)].k))
	}
	if len(act) > len(exp) {
		return "extra", fmt.Sprintf("enumeration yields %d pairs, content holds %d (first surplus %s)", len(act), len(exp), hx(act[len(exp)].k))
	}
	return "", ""
}

func (s *sim) checkIteration(root common.Hash) bool {
	exp := s.m.expectedLeaves(s.t)
	// does the trie's key order differ from plain byte order for this content?
	for i := 1; i < len(exp); i++ {
		if bytes.Compare(exp[i-1].k, exp[i].k) > 0 {
			s.c.Probe("iter-order-differs-from-bytewise")
			break
		}
	}
	act, err, stop := s.iterate(nil, true, root)
	s.c.Evals(1)
	if stop {
		return true
	}
	if err != nil {
		return s.violate("iteration", "iter/error", "full iteration failed without any fault: %v", err)
	}
	if typ, msg := diffLeaves(exp, act); typ != "" {
		return s.violate("iteration", "iter/"+typ, "full iteration: %s", msg)
	}
	// from a start key
	for n := 0; n < 2 && len(exp) > 0; n++ {
		var start []byte
		if s.secure {
			start = append([]byte{}, exp[s.ops.Int(len(exp))].k...)
			switch s.ops.Int(3) {
			case 0:
				start = start[:s.ops.Range(0, len(start))]
			case 1:
				start[len(start)-1] ^= 0x01
			}
		} else {
			start = s.genKey()
		}
		var e []kv
		for _, x := range exp {
			if geStart(x.k, start) {
				e = append(e, x)
			}
		}
		a, err, _ := s.iterate(start, false, root)
		s.c.Evals(1)
		s.c.Probe("iter-from-start-key")
		if err != nil {
			return s.violate("iteration", "iter/error", "iteration from %s failed without any fault: %v", hx(start), err)
		}
		typ, msg := diffLeaves(e, a)
		if typ != "" {
			// the interface comment says "starts at the key after the given start key":
			// accept a stream that leaves out the start key itself
			var e2 []kv
			for _, x := range e {
				if !bytes.Equal(x.k, start) {
					e2 = append(e2, x)
				}
			}
			if t2, _ := diffLeaves(e2, a); t2 == "" {
				typ = ""
			}
		}
		if typ != "" {
			return s.violate("iteration", "iter-from/"+typ, "iteration from start %s: %s", hx(start), msg)
		}
	}
	return false
}

// ---------------------------------------------------------------- proofs

func (s *sim) proveKey(tk []byte) ([][]byte, error) {
	var pl proofList
	err := s.t.prove(tk, &pl)
	return pl.blobs, err
}

func (s *sim) checkProofs(root common.Hash, all bool) bool {
	type claim struct {
		k     []byte // user key
		truth []byte // nil = absent
	}
	var claims []claim
	ks := s.m.keys()
	if !all && len(ks) > 16 {
		// intermediate checkpoints of big tries prove a sample; the final one proves every key
		s.ops.Shuffle(len(ks), func(i, j int) { ks[i], ks[j] = ks[j], ks[i] })
		ks = ks[:16]
		sort.Strings(ks)
	}
	for _, k := range ks {
		claims = append(claims, claim{[]byte(k), s.m[k]})
	}
	nAbsent := 3 + len(ks)/4
	for i := 0; i < nAbsent; i++ {
		k := s.genKey()
		if _, ok := s.m[string(k)]; !ok {
			claims = append(claims, claim{k, nil})
		}
	}
	// a foreign trie (different content) as substitution material
	foreign := s.foreignBlobs()
	var prev [][]byte
	for _, cl := range claims {
		tk := s.t.trieKey(cl.k)
		blobs, err := s.proveKey(tk)
		if err != nil {
			return s.violate("proof", "prove/error", "Prove(%s) failed without any fault: %v", hx(cl.k), err)
		}
		if len(blobs) == 0 && len(s.m) > 0 {
			return s.violate("proof", "prove/empty", "Prove(%s) produced no node although the trie is not empty", hx(cl.k))
		}
		val, _, verr := trie.VerifyProof(root, tk, newProofSet(blobs))
		s.c.Evals(1)
		s.nProofs++
		if cl.truth != nil {
			s.c.Probe("proof-membership")
			if verr != nil || !bytes.Equal(val, cl.truth) {
				return s.violate("proof", "proof/membership", "key %s holds %s; its own proof (%d nodes) verifies to (%s, %v)", hx(cl.k), hx(cl.truth), len(blobs), hx(val), verr)
			}
		} else {
			s.c.Probe("proof-absence")
			if len(s.m) == 0 {
				continue // an empty trie has no node to prove anything with
			}
			if verr != nil || len(val) != 0 {
				return s.violate("proof", "proof/absence", "key %s is absent; its absence proof (%d nodes) verifies to (%s, %v)", hx(cl.k), len(blobs), hx(val), verr)
			}
		}
		if s.tamper(root, tk, cl.truth, blobs, prev, foreign) {
			return true
		}
		if len(blobs) > 0 {
			prev = blobs
		}
	}
	return false
}

// foreignBlobs builds a different trie over a separate database and returns
// the nodes of a few of its proofs.
func (s *sim) foreignBlobs() [][]byte {
	fdb := trie.NewDatabase(dbm.NewMemDB())
	ft, err := openTrie(s.secure, common.EmptyHash, fdb, 0)
	if err != nil {
		return nil
	}
	ks := s.m.keys()
	for i, k := range ks {
		v := s.m[k]
		if i%2 == 0 {
			v = append([]byte("x"), v...) // same keys, other values
		}
		ft.update([]byte(k), v)
	}
	ft.update([]byte("foreign"), []byte("f"))
	ft.hash()
	var out [][]byte
	for i, k := range ks {
		if i > 3 {
			break
		}
		var pl proofList
		ft.prove(ft.trieKey([]byte(k)), &pl)
		out = append(out, pl.blobs...)
	}
	return out
}

// tamper tries single-node manipulations of the proof list. Whatever the
// verifier is handed, the answer must be the truth or an error.
func (s *sim) tamper(root common.Hash, tk, truth []byte, blobs, prev, foreign [][]byte) bool {
	if len(blobs) == 0 {
		return false
	}
	t := s.flt
	judge := func(kind string, mod [][]byte) bool {
		var val []byte
		var err error
		site, msg, p := kernel.Try(func() { val, _, err = trie.VerifyProof(root, tk, newProofSet(mod)) })
		s.c.Evals(1)
		if p {
			return s.violate("panic", "proof/tamper-panic", "VerifyProof panicked at %s on a proof with %s: %s", site, kind, msg)
		}
		if err != nil {
			s.c.Probe("tamper-rejected")
			return false
		}
		if !bytes.Equal(val, truth) && !(len(val) == 0 && len(truth) == 0) {
			return s.violate("proof", "proof/tamper-accepted", "proof for trie key %s with %s verifies without error to %s; the truth for this root is %s", hx(tk), kind, hx(val), hx(truth))
		}
		s.c.Probe("tamper-harmless")
		return false
	}
	clone := func() [][]byte {
		c := make([][]byte, len(blobs))
		for i := range blobs {
			c[i] = append([]byte{}, blobs[i]...)
		}
		return c
	}
	rounds := 3
	if s.c.Tier == kernel.Thorough {
		rounds = 4
	}
	for r := 0; r < rounds; r++ {
		i := t.Int(len(blobs))
		switch t.Pick(40, 15, 15, 15, 10, 5) {
		case 0: // flip one byte (bit) of one node
			c := clone()
			j := t.Int(len(c[i]))
			c[i][j] ^= byte(1 << uint(t.Int(8)))
			s.c.Fault("proof-byte-flipped")
			if judge(fmt.Sprintf("node %d byte %d flipped", i, j), c) {
				return true
			}
		case 1: // drop one node
			c := append(clone()[:i:i], clone()[i+1:]...)
			s.c.Fault("proof-node-dropped")
			if judge(fmt.Sprintf("node %d dropped", i), c) {
				return true
			}
		case 2: // substitute by a node of another proof of the same trie
			if len(prev) == 0 {
				continue
			}
			c := clone()
			c[i] = append([]byte{}, prev[t.Int(len(prev))]...)
			s.c.Fault("proof-node-substituted-same-trie")
			if judge(fmt.Sprintf("node %d replaced by a node of another key's proof", i), c) {
				return true
			}
		case 3: // substitute by a node of a different trie
			if len(foreign) == 0 {
				continue
			}
			c := clone()
			c[i] = append([]byte{}, foreign[t.Int(len(foreign))]...)
			s.c.Fault("proof-node-substituted-other-trie")
			if judge(fmt.Sprintf("node %d replaced by a node of a different trie", i), c) {
				return true
			}
		case 4: // truncate one node
			c := clone()
			c[i] = c[i][:t.Int(len(c[i]))]
			s.c.Fault("proof-node-truncated")
			if judge(fmt.Sprintf("node %d truncated to %d bytes", i, len(c[i])), c) {
				return true
			}
		default: // add foreign nodes on top of the intact proof: must still give the truth
			c := append(clone(), foreign...)
			if judge("foreign nodes added to the intact proof", c) {
				return true
			}
		}
	}
	return false
}

// ---------------------------------------------------------------- canonical root

// checkCanonical rebuilds the current content in other ways and demands the
// same root.
func (s *sim) checkCanonical(root common.Hash) bool {
	// 1. fresh sorted build, no database traffic
	ks := s.m.keys()
	build := func(name string, f func(h *handle, db *trie.Database) (common.Hash, error)) bool {
		db := trie.NewDatabase(dbm.NewMemDB())
		h, err := openTrie(s.secure, common.EmptyHash, db, uint16(s.ops.Int(3)))
		if err != nil {
			s.c.HarnessTrouble("open: %v", err)
			return true
		}
		r, err := f(h, db)
		s.c.Evals(1)
		if err != nil {
			return s.violate("canonical", "root/rebuild-error", "%s failed: %v", name, err)
		}
		if r != root {
			return s.violate("canonical", "root/not-canonical", "%s of the same %d-key content gives root %x, the history's trie has %x", name, len(ks), r, root)
		}
		return false
	}
	if build("fresh sorted build", func(h *handle, db *trie.Database) (common.Hash, error) {
		for _, k := range ks {
			if err := h.update([]byte(k), s.m[k]); err != nil {
				return common.Hash{}, err
			}
		}
		return h.hash(), nil
	}) {
		return true
	}
	// 2. shuffled histories with junk, overwrites, commits, flushes, reopens
	n := s.ops.Range(2, 4)
	for p := 0; p < n; p++ {
		s.c.Probe("canonical-permutation")
		if build(fmt.Sprintf("shuffled history #%d", p), func(h *handle, db *trie.Database) (common.Hash, error) {
			t := s.ops
			order := append([]string{}, ks...)
			t.Shuffle(len(order), func(i, j int) { order[i], order[j] = order[j], order[i] })
			var junk [][]byte
			maybeCommit := func() error {
				switch t.Pick(10, 3, 2, 1) {
				case 1:
					_, err := h.commit()
					return err
				case 2:
					r, err := h.commit()
					if err != nil {
						return err
					}
					nh, err := openTrie(s.secure, r, db, uint16(t.Int(3)))
					if err != nil {
						return err
					}
					*h = *nh
				case 3:
					r, err := h.commit()
					if err != nil {
						return err
					}
					if err := db.Commit(r, false); err != nil {
						return err
					}
					nh, err := openTrie(s.secure, r, db, uint16(t.Int(3)))
					if err != nil {
						return err
					}
					*h = *nh
				}
				return nil
			}
			for _, k := range order {
				if t.Bool(1, 4) { // junk key in, to be removed later
					j := s.genKey()
					if _, ok := s.m[string(j)]; !ok {
						junk = append(junk, j)
						if err := h.update(j, []byte("junk")); err != nil {
							return common.Hash{}, err
						}
					}
				}
				if t.Bool(1, 4) { // wrong value first
					if err := h.update([]byte(k), []byte("old")); err != nil {
						return common.Hash{}, err
					}
					if t.Bool(1, 3) {
						if err := h.del([]byte(k)); err != nil {
							return common.Hash{}, err
						}
					}
				}
				if err := h.update([]byte(k), s.m[k]); err != nil {
					return common.Hash{}, err
				}
				if len(junk) > 0 && t.Bool(1, 3) {
					j := junk[len(junk)-1]
					junk = junk[:len(junk)-1]
					if err := h.del(j); err != nil {
						return common.Hash{}, err
					}
				}
				if err := maybeCommit(); err != nil {
					return common.Hash{}, err
				}
			}
			for _, j := range junk {
				var err error
				if t.Bool(1, 2) {
					err = h.del(j)
				} else {
					err = h.update(j, nil)
				}
				if err != nil {
					return common.Hash{}, err
				}
			}
			if t.Bool(1, 2) {
				return h.commit()
			}
			return h.hash(), nil
		}) {
			return true
		}
	}
	return false
}

// ---------------------------------------------------------------- missing node

func isMissingNode(err error) bool {
	_, ok := err.(*trie.MissingNodeError)
	return ok
}

// opMissingNode: everything is flushed to disk, the process restarts, and one
// stored trie node reads as absent. Every call must give the model's answer
// or a *MissingNodeError; a failed update must not change anything. Then the
// node comes back and the same trie object must answer correctly.
func (s *sim) opMissingNode() {
	if len(s.m) == 0 {
		return
	}
	s.opFlush()
	if s.stop {
		return
	}
	// candidate node keys: 32-byte keys of the disk db (preimages have a longer, prefixed key)
	var cands []string
	for _, k := range s.disk.MemDB.Keys() {
		if len(k) == common.HashLength {
			cands = append(cands, string(k))
		}
	}
	sort.Strings(cands)
	if len(cands) == 0 {
		return
	}
	hole := []byte(cands[s.flt.Int(len(cands))])
	if s.flt.Bool(3, 4) {
		// mostly a node that is on the path of some key of the current content
		// (old roots leave unreachable nodes behind on the disk)
		ks := s.m.keys()
		k := []byte(ks[s.flt.Int(len(ks))])
		if blobs, err := s.proveKey(s.t.trieKey(k)); err == nil && len(blobs) > 0 {
			h := crypto.Keccak256(blobs[s.flt.Int(len(blobs))])
			if s.disk.MemDB.Has(h) {
				hole = h
			}
		}
	}
	s.tracef("missing-node episode: %x.. of %d stored nodes", hole[:4], len(cands))
	s.tdb = trie.NewDatabase(s.disk)
	s.disk.hole, s.disk.hits = hole, 0
	defer func() { s.disk.hole = nil }()

	t, err := openTrie(s.secure, s.flushedRoot, s.tdb, s.cachelimit)
	if err != nil {
		if !isMissingNode(err) || !bytes.Equal(hole, s.flushedRoot[:]) {
			s.violate("missing-node", "missing-node/open-error", "New(%x) with node %x missing: %v", s.flushedRoot, hole, err)
			return
		}
		s.c.Fault("missing-node-root")
		s.disk.hole = nil
		t, err = openTrie(s.secure, s.flushedRoot, s.tdb, s.cachelimit)
		if err != nil {
			s.violate("missing-node", "missing-node/open-error", "New(%x) after the node came back: %v", s.flushedRoot, err)
			return
		}
		s.t = t
		s.m = s.flushedModel.clone()
		s.committedRoot, s.committedModel, s.dirtySince = s.flushedRoot, s.flushedModel.clone(), false
		return
	}
	s.t = t
	s.m = s.flushedModel.clone()
	s.committedRoot, s.committedModel, s.dirtySince = s.flushedRoot, s.flushedModel.clone(), false

	fired := 0
	ks := s.m.keys()
	// reads
	for _, k := range ks {
		v, err := s.t.get([]byte(k))
		s.c.Evals(1)
		switch {
		case err == nil:
			if !bytes.Equal(v, s.m[k]) {
				s.violate("missing-node", "missing-node/wrong-value", "with node %x missing TryGet(%s) = %s without error; the content holds %s", hole, hx([]byte(k)), hx(v), hx(s.m[k]))
				return
			}
		case isMissingNode(err):
			fired++
		default:
			s.violate("missing-node", "missing-node/other-error", "with node %x missing TryGet(%s) fails with %T %v (want *MissingNodeError)", hole, hx([]byte(k)), err, err)
			return
		}
	}
	// absent keys
	for i := 0; i < 3; i++ {
		k := s.genKey()
		if _, ok := s.m[string(k)]; ok {
			continue
		}
		v, err := s.t.get(k)
		s.c.Evals(1)
		if err == nil && len(v) != 0 {
			s.violate("missing-node", "missing-node/wrong-value", "with node %x missing TryGet(%s) = %s for an absent key", hole, hx(k), hx(v))
			return
		}
		if err != nil && !isMissingNode(err) {
			s.violate("missing-node", "missing-node/other-error", "with node %x missing TryGet(%s) fails with %T %v", hole, hx(k), err, err)
			return
		}
		if err != nil {
			fired++
		}
	}
	// iteration: a prefix of the content in order, then a MissingNodeError
	exp := s.m.expectedLeaves(s.t)
	act, iterr, _ := s.iterate(nil, false, s.flushedRoot)
	s.c.Evals(1)
	if iterr != nil && !isMissingNode(iterr) {
		s.violate("missing-node", "missing-node/other-error", "with node %x missing iteration fails with %T %v", hole, iterr, iterr)
		return
	}
	if iterr != nil {
		fired++
		if len(act) > len(exp) {
			s.violate("missing-node", "missing-node/iter", "with node %x missing iteration yields %d pairs, content holds %d", hole, len(act), len(exp))
			return
		}
		if typ, msg := diffLeaves(exp[:len(act)], act); typ != "" {
			s.violate("missing-node", "missing-node/iter", "with node %x missing the pairs enumerated before the error are not a prefix of the content: %s", hole, msg)
			return
		}
	} else if typ, msg := diffLeaves(exp, act); typ != "" {
		s.violate("missing-node", "missing-node/iter", "with node %x missing iteration ends without error but: %s", hole, msg)
		return
	}
	// proofs
	for i := 0; i < 3 && len(ks) > 0; i++ {
		k := []byte(ks[s.flt.Int(len(ks))])
		tk := s.t.trieKey(k)
		blobs, err := s.proveKey(tk)
		s.c.Evals(1)
		if err != nil {
			if !isMissingNode(err) {
				s.violate("missing-node", "missing-node/other-error", "with node %x missing Prove(%s) fails with %T %v", hole, hx(k), err, err)
				return
			}
			fired++
			continue
		}
		val, _, verr := trie.VerifyProof(s.flushedRoot, tk, newProofSet(blobs))
		if verr != nil || !bytes.Equal(val, s.m[string(k)]) {
			s.violate("missing-node", "missing-node/proof", "with node %x missing Prove(%s) succeeds but verifies to (%s, %v); content holds %s", hole, hx(k), hx(val), verr, hx(s.m[string(k)]))
			return
		}
	}
	// writes: applied, or refused with MissingNodeError and then nothing changed
	for i := s.flt.Range(1, 4); i > 0; i-- {
		k := s.genKey()
		var err error
		var v []byte
		if s.flt.Bool(1, 3) {
			err = s.t.del(k)
		} else {
			v = s.genVal()
			err = s.t.update(k, v)
		}
		s.c.Evals(1)
		switch {
		case err == nil:
			if v == nil {
				delete(s.m, string(k))
			} else {
				s.m[string(k)] = v
			}
			s.dirtySince = true
		case isMissingNode(err):
			fired++
			s.c.Probe("missing-node-write-refused")
		default:
			s.violate("missing-node", "missing-node/other-error", "with node %x missing a write to %s fails with %T %v", hole, hx(k), err, err)
			return
		}
	}
	if fired > 0 {
		s.c.Fault("missing-node")
	} else {
		s.c.Probe("missing-node-not-on-any-path")
	}
	// the node is back: the same trie object must now answer everything
	s.disk.hole = nil
	if len(s.m) > 0 {
		s.unloadedReads++
	}
	if s.checkAllGets("after the missing node came back") {
		return
	}
	s.noteRoot(s.t.hash(), "after missing-node episode")
}

var _ = crypto.Keccak256
