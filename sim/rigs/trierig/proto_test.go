package trierig

import (
	"fmt"
	"testing"

	"github.com/lianxiangcloud/linkchain/libs/common"
	dbm "github.com/lianxiangcloud/linkchain/libs/db"
	"github.com/lianxiangcloud/linkchain/libs/log"
	"github.com/lianxiangcloud/linkchain/libs/trie"
)

type plist struct{ blobs [][]byte; keys [][]byte }

func (p *plist) Put(k, v []byte) error {
	p.keys = append(p.keys, append([]byte{}, k...))
	p.blobs = append(p.blobs, append([]byte{}, v...))
	return nil
}

func TestProto(t *testing.T) {
	log.Root().SetHandler(log.DiscardHandler())
	disk := dbm.NewMemDB()
	tdb := trie.NewDatabase(disk)
	tr, _ := trie.New(common.EmptyHash, tdb)
	for _, k := range []string{"do", "dog", "doge", "", "horse", "d", "dp", "do\x00"} {
		if err := tr.TryUpdate([]byte(k), []byte("v-"+k)); err != nil {
			t.Fatal(err)
		}
	}
	fmt.Printf("root %x\n", tr.Hash())
	it := trie.NewIterator(tr.NodeIterator(nil))
	for it.Next() {
		fmt.Printf("  %q=%q\n", it.Key, it.Value)
	}
	fmt.Println("from 'dog':")
	it = trie.NewIterator(tr.NodeIterator([]byte("dog")))
	for it.Next() {
		fmt.Printf("  %q=%q\n", it.Key, it.Value)
	}
	fmt.Println("from 'dof':")
	it = trie.NewIterator(tr.NodeIterator([]byte("dof")))
	for it.Next() {
		fmt.Printf("  %q=%q\n", it.Key, it.Value)
	}
	v, err := tr.TryGet([]byte(""))
	fmt.Printf("get empty: %q %v\n", v, err)
	root, err := tr.Commit(nil)
	fmt.Printf("commit %x %v\n", root, err)
	tdb.Commit(root, false)
	fmt.Printf("disk keys: %d\n", len(disk.Keys()))
	tr2, err := trie.New(root, trie.NewDatabase(disk))
	fmt.Println("reopen err", err)
	for _, k := range []string{"do", "dog", "", "x", "dogx", "dp"} {
		v, err := tr2.TryGet([]byte(k))
		p := &plist{}
		perr := tr2.Prove([]byte(k), 0, p)
		pv := dbm.NewMemDB()
		for i := range p.blobs {
			pv.Set(p.keys[i], p.blobs[i])
		}
		val, n, verr := trie.VerifyProof(root, []byte(k), pv)
		fmt.Printf("  %q: get=%q,%v prove(%d nodes,%v) verify=%q,%d,%v\n", k, v, err, len(p.blobs), perr, val, n, verr)
	}
	// delete all
	for _, k := range []string{"do", "dog", "doge", "", "horse", "d", "dp", "do\x00"} {
		tr2.TryDelete([]byte(k))
	}
	fmt.Printf("empty root %x\n", tr2.Hash())
	st, _ := trie.NewSecure(common.EmptyHash, tdb, 0)
	st.TryUpdate([]byte("a"), []byte("1"))
	st.TryUpdate([]byte("b"), []byte("2"))
	sit := trie.NewIterator(st.NodeIterator(nil))
	for sit.Next() {
		fmt.Printf("  sec %x=%q key=%q\n", sit.Key, sit.Value, st.GetKey(sit.Key))
	}
}
