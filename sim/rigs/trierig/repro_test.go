package trierig

import (
	"fmt"
	"testing"

	"github.com/lianxiangcloud/linkchain/libs/common"
	dbm "github.com/lianxiangcloud/linkchain/libs/db"
	"github.com/lianxiangcloud/linkchain/libs/log"
	"github.com/lianxiangcloud/linkchain/libs/trie"
)

// Reproduction of the genuine defect found by C10 (key
// c10/cap-over-memdb/nodes-lost): trie.Database.Cap hands oldest[:] — a slice
// of a local array it keeps overwriting — to batch.Set, and libs/db's memBatch
// keeps the slice instead of copying it. Over a MemDB every flushed node is
// therefore written under the LAST value of that array and the trie's nodes
// are gone from both the memory layer and the disk.
func TestReproCapOverMemDBLosesNodes(t *testing.T) {
	log.Root().SetHandler(log.DiscardHandler())
	disk := dbm.NewMemDB()
	tdb := trie.NewDatabase(disk)
	tr, _ := trie.New(common.EmptyHash, tdb)
	for i := 0; i < 40; i++ {
		tr.TryUpdate([]byte(fmt.Sprintf("key-%02d", i)), []byte(fmt.Sprintf("a value long enough not to be embedded %02d", i)))
	}
	root, err := tr.Commit(nil)
	if err != nil {
		t.Fatal(err)
	}
	before, _ := tdb.Size()
	if err := tdb.Cap(0); err != nil {
		t.Fatal(err)
	}
	after, _ := tdb.Size()
	t.Logf("memory layer %v -> %v, disk now holds %d keys", before, after, len(disk.Keys()))
	for _, k := range disk.Keys() {
		t.Logf("  disk key %x", k)
	}
	_, err = trie.New(root, tdb)
	t.Logf("trie.New(root) after Cap(0): %v", err)
	if err == nil {
		t.Skip("not reproduced: the defect is fixed in this tree")
	}
	if _, ok := err.(*trie.MissingNodeError); !ok {
		t.Fatalf("unexpected error type %T", err)
	}
}

// Observation (not reported as a violation; see the rig's first assumption):
// iteration order is the trie's nibble order with the end of a key sorting
// after every nibble, so a key comes AFTER its proper extensions.
func TestObservationIterationOrderOfPrefixKeys(t *testing.T) {
	log.Root().SetHandler(log.DiscardHandler())
	tr, _ := trie.New(common.EmptyHash, trie.NewDatabase(dbm.NewMemDB()))
	for _, k := range []string{"do", "dog", "doge", "", "d"} {
		tr.TryUpdate([]byte(k), []byte("v"))
	}
	var order []string
	it := trie.NewIterator(tr.NodeIterator(nil))
	for it.Next() {
		order = append(order, fmt.Sprintf("%q", it.Key))
	}
	t.Logf("inserted \"\", d, do, dog, doge; iteration yields %v (bytes.Compare order would be \"\", d, do, dog, doge)", order)
}
