// Package trierig is the rig of property C10: the Merkle-Patricia root of
// libs/trie is a canonical commitment of the key->value content, lookups
// return the last written value, proofs are sound, iteration enumerates the
// content. Every run is a tape-driven history on a plain Trie or a SecureTrie
// over trie.Database over a libs/db MemDB, compared with a map model.
package trierig

import (
	"bytes"
	"encoding/hex"
	"fmt"
	"os"
	"sort"
	"strconv"
	"time"

	"github.com/lianxiangcloud/linkchain/libs/common"
	"github.com/lianxiangcloud/linkchain/libs/crypto"
	dbm "github.com/lianxiangcloud/linkchain/libs/db"
	"github.com/lianxiangcloud/linkchain/libs/log"
	"github.com/lianxiangcloud/linkchain/libs/trie"

	"verif/sim/kernel"
)

func init() {
	log.Root().SetHandler(log.DiscardHandler())
	kernel.Register(&kernel.Rig{
		Property: "C10",
		Name:     "trierig",
		Level:    "exploration",
		Rule: "one run = one tape-driven history (quick 30-160, thorough 100-400 steps) on a plain Trie or a SecureTrie over trie.Database over a MemDB: TryUpdate (empty value = delete), TryDelete, TryGet, Hash, Commit, " +
			"TrieDB.Commit, TrieDB.Cap, SetCacheLimit(0-3), reopen New(root, db), restart (new trie.Database over the disk db; unflushed commits are lost), missing-node episodes (one stored node reads as absent), checkpoints. " +
			"Keys: empty, prefixes of each other, shared prefixes up to 31 bytes, 32-byte keys, nibble-level neighbours; values 1-80 bytes incl. exactly 32. Oracle: map model for every get; root is a function of the content " +
			"(same content = same root, different content = different root, across the whole run; fresh sorted build and 2-4 shuffled histories with junk insert/delete, overwrites, commits, flushes and reopens reach the same root); " +
			"iteration (full and from a start key, with per-leaf proofs) yields exactly the model in trie key order; Prove+VerifyProof for every key (final checkpoint; a sample of 16 at intermediate checkpoints of larger tries) and a sample of absent keys gives exactly the model's answer; " +
			"every single-node tampering of a proof list (byte flip, drop, substitution from another proof or another trie, duplicates) verifies to the truth or errors; under a missing node every call returns the model's answer or a *MissingNodeError, " +
			"a failed update changes nothing. Non-trivial: >=5 keys at some checkpoint, >=1 commit followed by reads through unloaded nodes, >=1 proof check. Distinct = hash of the step sequence and roots.",
		Real: []string{"libs/trie Trie, SecureTrie, Database (memory layer, Commit, Cap), hasher, node codec, NodeIterator/Iterator, Prove, VerifyProof", "libs/ser node encoding", "libs/crypto Keccak256", "libs/db MemDB as disk"},
		Stub: []string{"disk database = MemDB wrapped by a read filter that makes one chosen key read as absent (missing-node fault)"},
		Assumptions: []string{
			"'key order' of iteration is the trie's own order: keys compared nibble by nibble with the end of a key sorting AFTER every nibble, i.e. byte order except that a key sorts after all of its proper extensions (\"dog\" before \"do\", the empty key last); this is how upstream go-ethereum iterates too. Runs where this differs from bytes.Compare order are counted by the probe iter-order-differs-from-bytewise",
			"a proof is a list of node blobs; the verifier stores each blob under its own Keccak256 (as upstream's NodeList.Store does) before calling VerifyProof. VerifyProof itself does not re-hash what it loads, so a proof database whose keys were chosen by the prover is outside the model",
			"SecureTrie.Prove and iteration work on hashed keys (callers hash; GetKey returns the preimage)",
			"restart = new trie.Database over the same disk db: only roots flushed with TrieDB.Commit survive; Dereference/garbage collection of the memory layer is not exercised",
			"single-goroutine use (Trie is documented as not safe for concurrent use)",
		},
		QuickRuns: 12000, ThoroughRuns: 150000, QuickBudget: 50 * time.Second, ThoroughBudget: 15 * time.Minute,
		Run: run, MaxProcs: envInt("TRIERIG_MAXPROCS", 1), RunsPerProcess: 2000, RunTimeout: 120 * time.Second,
	})
}

// envInt lets the determinism check vary GOMAXPROCS of the workers.
func envInt(name string, def int) int {
	if v, err := strconv.Atoi(os.Getenv(name)); err == nil && v > 0 {
		return v
	}
	return def
}

// ---------------------------------------------------------------- disk with a hole

// holeDB is the disk database: a MemDB whose reads of one chosen key answer
// "absent" while the hole is armed.
type holeDB struct {
	*dbm.MemDB
	hole []byte
	hits int
}

func (h *holeDB) blocked(k []byte) bool {
	if h.hole != nil && bytes.Equal(k, h.hole) {
		h.hits++
		return true
	}
	return false
}

func (h *holeDB) Get(k []byte) []byte {
	if h.blocked(k) {
		return nil
	}
	return h.MemDB.Get(k)
}
func (h *holeDB) Load(k []byte) ([]byte, error) {
	if h.blocked(k) {
		return nil, nil
	}
	return h.MemDB.Load(k)
}
func (h *holeDB) Has(k []byte) bool {
	if h.blocked(k) {
		return false
	}
	return h.MemDB.Has(k)
}
func (h *holeDB) Exist(k []byte) (bool, error) {
	if h.blocked(k) {
		return false, nil
	}
	return h.MemDB.Exist(k)
}

// NewBatch returns a batch that copies keys and values, as every engine-backed
// batch of libs/db does. (libs/db's memBatch keeps the caller's slices, and
// trie.Database.Cap / secureKey reuse their key buffers: over a raw MemDB
// flushed nodes land under wrong keys. That defect is shown by its own
// scenario, opCapOverRawMemDB; the histories run over a disk that behaves like
// the production engines.)
func (h *holeDB) NewBatch() dbm.Batch { return copyBatch{h.MemDB.NewBatch()} }

type copyBatch struct{ dbm.Batch }

func (b copyBatch) Set(k, v []byte) {
	b.Batch.Set(append([]byte{}, k...), append([]byte{}, v...))
}
func (b copyBatch) Delete(k []byte) { b.Batch.Delete(append([]byte{}, k...)) }

// ---------------------------------------------------------------- trie handle

// handle hides the small API differences between Trie and SecureTrie.
type handle struct {
	secure bool
	pt     *trie.Trie
	st     *trie.SecureTrie
}

func openTrie(secure bool, root common.Hash, db *trie.Database, cachelimit uint16) (*handle, error) {
	h := &handle{secure: secure}
	var err error
	if secure {
		h.st, err = trie.NewSecure(root, db, cachelimit)
	} else {
		h.pt, err = trie.New(root, db)
		if err == nil {
			h.pt.SetCacheLimit(cachelimit)
		}
	}
	if err != nil {
		return nil, err
	}
	return h, nil
}

func (h *handle) get(k []byte) ([]byte, error) {
	if h.secure {
		return h.st.TryGet(k)
	}
	return h.pt.TryGet(k)
}
func (h *handle) update(k, v []byte) error {
	if h.secure {
		return h.st.TryUpdate(k, v)
	}
	return h.pt.TryUpdate(k, v)
}
func (h *handle) del(k []byte) error {
	if h.secure {
		return h.st.TryDelete(k)
	}
	return h.pt.TryDelete(k)
}
func (h *handle) hash() common.Hash {
	if h.secure {
		return h.st.Hash()
	}
	return h.pt.Hash()
}
func (h *handle) commit() (common.Hash, error) {
	if h.secure {
		return h.st.Commit(nil, 0)
	}
	return h.pt.Commit(nil)
}
func (h *handle) nodeIterator(start []byte) trie.NodeIterator {
	if h.secure {
		return h.st.NodeIterator(start)
	}
	return h.pt.NodeIterator(start)
}

// trieKey is the key as the underlying trie sees it.
func (h *handle) trieKey(k []byte) []byte {
	if h.secure {
		return crypto.Keccak256(k)
	}
	return k
}
func (h *handle) prove(tk []byte, to dbm.Putter) error {
	if h.secure {
		return h.st.Prove(tk, 0, to)
	}
	return h.pt.Prove(tk, 0, to)
}

// ---------------------------------------------------------------- model helpers

type kv struct{ k, v []byte }

// trieLess is the trie's key order: nibble order with "end of key" after every
// nibble = byte order, except that a key sorts after its proper extensions.
func trieLess(a, b []byte) bool {
	n := len(a)
	if len(b) < n {
		n = len(b)
	}
	if c := bytes.Compare(a[:n], b[:n]); c != 0 {
		return c < 0
	}
	return len(a) > len(b)
}

// geStart: key k is at or after the iteration start s (s is a path without
// end marker: every key that extends s, s itself, and everything after).
func geStart(k, s []byte) bool {
	n := len(k)
	if len(s) < n {
		n = len(s)
	}
	if c := bytes.Compare(k[:n], s[:n]); c != 0 {
		return c > 0
	}
	return true // one is a prefix of the other: k extends s (inside), or k ends before s does (end marker > nibble)
}

type model map[string][]byte

func (m model) clone() model {
	c := make(model, len(m))
	for k, v := range m {
		c[k] = v
	}
	return c
}

func (m model) keys() []string {
	ks := make([]string, 0, len(m))
	for k := range m {
		ks = append(ks, k)
	}
	sort.Strings(ks)
	return ks
}

func (m model) digest() string {
	var b bytes.Buffer
	for _, k := range m.keys() {
		fmt.Fprintf(&b, "%x=%x;", k, m[k])
	}
	return string(crypto.Keccak256(b.Bytes()))
}

// expectedLeaves is what iteration must yield, in trie key order.
func (m model) expectedLeaves(h *handle) []kv {
	out := make([]kv, 0, len(m))
	for k, v := range m {
		out = append(out, kv{h.trieKey([]byte(k)), v})
	}
	sort.Slice(out, func(i, j int) bool { return trieLess(out[i].k, out[j].k) })
	return out
}

func hx(b []byte) string {
	if len(b) > 10 {
		return fmt.Sprintf("%x..(%d)", b[:10], len(b))
	}
	return fmt.Sprintf("0x%x", b)
}

// ---------------------------------------------------------------- proof containers

// proofList collects what Prove emits, in order.
type proofList struct{ blobs [][]byte }

func (p *proofList) Put(k, v []byte) error {
	p.blobs = append(p.blobs, append([]byte{}, v...))
	return nil
}

// proofSet is the verifier's database: content-addressed by the verifier.
type proofSet map[string][]byte

func newProofSet(blobs [][]byte) proofSet {
	ps := proofSet{}
	for _, b := range blobs {
		ps[string(crypto.Keccak256(b))] = b
	}
	return ps
}
func (ps proofSet) Load(k []byte) ([]byte, error) { return ps[string(k)], nil }
func (ps proofSet) Exist(k []byte) (bool, error)  { _, ok := ps[string(k)]; return ok, nil }

// ---------------------------------------------------------------- simulation

type sim struct {
	c                   *kernel.Ctx
	cfg, ops, keys, flt *kernel.Tape
	secure              bool
	name                string
	disk                *holeDB
	tdb                 *trie.Database
	t                   *handle
	m                   model
	cachelimit          uint16
	pool                [][]byte
	alphabet            []byte
	stem                []byte

	committedRoot  common.Hash // last Trie.Commit root (in tdb memory or disk)
	committedModel model
	dirtySince     bool // trie changed since last Trie.Commit
	flushedRoot    common.Hash
	flushedModel   model
	lastProofs     [][]byte // blobs of earlier proofs (substitution material)

	rootOf    map[string]string // content digest -> root
	contentOf map[string]string // root -> content digest

	step                   int
	stop                   bool
	trace                  []string
	maxKeys                int
	unloadedReads, nProofs int
	valSeq                 int
	rawCapDone             bool

	// sib: a SecureTrie.Copy() of the trie under test taken while it may hold
	// uncommitted changes, with the content it had at that instant; both go on
	// independently (seeded change C10-7: dirty branch nodes shared by copies)
	sib      *handle
	sibModel model
}

func (s *sim) violate(class, what, format string, a ...interface{}) bool {
	if s.c.Violate(class, "c10/"+s.name+"/"+what, "step %d: "+format, append([]interface{}{s.step}, a...)...) {
		s.stop = true
		return true
	}
	return false
}

func (s *sim) tracef(format string, a ...interface{}) {
	line := fmt.Sprintf(format, a...)
	s.c.Finger(line)
	if len(s.trace) < 300 {
		s.trace = append(s.trace, fmt.Sprintf("%d:%s", s.step, line))
	}
}

func run(c *kernel.Ctx) {
	s := &sim{c: c, m: model{}, rootOf: map[string]string{}, contentOf: map[string]string{}}
	s.cfg, s.ops, s.keys, s.flt = c.Tape.Fork("config"), c.Tape.Fork("ops"), c.Tape.Fork("keys"), c.Tape.Fork("faults")
	s.secure = s.cfg.Bool(1, 3)
	s.name = "plain"
	if s.secure {
		s.name = "secure"
	}
	s.configure()
	s.disk = &holeDB{MemDB: dbm.NewMemDB()}
	s.tdb = trie.NewDatabase(s.disk)
	s.cachelimit = uint16(s.cfg.Int(4))
	var err error
	s.t, err = openTrie(s.secure, common.EmptyHash, s.tdb, s.cachelimit)
	if err != nil {
		c.HarnessTrouble("open empty trie: %v", err)
		return
	}
	s.committedRoot, s.committedModel = s.t.hash(), model{}
	s.flushedRoot, s.flushedModel = s.committedRoot, model{}

	nsteps := s.cfg.Range(30, 160)
	if c.Tier == kernel.Thorough {
		nsteps = s.cfg.Range(100, 400)
	}
	base := []int{34, 5, 5, 18, 5, 8, 4, 2, 4, 1, 2, 3, 2, 0, 4}
	w := make([]int, len(base))
	for i := range base {
		w[i] = base[i] * []int{1, 1, 2, 3, 0}[s.cfg.Int(5)]
	}
	w[0] += 6
	w[5] += 2
	if s.cfg.Bool(1, 8) {
		w[13] = 2
	}

	site, msg, p := kernel.Try(func() {
		// some runs start from a populated trie
		for n := s.cfg.Pick(3, 3, 2, 1) * s.cfg.Range(3, 12); n > 0 && !s.stop; n-- {
			s.opUpdate()
		}
		forks := s.secure && s.cfg.Bool(1, 2)
		for s.step = 0; s.step < nsteps && !s.stop; s.step++ {
			c.Event(1)
			if forks && s.ops.Bool(1, 6) {
				s.opSibling()
				continue
			}
			switch s.ops.Pick(w...) {
			case 0:
				s.opUpdate()
			case 1:
				s.opDeleteViaEmpty()
			case 2:
				s.opDelete()
			case 3:
				s.opGet()
			case 4:
				s.opHash()
			case 5:
				s.opCommit()
			case 6:
				s.opFlush()
			case 7:
				s.opCap()
			case 8:
				s.opReopen()
			case 9:
				s.opRestart()
			case 10:
				s.opCacheLimit()
			case 11:
				s.checkpoint(false)
			case 12:
				s.opMissingNode()
			case 13:
				s.opCapOverRawMemDB()
			case 14:
				for n := s.ops.Range(3, 12); n > 0 && !s.stop; n-- {
					s.opUpdate()
				}
			}
		}
		if !s.stop {
			s.checkpoint(true)
		}
		if !s.stop && s.cfg.Bool(1, 40) {
			s.bulkTail()
		}
	})
	if p {
		s.violate("panic", "panic/"+site, "panic in code under test at %s: %s", site, msg)
	}
	if s.maxKeys >= 5 && s.unloadedReads > 0 && s.nProofs > 0 {
		c.NonTrivial()
	}
	c.Finger(hex.EncodeToString([]byte(s.m.digest())))
	tr := s.trace
	if len(tr) > 50 {
		tr = append(append([]string{}, tr[:32]...), append([]string{"..."}, tr[len(tr)-17:]...)...)
	}
	c.Sample(map[string]interface{}{"kind": s.name, "steps": s.step, "cachelimit": s.cachelimit, "final_keys": len(s.m), "max_keys": s.maxKeys, "trace": tr})
}

// ---------------------------------------------------------------- keys and values

func (s *sim) configure() {
	t := s.cfg
	full := []byte{0x00, 0x01, 0x10, 0x11, 0x1f, 0xf0, 0xf1, 0xff, 'a'}
	t.Shuffle(len(full), func(i, j int) { full[i], full[j] = full[j], full[i] })
	s.alphabet = append([]byte{}, full[:t.Range(2, 5)]...)
	// a long stem shared by many keys (31 bytes max so that stem+1 is a 32-byte key)
	s.stem = make([]byte, t.Range(3, 31))
	for i := range s.stem {
		s.stem[i] = s.alphabet[t.Int(len(s.alphabet))]
	}
	for i := t.Range(4, 10); i > 0; i-- {
		s.pool = append(s.pool, s.freshKey(t))
	}
}

func (s *sim) freshKey(t *kernel.Tape) []byte {
	short := func(max int) []byte {
		k := make([]byte, t.Range(0, max))
		for i := range k {
			k[i] = s.alphabet[t.Int(len(s.alphabet))]
		}
		return k
	}
	switch t.Pick(45, 25, 10, 12, 8) {
	case 0:
		return short(4)
	case 1: // long shared prefix
		cut := t.Range(len(s.stem)/2, len(s.stem))
		return append(append([]byte{}, s.stem[:cut]...), short(2)...)
	case 2: // 32-byte key
		k := append([]byte{}, s.stem...)
		for len(k) < 32 {
			k = append(k, s.alphabet[t.Int(len(s.alphabet))])
		}
		return k[:32]
	case 3: // arbitrary bytes
		return t.Bytes(t.Range(1, 6))
	default:
		return []byte{}
	}
}

// genKey draws a key: an existing one, a pool key, a fresh one or a close
// relative (prefix, extension, nibble neighbour) of an existing one.
func (s *sim) genKey() []byte {
	t := s.keys
	existing := func() []byte {
		ks := s.m.keys()
		if len(ks) == 0 {
			return s.freshKey(t)
		}
		return []byte(ks[t.Int(len(ks))])
	}
	switch t.Pick(30, 20, 20, 30) {
	case 0:
		return existing()
	case 1:
		return append([]byte{}, s.pool[t.Int(len(s.pool))]...)
	case 2:
		return s.freshKey(t)
	default:
		e := append([]byte{}, existing()...)
		switch t.Int(6) {
		case 0:
			if len(e) > 0 {
				return e[:len(e)-1]
			}
			return []byte{0x00}
		case 1:
			return append(e, s.alphabet[t.Int(len(s.alphabet))])
		case 2:
			return append(e, 0x00)
		case 3:
			if len(e) > 0 {
				e[len(e)-1] ^= 0x01 // low-nibble neighbour
			}
			return e
		case 4:
			if len(e) > 0 {
				e[len(e)-1] ^= 0x10 // high-nibble neighbour
			}
			return e
		default:
			if len(e) > 1 {
				return e[:t.Range(0, len(e)-1)]
			}
			return e
		}
	}
}

func (s *sim) genVal() []byte {
	t := s.keys
	s.valSeq++
	v := []byte(fmt.Sprintf("%d", s.valSeq))
	switch t.Pick(40, 25, 15, 20) {
	case 0: // tiny: leaves get embedded into their parents
	case 1:
		v = append(v, bytes.Repeat([]byte{'.'}, t.Range(1, 20))...)
	case 2: // exactly 32 bytes
		for len(v) < 32 {
			v = append(v, '=')
		}
	default:
		v = append(v, t.Bytes(t.Range(25, 80))...)
	}
	return v
}

// ---------------------------------------------------------------- steps

func (s *sim) noteRoot(root common.Hash, where string) {
	d := s.m.digest()
	r := string(root[:])
	if prev, ok := s.rootOf[d]; ok && prev != r {
		s.violate("canonical", "root/one-content-two-roots", "%s: the same content (%d keys) hashed to %x earlier in this run and to %x now", where, len(s.m), prev, root)
		return
	}
	if prev, ok := s.contentOf[r]; ok && prev != d {
		s.violate("canonical", "root/two-contents-one-root", "%s: root %x was seen for a different content earlier in this run (now %d keys)", where, root, len(s.m))
		return
	}
	s.rootOf[d], s.contentOf[r] = r, d
	s.c.Finger(root)
}

func (s *sim) opUpdate() {
	k, v := s.genKey(), s.genVal()
	s.tracef("update(%s,%s)", hx(k), hx(v))
	if err := s.t.update(k, v); err != nil {
		s.violate("lookup", "update/error", "TryUpdate(%s) failed without any fault: %v", hx(k), err)
		return
	}
	s.m[string(k)] = v
	s.dirtySince = true
	if len(s.m) > s.maxKeys {
		s.maxKeys = len(s.m)
	}
}

func (s *sim) opDeleteViaEmpty() {
	k := s.genKey()
	var empty []byte
	if s.ops.Bool(1, 2) {
		empty = []byte{}
	}
	s.tracef("update(%s,<empty>)", hx(k))
	if _, ok := s.m[string(k)]; !ok {
		s.c.Probe("delete-absent-key")
	}
	if err := s.t.update(k, empty); err != nil {
		s.violate("lookup", "update/error", "TryUpdate(%s, empty) failed without any fault: %v", hx(k), err)
		return
	}
	delete(s.m, string(k))
	s.dirtySince = true
}

func (s *sim) opDelete() {
	k := s.genKey()
	s.tracef("delete(%s)", hx(k))
	if _, ok := s.m[string(k)]; !ok {
		s.c.Probe("delete-absent-key")
	}
	if err := s.t.del(k); err != nil {
		s.violate("lookup", "delete/error", "TryDelete(%s) failed without any fault: %v", hx(k), err)
		return
	}
	delete(s.m, string(k))
	s.dirtySince = true
}

func (s *sim) checkGet(k []byte, where string) bool {
	v, err := s.t.get(k)
	s.c.Evals(1)
	if err != nil {
		return s.violate("lookup", "get/error", "%s: TryGet(%s) failed without any fault: %v", where, hx(k), err)
	}
	exp, ok := s.m[string(k)]
	if !ok && len(v) != 0 {
		return s.violate("lookup", "get/phantom", "%s: TryGet(%s) = %s but the key was never written / was deleted", where, hx(k), hx(v))
	}
	if ok && !bytes.Equal(v, exp) {
		return s.violate("lookup", "get/wrong-value", "%s: TryGet(%s) = %s, last written value is %s", where, hx(k), hx(v), hx(exp))
	}
	return false
}

func (s *sim) opGet() {
	k := s.genKey()
	s.tracef("get(%s)", hx(k))
	if !s.dirtySince && s.committedRoot != (common.Hash{}) && len(s.m) > 0 {
		s.unloadedReads++
	}
	s.checkGet(k, "get")
}

func (s *sim) opHash() {
	s.tracef("hash")
	s.noteRoot(s.t.hash(), "Hash")
}

func (s *sim) opCommit() {
	root, err := s.t.commit()
	s.tracef("commit -> %x", root[:4])
	if err != nil {
		s.violate("lookup", "commit/error", "Commit failed: %v", err)
		return
	}
	s.noteRoot(root, "Commit")
	if h := s.t.hash(); h != root {
		s.violate("canonical", "root/hash-after-commit-differs", "Hash() right after Commit() = %x, Commit returned %x", h, root)
		return
	}
	s.committedRoot, s.committedModel, s.dirtySince = root, s.m.clone(), false
}

func (s *sim) opFlush() {
	if s.dirtySince {
		s.opCommit()
		if s.stop {
			return
		}
	}
	s.tracef("triedb.Commit(%x)", s.committedRoot[:4])
	if err := s.tdb.Commit(s.committedRoot, false); err != nil {
		s.violate("lookup", "flush/error", "TrieDB.Commit failed: %v", err)
		return
	}
	s.flushedRoot, s.flushedModel = s.committedRoot, s.committedModel.clone()
}

func (s *sim) opCap() {
	limit := 0
	if s.ops.Bool(1, 2) {
		limit = s.ops.Range(100, 3000) // partial flush of the oldest nodes
	}
	s.tracef("triedb.Cap(%d)", limit)
	if err := s.tdb.Cap(common.StorageSize(limit)); err != nil {
		s.violate("lookup", "flush/error", "TrieDB.Cap failed: %v", err)
	}
}

func (s *sim) opCacheLimit() {
	s.cachelimit = uint16(s.ops.Int(4))
	s.tracef("SetCacheLimit(%d) at next open", s.cachelimit)
	if !s.secure {
		s.t.pt.SetCacheLimit(s.cachelimit)
	}
}

// opReopen: commit, then continue on a new trie object opened from the root
// over the same trie.Database.
func (s *sim) opReopen() {
	if s.dirtySince {
		s.opCommit()
		if s.stop {
			return
		}
	}
	s.tracef("reopen New(%x)", s.committedRoot[:4])
	s.c.Fault("reopen-from-root")
	t, err := openTrie(s.secure, s.committedRoot, s.tdb, s.cachelimit)
	if err != nil {
		s.violate("lookup", "reopen/error", "New(%x) over the same trie.Database failed: %v", s.committedRoot, err)
		return
	}
	s.t = t
	s.spotCheck("after reopen")
}

// opRestart: the process dies; only what TrieDB.Commit flushed survives.
func (s *sim) opRestart() {
	lost := s.dirtySince || s.committedRoot != s.flushedRoot
	s.tracef("restart -> %x (lost unflushed=%v)", s.flushedRoot[:4], lost)
	s.c.Fault("restart")
	if lost {
		s.c.Fault("restart-loses-unflushed-commits")
	}
	s.tdb = trie.NewDatabase(s.disk)
	s.sib, s.sibModel = nil, nil
	t, err := openTrie(s.secure, s.flushedRoot, s.tdb, s.cachelimit)
	if err != nil {
		s.violate("lookup", "restart/error", "New(%x) after restart failed although that root was flushed with TrieDB.Commit: %v", s.flushedRoot, err)
		return
	}
	s.t = t
	s.m = s.flushedModel.clone()
	s.committedRoot, s.committedModel, s.dirtySince = s.flushedRoot, s.flushedModel.clone(), false
	if len(s.m) > 0 {
		s.unloadedReads++
	}
	if s.checkAllGets("after restart") {
		return
	}
	if h := s.t.hash(); h != s.flushedRoot {
		s.violate("canonical", "restart/root", "root after restart %x, flushed root %x", h, s.flushedRoot)
	}
}

func (s *sim) spotCheck(where string) {
	ks := s.m.keys()
	for i := 0; i < 4 && len(ks) > 0 && !s.stop; i++ {
		s.unloadedReads++
		s.checkGet([]byte(ks[s.ops.Int(len(ks))]), where)
	}
}

func (s *sim) checkAllGets(where string) bool {
	for _, k := range s.m.keys() {
		if s.checkGet([]byte(k), where) {
			return true
		}
	}
	return false
}

// opCapOverRawMemDB: the current content in a second trie over a RAW MemDB,
// committed, flushed with Cap(0) and reopened. Nothing may be lost.
func (s *sim) opCapOverRawMemDB() {
	if s.rawCapDone || len(s.m) == 0 {
		return
	}
	s.rawCapDone = true
	s.tracef("side scenario: same content over a raw MemDB, Commit, Cap(0), New(root)")
	s.c.Probe("cap-over-raw-memdb")
	db := trie.NewDatabase(dbm.NewMemDB())
	h, err := openTrie(s.secure, common.EmptyHash, db, 0)
	if err != nil {
		return
	}
	for _, k := range s.m.keys() {
		h.update([]byte(k), s.m[k])
	}
	root, err := h.commit()
	if err != nil {
		s.violate("lookup", "commit/error", "Commit failed: %v", err)
		return
	}
	if err := db.Cap(0); err != nil {
		s.violate("lookup", "flush/error", "TrieDB.Cap failed: %v", err)
		return
	}
	s.c.Evals(1)
	h2, err := openTrie(s.secure, root, db, 0)
	if err == nil {
		for _, k := range s.m.keys() {
			var v []byte
			if v, err = h2.get([]byte(k)); err != nil || !bytes.Equal(v, s.m[k]) {
				break
			}
		}
	}
	if err != nil {
		// one stable key for this defect, independent of plain/secure
		if s.c.Violate("lookup", "c10/cap-over-memdb/nodes-lost", "step %d: %d keys committed to a trie.Database over a raw MemDB; after TrieDB.Cap(0) the root %x cannot be read back: %v", s.step, len(s.m), root, err) {
			s.stop = true
		}
	}
}

// ---------------------------------------------------------------- copies

// twinRoot builds the content of m in a fresh trie over a fresh database.
func (s *sim) twinRoot(m model) (common.Hash, error) {
	t, err := openTrie(s.secure, common.EmptyHash, trie.NewDatabase(dbm.NewMemDB()), 0)
	if err != nil {
		return common.Hash{}, err
	}
	for _, k := range m.keys() {
		if err := t.update([]byte(k), m[k]); err != nil {
			return common.Hash{}, err
		}
	}
	return t.hash(), nil
}

// opSibling: take a copy of the (possibly dirty) secure trie, or work on the
// copy taken earlier: a few updates/deletes on ONE of the two, then every
// lookup on BOTH must give that trie's own last written values and both roots
// must be the roots of their own content.
func (s *sim) opSibling() {
	if s.sib == nil || s.ops.Bool(1, 5) {
		s.tracef("sibling = Copy() of the trie (dirty=%v)", s.dirtySince)
		s.c.Fault("copy-of-dirty-trie")
		s.sib, s.sibModel = &handle{secure: true, st: s.t.st.Copy()}, s.m.clone()
		return
	}
	onSib := s.ops.Bool(1, 2)
	for n := s.ops.Range(1, 4); n > 0 && !s.stop; n-- {
		if onSib {
			k, v := s.genKey(), s.genVal()
			if s.ops.Bool(1, 4) && len(s.sibModel) > 0 {
				ks := s.sibModel.keys()
				k = []byte(ks[s.ops.Int(len(ks))])
				s.tracef("sibling.delete(%s)", hx(k))
				if err := s.sib.del(k); err != nil {
					s.violate("lookup", "copy/error", "TryDelete on a copy failed: %v", err)
					return
				}
				delete(s.sibModel, string(k))
				continue
			}
			s.tracef("sibling.update(%s,%s)", hx(k), hx(v))
			if err := s.sib.update(k, v); err != nil {
				s.violate("lookup", "copy/error", "TryUpdate on a copy failed: %v", err)
				return
			}
			s.sibModel[string(k)] = v
		} else {
			s.opUpdate()
		}
	}
	if s.stop {
		return
	}
	s.c.Evals(1)
	for _, side := range []struct {
		name string
		h    *handle
		m    model
	}{{"the copy", s.sib, s.sibModel}, {"the original", s.t, s.m}} {
		for _, k := range side.m.keys() {
			got, err := side.h.get([]byte(k))
			if err != nil || string(got) != string(side.m[k]) {
				s.violate("lookup", "copy/lookup-not-last-written", "after updates on %s, %s: Get(%s) = %s (err %v), last written there: %s", map[bool]string{true: "the copy", false: "the original"}[onSib], side.name, hx([]byte(k)), hx(got), err, hx(side.m[k]))
				return
			}
		}
		// a key the other side wrote and this side never had
		other := s.m
		if side.h == s.t {
			other = s.sibModel
		}
		for _, k := range other.keys() {
			if _, ok := side.m[k]; ok {
				continue
			}
			if got, err := side.h.get([]byte(k)); err == nil && len(got) > 0 {
				s.violate("lookup", "copy/lookup-sees-other-copy", "%s: Get(%s) = %s although that key was only written to the other copy", side.name, hx([]byte(k)), hx(got))
				return
			}
			break
		}
		want, err := s.twinRoot(side.m)
		if err != nil {
			s.c.HarnessTrouble("twin: %v", err)
			return
		}
		if got := side.h.hash(); got != want {
			s.violate("canonical", "copy/root-not-of-own-content", "%s: Hash() = %x, a fresh trie with the same %d entries has %x", side.name, got, len(side.m), want)
			return
		}
	}
	s.c.Probe("copy-pair-checked")
}

// bulkTail: a commit that flushes more than the database's ideal batch size
// (100 KiB) of node data in one Database.Commit, then a restart from disk:
// every entry must be there (seeded change C10-8: the batch was reset before it
// was written once it had reached the threshold).
func (s *sim) bulkTail() {
	n := s.cfg.Range(1200, 2600)
	s.tracef("bulk: %d fresh entries, commit, flush, restart", n)
	s.c.Fault("bulk-commit-over-batch-threshold")
	for i := 0; i < n && !s.stop; i++ {
		k := crypto.Keccak256([]byte(fmt.Sprintf("bulk-%d-%d", i, s.valSeq)))[:8+i%24]
		v := make([]byte, 40+i%90)
		for j := range v {
			v[j] = byte(i + j*7)
		}
		v[0] |= 1
		if err := s.t.update(k, v); err != nil {
			s.violate("lookup", "update/error", "TryUpdate failed without any fault: %v", err)
			return
		}
		s.m[string(k)] = v
		s.dirtySince = true
	}
	s.opFlush()
	if s.stop {
		return
	}
	s.opRestart()
	if s.stop {
		return
	}
	// iteration enumerates exactly that content
	it := trie.NewIterator(s.t.nodeIterator(nil))
	cnt := 0
	for it.Next() {
		cnt++
	}
	if cnt != len(s.m) {
		s.violate("iteration", "bulk/iteration-count", "after a bulk commit and restart iteration yields %d entries, content has %d", cnt, len(s.m))
	}
	s.c.Probe("bulk-commit-restart-checked")
}
