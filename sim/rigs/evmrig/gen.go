package evmrig

import (
	"math/big"

	"github.com/lianxiangcloud/linkchain/libs/common"
	"github.com/lianxiangcloud/linkchain/vm/evm"

	"verif/sim/kernel"
)

// ---------------------------------------------------------------- assembler

type asm struct {
	b      []byte
	fixups []int // positions of PUSH2 operands to be patched with a jump target
	dests  []int // positions of emitted JUMPDESTs
}

func (a *asm) op(ops ...evm.OpCode) *asm {
	for _, o := range ops {
		a.b = append(a.b, byte(o))
	}
	return a
}

func (a *asm) raw(bs ...byte) *asm { a.b = append(a.b, bs...); return a }

func (a *asm) pc() int { return len(a.b) }

// push emits the shortest PUSH for v (PUSH1 0 for zero).
func (a *asm) push(v *big.Int) *asm {
	bs := v.Bytes()
	if len(bs) == 0 {
		bs = []byte{0}
	}
	if len(bs) > 32 {
		bs = bs[len(bs)-32:]
	}
	a.b = append(a.b, byte(evm.PUSH1)+byte(len(bs)-1))
	a.b = append(a.b, bs...)
	return a
}

func (a *asm) pushU(v uint64) *asm { return a.push(new(big.Int).SetUint64(v)) }

func (a *asm) pushAddr(ad common.Address) *asm {
	a.b = append(a.b, byte(evm.PUSH20))
	a.b = append(a.b, ad[:]...)
	return a
}

// push2 emits a fixed-width PUSH2 (so that code positions are predictable).
func (a *asm) push2(v int) *asm {
	a.b = append(a.b, byte(evm.PUSH2), byte(v>>8), byte(v))
	return a
}

func (a *asm) jumpdest() int {
	p := len(a.b)
	a.dests = append(a.dests, p)
	a.b = append(a.b, byte(evm.JUMPDEST))
	return p
}

// ---------------------------------------------------------------- value pools

var (
	big256m1 = new(big.Int).Sub(new(big.Int).Lsh(big.NewInt(1), 256), big.NewInt(1))
	hugeVals = []*big.Int{
		big256m1,
		new(big.Int).Lsh(big.NewInt(1), 255),
		new(big.Int).Lsh(big.NewInt(1), 64),
		new(big.Int).Sub(new(big.Int).Lsh(big.NewInt(1), 64), big.NewInt(1)),
		new(big.Int).Lsh(big.NewInt(1), 63),
		new(big.Int).Sub(new(big.Int).Lsh(big.NewInt(1), 63), big.NewInt(1)),
		new(big.Int).Lsh(big.NewInt(1), 32),
		new(big.Int).SetUint64(0xffffffffe0),
		new(big.Int).SetUint64(0xffffffffe1),
		new(big.Int).SetUint64(0x7fffffff),
		new(big.Int).SetUint64(1 << 20),
	}
)

type gen struct {
	t     *kernel.Tape
	addrs []common.Address // everything a program may name
	slots int
	// how often memory offsets/sizes are huge (per mille)
	hugePM int
}

func (g *gen) word() *big.Int {
	switch g.t.Pick(5, 3, 2, 2, 1) {
	case 0:
		return big.NewInt(int64(g.t.Int(40)))
	case 1:
		return new(big.Int).SetBytes(g.addrs[g.t.Int(len(g.addrs))][:])
	case 2:
		return hugeVals[g.t.Int(len(hugeVals))]
	case 3:
		return new(big.Int).SetBytes(g.t.Bytes(g.t.Range(1, 32)))
	default:
		return big.NewInt(int64(g.t.Int(70000)))
	}
}

// memArg is an offset or a size for a memory operation.
func (g *gen) memArg() *big.Int {
	if g.t.Int(1000) < g.hugePM {
		return hugeVals[g.t.Int(len(hugeVals))]
	}
	if g.t.Bool(1, 6) {
		return big.NewInt(int64(g.t.Int(5000)))
	}
	return big.NewInt(int64(g.t.Int(100)))
}

func (g *gen) addr() *big.Int {
	if g.t.Bool(1, 12) {
		return g.word()
	}
	return new(big.Int).SetBytes(g.addrs[g.t.Int(len(g.addrs))][:])
}

func (g *gen) smallVal() *big.Int {
	switch g.t.Pick(5, 4, 1) {
	case 0:
		return new(big.Int)
	case 1:
		return big.NewInt(int64(g.t.Range(1, 9)))
	default:
		return g.word() // usually more than the balance
	}
}

func (g *gen) gasArg(a *asm) {
	switch g.t.Pick(4, 3, 2, 1) {
	case 0:
		a.op(evm.GAS)
	case 1:
		a.pushU(uint64(g.t.Int(60000)))
	case 2:
		a.pushU(uint64(g.t.Int(800)))
	default:
		a.push(g.word())
	}
}

// ---------------------------------------------------------------- opcode soup

// soup emits a stack-aware random program of about n instructions. depth is
// the abstract stack height kept non-negative (operands are pushed first),
// except for the deliberate underflows.
func (g *gen) soup(n int, decimals bool) []byte {
	a := &asm{}
	if decimals {
		g.decimalsPrologue(a)
	}
	depth := 0
	need := func(k int, f func() *big.Int) {
		for depth < k {
			a.push(f())
			depth++
		}
	}
	for i := 0; i < n; i++ {
		switch g.t.Pick(14, 6, 8, 6, 6, 8, 5, 4, 3, 2, 2, 3, 2, 3, 2, 2, 3) {
		case 0: // arithmetic / comparison / bitwise (2 -> 1)
			ops := []evm.OpCode{evm.ADD, evm.SUB, evm.MUL, evm.DIV, evm.SDIV, evm.MOD, evm.SMOD, evm.EXP, evm.SIGNEXTEND,
				evm.LT, evm.GT, evm.SLT, evm.SGT, evm.EQ, evm.AND, evm.OR, evm.XOR, evm.BYTE, evm.SHL, evm.SHR, evm.SAR}
			need(2, g.word)
			a.op(ops[g.t.Int(len(ops))])
			depth--
		case 1: // 1 -> 1 and 3 -> 1
			if g.t.Bool(1, 3) {
				need(3, g.word)
				a.op([]evm.OpCode{evm.ADDMOD, evm.MULMOD}[g.t.Int(2)])
				depth -= 2
			} else {
				need(1, g.word)
				a.op([]evm.OpCode{evm.ISZERO, evm.NOT, evm.BALANCE, evm.EXTCODESIZE, evm.EXTCODEHASH, evm.BLOCKHASH, evm.CALLDATALOAD, evm.SLOAD}[g.t.Int(8)])
			}
		case 2: // environment pushes (0 -> 1)
			ops := []evm.OpCode{evm.ADDRESS, evm.ORIGIN, evm.CALLER, evm.CALLVALUE, evm.CALLDATASIZE, evm.CODESIZE, evm.GASPRICE,
				evm.COINBASE, evm.TIMESTAMP, evm.NUMBER, evm.DIFFICULTY, evm.GASLIMIT, evm.PC, evm.MSIZE, evm.GAS, evm.RETURNDATASIZE,
				evm.CALLTOKENADDRESS, evm.CALLTOKENVALUE}
			a.op(ops[g.t.Int(len(ops))])
			depth++
		case 3: // push / dup / swap / pop
			switch g.t.Pick(4, 2, 2, 2) {
			case 0:
				a.push(g.word())
				depth++
			case 1:
				k := g.t.Range(1, 16)
				need(k, g.word)
				a.op(evm.DUP1 + evm.OpCode(k-1))
				depth++
			case 2:
				k := g.t.Range(1, 16)
				need(k+1, g.word)
				a.op(evm.SWAP1 + evm.OpCode(k-1))
			default:
				if depth > 0 || g.t.Bool(1, 20) { // rarely: underflow
					a.op(evm.POP)
					if depth > 0 {
						depth--
					}
				}
			}
		case 4: // memory
			switch g.t.Pick(3, 3, 2, 2) {
			case 0:
				a.push(g.memArg()).op(evm.MLOAD)
				depth++
			case 1:
				a.push(g.word()).push(g.memArg()).op(evm.MSTORE)
			case 2:
				a.push(g.word()).push(g.memArg()).op(evm.MSTORE8)
			default:
				a.push(g.memArg()).push(g.memArg()).op(evm.SHA3)
				depth++
			}
		case 5: // storage
			if g.t.Bool(2, 3) {
				a.push(g.smallVal()).pushU(uint64(g.t.Int(g.slots))).op(evm.SSTORE)
			} else {
				a.pushU(uint64(g.t.Int(g.slots))).op(evm.SLOAD)
				depth++
			}
		case 6: // copies into memory: (memOff, dataOff, len)
			op := []evm.OpCode{evm.CALLDATACOPY, evm.CODECOPY, evm.RETURNDATACOPY, evm.EXTCODECOPY}[g.t.Int(4)]
			a.push(g.memArg()).push(g.memArg()).push(g.memArg())
			if op == evm.EXTCODECOPY {
				a.push(g.addr())
			}
			a.op(op)
		case 7: // logs
			k := g.t.Int(5)
			for j := 0; j < k; j++ {
				a.push(g.word())
			}
			a.push(g.memArg()).push(g.memArg()).op(evm.LOG0 + evm.OpCode(k))
		case 8: // jumps
			switch g.t.Pick(3, 3, 2, 1) {
			case 0:
				a.jumpdest()
			case 1: // forward conditional jump to a later JUMPDEST (patched at the end)
				a.push(g.smallVal())
				a.b = append(a.b, byte(evm.PUSH2), 0, 0)
				a.fixups = append(a.fixups, len(a.b)-2)
				a.op(evm.JUMPI)
			case 2: // backward jump: a loop that only gas can stop, guarded by a condition on GAS
				if len(a.dests) > 0 {
					d := a.dests[g.t.Int(len(a.dests))]
					a.pushU(uint64(g.t.Int(3000))).op(evm.GAS, evm.GT).push2(d).op(evm.JUMPI)
				}
			default: // invalid target
				a.push(g.word()).op(evm.JUMP)
			}
		case 9: // CALL family
			kind := []evm.OpCode{evm.CALL, evm.CALLCODE, evm.DELEGATECALL, evm.STATICCALL}[g.t.Pick(4, 2, 2, 2)]
			a.push(g.memArg()).push(g.memArg()).push(g.memArg()).push(g.memArg()) // retSize retOff inSize inOff
			if kind == evm.CALL || kind == evm.CALLCODE {
				a.push(g.smallVal())
			}
			a.push(g.addr())
			g.gasArg(a)
			a.op(kind)
			depth++
		case 10: // CREATE / CREATE2 with init code copied from this code or from call data
			if g.t.Bool(2, 5) {
				// a self-contained init code that jumps, written to memory word by
				// word: several of these with different lengths and targets in
				// one call tree
				init := jumpy(jumpPCs[g.t.Int(len(jumpPCs))], g.t.Pick(5, 4, 3, 1), []byte{byte(evm.STOP)})
				padded := common.RightPadBytes(init, (len(init)+31)/32*32)
				for o := 0; o < len(padded); o += 32 {
					a.b = append(a.b, byte(evm.PUSH32))
					a.b = append(a.b, padded[o:o+32]...)
					a.pushU(uint64(o)).op(evm.MSTORE)
				}
				a.pushU(uint64(len(init))).pushU(0).pushU(0).op(evm.CREATE)
				depth++
				break
			}
			src := evm.CODECOPY
			if g.t.Bool(1, 3) {
				src = evm.CALLDATACOPY
			}
			ln := g.t.Int(64)
			a.pushU(uint64(ln)).pushU(uint64(g.t.Int(64))).pushU(0).op(src)
			if g.t.Bool(1, 2) {
				a.push(g.word()) // salt
				a.pushU(uint64(ln)).pushU(0).push(g.smallVal()).op(evm.CREATE2)
			} else {
				a.pushU(uint64(ln)).pushU(0).push(g.smallVal()).op(evm.CREATE)
			}
			depth++
		case 11: // token opcodes
			switch g.t.Pick(3, 3, 3) {
			case 0:
				a.push(g.smallVal()).op(evm.ISSUE)
			case 1:
				a.push(g.addr()).push(g.tokenWord()).op(evm.BALANCETOKEN) // pops token, to
				depth++
			default:
				a.push(g.addr()).push(g.tokenWord()).push(g.smallVal()).op(evm.TRANSFERTOKEN) // pops amount, token, to
			}
		case 12: // terminators in the middle
			switch g.t.Pick(2, 3, 3, 2, 2) {
			case 0:
				a.op(evm.STOP)
			case 1:
				a.push(g.memArg()).push(g.memArg()).op(evm.RETURN)
			case 2:
				a.push(g.memArg()).push(g.memArg()).op(evm.REVERT)
			case 3:
				a.raw(0xfe) // INVALID
			default:
				a.push(g.addr()).op(evm.SELFDESTRUCT)
			}
			// what follows must be reachable by a jump only
			a.jumpdest()
		case 13: // a few raw bytes (undefined opcodes, push data that looks like code)
			a.raw(g.t.Bytes(g.t.Range(1, 4))...)
		case 14: // return data plumbing
			a.op(evm.RETURNDATASIZE).pushU(0).pushU(0).op(evm.RETURNDATACOPY)
		case 15: // deep stack: approach the 1024 limit
			k := g.t.Range(1, 40)
			for j := 0; j < k; j++ {
				a.op(evm.PC)
			}
			depth += k
		default: // call with all remaining gas to self (recursion)
			a.pushU(0).pushU(0).pushU(0).pushU(0).pushU(0).op(evm.ADDRESS, evm.GAS, evm.CALL)
			depth++
		}
	}
	// patch forward jumps: a later JUMPDEST when there is one, else an invalid target
	for _, f := range a.fixups {
		var later []int
		for _, d := range a.dests {
			if d > f {
				later = append(later, d)
			}
		}
		if len(later) > 0 && !g.t.Bool(1, 10) {
			d := later[g.t.Int(len(later))]
			a.b[f], a.b[f+1] = byte(d>>8), byte(d)
		} else {
			a.b[f], a.b[f+1] = 0xff, 0xf0
		}
	}
	// ending: fall off the end, explicit terminator, or a truncated PUSH
	switch g.t.Pick(3, 2, 2, 2, 2) {
	case 1:
		a.pushU(uint64(g.t.Int(64))).pushU(0).op(evm.RETURN)
	case 2:
		a.pushU(0).pushU(0).op(evm.REVERT)
	case 3:
		k := g.t.Range(2, 32)
		a.raw(byte(evm.PUSH1) + byte(k-1))
		a.raw(g.t.Bytes(g.t.Int(k))...) // fewer data bytes than the PUSH announces
	case 4:
		a.push(g.addr()).op(evm.SELFDESTRUCT)
	}
	return a.b
}

func (g *gen) tokenWord() *big.Int {
	if g.t.Bool(1, 4) {
		return new(big.Int)
	}
	return g.addr()
}

// decimalsPrologue makes a contract answer the chain's "decimals()" probe
// (a 4-byte call) with the ABI word 8, so that ISSUE can succeed.
func (g *gen) decimalsPrologue(a *asm) {
	a.pushU(4).op(evm.CALLDATASIZE, evm.EQ, evm.ISZERO)
	a.b = append(a.b, byte(evm.PUSH2), 0, 0)
	fix := len(a.b) - 2
	a.op(evm.JUMPI)
	a.pushU(8).pushU(0).op(evm.MSTORE).pushU(32).pushU(0).op(evm.RETURN)
	d := a.jumpdest()
	a.b[fix], a.b[fix+1] = byte(d>>8), byte(d)
}

// ---------------------------------------------------------------- parent / child templates

const (
	failRevert = iota
	failInvalid
	failOOG
	failUnderflow
	failBadJump
	failNone    // control group: the child succeeds
	failReturns // (init code) RETURN retSize bytes of runtime code
	nFail
)

var failNames = []string{"revert", "invalid", "oog", "stack-underflow", "bad-jump", "none", "returns-code"}

// childSpec is what the child frame does before it fails.
type childSpec struct {
	sstores  int  // writes to slots 2.. of the executing account's storage
	log      bool // LOG1
	sendTo   int  // index into roles of a value transfer target (-1 none): CALL with value 1
	token    bool // TRANSFERTOKEN of the native token / a held token to the beneficiary
	tokenAdr *common.Address
	issue    bool // ISSUE 5
	create   bool // CREATE of a tiny contract with value 0
	suicideG bool // call the grandchild, which self-destructs to the beneficiary
	fail     int
	retSize  int // failReturns: number of code bytes the init code returns
}

// child builds the child code. All effects leave the stack empty.
func (g *gen) child(sp childSpec, w *worldSpec) []byte {
	a := &asm{}
	g.decimalsPrologue(a)
	for i := 0; i < sp.sstores; i++ {
		a.pushU(uint64(0x51 + i)).pushU(uint64(2 + i)).op(evm.SSTORE)
	}
	if sp.log {
		a.pushU(0xc1d).pushU(0).pushU(0).op(evm.LOG1)
	}
	if sp.sendTo >= 0 {
		a.pushU(0).pushU(0).pushU(0).pushU(0).pushU(1).pushAddr(w.role[sp.sendTo]).op(evm.GAS, evm.CALL, evm.POP)
	}
	if sp.token {
		tok := new(big.Int)
		if sp.tokenAdr != nil {
			tok.SetBytes(sp.tokenAdr[:])
		}
		a.pushAddr(w.role[roleBenef]).push(tok).pushU(2).op(evm.TRANSFERTOKEN)
	}
	if sp.issue {
		a.pushU(5).op(evm.ISSUE)
	}
	if sp.create {
		// init code "PUSH1 1 PUSH1 0 SSTORE STOP" = 60 01 60 00 55 00 (6 bytes), stored via MSTORE
		init := []byte{0x60, 0x01, 0x60, 0x00, 0x55, 0x00}
		a.push(new(big.Int).SetBytes(common.RightPadBytes(init, 32))).pushU(0).op(evm.MSTORE)
		a.pushU(uint64(len(init))).pushU(0).pushU(0).op(evm.CREATE, evm.POP)
	}
	if sp.suicideG {
		a.pushU(0).pushU(0).pushU(0).pushU(0).pushU(0).pushAddr(w.role[roleGrand]).op(evm.GAS, evm.CALL, evm.POP)
	}
	switch sp.fail {
	case failRevert:
		a.pushU(0).pushU(0).op(evm.REVERT)
	case failInvalid:
		a.raw(0xfe)
	case failOOG:
		d := a.jumpdest()
		a.push2(d).op(evm.JUMP)
	case failUnderflow:
		a.op(evm.POP)
	case failBadJump:
		a.pushU(1).op(evm.JUMP) // position 1 is push data, never a JUMPDEST
	case failReturns:
		a.pushU(uint64(sp.retSize)).pushU(0).op(evm.RETURN)
	default:
		a.op(evm.STOP)
	}
	return a.b
}

// grandchild self-destructs to the beneficiary.
func (g *gen) grandchild(w *worldSpec) []byte {
	a := &asm{}
	a.pushAddr(w.role[roleBenef]).op(evm.SELFDESTRUCT)
	return a.b
}

const (
	kindCall = iota
	kindCallCode
	kindDelegate
	kindStatic
	kindCreate
	kindCreate2
	nKinds
)

var kindNames = []string{"CALL", "CALLCODE", "DELEGATECALL", "STATICCALL", "CREATE", "CREATE2"}

const (
	markerSlot = 0
	resultSlot = 1
	markerVal  = 0xa11ce
	marker2Val = 0xb0b
)

// parent: writes the marker, logs, performs the call with the child gas taken
// from call data word 0 and value val, stores the call's success flag in
// resultSlot (pre-set to 7, so a failed frame leaves 0 = unset), writes a
// second marker after the call.
func (g *gen) parent(kind int, val uint64, childCode []byte, w *worldSpec) (code []byte, initOff int) {
	a := &asm{}
	a.pushU(markerVal).pushU(markerSlot).op(evm.SSTORE)
	a.pushU(0x9a9).pushU(0).pushU(0).op(evm.LOG1)
	var fix int
	switch kind {
	case kindCall, kindCallCode:
		a.pushU(32).pushU(0).pushU(0).pushU(0).pushU(val).pushAddr(w.role[roleChild]).pushU(0).op(evm.CALLDATALOAD)
		a.op(map[int]evm.OpCode{kindCall: evm.CALL, kindCallCode: evm.CALLCODE}[kind])
	case kindDelegate, kindStatic:
		a.pushU(32).pushU(0).pushU(0).pushU(0).pushAddr(w.role[roleChild]).pushU(0).op(evm.CALLDATALOAD)
		a.op(map[int]evm.OpCode{kindDelegate: evm.DELEGATECALL, kindStatic: evm.STATICCALL}[kind])
	default:
		// copy the init code (the child) from the tail of this code into memory
		a.push2(len(childCode))
		a.b = append(a.b, byte(evm.PUSH2), 0, 0)
		fix = len(a.b) - 2
		a.pushU(0).op(evm.CODECOPY)
		if kind == kindCreate2 {
			a.pushU(0x5a17) // salt
		}
		a.push2(len(childCode)).pushU(0).pushU(val)
		if kind == kindCreate2 {
			a.op(evm.CREATE2)
		} else {
			a.op(evm.CREATE)
		}
		a.op(evm.ISZERO, evm.ISZERO)
	}
	a.pushU(resultSlot).op(evm.SSTORE)
	a.pushU(marker2Val).pushU(uint64(g.slots - 1)).op(evm.SSTORE)
	a.op(evm.STOP)
	if kind == kindCreate || kind == kindCreate2 {
		initOff = len(a.b)
		a.b[fix], a.b[fix+1] = byte(initOff>>8), byte(initOff)
		a.b = append(a.b, childCode...)
	}
	return a.b, initOff
}

// deepCreate is init code that re-creates itself: CREATE forwards all gas, so
// this is the way to reach the call depth limit.
func deepCreate() []byte {
	a := &asm{}
	a.op(evm.CODESIZE).pushU(0).pushU(0).op(evm.CODECOPY) // mem[0:codesize] = code
	a.op(evm.CODESIZE).pushU(0).pushU(0).op(evm.CREATE)   // value 0
	a.op(evm.POP, evm.STOP)
	return a.b
}
