package evmrig

import (
	"fmt"
	"math/big"
	"sort"

	"github.com/lianxiangcloud/linkchain/libs/common"
	"github.com/lianxiangcloud/linkchain/libs/crypto"
	dbm "github.com/lianxiangcloud/linkchain/libs/db"
	"github.com/lianxiangcloud/linkchain/state"
)

// roles of the accounts of a world
const (
	roleOrigin = iota // externally owned sender
	roleParent        // template parent / soup contract 0
	roleChild         // template child  / soup contract 1
	roleGrand         // self-destructing grandchild / soup contract 2
	roleBenef         // beneficiary (exists, no code)
	roleEmpty         // does not exist
	roleToken         // an address used as a token id only
	nRoles
)

var roleNames = []string{"origin", "parent", "child", "grandchild", "beneficiary", "absent", "token"}

type acctSpec struct {
	exists  bool
	code    []byte
	balance int64
	tokens  map[int]int64 // role index of the token id -> balance
	storage map[int]int64 // slot -> value
	nonce   uint64
}

// worldSpec is the tape-chosen pre-state; build() turns it into a committed
// state on a fresh db.
type worldSpec struct {
	role  [nRoles]common.Address
	acct  [nRoles]acctSpec
	extra []common.Address // addresses that may come into existence (CREATE targets)
	slots int
}

type world struct {
	spec *worldSpec
	db   state.Database
	root common.Hash
	// every address whose observables are compared
	universe []common.Address
	names    []string
	tokens   []common.Address
}

func slotHash(i int) common.Hash { return common.BigToHash(big.NewInt(int64(i))) }

func (ws *worldSpec) build() (*world, error) {
	db := state.NewDatabase(dbm.NewMemDB())
	s, err := state.New(common.EmptyHash, db)
	if err != nil {
		return nil, err
	}
	for r := 0; r < nRoles; r++ {
		a := ws.acct[r]
		if !a.exists {
			continue
		}
		ad := ws.role[r]
		s.SetBalance(ad, big.NewInt(a.balance))
		s.SetNonce(ad, a.nonce)
		if len(a.code) > 0 {
			s.SetCode(ad, a.code)
		}
		for _, t := range sortedKeys(a.tokens) {
			s.SetTokenBalance(ad, ws.role[t], big.NewInt(a.tokens[t]))
		}
		for _, k := range sortedKeys(a.storage) {
			s.SetState(ad, slotHash(k), big.NewInt(a.storage[k]).Bytes())
		}
	}
	root, err := s.Commit(false, 1)
	if err != nil {
		return nil, err
	}
	if err := db.TrieDB().Commit(root, false); err != nil {
		return nil, err
	}
	w := &world{spec: ws, db: db, root: root}
	for r := 0; r < nRoles; r++ {
		w.universe = append(w.universe, ws.role[r])
		w.names = append(w.names, roleNames[r])
	}
	for i, ad := range ws.extra {
		w.universe = append(w.universe, ad)
		w.names = append(w.names, fmt.Sprintf("created%d", i))
	}
	for i := 1; i <= 4; i++ {
		w.universe = append(w.universe, common.BytesToAddress([]byte{byte(i)}))
		w.names = append(w.names, fmt.Sprintf("precompile%d", i))
	}
	// token ids: the dedicated one, and the contracts themselves (ISSUE mints
	// the token named after the issuing contract)
	w.tokens = []common.Address{ws.role[roleToken], ws.role[roleParent], ws.role[roleChild]}
	return w, nil
}

func sortedKeys(m map[int]int64) []int {
	ks := make([]int, 0, len(m))
	for k := range m {
		ks = append(ks, k)
	}
	sort.Ints(ks)
	return ks
}

// open returns a fresh, clean StateDB on the committed pre-state.
func (w *world) open() (*state.StateDB, error) {
	return state.New(w.root, w.db)
}

// obs is the list of world observables, as "account.field" -> value.
type obs struct {
	keys []string
	vals map[string]string
}

func (o *obs) set(k, v string) {
	if _, ok := o.vals[k]; !ok {
		o.keys = append(o.keys, k)
	}
	o.vals[k] = v
}

func (o *obs) clone() *obs {
	c := &obs{keys: append([]string(nil), o.keys...), vals: make(map[string]string, len(o.vals))}
	for k, v := range o.vals {
		c.vals[k] = v
	}
	return c
}

// diff returns the first observable that differs.
func (o *obs) diff(p *obs) (key, a, b string) {
	for _, k := range o.keys {
		if o.vals[k] != p.vals[k] {
			return k, o.vals[k], p.vals[k]
		}
	}
	for _, k := range p.keys {
		if _, ok := o.vals[k]; !ok {
			return k, "<none>", p.vals[k]
		}
	}
	return "", "", ""
}

func (w *world) observe(s *state.StateDB) *obs {
	o := &obs{vals: map[string]string{}}
	for i, ad := range w.universe {
		n := w.names[i]
		o.set(n+".exist", fmt.Sprint(s.Exist(ad)))
		o.set(n+".balance", s.GetBalance(ad).String())
		for j, t := range w.tokens {
			o.set(fmt.Sprintf("%s.token%d", n, j), s.GetTokenBalance(ad, t).String())
		}
		o.set(n+".nonce", fmt.Sprint(s.GetNonce(ad)))
		o.set(n+".code", fmt.Sprintf("%x", crypto.Keccak256(s.GetCode(ad))[:6]))
		o.set(n+".suicided", fmt.Sprint(s.HasSuicided(ad)))
		for k := 0; k < w.spec.slots; k++ {
			o.set(fmt.Sprintf("%s.slot%d", n, k), new(big.Int).SetBytes(s.GetState(ad, slotHash(k))).String())
		}
	}
	return o
}
