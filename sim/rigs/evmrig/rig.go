// Package evmrig is the C20 rig: generated EVM programs (stack-aware opcode
// soup, raw bytes, parent/child atomicity templates, self-creating init code
// for the depth limit) executed by the real vm/evm over a real StateDB, under a
// sweep of gas limits so that out-of-gas strikes at every instruction boundary.
package evmrig

import (
	"fmt"
	"math/big"
	"sort"
	"time"

	"github.com/lianxiangcloud/linkchain/config"
	"github.com/lianxiangcloud/linkchain/libs/common"
	"github.com/lianxiangcloud/linkchain/libs/crypto"
	"github.com/lianxiangcloud/linkchain/libs/log"

	"verif/sim/kernel"
)

func init() {
	log.Root().SetHandler(log.DiscardHandler())
	kernel.Register(&kernel.Rig{
		Property: "C20", Name: "evmrig", Level: "exploration",
		Rule: "one run = one committed pre-state (origin, 3 contracts, beneficiary, absent account, token ids; balances, token balances, storage from the tape) and one scenario: " +
			"(a) parent/child atomicity template (parent writes a marker and a log, calls the child by CALL/CALLCODE/DELEGATECALL/STATICCALL/CREATE/CREATE2 with value; the child performs tape-chosen effects - SSTOREs, LOG, value transfer, TRANSFERTOKEN, ISSUE, CREATE, a self-destructing grandchild - then fails by REVERT/INVALID/out-of-gas/stack underflow/bad jump, or succeeds as control), " +
			"(a2) template children that are init codes RETURNing N bytes with N swept around config.MaxCodeSize (-1, 0, +1, +2, larger), (a3) multi-create: one call tree creates 2-3 contracts from different jump-carrying init codes of different lengths (jump targets from a small pc pool: real JUMPDEST / 0x5b inside PUSH data / other opcode), optionally deploying and calling a runtime code that jumps at the same pc with the other validity; the outcome flags of each child must not depend on which other children the tree creates or in which order, " +
			"(b) stack-aware opcode soup over 3 mutually calling contracts (all opcode groups incl. the token opcodes, huge memory offsets, valid/invalid jumps, gas-guarded loops, truncated PUSH, self recursion, precompiles, absent accounts), (c) raw random bytes, (d) self-creating init code to the call depth limit. " +
			"Entry through evm.Call / evm.UTXOCall / evm.Create built exactly as app/state_processor.go does. Fault = abort point: the gas limit is swept (every value up to the unconstrained consumption when that is small, else every top-level instruction boundary found by a tracer plus random limits), templates additionally sweep the child's gas over every instruction boundary of the child. " +
			"Every (program, input, gas) is executed twice from the same committed state (once traced, once as in production) and must agree. non-trivial: >= 1 execution ended in a failing frame and >= 1 succeeded; distinct = hash of (programs, request, result signatures)",
		Real: []string{"vm/evm EVM, Interpreter, jump table (constantinople set + token opcodes), gas table, memory, stack, precompiles 1-4", "state.StateDB + journal over trie/MemDB", "types.Message, evm.NewEVMContext"},
		Stub: []string{"chain context for BLOCKHASH (no headers)", "no transaction layer: gas purchase/refund of app/state_transition.go is not run (only its EVM calls)"},
		Assumptions: []string{
			"gas limits <= 6e7 (memory expansion stays small); WASM VM not covered",
			"a pre-execution refusal (insufficient balance, depth) returns the gas untouched by design and is exempt from 'non-revert error consumes all gas'",
			"the creator's nonce bump on CREATE/CREATE2 belongs to the parent frame (EVM-specified)",
			"balance records (evm.GetOTxs) are not world state; leftovers from failed inner frames are only counted as a probe",
			"value-carrying CALLs cost >= 5e5 gas here (chain fee), so programs with value transfers are swept at instruction boundaries + samples, not at every gas value",
			"boundary family: the jump table is read through reflection on unexported fields (Interpreter.cfg.JumpTable[i].valid/validateStack/memorySize, Stack.data); a rename there is reported as harness trouble, not as a violation. Operand triples are not enumerated (pairs + two settings of the remaining operands). The executions of one program share one StateDB and one EVM (snapshot before, revert after a successful call; Reset before each call, as the block processor does per transaction)",
		},
		QuickRuns: 3000, QuickBudget: 55 * time.Second,
		ThoroughRuns: 40000, ThoroughBudget: 18 * time.Minute,
		Run: run,
	})
}

type runner struct {
	c     *kernel.Ctx
	w     *world
	g     *gen
	pre   *obs
	pre0  common.Hash
	execs int
	fails int
	oks   int
	// template parameters
	tmpl     bool
	kind     int
	spec     childSpec
	topValue *big.Int
	callVal  uint64
	sample   map[string]interface{}
	cap      int
	// interpreter steps this run may still spend (keeps runs short and many)
	budget int
}

func run(c *kernel.Ctx) {
	cfg := c.Tape.Fork("cfg")
	prog := c.Tape.Fork("prog")
	swp := c.Tape.Fork("sweep")

	ws := &worldSpec{slots: cfg.Range(4, 7)}
	seen := map[common.Address]bool{common.EmptyAddress: true}
	for i := 1; i <= 9; i++ {
		seen[common.BytesToAddress([]byte{byte(i)})] = true
	}
	for r := 0; r < nRoles; r++ {
		b := cfg.Bytes(20)
		for {
			a := common.BytesToAddress(b)
			if !seen[a] {
				seen[a] = true
				ws.role[r] = a
				break
			}
			b[19]++
			b[0] |= 0x40
		}
	}
	g := &gen{t: prog, slots: ws.slots, hugePM: []int{0, 30, 150}[cfg.Pick(2, 5, 2)]}
	for r := 0; r < nRoles; r++ {
		g.addrs = append(g.addrs, ws.role[r])
	}
	for i := 1; i <= 5; i++ {
		g.addrs = append(g.addrs, common.BytesToAddress([]byte{byte(i)}))
	}

	// balances
	ws.acct[roleOrigin] = acctSpec{exists: true, balance: 1_000_000, tokens: map[int]int64{roleToken: 500, roleChild: 40}, nonce: uint64(cfg.Int(3))}
	ws.acct[roleBenef] = acctSpec{exists: true, balance: int64(cfg.Int(3))}
	for _, r := range []int{roleParent, roleChild, roleGrand} {
		a := acctSpec{exists: true, nonce: 1, balance: int64(cfg.Pick(1, 3) * cfg.Range(1, 1000)), tokens: map[int]int64{}, storage: map[int]int64{}}
		if cfg.Bool(2, 3) {
			a.tokens[roleToken] = int64(cfg.Range(1, 50))
		}
		if cfg.Bool(1, 2) {
			a.tokens[roleChild] = int64(cfg.Range(1, 50))
		}
		for k := 2; k < ws.slots; k++ {
			if cfg.Bool(1, 3) {
				a.storage[k] = int64(cfg.Range(1, 99))
			}
		}
		ws.acct[r] = a
	}

	r := &runner{c: c, g: g, cap: 1_500_000, budget: 4_000_000}
	maxLimits := 160
	if c.Tier == kernel.Thorough {
		r.budget, maxLimits = 30_000_000, 700
	}
	// the directed operand-boundary family has its own stream, so that the
	// random scenarios of all other seeds are what they were without it
	if c.Tape.Fork("bnd").Bool(1, 25) {
		r.runBoundary(ws, cfg)
		return
	}
	scenario := cfg.Pick(40, 33, 10, 5, 12)
	if c.Tier == kernel.Quick && scenario == 3 && !cfg.Bool(1, 3) {
		scenario = 1
	}
	rq := request{entry: cfg.Pick(5, 4, 0), to: roleParent, token: common.EmptyAddress, value: new(big.Int)}
	if cfg.Bool(1, 4) {
		rq.token = ws.role[roleToken]
	}
	if cfg.Bool(1, 2) {
		rq.value = big.NewInt(int64(cfg.Range(1, 20)))
	}
	if cfg.Bool(1, 25) {
		rq.value = big.NewInt(2_000_000) // more than the origin owns
	}
	G0 := uint64(3_000_000)
	sc := "soup"

	switch scenario {
	case 4: // several creates with different jump-carrying init codes in one call tree
		r.runMulti(ws, prog, swp)
		return
	case 0: // template
		sc = "template"
		r.tmpl = true
		r.kind = cfg.Pick(5, 2, 2, 2, 3, 2)
		sp := childSpec{sstores: cfg.Int(4), log: cfg.Bool(1, 2), sendTo: -1, fail: cfg.Pick(4, 3, 5, 2, 2, 2)}
		if (r.kind == kindCreate || r.kind == kindCreate2) && cfg.Bool(2, 5) {
			// the init code performs its effects and then RETURNs N bytes of
			// runtime code, N around the code size limit: a create that is
			// refused for its returned code is a failed frame like any other
			ms := config.MaxCodeSize
			sp.retSize = []int{ms - 1, ms, ms + 1, ms + 2, ms + 5000, 2 * ms, 65535}[cfg.Int(7)]
			sp.fail = failReturns
			if !cfg.Bool(1, 4) {
				r.kind = kindCreate2 // CREATE forwards all gas: its failure takes the parent along
			}
			G0 = 9_000_000 // storing MaxCodeSize bytes costs 200 gas per byte
		}
		if cfg.Bool(1, 3) {
			sp.sendTo = []int{roleEmpty, roleBenef, roleGrand}[cfg.Int(3)]
		}
		if cfg.Bool(1, 3) {
			sp.token = true
			if cfg.Bool(1, 2) {
				t := ws.role[roleToken]
				sp.tokenAdr = &t
			}
		}
		sp.issue = cfg.Bool(1, 4)
		sp.create = cfg.Bool(1, 4)
		sp.suicideG = cfg.Bool(1, 4)
		r.spec = sp
		r.callVal = uint64(cfg.Pick(2, 3) * cfg.Range(1, 9))
		if r.kind == kindDelegate || r.kind == kindStatic {
			r.callVal = 0
		}
		childCode := g.child(sp, ws)
		ws.acct[roleChild].code = childCode
		ws.acct[roleGrand].code = g.grandchild(ws)
		ws.acct[roleParent].code, _ = g.parent(r.kind, r.callVal, childCode, ws)
		ws.acct[roleParent].storage[resultSlot] = 7
		delete(ws.acct[roleParent].storage, markerSlot)
		delete(ws.acct[roleParent].storage, ws.slots-1)
		if ws.acct[roleParent].balance < 20 {
			ws.acct[roleParent].balance += 50
		}
		// addresses that may come into existence
		pn := ws.acct[roleParent].nonce
		ws.extra = append(ws.extra,
			crypto.CreateAddress(ws.role[roleParent], pn, childCode),
			crypto.CreateAddress2(ws.role[roleParent], common.BigToHash(big.NewInt(0x5a17)), crypto.Keccak256(childCode)),
			crypto.CreateAddress(ws.role[roleChild], ws.acct[roleChild].nonce, []byte{0x60, 0x01, 0x60, 0x00, 0x55, 0x00}),
			crypto.CreateAddress(ws.role[roleParent], pn, []byte{0x60, 0x01, 0x60, 0x00, 0x55, 0x00}),
		)
		childGas := int64([]int{0, 60_000, 700_000, 1_400_000}[cfg.Pick(1, 3, 4, 3)])
		if sp.fail == failOOG && childGas > 60_000 && !cfg.Bool(1, 6) {
			childGas = 60_000 // the loop burns all of it, step by step
		}
		rq.input = common.BigToHash(big.NewInt(childGas)).Bytes()
		if rq.value.Cmp(big.NewInt(1000)) > 0 {
			rq.value = big.NewInt(3)
		}
		r.topValue = rq.value
	case 1, 2: // soup / raw
		for i, ro := range []int{roleParent, roleChild, roleGrand} {
			if scenario == 2 && (i == 0 || prog.Bool(1, 2)) {
				sc = "raw"
				ws.acct[ro].code = prog.Bytes(prog.Range(1, 256))
			} else {
				n := []int{prog.Range(2, 9), prog.Range(10, 30), prog.Range(30, 60)}[prog.Pick(3, 4, 2)]
				ws.acct[ro].code = g.soup(n, prog.Bool(1, 3))
			}
		}
		rq.input = prog.Bytes(prog.Pick(2, 1, 2, 2) * prog.Range(1, 36))
		if prog.Bool(1, 5) {
			rq.input = append(common.BigToHash(big.NewInt(int64(prog.Int(60000)))).Bytes(), rq.input...)
		}
		if cfg.Bool(1, 4) {
			rq.entry = entryCreate
			rq.code = ws.acct[roleParent].code
			rq.token = common.EmptyAddress
			ws.extra = append(ws.extra, crypto.CreateAddress(ws.role[roleOrigin], ws.acct[roleOrigin].nonce, rq.code))
		}
		G0 = uint64([]int{150_000, 700_000, 2_500_000}[cfg.Pick(4, 3, 1)])
	default: // depth limit through self-creating init code
		sc = "depth"
		rq.entry = entryCreate
		rq.code = deepCreate()
		rq.token = common.EmptyAddress
		rq.value = new(big.Int)
		G0 = 40_000_000
		if cfg.Bool(1, 2) {
			G0 = uint64(cfg.Range(1, 39)) * 1_000_000 // not enough to reach the limit
		}
		r.cap = 200000
	}

	w, err := ws.build()
	if err != nil {
		c.HarnessTrouble("building the pre-state failed: %v", err)
		return
	}
	r.w = w
	r.pre, r.pre0, err = w.untouched()
	if err != nil {
		c.HarnessTrouble("opening the pre-state failed: %v", err)
		return
	}
	r.sample = map[string]interface{}{
		"scenario": sc, "entry": entryNames[rq.entry], "value": rq.value.String(), "token": rq.token != common.EmptyAddress,
		"input": fmt.Sprintf("%x", rq.input), "gas0": G0,
	}
	if r.tmpl {
		r.sample["kind"] = kindNames[r.kind]
		r.sample["child"] = fmt.Sprintf("%+v", struct {
			SStores, ReturnsCodeBytes           int
			Log, Token, Issue, Create, SuicideG bool
			SendTo                              int
			Fail                                string
			CallValue                           uint64
		}{r.spec.sstores, r.spec.retSize, r.spec.log, r.spec.token, r.spec.issue, r.spec.create, r.spec.suicideG, r.spec.sendTo, failNames[r.spec.fail], r.callVal})
	}
	for _, ro := range []int{roleParent, roleChild, roleGrand} {
		code := ws.acct[ro].code
		if len(code) > 96 {
			r.sample[roleNames[ro]+"_code"] = fmt.Sprintf("%x...(%dB)", code[:96], len(code))
		} else {
			r.sample[roleNames[ro]+"_code"] = fmt.Sprintf("%x", code)
		}
		c.Finger(code)
	}
	if rq.entry == entryCreate {
		r.sample["init_code"] = fmt.Sprintf("%x", rq.code)
	}
	c.Finger(sc, rq.entry, rq.value, rq.token, rq.input, G0)
	defer func() {
		r.sample["executions"] = r.execs
		c.Sample(r.sample)
		if r.fails > 0 && r.oks > 0 {
			c.NonTrivial()
		}
	}()

	// 1. unconstrained execution
	rq.gas = G0
	first := r.pair(rq)
	if first == nil {
		return
	}
	r.sample["first"] = fmt.Sprintf("%s gasUsed=%d steps=%d maxDepth=%d", first.class, G0-first.gasLeft, first.tr.steps, first.tr.maxDepth)
	if first.tr.maxDepth >= 1025 {
		c.Probe("depth-limit-reached")
	}
	if sc == "depth" {
		// a few more limits around the point where the recursion stops
		for i := 0; i < 3; i++ {
			rq.gas = uint64(swp.Range(1, int(G0)))
			if r.pair(rq) == nil {
				return
			}
		}
		return
	}

	// 2. sweep of the gas limit
	used := G0 - first.gasLeft
	limits := map[uint64]bool{}
	full := uint64(3000)
	if c.Tier == kernel.Thorough {
		full = 8000
	}
	if first.class != "ok" && first.class != "revert" {
		used = G0
	}
	if used <= full {
		for l := uint64(0); l <= used+1; l++ {
			limits[l] = true
		}
		c.Probe("sweep-every-gas-value")
	} else {
		for _, m := range first.tr.marks {
			if m > 0 {
				limits[m-1] = true
			}
			limits[m] = true
		}
		for _, l := range []uint64{0, 1, used - 1, used, used + 1} {
			limits[l] = true
		}
		n := 48
		if c.Tier == kernel.Thorough {
			n = 160
		}
		for i := 0; i < n; i++ {
			limits[uint64(swp.Int(int(used)+2))] = true
		}
		c.Probe("sweep-instruction-boundaries")
	}
	ls := make([]uint64, 0, len(limits))
	for l := range limits {
		if l <= G0 {
			ls = append(ls, l)
		}
	}
	sort.Slice(ls, func(i, j int) bool { return ls[i] < ls[j] })
	if used > full && len(ls) > maxLimits {
		swp.Shuffle(len(ls), func(i, j int) { ls[i], ls[j] = ls[j], ls[i] })
		ls = ls[:maxLimits]
		sort.Slice(ls, func(i, j int) bool { return ls[i] < ls[j] })
	}
	for _, l := range ls {
		if r.budget <= 0 {
			c.Probe("step-budget-exhausted")
			break
		}
		rq.gas = l
		if r.pair(rq) == nil {
			return
		}
	}

	// 3. templates: sweep the child's gas over every instruction boundary of the child
	if r.tmpl && r.kind <= kindStatic && first.tr.childSeen {
		stip := uint64(0)
		if r.callVal > 0 {
			stip = 2300
		}
		vals := map[uint64]bool{0: true, 1: true}
		for _, m := range first.tr.childMarks {
			for _, v := range []uint64{m - 1, m} {
				if v >= stip {
					vals[v-stip] = true
				} else {
					vals[0] = true
				}
			}
		}
		vs := make([]uint64, 0, len(vals))
		for v := range vals {
			vs = append(vs, v)
		}
		sort.Slice(vs, func(i, j int) bool { return vs[i] < vs[j] })
		rq.gas = G0
		for _, v := range vs {
			if r.budget <= 0 {
				c.Probe("step-budget-exhausted")
				break
			}
			rq.input = common.BigToHash(new(big.Int).SetUint64(v)).Bytes()
			if r.pair(rq) == nil {
				return
			}
		}
		c.Probe("sweep-child-gas-boundaries")
	}
}

// pair executes rq twice from the committed pre-state (traced, then as in
// production), applies every oracle and returns the traced result; nil = stop.
func (r *runner) pair(rq request) *result {
	c := r.c
	a := r.w.execute(rq, true, r.cap)
	r.execs++
	if a.tr != nil {
		r.budget -= 2*a.tr.steps + 200
	}
	c.Event(1)
	if stop := r.judge(rq, a); stop {
		return nil
	}
	if a.panicked {
		return a // known panic: nothing more to compare
	}
	if a.tr.cancelled {
		c.Probe("execution-cancelled-by-step-cap")
		return a
	}
	b := r.w.execute(rq, false, 0)
	r.execs++
	c.Evals(1)
	if b.panicked {
		if c.Violate("panic", "panic/"+b.site, "%s panicked at %s: %s (untraced execution; the traced one did not)", r.describe(rq), b.site, b.msg) {
			return nil
		}
		return a
	}
	if sa, sb := a.sig(), b.sig(); sa != sb {
		if c.Violate("nondeterminism", "nondeterminism/"+a.class+"-vs-"+b.class, "%s: two executions from the same committed state differ:\n  traced:   %s\n  untraced: %s", r.describe(rq), sa, sb) {
			return nil
		}
	}
	c.Finger(rq.gas, rq.input, a.class, a.gasLeft, a.root)
	return a
}

func (r *runner) describe(rq request) string {
	return fmt.Sprintf("%s(gas=%d value=%s input=%x)", entryNames[rq.entry], rq.gas, rq.value, rq.input)
}

// judge applies the single-execution oracles; true = stop the run.
func (r *runner) judge(rq request, x *result) bool {
	c := r.c
	d := r.describe(rq)
	if x.panicked {
		if x.site == "harness" {
			c.HarnessTrouble("%s", x.msg)
			return true
		}
		return c.Violate("panic", "panic/"+x.site, "%s panicked at %s: %s", d, x.site, x.msg)
	}
	if x.tr.unmetered > 0 {
		c.Probe("steps-on-unpaid-gas")
		if c.Violate("unmetered", "unmetered/steps-with-more-gas-than-given", "%s: %d interpreter steps ran with more remaining gas than the whole call was given (first: %s); the work is not charged to anyone",
			d, x.tr.unmetered, x.tr.unmOp) {
			return true
		}
	}
	if x.tr.cancelled {
		return false
	}
	if x.tr.unpaid != "" {
		if c.Violate("metering", "metering/step-executed-without-enough-gas", "%s: %s", d, x.tr.unpaid) {
			return true
		}
	}
	if x.tr.gasGrew != "" {
		if c.Violate("metering", "metering/frame-gas-increased", "%s: %s", d, x.tr.gasGrew) {
			return true
		}
	}
	if x.gasLeft > rq.gas {
		if c.Violate("metering", "metering/gas-left-exceeds-gas-given/"+x.class, "%s returned gasLeft=%d", d, x.gasLeft) {
			return true
		}
	}
	// what the transaction layer hands back on top of gasLeft
	back := x.refund
	if x.err != nil {
		back = x.refundA
	}
	if x.gasLeft+back > rq.gas {
		if c.Violate("metering", "metering/gas-left-plus-fee-refund-exceeds-gas-given/"+x.class, "%s returned gasLeft=%d and a fee refund of %d (RefundFee=%d RefundAllFee=%d): the sender would be credited more gas than was bought",
			d, x.gasLeft, back, x.refund, x.refundA) {
			return true
		}
	}
	switch x.class {
	case "ok":
		r.oks++
	case "revert":
		r.fails++
		c.Fault("top-revert")
	case "insufficient-balance", "depth":
		r.fails++
		c.Fault("top-refused")
	default:
		r.fails++
		c.Fault("top-" + x.class)
		if x.gasLeft != 0 {
			if c.Violate("metering", "metering/error-keeps-gas/"+x.class, "%s failed with %q but returned gasLeft=%d", d, x.err, x.gasLeft) {
				return true
			}
		}
	}
	if x.err != nil {
		// a failed top-level frame leaves the world as it was
		if k, got, want := x.o.diff(r.pre); k != "" {
			if c.Violate("atomicity", "atomicity/top-level/"+x.class+"/"+fieldOf(k), "%s failed with %q but changed %s: %s (was %s)", d, x.err, k, got, want) {
				return true
			}
		} else if x.root != r.pre0 {
			if r.w.rootOnlyDiff(rq, x) == "zero-token-entry" {
				if c.Violate("atomicity", "atomicity/failed-frame-leaves-zero-token-entry", "%s failed with %q, every getter is as before but the state root changed %x -> %x: the only difference to the pre-state's account records are token entries with balance 0 that were not there before (a token credit to an account that did not hold that token, rolled back with the frame)", d, x.err, r.pre0, x.root) {
					return true
				}
			} else if c.Violate("atomicity", "atomicity/top-level/"+x.class+"/root", "%s failed with %q, every getter is as before but the state root changed %x -> %x", d, x.err, r.pre0, x.root) {
				return true
			}
		}
		if len(x.logs) != 0 {
			if c.Violate("atomicity", "atomicity/top-level/"+x.class+"/logs", "%s failed with %q but left %d logs", d, x.err, len(x.logs)) {
				return true
			}
		}
		return false
	}
	if r.tmpl {
		return r.judgeTemplate(rq, x, d)
	}
	return false
}

func fieldOf(k string) string {
	// "child.slot3" -> "child.storage"
	for i := len(k) - 1; i >= 0; i-- {
		if k[i] == '.' {
			f := k[i+1:]
			for len(f) > 0 && f[len(f)-1] >= '0' && f[len(f)-1] <= '9' {
				f = f[:len(f)-1]
			}
			if f == "slot" {
				f = "storage"
			}
			return k[:i] + "." + f
		}
	}
	return k
}

// judgeTemplate: the top-level call succeeded. If the parent recorded that the
// child frame failed, the world must be exactly: pre-state + the parent's own
// writes + the value the parent received; the value offered to the child is
// still the parent's; (CREATE kinds) the parent's nonce is one higher.
func (r *runner) judgeTemplate(rq request, x *result, d string) bool {
	c := r.c
	pn := "parent"
	if got := x.o.vals[pn+".slot0"]; got != fmt.Sprint(markerVal) {
		return c.Violate("atomicity", "atomicity/"+kindNames[r.kind]+"/parent-marker-lost", "%s succeeded but the parent's own write before the call is %s, want %d", d, got, markerVal)
	}
	flag := x.o.vals[pn+".slot1"]
	what := kindNames[r.kind] + "/" + failNames[r.spec.fail]
	switch flag {
	case "1":
		c.Probe("child-frame-succeeded")
		if x.otxs > 0 {
			c.Probe("balance-records-present")
		}
		return false
	case "0":
	default:
		return c.Violate("atomicity", "atomicity/"+kindNames[r.kind]+"/result-flag", "%s: the parent stored %s as the call's success flag", d, flag)
	}
	c.Fault("child-frame-failed-" + failNames[r.spec.fail])
	c.Fault("child-frame-failed-in-" + kindNames[r.kind])
	exp := r.pre.clone()
	exp.set(pn+".slot0", fmt.Sprint(markerVal))
	exp.set(pn+".slot1", "0")
	exp.set(fmt.Sprintf("%s.slot%d", pn, r.w.spec.slots-1), fmt.Sprint(marker2Val))
	if rq.value.Sign() > 0 {
		field := ".balance"
		if rq.token != common.EmptyAddress {
			field = ".token0"
		}
		add := func(k string, dv *big.Int) {
			v, _ := new(big.Int).SetString(exp.vals[k], 10)
			exp.set(k, v.Add(v, dv).String())
		}
		add(pn+field, rq.value)
		if rq.entry == entryCall {
			add("origin"+field, new(big.Int).Neg(rq.value))
		}
	}
	if r.kind == kindCreate || r.kind == kindCreate2 {
		n, _ := new(big.Int).SetString(exp.vals[pn+".nonce"], 10)
		exp.set(pn+".nonce", n.Add(n, big.NewInt(1)).String())
	}
	exp.set("refund-counter", x.o.vals["refund-counter"]) // gas bookkeeping, not world state
	if k, got, want := x.o.diff(exp); k != "" {
		return c.Violate("atomicity", "atomicity/"+what+"/"+fieldOf(k), "%s: the %s child frame failed (parent saw 0) but %s = %s, expected %s (pre-state + the parent's own effects)", d, what, k, got, want)
	}
	// only the parent's log may exist
	if len(x.logs) != 1 || x.logs[0].Address != r.w.spec.role[roleParent] {
		return c.Violate("atomicity", "atomicity/"+what+"/logs", "%s: the %s child frame failed but %d logs exist (want exactly the parent's one)", d, what, len(x.logs))
	}
	if x.otxs > 1 {
		// the top-level transfer accounts for one record; anything beyond it was
		// appended by the failed frame (only opCall trims evm.otxs)
		c.Probe("balance-records-kept-from-failed-" + kindNames[r.kind])
	}
	return false
}
