package evmrig

import (
	"fmt"
	"math/big"
	"sort"

	"github.com/lianxiangcloud/linkchain/libs/common"
	"github.com/lianxiangcloud/linkchain/vm/evm"

	"verif/sim/kernel"
)

// The multi-create scenario: one call tree creates 2-3 contracts from DIFFERENT
// init codes of different lengths, each of which jumps (to a JUMPDEST at a pc
// drawn from a small pool, so that pcs collide between codes while their
// validity differs: real JUMPDEST, 0x5b inside PUSH data, other opcode), and
// each of which may deploy a runtime code that jumps as well (often at the
// same pc as its init code, with the other validity) and is then called.
//
// Oracle (besides all single-execution ones): what happens to a code must not
// depend on which other codes ran earlier in the same call tree. The outcome
// flags of child j (create succeeded / call succeeded / frame died) in the
// tree that creates all children, in either order, must equal the flags of the
// tree that creates child j alone.

var jumpPCs = []int{4, 5, 7, 9, 12, 17, 24, 33, 41, 60, 90, 130, 200}

const (
	jumpValidPlain = iota // JUMPDEST at p, filler = JUMPDEST opcodes
	jumpValidData         // JUMPDEST at p, filler = PUSH data (0x5b bytes) ending right before p
	jumpIntoData          // 0x5b at p is the data byte of a PUSH1: invalid
	jumpNoDest            // p holds another opcode: invalid
	nJumpModes
)

var jumpModeNames = []string{"valid", "valid-after-pushdata", "into-pushdata", "no-jumpdest"}

// jumpy: PUSH2 p; JUMP; filler up to p; the target byte; body.
func jumpy(p, mode int, body []byte) []byte {
	a := &asm{}
	a.push2(p).op(evm.JUMP) // 4 bytes
	n := p - 4
	if n == 0 && mode == jumpIntoData {
		mode = jumpValidPlain
	}
	fill := make([]byte, 0, n)
	switch mode {
	case jumpValidData:
		for rem := n; rem > 0; {
			if rem == 1 {
				fill = append(fill, 0x5b)
				break
			}
			k := rem - 1
			if k > 32 {
				k = 32
			}
			fill = append(fill, byte(evm.PUSH1)+byte(k-1))
			for i := 0; i < k; i++ {
				fill = append(fill, 0x5b)
			}
			rem -= k + 1
		}
	case jumpIntoData:
		for i := 0; i < n-1; i++ {
			fill = append(fill, 0x5b)
		}
		fill = append(fill, byte(evm.PUSH1))
	default:
		for i := 0; i < n; i++ {
			fill = append(fill, 0x5b)
		}
	}
	a.raw(fill...)
	if mode == jumpNoDest {
		a.raw(byte(evm.ADDRESS))
	} else {
		a.raw(0x5b)
	}
	a.raw(body...)
	return a.b
}

type jumpChild struct {
	init    []byte
	create2 bool
	desc    string
}

func (g *gen) jumpChild(t *kernel.Tape) jumpChild {
	p := jumpPCs[t.Int(len(jumpPCs))]
	mode := t.Pick(5, 4, 3, 1)
	mark := (&asm{}).pushU(1).pushU(0).op(evm.SSTORE).b // 5 bytes
	ch := jumpChild{create2: t.Bool(3, 10)}
	if t.Bool(1, 2) {
		ch.init = jumpy(p, mode, append(mark, byte(evm.STOP)))
		ch.desc = fmt.Sprintf("init(jump %d %s, %dB)", p, jumpModeNames[mode], len(ch.init))
		return ch
	}
	// deploy a runtime code that jumps too: mostly at the same pc, other validity
	rp, rmode := p, t.Pick(4, 4, 3, 1)
	if t.Bool(1, 3) {
		rp = jumpPCs[t.Int(len(jumpPCs))]
	}
	runtime := jumpy(rp, rmode, (&asm{}).pushU(1).pushU(1).op(evm.SSTORE, evm.STOP).b)
	roff := p + 1 + len(mark) + 15
	body := &asm{}
	body.raw(mark...)
	body.push2(len(runtime)).push2(roff).pushU(0).op(evm.CODECOPY)
	body.push2(len(runtime)).pushU(0).op(evm.RETURN)
	body.raw(runtime...)
	ch.init = jumpy(p, mode, body.b)
	ch.desc = fmt.Sprintf("init(jump %d %s, %dB) deploying runtime(jump %d %s, %dB)", p, jumpModeNames[mode], len(ch.init), rp, jumpModeNames[rmode], len(runtime))
	return ch
}

const multiGasPer = 600_000

func createSlot(j int) int { return 2 + 2*j }
func callSlot(j int) int   { return 3 + 2*j }

// multiParent: called without input it calls itself once per child of order
// (word 0 of the input = child index, fixed gas), and the self-call creates
// that child, stores whether the create returned an address, calls the new
// address and stores the call's success flag.
func multiParent(children []jumpChild, order []int) []byte {
	a := &asm{}
	fix := map[string]int{}
	ref := func(name string) {
		a.b = append(a.b, byte(evm.PUSH2), 0, 0)
		fix[name] = len(a.b) - 2
	}
	at := map[string]int{}
	a.op(evm.CALLDATASIZE, evm.ISZERO)
	ref("main")
	a.op(evm.JUMPI)
	a.pushU(0).op(evm.CALLDATALOAD)
	for j := range children {
		a.op(evm.DUP1).pushU(uint64(j)).op(evm.EQ)
		ref(fmt.Sprintf("sec%d", j))
		a.op(evm.JUMPI)
	}
	a.op(evm.STOP)
	lenFix := map[int]int{}
	for j, ch := range children {
		at[fmt.Sprintf("sec%d", j)] = a.jumpdest()
		a.op(evm.POP)
		a.push2(len(ch.init))
		a.b = append(a.b, byte(evm.PUSH2), 0, 0)
		lenFix[j] = len(a.b) - 2
		a.pushU(0).op(evm.CODECOPY)
		if ch.create2 {
			a.pushU(uint64(j + 1))
		}
		a.push2(len(ch.init)).pushU(0).pushU(0)
		if ch.create2 {
			a.op(evm.CREATE2)
		} else {
			a.op(evm.CREATE)
		}
		a.op(evm.DUP1, evm.ISZERO, evm.ISZERO).pushU(uint64(createSlot(j))).op(evm.SSTORE)
		a.pushU(0).pushU(0).pushU(0).pushU(0).pushU(0).op(evm.DUP6).pushU(100_000).op(evm.CALL)
		a.pushU(uint64(callSlot(j))).op(evm.SSTORE)
		a.op(evm.POP, evm.STOP)
	}
	at["main"] = a.jumpdest()
	for _, j := range order {
		a.pushU(uint64(j)).pushU(0).op(evm.MSTORE)
		a.pushU(0).pushU(0).pushU(32).pushU(0).pushU(0).op(evm.ADDRESS).pushU(multiGasPer).op(evm.CALL, evm.POP)
	}
	a.op(evm.STOP)
	for name, pos := range fix {
		d := at[name]
		a.b[pos], a.b[pos+1] = byte(d>>8), byte(d)
	}
	for j, ch := range children {
		off := len(a.b)
		a.b[lenFix[j]], a.b[lenFix[j]+1] = byte(off>>8), byte(off)
		a.raw(ch.init...)
	}
	return a.b
}

// runMulti executes the scenario; ws is the base pre-state (parent code and
// flag slots are set per variant).
func (r *runner) runMulti(ws *worldSpec, prog, swp *kernel.Tape) {
	c := r.c
	k := prog.Range(2, 3)
	children := make([]jumpChild, k)
	descs := make([]string, k)
	for j := range children {
		children[j] = r.g.jumpChild(prog)
		descs[j] = children[j].desc
		if children[j].create2 {
			descs[j] += " via CREATE2"
		}
		c.Finger(children[j].init, children[j].create2)
	}
	ws.slots = 2 + 2*k
	fwd := make([]int, k)
	rev := make([]int, k)
	for j := 0; j < k; j++ {
		fwd[j], rev[k-1-j] = j, j
	}
	type variant struct {
		name  string
		order []int
	}
	vs := []variant{{"all", fwd}, {"all-reversed", rev}}
	for j := 0; j < k; j++ {
		vs = append(vs, variant{fmt.Sprintf("only-%d", j), []int{j}})
	}
	r.sample = map[string]interface{}{"scenario": "multi-create", "children": descs}
	defer func() {
		r.sample["executions"] = r.execs
		c.Sample(r.sample)
		if r.fails > 0 && r.oks > 0 {
			c.NonTrivial()
		}
	}()

	const G0 = 3_000_000
	flags := map[string][]string{} // variant -> per child "create/call"
	var firstAll *result
	var worldAll *world
	for _, v := range vs {
		spec := *ws
		pa := ws.acct[roleParent]
		pa.code = multiParent(children, v.order)
		pa.storage = map[int]int64{}
		for j := 0; j < k; j++ {
			pa.storage[createSlot(j)], pa.storage[callSlot(j)] = 7, 7
		}
		spec.acct[roleParent] = pa
		w, err := spec.build()
		if err != nil {
			c.HarnessTrouble("building the pre-state failed: %v", err)
			return
		}
		r.w = w
		if r.pre, r.pre0, err = w.untouched(); err != nil {
			c.HarnessTrouble("opening the pre-state failed: %v", err)
			return
		}
		rq := request{entry: entryCall, to: roleParent, token: common.EmptyAddress, value: new(big.Int), gas: G0}
		x := r.pair(rq)
		if x == nil {
			return
		}
		if x.panicked || x.tr.cancelled || x.err != nil {
			continue // judged already (a top-level failure cannot be compared flag by flag)
		}
		fl := make([]string, k)
		for j := 0; j < k; j++ {
			fl[j] = x.o.vals[fmt.Sprintf("parent.slot%d", createSlot(j))] + "/" + x.o.vals[fmt.Sprintf("parent.slot%d", callSlot(j))]
		}
		flags[v.name] = fl
		if v.name == "all" {
			firstAll, worldAll = x, w
		}
	}
	r.sample["flags(create/call; 7 = the creating frame died)"] = flags
	for j := 0; j < k; j++ {
		solo, ok := flags[fmt.Sprintf("only-%d", j)]
		if !ok {
			continue
		}
		switch solo[j] {
		case "1/1":
			c.Probe("multi-create-child-ok")
		case "7/7":
			c.Fault("multi-create-child-frame-died")
		default:
			c.Probe("multi-create-child-other")
		}
		for _, vn := range []string{"all", "all-reversed"} {
			fl, ok := flags[vn]
			if !ok || fl[j] == solo[j] {
				continue
			}
			c.Evals(1)
			if c.Violate("nondeterminism", "context-dependence/create-outcome-depends-on-earlier-creates",
				"child %d (%s): created alone its flags (create/call) are %s, but in the call tree %q that also creates %v they are %s: the outcome of a code depends on which other codes ran earlier in the same call tree",
				j, descs[j], solo[j], vn, descs, fl[j]) {
				return
			}
		}
	}
	// out-of-gas at the instruction boundaries of the tree that creates everything
	if firstAll == nil {
		return
	}
	r.w = worldAll
	var err error
	if r.pre, r.pre0, err = worldAll.untouched(); err != nil {
		return
	}
	limits := map[uint64]bool{}
	for _, m := range firstAll.tr.marks {
		limits[m] = true
		if m > 0 {
			limits[m-1] = true
		}
	}
	for i := 0; i < 12; i++ {
		limits[uint64(swp.Int(G0))] = true
	}
	ls := make([]uint64, 0, len(limits))
	for l := range limits {
		ls = append(ls, l)
	}
	sort.Slice(ls, func(i, j int) bool { return ls[i] < ls[j] })
	if len(ls) > 60 {
		swp.Shuffle(len(ls), func(i, j int) { ls[i], ls[j] = ls[j], ls[i] })
		ls = ls[:60]
		sort.Slice(ls, func(i, j int) bool { return ls[i] < ls[j] })
	}
	for _, l := range ls {
		if r.budget <= 0 {
			break
		}
		if r.pair(request{entry: entryCall, to: roleParent, token: common.EmptyAddress, value: new(big.Int), gas: l}) == nil {
			return
		}
	}
	c.Probe("multi-create-swept")
}
