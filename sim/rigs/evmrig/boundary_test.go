package evmrig

// Prints what the boundary family reads from the jump table and how many items
// it enumerates:
//   cd /verif/sim && VERIF_REPRO=1 go1.26.8 test -vet=off -tags verif -overlay /verif/build/overlay.json ./rigs/evmrig/ -run BoundaryTable -v

import (
	"os"
	"testing"

	"verif/sim/kernel"
)

func TestBoundaryTable(t *testing.T) {
	if os.Getenv("VERIF_REPRO") == "" {
		t.Skip("set VERIF_REPRO=1")
	}
	ops, e := walkTable()
	if e != "" {
		t.Fatal(e)
	}
	for _, o := range ops {
		t.Logf("0x%02x %-16s need=%d top=%d mem=%v rd=%v", byte(o.op), o.name, o.need, o.top, o.mem, o.rd)
	}
	var seeds []uint64
	for s := uint64(1); len(seeds) < 8; s++ {
		if kernel.NewTape(s).Fork("bnd").Bool(1, 25) {
			seeds = append(seeds, s)
		}
	}
	t.Logf("run seeds that take the boundary scenario (./check C20 --one with VERIF_SEED=<seed>): %v", seeds)
	// base seeds whose first 8 runs (what ./check C20 --det executes) include a boundary run
	var bases []uint64
	for base := uint64(1); len(bases) < 4; base++ {
		for k := 0; k < 8; k++ {
			if kernel.NewTape(kernel.RunSeed(base, k)).Fork("bnd").Bool(1, 25) {
				bases = append(bases, base)
				break
			}
		}
	}
	t.Logf("base seeds for VERIF_SEED=<base> ./check C20 --det with a boundary run among the 8: %v", bases)
	for _, tier := range []kernel.Tier{kernel.Quick, kernel.Thorough} {
		b := &bndRun{r: &runner{c: &kernel.Ctx{Tier: tier}}}
		every, sliced := 0, 0
		b.family(ops, func(s bool, it *bndItem) bool {
			if s {
				sliced++
			} else {
				every++
			}
			return true
		})
		t.Logf("%s: %d opcodes, %d items executed by every run, %d items divided among the slices", tier, len(ops), every, sliced)
	}
}
