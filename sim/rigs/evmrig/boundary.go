package evmrig

// The directed operand-boundary family (scenario "boundary").
//
// The random scenarios never execute SWAP16 on exactly 16 items or a
// RETURNDATACOPY whose source range ends at 2^64. This file adds a systematic
// part next to them: the opcode list is not written down here but read from
// the jump table of the interpreter that evm.NewEVM builds for the
// application's evm.Config{} (reflection over Interpreter.cfg.JumpTable:
// valid, validateStack, memorySize), and for EVERY valid entry small programs
// are generated that execute the opcode
//
//   (a) at the stack depths need-1, need, need+1 (need = the smallest depth the
//       entry's own validateStack accepts) and top-1, top, top+1 (top = the
//       largest depth it accepts, i.e. the 1024 limit for non-pushing and
//       limit-1 for pushing opcodes), plus as the very last byte of the code
//       (truncated immediates);
//   (b) with every operand position drawn from the boundary catalogue while the
//       other operands are 0 - and, for opcodes that take <= 7 operands, with
//       every PAIR of operand positions drawn from catalogue x catalogue, which
//       contains every (offset, length) pair of the copy family including pairs
//       whose sum wraps 2^64 or 2^256 and pairs that straddle the length of the
//       data actually present (call data 33 bytes, code 512 bytes, helper code
//       33 bytes, return data 0/1/32/33 bytes) by -1/0/+1. Opcodes with a
//       memorySize function use the extended catalogue and are swept a second
//       time with the other operands = 33 (the helper contract lives at address
//       33, so that EXTCODECOPY and the CALL family then name a real contract);
//       RETURNDATA* opcodes are swept after a call that returned 0, 1, 32 and
//       33 bytes.
//
// Every program runs under ample gas and, when that execution did not burn
// everything, under gas-1 and one more limit below what it used (out of gas
// inside the opcode under test). Family (a) is executed completely by every
// boundary run (so every boundary run executes every opcode of the table);
// family (b) is enumerated in a fixed order and a run executes the items whose
// index is congruent to its tape-chosen slice.
//
// Oracles on every execution (cheap form, no tracer): no panic
// (crash/<opcode>/<site>), gas left <= gas given, a failing frame other than
// REVERT keeps no gas, a failing top-level frame leaves the state root and the
// log list as they were. A tape-independent sample of the items additionally
// goes through the full traced/untraced pair with all single-execution oracles
// of the rig (metering of every step, memory charged before use, determinism,
// observable-by-observable atomicity).

import (
	"fmt"
	"hash/fnv"
	"math/big"
	"reflect"
	"sort"
	"strings"
	"sync"
	"unsafe"

	"github.com/lianxiangcloud/linkchain/config"
	"github.com/lianxiangcloud/linkchain/libs/common"
	"github.com/lianxiangcloud/linkchain/state"
	"github.com/lianxiangcloud/linkchain/types"
	"github.com/lianxiangcloud/linkchain/vm/evm"

	"verif/sim/kernel"
)

// ---------------------------------------------------------------- the jump table

type opInfo struct {
	op   evm.OpCode
	name string
	need int  // smallest stack depth the entry's validateStack accepts
	top  int  // largest stack depth it accepts
	mem  bool // the entry has a memorySize function
	rd   bool // reads the return data buffer (RETURNDATA*): swept after calls returning 0/1/32/33 bytes
}

var (
	tableOnce sync.Once
	tableOps  []opInfo
	tableErr  string
)

// stackOfLen builds an *evm.Stack holding n (nil) items; validateStack only
// looks at the length.
func stackOfLen(n int) *evm.Stack {
	st := &evm.Stack{}
	f := reflect.ValueOf(st).Elem().FieldByName("data")
	reflect.NewAt(f.Type(), unsafe.Pointer(f.UnsafeAddr())).Elem().Set(reflect.ValueOf(make([]*big.Int, n)))
	return st
}

// walkTable reads the instruction set the application's interpreter uses.
// It is a pure function of the code under test (cached per process).
func walkTable() ([]opInfo, string) {
	tableOnce.Do(func() {
		defer func() {
			if r := recover(); r != nil {
				tableErr = fmt.Sprintf("reading the jump table failed: %v", r)
			}
		}()
		header := &types.Header{Height: 100, Time: 1600000000, GasLimit: 1 << 40}
		vm := evm.NewEVM(evm.NewEVMContext(header, noChain{}, nil, config.EvmGasRate), nil, evm.Config{})
		in, ok := vm.Interpreter().(*evm.Interpreter)
		if !ok {
			tableErr = "EVM.Interpreter() is not *evm.Interpreter"
			return
		}
		jt := reflect.ValueOf(in).Elem().FieldByName("cfg").FieldByName("JumpTable")
		if !jt.IsValid() || jt.Kind() != reflect.Array {
			tableErr = "Interpreter.cfg.JumpTable not found"
			return
		}
		depths := make([]int, 0, 80)
		for n := 0; n <= 40; n++ {
			depths = append(depths, n)
		}
		for n := 1000; n <= 1040; n++ {
			depths = append(depths, n)
		}
		stacks := map[int]reflect.Value{}
		for _, n := range depths {
			stacks[n] = reflect.ValueOf(stackOfLen(n))
		}
		for i := 0; i < jt.Len(); i++ {
			e := jt.Index(i)
			if !e.FieldByName("valid").Bool() {
				continue
			}
			vs := e.FieldByName("validateStack")
			call := reflect.NewAt(vs.Type(), unsafe.Pointer(vs.UnsafeAddr())).Elem()
			oi := opInfo{op: evm.OpCode(i), name: evm.OpCode(i).String(), need: -1, top: -1, mem: !e.FieldByName("memorySize").IsNil()}
			oi.rd = strings.HasPrefix(oi.name, "RETURNDATA")
			for _, n := range depths {
				if call.Call([]reflect.Value{stacks[n]})[0].IsNil() {
					if oi.need < 0 {
						oi.need = n
					}
					oi.top = n
				}
			}
			if oi.need < 0 {
				tableErr = fmt.Sprintf("%s: validateStack accepts no depth", oi.name)
				return
			}
			tableOps = append(tableOps, oi)
		}
		if len(tableOps) < 100 {
			tableErr = fmt.Sprintf("only %d valid opcodes found in the jump table", len(tableOps))
		}
	})
	return tableOps, tableErr
}

// ---------------------------------------------------------------- catalogue

func p2(n uint, d int64) *big.Int {
	v := new(big.Int).Lsh(big.NewInt(1), n)
	return v.Add(v, big.NewInt(d))
}

const (
	bndCodeLen   = 512 // every boundary program is padded to this length
	bndInputLen  = 33
	bndHelperLen = 33
	bndHelperAdr = 33
	bndAmpleGas  = 3_000_000
)

var (
	catBase = []*big.Int{
		big.NewInt(0), big.NewInt(1), big.NewInt(31), big.NewInt(32), big.NewInt(33),
		p2(16, 0), p2(32, -1), p2(32, 0), p2(63, -1), p2(63, 0),
		p2(64, -33), p2(64, -32), p2(64, -1), p2(64, 0), p2(255, 0), p2(256, -1),
	}
	// data-length straddles that are not in the base catalogue
	catMem = append(append([]*big.Int{}, catBase...),
		big.NewInt(2), big.NewInt(34), big.NewInt(bndCodeLen-1), big.NewInt(bndCodeLen), big.NewInt(bndCodeLen+1))
	rdSizes = []int{0, 1, 32, 33}
)

// helperCode returns N zero bytes, N = word 0 of its input; 33 bytes long.
func helperCode() []byte {
	a := &asm{}
	a.pushU(0).op(evm.CALLDATALOAD).pushU(0).op(evm.RETURN)
	return common.RightPadBytes(a.b, bndHelperLen)
}

func bndInput() []byte {
	in := make([]byte, bndInputLen)
	for i := range in {
		in[i] = byte(0xa0 + i)
	}
	return in
}

// ---------------------------------------------------------------- items

type bndItem struct {
	op    *opInfo
	fam   string
	vals  []*big.Int // stack contents when the opcode executes, vals[0] = top
	fill  int        // extra zero items below vals (deep stacks)
	rd    int        // >= 0: first call the helper so that the return data buffer holds rd bytes
	trunc bool       // the opcode is the last byte of the code
}

func (it *bndItem) code() []byte {
	a := &asm{}
	if it.rd >= 0 {
		a.pushU(uint64(it.rd)).pushU(0).op(evm.MSTORE)
		a.pushU(0).pushU(0).pushU(32).pushU(0).pushU(0).pushU(bndHelperAdr).pushU(0xffff).op(evm.CALL, evm.POP)
	}
	for i := 0; i < it.fill; i++ {
		a.b = append(a.b, byte(evm.PUSH1), 0)
	}
	for i := len(it.vals) - 1; i >= 0; i-- {
		a.push(it.vals[i])
	}
	a.op(it.op.op)
	if it.trunc {
		return a.b
	}
	a.op(evm.STOP)
	if len(a.b) < bndCodeLen {
		a.b = common.RightPadBytes(a.b, bndCodeLen)
	}
	return a.b
}

func (it *bndItem) describe() string {
	var vs []string
	for _, v := range it.vals {
		vs = append(vs, "0x"+v.Text(16))
	}
	s := fmt.Sprintf("%s [%s] operands(top first)=%v", it.op.name, it.fam, vs)
	if it.fill > 0 {
		s += fmt.Sprintf(" over %d more stack items", it.fill)
	}
	if it.rd >= 0 {
		s += fmt.Sprintf(" after a call that returned %d bytes", it.rd)
	}
	if it.trunc {
		s += " as the last byte of the code"
	}
	return s
}

func zeros(n int) []*big.Int {
	out := make([]*big.Int, n)
	z := new(big.Int)
	for i := range out {
		out[i] = z
	}
	return out
}

// ---------------------------------------------------------------- lean execution

type leanResult struct {
	err      error
	class    string
	gasLeft  uint64
	pre      common.Hash
	post     common.Hash
	logs     int
	panicked bool
	site     string
	msg      string
}

// leanSession executes one program (the parent contract's code, set on a fresh
// StateDB opened on the committed pre-state) under several gas limits, the way
// execute does but without tracer and without the observation of every
// account: only what the cheap oracles need. The executions of one program
// share the StateDB: each starts from a snapshot taken after the code was set
// and the state finalised, and is reverted to it afterwards.
type leanSession struct {
	w      *world
	s      *state.StateDB
	pre    common.Hash
	parent common.Address
	input  []byte
	vm     *evm.EVM // one EVM per program, Reset before every call (as the block processor does per transaction)
	bad    *leanResult
}

func (w *world) leanSession(code, input []byte) *leanSession {
	ls := &leanSession{w: w, input: input, parent: w.spec.role[roleParent]}
	s, err := w.open()
	if err != nil {
		ls.bad = &leanResult{panicked: true, site: "harness", msg: "state.New: " + err.Error()}
		return ls
	}
	s.SetCode(ls.parent, code)
	ls.pre = s.IntermediateRoot(false)
	ls.s = s
	return ls
}

func (ls *leanSession) run(gas uint64) *leanResult {
	if ls.bad != nil {
		return ls.bad
	}
	w, s, parent, input := ls.w, ls.s, ls.parent, ls.input
	res := &leanResult{pre: ls.pre}
	s.Prepare(txHash, blockHash, 0)
	if ls.vm == nil {
		header := &types.Header{Height: 100, Time: 1600000000, Coinbase: w.spec.role[roleBenef], GasLimit: 1 << 40, ParentHash: blockHash}
		ls.vm = evm.NewEVM(evm.NewEVMContext(header, noChain{}, nil, config.EvmGasRate), s, evm.Config{})
	}
	vm := ls.vm
	origin := w.spec.role[roleOrigin]
	vm.Reset(types.NewMessage(origin, &parent, common.EmptyAddress, s.GetNonce(origin), new(big.Int), gas, gasPrice, input))
	vm.SetToken(common.EmptyAddress)
	res.site, res.msg, res.panicked = kernel.Try(func() {
		snap := s.Snapshot()
		_, res.gasLeft, _, res.err = vm.Call(evm.AccountRef(origin), parent, common.EmptyAddress, input, gas, new(big.Int))
		if res.err != nil {
			res.logs = len(s.GetLogs(txHash))
			res.post = s.IntermediateRoot(false)
		} else {
			s.RevertToSnapshot(snap)
		}
	})
	if !res.panicked {
		res.class = classify(res.err)
	}
	return res
}

// untouchedWith is untouched() for a pre-state whose parent carries code.
func (w *world) untouchedWith(code []byte) (*obs, common.Hash, error) {
	s, err := w.open()
	if err != nil {
		return nil, common.EmptyHash, err
	}
	s.SetCode(w.spec.role[roleParent], code)
	o := w.observe(s)
	o.set("refund-counter", "0")
	return o, s.IntermediateRoot(false), nil
}

// ---------------------------------------------------------------- the scenario

type bndRun struct {
	r       *runner
	K       int
	slice   int
	salt    uint64
	fullMod uint64
	idx     int // running index of sliced items
	items   int
	leans   int
	fulls   int
	classes map[string]int
	opsDone map[evm.OpCode]bool
	h       uint64
	input   []byte
	stop    bool
}

func mix(a, b uint64) uint64 {
	h := fnv.New64a()
	var buf [16]byte
	for i := 0; i < 8; i++ {
		buf[i] = byte(a >> (8 * i))
		buf[8+i] = byte(b >> (8 * i))
	}
	h.Write(buf[:])
	return h.Sum64()
}

// runBoundary is the body of a boundary run. ws has its roles assigned; the
// helper contract replaces the child at address 33.
func (r *runner) runBoundary(ws *worldSpec, cfg *kernel.Tape) {
	c := r.c
	ops, terr := walkTable()
	if terr != "" {
		c.HarnessTrouble("%s", terr)
		return
	}
	bt := c.Tape.Fork("boundary")
	b := &bndRun{r: r, K: 16, classes: map[string]int{}, opsDone: map[evm.OpCode]bool{}, input: bndInput()}
	target := 40
	if c.Tier == kernel.Thorough {
		b.K, target = 12, 150
	}
	b.slice = bt.Int(b.K)
	b.salt = bt.Uint64()

	ws.role[roleChild] = common.BytesToAddress([]byte{bndHelperAdr})
	ws.acct[roleChild].code = helperCode()
	ws.acct[roleParent].code = []byte{byte(evm.STOP)}
	ws.acct[roleGrand].code = []byte{byte(evm.STOP)}
	if ws.acct[roleParent].balance < 100 {
		ws.acct[roleParent].balance += 100
	}
	w, err := ws.build()
	if err != nil {
		c.HarnessTrouble("building the pre-state failed: %v", err)
		return
	}
	r.w = w
	r.cap = 200_000

	// (b) enumerated once without executing, to know how many items a slice
	// holds (for the sampling rate of the full-oracle pair)
	total := 0
	b.family(ops, func(bool, *bndItem) bool { total++; return true })
	b.fullMod = uint64(total/b.K/target + 1)

	minStack := make([]string, 0, len(ops))
	for i := range ops {
		minStack = append(minStack, fmt.Sprintf("%s:%d", ops[i].name, ops[i].need))
	}
	r.sample = map[string]interface{}{
		"scenario": "boundary", "slice": fmt.Sprintf("%d of %d", b.slice, b.K), "opcodes_in_jump_table": len(ops),
		"operand_items_in_family": total, "min_stack(from validateStack)": strings.Join(minStack, " "),
	}
	c.Finger("boundary", b.slice, b.K, b.salt, len(ops))
	defer func() {
		r.sample["items_executed"] = b.items
		r.sample["lean_executions"] = b.leans
		r.sample["full_oracle_pairs"] = b.fulls
		r.sample["executions"] = r.execs + b.leans
		cl := map[string]int{}
		for k, v := range b.classes {
			cl[k] = v
			c.FaultN("boundary-"+k, v)
		}
		delete(cl, "ok")
		r.sample["outcomes"] = b.classes
		c.Sample(r.sample)
		c.Finger(b.h)
		if b.classes["ok"] > 0 && len(cl) > 0 {
			c.NonTrivial()
		}
	}()

	b.family(ops, func(sliced bool, it *bndItem) bool {
		if sliced {
			i := b.idx
			b.idx++
			if i%b.K != b.slice {
				return true
			}
		}
		b.item(it)
		return !b.stop
	})
	if b.stop {
		return
	}
	c.Probe(fmt.Sprintf("boundary-slice-%02d", b.slice))
	c.ProbeN("boundary-opcodes-executed", len(b.opsDone))
	if len(b.opsDone) != len(ops) {
		c.HarnessTrouble("boundary run executed %d of the %d opcodes of the jump table", len(b.opsDone), len(ops))
	}
}

// family enumerates, in a fixed order, every item of families (a) and (b);
// sliced tells whether the item belongs to the part that is divided among runs.
func (b *bndRun) family(ops []opInfo, yield func(sliced bool, it *bndItem) bool) {
	thorough := b.r.c.Tier == kernel.Thorough
	// the deepest stack a program can build: what the entries that need
	// nothing accept (an entry that pops more than it pushes would accept more,
	// but no program gets there)
	limit := 0
	for i := range ops {
		if ops[i].need == 0 && ops[i].top > limit {
			limit = ops[i].top
		}
	}
	for i := range ops {
		op := &ops[i]
		// (a) stack depths: executed by every run
		ds := map[int]bool{}
		for _, d := range []int{op.need - 1, op.need, op.need + 1, op.top - 1, op.top, op.top + 1} {
			if d >= 0 && d <= limit {
				ds[d] = true
			}
		}
		if thorough {
			for d := 0; d <= 18; d++ {
				ds[d] = true
			}
		}
		dl := make([]int, 0, len(ds))
		for d := range ds {
			dl = append(dl, d)
		}
		sort.Ints(dl)
		for _, d := range dl {
			n := d
			if n > op.need+1 {
				n = op.need + 1
			}
			if !yield(false, &bndItem{op: op, fam: fmt.Sprintf("stack-depth-%d", d), vals: zeros(n), fill: d - n, rd: -1}) {
				return
			}
		}
		if !yield(false, &bndItem{op: op, fam: "last-byte-of-code", vals: zeros(op.need), rd: -1, trunc: true}) {
			return
		}
		if op.need == 0 {
			continue
		}
		// (b) operands from the catalogue
		cat := catBase
		others := []int64{0}
		if op.mem {
			cat = catMem
			others = []int64{0, bndHelperAdr}
		}
		rds := []int{-1}
		if op.rd {
			rds = append(rds, rdSizes...)
		}
		for _, rd := range rds {
			for _, o := range others {
				base := make([]*big.Int, op.need)
				for k := range base {
					base[k] = big.NewInt(o)
				}
				for p := 0; p < op.need; p++ {
					for _, v := range cat {
						vals := append([]*big.Int(nil), base...)
						vals[p] = v
						if !yield(true, &bndItem{op: op, fam: fmt.Sprintf("operand-%d", p), vals: vals, rd: rd}) {
							return
						}
					}
				}
				// pairs: every pair of positions for up to 4 operands, neighbouring
				// positions for 5-7 operands in the quick tier (an (offset, length)
				// pair is always adjacent there), every pair in the thorough tier;
				// none for the 8-17 "operands" of the deep DUPs and SWAPs
				if op.need > 7 || (op.need == 2 && o != 0) {
					continue
				}
				for p := 0; p < op.need; p++ {
					for q := p + 1; q < op.need; q++ {
						if op.need > 4 && q != p+1 && !thorough {
							continue
						}
						for _, v := range cat {
							for _, u := range cat {
								vals := append([]*big.Int(nil), base...)
								vals[p], vals[q] = v, u
								if !yield(true, &bndItem{op: op, fam: fmt.Sprintf("operands-%d,%d", p, q), vals: vals, rd: rd}) {
									return
								}
							}
						}
					}
				}
			}
		}
	}
}

// item executes one item under ample and tight gas and applies the oracles.
func (b *bndRun) item(it *bndItem) {
	b.items++
	b.opsDone[it.op.op] = true
	code := it.code()
	ls := b.r.w.leanSession(code, b.input)
	first := b.exec(it, ls, code, bndAmpleGas)
	if first == nil {
		return
	}
	if first.class == "ok" || first.class == "revert" {
		// out of gas inside the opcode under test: one unit short, and (opcodes
		// with a memory size function: their cost depends on the operands)
		// somewhere below
		used := bndAmpleGas - first.gasLeft
		if used > 0 {
			if b.exec(it, ls, code, used-1) == nil {
				return
			}
			if used > 1 && it.op.mem {
				if b.exec(it, ls, code, mix(b.salt, uint64(b.items))%(used-1)) == nil {
					return
				}
			}
		}
	}
	if mix(b.salt^0x5eed, uint64(b.items))%b.fullMod != 0 {
		return
	}
	// the full traced/untraced pair with every single-execution oracle
	r := b.r
	var err error
	if r.pre, r.pre0, err = r.w.untouchedWith(code); err != nil {
		r.c.HarnessTrouble("opening the pre-state failed: %v", err)
		b.stop = true
		return
	}
	rq := request{entry: entryCall, to: roleParent, token: common.EmptyAddress, value: new(big.Int), input: b.input, override: code}
	gases := []uint64{bndAmpleGas}
	if first.class == "ok" || first.class == "revert" {
		if used := bndAmpleGas - first.gasLeft; used > 0 {
			gases = append(gases, used-1)
		}
	}
	for _, g := range gases {
		rq.gas = g
		b.fulls++
		if r.pair(rq) == nil {
			b.stop = true
			r.sample["stopped_at"] = it.describe()
			return
		}
	}
}

// exec is one lean execution with its oracles; nil = stop the run.
func (b *bndRun) exec(it *bndItem, ls *leanSession, code []byte, gas uint64) *leanResult {
	c := b.r.c
	x := ls.run(gas)
	b.leans++
	c.Event(1)
	c.Evals(1)
	fail := func(class, key, format string, args ...interface{}) *leanResult {
		if c.Violate(class, key, "%s, gas=%d: %s", it.describe(), gas, fmt.Sprintf(format, args...)) {
			b.stop = true
			b.r.sample["stopped_at"] = it.describe()
			b.r.sample["code"] = fmt.Sprintf("%x", trimZeros(code))
			return nil
		}
		return x
	}
	if x.panicked {
		if x.site == "harness" {
			c.HarnessTrouble("%s", x.msg)
			b.stop = true
			return nil
		}
		if fail("panic", "crash/"+it.op.name+"/"+x.site, "the interpreter panicked at %s: %s", x.site, x.msg) == nil {
			return nil
		}
		// a listed finding: the shared StateDB is in no defined state any more
		b.classes["panic"]++
		return nil
	}
	b.classes[x.class]++
	b.h = mix(b.h, mix(uint64(len(x.class))<<32|uint64(x.class[0]), x.gasLeft))
	if x.gasLeft > gas {
		if fail("metering", "metering/gas-left-exceeds-gas-given/"+x.class, "returned gasLeft=%d", x.gasLeft) == nil {
			return nil
		}
	}
	if x.err == nil {
		return x
	}
	if x.class != "revert" && x.class != "insufficient-balance" && x.class != "depth" && x.gasLeft != 0 {
		if fail("metering", "metering/error-keeps-gas/"+x.class, "failed with %q but returned gasLeft=%d", x.err, x.gasLeft) == nil {
			return nil
		}
	}
	if x.post != x.pre {
		if fail("atomicity", "atomicity/top-level/"+x.class+"/root", "failed with %q but the state root changed %x -> %x", x.err, x.pre, x.post) == nil {
			return nil
		}
	}
	if x.logs != 0 {
		if fail("atomicity", "atomicity/top-level/"+x.class+"/logs", "failed with %q but left %d logs", x.err, x.logs) == nil {
			return nil
		}
	}
	return x
}

func trimZeros(b []byte) []byte {
	n := len(b)
	for n > 0 && b[n-1] == 0 {
		n--
	}
	return b[:n]
}
