package evmrig

import (
	"crypto/sha256"
	"fmt"
	"math/big"
	"strings"
	"time"

	"github.com/lianxiangcloud/linkchain/config"
	"github.com/lianxiangcloud/linkchain/libs/common"
	"github.com/lianxiangcloud/linkchain/state"
	"github.com/lianxiangcloud/linkchain/types"
	"github.com/lianxiangcloud/linkchain/vm/evm"

	"verif/sim/kernel"
)

// entry points, the ones app/state_transition.go uses
const (
	entryCall     = iota // evm.Call  (debits the caller)
	entryUTXOCall        // evm.UTXOCall (what transitOutputs uses for contract calls: credit only)
	entryCreate          // evm.Create
)

var entryNames = []string{"Call", "UTXOCall", "Create"}

type request struct {
	entry int
	to    int    // role index (Call/UTXOCall)
	code  []byte // Create
	input []byte
	gas   uint64
	value *big.Int
	token common.Address
	// boundary scenario: the called contract's code is replaced by this one
	// (set on the fresh StateDB before the call)
	override []byte
}

type result struct {
	ret      []byte
	err      error
	class    string
	gasLeft  uint64
	refund   uint64 // RefundFee()
	refundA  uint64 // RefundAllFee()
	logs     []*types.Log
	logSig   string
	root     common.Hash
	o        *obs
	created  common.Address
	otxs     int
	panicked bool
	site     string
	msg      string
	tr       *tracer
	s        *state.StateDB // the state after the execution (for the diagnosis of root-only differences)
}

// sig is what two executions from equal states must agree on.
func (r *result) sig() string {
	e := "<nil>"
	if r.err != nil {
		e = r.err.Error()
	}
	h := sha256.New()
	for _, k := range r.o.keys {
		fmt.Fprintf(h, "%s=%s;", k, r.o.vals[k])
	}
	return fmt.Sprintf("ret=%x err=%q gasLeft=%d refundFee=%d refundAll=%d logs=%s root=%x obs=%x created=%x otxs=%d",
		r.ret, e, r.gasLeft, r.refund, r.refundA, r.logSig, r.root, h.Sum(nil)[:8], r.created, r.otxs)
}

func classify(err error) string {
	switch err {
	case nil:
		return "ok"
	case types.ExecutionReverted:
		return "revert"
	case evm.ErrOutOfGas:
		return "oog"
	case evm.ErrCodeStoreOutOfGas:
		return "code-store-oog"
	case evm.ErrDepth:
		return "depth"
	case evm.ErrInsufficientBalance:
		return "insufficient-balance"
	case evm.ErrContractAddressCollision:
		return "collision"
	}
	s := err.Error()
	switch {
	case strings.HasPrefix(s, "invalid opcode"):
		return "invalid-opcode"
	case strings.HasPrefix(s, "invalid jump destination"):
		return "invalid-jump"
	case strings.HasPrefix(s, "stack underflow"):
		return "stack-underflow"
	case strings.HasPrefix(s, "stack limit reached"):
		return "stack-overflow"
	case strings.Contains(s, "write protection"):
		return "write-protection"
	case strings.Contains(s, "return data out of bounds"):
		return "returndata-oob"
	case strings.Contains(s, "gas uint64 overflow"):
		return "gas-overflow"
	case strings.Contains(s, "max code size exceeded"):
		return "max-code-size"
	}
	return "other"
}

// tracer observes every interpreter step of a traced execution.
type tracer struct {
	top       uint64 // gas given to the top-level call
	steps     int
	maxDepth  int
	unmetered int // steps executed on more gas than the whole call was given
	unmOp     string
	cancelled bool
	// gas the top-level frame needs to get past each of its steps
	marks []uint64
	// the same for the first frame at depth 2, relative to that frame's gas
	childInit  uint64
	childSeen  bool
	childDone  bool
	childMarks []uint64
	// a frame's remaining gas must never grow from one of its steps to the next
	lastGas map[int]uint64
	gasGrew string
	// a step is executed only after its cost has been taken from the frame's gas
	unpaid   string
	stepCap  int
	prevDeep int
}

func (t *tracer) CaptureStart(from common.Address, to common.Address, call bool, input []byte, gas uint64, value *big.Int) error {
	return nil
}

func (t *tracer) CaptureState(env *evm.EVM, pc uint64, op evm.OpCode, gas, cost uint64, memory *evm.Memory, stack *evm.Stack, contract *evm.Contract, depth int, err error) error {
	t.steps++
	if depth > t.maxDepth {
		t.maxDepth = depth
	}
	if gas > t.top {
		if t.unmetered == 0 {
			t.unmOp = op.String()
		}
		t.unmetered++
		if t.unmetered > 20000 {
			t.cancelled = true
			env.Cancel()
		}
		return nil
	}
	if t.steps > t.stepCap {
		t.cancelled = true
		env.Cancel()
		return nil
	}
	if err == nil && cost > gas && t.unpaid == "" {
		t.unpaid = fmt.Sprintf("depth %d pc %d %s: cost %d with %d gas remaining", depth, pc, op, cost, gas)
	}
	// entering a deeper frame resets what is known about that depth
	if depth > t.prevDeep {
		delete(t.lastGas, depth)
	}
	t.prevDeep = depth
	if last, ok := t.lastGas[depth]; ok && gas > last && t.gasGrew == "" {
		t.gasGrew = fmt.Sprintf("depth %d pc %d %s: remaining gas %d after a step that started with %d", depth, pc, op, gas, last)
	}
	t.lastGas[depth] = gas
	switch depth {
	case 1:
		if len(t.marks) < 400 {
			t.marks = append(t.marks, t.top-gas+cost)
		}
		if t.childSeen {
			t.childDone = true
		}
	case 2:
		if !t.childDone {
			if !t.childSeen {
				t.childSeen = true
				t.childInit = gas
			}
			if len(t.childMarks) < 400 && gas <= t.childInit {
				t.childMarks = append(t.childMarks, t.childInit-gas+cost)
			}
		}
	}
	return nil
}

func (t *tracer) CaptureFault(env *evm.EVM, pc uint64, op evm.OpCode, gas, cost uint64, memory *evm.Memory, stack *evm.Stack, contract *evm.Contract, depth int, err error) error {
	return nil
}

func (t *tracer) CaptureEnd(output []byte, gasUsed uint64, d time.Duration, err error) error {
	return nil
}

type noChain struct{}

func (noChain) GetHeader(uint64) *types.Header { return nil }

var (
	txHash    = common.BytesToHash([]byte("c20-tx-hash"))
	blockHash = common.BytesToHash([]byte("c20-block-hash"))
	gasPrice  = big.NewInt(100000000000)
)

// execute runs one request on a fresh StateDB opened on the world's committed
// pre-state, the way app/state_processor.go + state_transition.go drive the
// EVM: NewEVMContext(header, chain, nil, EvmGasRate) -> NewEVM -> Reset(msg)
// -> SetToken -> Call / UTXOCall / Create.
func (w *world) execute(rq request, traced bool, stepCap int) *result {
	res := &result{}
	s, err := w.open()
	if err != nil {
		res.panicked, res.site, res.msg = true, "harness", "state.New: "+err.Error()
		return res
	}
	if rq.override != nil && rq.entry != entryCreate {
		s.SetCode(w.spec.role[rq.to], rq.override)
	}
	res.s = s
	s.Prepare(txHash, blockHash, 0)
	header := &types.Header{Height: 100, Time: 1600000000, Coinbase: w.spec.role[roleBenef], GasLimit: 1 << 40, ParentHash: blockHash}
	ctx := evm.NewEVMContext(header, noChain{}, nil, config.EvmGasRate)
	cfg := evm.Config{}
	if traced {
		res.tr = &tracer{top: rq.gas, lastGas: map[int]uint64{}, stepCap: stepCap}
		cfg.Debug, cfg.Tracer = true, res.tr
	}
	vm := evm.NewEVM(ctx, s, cfg)
	origin := w.spec.role[roleOrigin]
	var to *common.Address
	if rq.entry != entryCreate {
		t := w.spec.role[rq.to]
		to = &t
	}
	vm.Reset(types.NewMessage(origin, to, rq.token, s.GetNonce(origin), rq.value, rq.gas, gasPrice, rq.input))
	vm.SetToken(rq.token)
	from := evm.AccountRef(origin)

	res.site, res.msg, res.panicked = kernel.Try(func() {
		switch rq.entry {
		case entryCall:
			res.ret, res.gasLeft, _, res.err = vm.Call(from, *to, rq.token, rq.input, rq.gas, rq.value)
		case entryUTXOCall:
			res.ret, res.gasLeft, _, res.err = vm.UTXOCall(from, *to, rq.token, rq.input, rq.gas, rq.value)
		default:
			res.ret, res.created, res.gasLeft, res.err = vm.Create(from, rq.code, rq.gas, rq.value)
		}
		res.refund = vm.RefundFee()
		res.refundA = vm.RefundAllFee()
		res.otxs = len(vm.GetOTxs())
		res.logs = s.GetLogs(txHash)
		res.o = w.observe(s)
		res.o.set("refund-counter", fmt.Sprint(s.GetRefund()))
		res.root = s.IntermediateRoot(false)
	})
	if res.panicked {
		return res
	}
	res.ret = append([]byte(nil), res.ret...)
	res.class = classify(res.err)
	h := sha256.New()
	for _, l := range res.logs {
		fmt.Fprintf(h, "%x|%x|%x|%d;", l.Address, l.Topics, l.Data, l.Index)
	}
	res.logSig = fmt.Sprintf("%d:%x", len(res.logs), h.Sum(nil)[:6])
	return res
}

// untouched is the observation and root of the pre-state itself.
func (w *world) untouched() (*obs, common.Hash, error) {
	s, err := w.open()
	if err != nil {
		return nil, common.EmptyHash, err
	}
	o := w.observe(s)
	o.set("refund-counter", "0")
	return o, s.IntermediateRoot(false), nil
}

// rootOnlyDiff names what distinguishes the account records of the state after
// a failed execution from those of the reference pre-state when every getter
// agrees and only the root differs: "zero-token-entry" when the only
// differences are token entries with balance 0 that the reference does not
// have, "" otherwise.
func (w *world) rootOnlyDiff(rq request, x *result) string {
	if x.s == nil {
		return ""
	}
	ref, err := w.open()
	if err != nil {
		return ""
	}
	if rq.override != nil && rq.entry != entryCreate {
		ref.SetCode(w.spec.role[rq.to], rq.override)
	}
	ref.IntermediateRoot(false)
	kind := ""
	_, _, panicked := kernel.Try(func() {
		d0, d1 := ref.RawDump(), x.s.RawDump()
		if len(d0.Accounts) != len(d1.Accounts) {
			return
		}
		zero := 0
		for k, a1 := range d1.Accounts {
			a0, ok := d0.Accounts[k]
			if !ok || a0.Balance != a1.Balance || a0.Nonce != a1.Nonce || a0.Credits != a1.Credits || a0.Root != a1.Root || a0.CodeHash != a1.CodeHash {
				return
			}
			for t, v := range a0.Tokens {
				if u, ok := a1.Tokens[t]; !ok || u.Cmp(v) != 0 {
					return
				}
			}
			for t, v := range a1.Tokens {
				if _, ok := a0.Tokens[t]; !ok {
					if v.Sign() != 0 {
						return
					}
					zero++
				}
			}
		}
		if zero > 0 {
			kind = "zero-token-entry"
		}
	})
	if panicked {
		return ""
	}
	return kind
}
