package evmrig

// Direct reproduction, against the real vm/evm, of what the C20 rig reports on
// the unchanged tree. Run with
//   cd /verif/sim && VERIF_REPRO=1 go1.26.8 test -vet=off -tags verif -overlay /verif/build/overlay.json ./rigs/evmrig/ -run Repro -v
// (skipped without VERIF_REPRO=1). The test FAILS while the defect is present.

import (
	"math/big"
	"os"
	"testing"
	"time"

	"github.com/lianxiangcloud/linkchain/config"
	"github.com/lianxiangcloud/linkchain/libs/common"
	dbm "github.com/lianxiangcloud/linkchain/libs/db"
	"github.com/lianxiangcloud/linkchain/state"
	"github.com/lianxiangcloud/linkchain/types"
	"github.com/lianxiangcloud/linkchain/vm/evm"
)

type stepCounter struct {
	given     uint64
	unmetered int
	maxGas    uint64
	limit     int
}

func (t *stepCounter) CaptureStart(from, to common.Address, call bool, input []byte, gas uint64, value *big.Int) error {
	return nil
}
func (t *stepCounter) CaptureState(env *evm.EVM, pc uint64, op evm.OpCode, gas, cost uint64, m *evm.Memory, s *evm.Stack, c *evm.Contract, depth int, err error) error {
	if gas > t.given {
		t.unmetered++
		if gas > t.maxGas {
			t.maxGas = gas
		}
		if t.unmetered >= t.limit {
			env.Cancel() // otherwise this runs for 1e10 gas
		}
	}
	return nil
}
func (t *stepCounter) CaptureFault(env *evm.EVM, pc uint64, op evm.OpCode, gas, cost uint64, m *evm.Memory, s *evm.Stack, c *evm.Contract, depth int, err error) error {
	return nil
}
func (t *stepCounter) CaptureEnd(output []byte, gasUsed uint64, d time.Duration, err error) error {
	return nil
}

// key unmetered/steps-with-more-gas-than-given
//
// contract:  if calldatasize == 4 { for {} }  else { ISSUE(1); STOP }
// A call with 100 000 gas executes ISSUE and stops; evm.Call then runs
// GetUTXOChangeRate -> StaticCall(decimals()) with staticCallSimulateGas = 1e10
// gas that nobody pays for: the loop spins until those 1e10 gas are gone.
func TestReproUnmeteredStaticCallAfterIssue(t *testing.T) {
	if os.Getenv("VERIF_REPRO") != "1" {
		t.Skip("set VERIF_REPRO=1 to run the direct reproduction")
	}
	a := &asm{}
	a.pushU(4).op(evm.CALLDATASIZE, evm.EQ)
	a.b = append(a.b, byte(evm.PUSH2), 0, 0)
	fix := len(a.b) - 2
	a.op(evm.JUMPI)
	a.pushU(1).op(evm.ISSUE, evm.STOP)
	loop := a.jumpdest()
	a.b[fix], a.b[fix+1] = byte(loop>>8), byte(loop)
	a.push2(loop).op(evm.JUMP)

	contract := common.HexToAddress("0xc0de000000000000000000000000000000000001")
	origin := common.HexToAddress("0x0419000000000000000000000000000000000002")
	s, _ := state.New(common.EmptyHash, state.NewDatabase(dbm.NewMemDB()))
	s.SetCode(contract, a.b)
	s.SetNonce(contract, 1)
	s.SetBalance(origin, big.NewInt(1))

	const given = 100000
	tr := &stepCounter{given: given, limit: 3000000}
	header := &types.Header{Height: 100, Time: 1600000000, GasLimit: 1 << 40}
	vm := evm.NewEVM(evm.NewEVMContext(header, noChain{}, nil, config.EvmGasRate), s, evm.Config{Debug: true, Tracer: tr})
	vm.Reset(types.NewMessage(origin, &contract, common.EmptyAddress, 0, new(big.Int), given, big.NewInt(1), nil))
	start := time.Now()
	_, left, _, err := vm.Call(evm.AccountRef(origin), contract, common.EmptyAddress, nil, given, new(big.Int))
	t.Logf("Call returned err=%v gasLeft=%d after %v", err, left, time.Since(start))
	if tr.unmetered > 0 {
		t.Fatalf("%d interpreter steps (cut off by the test at %d) ran on up to %d gas although the call was given %d gas", tr.unmetered, tr.limit, tr.maxGas, given)
	}
}

// key atomicity/failed-frame-leaves-zero-token-entry
//
// A frame credits a token to an account that does not hold that token yet
// (here: ISSUE 5 by a contract without decimals(), which makes evm.Call end the
// frame with ExecutionReverted; TRANSFERTOKEN followed by REVERT does the same
// to the receiver) and fails. stateObject.SetTokenBalance first inserts
// Tokens[token] = 0 and journals prev = 0; the journal's revert writes the 0
// back instead of removing the entry. Every getter reports the old state, but
// as soon as the account record is written for any other reason in the same
// block (here: it received 1 unit before the call) the record carries a
// "token: 0" entry, and the state root differs from the root of the same
// block without the failed frame.
func TestReproZeroTokenEntryAfterFailedFrame(t *testing.T) {
	if os.Getenv("VERIF_REPRO") != "1" {
		t.Skip("set VERIF_REPRO=1 to run the direct reproduction")
	}
	code := (&asm{}).pushU(5).op(evm.ISSUE, evm.STOP).b
	contract := common.HexToAddress("0xc0de000000000000000000000000000000000001")
	origin := common.HexToAddress("0x0419000000000000000000000000000000000002")
	db := state.NewDatabase(dbm.NewMemDB())
	s0, _ := state.New(common.EmptyHash, db)
	s0.SetCode(contract, code)
	s0.SetNonce(contract, 1)
	s0.SetBalance(origin, big.NewInt(10))
	root, err := s0.Commit(false, 1)
	if err != nil {
		t.Fatal(err)
	}
	if err := db.TrieDB().Commit(root, false); err != nil {
		t.Fatal(err)
	}

	// the block without the failing call: the contract receives 1 unit
	ref, _ := state.New(root, db)
	ref.AddBalance(contract, big.NewInt(1))
	want := ref.IntermediateRoot(false)

	// the same block with a failing call to the contract after that
	s, _ := state.New(root, db)
	s.AddBalance(contract, big.NewInt(1))
	header := &types.Header{Height: 100, Time: 1600000000, GasLimit: 1 << 40}
	vm := evm.NewEVM(evm.NewEVMContext(header, noChain{}, nil, config.EvmGasRate), s, evm.Config{})
	vm.Reset(types.NewMessage(origin, &contract, common.EmptyAddress, 0, new(big.Int), 100000, big.NewInt(1), nil))
	_, left, _, cerr := vm.Call(evm.AccountRef(origin), contract, common.EmptyAddress, nil, 100000, new(big.Int))
	t.Logf("Call returned err=%v gasLeft=%d; GetTokenBalance(contract, contract)=%v", cerr, left, s.GetTokenBalance(contract, contract))
	if cerr == nil {
		t.Fatalf("the call was expected to fail (ISSUE without decimals())")
	}
	got := s.IntermediateRoot(false)
	for _, a := range s.RawDump().Accounts {
		if len(a.Tokens) > 0 {
			t.Logf("account record after the failed frame: balance=%s tokens=%v", a.Balance, a.Tokens)
		}
	}
	if got != want {
		t.Fatalf("the failed frame left a state change behind: state root %x, without the failed call %x", got, want)
	}
}
