// Package c03rig is the composite C03 check: the library part (votesrig: the
// real VoteSet / HeightVoteSet / VerifyCommit / validateBlock /
// reconstructLastCommit against a math/big tally model) and the fast-sync part
// (fastsyncrig: the real BlockchainReactor with its BlockPool, block store,
// BlockExecutor and application, fed by simulated honest and Byzantine peers).
// The first draw of stream "part" selects which part a run executes.
package c03rig

import (
	"os"
	"time"

	"verif/sim/kernel"
	"verif/sim/rigs/fastsyncrig"
	"verif/sim/rigs/votesrig"
)

// FastSyncShare: one run in FastSyncShare executes the fast-sync part.
const FastSyncShare = 10

// Rig returns the composite rig.
func Rig() *kernel.Rig {
	r := votesrig.Describe()
	lib := r.Run
	r.Name = "votes+fastsync"
	r.Rule = "part A (9 of 10 runs): " + r.Rule + " || part B (1 of 10 runs, the fast-sync call site): " + fastsyncrig.Rule
	// the library part runs only the fast-sync predicate; the call site itself is part B
	r.Real = append(r.Real, fastsyncrig.Real...)
	r.Stub = append(r.Stub, fastsyncrig.Stub...)
	r.Assumptions = append(r.Assumptions, fastsyncrig.Assumptions...)
	// the application keeps caches alive per replica: recycle workers
	r.RunsPerProcess = 1500
	r.RunTimeout = 300 * time.Second
	// the fast-sync runs add about a fifth to the thorough tier's CPU time
	r.ThoroughBudget = 20 * time.Minute
	// The reactor's pool routine runs on a goroutine of its own with no recover:
	// a panic there (or in any goroutine of the code under test) kills the
	// worker process. The two such defects found with this rig are looked for
	// by survivable probes (fastsyncrig/probe.go); any other one is classified
	// here from the dead worker's log.
	r.OnCrash = func(log string) (string, string, string, bool) {
		v, site := kernel.CrashSite(log, "github.com/lianxiangcloud/linkchain/")
		if site == "" {
			return "", "", "", false // not in the code under test: harness trouble
		}
		return "process-crash", "C03/process-crash/" + site, "an unrecovered panic outside every recover killed the node's process (in the fast-sync part: a peer's message, the reactor's pool routine): " + v, true
	}
	// VERIF_C03_PART=fastsync|votes forces one part (diagnostics, the part's own
	// determinism runs); unset, the part is a function of the tape alone
	force := os.Getenv("VERIF_C03_PART")
	r.Run = func(c *kernel.Ctx) {
		pick := c.Tape.Fork("part").Int(FastSyncShare)
		if (pick == 0 && force != "votes") || force == "fastsync" {
			c.Finger("fastsync")
			fastsyncrig.Run(c)
			return
		}
		lib(c)
	}
	return r
}
