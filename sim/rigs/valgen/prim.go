// Package valgen generates structurally valid consensus/storage values of the
// node under test from a choice tape: blocks with transactions of several
// kinds, commits with votes, evidence, proposals, parts, validator sets,
// receipts, accounts... It never calls the confidential-transaction crypto
// (UTXO transactions are filled structurally) and never reads a clock or a
// global random source, so a value is a pure function of the tape.
//
// Two layers:
//   - typed constructors (Block, Tx, Vote, Commit, ...) producing values in
//     the codec's canonical in-memory form (non-nil big ints, UTC times
//     without monotonic part), so that decode(encode(v)) can be compared
//     strictly;
//   - Filler, a type-directed generator of corner values (nil pointers and
//     interfaces, zero/max/negative integers, empty/one-byte/56-byte strings,
//     big ints, odd times, maps) for any registered type.
package valgen

import (
	"math"
	"math/big"
	"time"

	"github.com/lianxiangcloud/linkchain/libs/common"
	"github.com/lianxiangcloud/linkchain/libs/crypto"
	ctypes "github.com/lianxiangcloud/linkchain/libs/cryptonote/types"

	"verif/sim/kernel"
)

// T is the tape type.
type T = kernel.Tape

var cornerU64 = []uint64{0, 1, 2, 0x7f, 0x80, 0xff, 0x100, 0xffff, 0x10000, 0xffffff, 0x1000000,
	0xffffffff, 0x100000000, 1<<40 - 1, 1 << 48, 1<<56 - 1, 1 << 56, math.MaxInt64, 1 << 63, math.MaxUint64}

// U64 draws a corner-biased uint64.
func U64(t *T) uint64 {
	switch t.Pick(3, 3, 2) {
	case 0:
		return cornerU64[t.Int(len(cornerU64))]
	case 1:
		return uint64(t.Int(1000))
	default:
		return t.Uint64() >> uint(t.Int(64))
	}
}

// UBits draws a corner-biased unsigned value fitting in bits.
func UBits(t *T, bits int) uint64 {
	v := U64(t)
	if bits >= 64 {
		return v
	}
	max := uint64(1)<<uint(bits) - 1
	if v > max {
		if t.Bool(1, 2) {
			return max
		}
		return v & max
	}
	return v
}

// I64 draws a corner-biased int64 (negative values included).
func I64(t *T) int64 {
	switch t.Pick(3, 3, 2) {
	case 0:
		c := []int64{0, 1, -1, 15, 16, -16, 127, 128, -128, 255, 256, math.MaxInt32, math.MinInt32, math.MaxInt64, math.MinInt64, math.MinInt64 + 1}
		return c[t.Int(len(c))]
	case 1:
		return int64(t.Int(2001)) - 1000
	default:
		return int64(t.Uint64()) >> uint(t.Int(64))
	}
}

// IBits draws a corner-biased signed value fitting in bits.
func IBits(t *T, bits int) int64 {
	v := I64(t)
	if bits >= 64 {
		return v
	}
	max := int64(1)<<uint(bits-1) - 1
	min := -max - 1
	if v > max {
		return max
	}
	if v < min {
		return min
	}
	return v
}

// SmallInt draws a plausible non-negative int (rounds, indexes).
func SmallInt(t *T, max int) int { return t.Int(max + 1) }

// Big draws a non-negative big integer of varied magnitude (never nil).
func Big(t *T) *big.Int {
	switch t.Pick(2, 3, 2, 2, 1) {
	case 0:
		return new(big.Int)
	case 1:
		return new(big.Int).SetUint64(U64(t))
	case 2:
		n := 1 + t.Int(32)
		return new(big.Int).SetBytes(t.Bytes(n))
	case 3:
		// powers of two and neighbours
		b := new(big.Int).Lsh(big.NewInt(1), uint(t.Int(260)))
		if t.Bool(1, 2) {
			b.Sub(b, big.NewInt(1))
		}
		return b
	default:
		return new(big.Int).SetBytes(t.Bytes(33 + t.Int(40)))
	}
}

var cornerLens = []int{0, 1, 1, 2, 20, 32, 55, 56, 57, 64, 255, 256, 257}

// Bytes draws a byte string of corner-biased length <= max (non-nil unless
// length 0, where it is nil: the codec's canonical empty byte string).
func Bytes(t *T, max int) []byte {
	var n int
	if t.Bool(1, 2) {
		n = cornerLens[t.Int(len(cornerLens))]
	} else {
		n = t.Int(max + 1)
	}
	if n > max {
		n = max
	}
	if n == 0 {
		return nil
	}
	b := t.Bytes(n)
	if n == 1 {
		// both sides of the single-byte boundary 0x7f/0x80, and zero
		switch t.Int(4) {
		case 0:
			b[0] = 0
		case 1:
			b[0] = 0x7f
		case 2:
			b[0] = 0x80
		}
	}
	return b
}

// NBytes draws exactly n random bytes.
func NBytes(t *T, n int) []byte { return t.Bytes(n) }

// Str draws a string of corner-biased length <= max.
func Str(t *T, max int) string { return string(Bytes(t, max)) }

// Ident draws a short printable identifier.
func Ident(t *T, max int) string {
	const al = "abcdefghijklmnopqrstuvwxyz0123456789-_"
	n := 1 + t.Int(max)
	b := make([]byte, n)
	for i := range b {
		b[i] = al[t.Int(len(al))]
	}
	return string(b)
}

// Address draws a 20-byte address (sometimes zero, sometimes a small one).
func Address(t *T) (a common.Address) {
	switch t.Pick(1, 1, 6) {
	case 0:
	case 1:
		a[19] = byte(1 + t.Int(5))
	default:
		copy(a[:], t.Bytes(20))
	}
	return
}

// Hash draws a 32-byte hash (sometimes zero).
func Hash(t *T) (h common.Hash) {
	if t.Bool(7, 8) {
		copy(h[:], t.Bytes(32))
	}
	return
}

// NZHash draws a non-zero hash.
func NZHash(t *T) (h common.Hash) {
	copy(h[:], t.Bytes(32))
	h[0] |= 1
	return
}

// Key draws a 32-byte cryptonote key (structural only).
func Key(t *T) (k ctypes.Key) {
	copy(k[:], t.Bytes(32))
	return
}

// Time draws a UTC time without monotonic reading; nanoseconds included.
func Time(t *T) time.Time {
	var sec int64
	var ns int64
	switch t.Pick(6, 1, 1, 1) {
	case 0:
		sec = 1500000000 + int64(t.Int(400000000))
		ns = int64(t.Int(1000000000))
	case 1:
		sec, ns = 0, 0
	case 2:
		sec = -int64(t.Int(2000000000)) // before 1970
		ns = int64(t.Int(1000000000))
	default:
		sec = int64(t.Int(1 << 40))
		ns = []int64{0, 1, 999999999}[t.Int(3)]
	}
	return time.Unix(sec, ns).UTC()
}

// PubKey draws a public key value (bytes only, no curve arithmetic).
func PubKey(t *T) crypto.PubKey {
	if t.Bool(1, 5) {
		var k crypto.PubKeySecp256k1
		copy(k[:], t.Bytes(len(k)))
		return k
	}
	var k crypto.PubKeyEd25519
	copy(k[:], t.Bytes(len(k)))
	return k
}

// Signature draws a signature value (bytes only).
func Signature(t *T) crypto.Signature {
	if t.Bool(1, 5) {
		return crypto.SignatureSecp256k1(t.Bytes(64 + t.Int(9)))
	}
	var s crypto.SignatureEd25519
	copy(s[:], t.Bytes(len(s)))
	return s
}
