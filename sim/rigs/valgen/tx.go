package valgen

import (
	"crypto/ecdsa"
	"math/big"
	"reflect"

	"github.com/lianxiangcloud/linkchain/libs/common"
	"github.com/lianxiangcloud/linkchain/libs/crypto"
	ctypes "github.com/lianxiangcloud/linkchain/libs/cryptonote/types"
	"github.com/lianxiangcloud/linkchain/libs/ser"
	"github.com/lianxiangcloud/linkchain/types"
)

// TxKind enumerates the generated transaction kinds.
type TxKind int

const (
	KTransfer  TxKind = iota // types.Transaction with a recipient
	KCreate                  // types.Transaction, contract creation (nil recipient)
	KToken                   // types.TokenTransaction
	KMultiSign               // types.MultiSignAccountTx
	KUpgrade                 // types.ContractUpgradeTx
	KUTXO                    // types.UTXOTransaction, filled structurally (no crypto)
	NumTxKinds
)

func (k TxKind) String() string {
	return [...]string{"transfer", "create", "token", "multisign", "upgrade", "utxo"}[k]
}

// TxOpts bounds generated transactions.
type TxOpts struct {
	MaxPayload int  // bytes of payload / contract code
	NoUTXO     bool // leave out UTXO transactions
	RealSign   bool // allow real secp256k1 signatures (slower)
}

// ECDSAKey derives a deterministic secp256k1 private key from the tape.
func ECDSAKey(t *T) *ecdsa.PrivateKey {
	for {
		b := t.Bytes(32)
		b[0] &= 0x7f // below the group order
		b[31] |= 1   // non-zero
		if k, err := crypto.ToECDSA(b); err == nil {
			return k
		}
	}
}

// TxMirror is the wire layout of types.Transaction's private data, used to
// build transactions with arbitrary field values (price, V/R/S) and to build
// their expected encoding independently of the type's own encoder.
type TxMirror struct {
	AccountNonce uint64
	Price        *big.Int
	GasLimit     uint64
	Recipient    *common.Address
	Amount       *big.Int
	Payload      []byte
	V, R, S      *big.Int
}

// SigMirror is the wire layout of the private signature triple.
type SigMirror struct{ V, R, S *big.Int }

// TokenMirror is the wire layout of types.TokenTransaction's private data.
type TokenMirror struct {
	TokenAddress common.Address
	AccountNonce uint64
	Price        *big.Int
	GasLimit     uint64
	Recipient    *common.Address
	Amount       *big.Int
	Payload      []byte
	Signdata     SigMirror
}

func mustEnc(v interface{}) []byte {
	bz, err := ser.EncodeToBytes(v)
	if err != nil {
		panic("valgen: cannot encode mirror value: " + err.Error())
	}
	return bz
}

func optAddr(t *T) *common.Address {
	if t.Bool(1, 4) {
		return nil
	}
	a := Address(t)
	return &a
}

func sigTriple(t *T) SigMirror {
	if t.Bool(1, 6) {
		return SigMirror{new(big.Int), new(big.Int), new(big.Int)}
	}
	return SigMirror{V: new(big.Int).SetUint64(27 + uint64(t.Int(100000))), R: new(big.Int).SetBytes(t.Bytes(32)), S: new(big.Int).SetBytes(t.Bytes(32))}
}

// TransactionRaw builds a types.Transaction from arbitrary field values by
// decoding a mirror encoding; it returns the transaction and the mirror bytes
// (the encoding the transaction must reproduce).
func TransactionRaw(t *T, maxPayload int) (*types.Transaction, []byte) {
	sg := sigTriple(t)
	m := TxMirror{AccountNonce: U64(t), Price: Big(t), GasLimit: U64(t), Recipient: optAddr(t), Amount: Big(t),
		Payload: Bytes(t, maxPayload), V: sg.V, R: sg.R, S: sg.S}
	bz := mustEnc(&m)
	tx := new(types.Transaction)
	if err := ser.DecodeBytes(bz, tx); err != nil {
		panic("valgen: mirror transaction does not decode: " + err.Error())
	}
	return tx, bz
}

// TokenTransactionRaw is TransactionRaw for token transactions.
func TokenTransactionRaw(t *T, maxPayload int) (*types.TokenTransaction, []byte) {
	m := TokenMirror{TokenAddress: Address(t), AccountNonce: U64(t), Price: Big(t), GasLimit: U64(t), Recipient: optAddr(t),
		Amount: Big(t), Payload: Bytes(t, maxPayload), Signdata: sigTriple(t)}
	bz := mustEnc(&m)
	tx := new(types.TokenTransaction)
	if err := ser.DecodeBytes(bz, tx); err != nil {
		panic("valgen: mirror token transaction does not decode: " + err.Error())
	}
	return tx, bz
}

func amount(t *T) *big.Int {
	if t.Bool(1, 8) {
		return new(big.Int)
	}
	// up to ~1e27 wei
	return new(big.Int).Mul(new(big.Int).SetUint64(uint64(t.Int(1_000_000_000))), new(big.Int).SetUint64(1+uint64(t.Int(1_000_000_000))))
}

// Transaction builds a types.Transaction through the public constructors.
func Transaction(t *T, o TxOpts, create bool) *types.Transaction {
	nonce := uint64(t.Int(1 << 20))
	gas := 21000 + uint64(t.Int(5_000_000))
	payload := Bytes(t, o.MaxPayload)
	var tx *types.Transaction
	if create {
		if len(payload) == 0 {
			payload = []byte{0x60, 0x00}
		}
		tx = types.NewContractCreation(nonce, amount(t), gas, nil, payload)
	} else {
		tx = types.NewTransaction(nonce, Address(t), amount(t), gas, nil, payload)
	}
	switch t.Pick(1, 5, boolw(o.RealSign, 2)) {
	case 0: // unsigned
	case 1: // signature-shaped values
		sig := t.Bytes(65)
		sig[64] &= 1
		if s, err := tx.WithSignature(types.GlobalSTDSigner, sig); err == nil {
			tx = s
		}
	default:
		if err := tx.Sign(types.GlobalSTDSigner, ECDSAKey(t)); err != nil {
			panic("valgen: sign: " + err.Error())
		}
	}
	return tx
}

func boolw(b bool, w int) int {
	if b {
		return w
	}
	return 0
}

// TokenTransaction builds a types.TokenTransaction through the constructor.
func TokenTransaction(t *T, o TxOpts) *types.TokenTransaction {
	tx := types.NewTokenTransaction(Address(t), uint64(t.Int(1<<20)), Address(t), amount(t), 21000+uint64(t.Int(1_000_000)), nil, Bytes(t, o.MaxPayload))
	if o.RealSign && t.Bool(1, 2) {
		if err := tx.Sign(types.GlobalSTDSigner, ECDSAKey(t)); err != nil {
			panic("valgen: sign: " + err.Error())
		}
	}
	return tx
}

// MultiSignTx builds a types.MultiSignAccountTx.
func MultiSignTx(t *T) *types.MultiSignAccountTx {
	n := 1 + t.Int(4)
	info := types.MultiSignMainInfo{AccountNonce: uint64(t.Int(1 << 16)), SupportTxType: types.SupportType(t.Int(2))}
	info.MinSignerPower = int32(1 + t.Int(100))
	for i := 0; i < n; i++ {
		info.Signers = append(info.Signers, &types.SignerEntry{Power: int32(1 + t.Int(50)), Addr: Address(t)})
	}
	var sigs []types.ValidatorSign
	for i, k := 0, t.Int(4); i < k; i++ {
		sigs = append(sigs, types.ValidatorSign{Addr: NBytes(t, 20), Signature: NBytes(t, 64+7)})
	}
	return types.NewMultiSignAccountTx(&info, sigs)
}

// UpgradeTx builds a types.ContractUpgradeTx.
func UpgradeTx(t *T, o TxOpts) *types.ContractUpgradeTx {
	info := types.ContractUpgradeMainInfo{FromAddr: Address(t), Recipient: Address(t), AccountNonce: uint64(t.Int(1 << 16)), Payload: Bytes(t, o.MaxPayload)}
	var sd [][]byte
	for i, k := 0, 1+t.Int(3); i < k; i++ {
		sg := sigTriple(t)
		sd = append(sd, mustEnc(&sg))
	}
	tx := types.UpgradeContractTx(&info, sd)
	if tx == nil {
		panic("valgen: UpgradeContractTx returned nil")
	}
	return tx
}

// UTXOTx builds a types.UTXOTransaction structurally: every field is filled
// directly, no confidential-transaction crypto is called, so the value is
// meaningful for encoding, hashing and identity only.
func UTXOTx(t *T, o TxOpts) *types.UTXOTransaction {
	tx := &types.UTXOTransaction{TokenID: Address(t), Fee: amount(t), Extra: Bytes(t, 40)}
	copy(tx.RKey[:], t.Bytes(32))
	for i, k := 0, 1+t.Int(3); i < k; i++ {
		switch t.Pick(3, 2, 1) {
		case 0:
			in := &types.UTXOInput{KeyImage: Key(t)}
			for j, m := 0, 1+t.Int(4); j < m; j++ {
				in.KeyOffset = append(in.KeyOffset, uint64(t.Int(1<<20)))
			}
			tx.Inputs = append(tx.Inputs, in)
		case 1:
			tx.Inputs = append(tx.Inputs, &types.AccountInput{Nonce: uint64(t.Int(1 << 16)), Amount: amount(t), CF: Key(t), Commit: Key(t)})
		default:
			tx.Inputs = append(tx.Inputs, &types.MineInput{Height: uint64(t.Int(1 << 24))})
		}
	}
	nout := 1 + t.Int(3)
	for i := 0; i < nout; i++ {
		if t.Bool(2, 3) {
			out := &types.UTXOOutput{OTAddr: Key(t), Amount: amount(t)}
			copy(out.Remark[:], t.Bytes(32))
			tx.Outputs = append(tx.Outputs, out)
			var k ctypes.PublicKey
			copy(k[:], t.Bytes(32))
			tx.AddKeys = append(tx.AddKeys, k)
		} else {
			tx.Outputs = append(tx.Outputs, &types.AccountOutput{To: Address(t), Amount: amount(t), Data: Bytes(t, o.MaxPayload/4), Commit: Key(t)})
		}
	}
	// account signature triple: exported fields of an unexported type
	sg := sigTriple(t)
	sv := reflect.ValueOf(&tx.Sigs).Elem()
	sv.FieldByName("V").Set(reflect.ValueOf(sg.V))
	sv.FieldByName("R").Set(reflect.ValueOf(sg.R))
	sv.FieldByName("S").Set(reflect.ValueOf(sg.S))
	// ring signature: plausible shapes, random content
	r := &tx.RCTSig
	r.Type = uint8(t.Int(4))
	r.TxnFee = ctypes.Lk_amount(t.Int(1 << 30))
	for i := 0; i < nout; i++ {
		r.EcdhInfo = append(r.EcdhInfo, ctypes.EcdhTuple{Mask: Key(t), Amount: Key(t), SenderPK: Key(t)})
		r.OutPk = append(r.OutPk, ctypes.Ctkey{Dest: Key(t), Mask: Key(t)})
	}
	for i, k := 0, t.Int(3); i < k; i++ {
		r.P.PseudoOuts = append(r.P.PseudoOuts, Key(t))
	}
	if t.Bool(1, 2) {
		bp := ctypes.Bulletproof{A: Key(t), S: Key(t), T1: Key(t), T2: Key(t), Taux: Key(t), Mu: Key(t), Aa: Key(t), B: Key(t), T: Key(t)}
		for i, k := 0, 6+t.Int(3); i < k; i++ {
			bp.L = append(bp.L, Key(t))
			bp.R = append(bp.R, Key(t))
		}
		r.P.Bulletproofs = append(r.P.Bulletproofs, bp)
	}
	for i, k := 0, t.Int(3); i < k; i++ {
		mg := ctypes.MgSig{Cc: Key(t)}
		for j, m := 0, 1+t.Int(3); j < m; j++ {
			mg.Ss = append(mg.Ss, ctypes.KeyV{Key(t), Key(t)})
		}
		r.P.MGs = append(r.P.MGs, mg)
	}
	return tx
}

// TxOfKind builds a transaction of the given kind.
func TxOfKind(t *T, k TxKind, o TxOpts) types.Tx {
	switch k {
	case KTransfer:
		return Transaction(t, o, false)
	case KCreate:
		return Transaction(t, o, true)
	case KToken:
		return TokenTransaction(t, o)
	case KMultiSign:
		return MultiSignTx(t)
	case KUpgrade:
		return UpgradeTx(t, o)
	default:
		return UTXOTx(t, o)
	}
}

// Tx builds a transaction of a tape-chosen kind.
func Tx(t *T, o TxOpts) types.Tx {
	k := TxKind(t.Pick(6, 2, 3, 1, 1, boolw(!o.NoUTXO, 2)))
	if t.Bool(1, 8) {
		// arbitrary-field variants of the two kinds with private data
		if t.Bool(1, 2) {
			tx, _ := TransactionRaw(t, o.MaxPayload)
			return tx
		}
		tx, _ := TokenTransactionRaw(t, o.MaxPayload)
		return tx
	}
	return TxOfKind(t, k, o)
}

// Txs builds n transactions.
func Txs(t *T, n int, o TxOpts) types.Txs {
	txs := make(types.Txs, 0, n)
	for i := 0; i < n; i++ {
		txs = append(txs, Tx(t, o))
	}
	return txs
}
