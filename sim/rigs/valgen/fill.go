package valgen

import (
	"math/big"
	"reflect"
	"sync/atomic"
	"time"
)

// Filler is the type-directed generator: it fills any value reachable through
// exported, encoded struct fields with corner-biased content. Interface-typed
// fields are filled from Impl (the registered implementers known to the
// harness); types that cannot be filled through exported fields (transactions
// with private data) come from Custom.
type Filler struct {
	T *T
	// MaxDepth bounds recursion: below it pointers become nil, slices empty
	// and interfaces nil.
	MaxDepth int
	// MaxLen bounds slice lengths and byte-string lengths.
	MaxLen   int
	MaxBytes int
	// NoNil, when set, never produces nil pointers, nil interfaces or nil big
	// ints where a value can be produced (the form realistic traffic has).
	NoNil bool
	// Impl maps an interface type to generators of registered implementers.
	Impl map[reflect.Type][]func(f *Filler, depth int) reflect.Value
	// Custom maps a concrete type to its generator.
	Custom map[reflect.Type]func(f *Filler, depth int) reflect.Value
	// budget of elementary values still to be produced (keeps values small)
	Budget int
}

var (
	bigPtrType  = reflect.TypeOf((*big.Int)(nil))
	bigType     = reflect.TypeOf(big.Int{})
	timeType    = reflect.TypeOf(time.Time{})
	atomicVType = reflect.TypeOf(atomic.Value{})
)

// NewFiller returns a filler with the default implementer tables for the
// interfaces of package types and crypto.
func NewFiller(t *T) *Filler {
	f := &Filler{T: t, MaxDepth: 7, MaxLen: 4, MaxBytes: 80, Budget: 4000,
		Impl:   map[reflect.Type][]func(*Filler, int) reflect.Value{},
		Custom: map[reflect.Type]func(*Filler, int) reflect.Value{}}
	registerDefaults(f)
	return f
}

// New returns a pointer to a freshly filled value of typ.
func (f *Filler) New(typ reflect.Type) reflect.Value {
	p := reflect.New(typ)
	f.Fill(p.Elem(), 0)
	return p
}

// notTransported lists the exported fields that are deliberately kept out of
// the encoding (derived values and caches, tagged rlp:"-" and documented as
// such). The list is explicit on purpose: the harness does NOT read the tag,
// so a field that loses its place in the encoding by a new tag (or by a custom
// encoder forgetting it) is still filled and compared, and shows up as a
// round-trip difference.
var notTransported = map[string]bool{
	"github.com/lianxiangcloud/linkchain/types.CandidateInOrder.RankResult":        true, // derived ranking, recomputed
	"github.com/lianxiangcloud/linkchain/types.TxsResult.CandidatesMap":            true, // index over Candidates
	"github.com/lianxiangcloud/linkchain/types.Log.Removed":                        true, // reorg flag, local
	"github.com/lianxiangcloud/linkchain/types.LogForStorage.Removed":              true,
	"github.com/lianxiangcloud/linkchain/types.EventDataRoundState.RoundState":     true, // "private, not exposed"
	"github.com/lianxiangcloud/linkchain/libs/cryptonote/types.MgSig.II":           true, // recomputed from inputs
	"github.com/lianxiangcloud/linkchain/libs/cryptonote/types.Bulletproof.V":      true, // recomputed from outPk
	"github.com/lianxiangcloud/linkchain/libs/cryptonote/types.RctSigBase.Message": true,
	"github.com/lianxiangcloud/linkchain/libs/cryptonote/types.RctSigBase.MixRing": true,
}

// Skipped reports whether field sf of struct type owner is outside the wire
// form: unexported, or listed in notTransported.
func Skipped(owner reflect.Type, sf reflect.StructField) bool {
	if sf.PkgPath != "" {
		return true
	}
	return notTransported[owner.PkgPath()+"."+owner.Name()+"."+sf.Name]
}

// Fill fills v (settable) in place.
func (f *Filler) Fill(v reflect.Value, depth int) {
	t := f.T
	typ := v.Type()
	f.Budget--
	if c, ok := f.Custom[typ]; ok {
		v.Set(c(f, depth))
		return
	}
	deep := depth >= f.MaxDepth || f.Budget <= 0
	switch typ {
	case bigPtrType:
		if !f.NoNil && t.Bool(1, 8) {
			v.Set(reflect.Zero(typ))
			return
		}
		b := Big(t)
		if !f.NoNil && t.Bool(1, 16) && b.Sign() > 0 {
			// negative: the codec documents it as unencodable and must say so
			// (an error), not write the magnitude
			b.Neg(b)
		}
		v.Set(reflect.ValueOf(b))
		return
	case bigType:
		v.Set(reflect.ValueOf(*Big(t)))
		return
	case timeType:
		v.Set(reflect.ValueOf(Time(t)))
		return
	}
	switch typ.Kind() {
	case reflect.Bool:
		v.SetBool(t.Bool(1, 2))
	case reflect.Int, reflect.Int8, reflect.Int16, reflect.Int32, reflect.Int64:
		v.SetInt(IBits(t, typ.Bits()))
	case reflect.Uint, reflect.Uint8, reflect.Uint16, reflect.Uint32, reflect.Uint64, reflect.Uintptr:
		v.SetUint(UBits(t, typ.Bits()))
	case reflect.String:
		v.SetString(Str(t, f.MaxBytes))
	case reflect.Array:
		if typ.Elem().Kind() == reflect.Uint8 {
			if t.Bool(1, 6) {
				return // zero array
			}
			b := t.Bytes(typ.Len())
			reflect.Copy(v, reflect.ValueOf(b))
			return
		}
		if typ.Len() > 8 {
			// large arrays of arrays (Key64): fill a few cells only
			for k := 0; k < 3; k++ {
				f.Fill(v.Index(t.Int(typ.Len())), depth+1)
			}
			return
		}
		for i := 0; i < typ.Len(); i++ {
			f.Fill(v.Index(i), depth+1)
		}
	case reflect.Slice:
		if typ.Elem().Kind() == reflect.Uint8 {
			b := Bytes(t, f.MaxBytes)
			if b == nil {
				if t.Bool(1, 2) {
					v.Set(reflect.MakeSlice(typ, 0, 0))
				} else {
					v.Set(reflect.Zero(typ))
				}
				return
			}
			s := reflect.MakeSlice(typ, len(b), len(b))
			reflect.Copy(s, reflect.ValueOf(b))
			v.Set(s)
			return
		}
		n := 0
		if !deep {
			switch t.Pick(2, 3, 2, 1) {
			case 0:
				n = 0
			case 1:
				n = 1
			case 2:
				n = 2
			default:
				n = 1 + t.Int(f.MaxLen)
			}
		}
		if typ.Elem().Size() > 2048 && n > 1 {
			n = 1
		}
		if n == 0 {
			if t.Bool(1, 2) {
				v.Set(reflect.Zero(typ))
			} else {
				v.Set(reflect.MakeSlice(typ, 0, 0))
			}
			return
		}
		s := reflect.MakeSlice(typ, n, n)
		for i := 0; i < n; i++ {
			f.Fill(s.Index(i), depth+1)
		}
		v.Set(s)
	case reflect.Map:
		if deep || t.Bool(1, 5) {
			if f.NoNil || t.Bool(1, 2) {
				v.Set(reflect.MakeMap(typ))
			} else {
				v.Set(reflect.Zero(typ))
			}
			return
		}
		n := 1 + t.Int(6)
		m := reflect.MakeMap(typ)
		for i := 0; i < n; i++ {
			k := reflect.New(typ.Key()).Elem()
			f.Fill(k, depth+1)
			e := reflect.New(typ.Elem()).Elem()
			if typ.Elem() == bigPtrType {
				e.Set(reflect.ValueOf(Big(t))) // the map codec dereferences its values
			} else {
				f.Fill(e, depth+1)
			}
			m.SetMapIndex(k, e)
		}
		v.Set(m)
	case reflect.Ptr:
		// (no encoded type is recursive, so NoNil mode terminates without a
		// depth cut; slices shrink to empty below MaxDepth)
		if !f.NoNil && (deep || t.Bool(1, 6)) {
			v.Set(reflect.Zero(typ))
			return
		}
		p := reflect.New(typ.Elem())
		f.Fill(p.Elem(), depth+1)
		v.Set(p)
	case reflect.Interface:
		impls := f.Impl[typ]
		if len(impls) == 0 || (!f.NoNil && (deep || t.Bool(1, 8))) {
			v.Set(reflect.Zero(typ))
			return
		}
		v.Set(impls[t.Int(len(impls))](f, depth+1))
	case reflect.Struct:
		if typ == atomicVType {
			return
		}
		for i := 0; i < typ.NumField(); i++ {
			sf := typ.Field(i)
			if Skipped(typ, sf) {
				continue
			}
			fv := v.Field(i)
			if !fv.CanSet() {
				continue
			}
			f.Fill(fv, depth+1)
		}
	default:
		// func, chan, float, complex: not part of any encoded type
	}
}

// FillPtr fills *ptr and returns ptr (convenience for typed constructors).
func FillPtr[V any](f *Filler, ptr *V) *V {
	f.Fill(reflect.ValueOf(ptr).Elem(), 1)
	return ptr
}
