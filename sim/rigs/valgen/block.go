package valgen

import (
	"reflect"

	"github.com/lianxiangcloud/linkchain/libs/common"
	"github.com/lianxiangcloud/linkchain/libs/crypto"
	"github.com/lianxiangcloud/linkchain/types"
)

// PartSetHeader draws a part-set header (non-zero).
func PartSetHeader(t *T) types.PartSetHeader {
	return types.PartSetHeader{Total: 1 + t.Int(64), Hash: NBytes(t, 32)}
}

// BlockID draws a non-zero block id.
func BlockID(t *T) types.BlockID {
	return types.BlockID{Hash: NZHash(t), PartsHeader: PartSetHeader(t)}
}

// Vote draws a vote of the given type at height/round for blockID by validator
// idx of nvals.
func Vote(t *T, typ byte, height uint64, round int, idx, nvals int, id types.BlockID) *types.Vote {
	return &types.Vote{
		ValidatorAddress: crypto.Address(NBytes(t, 20)),
		ValidatorIndex:   idx,
		ValidatorSize:    nvals,
		Height:           height,
		Round:            round,
		Timestamp:        Time(t),
		Type:             typ,
		BlockID:          id,
		Signature:        Signature(t),
	}
}

// AnyVote draws a free-standing vote.
func AnyVote(t *T) *types.Vote {
	id := types.BlockID{}
	if t.Bool(3, 4) {
		id = BlockID(t)
	}
	n := 1 + t.Int(10)
	return Vote(t, []byte{types.VoteTypePrevote, types.VoteTypePrecommit}[t.Int(2)], 1+uint64(t.Int(1<<20)), t.Int(5), t.Int(n), n, id)
}

// Commit draws a commit for blockID at height with nvals validator slots,
// some of them absent (nil), at least one present; it passes
// Commit.ValidateBasic.
func Commit(t *T, height uint64, nvals int, id types.BlockID) *types.Commit {
	c := &types.Commit{BlockID: id}
	round := t.Int(4)
	present := 0
	for i := 0; i < nvals; i++ {
		if t.Bool(1, 4) && !(i == nvals-1 && present == 0) {
			c.Precommits = append(c.Precommits, nil)
			continue
		}
		present++
		c.Precommits = append(c.Precommits, Vote(t, types.VoteTypePrecommit, height, round, i, nvals, id))
	}
	return c
}

// Validator draws a validator.
func Validator(t *T) *types.Validator {
	pk := PubKey(t)
	return &types.Validator{Address: pk.Address(), PubKey: pk, CoinBase: Address(t), VotingPower: int64(1 + t.Int(1000)), Accum: IBits(t, 40)}
}

// ValidatorSet draws a validator set of n validators (sorted, proposer set).
func ValidatorSet(t *T, n int) *types.ValidatorSet {
	vals := make([]*types.Validator, n)
	for i := range vals {
		vals[i] = Validator(t)
		vals[i].Accum = 0
	}
	return types.NewValidatorSet(vals)
}

// DuplicateVoteEvidence draws structurally valid duplicate-vote evidence.
func DuplicateVoteEvidence(t *T) *types.DuplicateVoteEvidence {
	pk := PubKey(t)
	h, r := 1+uint64(t.Int(1<<20)), t.Int(4)
	n := 1 + t.Int(8)
	idx := t.Int(n)
	typ := []byte{types.VoteTypePrevote, types.VoteTypePrecommit}[t.Int(2)]
	a := Vote(t, typ, h, r, idx, n, BlockID(t))
	b := Vote(t, typ, h, r, idx, n, BlockID(t))
	a.ValidatorAddress, b.ValidatorAddress = pk.Address(), pk.Address()
	return &types.DuplicateVoteEvidence{PubKey: pk, VoteA: a, VoteB: b}
}

// FaultValidatorsEvidence draws fault-validator evidence.
func FaultValidatorsEvidence(t *T) *types.FaultValidatorsEvidence {
	return &types.FaultValidatorsEvidence{BlockHeight: 1 + uint64(t.Int(1<<20)), Round: t.Int(5), Proposer: PubKey(t), FaultVal: PubKey(t)}
}

// Evidence draws one piece of (non-mock) evidence.
func Evidence(t *T) types.Evidence {
	if t.Bool(2, 3) {
		return DuplicateVoteEvidence(t)
	}
	return FaultValidatorsEvidence(t)
}

// BlockOpts bounds generated blocks.
type BlockOpts struct {
	MaxTxs      int
	MaxEvidence int
	MaxVals     int
	Tx          TxOpts
	Height      uint64 // 0: drawn (height 1 with an empty last commit sometimes)
}

// Header draws a header with every field set (body hashes random).
func Header(t *T) *types.Header {
	h := &types.Header{
		ChainID:        Ident(t, 12),
		Height:         1 + uint64(t.Int(1<<24)),
		Coinbase:       Address(t),
		Time:           1500000000 + uint64(t.Int(400000000)),
		NumTxs:         uint64(t.Int(100)),
		TotalTxs:       uint64(t.Int(1 << 30)),
		Recover:        uint32(t.Pick(6, 1, 1)),
		ParentHash:     NZHash(t),
		LastBlockID:    BlockID(t),
		LastCommitHash: NZHash(t),
		ValidatorsHash: NZHash(t),
		ConsensusHash:  NZHash(t),
		DataHash:       NZHash(t),
		StateHash:      NZHash(t),
		ReceiptHash:    NZHash(t),
		GasLimit:       uint64(t.Int(1 << 40)),
		GasUsed:        uint64(t.Int(1 << 36)),
		EvidenceHash:   NZHash(t),
	}
	return h
}

// FillBodyHashes makes the header agree with the body, as the proposer does.
func FillBodyHashes(b *types.Block) {
	b.NumTxs = uint64(len(b.Data.Txs))
	b.DataHash = b.Data.Hash()
	b.LastCommitHash = b.LastCommit.Hash()
	b.EvidenceHash = b.Evidence.Hash()
}

// Block draws a block that is internally consistent (passes ValidateBasic):
// header hashes agree with the transactions, evidence and last commit.
func Block(t *T, o BlockOpts) *types.Block {
	h := Header(t)
	if o.Height != 0 {
		h.Height = o.Height
	} else if t.Bool(1, 10) {
		h.Height = types.BlockHeightOne
	}
	ntx := 0
	if o.MaxTxs > 0 && t.Bool(9, 10) {
		ntx = 1 + t.Int(o.MaxTxs)
	}
	txs := Txs(t, ntx, o.Tx)
	var commit *types.Commit
	if h.Height == types.BlockHeightOne {
		commit = &types.Commit{} // "empty for height 1, but never nil"
		h.LastBlockID = types.BlockID{}
	} else {
		nv := 1 + t.Int(max1(o.MaxVals))
		commit = Commit(t, h.Height-1, nv, h.LastBlockID)
	}
	var ev types.EvidenceList
	if o.MaxEvidence > 0 && t.Bool(1, 2) {
		for i, k := 0, 1+t.Int(o.MaxEvidence); i < k; i++ {
			ev = append(ev, Evidence(t))
		}
	}
	b := &types.Block{Header: h, Data: &types.Data{Txs: txs}, Evidence: types.EvidenceData{Evidence: ev}, LastCommit: commit}
	FillBodyHashes(b)
	return b
}

func max1(n int) int {
	if n < 1 {
		return 1
	}
	return n
}

// Proposal draws a proposal.
func Proposal(t *T) *types.Proposal {
	p := &types.Proposal{
		Type:             []byte{types.ProposalTypeNormal, types.ProposalTypeRecover}[t.Pick(5, 1)],
		Height:           1 + uint64(t.Int(1<<24)),
		Round:            t.Int(6),
		Timestamp:        Time(t),
		BlockPartsHeader: PartSetHeader(t),
		POLRound:         -1,
		Signature:        Signature(t),
	}
	if t.Bool(1, 3) {
		p.POLRound = t.Int(p.Round + 1)
		p.POLBlockID = BlockID(t)
	}
	return p
}

// Heartbeat draws a proposal heartbeat.
func Heartbeat(t *T) *types.Heartbeat {
	return &types.Heartbeat{ValidatorAddress: crypto.Address(NBytes(t, 20)), ValidatorIndex: t.Int(10), Height: 1 + uint64(t.Int(1<<24)),
		Round: t.Int(6), Sequence: t.Int(1000), Signature: Signature(t)}
}

// Log draws a contract log with the consensus fields only (what travels in a
// receipt); storage sets the derived fields too.
func Log(t *T, storage bool) *types.Log {
	l := &types.Log{Address: Address(t), Data: Bytes(t, 96)}
	for i, k := 0, t.Int(5); i < k; i++ {
		l.Topics = append(l.Topics, Hash(t))
	}
	if storage {
		l.BlockNumber = uint64(t.Int(1 << 24))
		l.TxHash = Hash(t)
		l.TxIndex = uint(t.Int(1000))
		l.BlockHash = Hash(t)
		l.Index = uint(t.Int(1000))
		l.BlockTime = 1500000000 + uint64(t.Int(400000000))
	}
	return l
}

// Receipt draws a transaction receipt.
func Receipt(t *T, storage bool) *types.Receipt {
	r := &types.Receipt{PostState: Bytes(t, 32), Status: uint64(t.Int(2)), CumulativeGasUsed: uint64(t.Int(1 << 30)),
		TxHash: Hash(t), ContractAddress: Address(t), GasUsed: uint64(t.Int(1 << 24))}
	if r.Status == types.ReceiptStatusFailed {
		r.VMErr = Ident(t, 30)
	}
	copy(r.Bloom[:], t.Bytes(len(r.Bloom)))
	for i, k := 0, t.Int(4); i < k; i++ {
		r.Logs = append(r.Logs, Log(t, storage))
	}
	return r
}

// registerDefaults installs the implementer tables of the interfaces declared
// in packages types and crypto, and the generators of the types whose data is
// private.
func registerDefaults(f *Filler) {
	txo := TxOpts{MaxPayload: 64}
	val := func(v interface{}) reflect.Value { return reflect.ValueOf(v) }
	ifc := func(p interface{}) reflect.Type { return reflect.TypeOf(p).Elem() }

	f.Impl[ifc((*types.Tx)(nil))] = []func(*Filler, int) reflect.Value{
		func(f *Filler, d int) reflect.Value { return val(Tx(f.T, txo)) },
	}
	f.Impl[ifc((*types.RegularTx)(nil))] = []func(*Filler, int) reflect.Value{
		func(f *Filler, d int) reflect.Value { return val(Transaction(f.T, txo, f.T.Bool(1, 4))) },
		func(f *Filler, d int) reflect.Value { return val(TokenTransaction(f.T, txo)) },
	}
	f.Impl[ifc((*types.Evidence)(nil))] = []func(*Filler, int) reflect.Value{
		func(f *Filler, d int) reflect.Value { return f.New(reflect.TypeOf(types.DuplicateVoteEvidence{})) },
		func(f *Filler, d int) reflect.Value { return f.New(reflect.TypeOf(types.FaultValidatorsEvidence{})) },
		func(f *Filler, d int) reflect.Value {
			return val(types.MockGoodEvidence{Height_: U64(f.T), Address_: Bytes(f.T, 20)})
		},
		func(f *Filler, d int) reflect.Value {
			return val(types.MockBadEvidence{MockGoodEvidence: types.MockGoodEvidence{Height_: U64(f.T), Address_: Bytes(f.T, 20)}})
		},
	}
	f.Impl[ifc((*crypto.PubKey)(nil))] = []func(*Filler, int) reflect.Value{
		func(f *Filler, d int) reflect.Value { return val(PubKey(f.T)) },
	}
	f.Impl[ifc((*crypto.Signature)(nil))] = []func(*Filler, int) reflect.Value{
		func(f *Filler, d int) reflect.Value { return val(Signature(f.T)) },
	}
	f.Impl[ifc((*types.Input)(nil))] = []func(*Filler, int) reflect.Value{
		func(f *Filler, d int) reflect.Value { return f.New(reflect.TypeOf(types.UTXOInput{})) },
		func(f *Filler, d int) reflect.Value { return f.New(reflect.TypeOf(types.AccountInput{})) },
		func(f *Filler, d int) reflect.Value { return f.New(reflect.TypeOf(types.MineInput{})) },
	}
	f.Impl[ifc((*types.Output)(nil))] = []func(*Filler, int) reflect.Value{
		func(f *Filler, d int) reflect.Value { return f.New(reflect.TypeOf(types.UTXOOutput{})) },
		func(f *Filler, d int) reflect.Value { return f.New(reflect.TypeOf(types.AccountOutput{})) },
	}

	// private-data transaction kinds
	f.Custom[reflect.TypeOf(types.Transaction{})] = func(f *Filler, d int) reflect.Value {
		tx, _ := TransactionRaw(f.T, 64)
		return reflect.ValueOf(tx).Elem()
	}
	f.Custom[reflect.TypeOf(types.TokenTransaction{})] = func(f *Filler, d int) reflect.Value {
		tx, _ := TokenTransactionRaw(f.T, 64)
		return reflect.ValueOf(tx).Elem()
	}
	f.Custom[reflect.TypeOf(types.ContractUpgradeTx{})] = func(f *Filler, d int) reflect.Value {
		return reflect.ValueOf(UpgradeTx(f.T, txo)).Elem()
	}
	// a log inside a receipt carries the consensus fields only
	f.Custom[reflect.TypeOf(types.Log{})] = func(f *Filler, d int) reflect.Value {
		return reflect.ValueOf(Log(f.T, false)).Elem()
	}
	f.Custom[reflect.TypeOf(types.LogForStorage{})] = func(f *Filler, d int) reflect.Value {
		return reflect.ValueOf((*types.LogForStorage)(Log(f.T, true))).Elem()
	}
	_ = common.Address{}
}
