package dbrig

import (
	"bytes"
	"fmt"
	"sort"

	dbm "github.com/lianxiangcloud/linkchain/libs/db"

	"verif/sim/kernel"
)

type iterSpec struct {
	kind    int
	tgt     int
	a, b    []byte // start,end — or the prefix in a
	seekAt  int    // -1: no Seek; else Seek replaces the read of item seekAt (only if the iterator is still valid there)
	seekKey []byte
	stopAt  int // -1: run to the end; else Close after stopAt items
}

func (sp *iterSpec) String(s *sim) string {
	var d string
	switch sp.kind {
	case kFwd, kRev:
		d = fmt.Sprintf("%s.%s(%s,%s)", s.tgtName(sp.tgt), kindName[sp.kind], hx(sp.a), hx(sp.b))
	case kPfx:
		d = fmt.Sprintf("%s.NewIteratorWithPrefix(%s)", s.tgtName(sp.tgt), hx(sp.a))
	default:
		d = fmt.Sprintf("IteratePrefix(%s,%s)", s.tgtName(sp.tgt), hx(sp.a))
	}
	if sp.seekAt >= 0 {
		d += fmt.Sprintf(" Seek(%s)@%d", hx(sp.seekKey), sp.seekAt)
	}
	if sp.stopAt >= 0 {
		d += fmt.Sprintf(" Close@%d", sp.stopAt)
	}
	return d
}

func cls3(b []byte) string {
	switch {
	case b == nil:
		return "nil"
	case len(b) == 0:
		return "empty"
	}
	return "key"
}

func pcls(p []byte) string {
	switch {
	case p == nil:
		return "nil"
	case len(p) == 0:
		return "empty"
	case p[len(p)-1] == 0xff:
		return "ends-0xff"
	}
	return "plain"
}

func (s *sim) opIterate() {
	sp := &iterSpec{seekAt: -1, stopAt: -1}
	sp.tgt = s.pickTarget()
	sp.kind = s.ops.Pick(36, 36, 16, 12)
	switch sp.kind {
	case kFwd, kRev:
		sp.a, sp.b = s.genBound(sp.tgt), s.genBound(sp.tgt)
		// mostly well-formed domains; a few inverted/empty ones stay in
		if sp.a != nil && sp.b != nil {
			c := bytes.Compare(sp.a, sp.b)
			if (sp.kind == kFwd && c > 0) || (sp.kind == kRev && c < 0) {
				if s.ops.Bool(9, 10) {
					sp.a, sp.b = sp.b, sp.a
				}
			}
		}
	default:
		sp.a = s.genBound(sp.tgt)
		if len(sp.a) > 3 && s.ops.Bool(1, 2) {
			sp.a = sp.a[:s.ops.Range(1, 3)]
		}
		if s.shards > 1 && sp.kind == kIterPfx {
			// keep the signatures of the sharded engines' own deviations apart from
			// the common helper's 0xFF end bound (exercised in the unsharded runs)
			for len(sp.a) > 0 && sp.a[len(sp.a)-1] == 0xff {
				sp.a = sp.a[:len(sp.a)-1]
			}
		}
	}
	if s.shards > 1 && sp.kind == kRev && sp.a != nil && len(sp.a) == 0 {
		sp.a = nil // (same reason: badger's reverse-from-empty-key deviation has its own signature)
	}
	// expected range on the canonical model decides where Seek / Close land
	R, _ := s.expected(s.be[0], &iterSpec{kind: sp.kind, tgt: sp.tgt, a: sp.a, b: sp.b, seekAt: -1, stopAt: -1})
	if s.shards == 1 {
		if len(R) > 0 && s.ops.Bool(1, 4) {
			sp.seekAt = s.ops.Int(len(R))
			sp.seekKey = s.genBound(sp.tgt)
			if sp.tgt >= 0 && sp.seekKey != nil && len(sp.seekKey) == 0 {
				sp.seekKey = nil
			}
			if !seekAllowed(sp) {
				sp.seekAt, sp.seekKey = -1, nil
			} else if sp.tgt >= 0 {
				// prefixIterator.Seek opens a second underlying iterator and drops it
				// unclosed (it assigns it to a copy of itself); on badger that pins a
				// 17 MB memtable arena for the life of the process. One Seek on a view
				// in every third run is enough to keep observing the defect.
				if s.viewSeekLeft == 0 {
					sp.seekAt, sp.seekKey = -1, nil
				} else {
					s.viewSeekLeft--
					s.c.Probe("view-seek")
				}
			}
		}
		if s.ops.Bool(1, 8) {
			sp.stopAt = s.ops.Int(len(R) + 2)
		}
	}
	s.tracef("%s", sp.String(s))
	s.doIterate(sp)
}

// seekAllowed keeps Seek on the documented side of the iterator's start.
func seekAllowed(sp *iterSpec) bool {
	k := sp.seekKey
	switch sp.kind {
	case kFwd:
		if len(sp.a) == 0 {
			return true
		}
		return k != nil && bytes.Compare(k, sp.a) >= 0
	case kRev:
		if sp.a == nil {
			return true
		}
		return k != nil && bytes.Compare(k, sp.a) <= 0
	default:
		if len(sp.a) == 0 {
			return true
		}
		if sp.kind == kIterPfx && sp.a[len(sp.a)-1] == 0xff {
			// IteratePrefix's end bound is wrong for such prefixes (listed finding);
			// a Seek would only show the same overrun under another signature
			return false
		}
		return k != nil && bytes.HasPrefix(k, sp.a)
	}
}

// expected computes the stream the reference map yields for sp on backend b's
// model; seeked tells whether the Seek is reached.
func (s *sim) expected(b *backend, sp *iterSpec) (exp []kv, seeked bool) {
	items := b.m.space(s.prefixOf(sp.tgt))
	var R []kv
	switch sp.kind {
	case kFwd:
		R = fwd(items, sp.a, sp.b)
	case kRev:
		R = rev(items, sp.a, sp.b)
	default:
		R = withPrefix(items, sp.a, nil)
	}
	exp = R
	if sp.seekAt >= 0 && sp.seekAt < len(R) {
		var R2 []kv
		switch sp.kind {
		case kFwd:
			R2 = fwd(items, sp.seekKey, sp.b)
		case kRev:
			R2 = rev(items, sp.seekKey, sp.b)
		default:
			R2 = withPrefix(items, sp.a, sp.seekKey)
		}
		exp = append(append([]kv{}, R[:sp.seekAt]...), R2...)
		seeked = true
	}
	if sp.stopAt >= 0 && sp.stopAt < len(exp) {
		exp = exp[:sp.stopAt]
	}
	return
}

type iterRes struct {
	seq       []kv
	seeked    bool
	panicked  bool
	site, msg string
}

func (s *sim) runIter(b *backend, sp *iterSpec, limit int) (r iterRes) {
	r.site, r.msg, r.panicked = kernel.Try(func() {
		h := b.handle(sp.tgt)
		var it dbm.Iterator
		switch sp.kind {
		case kFwd:
			it = h.Iterator(cpb(sp.a), cpb(sp.b))
		case kRev:
			it = h.ReverseIterator(cpb(sp.a), cpb(sp.b))
		case kPfx:
			it = h.NewIteratorWithPrefix(cpb(sp.a))
		default:
			it = dbm.IteratePrefix(h, cpb(sp.a))
		}
		defer it.Close()
		n := 0
		for it.Valid() {
			if n == sp.seekAt && !r.seeked {
				r.seeked = true
				it.Seek(cpb(sp.seekKey))
				continue
			}
			if n == sp.stopAt {
				break
			}
			r.seq = append(r.seq, kv{cpb(it.Key()), cpb(it.Value())})
			n++
			if n > limit {
				break
			}
			it.Next()
		}
	})
	return
}

// classify names the first difference between the expected and the actual
// stream ("" = equal). seekPos >= 0 marks the index of the first item after a
// Seek.
func classify(exp, act []kv, seekPos int) (string, int) {
	n := len(exp)
	if len(act) < n {
		n = len(act)
	}
	i := 0
	for i < n && bytes.Equal(exp[i].k, act[i].k) && bytes.Equal(exp[i].v, act[i].v) {
		i++
	}
	if i == len(exp) && i == len(act) {
		return "", -1
	}
	if seekPos >= 0 && i == seekPos {
		return "seek-position", i
	}
	if i >= len(act) {
		return "missing", i
	}
	a := act[i]
	if i < len(exp) && bytes.Equal(exp[i].k, a.k) {
		return "value", i
	}
	for j := 0; j < i; j++ {
		if bytes.Equal(act[j].k, a.k) {
			return "dup", i
		}
	}
	for j := i + 1; j < len(exp); j++ {
		if bytes.Equal(exp[j].k, a.k) {
			return "missing", i
		}
	}
	return "extra", i
}

func sortedByKey(in []kv) []kv {
	out := append([]kv{}, in...)
	sort.SliceStable(out, func(i, j int) bool { return bytes.Compare(out[i].k, out[j].k) < 0 })
	return out
}

func fmtSeq(seq []kv, around int) string {
	lo, hi := around-3, around+4
	if lo < 0 {
		lo = 0
	}
	if hi > len(seq) {
		hi = len(seq)
	}
	s := fmt.Sprintf("len=%d [", len(seq))
	if lo > 0 {
		s += "… "
	}
	for i := lo; i < hi; i++ {
		s += fmt.Sprintf("#%d %s=%s ", i, hx(seq[i].k), vshort(seq[i].v))
	}
	if hi < len(seq) {
		s += "…"
	}
	return s + "]"
}

func (s *sim) iterOpKey(sp *iterSpec, typ string) string {
	view := sp.tgt >= 0
	if typ == "seek-position" {
		if view {
			return "view.Seek"
		}
		return kindName[sp.kind] + ".Seek(" + cls3(sp.seekKey) + ")"
	}
	name := kindName[sp.kind]
	if view {
		name = "view." + name
	}
	switch sp.kind {
	case kRev:
		name += "[start=" + cls3(sp.a)
		if view {
			if s.views[sp.tgt].ff {
				name += ",viewprefix=ends-0xff"
			} else {
				name += ",viewprefix=plain"
			}
		}
		name += "]"
	case kPfx, kIterPfx:
		name += "[prefix=" + pcls(sp.a) + "]"
	}
	return name
}

// doIterate runs sp on every backend and compares with the model.
func (s *sim) doIterate(sp *iterSpec) bool {
	if sp.kind == kRev && sp.a == nil && sp.tgt >= 0 {
		s.c.Probe("view-reverse-from-end")
	}
	if (sp.kind == kPfx || sp.kind == kIterPfx) && len(sp.a) > 0 && sp.a[len(sp.a)-1] == 0xff {
		s.c.Probe("prefix-iteration-0xff")
	}
	if sp.a != nil && sp.b != nil && sp.kind <= kRev {
		c := bytes.Compare(sp.a, sp.b)
		if c == 0 || (sp.kind == kFwd && c > 0) || (sp.kind == kRev && c < 0) {
			s.c.Probe("iterator-domain-inverted-or-empty")
		}
	}
	limit := 2*len(s.be[0].m) + 8
	// one key per (operation signature, mismatch kind): group backends by it
	type grp struct {
		mm map[int]string
	}
	groups := map[string]*grp{}
	var order []string
	pm := map[int]string{}
	res := make([]iterRes, len(s.be))
	exps := make([][]kv, len(s.be))
	at := make([]int, len(s.be))
	min := -1
	for i, b := range s.be {
		exp, willSeek := s.expected(b, sp)
		res[i] = s.runIter(b, sp, limit)
		s.c.Evals(1)
		if res[i].panicked {
			pm[i] = "panic"
			continue
		}
		act := res[i].seq
		sharded := s.shards > 1 && b.persistent
		if sharded {
			exp, act = sortedByKey(exp), sortedByKey(act)
		}
		exps[i] = exp
		seekPos := -1
		if willSeek && res[i].seeked {
			seekPos = sp.seekAt
		}
		typ, where := classify(exp, act, seekPos)
		at[i] = where
		if min < 0 || len(act) < min {
			min = len(act)
		}
		if typ == "" {
			continue
		}
		opKey := s.iterOpKey(sp, typ)
		g := groups[opKey]
		if g == nil {
			g = &grp{mm: map[int]string{}}
			groups[opKey] = g
			order = append(order, opKey)
		}
		g.mm[i] = typ
	}
	if min >= 2 {
		s.nIter2++
	}
	if sp.seekAt >= 0 {
		s.c.Probe("iterator-seek")
	}
	if sp.stopAt >= 0 {
		s.c.Probe("iterator-early-close")
	}
	if s.report("panic", s.iterOpKey(sp, ""), pm, func(i int) string {
		return fmt.Sprintf("%s panicked at %s: %s", sp.String(s), res[i].site, res[i].msg)
	}) {
		return true
	}
	sort.Strings(order)
	for _, opKey := range order {
		g := groups[opKey]
		if s.reportX("equivalence", opKey, "iterate#sharded", g.mm, func(i int) string {
			return fmt.Sprintf("%s: first difference at item %d (%s); model %s; backend %s", sp.String(s), at[i], g.mm[i], fmtSeq(exps[i], at[i]), fmtSeq(func() []kv {
				if s.shards > 1 && s.be[i].persistent {
					return sortedByKey(res[i].seq)
				}
				return res[i].seq
			}(), at[i]))
		}) {
			return true
		}
	}
	return false
}

// audit compares the whole content of every backend (and every view) with
// its model, forward and reverse.
func (s *sim) audit(why string) {
	s.tracef("%s", why)
	specs := []*iterSpec{
		{kind: kFwd, tgt: -1, seekAt: -1, stopAt: -1},
		{kind: kRev, tgt: -1, seekAt: -1, stopAt: -1},
	}
	for i := range s.views {
		specs = append(specs, &iterSpec{kind: kFwd, tgt: i, seekAt: -1, stopAt: -1})
	}
	for _, sp := range specs {
		if s.doIterate(sp) {
			return
		}
	}
}
