package dbrig

import (
	"bytes"
	"sort"
)

// kv is one (key, value) pair of an ordered map or of an iterator stream.
type kv struct{ k, v []byte }

// model is the reference: a plain map from full key to value. Ordering is
// computed on demand with bytes.Compare; nothing here is taken from the code
// under test.
type model map[string][]byte

func (m model) clone() model {
	c := make(model, len(m))
	for k, v := range m {
		c[k] = v
	}
	return c
}

// sorted returns all pairs in ascending key order.
func (m model) sorted() []kv {
	out := make([]kv, 0, len(m))
	for k, v := range m {
		out = append(out, kv{[]byte(k), v})
	}
	sort.Slice(out, func(i, j int) bool { return bytes.Compare(out[i].k, out[j].k) < 0 })
	return out
}

// space returns the ascending content of the key space seen through a view
// with effective prefix p (p empty: the base space), keys stripped of p.
func (m model) space(p []byte) []kv {
	all := m.sorted()
	if len(p) == 0 {
		return all
	}
	out := all[:0:0]
	for _, e := range all {
		if bytes.HasPrefix(e.k, p) {
			out = append(out, kv{e.k[len(p):], e.v})
		}
	}
	return out
}

// fwd: ascending keys k with start <= k < end; nil start = from the first,
// nil end = to the last.
func fwd(items []kv, start, end []byte) []kv {
	var out []kv
	for _, e := range items {
		if start != nil && bytes.Compare(e.k, start) < 0 {
			continue
		}
		if end != nil && bytes.Compare(e.k, end) >= 0 {
			continue
		}
		out = append(out, e)
	}
	return out
}

// rev: descending keys k with end < k <= start; nil start = from the last,
// nil end = to the first.
func rev(items []kv, start, end []byte) []kv {
	var out []kv
	for i := len(items) - 1; i >= 0; i-- {
		e := items[i]
		if start != nil && bytes.Compare(e.k, start) > 0 {
			continue
		}
		if end != nil && bytes.Compare(e.k, end) <= 0 {
			continue
		}
		out = append(out, e)
	}
	return out
}

// withPrefix: ascending keys having prefix p, optionally only those >= from.
func withPrefix(items []kv, p []byte, from []byte) []kv {
	var out []kv
	for _, e := range items {
		if !bytes.HasPrefix(e.k, p) {
			continue
		}
		if from != nil && bytes.Compare(e.k, from) < 0 {
			continue
		}
		out = append(out, e)
	}
	return out
}

// succ returns the smallest byte string greater than every string having
// prefix p, or nil if there is none (p empty or all 0xFF).
func succ(p []byte) []byte {
	for i := len(p) - 1; i >= 0; i-- {
		if p[i] != 0xff {
			out := append([]byte{}, p[:i+1]...)
			out[i]++
			return out
		}
	}
	return nil
}

func cpb(b []byte) []byte {
	if b == nil {
		return nil
	}
	return append([]byte{}, b...)
}

func cat(a, b []byte) []byte {
	out := make([]byte, 0, len(a)+len(b))
	out = append(out, a...)
	return append(out, b...)
}
