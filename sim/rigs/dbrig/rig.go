// Package dbrig is the rig of property C19: every storage backend of
// libs/db (memdb, goleveldb, bolt, badger and prefix views of them) behaves
// like one reference ordered map with atomic batches, also across close and
// reopen. Real engines run on real scratch directories; every run is a
// tape-driven history applied to all backends at once and compared, operation
// by operation, with a sorted-map model.
package dbrig

import (
	"bytes"
	"encoding/hex"
	"fmt"
	"os"
	"path/filepath"
	"sort"
	"strconv"
	"time"

	dbm "github.com/lianxiangcloud/linkchain/libs/db"
	"github.com/lianxiangcloud/linkchain/libs/log"

	"verif/sim/kernel"
)

func init() {
	log.Root().SetHandler(log.DiscardHandler())
	kernel.Register(&kernel.Rig{
		Property: "C19",
		Name:     "dbrig",
		Level:    "exploration",
		Rule: "one run = one tape-driven history (quick 30-140, thorough 80-500 steps; per-run swarm of step weights, key alphabet, 0-3 prefix views incl. nested and 0xFF-terminated ones, " +
			"~1/8 of runs with db_counts 2-4) applied simultaneously to memdb, goleveldb, bolt and badger opened on per-run scratch directories: Set/SetSync/Put, Delete/DeleteSync/Del, " +
			"Get/Load/Has/Exist, batches (filled across several steps, interleaved with other steps; Write/Commit/WriteSync, abandoned, Reset, Reset-and-reused, written-Reset-reused), " +
			"Iterator/ReverseIterator/NewIteratorWithPrefix/IteratePrefix with bounds drawn around existing keys (optionally Seek inside the domain while valid, or early Close), close+reopen (also through a view), full audits, and in about one run in six one batch-reuse scenario on badger in a child process; " +
			"keys nil/empty/binary/shared-prefix/0xFF-terminated, values non-empty (1 B - 2 KiB). Oracle after every step: sorted-map model per backend (read-back of every written key, point reads, full iterator streams). " +
			"Non-trivial: >=20 steps, >=1 written batch with >=2 ops, >=1 iteration that returned >=2 pairs on every backend. Distinct = hash of the step sequence and final content.",
		Real: []string{"libs/db MemDB", "libs/db GoLevelDB on goleveldb v1.0.0 (real files)", "libs/db BoltDB on boltdb v1.3.1 (real files, fsync)", "libs/db BadgerDB on badger v1.6.0 (real files)",
			"libs/db prefixDB / prefixBatch / prefixIterator", "libs/db IteratePrefix, PrefixToEnd"},
		Stub: []string{"none (cleveldb does not compile under its 'gcc' build tag in this tree; fsdb and DebugDB are outside the statement)"},
		Assumptions: []string{
			"restart = clean Close + reopen only: the third-party engines (goleveldb, bolt, badger) have no seam under them, so a crash in the middle of an engine write is not simulated; 'not at all' is checked for abandoned and Reset batches and for batches open at Close",
			"documented contracts are respected: no write while an iterator is open, no use after Close, key/value slices are never modified after the call, a batch is reused only after Reset (writing the same batch twice without Reset is backend-specific: bolt clears it, the others replay it)",
			"Seek is only issued while the iterator is valid and with a key inside the iterator's domain side of start (forward: key >= start; reverse: key <= start); the value returned by Next() is ignored (backends differ; the documented loop is Valid/Next)",
			"an iterator whose start is not before its end (forward) / after its end (reverse) is expected to be invalid from the beginning, as the interface comment says",
			"the error value of Load/Exist for a missing key and empty values are excluded as in the statement; values are always non-empty",
			"with db_counts>1 (opt-in sharding, default 1) the engines iterate shard by shard; global key order is then not demanded, only the multiset of pairs; Seek/early Close and prefix views are not combined with sharding",
			"badger batches are used once in-process (a second Write/Commit after Write or Reset panics in a goroutine the adapter spawns, which would kill the worker); the reuse pattern is exercised on badger in a child process instead",
			"bolt auto-flushes a batch at 100000 ops and badger splits oversized batches: batch sizes here stay far below both",
			"harness hygiene that does not touch the ordered map: a badger instance that saw no write since it was opened gets a sentinel key (outside the generated alphabet) written and deleted before Close, because BadgerDB's never-stopped GC goroutine otherwise pins a 17 MB memtable per open; Seek on a prefix view (which leaks an unclosed underlying iterator) is issued at most once per run in a third of the runs; workers are recycled every 30 runs",
		},
		QuickRuns: 2500, ThoroughRuns: 25000, QuickBudget: 55 * time.Second, ThoroughBudget: 15 * time.Minute,
		Run: run, MaxProcs: envInt("DBRIG_MAXPROCS", 2), RunsPerProcess: 30, RunTimeout: 120 * time.Second,
	})
}

// envInt lets the determinism check vary GOMAXPROCS of the workers.
func envInt(name string, def int) int {
	if v, err := strconv.Atoi(os.Getenv(name)); err == nil && v > 0 {
		return v
	}
	return def
}

// ---------------------------------------------------------------- state

type viewDef struct {
	chain  [][]byte // NewPrefixDB(NewPrefixDB(base, chain[0]), chain[1])...
	prefix []byte   // concatenation
	ff     bool     // some element of the chain ends in 0xFF
}

type backend struct {
	name       string
	typ        dbm.DBBackendType
	persistent bool
	dir        string
	base       dbm.DB
	views      []dbm.DB
	m          model
	bat        []dbm.Batch // aligned with sim.batches
	batUsed    []bool      // handle has been written or Reset (badger: dead)
	open       bool
	wrote      bool // a write with a non-empty key reached the engine since it was opened
}

type bop struct {
	del  bool
	k, v []byte // k in the batch's target space
}

type batchDesc struct {
	tgt     int // -1 base, else view index
	pending []bop
	writes  int
}

type sim struct {
	c                  *kernel.Ctx
	cfg, ops, keys, ft *kernel.Tape
	be                 []*backend
	views              []viewDef
	shards             uint64
	alphabet           []byte
	maxKeyLen          int
	pool               [][]byte
	batches            []*batchDesc
	dir                string
	trace              []string
	step               int
	stop               bool
	valSeq             int
	nBatch2, nIter2    int
	childDone          bool
	replayMode         bool
	viewSeekLeft       int
}

const (
	kFwd = iota
	kRev
	kPfx
	kIterPfx
)

var kindName = []string{"Iterator", "ReverseIterator", "NewIteratorWithPrefix", "IteratePrefix"}

// ---------------------------------------------------------------- run

func run(c *kernel.Ctx) {
	s := &sim{c: c, replayMode: os.Getenv("VERIF_MODE") == "replay"}
	s.cfg = c.Tape.Fork("config")
	s.ops = c.Tape.Fork("ops")
	s.keys = c.Tape.Fork("keys")
	s.ft = c.Tape.Fork("faults")

	scratch := os.Getenv("VERIF_SCRATCH")
	if scratch == "" {
		scratch = os.TempDir()
	}
	s.dir = filepath.Join(scratch, fmt.Sprintf("c19-%d", c.Tape.Seed()))
	os.RemoveAll(s.dir)
	if err := os.MkdirAll(s.dir, 0755); err != nil {
		c.HarnessTrouble("scratch dir: %v", err)
		return
	}
	defer func() {
		for _, b := range s.be {
			if b.open {
				s.beforeClose(b)
				kernel.Try(func() { b.base.Close() })
			}
		}
		os.RemoveAll(s.dir)
	}()

	s.configure()
	if !s.openAll() {
		return
	}

	nsteps := s.cfg.Range(30, 140)
	if c.Tier == kernel.Thorough {
		nsteps = s.cfg.Range(80, 500)
	}
	// per-run swarm of step weights
	base := []int{22, 10, 14, 18, 5, 9, 6, 2, 1, 1}
	w := make([]int, len(base))
	for i := range base {
		w[i] = base[i] * []int{1, 1, 2, 4, 0}[s.cfg.Int(5)]
	}
	w[0] += 4 // there is always something to read
	w[3] += 2
	if w[4]+w[5] > 0 { // a batch that can be opened can also be filled and finished
		for _, i := range []int{4, 5, 6} {
			if w[i] == 0 {
				w[i] = base[i]
			}
		}
	}
	if s.shards > 1 || !s.cfg.Bool(1, 5) {
		w[9] = 0 // the child-process scenario (badger batch reuse) runs in about one run in six
	} else {
		w[9] = 3
	}

	for s.step = 0; s.step < nsteps && !s.stop; s.step++ {
		c.Event(1)
		switch s.ops.Pick(w...) {
		case 0:
			s.opPut()
		case 1:
			s.opDel()
		case 2:
			s.opRead()
		case 3:
			s.opIterate()
		case 4:
			s.opBatchNew()
		case 5:
			s.opBatchAdd()
		case 6:
			s.opBatchEnd()
		case 7:
			s.opReopen()
		case 8:
			s.audit("audit")
		case 9:
			s.opChildBadgerReuse()
		}
	}
	if !s.stop {
		// whatever is still open is abandoned: none of it may be visible
		for _, bd := range s.batches {
			if len(bd.pending) > 0 {
				c.Fault("batch-abandoned")
			}
		}
		s.batches = nil
		for _, b := range s.be {
			b.bat, b.batUsed = nil, nil
		}
		if s.ft.Bool(1, 3) {
			s.reopenAll("final")
		}
	}
	if !s.stop {
		s.audit("final")
	}
	if s.step >= 20 && s.nBatch2 > 0 && s.nIter2 > 0 {
		c.NonTrivial()
	}
	c.Finger(modelDigest(s.be[0].m))
	vs := []string{}
	for _, v := range s.views {
		vs = append(vs, hex.EncodeToString(v.prefix))
	}
	tr := s.trace
	if len(tr) > 60 {
		tr = append(append([]string{}, tr[:40]...), append([]string{"..."}, tr[len(tr)-19:]...)...)
	}
	c.Sample(map[string]interface{}{"steps": s.step, "db_counts": s.shards, "view_prefixes_hex": vs, "final_keys": len(s.be[0].m), "trace": tr})
}

func modelDigest(m model) string {
	s := ""
	for _, e := range m.sorted() {
		s += hex.EncodeToString(e.k) + "=" + hex.EncodeToString(e.v) + ";"
	}
	return s
}

func (s *sim) tracef(format string, a ...interface{}) {
	line := fmt.Sprintf(format, a...)
	s.c.Finger(line)
	if len(s.trace) < 400 {
		s.trace = append(s.trace, fmt.Sprintf("%d:%s", s.step, line))
	}
}

// ---------------------------------------------------------------- configuration

func (s *sim) configure() {
	t := s.cfg
	// key alphabet: small, so that keys collide, share prefixes and end in 0xFF
	full := []byte{0x00, 0x01, 'a', 'b', 0x7f, 0xfe, 0xff}
	n := t.Range(3, len(full))
	t.Shuffle(len(full), func(i, j int) { full[i], full[j] = full[j], full[i] })
	s.alphabet = append([]byte{}, full[:n]...)
	if !bytes.Contains(s.alphabet, []byte{0xff}) && t.Bool(2, 3) {
		s.alphabet[0] = 0xff
	}
	sort.Slice(s.alphabet, func(i, j int) bool { return s.alphabet[i] < s.alphabet[j] })
	s.maxKeyLen = t.Range(2, 4)
	if s.c.Tier == kernel.Thorough {
		s.maxKeyLen = t.Range(2, 8)
	}
	s.shards = 1
	if t.Bool(1, 8) {
		s.shards = uint64(t.Range(2, 4))
		s.c.Probe("run-sharded")
	}
	nviews := 0
	if s.shards == 1 {
		nviews = t.Pick(2, 4, 4, 2)
	}
	for i := 0; i < nviews; i++ {
		var v viewDef
		depth := 1
		if t.Bool(1, 5) {
			depth = 2
		}
		for d := 0; d < depth; d++ {
			p := s.genViewPrefix(t)
			v.chain = append(v.chain, p)
			v.prefix = append(v.prefix, p...)
			if p[len(p)-1] == 0xff {
				v.ff = true
			}
		}
		if depth == 2 {
			s.c.Probe("view-nested")
		}
		if v.ff {
			s.c.Probe("view-prefix-ends-0xff")
		}
		s.views = append(s.views, v)
		// keys around the view's range, to interfere with its bounds
		P := v.prefix
		s.pool = append(s.pool, cpb(P), cat(P, []byte{0x00}), cat(P, []byte{0xff}), cat(P, []byte{s.alphabet[0]}))
		if q := succ(P); q != nil {
			s.pool = append(s.pool, q, cat(q, []byte{0x00}), cat(q, []byte{0x00, 0x00}))
		}
		if len(P) > 1 {
			s.pool = append(s.pool, cpb(P[:len(P)-1]))
		}
		if P[len(P)-1] > 0 {
			d := cpb(P)
			d[len(d)-1]--
			s.pool = append(s.pool, d, cat(d, []byte{0xff}))
		}
	}
	for i := t.Range(3, 8); i > 0; i-- {
		s.pool = append(s.pool, s.freshKey(t))
	}
	if t.Bool(1, 3) {
		s.viewSeekLeft = 1
	}
}

func (s *sim) genViewPrefix(t *kernel.Tape) []byte {
	n := t.Range(1, 3)
	p := make([]byte, n)
	for i := range p {
		p[i] = s.alphabet[t.Int(len(s.alphabet))]
	}
	switch t.Pick(5, 4, 1) {
	case 1:
		p[n-1] = 0xff
	case 2:
		for i := range p {
			p[i] = 0xff
		}
	}
	return p
}

func (s *sim) freshKey(t *kernel.Tape) []byte {
	n := t.Range(0, s.maxKeyLen)
	if t.Bool(1, 25) {
		n = t.Range(20, 40)
	}
	k := make([]byte, n)
	for i := range k {
		k[i] = s.alphabet[t.Int(len(s.alphabet))]
	}
	if n > 0 && t.Bool(1, 6) {
		k[n-1] = 0xff
	}
	return k
}

// ---------------------------------------------------------------- open / close

func (s *sim) openAll() bool {
	defs := []struct {
		name string
		typ  dbm.DBBackendType
		pers bool
	}{
		{"memdb", dbm.MemDBBackend, false},
		{"goleveldb", dbm.GoLevelDBBackend, true},
		{"bolt", dbm.BoltBackend, true},
		{"badger", dbm.BadgerBackend, true},
	}
	for _, d := range defs {
		b := &backend{name: d.name, typ: d.typ, persistent: d.pers, dir: filepath.Join(s.dir, d.name), m: model{}}
		os.MkdirAll(b.dir, 0755)
		s.be = append(s.be, b)
		if !s.openOne(b) {
			return false
		}
	}
	return true
}

func (s *sim) openOne(b *backend) bool {
	site, msg, p := kernel.Try(func() { b.base = dbm.NewDB("db", b.typ, b.dir, s.shards) })
	if p {
		s.c.Violate("panic", "c19/"+s.scope(b)+"/open/panic", "%s: NewDB panicked at %s: %s", b.name, site, msg)
		s.stop = true // no database to go on with, listed finding or not
		return false
	}
	b.open = true
	b.wrote = false
	b.views = b.views[:0]
	for _, v := range s.views {
		var h dbm.DB = b.base
		for _, p := range v.chain {
			h = dbm.NewPrefixDB(h, cpb(p))
		}
		b.views = append(b.views, h)
	}
	return true
}

// beforeClose keeps the worker's memory bounded. BadgerDB starts a GC goroutine
// per open that is never stopped and pins the badger.DB; badger's Close only
// lets go of its 17 MB memtable arena if the memtable is not empty. A badger
// instance that saw no write since it was opened therefore gets a sentinel key
// (outside the generated key alphabet) written and deleted again before Close,
// which leaves the ordered map as it was.
func (s *sim) beforeClose(b *backend) {
	if b.name != "badger" || b.wrote || !b.open {
		return
	}
	n := 1
	if s.shards > 1 {
		n = 24
	}
	kernel.Try(func() {
		for i := 0; i < n; i++ {
			k := []byte(fmt.Sprintf("zz-verif-sentinel-%d", i))
			b.base.Set(k, []byte("x"))
			b.base.Delete(k)
		}
	})
}

func (b *backend) handle(tgt int) dbm.DB {
	if tgt < 0 {
		return b.base
	}
	return b.views[tgt]
}

func (s *sim) scope(b *backend) string { return b.name }

// halt ends the run after a violation that is not a listed known finding. A
// replay runs without the known-findings list (the kernel shows what the tape
// does), so there the run goes on exactly as it did when the earlier, listed
// findings were skipped, and the recorded violation is found among the ones
// reported.
func (s *sim) halt() {
	if s.replayMode {
		return
	}
	s.stop = true
}

func (s *sim) sharded(b *backend) bool { return s.shards > 1 && b.persistent }

func (s *sim) opReopen() {
	s.reopenAll("reopen")
}

func (s *sim) reopenAll(why string) {
	// every open batch dies with the handles (abandoned: must never be visible)
	for _, bd := range s.batches {
		if len(bd.pending) > 0 {
			s.c.Fault("batch-abandoned-by-close")
		}
	}
	if len(s.batches) > 0 {
		s.c.Probe("reopen-with-open-batch")
	}
	s.batches = nil
	via := -1
	if len(s.views) > 0 && s.ft.Bool(1, 3) {
		via = s.ft.Int(len(s.views))
	}
	s.tracef("%s(via=%d)", why, via)
	for _, b := range s.be {
		b.bat, b.batUsed = nil, nil
		if b.persistent && !s.ft.Bool(3, 4) {
			continue
		}
		s.beforeClose(b)
		site, msg, p := kernel.Try(func() { b.handle(via).Close() })
		if p {
			if s.c.Violate("panic", "c19/"+s.scope(b)+"/Close/panic", "%s: Close panicked at %s: %s", b.name, site, msg) {
				s.halt()
				return
			}
		}
		if !b.persistent {
			continue // MemDB.Close is documented as a no-op; the object lives on
		}
		b.open = false
		s.c.Fault("close-reopen")
		if !s.openOne(b) {
			return
		}
	}
	s.audit("after-" + why)
}

// ---------------------------------------------------------------- generators

func (s *sim) pickTarget() int {
	if len(s.views) == 0 || s.ops.Bool(2, 5) {
		return -1
	}
	return s.ops.Int(len(s.views))
}

func (s *sim) prefixOf(tgt int) []byte {
	if tgt < 0 {
		return nil
	}
	return s.views[tgt].prefix
}

func (s *sim) full(tgt int, k []byte) []byte {
	return cat(s.prefixOf(tgt), k)
}

func (s *sim) tgtName(tgt int) string {
	if tgt < 0 {
		return "db"
	}
	return fmt.Sprintf("view[%x]", s.views[tgt].prefix)
}

// genKey draws a key in the key space of tgt (nil and empty are two shapes of
// the same key).
func (s *sim) genKey(tgt int) []byte {
	t := s.keys
	items := s.be[0].m.space(s.prefixOf(tgt))
	switch t.Pick(40, 18, 22, 14, 6) {
	case 0:
		if len(items) > 0 {
			return cpb(items[t.Int(len(items))].k)
		}
		return s.freshKey(t)
	case 1:
		if len(s.pool) == 0 {
			return s.freshKey(t)
		}
		k := s.pool[t.Int(len(s.pool))]
		if p := s.prefixOf(tgt); len(p) > 0 && bytes.HasPrefix(k, p) {
			return cpb(k[len(p):])
		}
		return cpb(k)
	case 2:
		return s.freshKey(t)
	case 3:
		var e []byte
		if len(items) > 0 {
			e = cpb(items[t.Int(len(items))].k)
		} else {
			e = s.freshKey(t)
		}
		return s.derive(t, e)
	default:
		if t.Bool(1, 2) {
			return nil
		}
		return []byte{}
	}
}

// derive returns a close neighbour of e in key order.
func (s *sim) derive(t *kernel.Tape, e []byte) []byte {
	switch t.Int(7) {
	case 0:
		return cat(e, []byte{0x00})
	case 1:
		return cat(e, []byte{0xff})
	case 2:
		if len(e) > 0 {
			return cpb(e[:len(e)-1])
		}
		return []byte{0x00}
	case 3:
		if q := succ(e); q != nil {
			return q
		}
		return cat(e, []byte{0xff})
	case 4:
		if len(e) > 0 && e[len(e)-1] > 0 {
			d := cpb(e)
			d[len(d)-1]--
			return cat(d, []byte{0xff})
		}
		return cpb(e)
	case 5:
		return cat(e, []byte{s.alphabet[t.Int(len(s.alphabet))]})
	default:
		return cpb(e)
	}
}

// genBound draws an iterator bound: nil, empty, an existing key or a neighbour.
func (s *sim) genBound(tgt int) []byte {
	t := s.keys
	switch t.Pick(22, 4, 74) {
	case 0:
		return nil
	case 1:
		return []byte{}
	}
	k := s.genKey(tgt)
	if k == nil {
		k = []byte{}
	}
	if t.Bool(1, 3) {
		k = s.derive(t, k)
	}
	return k
}

func (s *sim) genVal() []byte {
	t := s.keys
	s.valSeq++
	v := []byte(fmt.Sprintf("v%d", s.valSeq))
	switch t.Pick(70, 24, 6) {
	case 1:
		s.c.Probe("value-over-badger-threshold")
		v = append(v, bytes.Repeat([]byte{'.'}, t.Range(32, 90))...)
	case 2:
		s.c.Probe("value-large")
		v = append(v, t.Bytes(t.Range(300, 2000))...)
	}
	return v
}

func hx(b []byte) string {
	if b == nil {
		return "nil"
	}
	if len(b) > 12 {
		return hex.EncodeToString(b[:12]) + fmt.Sprintf("..(%d)", len(b))
	}
	return "0x" + hex.EncodeToString(b)
}

func vshort(v []byte) string {
	if len(v) > 10 {
		return fmt.Sprintf("%q..(%d)", v[:8], len(v))
	}
	return fmt.Sprintf("%q", v)
}

func keyClass(full []byte) string {
	if len(full) == 0 {
		return "empty"
	}
	return "nonempty"
}

// ---------------------------------------------------------------- reporting

// report turns per-backend mismatches of one step into violations. If every
// backend shows the same kind of mismatch the defect is in the common layer
// (scope "all"), otherwise each deviating backend is reported on its own.
// Returns true when the run must stop (a violation that is not a known
// finding).
func (s *sim) report(class, opKey string, mm map[int]string, describe func(i int) string) bool {
	return s.reportX(class, opKey, "", mm, describe)
}

// reportX is report with a separate operation key for backends running with
// db_counts>1 (used for iteration, where sharded engines have their own,
// coarser signature).
func (s *sim) reportX(class, opKey, shardedOpKey string, mm map[int]string, describe func(i int) string) bool {
	if len(mm) == 0 {
		return false
	}
	idx := make([]int, 0, len(mm))
	for i := range mm {
		idx = append(idx, i)
	}
	sort.Ints(idx)
	if len(mm) == len(s.be) {
		same := true
		for _, i := range idx {
			if mm[i] != mm[idx[0]] {
				same = false
			}
		}
		if same {
			if s.c.Violate(class, "c19/all/"+opKey+"/"+mm[idx[0]], "step %d, all backends: %s", s.step, describe(idx[0])) {
				s.halt()
				return true
			}
			return false
		}
	}
	for _, i := range idx {
		k := opKey
		if shardedOpKey != "" && s.sharded(s.be[i]) {
			k = shardedOpKey
		}
		if s.c.Violate(class, "c19/"+s.scope(s.be[i])+"/"+k+"/"+mm[i], "step %d, %s: %s", s.step, s.be[i].name, describe(i)) {
			s.halt()
			return true
		}
	}
	return false
}

type readRes struct {
	found     bool
	val       []byte
	panicked  bool
	site, msg string
}

// cmpRead classifies a point-read answer against the model ("" = equal).
func cmpRead(has bool, exp []byte, found bool, val []byte, withValue bool) string {
	switch {
	case has && !found:
		return "missing"
	case !has && found:
		return "phantom"
	case has && found && withValue && !bytes.Equal(exp, val):
		return "value"
	}
	return ""
}

// rawLoad reads the full key through the base handle with the non-panicking
// read path.
func (s *sim) rawLoad(b *backend, full []byte) (r readRes) {
	r.site, r.msg, r.panicked = kernel.Try(func() {
		v, err := b.base.Load(cpb(full))
		if err == nil && v != nil {
			r.found, r.val = true, cpb(v)
		}
	})
	return
}

// resync makes the backend's model follow what the backend really holds for
// one key (used only after a listed known finding, so that one divergence is
// not reported again and again).
func (s *sim) resync(b *backend, full []byte) {
	r := s.rawLoad(b, full)
	if r.panicked || !r.found {
		delete(b.m, string(full))
		return
	}
	b.m[string(full)] = r.val
}

// verifyKeys reads back every key a write step touched, on every backend.
func (s *sim) verifyKeys(family string, keys [][]byte) bool {
	seen := map[string]bool{}
	for _, full := range keys {
		if seen[string(full)] {
			continue
		}
		seen[string(full)] = true
		mm := map[int]string{}
		pm := map[int]string{}
		acts := make([]readRes, len(s.be))
		for i, b := range s.be {
			acts[i] = s.rawLoad(b, full)
			s.c.Evals(1)
			if acts[i].panicked {
				pm[i] = "panic"
				continue
			}
			exp, has := b.m[string(full)]
			if t := cmpRead(has, exp, acts[i].found, acts[i].val, true); t != "" {
				mm[i] = "readback-" + t
			}
		}
		opKey := "write/key=" + keyClass(full)
		if family == "batch-abandoned" || family == "batch-reset" {
			opKey = family + "/key=" + keyClass(full)
		}
		if s.report("panic", "readback/key="+keyClass(full), pm, func(i int) string {
			return fmt.Sprintf("Load(%s) after a %s step panicked at %s: %s", hx(full), family, acts[i].site, acts[i].msg)
		}) {
			return true
		}
		if s.report("equivalence", opKey, mm, func(i int) string {
			exp, has := s.be[i].m[string(full)]
			return fmt.Sprintf("after a %s step touching key %s the model holds (present=%v, value=%s) but the backend answers (found=%v, value=%s)",
				family, hx(full), has, vshort(exp), acts[i].found, vshort(acts[i].val))
		}) {
			return true
		}
		for i := range mm {
			s.resync(s.be[i], full)
		}
		for i := range pm {
			s.resync(s.be[i], full)
		}
	}
	return false
}

// ---------------------------------------------------------------- point steps

func (s *sim) opPut() {
	tgt := s.pickTarget()
	k, v := s.genKey(tgt), s.genVal()
	how := s.ops.Int(3)
	full := s.full(tgt, k)
	if len(full) == 0 {
		s.c.Probe("write-empty-key")
	}
	name := []string{"Set", "SetSync", "Put"}[how]
	s.tracef("%s.%s(%s,%s)", s.tgtName(tgt), name, hx(k), vshort(v))
	pm := map[int]string{}
	var sites = map[int]string{}
	for i, b := range s.be {
		var err error
		site, msg, p := kernel.Try(func() {
			h := b.handle(tgt)
			switch how {
			case 0:
				h.Set(cpb(k), cpb(v))
			case 1:
				h.SetSync(cpb(k), cpb(v))
			default:
				err = h.Put(cpb(k), cpb(v))
			}
		})
		b.m[string(full)] = v
		b.wrote = b.wrote || len(full) > 0
		if p {
			pm[i] = "panic"
			sites[i] = site + ": " + msg
		}
		if err != nil {
			s.c.Probe("write-returned-error")
		}
	}
	if s.report("panic", "put/key="+keyClass(full), pm, func(i int) string {
		return fmt.Sprintf("%s(%s) panicked at %s", name, hx(full), sites[i])
	}) {
		return
	}
	s.verifyKeys("put", [][]byte{full})
}

func (s *sim) opDel() {
	tgt := s.pickTarget()
	k := s.genKey(tgt)
	how := s.ops.Int(3)
	full := s.full(tgt, k)
	name := []string{"Delete", "DeleteSync", "Del"}[how]
	s.tracef("%s.%s(%s)", s.tgtName(tgt), name, hx(k))
	if _, ok := s.be[0].m[string(full)]; !ok {
		s.c.Probe("delete-absent-key")
	}
	pm := map[int]string{}
	var sites = map[int]string{}
	for i, b := range s.be {
		var err error
		site, msg, p := kernel.Try(func() {
			h := b.handle(tgt)
			switch how {
			case 0:
				h.Delete(cpb(k))
			case 1:
				h.DeleteSync(cpb(k))
			default:
				err = h.Del(cpb(k))
			}
		})
		delete(b.m, string(full))
		b.wrote = b.wrote || len(full) > 0
		if p {
			pm[i] = "panic"
			sites[i] = site + ": " + msg
		}
		if err != nil {
			s.c.Probe("write-returned-error")
		}
	}
	if s.report("panic", "del/key="+keyClass(full), pm, func(i int) string {
		return fmt.Sprintf("%s(%s) panicked at %s", name, hx(full), sites[i])
	}) {
		return
	}
	s.verifyKeys("del", [][]byte{full})
}

func (s *sim) opRead() {
	tgt := s.pickTarget()
	k := s.genKey(tgt)
	how := s.ops.Int(4)
	full := s.full(tgt, k)
	name := []string{"Get", "Load", "Has", "Exist"}[how]
	s.tracef("%s.%s(%s)", s.tgtName(tgt), name, hx(k))
	if _, ok := s.be[0].m[string(full)]; !ok {
		s.c.Probe("read-absent-key")
	}
	mm, pm := map[int]string{}, map[int]string{}
	acts := make([]readRes, len(s.be))
	for i, b := range s.be {
		r := &acts[i]
		r.site, r.msg, r.panicked = kernel.Try(func() {
			h := b.handle(tgt)
			switch how {
			case 0:
				v := h.Get(cpb(k))
				r.found, r.val = v != nil, cpb(v)
			case 1:
				v, err := h.Load(cpb(k))
				r.found, r.val = err == nil && v != nil, cpb(v)
			case 2:
				r.found = h.Has(cpb(k))
			default:
				r.found, _ = h.Exist(cpb(k))
			}
		})
		if r.panicked {
			pm[i] = "panic"
			continue
		}
		exp, has := b.m[string(full)]
		if t := cmpRead(has, exp, r.found, r.val, how < 2); t != "" {
			mm[i] = t
		}
	}
	if s.report("panic", "read/key="+keyClass(full), pm, func(i int) string {
		return fmt.Sprintf("%s(%s) panicked at %s: %s", name, hx(full), acts[i].site, acts[i].msg)
	}) {
		return
	}
	if s.report("equivalence", name, mm, func(i int) string {
		exp, has := s.be[i].m[string(full)]
		return fmt.Sprintf("%s.%s(%s): model (present=%v, value=%s), backend (found=%v, value=%s)", s.tgtName(tgt), name, hx(k), has, vshort(exp), acts[i].found, vshort(acts[i].val))
	}) {
		return
	}
	for i := range mm {
		s.resync(s.be[i], full)
	}
}

// ---------------------------------------------------------------- batches

func (s *sim) opBatchNew() {
	if len(s.batches) >= 2 {
		s.opBatchAdd()
		return
	}
	tgt := s.pickTarget()
	s.tracef("%s.NewBatch()#%d", s.tgtName(tgt), len(s.batches))
	s.batches = append(s.batches, &batchDesc{tgt: tgt})
	for _, b := range s.be {
		b.bat = append(b.bat, nil)
		b.batUsed = append(b.batUsed, false)
		if !s.newHandle(b, len(s.batches)-1) {
			return
		}
	}
}

func (s *sim) newHandle(b *backend, i int) bool {
	site, msg, p := kernel.Try(func() { b.bat[i] = b.handle(s.batches[i].tgt).NewBatch() })
	b.batUsed[i] = false
	if p {
		if s.c.Violate("panic", "c19/"+s.scope(b)+"/NewBatch/panic", "%s: NewBatch panicked at %s: %s", b.name, site, msg) {
			s.halt()
		}
		return false
	}
	return true
}

// usable gives the batch handle of backend b for batch i; badger handles that
// were written or Reset are replaced by a fresh one (see Assumptions).
func (s *sim) usable(b *backend, i int) dbm.Batch {
	if b.batUsed[i] && b.name == "badger" {
		s.c.Probe("badger-batch-recreated")
		s.newHandle(b, i)
	}
	return b.bat[i]
}

func (s *sim) opBatchAdd() {
	if len(s.batches) == 0 {
		s.opBatchNew()
		if s.stop || len(s.batches) == 0 {
			return
		}
	}
	bi := s.ops.Int(len(s.batches))
	bd := s.batches[bi]
	n := s.ops.Range(1, 4)
	for j := 0; j < n; j++ {
		var o bop
		o.del = s.ops.Bool(3, 10)
		if len(bd.pending) > 0 && s.ops.Bool(2, 5) {
			o.k = cpb(bd.pending[s.ops.Int(len(bd.pending))].k)
			s.c.Probe("batch-key-repeated")
		} else {
			o.k = s.genKey(bd.tgt)
		}
		if !o.del {
			o.v = s.genVal()
			s.tracef("batch#%d.Set(%s,%s)", bi, hx(o.k), vshort(o.v))
		} else {
			s.tracef("batch#%d.Delete(%s)", bi, hx(o.k))
		}
		bd.pending = append(bd.pending, o)
		for _, b := range s.be {
			h := s.usable(b, bi)
			if s.stop {
				return
			}
			site, msg, p := kernel.Try(func() {
				if o.del {
					h.Delete(cpb(o.k))
				} else {
					h.Set(cpb(o.k), cpb(o.v))
				}
			})
			if p {
				if s.c.Violate("panic", "c19/"+s.scope(b)+"/batch.add/key="+keyClass(s.full(bd.tgt, o.k))+"/panic", "%s: batch Set/Delete(%s) panicked at %s: %s", b.name, hx(o.k), site, msg) {
					s.halt()
					return
				}
			}
		}
	}
}

func (s *sim) dropBatch(bi int) {
	s.batches = append(s.batches[:bi], s.batches[bi+1:]...)
	for _, b := range s.be {
		b.bat = append(b.bat[:bi], b.bat[bi+1:]...)
		b.batUsed = append(b.batUsed[:bi], b.batUsed[bi+1:]...)
	}
}

func (s *sim) opBatchEnd() {
	if len(s.batches) == 0 {
		return
	}
	bi := s.ops.Int(len(s.batches))
	bd := s.batches[bi]
	switch how := s.ops.Pick(30, 25, 15, 14, 16); how {
	case 3: // abandoned
		s.tracef("batch#%d abandoned (%d ops)", bi, len(bd.pending))
		if len(bd.pending) > 0 {
			s.c.Fault("batch-abandoned")
		}
		s.dropBatch(bi)
		// nothing of it may have become visible
		var keys [][]byte
		for _, o := range bd.pending {
			keys = append(keys, s.full(bd.tgt, o.k))
		}
		s.verifyKeys("batch-abandoned", keys)
	case 4: // Reset, stays open for reuse
		s.tracef("batch#%d.Reset() (%d ops dropped)", bi, len(bd.pending))
		if len(bd.pending) > 0 {
			s.c.Fault("batch-reset")
		}
		for _, b := range s.be {
			h := s.usable(b, bi)
			site, msg, p := kernel.Try(func() { h.Reset() })
			b.batUsed[bi] = true
			if p {
				if s.c.Violate("panic", "c19/"+s.scope(b)+"/batch.Reset/panic", "%s: Reset panicked at %s: %s", b.name, site, msg) {
					s.halt()
					return
				}
			}
		}
		var keys [][]byte
		for _, o := range bd.pending {
			keys = append(keys, s.full(bd.tgt, o.k))
		}
		bd.pending = nil
		s.verifyKeys("batch-reset", keys)
	default: // Write / Commit / WriteSync
		name := []string{"Write", "Commit", "WriteSync"}[how]
		keep := s.ops.Bool(3, 10)
		s.tracef("batch#%d.%s() (%d ops, reuse=%v)", bi, name, len(bd.pending), keep)
		if bd.writes > 0 {
			s.c.Probe("batch-reused-after-write")
		}
		if len(bd.pending) == 0 {
			s.c.Probe("batch-empty-write")
		}
		if len(bd.pending) >= 2 {
			s.nBatch2++
		}
		seenSet := map[string]bool{}
		for _, o := range bd.pending {
			fk := string(s.full(bd.tgt, o.k))
			if seenSet[fk] {
				s.c.Probe("batch-same-key-twice-written")
			}
			seenSet[fk] = true
		}
		pm := map[int]string{}
		sites := map[int]string{}
		for i, b := range s.be {
			h := s.usable(b, bi)
			var err error
			site, msg, p := kernel.Try(func() {
				switch how {
				case 0:
					h.Write()
				case 1:
					err = h.Commit()
				default:
					h.WriteSync()
				}
			})
			b.batUsed[bi] = true
			if p {
				pm[i] = "panic"
				sites[i] = site + ": " + msg
			}
			if err != nil {
				s.c.Probe("write-returned-error")
			}
			for _, o := range bd.pending {
				fk := string(s.full(bd.tgt, o.k))
				b.wrote = b.wrote || len(fk) > 0
				if o.del {
					delete(b.m, fk)
				} else {
					b.m[fk] = o.v
				}
			}
		}
		var keys [][]byte
		for _, o := range bd.pending {
			keys = append(keys, s.full(bd.tgt, o.k))
		}
		bd.pending = nil
		bd.writes++
		if s.report("panic", "batch."+name, pm, func(i int) string { return fmt.Sprintf("batch %s panicked at %s", name, sites[i]) }) {
			return
		}
		if s.verifyKeys("batch", keys) {
			return
		}
		if !keep {
			s.dropBatch(bi)
			return
		}
		for _, b := range s.be {
			h := b.bat[bi]
			site, msg, p := kernel.Try(func() { h.Reset() })
			if p {
				if s.c.Violate("panic", "c19/"+s.scope(b)+"/batch.Reset/panic", "%s: Reset after %s panicked at %s: %s", b.name, name, site, msg) {
					s.halt()
					return
				}
			}
		}
	}
}
