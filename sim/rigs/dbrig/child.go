package dbrig

import (
	"bytes"
	"context"
	"encoding/hex"
	"encoding/json"
	"fmt"
	"os"
	"os/exec"
	"path/filepath"
	"strings"
	"time"

	dbm "github.com/lianxiangcloud/linkchain/libs/db"
)

// Batch reuse on badger cannot be exercised inside the worker: the adapter's
// Write/Commit spawn a goroutine per shard, and on a batch that was already
// flushed or Reset badger panics inside that goroutine ("send on closed
// channel"), which no recover can catch. The scenario therefore runs in a
// child process (the check binary re-executed with DBRIG_CHILD set; see
// checks/c19/main_test.go) and the parent compares what the child's database
// holds afterwards with the model.

type childOp struct {
	Del  bool   `json:"d,omitempty"`
	K, V string `json:",omitempty"`
}

type childPhase struct {
	Ops []childOp
	End string // write | commit | writesync | reset
}

type childScenario struct {
	Backend string
	Dir     string
	Counts  uint64
	Phases  []childPhase
}

// MaybeChild runs the child side if this process was started as one.
func MaybeChild() bool {
	spec := os.Getenv("DBRIG_CHILD")
	if spec == "" {
		return false
	}
	var sc childScenario
	if err := json.Unmarshal([]byte(spec), &sc); err != nil {
		fmt.Printf("CHILD-BAD-SPEC %v\n", err)
		os.Exit(9)
	}
	db := dbm.NewDB("db", dbm.DBBackendType(sc.Backend), sc.Dir, sc.Counts)
	b := db.NewBatch()
	for _, ph := range sc.Phases {
		for _, o := range ph.Ops {
			k, _ := hex.DecodeString(o.K)
			v, _ := hex.DecodeString(o.V)
			if o.Del {
				b.Delete(k)
			} else {
				b.Set(k, v)
			}
		}
		switch ph.End {
		case "write":
			b.Write()
		case "commit":
			if err := b.Commit(); err != nil {
				fmt.Printf("CHILD-COMMIT-ERROR %v\n", err)
			}
		case "writesync":
			b.WriteSync()
		case "reset":
			b.Reset()
		}
	}
	// a panic in one of the adapter's writer goroutines first runs that
	// goroutine's deferred WaitGroup.Done, so this goroutine may get here before
	// the runtime takes the process down: give it time to, so that the outcome
	// does not depend on a race
	time.Sleep(300 * time.Millisecond)
	out := []string{}
	it := db.Iterator(nil, nil)
	for ; it.Valid(); it.Next() {
		out = append(out, hex.EncodeToString(it.Key())+"="+hex.EncodeToString(it.Value()))
	}
	it.Close()
	db.Close()
	fmt.Printf("CHILD-RESULT %s\n", strings.Join(out, ";"))
	os.Exit(0)
	return true
}

func (s *sim) opChildBadgerReuse() {
	if s.childDone || os.Getenv("VERIF_MODE") == "" || os.Getenv("DBRIG_NOCHILD") != "" {
		return
	}
	s.childDone = true
	t := s.ops
	sc := childScenario{Backend: string(dbm.BadgerBackend), Dir: filepath.Join(s.dir, "child-badger"), Counts: 1}
	os.MkdirAll(sc.Dir, 0755)
	ends := []string{"write", "commit", "writesync"}
	var pattern []string
	if t.Bool(1, 2) {
		pattern = []string{"reset", ends[t.Int(3)]} // fill, Reset, fill, write
	} else {
		pattern = []string{ends[t.Int(3)], "reset", ends[t.Int(3)]} // fill, write, Reset, fill, write
	}
	m := model{}
	var pool [][]byte
	for _, end := range pattern {
		ph := childPhase{End: end}
		if end != "reset" || len(sc.Phases) == 0 {
			for n := t.Range(1, 4); n > 0; n-- {
				var k []byte
				if len(pool) > 0 && t.Bool(1, 3) {
					k = pool[t.Int(len(pool))]
				} else {
					k = append(s.freshKey(s.keys), 'k') // never the empty key here
					pool = append(pool, k)
				}
				o := childOp{K: hex.EncodeToString(k)}
				if t.Bool(1, 4) {
					o.Del = true
				} else {
					o.V = hex.EncodeToString(s.genVal())
				}
				ph.Ops = append(ph.Ops, o)
			}
		}
		sc.Phases = append(sc.Phases, ph)
	}
	// model: ops of a phase apply iff the phase ends in a write (a phase that
	// ends in Reset is dropped)
	for _, ph := range sc.Phases {
		if ph.End == "reset" {
			continue
		}
		for _, o := range ph.Ops {
			k, _ := hex.DecodeString(o.K)
			if o.Del {
				delete(m, string(k))
			} else {
				v, _ := hex.DecodeString(o.V)
				m[string(k)] = v
			}
		}
	}
	desc := []string{}
	for _, ph := range sc.Phases {
		desc = append(desc, fmt.Sprintf("%dops+%s", len(ph.Ops), ph.End))
	}
	s.tracef("child: badger one batch object: %s", strings.Join(desc, ", "))
	s.c.Probe("child-badger-batch-reuse")
	s.c.Evals(1)

	spec, _ := json.Marshal(sc)
	exe, err := os.Executable()
	if err != nil {
		s.c.HarnessTrouble("os.Executable: %v", err)
		s.stop = true
		return
	}
	ctx, cancel := context.WithTimeout(context.Background(), 60*time.Second)
	defer cancel()
	cmd := exec.CommandContext(ctx, exe, "-test.run", "^$")
	cmd.Env = append(os.Environ(), "DBRIG_CHILD="+string(spec))
	out, err := cmd.CombinedOutput()
	var result string
	got := false
	for _, ln := range strings.Split(string(out), "\n") {
		if strings.HasPrefix(ln, "CHILD-RESULT ") {
			result, got = strings.TrimPrefix(ln, "CHILD-RESULT "), true
		}
	}
	if err != nil || !got {
		panicLine, frame := "", ""
		for _, ln := range strings.Split(string(out), "\n") {
			if panicLine == "" && strings.HasPrefix(ln, "panic: ") {
				panicLine = ln
			}
			if panicLine != "" && frame == "" && strings.HasPrefix(ln, "github.com/lianxiangcloud/linkchain/") {
				frame = strings.TrimSpace(ln)
			}
		}
		if panicLine == "" {
			s.c.HarnessTrouble("badger child failed without a panic: %v: %s", err, lastBytes(out, 400))
			s.stop = true
			return
		}
		if i := strings.Index(frame, "("); i > 0 && strings.Contains(frame, ".func") {
			frame = frame[:strings.LastIndex(frame, "(")]
		}
		if s.c.Violate("panic", badgerReuseKey,
			"one badger batch object used as [%s]: the process dies with %q (first repository frame: %s); every other backend accepts the same sequence",
			strings.Join(desc, ", "), panicLine, frame) {
			s.halt()
		}
		return
	}
	exp := []string{}
	for _, e := range m.sorted() {
		exp = append(exp, hex.EncodeToString(e.k)+"="+hex.EncodeToString(e.v))
	}
	if want := strings.Join(exp, ";"); want != result {
		// (same key and class as the panic: when the child's main goroutine wins the
		// race against the dying writer goroutine, the same defect shows as lost writes)
		if len(result) > 200 {
			result = result[:200] + "..."
		}
		if len(want) > 200 {
			want = want[:200] + "..."
		}
		if s.c.Violate("panic", badgerReuseKey, "one badger batch object used as [%s]: database holds %q, model %q", strings.Join(desc, ", "), result, want) {
			s.halt()
		}
	}
}

const badgerReuseKey = "c19/badger/batch-reuse/process-panic-or-writes-lost"

func lastBytes(b []byte, n int) string {
	b = bytes.TrimSpace(b)
	if len(b) > n {
		b = b[len(b)-n:]
	}
	return string(b)
}
