package dbrig

import (
	"fmt"
	"os"
	"testing"

	dbm "github.com/lianxiangcloud/linkchain/libs/db"
	"github.com/lianxiangcloud/linkchain/libs/log"
	"verif/sim/kernel"
)

func collect(it dbm.Iterator) string {
	s := ""
	n := 0
	for ; it.Valid(); it.Next() {
		s += fmt.Sprintf("%q=%q ", it.Key(), it.Value())
		n++
		if n > 50 {
			s += "..."
			break
		}
	}
	it.Close()
	return s
}

func try(name string, f func()) {
	site, msg, p := kernel.Try(f)
	if p {
		fmt.Printf("   %s PANIC at %s: %s\n", name, site, msg)
	}
}

func TestProtoQuirks(t *testing.T) {
	log.Root().SetHandler(log.DiscardHandler())
	dir, _ := os.MkdirTemp("/verif/build", "proto-")
	defer os.RemoveAll(dir)
	for _, be := range []dbm.DBBackendType{dbm.MemDBBackend, dbm.GoLevelDBBackend, dbm.BoltBackend, dbm.BadgerBackend} {
		os.MkdirAll(dir+"/"+string(be), 0755)
		d := dbm.NewDB("x", be, dir+"/"+string(be), 1)
		fmt.Printf("== %s\n", be)
		try("Set(nil)", func() { d.Set(nil, []byte("v0")) })
		try("Get(nil)", func() { fmt.Printf("   after Set(nil): Get(nil)=%q Get(empty)=%q Has=%v\n", d.Get(nil), d.Get([]byte{}), d.Has(nil)) })
		try("Load(nil)", func() { v, err := d.Load(nil); fmt.Printf("   Load(nil)=%q,%v\n", v, err) })
		try("Has(nil)", func() { fmt.Printf("   Has(nil)=%v\n", d.Has(nil)) })
		try("Exist(nil)", func() { v, err := d.Exist(nil); fmt.Printf("   Exist(nil)=%v,%v\n", v, err) })
		try("Put(empty)", func() { fmt.Printf("   Put(empty) err=%v\n", d.Put([]byte{}, []byte("v1"))) })

		try("Del(nil)", func() { fmt.Printf("   Del(nil) err=%v\n", d.Del(nil)) })
		try("Delete(nil)", func() { d.Delete(nil) })
		try("DeleteSync(nil)", func() { d.DeleteSync(nil) })

		try("batch nil", func() {
			b := d.NewBatch()
			b.Set([]byte("a"), []byte("1"))
			b.Set(nil, []byte("vb"))
			b.Set([]byte("b"), []byte("2"))
			b.Write()
		})
		try("scan", func() { fmt.Printf("   after batch{a,nil,b}: %s\n", collect(d.Iterator(nil, nil))) })
		try("batch del nil", func() {
			b := d.NewBatch()
			b.Set([]byte("c"), []byte("3"))
			b.Delete(nil)
			b.Set([]byte("d"), []byte("4"))
			b.Write()
		})
		try("scan", func() { fmt.Printf("   after batch{c,del nil,d}: %s\n", collect(d.Iterator(nil, nil))) })
		// batch reuse
		if be != dbm.BadgerBackend { try("batch reuse after write+reset", func() {
			b := d.NewBatch()
			b.Set([]byte("e"), []byte("5"))
			b.Write()
			b.Reset()
			b.Set([]byte("f"), []byte("6"))
			fmt.Printf("   commit err=%v\n", b.Commit())
		})
		try("scan", func() { fmt.Printf("   after reuse(write,reset): %s\n", collect(d.Iterator(nil, nil))) })
		try("batch reset before write", func() {
			b := d.NewBatch()
			b.Set([]byte("g"), []byte("7"))
			b.Reset()
			b.Set([]byte("h"), []byte("8"))
			fmt.Printf("   commit err=%v\n", b.Commit())
		})
		try("scan", func() { fmt.Printf("   after reset-then-fill: %s\n", collect(d.Iterator(nil, nil))) })
		try("batch write twice no reset", func() {
			b := d.NewBatch()
			b.Set([]byte("i"), []byte("9"))
			b.Write()
			d.Delete([]byte("i"))
			b.Set([]byte("j"), []byte("10"))
			b.Write()
		})
		try("scan", func() { fmt.Printf("   after write-twice: %s\n", collect(d.Iterator(nil, nil))) })
		}
		try("badger reset then abandon", func() { b := d.NewBatch(); b.Set([]byte("g"), []byte("7")); b.Reset(); b.Reset() })
		try("badger write then reset", func() { b := d.NewBatch(); b.Set([]byte("g"), []byte("7")); b.Write(); b.Reset() })
		try("rev(empty,nil)", func() { fmt.Printf("   Reverse([]byte{},nil): %s\n", collect(d.ReverseIterator([]byte{}, nil))) })
		try("fwd(empty,nil)", func() { fmt.Printf("   Iterator([]byte{},[]byte{}): %s\n", collect(d.Iterator([]byte{}, []byte{}))) })
		try("fwd inverted", func() { fmt.Printf("   Iterator(d,b): %s\n", collect(d.Iterator([]byte("d"), []byte("b")))) })
		try("rev inverted", func() { fmt.Printf("   Reverse(b,d): %s\n", collect(d.ReverseIterator([]byte("b"), []byte("d")))) })
		try("rev", func() { fmt.Printf("   Reverse(d,a): %s\n", collect(d.ReverseIterator([]byte("d"), []byte("a")))) })
		try("rev", func() { fmt.Printf("   Reverse(cc,nil): %s\n", collect(d.ReverseIterator([]byte("cc"), nil))) })
		try("prefixiter nil", func() { fmt.Printf("   NewIteratorWithPrefix(nil): %s\n", collect(d.NewIteratorWithPrefix(nil))) })
		// early close + write
		try("early close", func() {
			it := d.Iterator(nil, nil)
			it.Next()
			it.Close()
			it2 := d.ReverseIterator(nil, nil)
			it2.Close()
			d.Set([]byte("z"), []byte("26"))
		})
		// FF stuff
		d.Set([]byte("p\xff"), []byte("P"))
		d.Set([]byte("p\xffx"), []byte("Px"))
		d.Set([]byte("p\xff\xff"), []byte("Pff"))
		d.Set([]byte("q"), []byte("Q"))
		d.Set([]byte("q\x00"), []byte("Q0"))
		try("pfx ff", func() { fmt.Printf("   NewIteratorWithPrefix(p\\xff): %s\n", collect(d.NewIteratorWithPrefix([]byte("p\xff")))) })
		try("IteratePrefix ff", func() { fmt.Printf("   IteratePrefix(p\\xff): %s\n", collect(dbm.IteratePrefix(d, []byte("p\xff")))) })
		pv := dbm.NewPrefixDB(d, []byte("p\xff"))
		try("view fwd", func() { fmt.Printf("   view(p\\xff).Iterator(nil,nil): %s\n", collect(pv.Iterator(nil, nil))) })
		try("view rev", func() { fmt.Printf("   view(p\\xff).Reverse(nil,nil): %s\n", collect(pv.ReverseIterator(nil, nil))) })
		try("view rev", func() { fmt.Printf("   view(p\\xff).Reverse(x,nil): %s\n", collect(pv.ReverseIterator([]byte("x"), nil))) })
		try("view pfx", func() { fmt.Printf("   view(p\\xff).NewIteratorWithPrefix(\\xff): %s\n", collect(pv.NewIteratorWithPrefix([]byte("\xff")))) })
		try("view get nil", func() { fmt.Printf("   view(p\\xff).Get(nil): %q\n", pv.Get(nil)) })
		try("view seek", func() {
			it := pv.Iterator(nil, nil)
			r := it.Seek([]byte("x"))
			fmt.Printf("   view.Seek(x)=%v then: %s\n", r, collect(it))
		})
		try("base seek", func() {
			it := d.Iterator(nil, nil)
			r := it.Seek([]byte("p"))
			fmt.Printf("   base.Seek(p)=%v then: %s\n", r, collect(it))
		})
		try("base rev seek", func() {
			it := d.ReverseIterator(nil, []byte("b"))
			r := it.Seek([]byte("p"))
			fmt.Printf("   baserev(nil,b).Seek(p)=%v then: %s\n", r, collect(it))
		})
		try("close", func() { d.Close() })
		try("reopen", func() {
			d = dbm.NewDB("x", be, dir+"/"+string(be), 1)
			fmt.Printf("   after reopen: %s\n", collect(d.Iterator(nil, nil)))
			d.Close()
		})
	}
}
