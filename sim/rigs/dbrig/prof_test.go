package dbrig

import (
	"fmt"
	"os"
	"runtime/pprof"
	"testing"
	"time"

	"verif/sim/kernel"
)

func TestProf(t *testing.T) {
	os.Setenv("VERIF_SCRATCH", "/verif/build/prof-scratch")
	defer os.RemoveAll("/verif/build/prof-scratch")
	f, _ := os.Create("/tmp/c19.prof")
	pprof.StartCPUProfile(f)
	defer pprof.StopCPUProfile()
	rig := kernel.RigFor("C19")
	t0 := time.Now()
	var slow time.Duration
	for k := 0; k < 40; k++ {
		t1 := time.Now()
		res := kernel.Execute(t, rig, kernel.Quick, kernel.NewTape(kernel.RunSeed(1, k)), map[string]string{})
		d := time.Since(t1)
		if d > slow {
			slow = d
		}
		_ = res
	}
	fmt.Printf("40 runs in %v, slowest %v\n", time.Since(t0), slow)
}
