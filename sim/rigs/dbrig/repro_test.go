package dbrig

// Direct reproductions, against the real libs/db, of the genuine defects the
// C19 check found. Each test shows input, expected and actual; it passes while
// the defect is present and is skipped ("not reproduced") once it is fixed.
// Run: cd /verif/sim && go1.26.8 test -tags verif -overlay /verif/build/overlay.json -run Repro -v ./rigs/dbrig/

import (
	"fmt"
	"os"
	"os/exec"
	"strings"
	"testing"

	dbm "github.com/lianxiangcloud/linkchain/libs/db"

	"verif/sim/kernel"
)

func openT(t *testing.T, be dbm.DBBackendType, counts uint64) dbm.DB {
	dir := t.TempDir()
	db := dbm.NewDB("db", be, dir, counts)
	t.Cleanup(func() { kernel.Try(func() { db.Close() }) })
	return db
}

func dump(it dbm.Iterator) string {
	var out []string
	for n := 0; it.Valid() && n < 50; it.Next() {
		out = append(out, fmt.Sprintf("%q=%q", it.Key(), it.Value()))
		n++
	}
	it.Close()
	return "[" + strings.Join(out, " ") + "]"
}

// key c19/bolt/write/key=empty/readback-missing, c19/badger/write/key=empty/readback-missing,
// c19/badger/read/key=empty/panic, c19/badger/del/key=empty/panic
func TestReproEmptyKey(t *testing.T) {
	repro := false
	for _, be := range []dbm.DBBackendType{dbm.MemDBBackend, dbm.GoLevelDBBackend, dbm.BoltBackend, dbm.BadgerBackend} {
		db := openT(t, be, 1)
		db.Set(nil, []byte("v")) // "A nil key is interpreted as an empty byteslice"
		perr := db.Put([]byte{}, []byte("v"))
		v, lerr := db.Load([]byte{})
		_, gmsg, gp := kernel.Try(func() { db.Get(nil) })
		_, dmsg, dp := kernel.Try(func() { db.Delete(nil) })
		t.Logf("%-9s Set(nil,v); Put(empty,v) err=%v; Load(empty)=(%q,%v); Get(nil) panic=%v %q; Delete(nil) panic=%v %q", be, perr, v, lerr, gp, gmsg, dp, dmsg)
		if string(v) != "v" || gp || dp {
			repro = true
		}
	}
	if !repro {
		t.Skip("not reproduced: every backend stores and serves the empty key")
	}
}

// key c19/goleveldb/Exist/phantom
func TestReproGoLevelDBExistAfterDelete(t *testing.T) {
	db := openT(t, dbm.GoLevelDBBackend, 1)
	db.Set([]byte("k"), []byte("v"))
	db.Delete([]byte("k"))
	ok, err := db.Exist([]byte("k"))
	v, lerr := db.Load([]byte("k"))
	t.Logf("Set(k,v); Delete(k); Exist(k) = (%v, %v)   [expected false]; Load(k) = (%#v, %v); Has(k)=%v", ok, err, v, lerr, db.Has([]byte("k")))
	if !ok {
		t.Skip("not reproduced")
	}
}

// key c19/badger/ReverseIterator[start=empty]/extra and .../ReverseIterator.Seek(empty)/seek-position
func TestReproBadgerReverseFromEmptyKey(t *testing.T) {
	for _, be := range []dbm.DBBackendType{dbm.GoLevelDBBackend, dbm.BadgerBackend} {
		db := openT(t, be, 1)
		db.Set([]byte("a"), []byte("1"))
		db.Set([]byte("b"), []byte("2"))
		got := dump(db.ReverseIterator([]byte{}, nil))
		it := db.ReverseIterator(nil, nil)
		it.Seek([]byte{})
		got2 := dump(it)
		t.Logf("%-9s {a,b}: ReverseIterator([]byte{}, nil) = %s, ReverseIterator(nil,nil)+Seek([]byte{}) = %s   [expected [] both: no key <= \"\"]", be, got, got2)
		if be == dbm.BadgerBackend && got == "[]" && got2 == "[]" {
			t.Skip("not reproduced")
		}
	}
}

// key c19/all/view.ReverseIterator[start=nil,viewprefix=ends-0xff]/missing
func TestReproPrefixViewReverse0xFF(t *testing.T) {
	db := dbm.NewMemDB()
	view := dbm.NewPrefixDB(db, []byte("p\xff"))
	view.Set([]byte("x"), []byte("1"))
	view.Set([]byte("y"), []byte("2"))
	before := dump(view.ReverseIterator(nil, nil))
	db.Set([]byte("q"), []byte("neighbour")) // a key of another namespace: PrefixToEnd("p\xff")
	after := dump(view.ReverseIterator(nil, nil))
	t.Logf("view(prefix p\\xff) = {x,y}: ReverseIterator(nil,nil) = %s; after db.Set(\"q\") = %s   [expected [\"y\"=\"2\" \"x\"=\"1\"] both]", before, after)
	if after == before {
		t.Skip("not reproduced")
	}
}

// key c19/all/view.Seek/seek-position
func TestReproPrefixViewSeek(t *testing.T) {
	db := dbm.NewMemDB()
	view := dbm.NewPrefixDB(db, []byte("p"))
	for _, k := range []string{"a", "b", "c", "d"} {
		view.Set([]byte(k), []byte(k))
	}
	it := view.Iterator(nil, nil)
	it.Seek([]byte("c"))
	got := dump(it)
	raw := db.Iterator(nil, nil)
	raw.Seek([]byte("pc"))
	t.Logf("view{a,b,c,d}: Iterator(nil,nil).Seek(\"c\") then iterate = %s   [expected from c, as on the raw db: %s]", got, dump(raw))
	if strings.HasPrefix(got, `["c"`) {
		t.Skip("not reproduced")
	}
}

// key c19/all/IteratePrefix[prefix=ends-0xff]/extra (and view.IteratePrefix)
func TestReproIteratePrefix0xFF(t *testing.T) {
	db := dbm.NewMemDB()
	db.Set([]byte("p\xff1"), []byte("in"))
	db.Set([]byte("q"), []byte("out"))
	got := dump(dbm.IteratePrefix(db, []byte("p\xff")))
	ref := dump(db.NewIteratorWithPrefix([]byte("p\xff")))
	t.Logf("{p\\xff1, q}: IteratePrefix(db, p\\xff) = %s   [expected only keys with the prefix, as NewIteratorWithPrefix: %s]", got, ref)
	if got == ref {
		t.Skip("not reproduced")
	}
}

// key c19/goleveldb/iterate#sharded/dup, c19/badger/iterate#sharded/dup
func TestReproShardedIteratorDuplicates(t *testing.T) {
	repro := false
	for _, be := range []dbm.DBBackendType{dbm.GoLevelDBBackend, dbm.BoltBackend, dbm.BadgerBackend} {
		db := openT(t, be, 3)
		for i := 0; i < 8; i++ {
			db.Set([]byte(fmt.Sprintf("k%d", i)), []byte(fmt.Sprint(i)))
		}
		got := dump(db.Iterator([]byte("k0"), []byte("k1")))
		t.Logf("%-9s db_counts=3, keys k0..k7: Iterator(k0,k1) = %s   [expected [\"k0\"=\"0\"]]", be, got)
		if strings.Count(got, "k0") > 1 {
			repro = true
		}
	}
	if !repro {
		t.Skip("not reproduced")
	}
}

// key c19/badger/batch-reuse/process-panic: the panic is raised in a goroutine
// the adapter spawns, so it has to be observed from outside the process.
func TestReproBadgerBatchReuse(t *testing.T) {
	if dir := os.Getenv("DBRIG_REPRO_CHILD"); dir != "" {
		db := dbm.NewDB("db", dbm.BadgerBackend, dir, 1)
		b := db.NewBatch()
		b.Set([]byte("a"), []byte("1"))
		b.Write()
		b.Reset() // "Reset resets the batch for reuse"
		b.Set([]byte("b"), []byte("2"))
		b.Write()
		fmt.Printf("CHILD-OK %s\n", dump(db.Iterator(nil, nil)))
		db.Close()
		return
	}
	cmd := exec.Command(os.Args[0], "-test.run", "^TestReproBadgerBatchReuse$", "-test.v")
	cmd.Env = append(os.Environ(), "DBRIG_REPRO_CHILD="+t.TempDir())
	out, err := cmd.CombinedOutput()
	for _, ln := range strings.Split(string(out), "\n") {
		if strings.HasPrefix(ln, "panic:") || strings.HasPrefix(ln, "CHILD-OK") || strings.Contains(ln, "badgerBatch") {
			t.Logf("child: %s", ln)
		}
	}
	t.Logf("badger: b.Set(a); b.Write(); b.Reset(); b.Set(b); b.Write()  -> child exit: %v   [expected: both keys stored, as on memdb/goleveldb/bolt]", err)
	if err == nil {
		t.Skip("not reproduced")
	}
}
