package crashrig

// Direct reproductions of the C13 findings against the real code (no
// consensus state machine, no kernel): blocks are produced and committed
// through the application's own CreateBlock/PreRunBlock/CheckBlock/CommitBlock
// and BlockExecutor.ApplyBlock (the sequence of consensus.finalizeCommit) by
// txgen's replica driver over the simulated disk.
//
//   cd /verif/sim && . ../env.sh && mkoverlay && \
//   go1.26.8 test -tags verif -vet=off -overlay /verif/build/overlay.json ./rigs/crashrig -run TestRepro -v
//
// Every test FAILS on the unfixed tree (that is the demonstration) and is
// written to pass once the defect is fixed.

import (
	"fmt"
	"runtime"
	"testing"

	cfg "github.com/lianxiangcloud/linkchain/config"
	cs "github.com/lianxiangcloud/linkchain/consensus"
	"github.com/lianxiangcloud/linkchain/libs/common"
	"github.com/lianxiangcloud/linkchain/libs/crypto"
	"github.com/lianxiangcloud/linkchain/types"

	"verif/sim/kernel"
	"verif/sim/simdb"
	"verif/sim/simnode"
	"verif/sim/txgen"
)

type reproChain struct {
	t    *testing.T
	spec *simnode.GenesisSpec
	gen  *txgen.Gen
	disk *simdb.Disk
	r    *txgen.Replica
	now  uint64
}

func newReproChain(t *testing.T, seed uint64, isTrie bool, kinds []txgen.Kind) *reproChain {
	simnode.InitGlobals()
	tape := kernel.NewTape(seed)
	var cb common.Address
	cb[0] = 0xc1
	val := simnode.ValKey{Priv: crypto.GenPrivKeyEd25519FromSecret([]byte("c13-repro-val")), Power: 10, CoinBase: cb}
	gen := txgen.New(tape, txgen.Config{Accounts: 3, Utxo: true, Validators: []simnode.ValKey{val}, Kinds: kinds})
	spec := &simnode.GenesisSpec{ChainID: "verif-c13-repro", Vals: []simnode.ValKey{val}, Alloc: gen.Alloc(), IsTrie: isTrie}
	disk := simdb.NewDisk(t.TempDir())
	if err := spec.Install(disk); err != nil {
		t.Fatal(err)
	}
	rc := &reproChain{t: t, spec: spec, gen: gen, disk: disk, now: 946684800 + 10}
	rc.open(disk)
	return rc
}

func (rc *reproChain) open(disk *simdb.Disk) {
	r, err := txgen.OpenReplica("P", rc.spec, disk, simnode.ChainOpts{})
	if err != nil {
		rc.t.Fatalf("a node over this disk does not start: %v", err)
	}
	rc.disk, rc.r = disk, r
	rc.gen.Outputs = r.Chain.UtxoStore.GetUtxoOutput
	rc.gen.Cfg.UTXOGas = r.Chain.App.GetUTXOGas()
}

// block commits one block holding items (nil: empty) and advances the ledger.
func (rc *reproChain) block(items []*txgen.Item) *types.Block {
	rc.now += 5
	blk, err := rc.r.Step(txgen.BlockSpec{Txs: txgen.Txs(items), Explicit: true, Time: rc.now})
	if err != nil {
		rc.t.Fatalf("block %d: %v", rc.r.Height()+1, err)
	}
	if _, err := rc.gen.Committed(blk.Height, blk.Data.Txs, rc.r.Receipts(blk.Height)); err != nil {
		rc.t.Fatal(err)
	}
	return blk
}

func (rc *reproChain) consensusState() *cs.ConsensusState {
	ch := rc.r.Chain
	conf := cfg.DefaultConsensusConfig()
	conf.SetWalFile(rc.t.TempDir() + "/wal")
	return cs.NewConsensusState(conf, ch.Status.Copy(), ch.BlockExec, ch.App, ch.Mempool, ch.EvPool)
}

// The commit sequence is App.CommitBlock { state commit; BlockStore.SaveBlock
// (ends with the height descriptor); UtxoStore.SaveUtxo; mempool update } and
// then ApplyBlock. A process that dies after the height descriptor is written
// and before SaveUtxo has finished restarts with block store, state and
// (rebuilt) status at height h - and nothing ever runs SaveUtxo for h again:
// the outputs of block h are not in the output index, its key images are not
// marked spent (the key-image half has since been fixed in /repo, d76fc0a).
func TestReproCrashBetweenSaveBlockAndSaveUtxo(t *testing.T) {
	rc := newReproChain(t, 7, true, []txgen.Kind{txgen.KTransfer})
	if !txgen.UtxoReady() {
		t.Skip("xcrypto model not installed")
	}
	// block 1: an account -> hidden transaction (creates outputs)
	fund := rc.gen.AccToUtxo(rc.gen.Accts[0], txgen.Native)
	if fund == nil {
		t.Fatalf("could not build the funding transaction: %v", rc.gen.LastUtxoError)
	}
	rc.block([]*txgen.Item{fund})
	nOut := rc.r.Chain.UtxoStore.GetMaxUtxoOutputSeq(txgen.Native) + 1
	if nOut < 1 {
		t.Fatalf("uncrashed commit stored no outputs")
	}
	// block 2: a wallet spends a hidden output to an account (key image)
	var spend *txgen.Item
	for _, w := range rc.gen.Wallets() {
		if spend = rc.gen.UtxoSpend(txgen.SpendOpts{Wallet: w, Token: txgen.Native, ToAccount: true, RingSize: 1}); spend != nil {
			break
		}
	}
	if spend == nil {
		t.Fatalf("could not build the spend: %v", rc.gen.LastUtxoError)
	}
	kis := spend.Tx.(*types.UTXOTransaction).GetInputKeyImages()
	newOuts := len(spend.Tx.(*types.UTXOTransaction).GetOutputData(2))
	to := spend.Tx.(*types.UTXOTransaction).Outputs[0].(*types.AccountOutput).To

	// crash point: right after the write that makes the block store report height 2
	rc.disk.KeepLog(true)
	pre := rc.disk.Snapshot()
	base := rc.disk.Seq()
	rc.block([]*txgen.Item{spend})
	log := rc.disk.Log()
	k, sets := 0, 0
	for i, rec := range log {
		if rec.DB == simnode.DBBlockStore && rec.Op == "set" {
			sets++
			if sets == 3 { // receipts, txs result, then the height descriptor
				k = i + 1
			}
		}
	}
	if k == 0 {
		t.Fatalf("height descriptor write not found in %v", log)
	}
	balAfter := rc.r.Chain.App.GetBalance(to)
	t.Logf("commit of block 2 = %d write boundaries; crash after boundary %d (%s %s); uncrashed: %d outputs, receiver holds %v", len(log), k, log[k-1].DB, log[k-1].Op, rc.r.Chain.UtxoStore.GetMaxUtxoOutputSeq(txgen.Native)+1, balAfter)
	_ = base

	// re-execute the same commit from the pre-commit image, frozen at k
	d2 := simdb.NewDiskFromImage(pre, t.TempDir())
	d2.FreezeAt = k
	rc2 := &reproChain{t: t, spec: rc.spec, gen: rc.gen, now: rc.now - 5}
	rc2.open(d2)
	rc2.now = rc.now - 5
	tx2, _ := txgen.CloneTx(spend.Tx)
	if _, err := rc2.r.Step(txgen.BlockSpec{Txs: types.Txs{tx2}, Explicit: true, Time: rc.now}); err != nil {
		t.Fatal(err)
	}
	if d2.Frozen == nil {
		t.Fatalf("no frozen image")
	}
	// restart over what was durable at the crash instant
	rc3 := &reproChain{t: t, spec: rc.spec, gen: rc.gen, now: rc.now}
	rc3.open(simdb.NewDiskFromImage(d2.Frozen, t.TempDir()))
	ch := rc3.r.Chain
	t.Logf("after restart: block store height %d, status height %d (rebuilt=%v), outputs in the index %d, receiver holds %v",
		ch.BlockStore.Height(), ch.Status.LastBlockHeight, ch.Rebuilt, ch.UtxoStore.GetMaxUtxoOutputSeq(txgen.Native)+1, ch.App.GetBalance(to))
	if ch.BlockStore.Height() != 2 || ch.Status.LastBlockHeight != 2 {
		t.Fatalf("expected the node to recover to height 2")
	}
	for _, ki := range kis {
		if !ch.UtxoStore.HaveTxKeyimgAsSpent(ki) {
			// (this half was fixed in /repo by d76fc0a: NewLinkApplication re-saves
			// the key images of the current block)
			t.Errorf("key image %x of committed block 2 is not marked spent after the restart", ki[:6])
		}
	}
	want := nOut + int64(newOuts)
	if got := ch.UtxoStore.GetMaxUtxoOutputSeq(txgen.Native) + 1; got != want {
		t.Errorf("output index holds %d outputs after the restart, blocks 1..2 created %d", got, want)
	}
	if m := ch.UtxoStore.GetBlockTokenUtxoOutputSeq(2); len(m) == 0 && newOuts > 0 {
		t.Errorf("no per-block initial output sequence record for block 2 after the restart (uncrashed node: %v)", rc.r.Chain.UtxoStore.GetBlockTokenUtxoOutputSeq(2))
	}
	// consequence: the next block's outputs take the global indices that the
	// uncrashed replicas gave to block 2's outputs; from here on ring members
	// referenced by index are different outputs on this node
	fund2 := rc.gen.AccToUtxo(rc.gen.Accts[1], txgen.Native)
	if fund2 == nil {
		t.Fatalf("could not build the second funding transaction: %v", rc.gen.LastUtxoError)
	}
	tx3, _ := txgen.CloneTx(fund2.Tx)
	rc.block([]*txgen.Item{fund2}) // the uncrashed node
	if _, err := rc3.r.Step(txgen.BlockSpec{Txs: types.Txs{tx3}, Explicit: true, Time: rc.now}); err != nil {
		t.Fatalf("block 3 on the restarted node: %v", err)
	}
	for i := int64(0); i < want+1; i++ {
		a, errA := rc.r.Chain.UtxoStore.GetUtxoOutput(txgen.Native, uint64(i))
		b, errB := ch.UtxoStore.GetUtxoOutput(txgen.Native, uint64(i))
		if errA != nil || errB != nil || a.OTAddr != b.OTAddr {
			t.Errorf("global output index %d after block 3: uncrashed node %v (err %v), restarted node %v (err %v)", i, otOf(a), errA, otOf(b), errB)
		}
	}
}

func otOf(o *types.UTXOOutputData) string {
	if o == nil {
		return "<none>"
	}
	return fmt.Sprintf("%x..", o.OTAddr[:6])
}

// ConsensusState.DeleteHistoricalData(K) deletes the validator and parameter
// records of EVERY height up to the current one (the loop bound ignores K; the
// start height read from the database is assigned to a shadowed variable).
func TestReproPruneDeletesRetainedValidatorRecords(t *testing.T) {
	rc := newReproChain(t, 3, true, []txgen.Kind{txgen.KTransfer})
	for i := 0; i < 6; i++ {
		rc.block(nil)
	}
	db := rc.disk.DB(simnode.DBStatus)
	const K = 2
	for h := uint64(5); h <= 6; h++ {
		if _, _, err := cs.LoadValidators(db, h); err != nil {
			t.Fatalf("before pruning: %v", err)
		}
	}
	state := rc.consensusState()
	state.DeleteHistoricalData(K)
	for h := uint64(5); h <= 6; h++ { // the last K=2 heights
		if _, _, err := cs.LoadValidators(db, h); err != nil {
			t.Errorf("retained height %d after DeleteHistoricalData(%d) at chain height 6: %v", h, K, err)
		}
		if _, err := cs.LoadConsensusParams(db, h); err != nil {
			t.Errorf("retained height %d after DeleteHistoricalData(%d) at chain height 6: %v", h, K, err)
		}
	}
	// and the chain goes on: the records written afterwards point to a
	// last-changed height whose record is gone
	rc.block(nil)
	site, msg, panicked := kernel.Try(func() { cs.LoadValidators(db, 8) })
	if panicked {
		t.Errorf("LoadValidators(8) after pruning and one more block panics at %s: %s", site, msg)
	}
	site, msg, panicked = kernel.Try(func() { cs.LoadConsensusParams(db, 8) })
	if panicked {
		t.Errorf("LoadConsensusParams(8) after pruning and one more block panics at %s: %s", site, msg)
	}
}

// BlockStore.DeleteHistoricalData(K) computes maxHeight-K on uint64. With a
// chain shorter than K (every node during its first K blocks, e.g. the first
// ticker of a fresh chain) the subtraction wraps: the early return is skipped,
// every block is deleted and the loop runs on towards 2^64. The call is made
// on its own goroutine and cut off after 50000 database reads; the verdict is
// the data.
func TestReproPruneWindowLargerThanChain(t *testing.T) {
	rc := newReproChain(t, 4, true, []txgen.Kind{txgen.KTransfer})
	for i := 0; i < 3; i++ {
		rc.block(nil)
	}
	bs := rc.r.Chain.BlockStore
	reads, cut := 0, false
	rc.disk.MissingRead = func(db string, key []byte) bool {
		reads++
		if reads > 50000 {
			cut = true
			runtime.Goexit()
		}
		return false
	}
	done := make(chan struct{})
	go func() {
		defer close(done)
		bs.DeleteHistoricalData(5) // keep the latest 5 blocks of a chain of 3
	}()
	<-done
	rc.disk.MissingRead = nil
	if cut {
		t.Logf("DeleteHistoricalData(5) at chain height 3 did not return within 50000 reads (cut off)")
	}
	for h := uint64(1); h <= 3; h++ {
		if bs.LoadBlock(h) == nil {
			t.Errorf("block %d of a chain of 3 is gone after DeleteHistoricalData(5)", h)
		}
		if bs.LoadSeenCommit(h) == nil {
			t.Errorf("seen commit %d is gone", h)
		}
	}
}
