package crashrig

import (
	"bytes"
	"encoding/hex"
	"fmt"
	"math/big"
	"os"
	"sort"

	bc "github.com/lianxiangcloud/linkchain/blockchain"
	"github.com/lianxiangcloud/linkchain/config"
	cs "github.com/lianxiangcloud/linkchain/consensus"
	"github.com/lianxiangcloud/linkchain/libs/common"
	"github.com/lianxiangcloud/linkchain/state"
	"github.com/lianxiangcloud/linkchain/types"

	"verif/sim/kernel"
	"verif/sim/simdb"
	"verif/sim/simnode"
)

// plannedTx is one workload transaction, built once per run and submitted to
// every incarnation that executes its height.
type plannedTx struct {
	from, to int
	amount   *big.Int
	tx       types.Tx
	hash     common.Hash
}

// heightRef is the reference of one height of the main line: what an
// uncrashed node holds after committing it.
type heightRef struct {
	hash   string                 // block hash
	txs    []common.Hash          // transactions of the block
	bal    map[common.Address]string // tracked balances after the block (decimal)
	nonce  map[common.Address]uint64
	status []byte // serialized consensus status saved for this height
	trieRoot string // root of the world state stored for this height (zero in kv mode)
	utxo   *utxoRef
}

type crashRun struct {
	w       *world
	c       *kernel.Ctx
	tracked []common.Address
	plan    map[uint64][]*plannedTx // height -> transactions submitted before it
	evAt    map[uint64]bool         // heights before which duplicate-vote evidence is handed to the pool
	ref     map[uint64]*heightRef   // main line, by height (0 = genesis)
	snaps   map[uint64]*durable     // durable state after height h of the main line
	points  int
	sample  []string
}

// scenario identifies one crash point.
type scenario struct {
	h    uint64
	k    int
	W    int
	db   string
	op   string
	ord  int // ordinal of (db, op) within the commit
	desc string
}

func (s *scenario) key(kind string) string {
	if s.k == 0 {
		return "C13/crash/-/before-first-write#0/" + kind
	}
	return fmt.Sprintf("C13/crash/%s/%s#%d/%s", s.db, s.op, s.ord, kind)
}

func (r *crashRun) violate(s *scenario, kind, format string, args ...interface{}) bool {
	mode := "kv"
	if r.w.isTrie {
		mode = "trie"
	}
	msg := fmt.Sprintf(format, args...)
	return r.c.Violate("crash-"+kind, s.key(kind), "storage mode %s, commit of height %d, crash after write boundary %d of %d (%s): %s", mode, s.h, s.k, s.W, s.desc, msg)
}

// ---------------------------------------------------------------- durable views

// durableState opens the world state stored on disk for height h (no cache, no
// side effects on kvState.wal).
func durableState(disk *simdb.Disk, isTrie bool, h uint64) (*state.StateDB, *types.TxsResult, error) {
	bs := openBlockStoreView(disk)
	res, err := bs.LoadTxsResult(h)
	if err != nil {
		return nil, nil, fmt.Errorf("LoadTxsResult(%d): %v", h, err)
	}
	st, err := state.New(res.TrieRoot, state.NewKeyValueDBWithCache(disk.DB(simnode.DBState), 0, isTrie, h))
	if err != nil {
		return nil, res, fmt.Errorf("state.New(%x): %v", res.TrieRoot, err)
	}
	return st, res, nil
}

func (r *crashRun) readLedger(st *state.StateDB) (map[common.Address]string, map[common.Address]uint64) {
	bal := map[common.Address]string{}
	non := map[common.Address]uint64{}
	for _, a := range r.tracked {
		bal[a] = st.GetBalance(a).String()
		non[a] = st.GetNonce(a)
	}
	return bal, non
}

func sumBalances(m map[common.Address]string) *big.Int {
	t := new(big.Int)
	for _, v := range m {
		x, _ := new(big.Int).SetString(v, 10)
		t.Add(t, x)
	}
	return t
}

// ---------------------------------------------------------------- main line

func (r *crashRun) submit(n *node, h uint64) {
	for _, p := range r.plan[h] {
		n.chain.RegisterRate()
		if err := n.chain.Mempool.AddTx("", p.tx); err != nil {
			r.c.Probe("tx-refused")
		}
	}
	if r.evAt[h] && h > 1 {
		if ev := r.makeEvidence(n, h-1); ev != nil {
			if err := n.chain.EvPool.AddEvidence(ev); err != nil {
				r.c.Probe("evidence-refused")
			} else {
				r.c.Probe("evidence-added")
			}
		}
	}
}

// makeEvidence builds a duplicate-vote evidence of the validator key for
// height eh (two conflicting prevotes signed with the raw key, not through
// the FilePV).
func (r *crashRun) makeEvidence(n *node, eh uint64) types.Evidence {
	vals, _, err := cs.LoadValidators(n.disk.DB(simnode.DBStatus), eh)
	if err != nil || vals == nil {
		return nil
	}
	idx, val := vals.GetByAddress(r.w.key.Address())
	if val == nil {
		return nil
	}
	mk := func(tag byte) *types.Vote {
		var hsh common.Hash
		hsh[0], hsh[1] = tag, byte(eh)
		v := &types.Vote{
			ValidatorAddress: r.w.key.Address(),
			ValidatorIndex:   idx,
			Height:           eh,
			Round:            7,
			Timestamp:        genesisTime().UTC(),
			Type:             types.VoteTypePrevote,
			BlockID:          types.BlockID{Hash: hsh, PartsHeader: types.PartSetHeader{Total: 1, Hash: hsh.Bytes()}},
		}
		sig, err := r.w.key.Priv.Sign(v.SignBytes(r.w.gen.ChainID))
		if err != nil {
			return nil
		}
		v.Signature = sig
		return v
	}
	a, b := mk(1), mk(2)
	if a == nil || b == nil {
		return nil
	}
	return &types.DuplicateVoteEvidence{PubKey: r.w.key.PubKey(), VoteA: a, VoteB: b}
}

// runHeight executes the commit of height h on a fresh incarnation over the
// durable state after h-1. arm is called after start (with the number of write
// boundaries the start itself performed) and before the event that commits.
func (r *crashRun) runHeight(h uint64, tag string, arm func(n *node, base int)) (*node, int, bool, error) {
	n, err := r.w.open(r.snaps[h-1], tag)
	if err != nil {
		if n != nil {
			n.stop()
		}
		return nil, 0, false, err
	}
	n.settle()
	if n.storeHeight() != h-1 {
		n.stop()
		return nil, 0, false, fmt.Errorf("incarnation over the clean snapshot of height %d starts at store height %d", h-1, n.storeHeight())
	}
	r.submit(n, h)
	n.settle()
	base := n.disk.Seq()
	n.disk.KeepLog(true)
	n.gateOn = true
	if arm != nil {
		arm(n, base)
	}
	ok := n.driveTo(h, 60)
	n.gateOn = false
	return n, base, ok, nil
}

func (r *crashRun) mainLine(h uint64) (W int, log []simdb.WriteRec, ok bool) {
	c := r.c
	n, base, done, err := r.runHeight(h, fmt.Sprintf("main%d", h), nil)
	if err != nil {
		c.HarnessTrouble("main line height %d: %v", h, err)
		return 0, nil, false
	}
	defer n.stop()
	if !done {
		c.HarnessTrouble("main line did not commit height %d (store %d cons %d failed=%v %s)", h, n.storeHeight(), n.consHeight(), n.failed, n.failMsg)
		return 0, nil, false
	}
	all := n.disk.Log()
	log = all
	W = n.disk.Seq() - base
	if len(all) != W {
		c.HarnessTrouble("write log has %d records for %d boundaries", len(all), W)
		return 0, nil, false
	}
	ref, err := r.takeRef(n, h)
	if err != nil {
		c.HarnessTrouble("main line reference of height %d: %v", h, err)
		return 0, nil, false
	}
	// the reference ledger: value is conserved over the tracked accounts, and
	// every account that sent nothing holds exactly its credits
	prev := r.ref[h-1]
	if sumBalances(prev.bal).Cmp(sumBalances(ref.bal)) != 0 {
		c.HarnessTrouble("main line height %d does not conserve value over the tracked accounts", h)
		return 0, nil, false
	}
	credit := map[common.Address]*big.Int{}
	sender := map[common.Address]bool{}
	inBlock := map[common.Hash]bool{}
	for _, th := range ref.txs {
		inBlock[th] = true
	}
	for _, p := range r.plan[h] {
		if !inBlock[p.hash] {
			continue
		}
		to := userAddr(p.to)
		if credit[to] == nil {
			credit[to] = new(big.Int)
		}
		credit[to].Add(credit[to], p.amount)
		sender[userAddr(p.from)] = true
	}
	for i := 0; i < nUsers; i++ {
		a := userAddr(i)
		if sender[a] {
			continue
		}
		want, _ := new(big.Int).SetString(prev.bal[a], 10)
		if credit[a] != nil {
			want.Add(want, credit[a])
		}
		if want.String() != ref.bal[a] {
			c.HarnessTrouble("main line height %d: receiver balance %s, ledger %s", h, ref.bal[a], want)
			return 0, nil, false
		}
	}
	r.ref[h] = ref
	snap, err := n.snapshot(fmt.Sprintf("snap%d", h))
	if err != nil {
		c.HarnessTrouble("snapshot: %v", err)
		return 0, nil, false
	}
	r.snaps[h] = snap
	c.Finger("main", h, W, len(ref.txs), n.cs.GetState().Validators.Size())
	return W, log, true
}

// takeRef reads the reference of height h from a node that has committed it.
func (r *crashRun) takeRef(n *node, h uint64) (*heightRef, error) {
	ref := &heightRef{}
	blk := n.chain.BlockStore.LoadBlock(h)
	if blk == nil {
		return nil, fmt.Errorf("no block %d", h)
	}
	ref.hash = blk.Hash().Hex()
	for _, tx := range blk.Data.Txs {
		ref.txs = append(ref.txs, tx.Hash())
	}
	st, res, err := durableState(n.disk, r.w.isTrie, h)
	if err != nil {
		return nil, err
	}
	ref.trieRoot = res.TrieRoot.Hex()
	ref.bal, ref.nonce = r.readLedger(st)
	status, err := cs.LoadStatusByHeight(n.disk.DB(simnode.DBStatus), h)
	if err != nil {
		return nil, fmt.Errorf("status of height %d: %v", h, err)
	}
	ref.status = status.Bytes()
	ref.utxo = takeUtxoRef(n, r, h)
	return ref, nil
}

// ---------------------------------------------------------------- crash point

func ordinalOf(log []simdb.WriteRec, k int) (db, op string, ord int) {
	rec := log[k-1]
	for i := 0; i < k; i++ {
		if log[i].DB == rec.DB && log[i].Op == rec.Op {
			ord++
		}
	}
	return rec.DB, rec.Op, ord
}

// crashAt re-executes the commit of height h from the durable state after
// h-1, freezes the durable image after write boundary k, and restarts a fresh
// node over the frozen image and the files as they were at that instant.
func (r *crashRun) crashAt(h uint64, k, W int) bool {
	c := r.c
	sc := &scenario{h: h, k: k, W: W}
	frozenDir := r.w.newDir(fmt.Sprintf("frozen-h%d-k%d", h, k))
	defer os.RemoveAll(frozenDir)
	var frozen *simdb.Image
	var copyErr error
	zombie, base, done, err := r.runHeight(h, fmt.Sprintf("z%d-%d", h, k), func(n *node, base int) {
		if k == 0 {
			// the instant before the first database write of the commit: every
			// file write of the consensus steps so far (WAL, validator file) is done
			n.gateHook = func(db, op string) {
				if frozen == nil {
					frozen = n.disk.Snapshot()
					copyErr = copyTree(n.dir, frozenDir)
				}
			}
			return
		}
		n.disk.FreezeAt = base + k
		n.disk.OnFreeze = func() { copyErr = copyTree(n.dir, frozenDir) }
	})
	if err != nil {
		c.HarnessTrouble("re-execution of height %d: %v", h, err)
		return false
	}
	if k > 0 {
		frozen = zombie.disk.Frozen
	}
	zlog := zombie.disk.Log()
	zW := zombie.disk.Seq() - base
	var zhash string
	var zstatus []byte
	var zref *heightRef
	if done {
		zr, err := r.takeRef(zombie, h)
		if err == nil {
			zref = zr
			zhash, zstatus = zr.hash, zr.status
		}
	}
	zfailed, zmsg := zombie.failed, zombie.failMsg
	zombie.stop()
	if !done || zref == nil {
		c.HarnessTrouble("re-execution of height %d (k=%d) did not commit: failed=%v %s", h, k, zfailed, zmsg)
		return false
	}
	if zW != W {
		c.HarnessTrouble("re-execution of height %d has %d write boundaries, the measured run %d", h, zW, W)
		return false
	}
	if frozen == nil || copyErr != nil {
		c.HarnessTrouble("no frozen image at k=%d of %d (copy error %v)", k, W, copyErr)
		return false
	}
	if k > 0 {
		sc.db, sc.op, sc.ord = ordinalOf(zlog, k)
		sc.desc = fmt.Sprintf("%s %s #%d, %d keys", sc.db, sc.op, sc.ord, zlog[k-1].Keys)
	} else {
		sc.desc = "before the first write"
	}
	c.Fault("crash@" + writeClass(sc))
	c.Evals(1)
	r.points++

	// ---- restart over the frozen image
	crashed := &durable{img: frozen, dir: frozenDir}
	var n2 *node
	var openErr error
	site, msg, panicked := kernel.Try(func() { n2, openErr = r.w.open(crashed, fmt.Sprintf("r%d-%d", h, k)) })
	if panicked {
		if n2 != nil {
			n2.stop()
		}
		return !r.violate(sc, "restart-panic", "restart panicked at %s: %s", site, msg)
	}
	if openErr != nil {
		if n2 != nil {
			n2.stop()
		}
		return !r.violate(sc, "restart-refused", "node refused to start: %v", openErr)
	}
	defer n2.stop()
	n2.settle()
	c.Fault("restart")
	if n2.chain.Rebuilt {
		c.Probe("status-rebuilt-at-start")
	}

	acked := k == W // every write of finalizeCommit had completed
	zr := &zRef{h: h, hash: zhash, status: zstatus, ref: zref}
	if !r.checkView(n2, sc, zr, acked, "after restart") {
		return false
	}
	switch n2.storeHeight() {
	case h - 1:
		c.Probe("recovered-to-previous-height")
	case h:
		c.Probe("recovered-to-crashed-height")
	}
	// ---- the node must be able to commit the next height
	if !n2.driveTo(h+1, 80) {
		why := fmt.Sprintf("store height %d, consensus height %d", n2.storeHeight(), n2.consHeight())
		if n2.failed {
			why += ", CONSENSUS FAILURE: " + firstLines(n2.failMsg, 300)
		}
		if r.violate(sc, "no-progress", "restarted node cannot commit height %d: %s", h+1, why) {
			return false
		}
		return true
	}
	if !r.checkView(n2, sc, zr, true, "after committing the next height") {
		return false
	}
	return true
}

func writeClass(sc *scenario) string {
	if sc.k == 0 {
		return "before-first-write"
	}
	return sc.db + "/" + sc.op
}

func firstLines(s string, n int) string {
	if len(s) > n {
		s = s[:n]
	}
	return s
}

// zRef is what the crashed execution itself would have produced for height h
// had it not crashed (the zombie ran to completion on its live maps).
type zRef struct {
	h      uint64
	hash   string
	status []byte
	ref    *heightRef
}

func (r *crashRun) refOf(h uint64, z *zRef) *heightRef {
	if h == z.h {
		return z.ref
	}
	return r.ref[h]
}

// checkView evaluates the consistency oracle on a quiescent restarted node.
func (r *crashRun) checkView(n *node, sc *scenario, z *zRef, needH bool, phase string) bool {
	c := r.c
	c.Evals(1)
	h := sc.h
	disk := n.disk
	bs := n.chain.BlockStore
	H := bs.Height()
	// a fresh store object over the same database must agree with the live one
	if dh := openBlockStoreView(disk).Height(); dh != H {
		if r.violate(sc, "heights-disagree", "%s: live block store height %d, height descriptor on disk %d", phase, H, dh) {
			return false
		}
	}
	if H < h-1 {
		if r.violate(sc, "block-lost", "%s: block store height %d, but height %d had been fully committed before the crash", phase, H, h-1) {
			return false
		}
		return true
	}
	if needH && H < h {
		if r.violate(sc, "block-lost", "%s: block store height %d, but the commit of height %d had completed", phase, H, h) {
			return false
		}
		return true
	}
	if H > h+1 {
		c.HarnessTrouble("driver overshoot: store height %d", H)
		return false
	}
	// consensus status
	status, err := cs.LoadStatus(disk.DB(simnode.DBStatus))
	if err != nil {
		if r.violate(sc, "status-unreadable", "%s: %v", phase, err) {
			return false
		}
		return true
	}
	if status.LastBlockHeight != H {
		if r.violate(sc, "heights-disagree", "%s: block store height %d, consensus status height %d", phase, H, status.LastBlockHeight) {
			return false
		}
	}
	if ch := n.consHeight(); ch != H+1 {
		if r.violate(sc, "heights-disagree", "%s: block store height %d, consensus state machine works on height %d", phase, H, ch) {
			return false
		}
	}
	// blocks, commits, status records and tx index of every height <= H
	top := H
	if top > h {
		top = h
	}
	for i := uint64(1); i <= top; i++ {
		ref := r.refOf(i, z)
		var blk *types.Block
		var meta *types.BlockMeta
		var seen, bc *types.Commit
		site, msg, panicked := kernel.Try(func() {
			blk = bs.LoadBlock(i)
			meta = bs.LoadBlockMeta(i)
			seen = bs.LoadSeenCommit(i)
			if i < H {
				bc = bs.LoadBlockCommit(i)
			}
		})
		if panicked {
			if r.violate(sc, "block-unreadable", "%s: reading block %d panics at %s: %s", phase, i, site, msg) {
				return false
			}
			continue
		}
		if blk == nil || meta == nil || seen == nil || (i < H && bc == nil) {
			if r.violate(sc, "block-lost", "%s: height %d of %d: block=%v meta=%v seenCommit=%v blockCommit=%v", phase, i, H, blk != nil, meta != nil, seen != nil, bc != nil || i == H) {
				return false
			}
			continue
		}
		if blk.Hash().Hex() != ref.hash {
			if r.violate(sc, "block-differs", "%s: block %d has hash %s, the block committed before the crash %s", phase, i, blk.Hash().Hex(), ref.hash) {
				return false
			}
			continue
		}
		if len(blk.Data.Txs) != len(ref.txs) {
			if r.violate(sc, "block-differs", "%s: block %d has %d txs, reference %d", phase, i, len(blk.Data.Txs), len(ref.txs)) {
				return false
			}
		}
		for idx, th := range ref.txs {
			var tx types.Tx
			var entry *types.TxEntry
			var rcpt *types.Receipt
			kernel.Try(func() {
				tx, entry = bs.GetTx(th)
				rcpt, _, _, _ = bs.GetTransactionReceipt(th)
			})
			if tx == nil || entry == nil || tx.Hash() != th || entry.BlockHeight != i || entry.Index != uint64(idx) || entry.BlockHash.Hex() != ref.hash {
				if r.violate(sc, "tx-index", "%s: tx %d of block %d is not resolvable through the tx index (tx=%v entry=%+v)", phase, idx, i, tx != nil, entry) {
					return false
				}
				break
			}
			if rcpt == nil {
				if r.violate(sc, "receipt-lost", "%s: no receipt for tx %d of block %d", phase, idx, i) {
					return false
				}
				break
			}
		}
		st, err := cs.LoadStatusByHeight(disk.DB(simnode.DBStatus), i)
		if err == nil && i+10 > H && !bytes.Equal(st.Bytes(), ref.status) {
			if r.violate(sc, "status-differs", "%s: consensus status saved for height %d differs from the one the uncrashed execution saved (validators %x vs reference)", phase, i, st.Validators.Hash()) {
				return false
			}
		}
	}
	if H <= h {
		ref := r.refOf(H, z)
		if !bytes.Equal(status.Bytes(), ref.status) {
			if r.violate(sc, "status-differs", "%s: consensus status at height %d is not the status of the uncrashed execution (validators %x, last changed %d)", phase, H, status.Validators.Hash(), status.LastHeightValidatorsChanged) {
				return false
			}
		}
	}
	// the tx index must not run ahead of the block store
	if H == h-1 {
		for _, th := range z.ref.txs {
			var entry *types.TxEntry
			kernel.Try(func() { entry = n.chain.TxService.GetTxEntry(th) })
			if entry != nil {
				c.Probe("tx-index-ahead-of-store")
				break
			}
		}
	}
	// validator / parameter records of every height up to the next one
	for i := uint64(1); i <= H+1; i++ {
		var verr, perr error
		site, msg, panicked := kernel.Try(func() {
			_, _, verr = cs.LoadValidators(disk.DB(simnode.DBStatus), i)
			_, perr = cs.LoadConsensusParams(disk.DB(simnode.DBStatus), i)
		})
		if panicked || verr != nil || perr != nil {
			if r.violate(sc, "valset-record", "%s: validator/parameter record of height %d (store height %d): panic=%v %s %s, errors %v / %v", phase, i, H, panicked, site, msg, verr, perr) {
				return false
			}
			break
		}
	}
	// world state: the state stored for height H holds the ledger of height H
	refH := H
	if refH > h {
		refH = h // heights above h carry no transactions
	}
	ref := r.refOf(refH, z)
	var st *state.StateDB
	var res *types.TxsResult
	var serr error
	site, msg, panicked := kernel.Try(func() { st, res, serr = durableState(disk, r.w.isTrie, H) })
	if panicked || serr != nil {
		if r.violate(sc, "state-unreadable", "%s: world state of height %d: panic=%v %s %s err=%v", phase, H, panicked, site, msg, serr) {
			return false
		}
		return true
	}
	bal, non := r.readLedger(st)
	for _, a := range r.tracked {
		if bal[a] != ref.bal[a] || non[a] != ref.nonce[a] {
			if r.violate(sc, "state-differs", "%s: account %s at store height %d: balance %s nonce %d, reference ledger of height %d: balance %s nonce %d", phase, a.Hex(), H, bal[a], non[a], refH, ref.bal[a], ref.nonce[a]) {
				return false
			}
			break
		}
	}
	// the application's own view (what CheckTx and the next proposal use)
	for _, a := range r.tracked {
		var ab string
		kernel.Try(func() { ab = n.chain.App.GetBalance(a).String() })
		if ab != ref.bal[a] {
			if r.violate(sc, "state-differs", "%s: application reports balance %s for %s at height %d, reference %s", phase, ab, a.Hex(), H, ref.bal[a]) {
				return false
			}
			break
		}
	}
	// the execution result stored for H belongs to the stored block H, and (trie
	// mode, where the root commits to the whole state) it is the root the
	// uncrashed execution stored
	if hdr := bs.GetHeader(H); hdr == nil || res == nil || hdr.StateHash != res.StateHash {
		if r.violate(sc, "state-differs", "%s: header %d and the stored execution result of height %d carry different state hashes", phase, H, H) {
			return false
		}
	}
	if r.w.isTrie && H <= h && res != nil && res.TrieRoot.Hex() != ref.trieRoot {
		if r.violate(sc, "state-differs", "%s: trie root stored for height %d is %s, the uncrashed execution stored %s", phase, H, res.TrieRoot.Hex(), ref.trieRoot) {
			return false
		}
	}
	if !r.checkUtxo(n, sc, z, H, phase) {
		return false
	}
	return true
}

// openBlockStoreView returns a fresh store object over the database (it reads
// the height descriptor from disk).
func openBlockStoreView(disk *simdb.Disk) *bc.BlockStore {
	return bc.NewBlockStore(disk.DB(simnode.DBBlockStore))
}

// ---------------------------------------------------------------- run

const nUsers = 4

func (r *crashRun) run() {
	c := r.c
	w := r.w
	conf := w.conf
	L := uint64(conf.Blocks)
	var Ws []int
	for h := uint64(1); h <= L; h++ {
		W, log, ok := r.mainLine(h)
		if !ok || c.Failed() {
			return
		}
		Ws = append(Ws, W)
		if len(r.sample) < 40 {
			r.sample = append(r.sample, fmt.Sprintf("height %d: %d txs, W=%d: %s", h, len(r.ref[h].txs), W, compactLog(log)))
		}
		for k := 0; k <= W; k++ {
			if !r.crashAt(h, k, W) {
				return
			}
			if c.Failed() {
				return
			}
		}
	}
	if r.points >= 30 {
		c.NonTrivial()
	}
	c.Finger("crash", conf.IsTrie, conf.Elections, Ws)
}

func compactLog(log []simdb.WriteRec) string {
	var b bytes.Buffer
	for i, rec := range log {
		if i > 0 {
			b.WriteByte(' ')
		}
		fmt.Fprintf(&b, "%s/%s", rec.DB, rec.Op)
	}
	return b.String()
}

func sortedAddrs(m map[common.Address]bool) []common.Address {
	out := make([]common.Address, 0, len(m))
	for a := range m {
		out = append(out, a)
	}
	sort.Slice(out, func(i, j int) bool { return bytes.Compare(out[i][:], out[j][:]) < 0 })
	return out
}

func hexOf(b []byte) string { return hex.EncodeToString(b) }

var _ = config.ContractFoundationAddr
