package crashrig

import (
	"fmt"
	"net"
	"os"
	"path/filepath"
	"runtime"
	"strings"
	"sync"
	"testing/synctest"
	"time"

	cfg "github.com/lianxiangcloud/linkchain/config"
	cs "github.com/lianxiangcloud/linkchain/consensus"
	"github.com/lianxiangcloud/linkchain/libs/crypto"
	"github.com/lianxiangcloud/linkchain/libs/log"
	"github.com/lianxiangcloud/linkchain/libs/p2p"
	p2pcmn "github.com/lianxiangcloud/linkchain/libs/p2p/common"
	"github.com/lianxiangcloud/linkchain/types"

	"verif/sim/kernel"
	"verif/sim/simdb"
	"verif/sim/simnode"
	"verif/sim/txgen"
)

// durable is everything of a node that survives a process crash: the image of
// its databases and a copy of its directory (validator key file, consensus
// WAL, kvState.wal under data/).
type durable struct {
	img *simdb.Image
	dir string // directory holding the copied files; never modified after creation
}

// node is one incarnation of the single validator: the real ConsensusState
// (real receive routine, real finalizeCommit) over the real application and
// stores, assembled as cluster.Node.start does it, on a simulated disk.
type node struct {
	w      *world
	dir    string
	disk   *simdb.Disk
	chain  *simnode.Chain
	cs     *cs.ConsensusState
	react  *cs.ConsensusReactor
	ticker *cs.VerifTicker
	sw     *simnode.Switch
	wal    cs.WAL
	app    *tapApp

	timer    *cs.VerifTimeout // pending timeout (replace-if-later rule of the real ticker)
	failed   bool             // CONSENSUS FAILURE logged by the receive routine
	failMsg  string
	alive    bool
	pmu      sync.Mutex
	parked   []*parkedWriter // writers waiting at the write gate (guarded by pmu)
	gateOn   bool
	gateHook func(db, op string) // called (driver not running) before every write, no lock held
	commits  []commitRec         // CommitBlock calls observed (height, hash, returned)
}

type parkedWriter struct {
	db, op string
	who    string // function of the code under test that issues the write
	ch     chan struct{}
}

// writerOf names the linkchain function that issued the write being gated
// (SaveBlock's receipts and txs-result writers are both "blockstore set": the
// choice set offered to the tape must not depend on their arrival order).
func writerOf() string {
	pcs := make([]uintptr, 24)
	k := runtime.Callers(3, pcs)
	frames := runtime.CallersFrames(pcs[:k])
	for {
		f, more := frames.Next()
		if i := strings.Index(f.Function, "linkchain/blockchain."); i >= 0 {
			return f.Function[i+len("linkchain/"):]
		}
		if i := strings.Index(f.Function, "linkchain/libs/txmgr."); i >= 0 {
			return f.Function[i+len("linkchain/libs/"):]
		}
		if !more {
			return ""
		}
	}
}

type commitRec struct {
	height   uint64
	hash     string
	returned bool
}

// world is what is shared by all incarnations of a run.
type world struct {
	c       *kernel.Ctx
	gen     *simnode.GenesisSpec
	txg     *txgen.Gen // workload generator and reference ledger
	life    *txgen.LifeGen // contract storage life cycles and their storage model
	key     simnode.ValKey
	isTrie  bool
	scratch string
	nextDir int
	sched   *kernel.Tape
	conf    runConf
}

type failTap struct{ n *node }

func (h failTap) Log(r *log.Record) error {
	if strings.Contains(r.Msg, "CONSENSUS FAILURE") {
		h.n.failed = true
		h.n.failMsg = fmt.Sprint(r.Ctx...)
		if len(h.n.failMsg) > 700 {
			h.n.failMsg = h.n.failMsg[:700]
		}
	}
	return nil
}

// tapApp records CommitBlock calls (which block, and whether the call
// returned) and re-registers the process-global UTXO rate getter.
type tapApp struct {
	cs.BlockChainApp
	n *node
}

func (a *tapApp) CommitBlock(block *types.Block, blockParts *types.PartSet, seenCommit *types.Commit, fastsync bool) ([]*types.Validator, error) {
	a.n.commits = append(a.n.commits, commitRec{height: block.Height, hash: block.Hash().Hex()})
	idx := len(a.n.commits) - 1
	vals, err := a.BlockChainApp.CommitBlock(block, blockParts, seenCommit, fastsync)
	if err == nil {
		a.n.commits[idx].returned = true
	}
	return vals, err
}

func (a *tapApp) CheckBlock(block *types.Block) bool {
	a.n.chain.RegisterRate()
	return a.BlockChainApp.CheckBlock(block)
}

func (a *tapApp) CreateBlock(height uint64, maxTxs int, gasLimit uint64, timeUnix uint64) *types.Block {
	a.n.chain.RegisterRate()
	return a.BlockChainApp.CreateBlock(height, maxTxs, gasLimit, timeUnix)
}

func (w *world) newDir(tag string) string {
	w.nextDir++
	d := filepath.Join(w.scratch, fmt.Sprintf("%s-%d", tag, w.nextDir))
	os.MkdirAll(d, 0755)
	return d
}

func pvFile(dir string) string  { return filepath.Join(dir, "priv_validator.json") }
func walFile(dir string) string { return filepath.Join(dir, "cs.wal", "wal") }
func dataDir(dir string) string { return filepath.Join(dir, "data") }

func (w *world) consensusConfig(dir string) *cfg.ConsensusConfig {
	c := cfg.DefaultConsensusConfig()
	c.TimeoutPropose = 300
	c.TimeoutProposeDelta = 10
	c.TimeoutPrevote = 100
	c.TimeoutPrevoteDelta = 10
	c.TimeoutPrecommit = 100
	c.TimeoutPrecommitDelta = 10
	c.TimeoutCommit = w.conf.TimeoutCommit
	c.SkipTimeoutCommit = w.conf.SkipTimeoutCommit
	c.CreateEmptyBlocks = true
	c.SetWalFile(walFile(dir))
	return c
}

// conManager builds a real *p2p.ConManager without sockets: the listener bind
// seam returns no listener and the table seam builds the in-memory HTTP table
// (no DHT, no UDP). The switch is never started.
func conManager(key crypto.PrivKey) (*p2p.ConManager, error) {
	if sharedConManager != nil {
		return sharedConManager, nil
	}
	p2p.ListenerBindFunc = func(nodeType types.NodeType, fullListenAddrString string, externalAddrString string, logger log.Logger) (tcpListener net.Listener, extAddr *p2p.NetAddress, udpConn *net.UDPConn, isUpnpSuccess bool) {
		return nil, nil, nil, false
	}
	p2p.DefaultNewTableFunc = func(sw *p2p.Switch, seeds []*p2pcmn.Node) error {
		return sw.DefaultNewTable(seeds, false, false)
	}
	pc := cfg.DefaultP2PConfig()
	pc.ListenAddress = ""
	sw, err := p2p.NewP2pManager(log.NewNopLogger(), key, pc, p2p.NodeInfo{Moniker: "crashrig"}, nil, simdb.NewDisk("").DB("p2p"))
	if err != nil {
		return nil, err
	}
	cm := sw.GetConManager()
	if cm == nil {
		return nil, fmt.Errorf("no connection manager")
	}
	sharedConManager = cm
	return cm, nil
}

// one per process: it is only the sink of LinkApplication.getAllCandidates'
// SetCandidate call (a buffered channel nobody reads; "full" is logged and ignored)
var sharedConManager *p2p.ConManager

// open starts an incarnation over a copy of d. Panics of the code under test
// are NOT recovered here (callers wrap with kernel.Try where a verdict is due).
func (w *world) open(d *durable, tag string) (*node, error) {
	n := &node{w: w}
	n.dir = w.newDir(tag)
	if d.dir != "" {
		if err := copyTree(d.dir, n.dir); err != nil {
			return nil, fmt.Errorf("copy files: %v", err)
		}
	}
	os.MkdirAll(dataDir(n.dir), 0755)
	n.disk = simdb.NewDiskFromImage(d.img, dataDir(n.dir))
	n.disk.Gate = n.gate
	if err := n.start(); err != nil {
		return n, err
	}
	return n, nil
}

func (n *node) start() error {
	w := n.w
	logger := log.NewNopLogger()
	n.sw = simnode.NewSwitch("crashnode")
	chain, err := simnode.OpenChain(n.disk, simnode.ChainOpts{IsTrie: w.isTrie, Switch: n.sw, Logger: logger})
	if err != nil {
		return err
	}
	n.chain = chain
	if w.conf.Elections {
		cm, err := conManager(w.key.Priv)
		if err != nil {
			return fmt.Errorf("conManager: %v", err)
		}
		chain.App.SetConm(cm)
	}
	n.app = &tapApp{BlockChainApp: chain.App, n: n}

	var fpv *types.FilePV
	if _, err := os.Stat(pvFile(n.dir)); err == nil {
		fpv = types.LoadFilePV(pvFile(n.dir))
	} else {
		g := types.GenFilePV(pvFile(n.dir))
		g.UpdatePrikey(w.key.Priv)
		g.Save()
		fpv = types.LoadFilePV(pvFile(n.dir))
	}

	conf := w.consensusConfig(n.dir)
	csLogger := log.New("node", "crashnode")
	csLogger.SetHandler(failTap{n})
	state := cs.NewConsensusState(conf, chain.Status.Copy(), chain.BlockExec, n.app, chain.Mempool, chain.EvPool)
	state.SetEventBus(chain.EventBus)
	state.SetLogger(csLogger)
	state.SetPrivValidator(fpv)
	n.ticker = cs.NewVerifTicker(func(v cs.VerifTimeout) { n.onSchedule(v) })
	state.SetTimeoutTicker(n.ticker)
	wal, err := state.OpenWAL(walFile(n.dir))
	if err != nil {
		return fmt.Errorf("OpenWAL: %v", err)
	}
	n.wal = wal
	state.VerifSetWAL(wal)
	state.VerifSetCatchup(true)
	n.cs = state
	n.react = cs.NewConsensusReactor(state, false, n.sw)
	n.react.SetLogger(csLogger)
	n.sw.AddReactor("CONSENSUS", n.react)
	n.alive = true
	if err := chain.EventBus.Start(); err != nil {
		return err
	}
	if err := n.react.Start(); err != nil {
		return fmt.Errorf("reactor start: %v", err)
	}
	return nil
}

// onSchedule keeps the pending timeout with the filter of the real ticker.
func (n *node) onSchedule(v cs.VerifTimeout) {
	if cur := n.timer; cur != nil {
		ti := *cur
		if v.Height < ti.Height {
			return
		} else if v.Height == ti.Height {
			if v.Round < ti.Round {
				return
			} else if v.Round == ti.Round {
				if ti.Step > 0 && v.Step <= ti.Step {
					return
				}
			}
		}
	}
	vv := v
	n.timer = &vv
}

// gate is simdb's write gate. Writers of the databases SaveBlock's three
// goroutines touch park here (holding no lock of the harness) until the driver
// releases them one at a time in a tape-decided order.
func (n *node) gate(db, op string) {
	if h := n.gateHook; h != nil {
		h(db, op)
	}
	if !n.gateOn || (db != simnode.DBBlockStore && db != simnode.DBTxMgr) {
		return
	}
	p := &parkedWriter{db: db, op: op, who: writerOf(), ch: make(chan struct{})}
	n.pmu.Lock() // SaveBlock's writers arrive concurrently; the lock is never held while parked
	if !n.gateOn {
		n.pmu.Unlock()
		return
	}
	n.parked = append(n.parked, p)
	n.pmu.Unlock()
	<-p.ch
}

// releaseAll switches the gate off and lets every parked writer go.
func (n *node) releaseAll() {
	n.pmu.Lock()
	n.gateOn = false
	ps := n.parked
	n.parked = nil
	n.pmu.Unlock()
	for _, p := range ps {
		close(p.ch)
	}
}

// settle waits for quiescence, releasing parked writers one at a time in an
// order drawn from the schedule stream.
func (n *node) settle() {
	for {
		synctest.Wait()
		n.pmu.Lock()
		if len(n.parked) == 0 {
			n.pmu.Unlock()
			return
		}
		// stable order of the choice set: by (db, op, issuing function)
		i := 0
		if len(n.parked) > 1 {
			sortParked(n.parked)
			i = n.w.sched.Int(len(n.parked))
			n.w.c.Probe("gate-choice")
		}
		p := n.parked[i]
		n.parked = append(n.parked[:i:i], n.parked[i+1:]...)
		n.pmu.Unlock()
		close(p.ch)
	}
}

func sortParked(ps []*parkedWriter) {
	for i := 1; i < len(ps); i++ {
		for j := i; j > 0 && (ps[j].db+"/"+ps[j].op+"/"+ps[j].who) < (ps[j-1].db+"/"+ps[j-1].op+"/"+ps[j-1].who); j-- {
			ps[j], ps[j-1] = ps[j-1], ps[j]
		}
	}
}

// fire hands the pending timeout to the state machine after sleeping its
// duration on the virtual clock. It returns false when nothing is pending.
func (n *node) fire() bool {
	if n.timer == nil || n.failed || !n.alive {
		return false
	}
	ti := *n.timer
	n.timer = nil
	d := ti.Duration
	if d < time.Millisecond {
		d = time.Millisecond
	}
	if d > 10*time.Second {
		d = 10 * time.Second
	}
	time.Sleep(d)
	n.w.c.SimTime(d)
	n.settle()
	n.w.c.Event(1)
	n.ticker.Fire(ti)
	n.settle()
	return true
}

// storeHeight and consHeight are what the driver looks at.
func (n *node) storeHeight() uint64 { return n.chain.BlockStore.Height() }

func (n *node) consHeight() uint64 {
	rs := n.cs.GetRoundState()
	return rs.Height
}

// driveTo fires timeouts until the block store holds target and consensus has
// moved past it, or the step budget is used up.
func (n *node) driveTo(target uint64, steps int) bool {
	for i := 0; i < steps; i++ {
		if n.failed {
			return false
		}
		if n.storeHeight() >= target && n.consHeight() > target {
			return true
		}
		if !n.fire() {
			return false
		}
	}
	return n.storeHeight() >= target && n.consHeight() > target
}

// snapshot returns the durable state at this (quiescent) instant.
func (n *node) snapshot(tag string) (*durable, error) {
	d := &durable{img: n.disk.Snapshot(), dir: n.w.newDir(tag)}
	if err := copyTree(n.dir, d.dir); err != nil {
		return nil, err
	}
	return d, nil
}

// stop ends the incarnation's goroutines (whatever a graceful stop flushes
// goes to this incarnation's private directory and is discarded with it).
func (n *node) stop() {
	if !n.alive {
		return
	}
	n.alive = false
	n.timer = nil
	n.gateHook = nil
	// nobody may stay parked
	n.releaseAll()
	synctest.Wait()
	kernel.Try(func() {
		if n.react != nil {
			if n.failed {
				n.cs.Stop()
				if n.wal != nil {
					n.wal.Stop()
				}
			} else {
				n.react.Stop()
			}
		}
	})
	if n.chain != nil {
		kernel.Try(func() {
			n.chain.EventBus.Stop()
			n.chain.Close()
			synctest.Wait()
			n.chain.Close()
		})
	}
	if n.sw != nil {
		n.sw.Stop()
	}
	synctest.Wait()
	os.RemoveAll(n.dir)
}
