package crashrig

// Confidential (UTXO) transactions: the seam is here; the generator is wired
// in when verif/sim/txgen offers UTXO transactions over the xcrypto model.

// utxoRef is the reference of the UTXO stores after a height of the main line.
type utxoRef struct{}

func takeUtxoRef(n *node, r *crashRun, h uint64) *utxoRef { return nil }

func (r *crashRun) checkUtxo(n *node, sc *scenario, z *zRef, H uint64, phase string) bool {
	return true
}
