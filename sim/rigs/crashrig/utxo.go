package crashrig

import (
	"encoding/hex"
	"fmt"
	"sort"
	"strings"

	"github.com/lianxiangcloud/linkchain/libs/common"
	lktypes "github.com/lianxiangcloud/linkchain/libs/cryptonote/types"
	"github.com/lianxiangcloud/linkchain/libs/log"
	"github.com/lianxiangcloud/linkchain/libs/ser"
	"github.com/lianxiangcloud/linkchain/types"
	"github.com/lianxiangcloud/linkchain/utxo"

	"verif/sim/simdb"
	"verif/sim/simnode"
	"verif/sim/txgen"
)

// utxoRef is the reference of the confidential stores after a height: the
// output index (per token: number of outputs and each stored output) and the
// set of spent key images.
type utxoRef struct {
	tokens  []common.Address
	count   map[common.Address]int64    // outputs in the index (GetMaxUtxoOutputSeq + 1)
	outputs map[common.Address][]string // digest of output i
	spent   []lktypes.Key               // key images of all blocks <= this height
	own     []lktypes.Key               // key images of this height's block
	init    map[uint64]string           // per height <= this one: the block's initial output sequence per token
}

func outputDigest(o *types.UTXOOutputData) string {
	bz, err := ser.EncodeToBytes(o)
	if err != nil {
		return "unencodable: " + err.Error()
	}
	return hex.EncodeToString(bz)
}

func durableUtxoStore(disk *simdb.Disk) *utxo.UtxoStore {
	u := utxo.NewUtxoStore(disk.DB(simnode.DBUtxo), disk.DB(simnode.DBUtxoOutput), disk.DB(simnode.DBUtxoOutputTok))
	u.SetLogger(log.NewNopLogger())
	return u
}

// takeUtxoRef reads the reference from a node that has fully committed h. The
// number of outputs per token is the reference ledger's (txgen), the stored
// outputs are what the uncrashed execution wrote.
func takeUtxoRef(n *node, r *crashRun, h uint64, blk *types.Block) *utxoRef {
	ref := &utxoRef{count: map[common.Address]int64{}, outputs: map[common.Address][]string{}}
	if prev := r.ref[h-1]; prev != nil && prev.utxo != nil {
		ref.spent = append(ref.spent, prev.utxo.spent...)
	}
	for _, tx := range blk.Data.Txs {
		if ut, ok := tx.(*types.UTXOTransaction); ok {
			for _, ki := range ut.GetInputKeyImages() {
				ref.own = append(ref.own, *ki)
			}
		}
	}
	ref.spent = append(ref.spent, ref.own...)
	store := durableUtxoStore(n.disk)
	ref.init = map[uint64]string{}
	if prev := r.ref[h-1]; prev != nil && prev.utxo != nil {
		for k, v := range prev.utxo.init {
			ref.init[k] = v
		}
	}
	ref.init[h] = initDigest(store.GetBlockTokenUtxoOutputSeq(h))
	for _, tok := range r.w.txg.L.Tokens() {
		cnt := store.GetMaxUtxoOutputSeq(tok) + 1
		if cnt <= 0 {
			continue
		}
		ref.tokens = append(ref.tokens, tok)
		ref.count[tok] = cnt
		for i := int64(0); i < cnt; i++ {
			o, err := store.GetUtxoOutput(tok, uint64(i))
			if err != nil || o == nil {
				ref.outputs[tok] = append(ref.outputs[tok], fmt.Sprintf("unreadable: %v", err))
				continue
			}
			ref.outputs[tok] = append(ref.outputs[tok], outputDigest(o))
		}
	}
	return ref
}

func initDigest(m map[string]int64) string {
	ks := make([]string, 0, len(m))
	for k := range m {
		ks = append(ks, k)
	}
	sort.Strings(ks)
	out := ""
	for _, k := range ks {
		out += fmt.Sprintf("%s=%d;", k, m[k])
	}
	return out
}

// modelOutputs is the number of hidden outputs of a token the reference
// ledger knows.
func modelOutputs(g *txgen.Gen, tok common.Address) int64 { return int64(len(g.L.Hidden[tok])) }

// checkUtxo: spent-key-image set and output index describe height H.
func (r *crashRun) checkUtxo(n *node, sc *scenario, z *zRef, H uint64, phase string) bool {
	h := sc.h
	refH := H
	if refH > h {
		refH = h
	}
	ref := r.refOf(refH, z)
	if ref == nil || ref.utxo == nil {
		return true
	}
	u := ref.utxo
	views := []struct {
		name  string
		store *utxo.UtxoStore
	}{{"utxo store reopened from disk", durableUtxoStore(n.disk)}, {"live utxo store", n.chain.UtxoStore}}
	// tokens that have outputs at the crashed height but none at H
	tokens := append([]common.Address(nil), u.tokens...)
	if z.ref.utxo != nil {
		for _, t := range z.ref.utxo.tokens {
			if _, ok := u.count[t]; !ok {
				tokens = append(tokens, t)
			}
		}
	}
	for _, v := range views {
		var behind []string
		for _, tok := range tokens {
			want := u.count[tok]
			got := v.store.GetMaxUtxoOutputSeq(tok) + 1
			if got != want {
				behind = append(behind, fmt.Sprintf("output index of token %s holds %d outputs, the chain up to height %d created %d", tok.Hex(), got, H, want))
				continue
			}
			for i := int64(0); i < want; i++ {
				o, err := v.store.GetUtxoOutput(tok, uint64(i))
				if err != nil || o == nil || outputDigest(o) != u.outputs[tok][i] {
					behind = append(behind, fmt.Sprintf("output %d of token %s is missing or differs (err=%v)", i, tok.Hex(), err))
					break
				}
			}
		}
		for hh := uint64(1); hh <= refH; hh++ {
			if got := initDigest(v.store.GetBlockTokenUtxoOutputSeq(hh)); got != u.init[hh] {
				behind = append(behind, fmt.Sprintf("per-block initial output sequence record of height %d is %q, the uncrashed execution stored %q", hh, got, u.init[hh]))
				break
			}
		}
		lost := 0
		for i := range u.spent {
			if !v.store.HaveTxKeyimgAsSpent(&u.spent[i]) {
				lost++
			}
		}
		if lost > 0 {
			// a key of its own: the start-up step that re-saves the key images of
			// the last block (d76fc0a) closes this window, so on the repaired tree
			// it must never be hit and must not hide behind the known
			// utxo-store-behind finding (seeded change C13-7)
			if r.violate(sc, "spent-set-behind", "%s: block store, state and status are at height %d but in the %s %d of the %d key images spent by blocks <= %d are not marked spent (those hidden outputs can be spent again)", phase, H, v.name, lost, len(u.spent), H) {
				return false
			}
		}
		if len(behind) > 0 {
			if r.violate(sc, "utxo-store-behind", "%s: block store, state and status are at height %d but the %s is not: %s", phase, H, v.name, strings.Join(behind, "; ")) {
				return false
			}
			break // the live store was loaded from the same records
		}
		if H == h-1 && z.ref.utxo != nil {
			for i := range z.ref.utxo.own {
				if v.store.HaveTxKeyimgAsSpent(&z.ref.utxo.own[i]) {
					if r.violate(sc, "key-image-ahead", "%s: %s: a key image of block %d is marked spent while the block store is at %d", phase, v.name, h, H) {
						return false
					}
					break
				}
			}
		}
	}
	return true
}
