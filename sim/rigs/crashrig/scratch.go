package crashrig

import (
	"fmt"
	"os"
	"path/filepath"
	"strings"
	"time"
)

// runDir returns a fresh per-run directory. The log is written with one fsync
// per own message and then damaged tens of thousands of times: on the shared
// disk an fsync can stall for seconds when other checks run, so the directory
// is placed on the tmpfs /dev/shm when there is one (VERIF_TMPFS=0 switches
// that off) and under $VERIF_SCRATCH otherwise. Either way it is removed at the
// end of the run; directories a killed worker left on the tmpfs are swept
// after an hour.
func runDir(prefix string, seed uint64) (string, error) {
	base := os.Getenv("VERIF_SCRATCH")
	if base == "" {
		base = filepath.Join(os.TempDir(), "verif-scratch")
	}
	if os.Getenv("VERIF_TMPFS") != "0" {
		if st, err := os.Stat("/dev/shm"); err == nil && st.IsDir() {
			sweep("/dev/shm", "verif-"+prefix+"-")
			// unique per worker: derived from the worker's scratch path
			tag := strings.NewReplacer("/", "_").Replace(strings.TrimPrefix(base, "/"))
			if len(tag) > 80 {
				tag = tag[len(tag)-80:]
			}
			shm := filepath.Join("/dev/shm", "verif-"+prefix+"-"+tag)
			if os.MkdirAll(shm, 0700) == nil {
				base = shm
			}
		}
	}
	dir := filepath.Join(base, fmt.Sprintf("%s-%d", prefix, seed))
	os.RemoveAll(dir)
	if err := os.MkdirAll(dir, 0700); err != nil {
		return "", err
	}
	return dir, nil
}

// dropRunDir removes the run directory and, when it lives on the tmpfs, its
// then empty per-worker parent.
func dropRunDir(dir string) {
	os.RemoveAll(dir)
	if p := filepath.Dir(dir); strings.HasPrefix(p, "/dev/shm/verif-") {
		os.Remove(p) // fails harmlessly when not empty
	}
}

func sweep(root, prefix string) {
	ents, err := os.ReadDir(root)
	if err != nil {
		return
	}
	for _, e := range ents {
		if !strings.HasPrefix(e.Name(), prefix) {
			continue
		}
		if fi, err := e.Info(); err == nil && time.Since(fi.ModTime()) > time.Hour {
			os.RemoveAll(filepath.Join(root, e.Name()))
		}
	}
}
