package crashrig

import (
	"crypto/ecdsa"
	"fmt"
	"math/big"

	"github.com/lianxiangcloud/linkchain/libs/common"
	"github.com/lianxiangcloud/linkchain/libs/crypto"
	"github.com/lianxiangcloud/linkchain/types"
)

type user struct{ priv *ecdsa.PrivateKey }

var userCache = map[int]*user{}

func userKey(i int) *user {
	if u, ok := userCache[i]; ok {
		return u
	}
	d := new(big.Int).SetBytes(crypto.Keccak256([]byte(fmt.Sprintf("verif-c13-user-%d", i))))
	d.Mod(d, new(big.Int).Sub(crypto.S256().Params().N, big.NewInt(2)))
	d.Add(d, big.NewInt(1))
	priv := new(ecdsa.PrivateKey)
	priv.PublicKey.Curve = crypto.S256()
	priv.D = d
	priv.PublicKey.X, priv.PublicKey.Y = crypto.S256().ScalarBaseMult(d.Bytes())
	u := &user{priv: priv}
	userCache[i] = u
	return u
}

func (u *user) address() common.Address { return crypto.PubkeyToAddress(u.priv.PublicKey) }

func userAddr(i int) common.Address { return userKey(i).address() }

// transfer builds a signed plain account transfer.
func (u *user) transfer(nonce uint64, to common.Address, amount *big.Int) (types.Tx, error) {
	gasLimit := types.CalNewAmountGas(amount, types.EverLiankeFee)
	tx := types.NewTransaction(nonce, to, amount, gasLimit, big.NewInt(types.GasPrice), nil)
	if err := tx.Sign(types.GlobalSTDSigner, u.priv); err != nil {
		return nil, err
	}
	return tx, nil
}
