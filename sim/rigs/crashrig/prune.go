package crashrig

import (
	"fmt"
	"os"
	"runtime"

	cs "github.com/lianxiangcloud/linkchain/consensus"

	"github.com/lianxiangcloud/linkchain/types"

	"verif/sim/kernel"
	"verif/sim/simnode"
	"verif/sim/txgen"
)

// truth is what the load functions returned for one height when it was the
// newest (recorded as the chain grows, before any pruning touched it).
type truth struct {
	block, meta, seen string // digests ("" = nil)
	commit            string // LoadBlockCommit(h), known once h+1 is stored
	commitKnown       bool
	vals              string // LoadValidators(h): hash + last changed
	params            string // LoadConsensusParams(h)
}

type pruneRun struct {
	w     *world
	c     *kernel.Ctx
	g     *durable
	truth map[uint64]*truth
	trace []string
	// read tap used as the runaway guard of a pruning call
	armed     bool
	reads     int
	aborted   bool
	evaluated bool
	rel       string // K against the chain height L at the latest pruning call
}

const pruneReadBudget = 60000

func newPruneRun(w *world, g *durable) *pruneRun {
	p := &pruneRun{w: w, c: w.c, g: g, truth: map[uint64]*truth{}}
	return p
}

func (p *pruneRun) tracef(format string, args ...interface{}) {
	if len(p.trace) < 60 {
		p.trace = append(p.trace, fmt.Sprintf(format, args...))
	}
}

// loads reads everything the oracle compares for height h; a panic of a load
// function is part of the observation.
func (p *pruneRun) loads(n *node, h uint64, withCommit bool) (t truth, panics []string) {
	bs := n.chain.BlockStore
	db := n.disk.DB(simnode.DBStatus)
	try := func(name string, f func()) {
		if site, msg, panicked := kernel.Try(f); panicked {
			panics = append(panics, fmt.Sprintf("%s panics at %s: %s", name, site, firstLines(msg, 160)))
		}
	}
	try("LoadBlock", func() {
		if b := bs.LoadBlock(h); b != nil {
			t.block = b.Hash().Hex()
		}
	})
	try("LoadBlockMeta", func() {
		if m := bs.LoadBlockMeta(h); m != nil {
			t.meta = m.BlockID.String() + "/" + m.Header.Hash().Hex()
		}
	})
	try("LoadSeenCommit", func() {
		if cm := bs.LoadSeenCommit(h); cm != nil {
			t.seen = cm.Hash().Hex()
		}
	})
	if withCommit {
		try("LoadBlockCommit", func() {
			if cm := bs.LoadBlockCommit(h); cm != nil {
				t.commit = cm.Hash().Hex()
			}
			t.commitKnown = true
		})
	}
	try("LoadValidators", func() {
		vs, changed, err := cs.LoadValidators(db, h)
		if err != nil {
			t.vals = "error: " + err.Error()
			return
		}
		t.vals = fmt.Sprintf("%x/changed@%d", vs.Hash(), changed)
	})
	try("LoadConsensusParams", func() {
		pr, err := cs.LoadConsensusParams(db, h)
		if err != nil {
			t.params = "error: " + err.Error()
			return
		}
		t.params = fmt.Sprintf("%x", pr.Hash())
	})
	return
}

// record notes the truth of the newest height H (and the block commit of H-1,
// which exists once H is stored).
func (p *pruneRun) record(n *node, H uint64) {
	if _, ok := p.truth[H]; !ok {
		t, panics := p.loads(n, H, false)
		if len(panics) > 0 {
			// a load of the NEWEST height panicking is judged by the caller's window check
			p.tracef("height %d: %v", H, panics)
		}
		p.truth[H] = &t
	}
	if H > 1 {
		if prev := p.truth[H-1]; prev != nil && !prev.commitKnown {
			kernel.Try(func() {
				if cm := n.chain.BlockStore.LoadBlockCommit(H - 1); cm != nil {
					prev.commit = cm.Hash().Hex()
				}
				prev.commitKnown = true
			})
		}
	}
}

func rel(K, L uint64) string {
	switch {
	case K < L:
		return "K<L"
	case K == L:
		return "K=L"
	}
	return "K>L"
}

// prune runs the body of node.ClearHistoricalData's ticker case once. The
// block store call is known to be able to run away (uint64 wrap), so it runs
// on its own goroutine under a read budget; the verdict is taken from the data
// afterwards, never from the abort.
func (p *pruneRun) prune(n *node, K uint64) {
	done := make(chan struct{})
	// data lost by a call made while the chain was shorter than K stays lost:
	// once "K>L" has applied, later observations are attributed to it
	if p.rel != "K>L" {
		p.rel = rel(K, n.storeHeight())
	}
	p.armed, p.reads, p.aborted = true, 0, false
	n.disk.MissingRead = func(db string, key []byte) bool {
		if p.armed {
			p.reads++
			if p.reads > pruneReadBudget {
				p.aborted = true
				p.armed = false
				runtime.Goexit()
			}
		}
		return false
	}
	var panicMsg string
	go func() {
		defer close(done)
		defer func() {
			if r := recover(); r != nil {
				site, _ := kernel.PanicSite()
				panicMsg = fmt.Sprintf("%s: %v", site, r)
			}
		}()
		n.chain.BlockStore.DeleteHistoricalData(K)
		p.reads = 0
		n.cs.DeleteHistoricalData(K)
	}()
	<-done
	p.armed = false
	n.disk.MissingRead = nil
	n.settle()
	p.c.Fault("prune-call")
	if p.aborted {
		p.c.Fault("prune-runaway-aborted")
		p.tracef("pruning with K=%d at height %d ran away (more than %d reads) and was aborted", K, n.storeHeight(), pruneReadBudget)
	}
	if panicMsg != "" {
		p.c.Violate("prune-panic", "C13/prune/panic/"+p.rel, "pruning with K=%d at height %d panics: %s", K, n.storeHeight(), firstLines(panicMsg, 300))
	}
}

// checkWindow compares the last K heights with the truth.
func (p *pruneRun) checkWindow(n *node, K uint64, phase string) bool {
	c := p.c
	H := n.storeHeight()
	if K == 0 {
		return true
	}
	lo := uint64(1)
	if H > K {
		lo = H - K + 1
	}
	c.Evals(1)
	p.evaluated = true
	r := p.rel
	var first = map[string]bool{}
	report := func(what string, h uint64, format string, args ...interface{}) bool {
		key := "C13/prune/" + what + "/" + r
		if first[key] {
			return true
		}
		first[key] = true
		msg := fmt.Sprintf(format, args...)
		if os.Getenv("C13_LIST") != "" {
			if !listed[key] {
				listed[key] = true
				fmt.Printf("C13_LIST %s | %s: H=%d K=%d(%s) window %d..%d h=%d: %s\n", key, phase, H, K, p.w.conf.KeepName, lo, H, h, msg)
			}
			return true
		}
		return !c.Violate("prune-"+what, key, "%s: chain height %d, retention K=%d (%s), retained window %d..%d, height %d: %s", phase, H, K, p.w.conf.KeepName, lo, H, h, msg)
	}
	for h := lo; h <= H; h++ {
		want := p.truth[h]
		if want == nil {
			continue
		}
		got, panics := p.loads(n, h, want.commitKnown)
		for _, pm := range panics {
			what := "load-panic"
			if len(pm) > 14 && pm[:14] == "LoadValidators" {
				what = "validators-fallback-record-deleted"
			} else if len(pm) > 19 && pm[:19] == "LoadConsensusParams" {
				what = "params-fallback-record-deleted"
			}
			if !report(what, h, "%s", pm) {
				return false
			}
		}
		chk := func(what, w, g string) bool {
			if w == g {
				return true
			}
			return report(what, h, "before pruning %q, after pruning %q", w, g)
		}
		if !chk("block-deleted", want.block, got.block) {
			return false
		}
		if !chk("block-meta-deleted", want.meta, got.meta) {
			return false
		}
		if !chk("seen-commit-deleted", want.seen, got.seen) {
			return false
		}
		if want.commitKnown && !chk("block-commit-deleted", want.commit, got.commit) {
			return false
		}
		if !hasPanic(panics, "LoadValidators") && !chk("validators-record-deleted", want.vals, got.vals) {
			return false
		}
		if !hasPanic(panics, "LoadConsensusParams") && !chk("params-record-deleted", want.params, got.params) {
			return false
		}
	}
	return true
}

func hasPanic(ps []string, name string) bool {
	for _, p := range ps {
		if len(p) >= len(name) && p[:len(name)] == name {
			return true
		}
	}
	return false
}

func (p *pruneRun) run() {
	c := p.c
	conf := p.w.conf
	K := conf.Keep
	L := uint64(conf.Blocks)
	n, err := p.w.open(p.g, "prune")
	if err != nil {
		if n != nil {
			n.stop()
		}
		c.HarnessTrouble("open: %v", err)
		return
	}
	defer func() { n.stop() }()
	n.settle()
	var changes []uint64
	wl := p.w.c.Tape.Fork("workload-shape")
	lastChanged := uint64(0)
	grow := func(to uint64, phase string) bool {
		for h := n.storeHeight() + 1; h <= to; h++ {
			g := p.w.txg
			for k := wl.Range(0, 2); k > 0; k-- {
				if it := g.Next(); it != nil {
					if tx, err := txgen.CloneTx(it.Tx); err == nil {
						n.chain.RegisterRate()
						kernel.Try(func() { n.chain.Mempool.AddTx("", tx) })
					}
				}
			}
			if !n.driveTo(h, 80) {
				why := fmt.Sprintf("store height %d, consensus height %d", n.storeHeight(), n.consHeight())
				if n.failed {
					why += ", CONSENSUS FAILURE: " + firstLines(n.failMsg, 300)
				}
				if phase == "" {
					c.HarnessTrouble("chain did not reach height %d before any pruning: %s", h, why)
				} else {
					c.Violate("prune-chain-halts", "C13/prune/chain-halts/"+p.rel, "%s: the chain cannot commit height %d: %s", phase, h, why)
				}
				return false
			}
			if blk := n.chain.BlockStore.LoadBlock(h); blk != nil {
				var rs types.Receipts
				if rc := n.chain.BlockStore.GetReceipts(h); rc != nil {
					rs = *rc
				}
				if _, err := g.Committed(h, blk.Data.Txs, rs); err != nil {
					g.Reset()
				}
			}
			p.record(n, h)
			if st := n.cs.GetState(); st.LastHeightValidatorsChanged != lastChanged {
				lastChanged = st.LastHeightValidatorsChanged
				changes = append(changes, lastChanged)
			}
		}
		return true
	}
	phase := ""
	for i, at := range conf.PruneAt {
		if !grow(uint64(at), phase) {
			return
		}
		p.prune(n, K)
		phase = fmt.Sprintf("after pruning call %d (at height %d)", i+1, at)
		p.tracef("%s: K=%d, validator-change heights so far %v", phase, K, changes)
		if c.Failed() || !p.checkWindow(n, K, phase) {
			return
		}
	}
	// the chain goes on after pruning, and the window still holds
	if K >= 1 {
		if !grow(L+2, phase+", continuing") {
			return
		}
		if !p.checkWindow(n, K, phase+", two heights later") {
			return
		}
		// a pruned node restarts
		snap, err := n.snapshot("pruned")
		if err != nil {
			c.HarnessTrouble("snapshot: %v", err)
			return
		}
		n.stop()
		var n2 *node
		var oerr error
		site, msg, panicked := kernel.Try(func() { n2, oerr = p.w.open(snap, "pruned-restart") })
		if n2 != nil {
			n = n2
		}
		if panicked || oerr != nil {
			c.Violate("prune-restart", "C13/prune/restart-fails/"+p.rel, "a node pruned with K=%d does not restart: panic=%v %s %s err=%v", K, panicked, site, firstLines(msg, 200), oerr)
			return
		}
		n.settle()
		c.Fault("restart")
		if !grow(L+3, phase+", after restart") {
			return
		}
		if !p.checkWindow(n, K, phase+", after restart") {
			return
		}
	}
	if p.evaluated {
		c.NonTrivial()
	}
	c.Finger("prune", conf.IsTrie, K, L, conf.PruneAt, changes)
	if len(changes) > 1 {
		c.Probe("validator-set-changed-during-chain")
	}
}
