// Package crashrig is the R-crash rig of C13: crash consistency of the real
// finalizeCommit sequence at every database write boundary, in both storage
// modes, and pruning with a retention window.
package crashrig

import (
	"fmt"
	"math/big"
	"time"

	"github.com/lianxiangcloud/linkchain/config"
	cs "github.com/lianxiangcloud/linkchain/consensus"
	"github.com/lianxiangcloud/linkchain/libs/common"
	"github.com/lianxiangcloud/linkchain/libs/crypto"
	"github.com/lianxiangcloud/linkchain/libs/log"

	"verif/sim/kernel"
	"verif/sim/simdb"
	"verif/sim/simnode"
)

// runConf is the swarm configuration of one run (head of the tape).
type runConf struct {
	Mode              string // crash | prune
	IsTrie            bool
	Blocks            int
	Elections         bool
	VotePeriod        uint64
	NCand             int
	PartSize          int
	TimeoutCommit     int
	SkipTimeoutCommit bool
	Keep              uint64 // prune: retention window K
	KeepName          string // which member of {0,1,2,5,L-1,L,L+3}
	PruneAt           []int  // prune: heights at which ClearHistoricalData's body runs
}

func init() {
	log.Root().SetHandler(log.DiscardHandler())
	kernel.Register(&kernel.Rig{
		Property: "C13", Name: "R-crash", Level: "fault_enumeration",
		Rule: "crash runs (2 of 3): one seeded configuration (storage mode kv/trie, 3-4 blocks quick / 3-6 thorough, 0-3 account transfers per block, optional elections with VotePeriod 2-3 and 2-5 candidates so that the validator set changes, optional duplicate-vote evidence, part size, commit timeout) ; for EVERY block the number W of database write boundaries of the real consensus.finalizeCommit is measured and the commit is re-executed W+1 times from the pre-commit durable state, frozen after boundary k = 0..W (SaveBlock's three writer goroutines released in a tape-chosen order), and a fresh node is restarted over the frozen image + the WAL/validator/kvState.wal files as they were at that instant and driven to the next height. prune runs (1 of 3): chain of L <= 16 (quick) / 40 (thorough) blocks with elections, retention K from {0,1,2,5,L-1,L,L+3}, pruning called as node.ClearHistoricalData does at 1-2 tape-chosen heights, chain continued and node restarted afterwards. non-trivial = at least 30 crash points evaluated (crash) / at least one pruning call with a non-empty retained window evaluated (prune); distinct = hash of (mode, storage mode, elections, per-height W and tx counts, validator-set sizes / K, L, prune heights, validator-change heights)",
		Real: []string{"consensus.ConsensusState incl. receiveRoutine, finalizeCommit, WAL catch-up replay (single validator)", "consensus WAL (real baseWAL on files)", "types.FilePV on a real file", "app.LinkApplication.CommitBlock", "state.StateDB commit in kv mode (real kvState.wal file) and trie mode", "blockchain.BlockStore.SaveBlock with its three writer goroutines", "libs/txmgr tx index", "utxo.UtxoStore.SaveUtxo", "mempool update", "consensus.BlockExecutor.ApplyBlock + SaveStatus", "evidence pool/store", "p2p.ConManager (socket-free through the ListenerBindFunc/DefaultNewTableFunc seams) for the election path", "BlockStore.DeleteHistoricalData", "ConsensusState.DeleteHistoricalData"},
		Stub: []string{"node assembly: simnode.OpenChain mirrors node.NewNode (store opening order, LoadStatus, NewLinkApplication, 'status one block behind the store => ApplyBlock' rebuild, mempool, consensus construction); the real NewNode (key store, switch, RPC) is not run", "timeout ticker (simulator-controlled VerifTicker, same replace-if-later rule)", "storage engine (SimDB: process-crash model, a completed write survives, nothing later does)", "p2p switch (no peers)", "libxcrypto (pure-Go model)", "balance-record store closed (SaveBalanceRecord=false, the default)"},
		Assumptions: []string{"Go 1.26.8 testing/synctest virtual clock", "process-crash model at database write boundaries; files (WAL, priv_validator.json, kvState.wal) are copied at the freeze instant; torn file writes and crash points between two file operations that are not separated by a DB write are not injected", "single validator holding > 2/3 of the power (elected candidates get power 1 and are absent)", "a second crash during recovery is not injected", "confidential (UTXO) transactions are generated only when verif/sim/txgen provides them"},
		QuickRuns: 96, QuickBudget: 70 * time.Second, ThoroughRuns: 3000, ThoroughBudget: 18 * time.Minute,
		RunsPerProcess: 6, RunTimeout: 400 * time.Second,
		Run: run,
	})
}

func genesisTime() time.Time { return time.Unix(946684800, 0) }

func seededKey(tag string, i int, seed uint64) crypto.PrivKeyEd25519 {
	return crypto.GenPrivKeyEd25519FromSecret([]byte(fmt.Sprintf("verif-c13-%s-%d-%d", tag, i, seed)))
}

func drawConf(c *kernel.Ctx) runConf {
	t := c.Tape.Fork("config")
	thorough := c.Tier == kernel.Thorough
	cf := runConf{}
	if t.Pick(2, 1) == 0 {
		cf.Mode = "crash"
	} else {
		cf.Mode = "prune"
	}
	cf.IsTrie = t.Bool(1, 2)
	cf.Elections = t.Bool(1, 2)
	cf.VotePeriod = uint64(t.Range(2, 3))
	cf.NCand = t.Range(2, 5)
	cf.PartSize = []int{64, 256, 65536}[t.Int(3)]
	cf.TimeoutCommit = []int{10, 200}[t.Int(2)]
	// SkipTimeoutCommit stays off: with a single validator "all precommits of the
	// last height are in" holds at once and the node would free-run through
	// heights inside one event
	cf.SkipTimeoutCommit = false
	if cf.Mode == "crash" {
		cf.Blocks = t.Range(3, 4)
		if thorough {
			cf.Blocks = t.Range(3, 6)
		}
		return cf
	}
	// prune
	cf.Elections = t.Bool(3, 4)
	cf.VotePeriod = uint64([]int{2, 3, 5}[t.Int(3)])
	maxL := 16
	if thorough {
		maxL = 40
	}
	L := t.Range(5, maxL)
	cf.Blocks = L
	names := []string{"0", "1", "2", "5", "L-1", "L", "L+3"}
	vals := []int{0, 1, 2, 5, L - 1, L, L + 3}
	i := t.Pick(1, 3, 3, 3, 3, 3, 3)
	cf.Keep, cf.KeepName = uint64(vals[i]), names[i]
	if t.Bool(1, 2) {
		cf.PruneAt = append(cf.PruneAt, t.Range(1, L-1))
	}
	cf.PruneAt = append(cf.PruneAt, L)
	return cf
}

func run(c *kernel.Ctx) {
	simnode.InitGlobals()
	conf := drawConf(c)
	dir, err := runDir("c13", c.Tape.Seed())
	if err != nil {
		c.HarnessTrouble("scratch: %v", err)
		return
	}
	defer dropRunDir(dir)
	kernel.Bubble(c, false, func() {
		w := &world{c: c, sched: c.Tape.Fork("sched"), conf: conf, isTrie: conf.IsTrie, scratch: dir}
		g, err := w.genesis()
		if err != nil {
			c.HarnessTrouble("genesis: %v", err)
			return
		}
		switch conf.Mode {
		case "crash":
			r := newCrashRun(w, g)
			r.run()
			c.Sample(map[string]interface{}{"config": conf, "crash_points": r.points, "heights": r.sample})
		case "prune":
			p := newPruneRun(w, g)
			p.run()
			c.Sample(map[string]interface{}{"config": conf, "trace": p.trace})
		}
	})
}

// genesis installs the genesis of the run and returns its durable state.
func (w *world) genesis() (*durable, error) {
	seed := w.c.Tape.Seed()
	conf := w.conf
	var cb common.Address
	copy(cb[:], crypto.Keccak256([]byte("c13-coinbase-0"))[:20])
	w.key = simnode.ValKey{Priv: seededKey("val", 0, seed), Power: 100, CoinBase: cb}
	gen := &simnode.GenesisSpec{ChainID: "verif-c13", IsTrie: conf.IsTrie, PartSize: conf.PartSize, Vals: []simnode.ValKey{w.key}}
	for i := 0; i < nUsers; i++ {
		gen.Alloc = append(gen.Alloc, simnode.Alloc{Addr: userAddr(i), Balance: new(big.Int).Mul(big.NewInt(1e18), big.NewInt(1000000))})
	}
	if conf.Elections {
		gen.VotePeriod = conf.VotePeriod
		for i := 0; i < conf.NCand; i++ {
			var ccb common.Address
			copy(ccb[:], crypto.Keccak256([]byte(fmt.Sprintf("c13-cand-coinbase-%d", i)))[:20])
			// no Deposit record: GetCandidatesDeposit then reports 0 for every
			// candidate (simnode's deposit layout starts with a zero byte, which
			// contract storage trims)
			gen.Candidates = append(gen.Candidates, simnode.CandidateSpec{
				Key:   simnode.ValKey{Priv: seededKey("cand", i, seed), Power: 1, CoinBase: ccb},
				Score: int64(5 + 3*i),
			})
		}
	}
	w.gen = gen
	d0 := w.newDir("genesis")
	disk := simdb.NewDisk(dataDir(d0))
	if err := gen.Install(disk); err != nil {
		return nil, err
	}
	return &durable{img: disk.Snapshot(), dir: d0}, nil
}

func (w *world) trackedAccounts() []common.Address {
	m := map[common.Address]bool{config.ContractFoundationAddr: true, w.key.CoinBase: true}
	for i := 0; i < nUsers; i++ {
		m[userAddr(i)] = true
	}
	for _, cd := range w.gen.Candidates {
		m[cd.Key.CoinBase] = true
	}
	return sortedAddrs(m)
}

// planWorkload draws the transfers of heights 1..L.
func (w *world) planWorkload(L int, maxPerBlock int) map[uint64][]*plannedTx {
	t := w.c.Tape.Fork("workload")
	plan := map[uint64][]*plannedTx{}
	nonces := make([]uint64, nUsers)
	for h := 1; h <= L; h++ {
		n := t.Range(0, maxPerBlock)
		for k := 0; k < n; k++ {
			from := t.Int(nUsers)
			to := (from + 1 + t.Int(nUsers-1)) % nUsers
			amt := big.NewInt(int64(1 + t.Int(1000000)))
			tx, err := userKey(from).transfer(nonces[from], userAddr(to), amt)
			if err != nil {
				continue
			}
			nonces[from]++
			plan[uint64(h)] = append(plan[uint64(h)], &plannedTx{from: from, to: to, amount: amt, tx: tx, hash: tx.Hash()})
		}
	}
	return plan
}

func newCrashRun(w *world, g *durable) *crashRun {
	r := &crashRun{w: w, c: w.c, ref: map[uint64]*heightRef{}, snaps: map[uint64]*durable{0: g}, evAt: map[uint64]bool{}}
	r.tracked = w.trackedAccounts()
	r.plan = w.planWorkload(w.conf.Blocks, 3)
	t := w.c.Tape.Fork("workload-evidence")
	for h := 2; h <= w.conf.Blocks; h++ {
		if t.Bool(1, 3) {
			r.evAt[uint64(h)] = true
		}
	}
	// genesis reference
	gd := simdb.NewDiskFromImage(g.img, "")
	st, res0, err := durableState(gd, w.isTrie, 0)
	if err == nil {
		ref := &heightRef{trieRoot: res0.TrieRoot.Hex()}
		ref.bal, ref.nonce = r.readLedger(st)
		if s0, err := cs.LoadStatus(gd.DB(simnode.DBStatus)); err == nil {
			ref.status = s0.Bytes()
		}
		r.ref[0] = ref
	} else {
		w.c.HarnessTrouble("genesis state: %v", err)
	}
	return r
}
