// Package crashrig is the R-crash rig of C13: crash consistency of the real
// finalizeCommit sequence at every database write boundary, in both storage
// modes, and pruning with a retention window.
package crashrig

import (
	"fmt"
	"time"

	"github.com/lianxiangcloud/linkchain/config"
	cs "github.com/lianxiangcloud/linkchain/consensus"
	"github.com/lianxiangcloud/linkchain/libs/common"
	"github.com/lianxiangcloud/linkchain/libs/crypto"
	"github.com/lianxiangcloud/linkchain/libs/log"

	"verif/sim/kernel"
	"verif/sim/simdb"
	"verif/sim/simnode"
	"verif/sim/txgen"
)

// runConf is the swarm configuration of one run (head of the tape).
type runConf struct {
	Mode              string // crash | prune
	IsTrie            bool
	Utxo              bool // confidential transactions in the workload
	Blocks            int
	Elections         bool
	VotePeriod        uint64
	NCand             int
	PartSize          int
	TimeoutCommit     int
	SkipTimeoutCommit bool
	Keep              uint64 // prune: retention window K
	KeepName          string // which member of {0,1,2,5,L-1,L,L+3}
	PruneAt           []int  // prune: heights at which ClearHistoricalData's body runs
}

func init() {
	log.Root().SetHandler(log.DiscardHandler())
	kernel.Register(&kernel.Rig{
		Property: "C13", Name: "R-crash", Level: "fault_enumeration",
		Rule: "crash runs (2 of 3): one seeded configuration (storage mode kv/trie, 3-4 blocks quick / 3-6 thorough, 0-3 account transfers per block, optional elections with VotePeriod 2-3 and 2-5 candidates so that the validator set changes, optional duplicate-vote evidence, part size, commit timeout) ; for EVERY block the number W of database write boundaries of the real consensus.finalizeCommit is measured and the commit is re-executed W+1 times from the pre-commit durable state, frozen after boundary k = 0..W (SaveBlock's three writer goroutines released in a tape-chosen order), and a fresh node is restarted over the frozen image + the WAL/validator/kvState.wal files as they were at that instant and driven to the next height. prune runs (1 of 3): chain of L <= 16 (quick) / 40 (thorough) blocks with elections, retention K from {0,1,2,5,L-1,L,L+3}, pruning called as node.ClearHistoricalData does at 1-2 tape-chosen heights, chain continued and node restarted afterwards. non-trivial = at least 30 crash points evaluated (crash) / at least one pruning call with a non-empty retained window evaluated (prune); distinct = hash of (mode, storage mode, elections, per-height W and tx counts, validator-set sizes / K, L, prune heights, validator-change heights)",
		Real: []string{"consensus.ConsensusState incl. receiveRoutine, finalizeCommit, WAL catch-up replay (single validator)", "consensus WAL (real baseWAL on files)", "types.FilePV on a real file", "app.LinkApplication.CommitBlock", "state.StateDB commit in kv mode (real kvState.wal file) and trie mode", "blockchain.BlockStore.SaveBlock with its three writer goroutines", "libs/txmgr tx index", "utxo.UtxoStore.SaveUtxo", "mempool update", "consensus.BlockExecutor.ApplyBlock + SaveStatus", "evidence pool/store", "p2p.ConManager (socket-free through the ListenerBindFunc/DefaultNewTableFunc seams) for the election path", "BlockStore.DeleteHistoricalData", "ConsensusState.DeleteHistoricalData"},
		Stub: []string{"node assembly: simnode.OpenChain mirrors node.NewNode (store opening order, LoadStatus, NewLinkApplication, 'status one block behind the store => ApplyBlock' rebuild, mempool, consensus construction); the real NewNode (key store, switch, RPC) is not run", "timeout ticker (simulator-controlled VerifTicker, same replace-if-later rule)", "storage engine (SimDB: process-crash model, a completed write survives, nothing later does)", "p2p switch (no peers)", "libxcrypto (pure-Go model)", "balance-record store closed (SaveBalanceRecord=false, the default)"},
		Assumptions: []string{"Go 1.26.8 testing/synctest virtual clock", "process-crash model at database write boundaries; files (WAL, priv_validator.json, kvState.wal) are copied at the freeze instant; torn file writes and crash points between two file operations that are not separated by a DB write are not injected", "single validator holding > 2/3 of the power (elected candidates get power 1 and are absent)", "a second crash during recovery is not injected", "confidential (UTXO) transactions are generated only when verif/sim/txgen provides them"},
		QuickRuns: 96, QuickBudget: 70 * time.Second, ThoroughRuns: 3000, ThoroughBudget: 18 * time.Minute,
		RunsPerProcess: 6, RunTimeout: 400 * time.Second,
		Run: run,
	})
}

func genesisTime() time.Time { return time.Unix(946684800, 0) }

func seededKey(tag string, i int, seed uint64) crypto.PrivKeyEd25519 {
	return crypto.GenPrivKeyEd25519FromSecret([]byte(fmt.Sprintf("verif-c13-%s-%d-%d", tag, i, seed)))
}

func drawConf(c *kernel.Ctx) runConf {
	t := c.Tape.Fork("config")
	thorough := c.Tier == kernel.Thorough
	cf := runConf{}
	if t.Pick(2, 1) == 0 {
		cf.Mode = "crash"
	} else {
		cf.Mode = "prune"
	}
	cf.IsTrie = t.Bool(1, 2)
	cf.Utxo = txgen.UtxoReady() && t.Bool(2, 3)
	cf.Elections = t.Bool(1, 2)
	cf.VotePeriod = uint64(t.Range(2, 3))
	cf.NCand = t.Range(2, 5)
	cf.PartSize = []int{64, 256, 65536}[t.Int(3)]
	cf.TimeoutCommit = []int{10, 200}[t.Int(2)]
	// SkipTimeoutCommit stays off: with a single validator "all precommits of the
	// last height are in" holds at once and the node would free-run through
	// heights inside one event
	cf.SkipTimeoutCommit = false
	if cf.Mode == "crash" {
		cf.Blocks = t.Range(3, 4)
		if thorough {
			cf.Blocks = t.Range(3, 6)
		}
		return cf
	}
	// prune
	cf.Elections = t.Bool(3, 4)
	cf.VotePeriod = uint64([]int{2, 3, 5}[t.Int(3)])
	maxL := 16
	if thorough {
		maxL = 40
	}
	L := t.Range(5, maxL)
	cf.Blocks = L
	names := []string{"0", "1", "2", "5", "L-1", "L", "L+3"}
	vals := []int{0, 1, 2, 5, L - 1, L, L + 3}
	i := t.Pick(1, 3, 3, 3, 3, 3, 3)
	cf.Keep, cf.KeepName = uint64(vals[i]), names[i]
	if t.Bool(1, 2) {
		cf.PruneAt = append(cf.PruneAt, t.Range(1, L-1))
	}
	cf.PruneAt = append(cf.PruneAt, L)
	return cf
}

func run(c *kernel.Ctx) {
	simnode.InitGlobals()
	conf := drawConf(c)
	dir, err := runDir("c13", c.Tape.Seed())
	if err != nil {
		c.HarnessTrouble("scratch: %v", err)
		return
	}
	defer dropRunDir(dir)
	kernel.Bubble(c, false, func() {
		w := &world{c: c, sched: c.Tape.Fork("sched"), conf: conf, isTrie: conf.IsTrie, scratch: dir}
		g, err := w.genesis()
		if err != nil {
			c.HarnessTrouble("genesis: %v", err)
			return
		}
		switch conf.Mode {
		case "crash":
			r := newCrashRun(w, g)
			r.run()
			c.Sample(map[string]interface{}{"config": conf, "crash_points": r.points, "heights": r.sample})
		case "prune":
			p := newPruneRun(w, g)
			p.run()
			c.Sample(map[string]interface{}{"config": conf, "trace": p.trace})
		}
	})
}

// genesis installs the genesis of the run and returns its durable state.
func (w *world) genesis() (*durable, error) {
	seed := w.c.Tape.Seed()
	conf := w.conf
	var cb common.Address
	copy(cb[:], crypto.Keccak256([]byte("c13-coinbase-0"))[:20])
	w.key = simnode.ValKey{Priv: seededKey("val", 0, seed), Power: 100, CoinBase: cb}
	gen := &simnode.GenesisSpec{ChainID: "verif-c13", IsTrie: conf.IsTrie, PartSize: conf.PartSize, Vals: []simnode.ValKey{w.key}}
	kinds := []txgen.Kind{txgen.KTransfer, txgen.KCreate, txgen.KCallStore, txgen.KValueContract}
	weights := map[txgen.Kind]int{txgen.KTransfer: 6, txgen.KCreate: 2, txgen.KCallStore: 3, txgen.KValueContract: 1}
	if conf.Mode == "prune" {
		kinds, weights = []txgen.Kind{txgen.KTransfer}, map[txgen.Kind]int{txgen.KTransfer: 1}
	}
	if conf.Utxo {
		kinds = append(kinds, txgen.UtxoKinds...)
		for _, k := range txgen.UtxoKinds {
			weights[k] = 3
		}
	}
	w.txg = txgen.New(w.c.Tape.Fork("workload"), txgen.Config{Accounts: 4, Kinds: kinds, Weights: weights, Utxo: conf.Utxo, Validators: []simnode.ValKey{w.key}})
	gen.Alloc = w.txg.Alloc()
	w.txg.KnowGenesis(config.ContractValidatorsAddr, common.EmptyAddress, w.key.CoinBase)
	if conf.Elections {
		gen.VotePeriod = conf.VotePeriod
		for i := 0; i < conf.NCand; i++ {
			var ccb common.Address
			copy(ccb[:], crypto.Keccak256([]byte(fmt.Sprintf("c13-cand-coinbase-%d", i)))[:20])
			// no Deposit record: GetCandidatesDeposit then reports 0 for every
			// candidate (simnode's deposit layout starts with a zero byte, which
			// contract storage trims)
			gen.Candidates = append(gen.Candidates, simnode.CandidateSpec{
				Key:   simnode.ValKey{Priv: seededKey("cand", i, seed), Power: 1, CoinBase: ccb},
				Score: int64(5 + 3*i),
			})
		}
	}
	w.gen = gen
	d0 := w.newDir("genesis")
	disk := simdb.NewDisk(dataDir(d0))
	if err := gen.Install(disk); err != nil {
		return nil, err
	}
	return &durable{img: disk.Snapshot(), dir: d0}, nil
}

// extraAccounts are the accounts outside the generator's universe whose
// balance the reference covers (they must stay untouched by the workload).
func (w *world) extraAccounts() []common.Address {
	out := []common.Address{w.key.CoinBase}
	for _, cd := range w.gen.Candidates {
		out = append(out, cd.Key.CoinBase)
	}
	return out
}

func newCrashRun(w *world, g *durable) *crashRun {
	r := &crashRun{w: w, c: w.c, ref: map[uint64]*heightRef{}, snaps: map[uint64]*durable{0: g}, evAt: map[uint64]bool{},
		plan: map[uint64][]*txgen.Item{}, planned: map[uint64]bool{}}
	t := w.c.Tape.Fork("workload-evidence")
	for h := 2; h <= w.conf.Blocks; h++ {
		if t.Bool(1, 3) {
			r.evAt[uint64(h)] = true
		}
	}
	// genesis reference
	gd := simdb.NewDiskFromImage(g.img, "")
	_, res0, err := durableState(gd, w.isTrie, 0)
	if err == nil {
		ref := &heightRef{trieRoot: res0.TrieRoot.Hex(), bal: map[common.Address]string{}, nonce: map[common.Address]uint64{}}
		if s0, err := cs.LoadStatus(gd.DB(simnode.DBStatus)); err == nil {
			ref.status = s0.Bytes()
		}
		for _, a := range w.txg.L.Universe() {
			ref.addrs = append(ref.addrs, a)
			ref.bal[a], ref.nonce[a] = w.txg.L.Balance(txgen.Native, a).String(), w.txg.L.Nonce(a)
		}
		r.ref[0] = ref
	} else {
		w.c.HarnessTrouble("genesis state: %v", err)
	}
	return r
}
