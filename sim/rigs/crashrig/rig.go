// Package crashrig is the R-crash rig of C13: crash consistency of the real
// finalizeCommit sequence at every database write boundary, in both storage
// modes, and pruning with a retention window.
package crashrig

import (
	"fmt"
	"os"
	"runtime"
	"time"

	"github.com/lianxiangcloud/linkchain/config"
	cs "github.com/lianxiangcloud/linkchain/consensus"
	"github.com/lianxiangcloud/linkchain/libs/common"
	"github.com/lianxiangcloud/linkchain/libs/crypto"
	"github.com/lianxiangcloud/linkchain/libs/log"

	"verif/sim/kernel"
	"verif/sim/simdb"
	"verif/sim/simnode"
	"verif/sim/txgen"
)

// runConf is the swarm configuration of one run (head of the tape).
type runConf struct {
	Mode              string // crash | prune
	IsTrie            bool
	Utxo              bool // confidential transactions in the workload
	Blocks            int
	Elections         bool
	VotePeriod        uint64
	NCand             int
	PartSize          int
	TimeoutCommit     int
	SkipTimeoutCommit bool
	Life              int    // crash: contract storage life cycles in the workload (0 off, 1 light, 2 heavy)
	Rebirth           bool   // crash: CREATE2 re-creation at the address of a self-destructed contract permitted
	Gov               bool   // crash + elections: the real Coefficient contract in genesis; blocks change election coefficients
	Keep              uint64 // prune: retention window K
	KeepName          string // which member of {0,1,2,5,L-1,L,L+3}
	PruneAt           []int  // prune: heights at which ClearHistoricalData's body runs
}

func init() {
	log.Root().SetHandler(log.DiscardHandler())
	kernel.Register(&kernel.Rig{
		Property: "C13", Name: "R-crash", Level: "fault_enumeration",
		Rule:        "crash runs (2 of 3): one seeded configuration (storage mode kv/trie, 3-4 blocks quick / 3-6 thorough, per block 0-4 transactions from the shared generator txgen: account transfers, contract creation/storage calls and - in 2 of 3 runs - confidential transactions account->hidden, hidden->hidden, hidden->account so that blocks carry UTXO outputs and key images; in 2 of 3 election runs the genesis holds the REAL Coefficient wasm contract and blocks carry governance transactions (vote period 1-4, vote rate electing fewer candidates, ranking rates, maximal score) so that the interrupted commit changes what the next validators are computed from; in 5 of 6 crash runs contract storage life cycles (txgen.LifeGen, 1-3 transactions per block: contracts whose constructor writes slots are created in the first blocks, later blocks overwrite and CLEAR slots, read / re-write slots cleared earlier, send coin and tokens in, SELFDESTRUCT contracts holding storage, CREATE2 children and - when the chain is long enough - re-create a destroyed child at the same address), so that the commit a crash interrupts DELETES keys of the flat state and its undo log must hold their pre-images; optional elections (coefficient record with VotePeriod 2-3 and 2-5 candidate records in genesis: the validator set changes); optional duplicate-vote evidence; part size; commit timeout). A single validator runs the REAL consensus.finalizeCommit. For EVERY block the number W of database write boundaries of the commit is measured (App.CommitBlock: state commit incl. kv undo-WAL, SaveBlock's three writer goroutines released in a tape-chosen order, batch, height descriptor, SaveUtxo batches and sequence records, mempool update; WAL end-height marker; ApplyBlock: evidence store, status and per-height validator/parameter records) and the commit is re-executed W+1 times from the pre-commit durable state, the durable image frozen after boundary k = 0..W together with the WAL / validator-key / kvState.wal files as they are at that instant; a fresh node is started over the frozen image (restart must not panic or refuse), the oracle is evaluated, the node is driven to commit the next height, the oracle is evaluated again. Long-lived trials: for every height h >= 2 a tape-chosen sample of 5 (quick) / 10 (thorough) boundaries - always including the last write of the state commit - is crashed again in an incarnation that started 1-3 heights earlier and committed those heights ITSELF before the commit of h (same process: same open kvState.wal handle, consensus WAL, caches; its own blocks of those heights are the reference for hash/status/root, the main line for everything else). A node started over the completely committed state of h-1 that dies with CONSENSUS FAILURE while committing h is a violation of its own (key .../clean-restart). Oracle: block store height = consensus status height = consensus state machine height - 1; every block, seen commit, block commit, tx-index entry and receipt of heights <= H readable and equal to what was committed before the crash (heights < h from the main line, height h from the crashed execution itself run to completion); the block of height h committed before the crash present iff the commit had completed, never a different block; saved status of the last heights byte-equal to the uncrashed execution's; validator/parameter records loadable; world state on disk and the application's view equal to the reference ledger (txgen: plain maps advanced from receipts) of height H, trie root equal; code, nonce, coin and token balances and every storage slot ever touched of every life-cycle contract, read from the state stored for H, equal to what the never-crashed execution holds for that height and to the rig's storage model (plain maps advanced from calldata and receipt statuses; what the uncrashed chain itself disagrees with is left out); output index (count, every output, per-block initial sequence record) and spent-key-image set exactly those of blocks <= H. A witness node runs the same transactions from genesis without any restart and must satisfy the same oracle (key .../no-crash). prune runs (1 of 3): chain of L <= 16 (quick) / 40 (thorough) blocks, elections in 3 of 4 runs (validator-change heights follow from the tape), retention K from {0,1,2,5,L-1,L,L+3}; BlockStore.DeleteHistoricalData(K) then ConsensusState.DeleteHistoricalData(K) as node.ClearHistoricalData calls them, at 1-2 tape-chosen heights (each call on its own goroutine under a read budget: a runaway call is cut off and judged by the data only); the chain continues two heights, the node restarts, the chain continues. Oracle: LoadBlock, LoadBlockMeta, LoadSeenCommit, LoadBlockCommit, LoadValidators, LoadConsensusParams of the last K heights return what they returned when the height was new. non-trivial = at least 30 crash points evaluated (crash) / at least one non-empty retained window evaluated (prune); distinct = hash of (mode, storage mode, elections, per-height W, tx counts and validator-set sizes / K, L, prune heights, validator-change heights)",
		Real:        []string{"consensus.ConsensusState incl. receiveRoutine, finalizeCommit, WAL catch-up replay (single validator)", "consensus WAL (real baseWAL on files)", "types.FilePV on a real file", "app.LinkApplication (CreateBlock, PreRunBlock, CheckBlock, CommitBlock, election path)", "state.StateDB commit in kv mode (real kvState.wal file) and trie mode", "blockchain.BlockStore.SaveBlock with its three writer goroutines", "libs/txmgr tx index", "utxo.UtxoStore.SaveUtxo", "mempool (AddTx, Reap, Update)", "consensus.BlockExecutor.ApplyBlock + SaveStatus", "evidence pool/store", "p2p.ConManager (socket-free through the ListenerBindFunc/DefaultNewTableFunc seams) for the election path", "BlockStore.DeleteHistoricalData", "ConsensusState.DeleteHistoricalData", "linkchain's own confidential-transaction builders/verifiers (types/tx_utxo.go)"},
		Stub:        []string{"node assembly: simnode.OpenChain mirrors node.NewNode (store opening order, LoadStatus, NewLinkApplication, 'status one block behind the store => ApplyBlock' rebuild, mempool, consensus construction); the real NewNode (key store, switch, RPC) is not run", "timeout ticker (simulator-controlled VerifTicker, same replace-if-later rule)", "storage engine (SimDB: process-crash model, a completed write survives, nothing later does)", "p2p switch (no peers)", "libxcrypto (pure-Go model)", "balance-record store closed (SaveBalanceRecord=false, the default)"},
		Assumptions: []string{"Go 1.26.8 testing/synctest virtual clock", "process-crash model at database write boundaries; files (WAL, priv_validator.json, kvState.wal) are copied at the freeze instant; torn file writes and crash points between two file operations that are not separated by a DB write are not injected", "single validator holding > 2/3 of the power (1-3 elected candidates with power 45/24/16 each are absent: their proposer turns time out)", "a second crash during recovery is not injected", "the writes of the state commit are issued in Go map iteration order: which account/storage/code write is the k-th differs between executions and between a run and its replay: violation keys of these crash points carry no ordinal (C13/crash/state/write/<kind>), the ordinal is in the message", "candidate deposits are absent from genesis (GetCandidatesDeposit reports 0)"},
		QuickRuns:   112, QuickBudget: 75 * time.Second, ThoroughRuns: 9000, ThoroughBudget: 18 * time.Minute,
		RunsPerProcess: 6, RunTimeout: 400 * time.Second,
		Run: run,
	})
}

func candPower(nCand int) int64 {
	switch nCand * 3 / 5 {
	case 0, 1:
		return 45
	case 2:
		return 24
	}
	return 16
}

func genesisTime() time.Time { return time.Unix(946684800, 0) }

func seededKey(tag string, i int, seed uint64) crypto.PrivKeyEd25519 {
	return crypto.GenPrivKeyEd25519FromSecret([]byte(fmt.Sprintf("verif-c13-%s-%d-%d", tag, i, seed)))
}

func drawConf(c *kernel.Ctx) runConf {
	t := c.Tape.Fork("config")
	thorough := c.Tier == kernel.Thorough
	cf := runConf{}
	if t.Pick(2, 1) == 0 {
		cf.Mode = "crash"
	} else {
		cf.Mode = "prune"
	}
	cf.IsTrie = t.Bool(1, 2)
	cf.Utxo = txgen.UtxoReady() && t.Bool(2, 3)
	cf.Elections = t.Bool(1, 2)
	cf.VotePeriod = uint64(t.Range(2, 3))
	cf.NCand = t.Range(2, 5)
	cf.PartSize = []int{64, 256, 65536}[t.Int(3)]
	cf.TimeoutCommit = []int{10, 200}[t.Int(2)]
	// SkipTimeoutCommit stays off: with a single validator "all precommits of the
	// last height are in" holds at once and the node would free-run through
	// heights inside one event
	cf.SkipTimeoutCommit = false
	if cf.Mode == "crash" {
		cf.Blocks = t.Range(3, 4)
		if thorough {
			cf.Blocks = t.Range(3, 6)
		}
		// contract storage life cycles: their own stream (the "config" stream keeps its meaning)
		lt := c.Tape.Fork("life-config")
		cf.Life = lt.Pick(1, 2, 3)
		cf.Rebirth = cf.Life > 0 && lt.Bool(2, 3)
		cf.Gov = cf.Elections && c.Tape.Fork("gov-config").Bool(2, 3)
		if cf.Life == 2 && lt.Bool(1, 2) {
			cf.Blocks++
		}
		return cf
	}
	// prune
	cf.Elections = t.Bool(3, 4)
	cf.VotePeriod = uint64([]int{2, 3, 5}[t.Int(3)])
	maxL := 16
	if thorough {
		maxL = 40
	}
	L := t.Range(5, maxL)
	cf.Blocks = L
	names := []string{"0", "1", "2", "5", "L-1", "L", "L+3"}
	vals := []int{0, 1, 2, 5, L - 1, L, L + 3}
	i := t.Pick(1, 3, 3, 3, 3, 3, 3)
	cf.Keep, cf.KeepName = uint64(vals[i]), names[i]
	if t.Bool(1, 2) {
		cf.PruneAt = append(cf.PruneAt, t.Range(1, L-1))
	}
	cf.PruneAt = append(cf.PruneAt, L)
	return cf
}

func run(c *kernel.Ctx) {
	if os.Getenv("C13_LEAK") != "" {
		defer func() {
			var ms runtime.MemStats
			runtime.ReadMemStats(&ms)
			fmt.Printf("C13_LEAK goroutines=%d heap=%dMB sys=%dMB\n", runtime.NumGoroutine(), ms.HeapAlloc>>20, ms.Sys>>20)
		}()
	}
	simnode.InitGlobals()
	conf := drawConf(c)
	dir, err := runDir("c13", c.Tape.Seed())
	if err != nil {
		c.HarnessTrouble("scratch: %v", err)
		return
	}
	defer dropRunDir(dir)
	kernel.Bubble(c, false, func() {
		w := &world{c: c, sched: c.Tape.Fork("sched"), conf: conf, isTrie: conf.IsTrie, scratch: dir}
		g, err := w.genesis()
		if err != nil {
			c.HarnessTrouble("genesis: %v", err)
			return
		}
		switch conf.Mode {
		case "crash":
			r := newCrashRun(w, g)
			r.run()
			c.Sample(map[string]interface{}{"config": conf, "crash_points": r.points, "heights": r.sample})
		case "prune":
			p := newPruneRun(w, g)
			p.run()
			c.Sample(map[string]interface{}{"config": conf, "trace": p.trace})
		}
	})
}

// genesis installs the genesis of the run and returns its durable state.
func (w *world) genesis() (*durable, error) {
	seed := w.c.Tape.Seed()
	conf := w.conf
	var cb common.Address
	copy(cb[:], crypto.Keccak256([]byte("c13-coinbase-0"))[:20])
	w.key = simnode.ValKey{Priv: seededKey("val", 0, seed), Power: 100, CoinBase: cb}
	gen := &simnode.GenesisSpec{ChainID: "verif-c13", IsTrie: conf.IsTrie, PartSize: conf.PartSize, Vals: []simnode.ValKey{w.key}}
	kinds := []txgen.Kind{txgen.KTransfer, txgen.KCreate, txgen.KCallStore, txgen.KValueContract}
	weights := map[txgen.Kind]int{txgen.KTransfer: 6, txgen.KCreate: 2, txgen.KCallStore: 3, txgen.KValueContract: 1}
	if conf.Mode == "prune" {
		kinds, weights = []txgen.Kind{txgen.KTransfer}, map[txgen.Kind]int{txgen.KTransfer: 1}
	}
	if conf.Utxo {
		kinds = append(kinds, txgen.UtxoKinds...)
		for _, k := range txgen.UtxoKinds {
			weights[k] = 3
		}
	}
	w.txg = txgen.New(w.c.Tape.Fork("workload"), txgen.Config{Accounts: 4, Kinds: kinds, Weights: weights, Utxo: conf.Utxo, Validators: []simnode.ValKey{w.key}})
	w.life = txgen.NewLife(w.txg, w.c.Tape.Fork("life"))
	w.life.Rebirth = conf.Rebirth
	// issued tokens only in runs without confidential transactions: confidential
	// outputs of a further token add write boundaries (one max-sequence record
	// per token) whose ordinals are part of the keys of the listed finding
	// utxo-store-behind
	w.life.NoTokens = conf.Utxo
	gen.Alloc = w.txg.Alloc()
	w.txg.KnowGenesis(config.ContractValidatorsAddr, common.EmptyAddress, w.key.CoinBase)
	if conf.Gov {
		// the real Coefficient contract; the first generator account governs
		gen.CoefficientContract, gen.Governor = true, w.txg.Accts[0].Addr
	}
	if conf.Elections {
		gen.VotePeriod = conf.VotePeriod
		for i := 0; i < conf.NCand; i++ {
			var ccb common.Address
			copy(ccb[:], crypto.Keccak256([]byte(fmt.Sprintf("c13-cand-coinbase-%d", i)))[:20])
			// no Deposit record: GetCandidatesDeposit then reports 0 for every
			// candidate (simnode's deposit layout starts with a zero byte, which
			// contract storage trims)
			gen.Candidates = append(gen.Candidates, simnode.CandidateSpec{
				// NCand*3/5 candidates are elected (VoteRate 3/5) and are absent; their
				// power keeps the running validator (100) above 2/3 of the total and
				// is large enough that they get proposer turns within a few heights
				// (those rounds time out: commits in round > 0)
				Key:   simnode.ValKey{Priv: seededKey("cand", i, seed), Power: candPower(conf.NCand), CoinBase: ccb},
				Score: int64(5 + 3*i),
			})
		}
	}
	w.gen = gen
	d0 := w.newDir("genesis")
	disk := simdb.NewDisk(dataDir(d0))
	if err := gen.Install(disk); err != nil {
		return nil, err
	}
	return &durable{img: disk.Snapshot(), dir: d0}, nil
}

// extraAccounts are the accounts outside the generator's universe whose
// balance the reference covers (they must stay untouched by the workload).
func (w *world) extraAccounts() []common.Address {
	out := []common.Address{w.key.CoinBase}
	for _, cd := range w.gen.Candidates {
		out = append(out, cd.Key.CoinBase)
	}
	return out
}

func newCrashRun(w *world, g *durable) *crashRun {
	r := &crashRun{w: w, c: w.c, ref: map[uint64]*heightRef{}, snaps: map[uint64]*durable{0: g}, evAt: map[uint64]bool{},
		plan: map[uint64][]*txgen.Item{}, planned: map[uint64]bool{}}
	t := w.c.Tape.Fork("workload-evidence")
	for h := 2; h <= w.conf.Blocks; h++ {
		if t.Bool(1, 3) {
			r.evAt[uint64(h)] = true
		}
	}
	// genesis reference
	gd := simdb.NewDiskFromImage(g.img, "")
	st0, res0, err := durableState(gd, w.isTrie, 0)
	if err == nil {
		ref := &heightRef{trieRoot: res0.TrieRoot.Hex()}
		if s0, err := cs.LoadStatus(gd.DB(simnode.DBStatus)); err == nil {
			ref.status = s0.Bytes()
		}
		r.ledgerRef(ref, st0)
		r.ref[0] = ref
	} else {
		w.c.HarnessTrouble("genesis state: %v", err)
	}
	return r
}
