// Package crashrig is the R-crash rig of C13: crash consistency of the commit
// sequence at every database write boundary, and pruning.
package crashrig

import (
	"fmt"
	"math/big"
	"os"
	"path/filepath"
	"time"

	"github.com/lianxiangcloud/linkchain/libs/common"
	"github.com/lianxiangcloud/linkchain/libs/crypto"
	"github.com/lianxiangcloud/linkchain/libs/log"

	"verif/sim/kernel"
	"verif/sim/simdb"
	"verif/sim/simnode"
)

type runConf struct {
	Mode              string // crash | prune
	IsTrie            bool
	Blocks            int
	Elections         bool
	VotePeriod        uint64
	NCand             int
	PartSize          int
	TimeoutCommit     int
	SkipTimeoutCommit bool
}

func init() {
	log.Root().SetHandler(log.DiscardHandler())
	kernel.Register(&kernel.Rig{
		Property: "C13", Name: "R-crash", Level: "fault_enumeration",
		Rule:      "TODO",
		QuickRuns: 32, QuickBudget: 70 * time.Second, ThoroughRuns: 2000, ThoroughBudget: 18 * time.Minute,
		RunsPerProcess: 8, RunTimeout: 300 * time.Second,
		Run: run,
	})
}

func run(c *kernel.Ctx) {
	simnode.InitGlobals()
	kernel.Bubble(c, false, func() { proto(c) })
}

func seededKey(tag string, i int, seed uint64) crypto.PrivKeyEd25519 {
	return crypto.GenPrivKeyEd25519FromSecret([]byte(fmt.Sprintf("verif-%s-%d-%d", tag, i, seed)))
}

func proto(c *kernel.Ctx) {
	seed := c.Tape.Seed()
	w := &world{c: c, sched: c.Tape.Fork("sched")}
	w.conf = runConf{Mode: "crash", IsTrie: os.Getenv("P_TRIE") != "", Blocks: 3, PartSize: 256, TimeoutCommit: 10}
	w.isTrie = w.conf.IsTrie
	base := os.Getenv("VERIF_SCRATCH")
	if base == "" {
		base = os.TempDir()
	}
	w.scratch = filepath.Join(base, fmt.Sprintf("run-%d", seed))
	os.RemoveAll(w.scratch)
	os.MkdirAll(w.scratch, 0755)
	defer os.RemoveAll(w.scratch)
	var cb common.Address
	copy(cb[:], crypto.Keccak256([]byte("coinbase-0"))[:20])
	w.key = simnode.ValKey{Priv: seededKey("val", 0, seed), Power: 10, CoinBase: cb}
	gen := &simnode.GenesisSpec{ChainID: "verif-chain", IsTrie: w.isTrie, PartSize: 256, Vals: []simnode.ValKey{w.key}}
	for i := 0; i < 4; i++ {
		gen.Alloc = append(gen.Alloc, simnode.Alloc{Addr: userAddr(i), Balance: new(big.Int).Mul(big.NewInt(1e18), big.NewInt(1000000))})
	}
	w.gen = gen
	d0dir := w.newDir("genesis")
	disk := simdb.NewDisk(dataDir(d0dir))
	if err := gen.Install(disk); err != nil {
		c.HarnessTrouble("genesis: %v", err)
		return
	}
	d0 := &durable{img: disk.Snapshot(), dir: d0dir}
	n, err := w.open(d0, "main")
	if err != nil {
		c.HarnessTrouble("open: %v", err)
		return
	}
	n.settle()
	n.disk.KeepLog(true)
	n.gateOn = true
	for h := uint64(1); h <= 3; h++ {
		tx, _ := userKey(0).transfer(h-1, userAddr(1), big.NewInt(1000))
		n.chain.RegisterRate()
		fmt.Println("addtx", n.chain.Mempool.AddTx("", tx))
		b := n.disk.Seq()
		ok := n.driveTo(h, 50)
		fmt.Println("height", h, ok, "store", n.storeHeight(), "cons", n.consHeight(), "failed", n.failed, n.failMsg)
		for _, r := range n.disk.Log()[b:] {
			fmt.Printf("  %d %s %s keys=%d\n", r.Seq, r.DB, r.Op, r.Keys)
		}
	}
	n.stop()
}
