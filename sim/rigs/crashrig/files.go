package crashrig

import (
	"io"
	"os"
	"path/filepath"
)

// copyTree copies the regular files and directories under src into dst
// (created if needed). It is what "the files as they are on the file system at
// this instant" means for the validator key file, the consensus WAL group and
// kvState.wal: a process crash keeps exactly the bytes already handed to the
// operating system.
func copyTree(src, dst string) error {
	return filepath.Walk(src, func(path string, info os.FileInfo, err error) error {
		if err != nil {
			if os.IsNotExist(err) {
				return nil // a temp file renamed away under the walk
			}
			return err
		}
		rel, err := filepath.Rel(src, path)
		if err != nil {
			return err
		}
		target := filepath.Join(dst, rel)
		if info.IsDir() {
			return os.MkdirAll(target, 0755)
		}
		if !info.Mode().IsRegular() {
			return nil
		}
		in, err := os.Open(path)
		if err != nil {
			if os.IsNotExist(err) {
				return nil
			}
			return err
		}
		defer in.Close()
		out, err := os.OpenFile(target, os.O_CREATE|os.O_WRONLY|os.O_TRUNC, info.Mode().Perm())
		if err != nil {
			return err
		}
		if _, err := io.Copy(out, in); err != nil {
			out.Close()
			return err
		}
		return out.Close()
	})
}
