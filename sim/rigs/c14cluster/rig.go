// Package c14cluster is the node-level part of C14: the whole node (real
// ConsensusState, real file WAL, WAL catch-up replay at every restart) under
// crashes at event boundaries and inside write sequences; at the restart the
// WAL head file is found cut at a tape-chosen offset behind the last end-height
// marker, or with one altered byte (checksum, length or payload field of a
// record of the last height or of an earlier height). The consumer of the log,
// consensus.catchupReplay, is judged against the view the real decoder has of
// the same bytes: what the decoder yields must have been handed to the state
// machine, and a log that ends in a corruption error must be reported, never
// announced as replayed.
package c14cluster

import (
	"time"

	"verif/sim/cluster"
	"verif/sim/kernel"
)

// Run performs one cluster run in WAL-replay mode.
func Run(c *kernel.Ctx) { cluster.RunMode(c, cluster.ModeWALReplay) }

// Standalone is the node-level part as a rig of its own (development aid:
// checks/c14x); the registered C14 check is rigs/c14rig.
func Standalone() *kernel.Rig {
	return &kernel.Rig{
		Property: "C14", Name: "R-cluster/walreplay", Level: "exploration",
		Rule:      "node-level part of C14 only",
		QuickRuns: 200, QuickBudget: 75 * time.Second, ThoroughRuns: 4000, ThoroughBudget: 20 * time.Minute,
		RunsPerProcess: 40, RunTimeout: 600 * time.Second,
		Run: Run,
	}
}
