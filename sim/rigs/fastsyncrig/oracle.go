package fastsyncrig

import (
	"bytes"
	"crypto/ed25519"
	"fmt"
	"math/big"
	"runtime"
	"sync"

	cs "github.com/lianxiangcloud/linkchain/consensus"
	"github.com/lianxiangcloud/linkchain/libs/crypto"
	"github.com/lianxiangcloud/linkchain/types"

	"verif/sim/simnode"
)

// commitVerdict is the rig's own reading of the property statement for one
// (votes, block id, height, validator set, chain id): strictly more than two
// thirds of the set's power, one correctly signed precommit per validator for
// exactly that block id, at that height, in one common round, on this chain.
// It does not call VerifyCommit or any validator of the code under test: a
// slot counts when the ed25519 signature in it verifies, under the public key
// of some validator of the set in force, over the sign-bytes of a reference
// precommit built from the CLAIMED tuple (chain, height, block id), the slot's
// round and the slot's timestamp; a validator counts once per round.
type commitVerdict struct {
	ok     bool
	why    string
	round  int
	power  *big.Int
	total  *big.Int
	signed int
}

func (w *world) judgeCommit(commit *types.Commit, id types.BlockID, height uint64) commitVerdict {
	vals := w.valsAt[len(w.valsAt)-1]
	if int(height) < len(w.valsAt) && w.valsAt[height] != nil {
		vals = w.valsAt[height]
	}
	total := new(big.Int)
	type member struct {
		addr  string
		pub   crypto.PubKeyEd25519
		power int64
	}
	var members []member
	for i := 0; i < vals.Size(); i++ {
		addr, v := vals.GetByIndex(i)
		k, ok := w.byAddr[string(addr)]
		if !ok {
			return commitVerdict{why: "validator-set-unknown-to-harness", power: new(big.Int), total: total}
		}
		// key from the harness's own genesis record
		pub, _ := w.keys[k].PubKey().(crypto.PubKeyEd25519)
		members = append(members, member{addr: string(addr), pub: pub, power: v.VotingPower})
		total.Add(total, big.NewInt(v.VotingPower))
	}
	out := commitVerdict{power: new(big.Int), total: total, round: -1}
	if commit == nil {
		out.why = "no-commit"
		return out
	}
	// tally per round: every validator at most once per round. Who contributed a
	// precommit is decided by the signature alone (the address, index and size
	// fields of a vote are not signed: a vote whose address field was damaged
	// is still that validator's correctly signed precommit): the claimed
	// address is tried first, then the slot, then everybody.
	perRound := map[int]*big.Int{}
	seen := map[string]bool{}
	for slot, pc := range commit.Precommits {
		if pc == nil || pc.Signature == nil {
			continue
		}
		sig, ok := pc.Signature.(crypto.SignatureEd25519)
		if !ok {
			continue
		}
		ref := &types.Vote{Height: height, Round: pc.Round, Timestamp: pc.Timestamp, Type: types.VoteTypePrecommit, BlockID: id}
		msg := ref.SignBytes(w.chainID)
		signer := -1
		var order []int
		for i, m := range members {
			if m.addr == string(pc.ValidatorAddress) {
				order = append(order, i)
			}
		}
		if slot < len(members) {
			order = append(order, slot)
		}
		for i := range members {
			order = append(order, i)
		}
		tried := map[int]bool{}
		for _, i := range order {
			if tried[i] {
				continue
			}
			tried[i] = true
			if ed25519.Verify(members[i].pub[:], msg, sig[:]) {
				signer = i
				break
			}
		}
		if signer < 0 {
			continue
		}
		key := fmt.Sprintf("%d/%d", pc.Round, signer)
		if seen[key] {
			continue
		}
		seen[key] = true
		if perRound[pc.Round] == nil {
			perRound[pc.Round] = new(big.Int)
		}
		perRound[pc.Round].Add(perRound[pc.Round], big.NewInt(members[signer].power))
		out.signed++
	}
	for r, p := range perRound {
		if p.Cmp(out.power) > 0 || (p.Cmp(out.power) == 0 && (out.round < 0 || r < out.round)) {
			out.power, out.round = p, r
		}
	}
	// strictly more than two thirds: 3*power > 2*total
	if new(big.Int).Mul(out.power, big.NewInt(3)).Cmp(new(big.Int).Mul(total, big.NewInt(2))) > 0 {
		out.ok = true
		return out
	}
	out.why = "no-round-with-more-than-two-thirds-for-this-block"
	return out
}

// ---------------------------------------------------------------- application tap

type acceptRec struct {
	h         uint64
	hash      string
	label     string // what the harness made this block as ("" = not made by the harness)
	commitLbl string
	verdict   commitVerdict
	canonical bool
}

// tapApp sits between the reactor and the syncing node's application. It
// re-registers the process-global UTXO rate getter, records every block the
// fast-sync loop hands to CommitBlock (= "accepted as a commit by fast sync")
// with the rig's verdict, and, when the verdict is "not a commit", lets the
// real CommitBlock store the block and then parks the pool routine for the
// rest of the run (what follows in poolRoutine on such a block is undefined:
// ApplyBlock may fail and kill the process).
type tapApp struct {
	cs.BlockChainApp
	w     *world
	chain *simnode.Chain

	mu           sync.Mutex
	accepted     []acceptRec
	checks       int
	refusedByApp int
	bad          *acceptRec
	park         chan struct{}
}

func (a *tapApp) CheckBlock(block *types.Block) bool {
	a.chain.RegisterRate()
	ok := a.BlockChainApp.CheckBlock(block)
	a.mu.Lock()
	a.checks++
	if !ok {
		a.refusedByApp++
	}
	a.mu.Unlock()
	return ok
}

func (a *tapApp) CommitBlock(block *types.Block, parts *types.PartSet, seen *types.Commit, fastsync bool) ([]*types.Validator, error) {
	a.chain.RegisterRate()
	w := a.w
	rec := acceptRec{h: block.Height, hash: block.Hash().Hex()}
	id := types.BlockID{Hash: block.Hash()}
	if parts != nil {
		id.PartsHeader = parts.Header()
	}
	rec.label = w.labels[idKey(id)]
	if int(block.Height) < len(w.canon) && w.canon[block.Height] != nil {
		cb := w.canon[block.Height]
		rec.canonical = cb.id.Equals(id) && bytes.Equal(cb.wire, encodeBlockResponse(block))
	}
	rec.commitLbl = w.commitLabel(seen)
	rec.verdict = w.judgeCommit(seen, id, block.Height)
	a.mu.Lock()
	a.accepted = append(a.accepted, rec)
	isBad := !rec.verdict.ok || !rec.canonical
	if isBad && a.bad == nil {
		r := rec
		a.bad = &r
	}
	a.mu.Unlock()
	vals, err := a.BlockChainApp.CommitBlock(block, parts, seen, fastsync)
	if isBad {
		<-a.park // closed when the run is over: the pool routine ends here
		runtime.Goexit()
	}
	return vals, err
}

func (a *tapApp) snapshot() (accepted []acceptRec, bad *acceptRec, checks, refused int) {
	a.mu.Lock()
	defer a.mu.Unlock()
	return append([]acceptRec(nil), a.accepted...), a.bad, a.checks, a.refusedByApp
}

// ---------------------------------------------------------------- oracles at quiescence

// oracle is evaluated after every delivered event and every time step. It
// returns false when the run must stop.
func (s *sim) oracle() bool {
	c, w := s.c, s.w
	_, bad, _, _ := s.app.snapshot()
	if bad != nil {
		first := bad.label
		if first == "" {
			first = "not-made-by-harness"
		}
		if !bad.verdict.ok {
			c.Violate("commit-accepted", "fastsync/accepted-without-quorum/first="+first+"/votes="+bad.commitLbl,
				"fast sync handed block %s (%s) at height %d to CommitBlock with votes (%s) that are not a commit for it: %s; power for this block in the best round %v of %v (round %d, %d counted signatures)",
				bad.hash, first, bad.h, bad.commitLbl, bad.verdict.why, bad.verdict.power, bad.verdict.total, bad.verdict.round, bad.verdict.signed)
		} else {
			c.Violate("commit-accepted", "fastsync/accepted-non-canonical/first="+first,
				"fast sync committed block %s (%s) at height %d which is not the canonical block of that height", bad.hash, first, bad.h)
		}
		return false
	}
	top := s.storeHeight()
	for h := s.checked + 1; h <= top; h++ {
		c.Evals(1)
		if int(h) >= len(w.canon) {
			c.Violate("store", "fastsync/store/height-above-chain", "block store holds height %d, the chain ends at %d", h, len(w.canon)-1)
			return false
		}
		cb := w.canon[h]
		b, meta := s.syncer.Chain.BlockStore.LoadBlockAndMeta(h)
		if b == nil || meta == nil {
			c.Violate("store", "fastsync/store/block-missing", "block store height is %d but block %d cannot be loaded", top, h)
			return false
		}
		if !meta.BlockID.Equals(cb.id) || !bytes.Equal(encodeBlockResponse(b), cb.wire) {
			lab := w.labels[idKey(meta.BlockID)]
			if lab == "" {
				lab = "not-made-by-harness"
			}
			if c.Violate("store", "fastsync/store/block-not-canonical/"+lab, "stored block %d is %v (%s), canonical is %v", h, meta.BlockID, lab, cb.id) {
				return false
			}
		}
		seen := s.syncer.Chain.BlockStore.LoadSeenCommit(h)
		v := w.judgeCommit(seen, cb.id, h)
		if !v.ok {
			if c.Violate("store", "fastsync/store/seen-commit-not-a-commit/"+w.commitLabel(seen), "stored seen-commit of block %d (%s) is not a commit for it: %s (power %v of %v)", h, w.commitLabel(seen), v.why, v.power, v.total) {
				return false
			}
		}
		s.checked = h
	}
	return true
}

// finalOracle compares everything the syncing node holds with the producer.
func (s *sim) finalOracle() {
	c, w := s.c, s.w
	top := s.storeHeight()
	st := s.syncer.Chain
	for h := uint64(1); h <= top && int(h) < len(w.canon); h++ {
		c.Evals(1)
		if h < top {
			bcm := st.BlockStore.LoadBlockCommit(h)
			if v := w.judgeCommit(bcm, w.canon[h].id, h); !v.ok {
				if c.Violate("store", "fastsync/store/block-commit-not-a-commit/"+w.commitLabel(bcm), "stored block-commit of %d is not a commit for it: %s", h, v.why) {
					return
				}
			}
		}
		want := w.txrAt[h]
		got, err := st.BlockStore.LoadTxsResult(h)
		if want == nil {
			continue
		}
		if err != nil || got == nil {
			if c.Violate("state", "fastsync/state/txs-result-missing", "no execution result stored for synced block %d: %v", h, err) {
				return
			}
			continue
		}
		if got.StateHash != want.StateHash || got.ReceiptHash != want.ReceiptHash || got.GasUsed != want.GasUsed || got.TrieRoot != want.TrieRoot {
			if c.Violate("state", "fastsync/state/execution-result-differs", "height %d: syncer state %v receipts %v gas %d root %v, producer state %v receipts %v gas %d root %v",
				h, got.StateHash, got.ReceiptHash, got.GasUsed, got.TrieRoot, want.StateHash, want.ReceiptHash, want.GasUsed, want.TrieRoot) {
				return
			}
		}
	}
	if top == 0 || int(top) >= len(w.statusAt) {
		return
	}
	got, err := cs.LoadStatus(st.Disk.DB(simnode.DBStatus))
	if err != nil {
		c.Violate("state", "fastsync/state/status-unreadable", "consensus status of the syncing node cannot be loaded: %v", err)
		return
	}
	// the status is saved by ApplyBlock right after CommitBlock: at quiescence both are at the same height
	if got.LastBlockHeight != top {
		c.Violate("state", "fastsync/state/status-height", "block store at %d, consensus status at %d", top, got.LastBlockHeight)
		return
	}
	want := w.statusAt[top]
	if !got.LastBlockID.Equals(want.LastBlockID) || got.LastBlockTotalTx != want.LastBlockTotalTx ||
		!bytes.Equal(got.Validators.Hash(), want.Validators.Hash()) || !bytes.Equal(got.LastValidators.Hash(), want.LastValidators.Hash()) {
		c.Violate("state", "fastsync/state/status-differs", "consensus status after syncing %d differs from the producer's: last block %v vs %v, total txs %d vs %d",
			top, got.LastBlockID, want.LastBlockID, got.LastBlockTotalTx, want.LastBlockTotalTx)
	}
}
