package fastsyncrig

import (
	"fmt"
	"math/big"
	"os"
	"path/filepath"
	"sort"
	"time"

	cs "github.com/lianxiangcloud/linkchain/consensus"
	"github.com/lianxiangcloud/linkchain/libs/common"
	"github.com/lianxiangcloud/linkchain/libs/crypto"
	"github.com/lianxiangcloud/linkchain/libs/ser"
	"github.com/lianxiangcloud/linkchain/types"

	"verif/sim/kernel"
	"verif/sim/simdb"
	"verif/sim/simnode"
	"verif/sim/txgen"
)

// blk is one block the harness made: the pristine object (never handed to the
// code under test), its identity and what it is by construction.
type blk struct {
	h     uint64
	b     *types.Block
	id    types.BlockID
	label string // "canon", "alt:time", "alt:txs", "alt:empty", "second:<kind>", ...
	wire  []byte // bcBlockResponseMessage bytes
}

// config is the drawn configuration of one run.
type config struct {
	L        int // canonical chain length
	NVals    int
	Powers   []int64
	MaxTxs   int
	NPeers   int
	ByzOnly  bool
	PartSize int
	IsTrie   bool
	Faulty   time.Duration // length of the faulty phase
	Calm     time.Duration // budget of the calm phase
}

// world is the ground truth of one run: the canonical chain made by the
// producer, the never-committed alternatives, the keys.
type world struct {
	c       *kernel.Ctx
	cfg     config
	chainID string
	dir     string
	spec    *simnode.GenesisSpec
	keys    []simnode.ValKey // the validators
	rogue   []simnode.ValKey // keys that are not validators
	byAddr  map[string]int   // validator address -> index in keys
	prod    *txgen.Replica
	gen     *txgen.Gen

	canon    []*blk            // canon[h], h = 1..L (canon[0] nil)
	commits  []*types.Commit   // commits[h]: the canonical commit for canon[h] (= canon[h+1].LastCommit)
	rounds   []int             // rounds[h]: round of commits[h]
	alts     map[uint64][]*blk // well-formed blocks that were never committed
	valsAt   []*types.ValidatorSet
	statusAt []cs.NewStatus // producer status after committing h
	txrAt    []*types.TxsResult
	times    []uint64

	labels       map[string]string // block id (hash + parts-set hash) -> what the harness made it as
	commitLabels map[string]string
	byz          []int // indices of validators that sign for the adversary (power < 1/3)
}

func scratch(c *kernel.Ctx) string {
	base := os.Getenv("VERIF_SCRATCH")
	if base == "" {
		base = os.TempDir()
	}
	return filepath.Join(base, fmt.Sprintf("fs-%d", c.Tape.Seed()))
}

func drawPowers(t *kernel.Tape, n int) []int64 {
	out := make([]int64, n)
	switch t.Pick(3, 2, 2, 2, 1) {
	case 0: // equal
		p := int64(1 + t.Int(20))
		for i := range out {
			out[i] = p
		}
	case 1: // small distinct
		for i := range out {
			out[i] = int64(1 + t.Int(9))
		}
	case 2: // one dominant at / around exactly 2/3
		rest := int64(0)
		for i := 1; i < n; i++ {
			out[i] = int64(1 + t.Int(5))
			rest += out[i]
		}
		if n == 1 {
			out[0] = 3
		} else {
			out[0] = 2*rest + int64(t.Int(3)) - 1 // 2/3 of the total when the offset is 0
			if out[0] < 1 {
				out[0] = 1
			}
		}
	case 3: // totals divisible by 3
		tot := int64(0)
		for i := range out {
			out[i] = int64(1 + t.Int(12))
			tot += out[i]
		}
		out[n-1] += (3 - tot%3) % 3
	default: // large
		for i := range out {
			out[i] = int64(1)<<40 + int64(t.Int(1000))
		}
	}
	return out
}

func newWorld(c *kernel.Ctx, cfg config) (*world, error) {
	simnode.InitGlobals()
	w := &world{c: c, cfg: cfg, chainID: "verif-c03fs", dir: scratch(c), byAddr: map[string]int{}, alts: map[uint64][]*blk{}, labels: map[string]string{}}
	os.RemoveAll(w.dir)
	if err := os.MkdirAll(w.dir, 0755); err != nil {
		return nil, err
	}
	seed := c.Tape.Seed()
	mk := func(tag string, i int, power int64) simnode.ValKey {
		var cb common.Address
		copy(cb[:], crypto.Keccak256([]byte(fmt.Sprintf("fs-coinbase-%s-%d", tag, i)))[:20])
		return simnode.ValKey{Priv: crypto.GenPrivKeyEd25519FromSecret([]byte(fmt.Sprintf("fs-%s-%d-%d", tag, i, seed))), Power: power, CoinBase: cb}
	}
	for i := 0; i < cfg.NVals; i++ {
		k := mk("val", i, cfg.Powers[i])
		w.keys = append(w.keys, k)
		w.byAddr[string(k.Address())] = i
	}
	for i := 0; i < 4; i++ {
		w.rogue = append(w.rogue, mk("rogue", i, 1))
	}
	// validators that also sign for the adversary: a set holding < 1/3 of the power
	tot := w.totalPower()
	acc := new(big.Int)
	order := make([]int, cfg.NVals)
	for i := range order {
		order[i] = i
	}
	sort.Slice(order, func(a, b int) bool { return w.keys[order[a]].Power < w.keys[order[b]].Power })
	for _, i := range order {
		n := new(big.Int).Add(acc, big.NewInt(w.keys[i].Power))
		if new(big.Int).Mul(n, big.NewInt(3)).Cmp(tot) < 0 {
			acc = n
			w.byz = append(w.byz, i)
		}
	}
	sort.Ints(w.byz)

	wl := c.Tape.Fork("workload")
	w.gen = txgen.New(wl, txgen.Config{Accounts: 3 + wl.Int(3), BlockOnly: true, Utxo: false, Validators: w.keys})
	w.spec = &simnode.GenesisSpec{ChainID: w.chainID, Vals: w.keys, Alloc: w.gen.Alloc(), IsTrie: cfg.IsTrie, PartSize: cfg.PartSize}
	var err error
	if w.prod, err = w.open("producer"); err != nil {
		return nil, err
	}
	return w, nil
}

func (w *world) open(name string) (*txgen.Replica, error) {
	disk := simdb.NewDisk(filepath.Join(w.dir, name))
	if err := w.spec.Install(disk); err != nil {
		return nil, fmt.Errorf("genesis %s: %v", name, err)
	}
	return txgen.OpenReplica(name, w.spec, disk, simnode.ChainOpts{})
}

func (w *world) totalPower() *big.Int {
	t := new(big.Int)
	for _, k := range w.keys {
		t.Add(t, big.NewInt(k.Power))
	}
	return t
}

func (w *world) partSize() int {
	return w.prod.Chain.Status.ConsensusParams.BlockGossip.BlockPartSizeBytes
}

func (w *world) idOf(b *types.Block) types.BlockID {
	return types.BlockID{Hash: b.Hash(), PartsHeader: b.MakePartSet(w.partSize()).Header()}
}

func idKey(id types.BlockID) string {
	return fmt.Sprintf("%x/%d/%x", id.Hash[:], id.PartsHeader.Total, id.PartsHeader.Hash[:])
}

// register makes a blk out of a block object (which the harness keeps pristine).
func (w *world) register(b *types.Block, label string) *blk {
	x := &blk{h: b.Height, b: b, id: w.idOf(b), label: label}
	x.wire = encodeBlockResponse(b)
	if _, dup := w.labels[idKey(x.id)]; !dup {
		w.labels[idKey(x.id)] = label
	}
	return x
}

// clone returns a fresh decoded copy of a block (no caches).
func clone(b *types.Block) *types.Block {
	bz, err := ser.EncodeToBytes(b)
	if err != nil {
		panic("fastsyncrig: encode block: " + err.Error())
	}
	var out types.Block
	if err := ser.DecodeBytes(bz, &out); err != nil {
		panic("fastsyncrig: decode block: " + err.Error())
	}
	return &out
}

// signVote signs a vote for (height, round, typ, id) with key on chain.
func signVote(key simnode.ValKey, chain string, idx, size int, height uint64, round int, typ byte, id types.BlockID, ts time.Time) *types.Vote {
	v := &types.Vote{ValidatorAddress: key.Address(), ValidatorIndex: idx, ValidatorSize: size, Height: height, Round: round,
		Timestamp: ts, Type: typ, BlockID: id}
	sig, err := key.Priv.Sign(v.SignBytes(chain))
	if err != nil {
		panic("fastsyncrig: sign: " + err.Error())
	}
	v.Signature = sig
	return v
}

// slotKeys returns, per slot of the validator set in force, the harness key.
func (w *world) slotKeys(vals *types.ValidatorSet) []simnode.ValKey {
	out := make([]simnode.ValKey, vals.Size())
	for i := 0; i < vals.Size(); i++ {
		addr, _ := vals.GetByIndex(i)
		k, ok := w.byAddr[string(addr)]
		if !ok {
			panic("fastsyncrig: validator set contains a key the harness does not hold")
		}
		out[i] = w.keys[k]
	}
	return out
}

// commitBy builds a commit for id at (height, round): slot i is signed iff sign[i].
func (w *world) commitBy(vals *types.ValidatorSet, id types.BlockID, height uint64, round int, ts time.Time, sign []bool) *types.Commit {
	ks := w.slotKeys(vals)
	c := &types.Commit{BlockID: id, Precommits: make([]*types.Vote, len(ks))}
	for i, k := range ks {
		if sign[i] {
			c.Precommits[i] = signVote(k, w.chainID, i, len(ks), height, round, types.VoteTypePrecommit, id, ts)
		}
	}
	return c
}

// quorumSubset draws a set of slots holding strictly more than 2/3 of the power.
func (w *world) quorumSubset(t *kernel.Tape, vals *types.ValidatorSet) []bool {
	n := vals.Size()
	sign := make([]bool, n)
	if t.Bool(1, 2) { // everybody
		for i := range sign {
			sign[i] = true
		}
		return sign
	}
	order := make([]int, n)
	for i := range order {
		order[i] = i
	}
	t.Shuffle(n, func(i, j int) { order[i], order[j] = order[j], order[i] })
	tot := big.NewInt(vals.TotalVotingPower())
	acc := new(big.Int)
	for _, i := range order {
		_, v := vals.GetByIndex(i)
		sign[i] = true
		acc.Add(acc, big.NewInt(v.VotingPower))
		if new(big.Int).Mul(acc, big.NewInt(3)).Cmp(new(big.Int).Mul(tot, big.NewInt(2))) > 0 {
			break
		}
	}
	return sign
}

// produce builds the canonical chain of L blocks on the producer and, for
// tape-chosen heights, well-formed alternatives that are never committed.
func (w *world) produce() error {
	t := w.c.Tape.Fork("chain")
	L := w.cfg.L
	w.canon = make([]*blk, L+1)
	w.commits = make([]*types.Commit, L+1)
	w.rounds = make([]int, L+1)
	w.valsAt = make([]*types.ValidatorSet, L+2)
	w.statusAt = make([]cs.NewStatus, L+1)
	w.txrAt = make([]*types.TxsResult, L+1)
	w.times = make([]uint64, L+1)
	w.statusAt[0] = w.prod.Chain.Status.Copy()
	now := uint64(946684800) + 10
	for h := uint64(1); h <= uint64(L); h++ {
		now += uint64(1 + t.Int(5))
		w.times[h] = now
		st := w.prod.Chain.Status
		if st.LastBlockHeight+1 != h {
			return fmt.Errorf("producer at %d, expected %d", st.LastBlockHeight, h-1)
		}
		w.valsAt[h] = st.Validators.Copy()
		w.gen.Cfg.Validators = w.keys
		n := 0
		if w.cfg.MaxTxs > 0 && !t.Bool(1, 5) {
			n = 1 + t.Int(w.cfg.MaxTxs)
		}
		items := w.gen.Batch(n)
		txs := txgen.Txs(items)

		// alternatives first (Propose leaves the producer's state unchanged)
		nAlt := t.Pick(3, 4, 2)
		for a := 0; a < nAlt; a++ {
			kind := t.Pick(3, 2, 1)
			var ab *types.Block
			var err error
			lab := ""
			switch {
			case kind == 1 && len(txs) > 0:
				k := t.Int(len(txs))
				ab, _, err = w.prod.Propose(txgen.BlockSpec{Txs: txs[:k], Explicit: true, Time: now})
				lab = "alt:txs"
			case kind == 2 && len(txs) > 0:
				ab, _, err = w.prod.Propose(txgen.BlockSpec{Txs: nil, Explicit: true, Time: now + 1})
				lab = "alt:empty"
			default:
				ab, _, err = w.prod.Propose(txgen.BlockSpec{Txs: txs, Explicit: true, Time: now + uint64(1+a+t.Int(3))})
				lab = "alt:time"
			}
			if err != nil {
				w.c.Probe("alt-propose-failed")
				continue
			}
			w.alts[h] = append(w.alts[h], w.register(ab, lab))
		}

		block, parts, err := w.prod.Propose(txgen.BlockSpec{Txs: txs, Explicit: true, Time: now})
		if err != nil {
			if _, ok := err.(*txgen.ProposePanic); !ok {
				return fmt.Errorf("propose %d: %v", h, err)
			}
			// the workload generator's view went stale: an empty block instead
			w.c.Probe("workload-refused")
			w.gen.Reset()
			txs = nil
			block, parts, err = w.prod.Propose(txgen.BlockSpec{Txs: nil, Explicit: true, Time: now})
			if err != nil {
				return fmt.Errorf("propose empty %d: %v", h, err)
			}
		}
		cb := w.register(clone(block), "canon")
		// drop alternatives that happen to equal the canonical block
		keep := w.alts[h][:0]
		for _, a := range w.alts[h] {
			if a.id.Hash != cb.id.Hash {
				keep = append(keep, a)
			}
		}
		w.alts[h] = keep
		w.labels[idKey(cb.id)] = "canon"
		w.canon[h] = cb

		round := 0
		if t.Bool(1, 4) {
			round = 1 + t.Int(3)
		}
		w.rounds[h] = round
		commit := w.commitBy(w.valsAt[h], cb.id, h, round, time.Unix(int64(now), 0).UTC(), w.quorumSubset(t, w.valsAt[h]))
		w.commits[h] = commit

		ok, err := w.prod.Check(block)
		if err != nil || !ok {
			return fmt.Errorf("producer refuses its own block %d: ok=%v err=%v", h, ok, err)
		}
		if _, err := w.prod.Commit(block, parts, cloneCommit(commit), false); err != nil {
			return fmt.Errorf("producer commit %d: %v", h, err)
		}
		if len(txs) > 0 {
			if _, err := w.gen.Committed(h, block.Data.Txs, w.prod.Receipts(h)); err != nil {
				w.c.Probe("workload-ledger-error")
				w.gen.Reset()
			}
		} else {
			w.gen.Reset()
		}
		w.statusAt[h] = w.prod.Chain.Status.Copy()
		if txr, err := w.prod.Chain.BlockStore.LoadTxsResult(h); err == nil {
			w.txrAt[h] = txr
		}
	}
	w.valsAt[L+1] = w.prod.Chain.Status.Validators.Copy()
	return nil
}

func cloneCommit(c *types.Commit) *types.Commit {
	if c == nil {
		return nil
	}
	bz, err := ser.EncodeToBytes(c)
	if err != nil {
		panic("fastsyncrig: encode commit: " + err.Error())
	}
	var out types.Commit
	if err := ser.DecodeBytes(bz, &out); err != nil {
		panic("fastsyncrig: decode commit: " + err.Error())
	}
	return &out
}

func (w *world) cleanup() { os.RemoveAll(w.dir) }
