package fastsyncrig

// Direct reproductions against the real blockchain reactor (no composite, no
// generator): a three-block chain, one peer, hand-written deliveries.
//
//	cd /verif/sim && . ../env.sh && mkoverlay && \
//	go1.26.8 test -tags verif -vet=off -overlay /verif/build/overlay.json ./rigs/fastsyncrig -run TestRepro -v
//
// The TestRepro...Kills.../...Corrupts... tests FAIL on a tree where the defect
// exists (that is the demonstration; both did on /repo aad0399) and pass once
// it is fixed (/repo 3c83351: nil commit, ba0aafb: recover flag).

import (
	"fmt"
	"os"
	"os/exec"
	"strings"
	"testing"
	"time"

	"verif/sim/kernel"
)

func scripted(t *testing.T, seed uint64, cfg config, f func(c *kernel.Ctx, s *sim)) *kernel.Result {
	if os.Getenv("VERIF_SCRATCH") == "" {
		os.Setenv("VERIF_SCRATCH", t.TempDir())
	}
	return scriptedRun(t, seed, cfg, f)
}

func smallCfg() config {
	return config{L: 3, NVals: 2, Powers: []int64{3, 4}, MaxTxs: 2, NPeers: 1, Faulty: 10 * time.Second, Calm: 10 * time.Second}
}

// A peer answers the request for height 1 with the genuine block and the
// request for height 2 with a block whose LastCommit is absent (the wire codec
// decodes an empty list into a nil *Commit). poolRoutine calls
// status.Validators.VerifyCommit(chainID, firstID, 1, nil), which dereferences
// the nil commit: an unrecovered panic on the reactor's own goroutine, i.e. the
// node process dies. Expected: the block is refused, the peer is dropped.
func TestReproNilLastCommitKillsFastSyncingNode(t *testing.T) {
	if os.Getenv("FS_REPRO_CHILD") == "1" {
		res := scripted(t, 7, smallCfg(), func(c *kernel.Ctx, s *sim) {
			w := s.w
			p := &peerSim{role: roleByz, baseLat: 1}
			s.addPeer(p)
			s.connect(p)
			p.announced, p.claim = true, 3
			s.receive(p, encodeHeightMsg(pfxStatusResponse, 3))
			s.step(300 * time.Millisecond) // the node asks p for blocks 1..3
			second := clone(w.canon[2].b)
			second.LastCommit = nil
			s.receive(p, w.canon[1].wire)
			s.receive(p, encodeBlockResponse(second))
			s.step(300 * time.Millisecond) // the sync ticker pairs block 1 with the bogus block 2
			stops := len(s.sw.takeStops())
			fmt.Printf("CHILD-SURVIVED store-height=%d peer-connected=%v stops=%d\n", s.storeHeight(), s.sw.GetByID(p.id) != nil, stops)
		})
		if res.Harness != "" {
			t.Fatalf("harness: %s", res.Harness)
		}
		return
	}
	exe, err := os.Executable()
	if err != nil {
		t.Fatal(err)
	}
	cmd := exec.Command(exe, "-test.run", "^TestReproNilLastCommitKillsFastSyncingNode$", "-test.count=1", "-test.v")
	cmd.Env = append(os.Environ(), "FS_REPRO_CHILD=1")
	out, err := cmd.CombinedOutput()
	text := string(out)
	if err != nil {
		var lines []string
		for _, l := range strings.Split(text, "\n") {
			if strings.HasPrefix(l, "panic:") || strings.Contains(l, "[signal") || strings.Contains(l, "VerifyCommit") || strings.Contains(l, "poolRoutine") {
				lines = append(lines, strings.TrimSpace(l))
			}
		}
		t.Fatalf("the node process died (%v) after a peer sent a block without LastCommit:\n  %s", err, strings.Join(lines, "\n  "))
	}
	if !strings.Contains(text, "CHILD-SURVIVED store-height=0 peer-connected=false") {
		t.Fatalf("node survived but did not refuse the block and drop the peer:\n%s", text)
	}
	t.Logf("block refused, peer dropped")
}

// The positive control of the above and a direct demonstration of the
// property at the call site: a never-committed block for height 1 followed by
// the genuine block 2 is refused and the peer dropped; the genuine pair is
// committed.
func TestReproAltFirstRefused(t *testing.T) {
	var note string
	res := scripted(t, 11, smallCfg(), func(c *kernel.Ctx, s *sim) {
		w := s.w
		if len(w.alts[1]) == 0 {
			w.alts[1] = append(w.alts[1], w.fabricateFirst(1, 0))
		}
		p := &peerSim{role: roleByz, baseLat: 1}
		s.addPeer(p)
		s.connect(p)
		p.announced, p.claim = true, 3
		s.receive(p, encodeHeightMsg(pfxStatusResponse, 3))
		s.step(300 * time.Millisecond)
		s.receive(p, w.alts[1][0].wire)
		s.receive(p, w.canon[2].wire)
		s.step(300 * time.Millisecond)
		if s.storeHeight() != 0 || s.sw.GetByID(p.id) != nil {
			c.Violate("repro", "repro/alt-first", "store height %d, peer still connected: %v", s.storeHeight(), s.sw.GetByID(p.id) != nil)
			return
		}
		// an honest peer
		q := &peerSim{role: roleHonest, have: 3, baseLat: 1}
		s.addPeer(q)
		s.connect(q)
		q.announced, q.claim = true, 3
		s.receive(q, encodeHeightMsg(pfxStatusResponse, 3))
		s.step(300 * time.Millisecond)
		for h := 1; h <= 3; h++ {
			s.receive(q, w.canon[h].wire)
		}
		s.step(300 * time.Millisecond)
		note = fmt.Sprintf("store height %d", s.storeHeight())
		if s.storeHeight() != 2 {
			c.Violate("repro", "repro/honest-sync", "honest peer served 1..3 but store height is %d", s.storeHeight())
		}
		s.finalOracle()
	})
	if res.Harness != "" {
		t.Fatalf("harness: %s", res.Harness)
	}
	for _, v := range res.Violations {
		t.Errorf("%s", v)
	}
	t.Log(note)
}

// poolRoutine assigns the recover validator set to its own consensus status
// as soon as the block at the pool's height carries Header.Recover > 0 -
// before the commit for that block is verified - and keeps the assignment
// when the block is refused. Any peer can send such a block (no signature is
// needed). From then on the loop verifies later commits against "white list +
// all candidates" with reset proposer priorities instead of the validator set
// in force. Here the two sets have the same members, so the visible damage is
// the lost proposer rotation: the status the loop hands to the consensus
// reactor differs from the status of a node that applied the same two blocks.
// Expected: a refused block leaves no trace in the loop's status.
func TestReproRecoverFlagCorruptsSyncStatus(t *testing.T) {
	var note string
	res := scripted(t, 424242, probeCfg(), func(c *kernel.Ctx, s *sim) {
		handed, switched, top := recoverFlagScript(c, s)
		if !switched || top != 2 {
			c.HarnessTrouble("script did not get to the hand-over: switched=%v store height %d", switched, top)
			return
		}
		want := s.w.statusAt[2]
		note = fmt.Sprintf("handed over: %v\nproducer after block 2: %v", handed.Validators, want.Validators)
		if !sameValidators(handed, want) {
			c.Violate("repro", "repro/recover-flag", "validator set of the sync loop after a REFUSED block with Recover=1 differs from the set of a node that applied the same blocks")
		}
	})
	if res.Harness != "" {
		t.Fatalf("harness: %s", res.Harness)
	}
	for _, v := range res.Violations {
		t.Errorf("%s\n%s", v, note)
	}
}

// The same input, followed by honest service of the rest of the chain: a
// genuine, correctly committed block is verified, checked, SAVED (CommitBlock)
// and then fails ApplyBlock (the FaultValidatorsEvidence names the proposer of
// the real rotation, the loop's status has another one): cmn.PanicQ on the
// pool routine, the node process dies with the block store ahead of the
// status. Runs in a child process; FAILS when the child dies.
func TestReproRecoverFlagKillsFastSyncingNode(t *testing.T) {
	if os.Getenv("FS_REPRO_CHILD") == "2" {
		cfg := probeCfg()
		cfg.L = 12
		res := scripted(t, 424242, cfg, func(c *kernel.Ctx, s *sim) {
			w := s.w
			p := &peerSim{role: roleByz, baseLat: 1}
			s.addPeer(p)
			s.connect(p)
			p.announced, p.claim = true, 4
			s.receive(p, encodeHeightMsg(pfxStatusResponse, 4))
			s.step(300 * time.Millisecond)
			s.receive(p, w.canon[1].wire)
			s.receive(p, w.canon[2].wire)
			s.receive(p, w.fabricateFirstRaw(3, 0).wire) // Recover = 1, nothing else changed
			s.receive(p, w.canon[4].wire)
			s.step(300 * time.Millisecond)
			fmt.Printf("CHILD after the bogus block: store-height=%d peer-connected=%v\n", s.storeHeight(), s.sw.GetByID(p.id) != nil)
			q := &peerSim{role: roleHonest, have: 12, baseLat: 1}
			s.addPeer(q)
			s.connect(q)
			q.announced, q.claim = true, 12
			s.receive(q, encodeHeightMsg(pfxStatusResponse, 12))
			s.step(300 * time.Millisecond)
			for h := 3; h <= 12; h++ {
				s.receive(q, w.canon[h].wire)
				s.step(100 * time.Millisecond)
			}
			s.step(500 * time.Millisecond)
			fmt.Printf("CHILD-SURVIVED store-height=%d\n", s.storeHeight())
		})
		if res.Harness != "" {
			t.Fatalf("harness: %s", res.Harness)
		}
		return
	}
	exe, err := os.Executable()
	if err != nil {
		t.Fatal(err)
	}
	cmd := exec.Command(exe, "-test.run", "^TestReproRecoverFlagKillsFastSyncingNode$", "-test.count=1", "-test.v")
	cmd.Env = append(os.Environ(), "FS_REPRO_CHILD=2")
	out, err := cmd.CombinedOutput()
	text := string(out)
	if err != nil {
		var lines []string
		for _, l := range strings.Split(text, "\n") {
			if strings.HasPrefix(l, "panic:") || strings.HasPrefix(l, "CHILD") || strings.Contains(l, "poolRoutine") {
				if len(l) > 400 {
					l = l[:400]
				}
				lines = append(lines, strings.TrimSpace(l))
			}
		}
		t.Fatalf("the node process died (%v) while syncing genuine blocks after a peer had sent one refused block with Recover=1:\n  %s", err, strings.Join(lines, "\n  "))
	}
	if !strings.Contains(text, "CHILD-SURVIVED store-height=11") {
		t.Fatalf("node survived but did not sync the chain:\n%s", text)
	}
}

// Observation outside C03 (robustness of the pool, reported with the rig):
// whenever the pool removes a peer it calls removePeer two or three times in a
// row (RedoRequest for both heights and, through the switch's
// StopPeerForError, RemovePeer; or removeTimedoutPeers and RemovePeer). The
// first redo signal is handed to the parked requester directly, the second
// one stays in the requester's one-slot channel. The requester's NEXT pick is
// therefore redone at once: the next peer is asked twice for the same height
// and its pending count is incremented twice but decremented once per block,
// so it never returns to zero and the pool later drops that peer for "not
// sending us data" although it answered every request (rate rule after ~40 s,
// silence rule after 120 s). FAILS on /repo ba0aafb.
func TestReproStaleRedoSignalDoubleCountsNextPeer(t *testing.T) {
	var dups []string
	res := scripted(t, 11, smallCfg(), func(c *kernel.Ctx, s *sim) {
		w := s.w
		a := &peerSim{role: roleByz, baseLat: 1}
		s.addPeer(a)
		s.connect(a)
		a.announced, a.claim = true, 3
		s.receive(a, encodeHeightMsg(pfxStatusResponse, 3))
		s.step(300 * time.Millisecond)
		s.receive(a, w.fabricateFirstRaw(1, 1).wire) // not the committed block 1
		s.receive(a, w.canon[2].wire)
		s.step(300 * time.Millisecond) // refused: a is removed
		b := &peerSim{role: roleHonest, have: 3, baseLat: 1}
		s.addPeer(b)
		s.connect(b)
		b.announced, b.claim = true, 3
		s.receive(b, encodeHeightMsg(pfxStatusResponse, 3))
		time.Sleep(300 * time.Millisecond)
		synctestWait()
		seen := map[uint64]int{}
		for _, m := range s.ob.take() {
			if m.peer == b.idx && m.kind == "block-request" {
				seen[m.h]++
			}
		}
		for h := uint64(1); h <= 3; h++ {
			if seen[h] != 1 {
				dups = append(dups, fmt.Sprintf("height %d requested %d times from the new peer", h, seen[h]))
			}
		}
	})
	if res.Harness != "" {
		t.Fatalf("harness: %s", res.Harness)
	}
	if len(dups) > 0 {
		t.Errorf("after a peer was removed, the next peer is asked more than once per height (and counted as many times):\n  %s", strings.Join(dups, "\n  "))
	}
}
