package fastsyncrig

import (
	"crypto/sha256"
	"encoding/hex"
	"fmt"
	"math/big"
	"sync"
	"time"

	"github.com/lianxiangcloud/linkchain/libs/common"
	"github.com/lianxiangcloud/linkchain/libs/crypto"
	"github.com/lianxiangcloud/linkchain/types"

	"verif/sim/kernel"
)

// Forged commits. Ground truth is by construction: honest validators (power
// > 2/3) sign precommits only for canonical blocks; the validators in w.byz
// (power < 1/3) and the rogue keys sign whatever the adversary wants. Every
// forged commit says whether, by the property statement, it IS a commit for
// the block it is offered for (valid) or not.

const (
	fcInsufficient = iota
	fcExactTwoThirds
	fcMixedRounds
	fcPrevotes
	fcDupValidator
	fcNonValidators
	fcOtherHeight
	fcOtherChain
	fcNilOnly
	fcBadSig
	fcWrongSize
	fcRelabelled
	fcAltQuorum
	fcKinds
)

var fcNames = [...]string{"insufficient", "exactly-two-thirds", "mixed-rounds", "prevotes", "dup-validator", "non-validators",
	"other-height", "other-chain", "nil-only", "bad-signature", "wrong-size", "relabelled", "alt-quorum"}

type forged struct {
	c     *types.Commit
	kind  string
	valid bool // by the statement, a commit for the offered block
}

func commitKey(c *types.Commit) string {
	if c == nil {
		return "nil"
	}
	h := sha256.New()
	fmt.Fprintf(h, "%x/%d/%x|", c.BlockID.Hash[:], c.BlockID.PartsHeader.Total, c.BlockID.PartsHeader.Hash[:])
	for _, pc := range c.Precommits {
		if pc == nil {
			h.Write([]byte("-|"))
			continue
		}
		var sig []byte
		if pc.Signature != nil {
			sig = pc.Signature.Bytes()
		}
		fmt.Fprintf(h, "%x/%d/%d/%d/%d/%d/%x/%x|", []byte(pc.ValidatorAddress), pc.ValidatorIndex, pc.ValidatorSize, pc.Height, pc.Round, pc.Type, pc.BlockID.Hash[:], sig)
	}
	return hex.EncodeToString(h.Sum(nil)[:12])
}

func (w *world) noteCommit(c *types.Commit, label string) {
	if w.commitLabels == nil {
		w.commitLabels = map[string]string{}
	}
	k := commitKey(c)
	if _, dup := w.commitLabels[k]; !dup {
		w.commitLabels[k] = label
	}
}

func (w *world) commitLabel(c *types.Commit) string {
	if l, ok := w.commitLabels[commitKey(c)]; ok {
		return l
	}
	return "unknown"
}

func (w *world) powerOf(vals *types.ValidatorSet, slots []bool) *big.Int {
	p := new(big.Int)
	for i, on := range slots {
		if on {
			_, v := vals.GetByIndex(i)
			p.Add(p, big.NewInt(v.VotingPower))
		}
	}
	return p
}

func moreThanTwoThirds(p, tot *big.Int) bool {
	return new(big.Int).Mul(p, big.NewInt(3)).Cmp(new(big.Int).Mul(tot, big.NewInt(2))) > 0
}

// byzSlots marks the slots of the validators that sign for the adversary.
func (w *world) byzSlots(vals *types.ValidatorSet) []bool {
	out := make([]bool, vals.Size())
	for i := 0; i < vals.Size(); i++ {
		addr, _ := vals.GetByIndex(i)
		k := w.byAddr[string(addr)]
		for _, b := range w.byz {
			if b == k {
				out[i] = true
			}
		}
	}
	return out
}

// belowQuorum draws a set of slots among allowed holding at most 2/3 of the
// power, greedily as large as the draw order permits.
func (w *world) belowQuorum(t *kernel.Tape, vals *types.ValidatorSet, allowed []bool) []bool {
	n := vals.Size()
	order := make([]int, n)
	for i := range order {
		order[i] = i
	}
	t.Shuffle(n, func(i, j int) { order[i], order[j] = order[j], order[i] })
	tot := big.NewInt(vals.TotalVotingPower())
	out := make([]bool, n)
	for _, i := range order {
		if allowed != nil && !allowed[i] {
			continue
		}
		out[i] = true
		if moreThanTwoThirds(w.powerOf(vals, out), tot) {
			out[i] = false
		}
	}
	return out
}

// exactTwoThirds looks for a set of slots holding exactly 2/3 of the power.
func (w *world) exactTwoThirds(vals *types.ValidatorSet) []bool {
	n := vals.Size()
	if n > 12 {
		return nil
	}
	tot := big.NewInt(vals.TotalVotingPower())
	two := new(big.Int).Mul(tot, big.NewInt(2))
	for m := 1; m < 1<<uint(n); m++ {
		s := make([]bool, n)
		for i := 0; i < n; i++ {
			s[i] = m&(1<<uint(i)) != 0
		}
		if new(big.Int).Mul(w.powerOf(vals, s), big.NewInt(3)).Cmp(two) == 0 {
			return s
		}
	}
	return nil
}

// forgeCommit builds a commit of the given kind offered for block id at
// height h. forCanon says that id is the canonical block of h (then honest
// validators' precommits for it exist); otherwise only the adversary's
// validators and rogue keys have signed anything for id.
func (w *world) forgeCommit(t *kernel.Tape, kind int, h uint64, id types.BlockID, forCanon bool) *forged {
	vals := w.valsAt[len(w.valsAt)-1]
	if int(h) < len(w.valsAt) && w.valsAt[h] != nil {
		vals = w.valsAt[h]
	}
	n := vals.Size()
	ks := w.slotKeys(vals)
	tot := big.NewInt(vals.TotalVotingPower())
	round := 0
	if int(h) < len(w.rounds) {
		round = w.rounds[h]
	}
	ts := time.Unix(946684800+int64(h)*7, 0).UTC()
	if int(h) < len(w.times) && w.times[h] != 0 {
		ts = time.Unix(int64(w.times[h]), 0).UTC()
	}
	signers := func() []bool { // who may genuinely have signed a precommit for id
		if forCanon {
			all := make([]bool, n)
			for i := range all {
				all[i] = true
			}
			return all
		}
		return w.byzSlots(vals)
	}()
	sign := func(i int, height uint64, rnd int, typ byte, bid types.BlockID, chain string) *types.Vote {
		return signVote(ks[i], chain, i, n, height, rnd, typ, bid, ts)
	}
	out := &forged{kind: fcNames[kind], c: &types.Commit{BlockID: id, Precommits: make([]*types.Vote, n)}}
	fillNoise := func(on []bool) {
		// slots that do not count: absent, a genuinely signed nil precommit, or
		// (adversary's validators only) a precommit for some other block
		for i := 0; i < n; i++ {
			if on[i] || out.c.Precommits[i] != nil {
				continue
			}
			switch t.Pick(3, 1) {
			case 1:
				out.c.Precommits[i] = sign(i, h, round, types.VoteTypePrecommit, types.BlockID{}, w.chainID)
			}
		}
	}
	switch kind {
	case fcInsufficient:
		on := w.belowQuorum(t, vals, signers)
		for i := range on {
			if on[i] {
				out.c.Precommits[i] = sign(i, h, round, types.VoteTypePrecommit, id, w.chainID)
			}
		}
		fillNoise(on)
	case fcExactTwoThirds:
		on := w.exactTwoThirds(vals)
		if on == nil || !forCanon {
			return w.forgeCommit(t, fcInsufficient, h, id, forCanon)
		}
		for i := range on {
			if on[i] {
				out.c.Precommits[i] = sign(i, h, round, types.VoteTypePrecommit, id, w.chainID)
			}
		}
	case fcMixedRounds:
		// every allowed validator signs for id, split over two rounds so that
		// neither round reaches the quorum
		a := w.belowQuorum(t, vals, signers)
		b := make([]bool, n)
		for i := range b {
			b[i] = signers[i] && !a[i]
		}
		if moreThanTwoThirds(w.powerOf(vals, b), tot) || w.powerOf(vals, b).Sign() == 0 {
			return w.forgeCommit(t, fcPrevotes, h, id, forCanon)
		}
		for i := 0; i < n; i++ {
			if a[i] {
				out.c.Precommits[i] = sign(i, h, round, types.VoteTypePrecommit, id, w.chainID)
			} else if b[i] {
				out.c.Precommits[i] = sign(i, h, round+1, types.VoteTypePrecommit, id, w.chainID)
			}
		}
	case fcPrevotes:
		for i := 0; i < n; i++ {
			if signers[i] {
				out.c.Precommits[i] = sign(i, h, round, types.VoteTypePrevote, id, w.chainID)
			}
		}
		if t.Bool(1, 2) {
			// relabel as precommits (signatures no longer match)
			for _, v := range out.c.Precommits {
				if v != nil {
					v.Type = types.VoteTypePrecommit
				}
			}
			out.kind += "-relabelled"
		}
	case fcDupValidator:
		// one validator's genuine precommit in every slot; the validator alone
		// must not be a quorum; the largest such validator more often than not
		src, best := -1, int64(0)
		var cands []int
		for i := 0; i < n; i++ {
			if !signers[i] {
				continue
			}
			one := make([]bool, n)
			one[i] = true
			if moreThanTwoThirds(w.powerOf(vals, one), tot) {
				continue
			}
			cands = append(cands, i)
			if _, v := vals.GetByIndex(i); v.VotingPower > best {
				best, src = v.VotingPower, i
			}
		}
		if len(cands) == 0 || n < 2 {
			return w.forgeCommit(t, fcNonValidators, h, id, forCanon)
		}
		if t.Bool(1, 3) {
			src = cands[t.Int(len(cands))]
		}
		orig := sign(src, h, round, types.VoteTypePrecommit, id, w.chainID)
		rewrite := t.Bool(1, 3)
		for i := 0; i < n; i++ {
			v := orig.Copy()
			if rewrite && i != src {
				v.ValidatorIndex = i
				v.ValidatorAddress = ks[i].Address()
			}
			out.c.Precommits[i] = v
		}
		if rewrite {
			out.kind += "-rewritten"
		}
	case fcNonValidators:
		for i := 0; i < n; i++ {
			rk := w.rogue[i%len(w.rogue)]
			v := signVote(rk, w.chainID, i, n, h, round, types.VoteTypePrecommit, id, ts)
			if t.Bool(2, 3) {
				v.ValidatorAddress = ks[i].Address() // impersonate the slot's validator
			}
			out.c.Precommits[i] = v
		}
	case fcOtherHeight:
		oh := h + 1
		if h > 1 && t.Bool(1, 2) {
			oh = h - 1
		}
		rewrite := t.Bool(1, 2)
		for i := 0; i < n; i++ {
			if !signers[i] {
				continue
			}
			v := sign(i, oh, round, types.VoteTypePrecommit, id, w.chainID)
			if rewrite {
				v.Height = h
			}
			out.c.Precommits[i] = v
		}
		if rewrite {
			out.kind += "-rewritten"
		}
	case fcOtherChain:
		for i := 0; i < n; i++ {
			if signers[i] {
				out.c.Precommits[i] = sign(i, h, round, types.VoteTypePrecommit, id, w.chainID+"-x")
			}
		}
	case fcNilOnly:
		for i := 0; i < n; i++ {
			out.c.Precommits[i] = sign(i, h, round, types.VoteTypePrecommit, types.BlockID{}, w.chainID)
		}
		if t.Bool(1, 2) {
			out.c.BlockID = types.BlockID{}
		}
	case fcBadSig:
		keep := w.belowQuorum(t, vals, signers)
		for i := 0; i < n; i++ {
			if !signers[i] {
				continue
			}
			v := sign(i, h, round, types.VoteTypePrecommit, id, w.chainID)
			if !keep[i] {
				if sig, ok := v.Signature.(crypto.SignatureEd25519); ok {
					sig[t.Int(len(sig))] ^= 1 << uint(t.Int(8))
					v.Signature = sig
				}
			}
			out.c.Precommits[i] = v
		}
	case fcWrongSize:
		if !forCanon || int(h) >= len(w.commits) || w.commits[h] == nil {
			return w.forgeCommit(t, fcInsufficient, h, id, forCanon)
		}
		g := cloneCommit(w.commits[h])
		if t.Bool(1, 2) && n > 1 {
			g.Precommits = g.Precommits[:n-1]
		} else {
			g.Precommits = append(g.Precommits, signVote(w.rogue[0], w.chainID, n, n+1, h, round, types.VoteTypePrecommit, id, ts))
		}
		out.c = g
		out.valid = w.judgeCommit(g, id, h).ok
	case fcRelabelled:
		if !forCanon || int(h) >= len(w.commits) || w.commits[h] == nil {
			return w.forgeCommit(t, fcInsufficient, h, id, forCanon)
		}
		g := cloneCommit(w.commits[h])
		g.BlockID = types.BlockID{Hash: crypto.Keccak256Hash([]byte("relabel")), PartsHeader: id.PartsHeader}
		out.c = g
		out.valid = true
	case fcAltQuorum:
		if !forCanon {
			return w.forgeCommit(t, fcInsufficient, h, id, forCanon)
		}
		on := w.quorumSubset(t, vals)
		r := round
		if t.Bool(1, 3) {
			r = round + 1
		}
		for i := range on {
			if on[i] {
				out.c.Precommits[i] = sign(i, h, r, types.VoteTypePrecommit, id, w.chainID)
			}
		}
		out.valid = true
	}
	// the label's claim is checked against the rig's own rule: a forged commit
	// that accidentally is a commit (e.g. one validator holds > 2/3) is valid
	v := w.judgeCommit(out.c, id, h)
	if v.ok != out.valid {
		out.valid = v.ok
		out.kind += "(quorum-by-construction)"
	}
	w.noteCommit(out.c, out.kind)
	return out
}

// fabricate builds a block for height h1 whose LastBlockID/LastCommit are as
// given, from the canonical block of that height (or of the top, above it).
func (w *world) fabricate(h1 uint64, lastID types.BlockID, commit *types.Commit, fixHash bool, label string) *blk {
	var base *types.Block
	if int(h1) <= w.cfg.L {
		base = clone(w.canon[h1].b)
	} else {
		base = clone(w.canon[w.cfg.L].b)
		base.Header.Height = h1
		base.Header.ParentHash = lastID.Hash
	}
	base.LastBlockID = lastID
	base.LastCommit = cloneCommit(commit)
	if fixHash {
		base.LastCommitHash = base.LastCommit.Hash()
	}
	return w.register(clone(base), label)
}

// fabricateFirst makes a never-committed block for height h out of the
// canonical one by changing a header field (so that it is another block):
// the recover flag, the time or the coinbase. Nothing is re-executed.
func (w *world) fabricateFirst(h uint64, variant int) *blk {
	if variant%firstVariants == 0 && !recoverFlagSafe() {
		w.c.Probe("recover-flag-block-not-sent")
		variant = 1
	}
	return w.fabricateFirstRaw(h, variant)
}

const firstVariants = 5

func (w *world) fabricateFirstRaw(h uint64, variant int) *blk {
	b := clone(w.canon[h].b)
	label := ""
	v := variant % firstVariants
	if v == 3 && h < 2 {
		v = 4
	}
	switch v {
	case 0:
		b.Header.Recover = 1
		label = "alt:recover-flag"
	case 1:
		b.Header.Time++
		label = "alt:time-tweaked"
	case 2:
		b.Header.Coinbase[0] ^= 0x55
		label = "alt:coinbase-tweaked"
	case 3:
		// the canonical header (same block hash) over another LastCommit: the
		// precommits of the previous block re-signed in the next round
		prev := w.commits[h-1]
		vals := w.valsAt[h-1]
		on := make([]bool, vals.Size())
		for i, pc := range prev.Precommits {
			on[i] = pc != nil
		}
		b.LastCommit = w.commitBy(vals, w.canon[h-1].id, h-1, w.rounds[h-1]+1, time.Unix(int64(w.times[h-1]), 0).UTC(), on)
		w.noteCommit(b.LastCommit, "alt-quorum")
		label = "alt:same-hash-other-last-commit"
	default:
		// the canonical header (same block hash) over other evidence
		if len(b.Evidence.Evidence) > 0 {
			b.Evidence.Evidence = append(b.Evidence.Evidence, b.Evidence.Evidence[0])
		} else {
			b.Evidence.Evidence = append(b.Evidence.Evidence, &types.FaultValidatorsEvidence{BlockHeight: h, Round: 0, Proposer: w.keys[0].PubKey()})
		}
		label = "alt:same-hash-other-evidence"
	}
	return w.register(clone(b), label)
}

var nilCommitOnce sync.Once
var nilCommitOK bool

// nilCommitSafe reports whether VerifyCommit refuses a nil commit with an
// error. On a tree where it dereferences the nil commit, a block response
// without LastCommit kills the fast-syncing node (unrecovered panic on the
// reactor's pool routine, see TestReproNilLastCommitKillsFastSyncingNode): the
// process the simulator itself runs in. The catalogue entry is therefore only
// generated on trees where the probe says it is survivable.
func nilCommitSafe() bool {
	nilCommitOnce.Do(func() {
		k := crypto.GenPrivKeyEd25519FromSecret([]byte("fs-nil-commit-probe"))
		vs := types.NewValidatorSet([]*types.Validator{types.NewValidator(k.PubKey(), common.EmptyAddress, 1)})
		_, _, panicked := kernel.Try(func() {
			if err := vs.VerifyCommit("probe", types.BlockID{}, 1, nil); err != nil {
				nilCommitOK = true
			}
		})
		if panicked {
			nilCommitOK = false
		}
	})
	return nilCommitOK
}
