package fastsyncrig

import (
	"encoding/json"
	"fmt"
	"os"
	"runtime"
	"sort"
	"strconv"
	"testing"
	"time"

	"verif/sim/kernel"
)

var maxAllocMB, totAllocMB uint64

func envInt(name string, def int) int {
	if v, err := strconv.Atoi(os.Getenv(name)); err == nil {
		return v
	}
	return def
}

func digest(r *kernel.Result) string {
	var vs []string
	for _, v := range r.Violations {
		vs = append(vs, v.Class+"|"+v.Key)
	}
	sort.Strings(vs)
	fs, _ := json.Marshal(r.Faults)
	ps, _ := json.Marshal(r.Probes)
	return fmt.Sprintf("finger=%s nt=%v ev=%d evals=%d sim=%d faults=%s probes=%s viol=%v harness=%q", r.Finger, r.NonTrivial, r.Events, r.Evals, r.SimTimeMs, fs, ps, vs, r.Harness)
}

// TestDevRuns executes FS_RUNS seeds of the fast-sync part alone (generate and
// replay from the recorded tape) and prints digests: a development aid and the
// part's own determinism test (run it at different GOMAXPROCS and diff).
// TestDevOne runs one seed (FS_ONESEED) twice and prints both samples.
func TestDevOne(t *testing.T) {
	if os.Getenv("FS_ONESEED") == "" {
		t.Skip("set FS_ONESEED")
	}
	os.Setenv("VERIF_SCRATCH", t.TempDir())
	seed, _ := strconv.ParseUint(os.Getenv("FS_ONESEED"), 10, 64)
	rig := Describe()
	tape := kernel.NewTape(seed)
	tier := kernel.Quick
	if os.Getenv("FS_TIER") == "thorough" {
		tier = kernel.Thorough
	}
	if os.Getenv("FS_TRACE") != "" {
		traceCap = 400
	}
	if ms := envInt("FS_POLL_MS", 0); ms > 0 {
		pollStep = time.Duration(ms) * time.Millisecond
	}
	r1 := kernel.Execute(t, rig, tier, tape, nil)
	r2 := kernel.Execute(t, rig, tier, kernel.ReplayTape(seed, tape.Streams()), nil)
	for i, r := range []*kernel.Result{r1, r2} {
		js, _ := json.MarshalIndent(r.Sample, "", " ")
		fmt.Printf("RUN %d: %s\n%s\n", i, digest(r), js)
	}
}

func TestDevRuns(t *testing.T) {
	if os.Getenv("FS_RUNS") == "" {
		t.Skip("set FS_RUNS")
	}
	os.Setenv("VERIF_SCRATCH", t.TempDir())
	rig := Describe()
	if os.Getenv("FS_TRACE") != "" {
		traceCap = 400
	}
	n := envInt("FS_RUNS", 10)
	base := uint64(envInt("FS_SEED", 1))
	tier := kernel.Quick
	if os.Getenv("FS_TIER") == "thorough" {
		tier = kernel.Thorough
	}
	verbose := os.Getenv("FS_VERBOSE") != ""
	probes := map[string]int{}
	faults := map[string]int{}
	var wall time.Duration
	nt := 0
	for k := 0; k < n; k++ {
		seed := kernel.RunSeed(base, k)
		tape := kernel.NewTape(seed)
		var m0, m1 runtime.MemStats
		runtime.ReadMemStats(&m0)
		t0 := time.Now()
		r := kernel.Execute(t, rig, tier, tape, nil)
		d := time.Since(t0)
		runtime.ReadMemStats(&m1)
		if mb := (m1.TotalAlloc - m0.TotalAlloc) >> 20; mb > maxAllocMB {
			maxAllocMB = mb
		}
		totAllocMB += (m1.TotalAlloc - m0.TotalAlloc) >> 20
		wall += d
		d1 := digest(r)
		if os.Getenv("FS_REPLAY") != "" {
			r2 := kernel.Execute(t, rig, tier, kernel.ReplayTape(seed, tape.Streams()), nil)
			if d2 := digest(r2); d2 != d1 {
				fmt.Printf("DET-MISMATCH seed=%d\n  gen:    %s\n  replay: %s\n", seed, d1, d2)
				j1, _ := json.MarshalIndent(r.Sample, "", " ")
				j2, _ := json.MarshalIndent(r2.Sample, "", " ")
				fmt.Printf("GEN-SAMPLE\n%s\nREPLAY-SAMPLE\n%s\nEND-SAMPLE\n", j1, j2)
			}
		}
		fmt.Printf("DET seed=%d %s\n", seed, d1)
		if verbose || len(r.Violations) > 0 || r.Harness != "" {
			js, _ := json.MarshalIndent(r.Sample, "", " ")
			fmt.Printf("  wall=%v\n%s\n", d, js)
			for _, v := range r.Violations {
				fmt.Printf("  VIOLATION %s\n", v)
			}
		}
		for k, v := range r.Probes {
			probes[k] += v
		}
		for k, v := range r.Faults {
			faults[k] += v
		}
		if r.NonTrivial {
			nt++
		}
	}
	fmt.Printf("TOTAL runs=%d nontrivial=%d wall=%v (%.0f ms/run) alloc avg %d MB max %d MB per run\n", n, nt, wall, float64(wall.Milliseconds())/float64(n), totAllocMB/uint64(n), maxAllocMB)
	pj, _ := json.Marshal(probes)
	fj, _ := json.Marshal(faults)
	fmt.Printf("PROBES %s\nFAULTS %s\n", pj, fj)
}
