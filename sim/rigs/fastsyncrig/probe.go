package fastsyncrig

import (
	"fmt"
	"sync"
	"testing"
	"time"

	cs "github.com/lianxiangcloud/linkchain/consensus"

	"verif/sim/kernel"
)

// Two inputs of the catalogue killed the process on the tree this rig was
// first run against (unrecovered panics on the reactor's pool routine, both
// fixed since: /repo 3c83351 and ba0aafb; direct reproductions in
// repro_test.go). A dead worker is harness trouble, not a verdict, so the two
// defects are looked for by survivable probes, once per process, before the
// generator sends the inputs: nilCommitSafe (forge.go) calls VerifyCommit(nil)
// under recover; the recover-flag probe runs the scripted scenario below. A
// probe that finds its defect makes every fast-sync run of the process report
// it as a violation under a stable key (so that a regression is a VIOLATION
// with a replay file, not a crashed worker) and keeps the input out of the
// generator; on a sound tree both inputs are generated.

// Keys of the two findings.
const (
	KeyNilLastCommit = "panic/types.(*ValidatorSet).VerifyCommit/nil-commit"
	KeyRecoverFlag   = "fastsync/recover-flag/validator-set-swap-survives-refusal"
)

var (
	recoverOnce   sync.Once
	recoverOK     bool
	recoverDefect string // non-empty: the probe saw the defect
)

func recoverFlagSafe() bool { return recoverOK }

// recoverFlagScript: an honest-looking peer serves blocks 1 and 2, then, for
// height 3, a copy of the canonical block with Header.Recover = 1, then the
// genuine block 4. The pair (3', 4) must be refused. The sync loop's own
// consensus status is then made visible through the hand-over to the
// consensus reactor (StopFastSync makes the pool report "caught up") and
// compared with the producer's status after block 2: on a tree where
// poolRoutine assigns the recover validator set to its status before the
// commit is verified, the validator set handed over has lost its proposer
// priorities. Nothing is applied after the refusal, so the scenario cannot
// reach the ApplyBlock failure that kills the process.
func recoverFlagScript(c *kernel.Ctx, s *sim) (handed cs.NewStatus, switched bool, storeHeight uint64) {
	w := s.w
	p := &peerSim{role: roleHonest, have: uint64(w.cfg.L), baseLat: 1}
	s.addPeer(p)
	s.connect(p)
	s.events = nil
	p.announced, p.claim = true, uint64(w.cfg.L)
	s.receive(p, encodeHeightMsg(pfxStatusResponse, p.claim))
	s.step(300 * time.Millisecond)
	s.events = nil
	s.receive(p, w.canon[1].wire)
	s.receive(p, w.canon[2].wire)
	s.receive(p, w.fabricateFirstRaw(3, 0).wire)
	s.receive(p, w.canon[4].wire)
	s.step(300 * time.Millisecond)
	s.events = nil
	storeHeight = s.storeHeight()
	s.bcr.StopFastSync()
	s.step(1200 * time.Millisecond)
	s.cons.mu.Lock()
	handed, switched = s.cons.status, s.cons.switched
	s.cons.mu.Unlock()
	return
}

func sameValidators(a, b cs.NewStatus) bool {
	if a.Validators == nil || b.Validators == nil || a.Validators.Size() != b.Validators.Size() {
		return false
	}
	for i := 0; i < a.Validators.Size(); i++ {
		_, x := a.Validators.GetByIndex(i)
		_, y := b.Validators.GetByIndex(i)
		if string(x.Address) != string(y.Address) || x.VotingPower != y.VotingPower || x.Accum != y.Accum {
			return false
		}
	}
	return string(a.Validators.GetProposer().Address) == string(b.Validators.GetProposer().Address)
}

func probeCfg() config {
	return config{L: 4, NVals: 2, Powers: []int64{3, 4}, MaxTxs: 0, NPeers: 1, Faulty: 10 * time.Second, Calm: 10 * time.Second}
}

// probeRecoverFlag runs once per process, outside any bubble, on a fixed tape.
func probeRecoverFlag(t *testing.T) {
	recoverOnce.Do(func() {
		ok, defect := false, ""
		res := scriptedRun(t, 424242, probeCfg(), func(c *kernel.Ctx, s *sim) {
			handed, switched, top := recoverFlagScript(c, s)
			if !switched || top != 2 {
				return // inconclusive: the scenario did not get to the hand-over
			}
			if sameValidators(handed, s.w.statusAt[2]) {
				ok = true
				return
			}
			defect = fmt.Sprintf("after a REFUSED block with Header.Recover=1 the sync loop's validator set is %v, a node that applied the same two blocks has %v", handed.Validators, s.w.statusAt[2].Validators)
		})
		if res.Harness != "" || len(res.Violations) > 0 {
			ok, defect = false, ""
		}
		recoverOK, recoverDefect = ok, defect
	})
}

// reportTreeDefects runs the probes and reports what they found; false = stop the run.
func reportTreeDefects(c *kernel.Ctx) bool {
	probeRecoverFlag(c.T)
	if !nilCommitSafe() {
		if c.Violate("panic", KeyNilLastCommit, "types.(*ValidatorSet).VerifyCommit dereferences a nil commit: a block response without LastCommit (an empty list on the wire) for height H+1 makes blockchain poolRoutine panic on its own goroutine while it verifies block H - any peer kills a fast-syncing node (input not generated in this process)") {
			return false
		}
	}
	if recoverDefect != "" {
		if c.Violate("validator-set", KeyRecoverFlag, "blockchain poolRoutine installs the recover validator set before the commit is verified and keeps it when the block is refused: %s (input not generated in this process: genuine blocks that follow are saved and then fail ApplyBlock, cmn.PanicQ kills the node)", recoverDefect) {
			return false
		}
	} else if !recoverOK {
		c.Probe("recover-flag-probe-inconclusive")
	}
	return true
}

// scriptedRun runs f against a started node over a freshly produced chain,
// inside a bubble of its own.
func scriptedRun(t *testing.T, seed uint64, cfg config, f func(c *kernel.Ctx, s *sim)) *kernel.Result {
	defer pinProcs()()
	rig := &kernel.Rig{Property: "C03", Name: "fastsync-script", Run: func(c *kernel.Ctx) {
		var w *world
		defer func() {
			if w != nil {
				w.cleanup()
			}
		}()
		kernel.Bubble(c, false, func() {
			var err error
			if w, err = newWorld(c, cfg); err != nil {
				c.HarnessTrouble("world: %v", err)
				return
			}
			defer closeReplica(w.prod)
			if err := w.produce(); err != nil {
				c.HarnessTrouble("produce: %v", err)
				return
			}
			s, stop, err := startNode(c, w)
			if err != nil {
				c.HarnessTrouble("%v", err)
				return
			}
			defer stop()
			f(c, s)
		})
	}}
	return kernel.Execute(t, rig, kernel.Quick, kernel.NewTape(seed), nil)
}
