package fastsyncrig

import (
	"fmt"
	"runtime"
	"runtime/debug"
	"sort"
	"strings"
	"testing/synctest"
	"time"

	bc "github.com/lianxiangcloud/linkchain/blockchain"
	cs "github.com/lianxiangcloud/linkchain/consensus"
	"github.com/lianxiangcloud/linkchain/libs/log"
	"github.com/lianxiangcloud/linkchain/types"

	"verif/sim/kernel"
	"verif/sim/simnode"
	"verif/sim/txgen"
)

const (
	roleHonest = iota
	roleByz
	roleStaller
)

// attack kinds of a Byzantine peer session (one attack point per session).
const (
	atNone         = iota
	atAltFirst     // (a) never-committed block for f, genuine f+1
	atForgedSecond // (b) genuine f, f+1 carries a forged commit for f
	atFork         // (e) never-committed f and a successor carrying a forged commit for it
	atWrongHeight  // (c)
	atGarbage      // (d)
	atSilent       // stall
	atNoBlock      // says it has no such block
	atValidVariant // f+1 differs from the canonical one but carries a valid commit for f
	atTopSuccessor // claims L+1: fabricated successor of the top block with the genuine commit
	atKinds
)

var atNames = [...]string{"none", "alt-first", "forged-second", "fork", "wrong-height", "garbage", "silent", "no-block", "valid-variant", "top-successor"}

type attack struct {
	typ   int
	f     uint64 // the height whose acceptance is aimed at
	fc    int    // forged-commit kind
	fix   bool   // LastCommitHash recomputed
	gkind int    // garbage flavour
	wh    uint64 // wrong-height: the height served instead
	cache map[uint64]*blk
}

type peerSim struct {
	idx        int
	id         string
	role       int
	have       uint64 // honest: serves canon[1..have]
	stub       *simnode.Peer
	connected  bool
	announced  bool   // believed to be in the node's pool
	claim      uint64 // what the node was last told
	rawClaim   uint64 // what the peer would tell without the window
	raising    bool   // a follow-up status is on its way
	huge       bool
	att        *attack
	sessions   int
	baseLat    int // ms
	slow       bool
	gone       bool // will not come back
	statusMute bool // ignores status requests
}

const (
	evConnect = iota
	evStatus
	evBlock
	evDisconnect
	evAsk // the peer asks the node for its status or for a block
)

type event struct {
	at    time.Duration
	seq   int
	kind  int
	peer  int
	sess  int
	claim uint64
	bytes []byte
	label string
	tries int
}

type sim struct {
	c    *kernel.Ctx
	w    *world
	cfg  config
	net  *kernel.Tape
	byzT *kernel.Tape

	syncer *txgen.Replica
	app    *tapApp
	sw     *netSwitch
	cons   *consStub
	bcr    *bc.BlockchainReactor
	ob     *outbox

	peers    []*peerSim
	events   []*event
	held     []*event // status messages the topology gate keeps back
	seq      int
	start    time.Time
	lastTopo time.Duration
	calm     bool
	checked  uint64 // store heights already compared with the canonical chain

	trace      []string
	classes    []string
	delivered  int
	bogusSent  int
	refusals   int
	recvPanics int
}

func (s *sim) now() time.Duration { return time.Since(s.start) }

var traceCap = 60

// pollStep is how often the simulator looks at what the node sent.
var pollStep = 100 * time.Millisecond

func (s *sim) note(format string, a ...interface{}) {
	if len(s.trace) < traceCap {
		s.trace = append(s.trace, fmt.Sprintf("%6dms ", s.now().Milliseconds())+fmt.Sprintf(format, a...))
	}
}

func (s *sim) class(k string) { s.classes = append(s.classes, k) }

// schedule queues an event. Its instant is moved into the first half of a
// 100 ms slot (5..45 ms after a multiple of 100 ms of the node's life): the
// sync ticker (every 50 ms), the requesters' polls and the pool's peer-rate
// check (every 100 ms) and the hand-over ticker (every second) are all due at
// multiples of 50 ms, and poolRoutine's select picks among simultaneously
// ready channels at random. A message that arrives inside the window is
// judged at the next odd 50 ms tick, where nothing else is due; a peer timeout
// (120 s after the last message) inherits the offset.
func (s *sim) schedule(e *event) {
	const slot = 100 * time.Millisecond
	if r := e.at % slot; r < 5*time.Millisecond || r > 45*time.Millisecond {
		e.at = e.at - r + 5*time.Millisecond + r%(41*time.Millisecond)
	}
	s.seq++
	e.seq = s.seq
	s.events = append(s.events, e)
}

func (s *sim) storeHeight() uint64 { return s.syncer.Chain.BlockStore.Height() }

// ---------------------------------------------------------------- topology gate
//
// BlockPool.pickIncrAvailablePeer ranges over a Go map and breaks ties between
// equally loaded peers by iteration order, and the requesters race for the
// pool's lock: which peer is asked for which height is not a function of the
// tape as soon as two eligible peers compete for the same unassigned height.
// The simulator therefore only lets a peer become eligible (status response
// with a claim at or above the pool's height) when at most one other eligible
// peer exists and that one has had time to take every height it is eligible
// for (nothing changed for 300 ms; requesters poll every 100 ms). Removing a
// peer then hands all its heights to the single remaining one.

func (s *sim) eligibleOthers(p *peerSim) (n int) {
	h0 := s.storeHeight() + 1
	for _, q := range s.peers {
		if q != p && q.connected && q.announced && q.claim >= h0 {
			n++
		}
	}
	return
}

func (s *sim) mayAnnounceQuiet(p *peerSim, claim uint64) bool {
	h0 := s.storeHeight() + 1
	if claim < h0 {
		return true
	}
	n := s.eligibleOthers(p)
	return n == 0 || (n == 1 && s.now()-s.lastTopo >= 300*time.Millisecond)
}

func (s *sim) mayAnnounce(p *peerSim, claim uint64) bool {
	if !s.mayAnnounceQuiet(p, claim) {
		return false
	}
	if claim >= s.storeHeight()+1 && s.eligibleOthers(p) == 1 {
		s.c.Probe("second-eligible-peer-joins")
	}
	return true
}

// ---------------------------------------------------------------- peers

func (s *sim) connect(p *peerSim) {
	if p.connected || p.gone {
		return
	}
	p.connected = true
	p.announced = false
	p.sessions++
	s.sw.addPeer(p.stub)
	s.bcr.AddPeer(p.stub) // sends our status to the peer
	s.c.Event(1)
	s.class("connect")
	s.note("connect %s (session %d)", p.id, p.sessions)
	if p.role == roleByz {
		s.drawAttack(p)
	}
	if !s.calm && s.net.Bool(1, 3) {
		// the remote node is a blockchain reactor too: it asks for our status and,
		// sometimes, for blocks
		bz := encodeHeightMsg(pfxStatusRequest, p.have)
		if s.net.Bool(1, 2) {
			bz = encodeHeightMsg(pfxBlockRequest, uint64(s.net.Int(s.cfg.L+2)))
		}
		s.schedule(&event{at: s.now() + time.Duration(s.net.Int(3000))*time.Millisecond, kind: evAsk, peer: p.idx, sess: p.sessions, bytes: bz})
	}
	// the remote reactor's AddPeer sends its status right away
	lat := s.latency(p)
	s.schedule(&event{at: s.now() + lat, kind: evStatus, peer: p.idx, sess: p.sessions, claim: s.claimOf(p)})
}

func (s *sim) claimOf(p *peerSim) uint64 {
	L := uint64(s.cfg.L)
	switch p.role {
	case roleHonest:
		return p.have
	case roleStaller:
		if p.huge {
			// an over-claim; bounded: a peer whose claim is 30 or more above the
			// pool's height gets an arbitrary 30 of the 60 requesters
			return L + 1 + uint64(s.byzT.Int(3))
		}
		return L
	}
	if p.att != nil && p.att.typ == atTopSuccessor {
		return L + 1
	}
	switch s.byzT.Pick(6, 1, 1) {
	case 1:
		return L + 1 + uint64(s.byzT.Int(3)) // over-claim
	case 2:
		if p.att != nil && p.att.f+1 < L {
			return p.att.f + 1 + uint64(s.byzT.Int(int(L-p.att.f)))
		}
	}
	return L
}

func (s *sim) drawAttack(p *peerSim) {
	t := s.byzT
	L := uint64(s.cfg.L)
	h0 := s.storeHeight() + 1
	a := &attack{cache: map[uint64]*blk{}}
	a.typ = 1 + t.Pick(6, 8, 3, 1, 2, 1, 1, 2, 1)
	span := uint64(4)
	if h0+span > L {
		if L > h0 {
			span = L - h0
		} else {
			span = 0
		}
	}
	a.f = h0 + uint64(t.Int(int(span)+1))
	if a.f >= L && a.typ != atTopSuccessor {
		// the top block has no canonical successor: only the fabricated one
		if a.f > L {
			a.f = L
		}
		if a.typ == atAltFirst || a.typ == atValidVariant {
			a.typ = atFork
		}
	}
	if a.typ == atTopSuccessor {
		a.f = L
	}
	// forged-commit kind; index fcKinds = no LastCommit at all
	a.fc = t.Pick(3, 2, 2, 2, 4, 2, 2, 1, 1, 2, 2, 2, 2, 1)
	a.fix = t.Bool(2, 3)
	a.gkind = t.Int(6)
	switch t.Pick(2, 2, 1) {
	case 0:
		a.wh = a.f + 1
	case 1:
		if a.f > 1 {
			a.wh = a.f - 1
		} else {
			a.wh = a.f + 2
		}
	default:
		a.wh = a.f + 150 + uint64(t.Int(50))
	}
	if (a.typ == atAltFirst || a.typ == atFork) && a.f >= 1 && a.f <= L && (len(s.w.alts[a.f]) == 0 || t.Bool(2, 5)) {
		// no executable alternative was produced for this height (or for variety):
		// a header-tweaked copy of the canonical block
		x := s.w.fabricateFirst(a.f, t.Int(firstVariants))
		s.w.alts[a.f] = append(s.w.alts[a.f], x)
		a.cache[a.f] = x
	}
	p.att = a
	s.note("%s plans %s at %d", p.id, atNames[a.typ], a.f)
}

func (s *sim) latency(p *peerSim) time.Duration {
	ms := p.baseLat + s.net.Int(p.baseLat+1)
	if !s.calm {
		if p.slow {
			ms += 500 + s.net.Int(4000)
		} else if s.net.Bool(1, 12) {
			ms += 200 + s.net.Int(3000)
			s.c.Fault("delay")
		}
	}
	return time.Duration(ms) * time.Millisecond
}

// respond decides what peer p answers to a request for height h.
func (s *sim) respond(p *peerSim, h uint64) {
	L := uint64(s.cfg.L)
	w := s.w
	send := func(x *blk, label string, bogus bool) {
		lat := s.latency(p)
		if !s.calm && s.net.Bool(1, 50) {
			s.c.Fault("drop-response")
			s.note("%s: response for %d lost", p.id, h)
			return
		}
		s.schedule(&event{at: s.now() + lat, kind: evBlock, peer: p.idx, sess: p.sessions, bytes: x.wire, label: label})
		if bogus {
			s.bogusSent++
		}
		if !s.calm && s.net.Bool(1, 20) {
			s.c.Fault("duplicate-response")
			s.schedule(&event{at: s.now() + lat + time.Duration(1+s.net.Int(300))*time.Millisecond, kind: evBlock, peer: p.idx, sess: p.sessions, bytes: x.wire, label: label + "(dup)"})
		}
	}
	raw := func(bz []byte, label string) {
		s.schedule(&event{at: s.now() + s.latency(p), kind: evBlock, peer: p.idx, sess: p.sessions, bytes: bz, label: label})
		s.bogusSent++
	}
	genuine := func() {
		if h >= 1 && h <= L && (p.role != roleHonest || h <= p.have) {
			send(w.canon[h], "genuine", false)
			return
		}
		raw(encodeHeightMsg(pfxNoBlock, h), "no-block")
		s.bogusSent--
	}
	switch p.role {
	case roleStaller:
		s.c.Fault("stall")
		return
	case roleHonest:
		genuine()
		return
	}
	a := p.att
	if a == nil || a.typ == atNone {
		genuine()
		return
	}
	switch {
	case h == a.f:
		switch a.typ {
		case atAltFirst, atFork:
			x := a.cache[h]
			if x == nil {
				alts := w.alts[h]
				x = alts[s.byzT.Int(len(alts))]
				a.cache[h] = x
			}
			s.c.Fault("byz-" + atNames[a.typ])
			s.c.Fault("serve/" + x.label)
			send(x, x.label, true)
		case atWrongHeight:
			s.c.Fault("byz-wrong-height")
			if a.wh >= 1 && a.wh <= L {
				send(w.canon[a.wh], fmt.Sprintf("wrong-height(%d for %d)", a.wh, h), true)
			} else {
				x := a.cache[h]
				if x == nil {
					x = w.fabricate(a.wh, w.canon[L].id, w.commits[L], true, "far-height")
					a.cache[h] = x
				}
				send(x, fmt.Sprintf("wrong-height(%d for %d)", a.wh, h), true)
			}
		case atGarbage:
			s.c.Fault("byz-garbage")
			raw(s.garbage(a, h))
		case atSilent:
			s.c.Fault("stall")
		case atNoBlock:
			s.c.Fault("byz-no-block")
			raw(encodeHeightMsg(pfxNoBlock, h), "no-block")
		default:
			genuine()
		}
	case h == a.f+1:
		switch a.typ {
		case atForgedSecond, atValidVariant, atFork, atTopSuccessor:
			x := a.cache[h]
			if x == nil {
				switch a.typ {
				case atForgedSecond:
					fk := a.fc
					if fk == fcKinds {
						// no LastCommit at all (decodes to a nil *Commit)
						if nilCommitSafe() {
							x = w.fabricate(h, w.canon[a.f].id, nil, a.fix, "second:nil-last-commit")
							break
						}
						s.c.Probe("nil-last-commit-not-sent")
						fk = fcNilOnly
					}
					if fk == fcWrongSize || fk == fcRelabelled || fk == fcAltQuorum {
						fk = fcInsufficient
					}
					f := w.forgeCommit(s.byzT, fk, a.f, w.canon[a.f].id, true)
					x = w.fabricate(h, w.canon[a.f].id, f.c, a.fix, "second:"+f.kind)
				case atValidVariant:
					if a.fc%4 == 3 {
						// the genuine commit in a block without transactions part (nil *Data)
						y := w.fabricate(h, w.canon[a.f].id, w.commits[a.f], true, "second:nil-data")
						nb := clone(y.b)
						nb.Data = nil
						x = w.register(nb, "second:nil-data")
						break
					}
					fk := []int{fcWrongSize, fcRelabelled, fcAltQuorum}[a.fc%4]
					f := w.forgeCommit(s.byzT, fk, a.f, w.canon[a.f].id, true)
					x = w.fabricate(h, w.canon[a.f].id, f.c, a.fix, "second:"+f.kind)
				case atFork:
					first := a.cache[a.f]
					if first == nil {
						alts := w.alts[a.f]
						first = alts[s.byzT.Int(len(alts))]
						a.cache[a.f] = first
					}
					fk := a.fc
					if fk >= fcKinds || fk == fcWrongSize || fk == fcRelabelled || fk == fcAltQuorum || fk == fcExactTwoThirds {
						fk = fcInsufficient
					}
					f := w.forgeCommit(s.byzT, fk, a.f, first.id, false)
					x = w.fabricate(h, first.id, f.c, a.fix, "fork-successor:"+f.kind)
				case atTopSuccessor:
					w.noteCommit(w.commits[L], "canon")
					x = w.fabricate(h, w.canon[L].id, w.commits[L], true, "top-successor")
				}
				a.cache[h] = x
			}
			s.c.Fault("byz-" + atNames[a.typ])
			s.c.Fault("serve/" + x.label)
			send(x, x.label, a.typ != atTopSuccessor && a.typ != atValidVariant)
		default:
			genuine()
		}
	default:
		genuine()
	}
}

// garbage returns an undecodable or degenerate block response.
func (s *sim) garbage(a *attack, h uint64) ([]byte, string) {
	L := uint64(s.cfg.L)
	src := s.w.canon[L].wire
	if h >= 1 && h <= L {
		src = s.w.canon[h].wire
	}
	bz := append([]byte{}, src...)
	switch a.gkind {
	case 0:
		return bz[:7+s.byzT.Int(len(bz)-7)], "truncated"
	case 1:
		i := 7 + s.byzT.Int(len(bz)-7)
		bz[i] ^= 1 << uint(s.byzT.Int(8))
		return bz, "bit-flipped"
	case 2:
		return append(bz, 0x01, 0x02), "trailing-bytes"
	case 3:
		return bz[:3], "short"
	case 4:
		return append([]byte{0xde, 0xad, 0xbe, 0xef, 0, 0, 0}, bz[7:]...), "unknown-prefix"
	default:
		if s.c.Tier == kernel.Thorough && s.byzT.Bool(1, 6) {
			return make([]byte, types.MaxBlockSizeBytes+6), "oversize"
		}
		return append(append([]byte{}, pfxBlockResponse...), 0xc1, 0xc0), "empty-block"
	}
}

// ---------------------------------------------------------------- stepping

// settle waits for quiescence and then books everything the node did: the
// peers it stopped, the requests it sent, what got committed.
func (s *sim) settle() bool {
	synctest.Wait()
	for _, st := range s.sw.takeStops() {
		s.onStopped(st)
	}
	var prev outMsg
	for i, m := range s.ob.take() {
		p := s.peers[m.peer]
		if !p.connected {
			continue // a message to a peer that is gone
		}
		if i > 0 && m == prev {
			if traceCap > 60 {
				s.note("DUPLICATE request %s %d", p.id, m.h)
			}
			continue // the same request twice at one instant: one answer
		}
		prev = m
		switch m.kind {
		case "block-request":
			s.c.Event(1)
			if traceCap > 60 {
				s.note("request %s %d", p.id, m.h)
			}
			s.respond(p, m.h)
		case "status-request":
			if p.statusMute || (!s.calm && s.net.Bool(1, 10)) {
				continue
			}
			s.schedule(&event{at: s.now() + s.latency(p), kind: evStatus, peer: p.idx, sess: p.sessions, claim: s.claimOf(p)})
		}
	}
	return s.oracle()
}

func (s *sim) onStopped(st stopRec) {
	var p *peerSim
	for _, q := range s.peers {
		if q.id == st.peer {
			p = q
		}
	}
	if p == nil {
		return
	}
	kind := "other"
	switch {
	case strings.Contains(st.reason, "validation error"):
		kind = "validation"
		s.refusals++
	case strings.Contains(st.reason, "CheckBlock failed"):
		kind = "checkblock"
		s.refusals++
	case strings.Contains(st.reason, "did not send us anything"):
		kind = "timeout"
	case strings.Contains(st.reason, "fast enough"):
		kind = "slow"
	case strings.Contains(st.reason, "didn't expect"):
		kind = "unexpected-height"
	case strings.Contains(st.reason, "exceeds max size"):
		kind = "oversize"
	default:
		kind = "decode"
	}
	s.c.Probe("peer-stopped-" + kind)
	if p.role == roleHonest && (kind == "validation" || kind == "checkblock") {
		s.c.Probe("honest-peer-stopped-for-anothers-block")
	}
	s.class("stop-" + kind)
	s.note("node stops %s: %s", p.id, kind)
	if !p.connected {
		return
	}
	s.afterDisconnect(p)
}

func (s *sim) afterDisconnect(p *peerSim) {
	p.connected = false
	p.announced = false
	p.raising = false
	s.lastTopo = s.now()
	if p.gone {
		return
	}
	switch p.role {
	case roleHonest:
		d := 200 + s.net.Int(2500)
		if s.calm {
			d = 200 + s.net.Int(500)
		}
		s.schedule(&event{at: s.now() + time.Duration(d)*time.Millisecond, kind: evConnect, peer: p.idx})
	default:
		if !s.calm && p.sessions < 3 && s.byzT.Bool(2, 3) {
			s.schedule(&event{at: s.now() + time.Duration(200+s.byzT.Int(4000))*time.Millisecond, kind: evConnect, peer: p.idx})
		}
	}
}

func (s *sim) disconnect(p *peerSim, why string) {
	if !p.connected {
		return
	}
	s.sw.dropPeer(p.id)
	s.bcr.RemovePeer(p.stub, why)
	s.c.Event(1)
	s.class("disconnect")
	s.note("%s disconnects (%s)", p.id, why)
	s.afterDisconnect(p)
}

// claimWindow bounds how far above the node's next height a peer's claim may
// be. After a peer has been removed, every requester it served keeps a stale
// redo signal (the pool calls removePeer two or three times in a row; the
// first signal is handed to the parked requester directly, the second one
// stays in the channel's buffer): its next pick is immediately redone and
// counts twice against the 30 pending requests a peer may have. With more
// than 15 heights on offer the pool then serves the requesters in the order
// their timers happen to fire, which is not a function of the tape. A peer
// with a longer chain therefore tells its height in steps, as a node that is
// itself still growing would.
const claimWindow = 11

// raiseClaims lets peers whose chain is longer than what they last told
// announce more once the node has come within 4 blocks of it.
func (s *sim) raiseClaims() {
	h0 := s.storeHeight() + 1
	for _, p := range s.peers {
		if !p.connected || !p.announced || p.raising || p.rawClaim <= p.claim || p.claim+1 > h0+claimWindow-4 {
			continue
		}
		p.raising = true
		s.schedule(&event{at: s.now() + s.latency(p), kind: evStatus, peer: p.idx, sess: p.sessions, claim: p.rawClaim})
	}
}

// releaseHeld re-queues the held-back status messages the topology gate now lets through.
func (s *sim) releaseHeld() {
	if len(s.held) == 0 {
		return
	}
	kept := s.held[:0]
	for _, e := range s.held {
		p := s.peers[e.peer]
		if !p.connected || e.sess != p.sessions {
			continue
		}
		claim := e.claim
		if lim := s.storeHeight() + 1 + claimWindow; claim > lim {
			claim = lim
		}
		if s.mayAnnounceQuiet(p, claim) {
			e.at = s.now()
			s.schedule(e)
			continue
		}
		kept = append(kept, e)
	}
	s.held = kept
}

// deliver performs one due event.
func (s *sim) deliver(e *event) bool {
	p := s.peers[e.peer]
	switch e.kind {
	case evConnect:
		s.connect(p)
	case evDisconnect:
		if p.connected && !s.calm {
			s.c.Fault("peer-disconnect")
			s.disconnect(p, "peer went away")
		}
	case evStatus:
		if !p.connected || e.sess != p.sessions {
			return true
		}
		// what the peer tells is its height cut to claimWindow above the node's
		// next height (see claimWindow); the rest follows as the node advances
		claim := e.claim
		if lim := s.storeHeight() + 1 + claimWindow; claim > lim {
			claim = lim
		}
		if !s.mayAnnounce(p, claim) {
			// kept until the topology allows it (see releaseHeld); a newer
			// status of the same peer replaces an older one
			s.c.Probe("status-held-back")
			kept := s.held[:0]
			for _, h := range s.held {
				if h.peer != e.peer {
					kept = append(kept, h)
				}
			}
			s.held = append(kept, e)
			return true
		}
		if !p.announced || claim > p.claim {
			s.lastTopo = s.now()
		}
		p.announced, p.claim, p.rawClaim, p.raising = true, claim, e.claim, false
		s.c.Event(1)
		s.class("status")
		s.note("%s claims height %d", p.id, claim)
		s.receive(p, encodeHeightMsg(pfxStatusResponse, claim))
	case evAsk:
		if !p.connected || e.sess != p.sessions {
			return true
		}
		s.c.Event(1)
		s.class("ask")
		s.receive(p, e.bytes)
	case evBlock:
		if !p.connected || e.sess != p.sessions {
			return true
		}
		s.c.Event(1)
		s.delivered++
		s.class("block:" + e.label)
		s.note("%s delivers %s", p.id, e.label)
		s.receive(p, e.bytes)
	}
	return s.settle()
}

// receive hands bytes to the reactor the way a connection's receive routine
// does: a panic of the handler is caught there (MConnection.recvRoutine's
// recover stops the peer for error).
func (s *sim) receive(p *peerSim, bz []byte) {
	site, msg, panicked := kernel.Try(func() { s.bcr.Receive(bc.BlockchainChannel, p.stub, bz) })
	if panicked {
		s.recvPanics++
		s.c.Probe("receive-panic-recovered-by-connection")
		s.note("Receive panicked at %s: %.80s", site, msg)
		s.sw.StopPeerForError(p.stub, "recovered panic in Receive: "+site)
	}
}

// run drives the node until it holds target or until the deadline.
func (s *sim) run(until time.Duration, target uint64) bool {
	for {
		if s.c.Failed() {
			return false
		}
		now := s.now()
		if now >= until || (target > 0 && s.storeHeight() >= target) {
			return true
		}
		sort.SliceStable(s.events, func(i, j int) bool {
			if s.events[i].at != s.events[j].at {
				return s.events[i].at < s.events[j].at
			}
			return s.events[i].seq < s.events[j].seq
		})
		if len(s.events) > 0 && s.events[0].at <= now {
			e := s.events[0]
			s.events = s.events[1:]
			if !s.deliver(e) {
				return false
			}
			continue
		}
		next := now + pollStep
		if len(s.events) > 0 && s.events[0].at < next {
			next = s.events[0].at
		}
		if next > until {
			next = until
		}
		time.Sleep(next - now)
		s.c.SimTime(next - now)
		if !s.settle() {
			return false
		}
		s.releaseHeld()
		s.raiseClaims()
	}
}

// ---------------------------------------------------------------- set-up and the run

func drawConfig(c *kernel.Ctx) config {
	t := c.Tape.Fork("config")
	cfg := config{}
	thorough := c.Tier == kernel.Thorough
	cfg.L = t.Range(3, 9)
	cfg.NVals = 1 + t.Pick(1, 2, 2, 4)
	cfg.MaxTxs = t.Range(0, 4)
	cfg.NPeers = 1 + t.Pick(2, 4, 3, 2)
	cfg.Faulty = time.Duration(5+t.Int(40)) * time.Second
	if thorough {
		cfg.L = t.Range(3, 22)
		if t.Bool(1, 3) {
			cfg.NVals = 1 + t.Int(7)
		}
		cfg.MaxTxs = t.Range(0, 8)
		cfg.NPeers = 1 + t.Pick(1, 3, 3, 3, 2)
		cfg.Faulty = time.Duration(5+t.Int(200)) * time.Second
	} else if t.Bool(1, 4) {
		cfg.L = t.Range(9, 12)
	}
	cfg.Powers = drawPowers(t, cfg.NVals)
	cfg.ByzOnly = t.Bool(1, 10)
	cfg.IsTrie = t.Bool(1, 2)
	cfg.PartSize = []int{0, 0, 256, 1024, 4096}[t.Int(5)]
	cfg.Calm = 400 * time.Second
	return cfg
}

type sample struct {
	Cfg       string   `json:"cfg"`
	Peers     []string `json:"peers"`
	Trace     []string `json:"trace"`
	Synced    uint64   `json:"synced"`
	Target    uint64   `json:"target"`
	Accepted  int      `json:"accepted"`
	BogusSent int      `json:"bogus_sent"`
	Refusals  int      `json:"refusals"`
	Note      string   `json:"note,omitempty"`
}

// Run is one fast-sync run.
func Run(c *kernel.Ctx) {
	defer pinProcs()()
	if !reportTreeDefects(c) {
		return
	}
	cfg := drawConfig(c)
	var w *world
	defer func() {
		if w != nil {
			w.cleanup()
		}
	}()
	kernel.Bubble(c, false, func() {
		var err error
		w, err = newWorld(c, cfg)
		if err != nil {
			c.HarnessTrouble("fastsync world: %v", err)
			return
		}
		defer closeReplica(w.prod)
		if err := w.produce(); err != nil {
			c.HarnessTrouble("fastsync chain production: %v", err)
			return
		}
		for h := 1; h <= cfg.L; h++ {
			w.noteCommit(w.commits[h], "canon")
		}
		runSync(c, w)
	})
}

func closeReplica(r *txgen.Replica) {
	if r == nil {
		return
	}
	kernel.Try(func() {
		r.Chain.Close()
		synctest.Wait()
		r.Chain.Close()
		synctest.Wait()
	})
}

// startNode assembles the syncing node (fresh from genesis) with the real
// blockchain reactor in fast-sync mode and starts it. stop ends it.
func startNode(c *kernel.Ctx, w *world) (s *sim, stop func(), err error) {
	s = &sim{c: c, w: w, cfg: w.cfg, net: c.Tape.Fork("net"), byzT: c.Tape.Fork("byz"), ob: &outbox{}}
	if s.syncer, err = w.open("syncer"); err != nil {
		return nil, nil, fmt.Errorf("open syncer: %v", err)
	}
	s.syncer.Chain.RegisterRate()
	s.app = &tapApp{BlockChainApp: s.syncer.Chain.App, w: w, chain: s.syncer.Chain, park: make(chan struct{})}
	s.sw = newNetSwitch()
	s.cons = newConsStub()
	s.sw.AddReactor("CONSENSUS", s.cons)
	s.bcr = bc.NewBlockchainReactor(s.syncer.Chain.Status.Copy(), s.syncer.Chain.BlockExec, s.app, true, s.sw)
	s.bcr.SetLogger(log.NewNopLogger())
	s.sw.bcr = s.bcr
	s.sw.AddReactor("BLOCKCHAIN", s.bcr)
	// the hand-over to consensus is taken at the end of the run (see finish)
	s.bcr.KeepFastSync(true)
	s.start = time.Now()
	if err = s.bcr.Start(); err != nil {
		closeReplica(s.syncer)
		return nil, nil, fmt.Errorf("reactor start: %v", err)
	}
	synctest.Wait() // all requesters have found "no peer" and sleep
	stop = func() {
		kernel.Try(func() { s.bcr.Stop() })
		synctest.Wait()
		// the pool routine parked on a refused commit leaves without running
		// the rest of the sync step
		close(s.app.park)
		synctest.Wait()
		s.sw.Stop()
		closeReplica(s.syncer)
	}
	return s, stop, nil
}

func (s *sim) addPeer(p *peerSim) {
	p.idx = len(s.peers)
	if p.id == "" {
		p.id = fmt.Sprintf("p%d", p.idx)
	}
	p.stub = newStubPeer(p.idx, p.id, s.ob)
	s.peers = append(s.peers, p)
}

func runSync(c *kernel.Ctx, w *world) {
	cfg := w.cfg
	s, stop, err := startNode(c, w)
	if err != nil {
		c.HarnessTrouble("%v", err)
		return
	}
	defer stop()

	// peers
	pt := c.Tape.Fork("peers")
	L := uint64(cfg.L)
	for i := 0; i < cfg.NPeers; i++ {
		p := &peerSim{baseLat: 5 + pt.Int(40)}
		switch {
		case i == 0 && !cfg.ByzOnly:
			p.role, p.have = roleHonest, L
		case cfg.ByzOnly:
			p.role = roleByz
			if pt.Bool(1, 5) {
				p.role = roleStaller
			}
		default:
			switch pt.Pick(3, 5, 1) {
			case 0:
				p.role, p.have = roleHonest, L
				if pt.Bool(1, 3) && L > 3 {
					p.have = 2 + uint64(pt.Int(int(L-2))) // lags
				}
			case 1:
				p.role = roleByz
			default:
				p.role = roleStaller
				p.huge = pt.Bool(1, 2)
			}
		}
		p.slow = pt.Bool(1, 8)
		p.statusMute = p.role != roleHonest && pt.Bool(1, 4)
		s.addPeer(p)
		s.schedule(&event{at: time.Duration(pt.Int(3000)) * time.Millisecond, kind: evConnect, peer: i})
		if pt.Bool(1, 4) {
			s.schedule(&event{at: time.Duration(500+pt.Int(int(cfg.Faulty/time.Millisecond))) * time.Millisecond, kind: evDisconnect, peer: i})
		}
	}
	// Byzantine peers go first more often than not
	if !cfg.ByzOnly && cfg.NPeers > 1 && pt.Bool(2, 3) {
		for _, e := range s.events {
			if e.kind == evConnect && e.peer == 0 {
				e.at += time.Duration(1000+pt.Int(8000)) * time.Millisecond
			}
		}
	}
	c.Finger("fastsync", cfg.L, cfg.NVals, fmt.Sprint(cfg.Powers), cfg.NPeers, cfg.ByzOnly)

	target := L - 1
	ok := s.run(cfg.Faulty, target)
	if ok && !c.Failed() && s.storeHeight() < target && !cfg.ByzOnly {
		// calm phase: everybody but the honest peer with the whole chain is gone
		// for good; that peer reconnects (which also clears requests whose
		// responses were lost) and serves promptly
		s.calm = true
		s.class("calm")
		for _, p := range s.peers {
			if p.idx != 0 || cfg.ByzOnly {
				p.gone = true
			}
		}
		s.events = s.events[:0]
		s.held = nil
		for _, p := range s.peers {
			s.disconnect(p, "calm phase")
		}
		pending := false
		for _, e := range s.events {
			if e.kind == evConnect && e.peer == 0 {
				pending = true
			}
		}
		if !pending {
			s.schedule(&event{at: s.now() + 100*time.Millisecond, kind: evConnect, peer: 0})
		}
		s.settle()
		ok = s.run(s.now()+cfg.Calm, target)
	}
	s.finish(ok, target)
}

func (s *sim) finish(ok bool, target uint64) {
	c := s.c
	note := ""
	if ok && !c.Failed() {
		s.oracle()
	}
	reached := s.storeHeight()
	if !c.Failed() {
		if reached >= target {
			c.Probe("sync-complete")
			// hand-over: let the reactor decide that it has caught up
			s.bcr.KeepFastSync(false)
			time.Sleep(2100 * time.Millisecond)
			c.SimTime(2100 * time.Millisecond)
			s.settle()
			s.cons.mu.Lock()
			switched, st := s.cons.switched, s.cons.status
			s.cons.mu.Unlock()
			if switched {
				c.Probe("switched-to-consensus")
				s.checkHandover(st)
			}
		} else if s.cfg.ByzOnly {
			c.Probe("byz-only-not-advanced")
		} else {
			c.Probe("sync-incomplete")
			note = fmt.Sprintf("sync incomplete: %d of %d", reached, target)
		}
		s.finalOracle()
	}
	acc, _, checks, _ := s.app.snapshot()
	if len(acc) >= 2 && (s.refusals > 0 || s.bogusSent > 0 || s.recvPanics > 0) {
		c.NonTrivial()
	}
	c.Finger(strings.Join(s.classes, ","), reached, len(acc), checks)
	var ps []string
	for _, p := range s.peers {
		r := []string{"honest", "byzantine", "staller"}[p.role]
		if p.role == roleHonest {
			r += fmt.Sprintf("(has %d)", p.have)
		}
		if p.slow {
			r += ",slow"
		}
		ps = append(ps, p.id+":"+r)
	}
	c.Sample(sample{
		Cfg:   fmt.Sprintf("fast-sync part: chain of %d, %d validators %v, %d peers, byzOnly=%v, faulty phase %v", s.cfg.L, s.cfg.NVals, s.cfg.Powers, s.cfg.NPeers, s.cfg.ByzOnly, s.cfg.Faulty),
		Peers: ps, Trace: s.trace, Synced: reached, Target: target, Accepted: len(acc), BogusSent: s.bogusSent, Refusals: s.refusals, Note: note,
	})
	runtime.KeepAlive(s)
}

func (s *sim) checkHandover(st cs.NewStatus) {
	h := st.LastBlockHeight
	if int(h) >= len(s.w.canon) || h == 0 {
		return
	}
	if !st.LastBlockID.Equals(s.w.canon[h].id) {
		s.c.Violate("handover", "fastsync/handover/status-not-canonical", "status handed to consensus names block %v at height %d, canonical is %v", st.LastBlockID, h, s.w.canon[h].id)
		return
	}
	if int(h) < len(s.w.statusAt) && !sameValidators(st, s.w.statusAt[h]) {
		s.c.Violate("handover", "fastsync/handover/validator-set-differs", "validator set (members, powers, proposer priorities) handed to consensus after block %d differs from the producer's after the same block: %v vs %v", h, st.Validators, s.w.statusAt[h].Validators)
	}
}

// step advances virtual time and lets the node settle (scripted scenarios).
func (s *sim) step(d time.Duration) {
	time.Sleep(d)
	s.settle()
}

// pinProcs runs the part on one P. BlockPool.RedoRequest reads
// request.peerID again after removePeer has told the requester's goroutine to
// reset it (another lock): with real parallelism the ID it returns is
// sometimes empty and the peer that served the refused block is then not
// disconnected - an outcome that is not a function of the tape.
//
// The collector is switched off for the duration of the run for the same
// reason: a requester that has taken its redo signal and is parked by a GC
// assist inside the log call before it resets its peer ID gets a second,
// stale signal from the second removePeer of the same peer (the pool removes a
// timed-out peer itself and again when the switch reports the stop): it then
// asks its next peer twice and that peer's pending count never returns to
// zero, so that the pool drops it 40-120 s later for "not sending". Whether
// this happens depends on where the collector is, not on the tape.
func pinProcs() func() {
	prev := runtime.GOMAXPROCS(1)
	gc := debug.SetGCPercent(-1)
	return func() {
		debug.SetGCPercent(gc)
		runtime.GOMAXPROCS(prev)
	}
}

// synctestWait is synctest.Wait for the tests of this package.
func synctestWait() { synctest.Wait() }
