package fastsyncrig

import (
	"bytes"
	"fmt"
	"sort"
	"sync"

	bc "github.com/lianxiangcloud/linkchain/blockchain"
	cs "github.com/lianxiangcloud/linkchain/consensus"
	cmn "github.com/lianxiangcloud/linkchain/libs/common"
	"github.com/lianxiangcloud/linkchain/libs/p2p"
	"github.com/lianxiangcloud/linkchain/libs/ser"
	"github.com/lianxiangcloud/linkchain/types"

	"verif/sim/simnode"
)

// ---------------------------------------------------------------- wire codec
//
// The reactor's message types are unexported; on the wire a message is the
// 7-byte registered-name prefix followed by the plain encoding of the struct.

type wireHeight struct{ Height uint64 }
type wireBlock struct{ Block *types.Block }

func disfix(name string) []byte {
	db, pb := ser.NameToDisfix(name)
	return append(append([]byte{}, db[:]...), pb[:]...)
}

var (
	pfxBlockRequest   = disfix("blockchain/BlockRequest")
	pfxBlockResponse  = disfix("blockchain/BlockResponse")
	pfxNoBlock        = disfix("blockchain/NoBlockResponse")
	pfxStatusResponse = disfix("blockchainl/StatusResponse")
	pfxStatusRequest  = disfix("blockchain/StatusRequest")
)

func encodeHeightMsg(pfx []byte, h uint64) []byte {
	bz, err := ser.EncodeToBytes(&wireHeight{h})
	if err != nil {
		panic("fastsyncrig: encode: " + err.Error())
	}
	return append(append([]byte{}, pfx...), bz...)
}

func encodeBlockResponse(b *types.Block) []byte {
	bz, err := ser.EncodeToBytes(&wireBlock{b})
	if err != nil {
		panic("fastsyncrig: encode block response: " + err.Error())
	}
	return append(append([]byte{}, pfxBlockResponse...), bz...)
}

// decodeOutbound classifies a message the node handed to a peer.
func decodeOutbound(msg []byte) (kind string, height uint64) {
	if len(msg) < 7 {
		return "short", 0
	}
	var m wireHeight
	switch {
	case bytes.Equal(msg[:7], pfxBlockRequest):
		kind = "block-request"
	case bytes.Equal(msg[:7], pfxStatusRequest):
		kind = "status-request"
	case bytes.Equal(msg[:7], pfxStatusResponse):
		kind = "status-response"
	case bytes.Equal(msg[:7], pfxNoBlock):
		kind = "no-block"
	case bytes.Equal(msg[:7], pfxBlockResponse):
		return "block-response", 0
	default:
		return "unknown", 0
	}
	if err := ser.DecodeBytes(msg[7:], &m); err != nil {
		return kind + "-undecodable", 0
	}
	return kind, m.Height
}

// ---------------------------------------------------------------- switch stub

type stopRec struct {
	peer   string
	reason string
}

// netSwitch is a socket-free p2p.P2PManager that behaves like the real switch
// where the blockchain reactor can tell: StopPeerForError removes the peer
// from the peer set and notifies the reactor's RemovePeer synchronously.
type netSwitch struct {
	cmn.BaseService
	mu       sync.Mutex
	peers    map[string]p2p.Peer
	reactors map[string]p2p.Reactor
	stops    []stopRec
	bcr      p2p.Reactor
}

func newNetSwitch() *netSwitch {
	s := &netSwitch{peers: map[string]p2p.Peer{}, reactors: map[string]p2p.Reactor{}}
	s.BaseService = *cmn.NewBaseService(nil, "FastSyncSimSwitch", s)
	s.Start()
	return s
}

func (s *netSwitch) OnStart() error { return nil }
func (s *netSwitch) OnStop()        {}

func (s *netSwitch) addPeer(p p2p.Peer) {
	s.mu.Lock()
	s.peers[p.ID()] = p
	s.mu.Unlock()
}

// dropPeer removes the peer without telling anybody; reports whether it was there.
func (s *netSwitch) dropPeer(id string) bool {
	s.mu.Lock()
	_, ok := s.peers[id]
	delete(s.peers, id)
	s.mu.Unlock()
	return ok
}

func (s *netSwitch) GetByID(id string) p2p.Peer {
	s.mu.Lock()
	defer s.mu.Unlock()
	if p, ok := s.peers[id]; ok {
		return p
	}
	return nil
}

func (s *netSwitch) StopPeerForError(peer p2p.Peer, reason interface{}) {
	if peer == nil {
		return
	}
	id := peer.ID()
	s.mu.Lock()
	_, was := s.peers[id]
	delete(s.peers, id)
	r := fmt.Sprint(reason)
	if len(r) > 160 {
		r = r[:160]
	}
	s.stops = append(s.stops, stopRec{id, r})
	bcr := s.bcr
	s.mu.Unlock()
	if was && bcr != nil {
		bcr.RemovePeer(peer, reason)
	}
}

// takeStops returns and clears the recorded StopPeerForError calls, sorted.
func (s *netSwitch) takeStops() []stopRec {
	s.mu.Lock()
	out := s.stops
	s.stops = nil
	s.mu.Unlock()
	sort.SliceStable(out, func(i, j int) bool {
		if out[i].peer != out[j].peer {
			return out[i].peer < out[j].peer
		}
		return out[i].reason < out[j].reason
	})
	return out
}

func (s *netSwitch) Reactor(name string) p2p.Reactor { return s.reactors[name] }
func (s *netSwitch) AddReactor(name string, r p2p.Reactor) p2p.Reactor {
	s.reactors[name] = r
	return r
}

func (s *netSwitch) sortedPeers() []p2p.Peer {
	s.mu.Lock()
	defer s.mu.Unlock()
	ids := make([]string, 0, len(s.peers))
	for id := range s.peers {
		ids = append(ids, id)
	}
	sort.Strings(ids)
	out := make([]p2p.Peer, 0, len(ids))
	for _, id := range ids {
		out = append(out, s.peers[id])
	}
	return out
}

func (s *netSwitch) Broadcast(chID byte, msg []byte) chan bool {
	ps := s.sortedPeers()
	ch := make(chan bool, len(ps)+1)
	for _, p := range ps {
		ch <- p.Send(chID, msg)
	}
	return ch
}

func (s *netSwitch) BroadcastE(chID byte, except string, msg []byte) chan bool {
	ps := s.sortedPeers()
	ch := make(chan bool, len(ps)+1)
	for _, p := range ps {
		if p.ID() != except {
			ch <- p.Send(chID, msg)
		}
	}
	return ch
}

type netPeerSet struct{ s *netSwitch }

func (ps netPeerSet) HasID(id string) bool       { return ps.s.GetByID(id) != nil }
func (ps netPeerSet) HasIP(ip string) bool       { return false }
func (ps netPeerSet) GetByID(id string) p2p.Peer { return ps.s.GetByID(id) }
func (ps netPeerSet) GetByIP(ip string) p2p.Peer { return nil }
func (ps netPeerSet) List() []p2p.Peer           { return ps.s.sortedPeers() }
func (ps netPeerSet) Size() int {
	ps.s.mu.Lock()
	defer ps.s.mu.Unlock()
	return len(ps.s.peers)
}

func (s *netSwitch) Peers() p2p.IPeerSet         { return netPeerSet{s} }
func (s *netSwitch) LocalNodeInfo() p2p.NodeInfo { return p2p.NodeInfo{Moniker: "syncer"} }
func (s *netSwitch) NumPeers() (outbound, inbound, dialing int) {
	return s.Peers().Size(), 0, 0
}
func (s *netSwitch) MarkBadNode(nodeInfo p2p.NodeInfo) {}
func (s *netSwitch) CloseAllConnection()               {}

var _ p2p.P2PManager = (*netSwitch)(nil)

// ---------------------------------------------------------------- consensus reactor stub

// consStub stands in for the consensus reactor the blockchain reactor hands
// over to; it records the hand-over.
type consStub struct {
	p2p.BaseReactor
	mu       sync.Mutex
	switched bool
	status   cs.NewStatus
	synced   int
	toFast   int
}

func newConsStub() *consStub {
	c := &consStub{}
	c.BaseReactor = *p2p.NewBaseReactor("ConsensusStub", c)
	return c
}

func (c *consStub) SwitchToConsensus(st cs.NewStatus, blocksSynced int) {
	c.mu.Lock()
	c.switched, c.status, c.synced = true, st, blocksSynced
	c.mu.Unlock()
}

func (c *consStub) SwitchToFastSync() {
	c.mu.Lock()
	c.toFast++
	c.mu.Unlock()
}

// ---------------------------------------------------------------- outbox

type outMsg struct {
	peer int
	kind string
	h    uint64
}

// outbox collects what the node sends to its peers (the callbacks run on the
// reactor's goroutines).
type outbox struct {
	mu   sync.Mutex
	msgs []outMsg
}

func (o *outbox) put(m outMsg) {
	o.mu.Lock()
	o.msgs = append(o.msgs, m)
	o.mu.Unlock()
}

// take returns the collected messages in a canonical order (the order in which
// the requesters' goroutines got to send is not a function of the tape).
func (o *outbox) take() []outMsg {
	o.mu.Lock()
	out := o.msgs
	o.msgs = nil
	o.mu.Unlock()
	sort.SliceStable(out, func(i, j int) bool {
		a, b := out[i], out[j]
		if a.peer != b.peer {
			return a.peer < b.peer
		}
		if a.kind != b.kind {
			return a.kind < b.kind
		}
		return a.h < b.h
	})
	return out
}

func newStubPeer(idx int, id string, ob *outbox) *simnode.Peer {
	return simnode.NewPeer(id, func(chID byte, msg []byte) bool {
		if chID != bc.BlockchainChannel {
			ob.put(outMsg{peer: idx, kind: "other-channel"})
			return true
		}
		k, h := decodeOutbound(msg)
		ob.put(outMsg{peer: idx, kind: k, h: h})
		return true
	})
}
