// Package fastsyncrig is the fast-sync part of the C03 check: the real
// BlockchainReactor (fastSync=true) with its real BlockPool, block store,
// BlockExecutor and application of a fresh node, inside one synctest bubble,
// fed by simulated peers (honest, Byzantine, stalling) whose every message is
// delivered by the simulator through Receive(). The oracle is the property
// statement applied to every (block, votes) pair the sync loop hands to
// CommitBlock and to everything found in the block store afterwards.
//
// It is not registered on its own: rigs/c03rig combines it with rigs/votesrig.
package fastsyncrig

import (
	"time"

	"github.com/lianxiangcloud/linkchain/libs/log"

	"verif/sim/kernel"
)

func init() { log.Root().SetHandler(log.DiscardHandler()) }

// Rule describes generation, oracle and non-triviality of the part.
const Rule = "a producer node builds a canonical chain of 3..12 (thorough ..22) blocks with account/contract transactions (txgen), 1-4 (thorough ..7) validators of tape-drawn powers " +
	"(equal, small, one dominant at/around exactly 2/3, totals divisible by 3, large), every block committed by a tape-drawn > 2/3 subset in a tape-drawn common round, plus 0-2 well-formed, executable, never-committed " +
	"alternative blocks per height; a fresh node then fast-syncs from 1-4 (thorough ..5) simulated peers: honest (whole chain or lagging), Byzantine (one attack point per session: " +
	"(a) a never-committed block for H - another proposal (other time / fewer / no transactions), or the canonical block with the recover flag, time or coinbase changed, or the canonical header over another LastCommit or other evidence - followed by the genuine H+1; " +
	"(b) the genuine H followed by an H+1 whose LastCommit is below / exactly at 2/3, mixes rounds, holds prevotes (also relabelled), repeats one validator in every slot, is signed by non-validators (also impersonating), " +
	"for another height or chain, nil-only, bit-flipped, or absent, with or without a recomputed LastCommitHash; (c) a block for another height (near, far); (d) truncated, bit-flipped, trailing, short, unknown-prefix, empty-block or (thorough) oversize bytes; " +
	"(e) a forged fork H,H+1 signed by validators holding < 1/3 or by unknown keys; also silence, 'no such block', and valid variants that must not hurt: another quorum subset / next round, relabelled commit, extra or missing slot, a successor without transactions part, a fabricated successor of the top block) " +
	"and stallers (claims up to 3 above the chain); the simulator owns delivery: it delays, drops and duplicates responses, disconnects and reconnects peers, lets the pool time peers out (40 s rate rule, 120 s silence rule), answers the 10 s status requests " +
	"with tape-chosen claims, lets peers ask the node for status and blocks; after the faulty phase (5-45 s, thorough ..205 s of virtual time) only an honest peer with the whole chain remains (not in the 1-in-10 runs with only Byzantine peers). " +
	"After EVERY delivered message and every 100 ms step: every (block, votes) pair handed to CommitBlock must be a commit by the rig's own reading of the statement (> 2/3 of the power of the set in force, signers identified by crypto/ed25519 verification over the sign-bytes of a reference " +
	"precommit for exactly that block id, height, one round, this chain id; each validator once per round; math/big threshold) and the block must be the canonical one; every stored block is byte-identical to the canonical block, its seen-commit and block-commit " +
	"are commits; at the end execution results (state hash, receipt hash, gas, trie root) and the consensus status equal the producer's, and the status handed to the consensus reactor names the canonical block and carries the producer's validator set incl. proposer priorities. " +
	"Two survivable probes per process (VerifyCommit(nil); refused recover-flag block, status read through the hand-over) report the two process-killing defects found with this rig under stable keys instead of generating their inputs. " +
	"Non-trivial: >= 2 blocks were committed through the reactor and >= 1 bogus response was sent or refused. Fingerprint: configuration + sequence of event classes + final height."

// Real lists what runs real code.
var Real = []string{"fast-sync part: blockchain.BlockchainReactor (Receive, poolRoutine, statusUpdateRoutine, AddPeer/RemovePeer) and blockchain.BlockPool/bpRequester/bpPeer with their real tickers and timers on the bubble's clock",
	"fast-sync part: blockchain.BlockStore, consensus.BlockExecutor.ApplyBlock (validateBlock), app.LinkApplication (CheckBlock, CommitBlock), state/EVM, wire codec of blocks (libs/ser), types.ValidatorSet.VerifyCommit at the poolRoutine call site"}

// Stub lists what is simulated.
var Stub = []string{"fast-sync part: p2p switch and peers (StopPeerForError removes the peer and calls RemovePeer like the real switch; a panic of Receive is recovered and stops the peer like MConnection's recvRoutine), the remote nodes, the consensus reactor (records SwitchToConsensus), SimDB",
	"fast-sync part: block production outside consensus (txgen.Replica: CreateBlock/PreRunBlock, precommits signed with the genesis keys)"}

// Assumptions of the part.
var Assumptions = []string{
	"fast-sync part: validators holding > 2/3 of the power sign precommits only for canonical blocks; the adversary controls validators holding < 1/3 and any number of non-validator keys (so at every height exactly one block can have a commit); ed25519 is unforgeable",
	"fast-sync part: the validator set is the genesis set throughout (white list, no elections); KeepFastSync(true) during the run, the hand-over to consensus is taken at the end (IsCaughtUp racing the sync ticker at whole seconds is not a function of the tape)",
	"fast-sync part: BlockPool picks among equally loaded peers in Go map order: the simulator lets a second peer become eligible only when the first one has taken all heights it can serve, and never a third (otherwise the assignment of heights to peers would not be a function of the tape); responses are bound to (peer, height), so cross-peer pairs (H from A, H+1 from B) arise only through hand-over after a removal or through a higher claim",
	"fast-sync part: liveness (sync completes once only an honest peer remains) and 'a refused peer is dropped' are reported as probes (sync-complete / sync-incomplete, peer-stopped-*), not as violations: the statement is about what may be accepted",
	"fast-sync part: a run executes on one P with the collector off (GOMAXPROCS(1), SetGCPercent(-1), restored afterwards): BlockPool.RedoRequest re-reads request.peerID after removePeer has told the requester to reset it, and a requester parked between taking its redo signal and resetting gets a stale second signal from the second removePeer of the same peer - both outcomes depend on the scheduler, not on the tape; messages are delivered 5-45 ms after a multiple of 100 ms of the node's life so that no message arrives at an instant at which two of the reactor's tickers are due (select picks at random); identical requests observed at one instant are answered once",
}

// Describe returns the part as a rig of its own (tests, diagnostics).
func Describe() *kernel.Rig {
	return &kernel.Rig{
		Property: "C03", Name: "fastsync", Level: "exploration",
		Rule: Rule, Real: Real, Stub: Stub, Assumptions: Assumptions,
		QuickRuns: 400, ThoroughRuns: 20000, QuickBudget: 50 * time.Second, ThoroughBudget: 15 * time.Minute,
		RunsPerProcess: 200, RunTimeout: 300 * time.Second,
		Run: Run,
	}
}
