// Package c04rig is the composite C04 check: the FilePV-level fault
// enumeration (privvalrig) and the node-level part (c04cluster). The first
// draw of stream "part" selects which part a run executes.
package c04rig

import (
	"time"

	"verif/sim/kernel"
	"verif/sim/rigs/c04cluster"
	"verif/sim/rigs/privvalrig"
)

// Rig returns the composite rig.
func Rig() *kernel.Rig {
	r := privvalrig.Describe()
	lib := r.Run
	r.Name = "privval+R-cluster/signer"
	r.Rule = "part A (9 of 10 runs): " + r.Rule + " || part B (1 of 10 runs, exploration within this check): a 4-7 node cluster as in C01 with the real WAL, 2-6 crashes per run (at event boundaries, k database writes into the next write sequence, or at the next signing request before it is served), restarts with WAL catch-up replay, and at half of the restarts the WAL found truncated at a tape-chosen offset or gone; every call of the signing interface incl. SignVoteWithoutSave is recorded; per validator key at most one distinct payload per (height, round, step) over all incarnations"
	r.Real = append(r.Real, "node-level part: real ConsensusState, catchupReplay, WAL, FilePV, reactor inbound path, application and stores (see C01)")
	r.Stub = append(r.Stub, "node-level part: ticker, gossip routines, switch, SimDB (see C01)")
	r.RunsPerProcess = 300
	r.RunTimeout = 600 * time.Second
	r.Run = func(c *kernel.Ctx) {
		if c.Tape.Fork("part").Int(10) == 0 {
			c.Finger("cluster")
			c04cluster.Run(c)
			return
		}
		lib(c)
	}
	return r
}
