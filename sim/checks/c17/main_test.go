package c17

import (
	"testing"

	"verif/sim/kernel"
	"verif/sim/rigs/c17rig"
)

func init() { kernel.Register(c17rig.Rig()) }

func TestMain(m *testing.M) { kernel.Main(m, "C17") }
func TestSim(t *testing.T)  { kernel.Worker(t, "C17") }
