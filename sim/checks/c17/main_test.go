package c17

import (
	"testing"

	"verif/sim/kernel"
	_ "verif/sim/rigs/valsetrig"
)

func TestMain(m *testing.M) { kernel.Main(m, "C17") }
func TestSim(t *testing.T)  { kernel.Worker(t, "C17") }
