package c06

import (
	"testing"

	"verif/sim/kernel"
	_ "verif/sim/rigs/ledgerrig"
)

func TestMain(m *testing.M) { kernel.Main(m, "C06") }
func TestSim(t *testing.T)  { kernel.Worker(t, "C06") }
