package c20

import (
	"testing"

	"verif/sim/kernel"
	_ "verif/sim/rigs/evmrig"
)

func TestMain(m *testing.M) { kernel.Main(m, "C20") }
func TestSim(t *testing.T)  { kernel.Worker(t, "C20") }
