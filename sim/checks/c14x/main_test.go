package c14x

import (
	"testing"

	"verif/sim/kernel"
	"verif/sim/rigs/c14cluster"
)

func init() { kernel.Register(c14cluster.Standalone()) }

func TestMain(m *testing.M) { kernel.Main(m, "C14") }
func TestSim(t *testing.T)  { kernel.Worker(t, "C14") }
