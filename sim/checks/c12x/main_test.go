package c12x

import (
	"testing"

	"verif/sim/kernel"
	"verif/sim/rigs/c12cluster"
)

func init() { kernel.Register(c12cluster.Standalone()) }

func TestMain(m *testing.M) { kernel.Main(m, "C12") }
func TestSim(t *testing.T)  { kernel.Worker(t, "C12") }
