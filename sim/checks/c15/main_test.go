package c15

import (
	"testing"

	"verif/sim/kernel"
	_ "verif/sim/rigs/mempoolrig"
)

func TestMain(m *testing.M) { kernel.Main(m, "C15") }
func TestSim(t *testing.T)  { kernel.Worker(t, "C15") }
