package c02

import (
	"testing"

	"verif/sim/kernel"
	_ "verif/sim/rigs/c02rig"
)

func TestMain(m *testing.M) { kernel.Main(m, "C02") }
func TestSim(t *testing.T)  { kernel.Worker(t, "C02") }
