package selftest

import (
	"os"
	"testing"

	"verif/sim/kernel"
)

// Kernel self-test: a toy rig whose "property" (no 7 directly after a 3 in a
// sequence of draws) is violated for some seeds when VERIF_SELFTEST_BREAK=1;
// used to exercise violation -> shrink -> replay file -> fresh-process replay.
func init() {
	kernel.Register(&kernel.Rig{
		Property: "C00", Name: "selftest", Level: "exploration",
		Rule:      "toy: sequences of 40 draws in [0,10); non-trivial if a 3 is drawn",
		QuickRuns: 200, QuickBudget: 20e9, ThoroughRuns: 2000, ThoroughBudget: 60e9,
		OnCrash: func(log string) (string, string, string, bool) {
			v, site := kernel.CrashSite(log, "verif/sim/checks/")
			if site == "" {
				return "", "", "", false
			}
			return "process-crash", "toy/crash/" + site, "the process died: " + v, true
		},
		Run: func(c *kernel.Ctx) {
			ops := c.Tape.Fork("ops")
			prev := -1
			for i := 0; i < 40; i++ {
				v := ops.Int(10)
				c.Event(1)
				c.Finger(v)
				if v == 3 {
					c.NonTrivial()
				}
				if os.Getenv("VERIF_SELFTEST_CRASH") == "1" && prev == 9 && v == 9 && i > 30 {
					// a goroutine of the "code under test" dies: the process goes down
					done := make(chan struct{})
					go func() { defer close(done); crashSite(i) }()
					<-done
				}
				if os.Getenv("VERIF_SELFTEST_BREAK") == "1" && prev == 3 && v == 7 {
					c.Violate("toy", "toy/3-then-7", "7 after 3 at step %d", i)
					return
				}
				prev = v
			}
			c.Sample(map[string]int{"last": prev})
		},
	})
}

func TestMain(m *testing.M) { kernel.Main(m, "C00") }
func TestSim(t *testing.T)  { kernel.Worker(t, "C00") }

func crashSite(i int) { panic("toy crash") }
