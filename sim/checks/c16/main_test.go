package c16

import (
	"testing"

	"verif/sim/kernel"
	_ "verif/sim/rigs/c16rig"
)

func TestMain(m *testing.M) { kernel.Main(m, "C16") }
func TestSim(t *testing.T)  { kernel.Worker(t, "C16") }
