package c04x

import (
	"testing"

	"verif/sim/kernel"
	"verif/sim/rigs/c04cluster"
)

func init() { kernel.Register(c04cluster.Standalone()) }

func TestMain(m *testing.M) { kernel.Main(m, "C04") }
func TestSim(t *testing.T)  { kernel.Worker(t, "C04") }
