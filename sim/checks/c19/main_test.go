package c19

import (
	"testing"

	"verif/sim/kernel"
	"verif/sim/rigs/dbrig"
)

func TestMain(m *testing.M) {
	// child side of the badger batch-reuse scenario (runs a scenario that can
	// kill the process; see rigs/dbrig/child.go)
	if dbrig.MaybeChild() {
		return
	}
	kernel.Main(m, "C19")
}

func TestSim(t *testing.T) { kernel.Worker(t, "C19") }
