package c11

import (
	"testing"

	"verif/sim/kernel"
	_ "verif/sim/rigs/serrig"
)

func TestMain(m *testing.M) { kernel.Main(m, "C11") }
func TestSim(t *testing.T)  { kernel.Worker(t, "C11") }
