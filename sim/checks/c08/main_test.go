package c08

import (
	"testing"

	"verif/sim/kernel"
	_ "verif/sim/rigs/signrig"
)

func TestMain(m *testing.M) { kernel.Main(m, "C08") }
func TestSim(t *testing.T)  { kernel.Worker(t, "C08") }
