package c12

import (
	"testing"

	"verif/sim/kernel"
	_ "verif/sim/rigs/partsrig"
)

func TestMain(m *testing.M) { kernel.Main(m, "C12") }
func TestSim(t *testing.T)  { kernel.Worker(t, "C12") }
