package c13

import (
	"testing"

	"verif/sim/kernel"
	_ "verif/sim/rigs/crashrig"
)

func TestMain(m *testing.M) { kernel.Main(m, "C13") }
func TestSim(t *testing.T)  { kernel.Worker(t, "C13") }
