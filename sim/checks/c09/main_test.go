package c09

import (
	"testing"

	"verif/sim/kernel"
	_ "verif/sim/rigs/staterig"
)

func TestMain(m *testing.M) { kernel.Main(m, "C09") }
func TestSim(t *testing.T)  { kernel.Worker(t, "C09") }
