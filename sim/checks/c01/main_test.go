package c01

import (
	"testing"

	"verif/sim/kernel"
	_ "verif/sim/rigs/c01rig"
)

func TestMain(m *testing.M) { kernel.Main(m, "C01") }
func TestSim(t *testing.T)  { kernel.Worker(t, "C01") }
