package c07

import (
	"testing"

	"verif/sim/kernel"
	_ "verif/sim/rigs/spendrig"
)

func TestMain(m *testing.M) { kernel.Main(m, "C07") }
func TestSim(t *testing.T)  { kernel.Worker(t, "C07") }
