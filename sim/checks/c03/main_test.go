package c03

import (
	"testing"

	"verif/sim/kernel"
	_ "verif/sim/rigs/votesrig"
)

func TestMain(m *testing.M) { kernel.Main(m, "C03") }
func TestSim(t *testing.T)  { kernel.Worker(t, "C03") }
