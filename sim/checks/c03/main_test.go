package c03

import (
	"testing"

	"verif/sim/kernel"
	"verif/sim/rigs/c03rig"
)

func init() { kernel.Register(c03rig.Rig()) }

func TestMain(m *testing.M) { kernel.Main(m, "C03") }
func TestSim(t *testing.T)  { kernel.Worker(t, "C03") }
