package c04

import (
	"testing"

	"verif/sim/kernel"
	_ "verif/sim/rigs/privvalrig"
)

func TestMain(m *testing.M) { kernel.Main(m, "C04") }
func TestSim(t *testing.T)  { kernel.Worker(t, "C04") }
