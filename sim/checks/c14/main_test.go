package c14

import (
	"testing"

	"verif/sim/kernel"
	_ "verif/sim/rigs/walrig"
)

func TestMain(m *testing.M) { kernel.Main(m, "C14") }
func TestSim(t *testing.T)  { kernel.Worker(t, "C14") }
