package c05

import (
	"testing"

	"verif/sim/kernel"
	_ "verif/sim/rigs/execrig"
)

func TestMain(m *testing.M) { kernel.Main(m, "C05") }
func TestSim(t *testing.T)  { kernel.Worker(t, "C05") }
