package c10

import (
	"testing"

	"verif/sim/kernel"
	_ "verif/sim/rigs/trierig"
)

func TestMain(m *testing.M) { kernel.Main(m, "C10") }
func TestSim(t *testing.T)  { kernel.Worker(t, "C10") }
