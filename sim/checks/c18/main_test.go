package c18

import (
	"testing"

	"verif/sim/kernel"
	_ "verif/sim/rigs/connrig"
)

func TestMain(m *testing.M) { kernel.Main(m, "C18") }
func TestSim(t *testing.T)  { kernel.Worker(t, "C18") }
