package c17x

import (
	"testing"

	"verif/sim/kernel"
	"verif/sim/rigs/c17cluster"
)

func init() { kernel.Register(c17cluster.Standalone()) }

func TestMain(m *testing.M) { kernel.Main(m, "C17") }
func TestSim(t *testing.T)  { kernel.Worker(t, "C17") }
