// Additions to the copied Go 1.23 crypto/internal/edwards25519 package that the
// pure-Go xcrypto model (Monero-style crypto-ops) needs. Everything in this
// file is variable time; none of it is meant to protect secrets against side
// channels (it is used by a simulator, never by a production wallet).

package ed25519x

import (
	"errors"

	"verif/sim/ed25519x/field"
)

// fieldPrimeLE is p = 2^255-19, little endian.
var fieldPrimeLE = [32]byte{
	0xed, 0xff, 0xff, 0xff, 0xff, 0xff, 0xff, 0xff, 0xff, 0xff, 0xff, 0xff, 0xff, 0xff, 0xff, 0xff,
	0xff, 0xff, 0xff, 0xff, 0xff, 0xff, 0xff, 0xff, 0xff, 0xff, 0xff, 0xff, 0xff, 0xff, 0xff, 0x7f,
}

// groupOrderLE is l = 2^252 + 27742317777372353535851937790883648493, little endian.
var groupOrderLE = [32]byte{
	0xed, 0xd3, 0xf5, 0x5c, 0x1a, 0x63, 0x12, 0x58, 0xd6, 0x9c, 0xf7, 0xa2, 0xde, 0xf9, 0xde, 0x14,
	0x00, 0x00, 0x00, 0x00, 0x00, 0x00, 0x00, 0x00, 0x00, 0x00, 0x00, 0x00, 0x00, 0x00, 0x00, 0x10,
}

// lessLE reports a < b for 32-byte little-endian integers.
func lessLE(a, b *[32]byte) bool {
	for i := 31; i >= 0; i-- {
		if a[i] != b[i] {
			return a[i] < b[i]
		}
	}
	return false
}

// SetBytesMonero decodes a compressed point with exactly the acceptance rules
// of Monero's ge_frombytes_vartime: the y coordinate must be canonical (< p),
// the point must be on the curve, and the encoding "x = 0 with sign bit set"
// is rejected. (Go's SetBytes accepts both kinds of non-canonical encodings.)
// On error the receiver is unchanged.
func (v *Point) SetBytesMonero(x []byte) (*Point, error) {
	if len(x) != 32 {
		return nil, errors.New("ed25519x: invalid point encoding length")
	}
	var y [32]byte
	copy(y[:], x)
	y[31] &= 0x7f
	if !lessLE(&y, &fieldPrimeLE) {
		return nil, errors.New("ed25519x: non-canonical y coordinate")
	}
	var p Point
	if _, err := p.SetBytes(x); err != nil {
		return nil, err
	}
	if x[31]>>7 == 1 && p.x.Equal(new(field.Element).Zero()) == 1 {
		return nil, errors.New("ed25519x: x = 0 with sign bit set")
	}
	*v = p
	return v, nil
}

// Bytes32 returns the canonical encoding of v as an array.
func (v *Point) Bytes32() (out [32]byte) {
	v.bytes(&out)
	return out
}

// Double sets v = 2*p.
func (v *Point) Double(p *Point) *Point {
	checkInitialized(p)
	var p2 projP2
	var t projP1xP1
	p2.FromP3(p)
	t.Double(&p2)
	return v.fromP1xP1(&t)
}

// MultByCofactor sets v = 8*p.
func (v *Point) MultByCofactor(p *Point) *Point {
	checkInitialized(p)
	var p2 projP2
	var t projP1xP1
	p2.FromP3(p)
	t.Double(&p2)
	p2.FromP1xP1(&t)
	t.Double(&p2)
	p2.FromP1xP1(&t)
	t.Double(&p2)
	return v.fromP1xP1(&t)
}

// IsIdentity reports whether v is the neutral element.
func (v *Point) IsIdentity() bool {
	return v.Equal(identity) == 1
}

// IsCanonicalScalar reports whether the 32-byte little-endian integer is < l
// (Monero sc_check == 0).
func IsCanonicalScalar(k *[32]byte) bool {
	return lessLE(k, &groupOrderLE)
}

// VarTimeScalarMult sets v = s*p (variable time).
func (v *Point) VarTimeScalarMult(s *Scalar, p *Point) *Point {
	checkInitialized(p)
	var tbl nafLookupTable5
	tbl.FromP3(p)
	naf := s.nonAdjacentForm(5)
	i := 255
	for ; i >= 0; i-- {
		if naf[i] != 0 {
			break
		}
	}
	mult := &projCached{}
	tmp1 := &projP1xP1{}
	tmp2 := &projP2{}
	tmp2.Zero()
	var acc Point
	for ; i >= 0; i-- {
		tmp1.Double(tmp2)
		if naf[i] > 0 {
			acc.fromP1xP1(tmp1)
			tbl.SelectInto(mult, naf[i])
			tmp1.Add(&acc, mult)
		} else if naf[i] < 0 {
			acc.fromP1xP1(tmp1)
			tbl.SelectInto(mult, -naf[i])
			tmp1.Sub(&acc, mult)
		}
		tmp2.FromP1xP1(tmp1)
	}
	return v.fromP2(tmp2)
}

// VarTimeScalarMultInt sets v = k*p where k is an ARBITRARY 256-bit
// little-endian integer that is NOT reduced modulo the group order. This is
// what Monero's ge_scalarmult computes and it matters for points outside the
// prime-order subgroup (e.g. the key-image check l*I == identity).
func (v *Point) VarTimeScalarMultInt(k *[32]byte, p *Point) *Point {
	checkInitialized(p)
	if IsCanonicalScalar(k) {
		var s Scalar
		if _, err := s.SetCanonicalBytes(k[:]); err == nil {
			return v.VarTimeScalarMult(&s, p)
		}
	}
	var pc projCached
	pc.FromP3(p)
	acc := NewIdentityPoint()
	var t projP1xP1
	var p2 projP2
	started := false
	for i := 255; i >= 0; i-- {
		if started {
			p2.FromP3(acc)
			t.Double(&p2)
			acc.fromP1xP1(&t)
		}
		if (k[i>>3]>>(uint(i)&7))&1 == 1 {
			t.Add(acc, &pc)
			acc.fromP1xP1(&t)
			started = true
		}
	}
	return v.Set(acc)
}

// VarTimeScalarMultMonero sets v to exactly what Monero's ge_scalarmult(a, A)
// computes, for EVERY 32-byte input a.
//
// ge_scalarmult recodes a into 64 signed radix-16 digits e[0..63] and is only
// specified for a[31] <= 127, where e[63] <= 8 and the result is the integer
// product a*A (a is not reduced mod l). For larger inputs the top digit can be
// 9..16; the constant-time table lookup then selects no entry and adds the
// identity, i.e. the top digit is silently dropped. linkchain's tests feed such
// values (point encodings used as scalars), so the behaviour is reproduced.
func (v *Point) VarTimeScalarMultMonero(a *[32]byte, A *Point) *Point {
	checkInitialized(A)
	if a[31] <= 127 {
		return v.VarTimeScalarMultInt(a, A)
	}
	var e [64]int
	carry := 0
	for i := 0; i < 31; i++ {
		carry += int(a[i])
		carry2 := (carry + 8) >> 4
		e[2*i] = carry - (carry2 << 4)
		carry = (carry2 + 8) >> 4
		e[2*i+1] = carry2 - (carry << 4)
	}
	carry += int(a[31])
	carry2 := (carry + 8) >> 4
	e[62] = carry - (carry2 << 4)
	e[63] = carry2
	if e[63] > 8 {
		e[63] = 0 // no table entry matches: the identity is added
	}
	// multiples 1*A .. 8*A
	var table [8]projCached
	table[0].FromP3(A)
	var t projP1xP1
	var u Point
	for i := 0; i < 7; i++ {
		t.Add(A, &table[i])
		u.fromP1xP1(&t)
		table[i+1].FromP3(&u)
	}
	acc := NewIdentityPoint()
	var p2 projP2
	for i := 63; i >= 0; i-- {
		for k := 0; k < 4; k++ {
			p2.FromP3(acc)
			t.Double(&p2)
			acc.fromP1xP1(&t)
		}
		switch d := e[i]; {
		case d > 0:
			t.Add(acc, &table[d-1])
			acc.fromP1xP1(&t)
		case d < 0:
			t.Sub(acc, &table[-d-1])
			acc.fromP1xP1(&t)
		}
	}
	return v.Set(acc)
}

// VarTimeDoubleScalarMult sets v = a*A + b*B for arbitrary points A and B
// (variable time).
func (v *Point) VarTimeDoubleScalarMult(a *Scalar, A *Point, b *Scalar, B *Point) *Point {
	return v.VarTimeMultiScalarMult([]*Scalar{a, b}, []*Point{A, B})
}

// VarTimeMultiScalarMult sets v = sum(scalars[i] * points[i]) (variable time,
// Straus interleaving with width-5 NAFs).
func (v *Point) VarTimeMultiScalarMult(scalars []*Scalar, points []*Point) *Point {
	if len(scalars) != len(points) {
		panic("ed25519x: VarTimeMultiScalarMult: length mismatch")
	}
	checkInitialized(points...)
	n := len(points)
	tables := make([]nafLookupTable5, n)
	nafs := make([][256]int8, n)
	top := -1
	for i := 0; i < n; i++ {
		tables[i].FromP3(points[i])
		nafs[i] = scalars[i].nonAdjacentForm(5)
		for j := 255; j > top; j-- {
			if nafs[i][j] != 0 {
				top = j
				break
			}
		}
	}
	mult := &projCached{}
	tmp1 := &projP1xP1{}
	tmp2 := &projP2{}
	tmp2.Zero()
	var acc Point
	for i := top; i >= 0; i-- {
		tmp1.Double(tmp2)
		for j := 0; j < n; j++ {
			d := nafs[j][i]
			if d > 0 {
				acc.fromP1xP1(tmp1)
				tables[j].SelectInto(mult, d)
				tmp1.Add(&acc, mult)
			} else if d < 0 {
				acc.fromP1xP1(tmp1)
				tables[j].SelectInto(mult, -d)
				tmp1.Sub(&acc, mult)
			}
		}
		tmp2.FromP1xP1(tmp1)
	}
	return v.fromP2(tmp2)
}

// Invert sets s = 1/t mod l (t must be non-zero; 1/0 yields 0).
func (s *Scalar) Invert(t *Scalar) *Scalar {
	// Fermat: t^(l-2).
	var e [32]byte
	copy(e[:], groupOrderLE[:])
	e[0] -= 2 // 0xed - 2, no borrow
	var one [32]byte
	one[0] = 1
	acc := new(Scalar)
	if _, err := acc.SetCanonicalBytes(one[:]); err != nil {
		panic(err)
	}
	base := new(Scalar).Set(t)
	for i := 252; i >= 0; i-- {
		acc.Multiply(acc, acc)
		if (e[i>>3]>>(uint(i)&7))&1 == 1 {
			acc.Multiply(acc, base)
		}
	}
	return s.Set(acc)
}

// ---------------------------------------------------------------------------
// Monero hash-to-point (ge_fromfe_frombytes_vartime from crypto-ops.c).

var (
	feMA     = new(field.Element) // -A, A = 486662
	feMA2    = new(field.Element) // -A^2
	feSqrtM1 = new(field.Element) // sqrt(-1)
	feFFFB1  = new(field.Element) // sqrt(-2*A*(A+2))
	feFFFB2  = new(field.Element) // sqrt(2*A*(A+2))
	feFFFB3  = new(field.Element) // sqrt(-sqrt(-1)*A*(A+2))
	feFFFB4  = new(field.Element) // sqrt(sqrt(-1)*A*(A+2))
)

func feFromUint64(x uint64) *field.Element {
	var b [32]byte
	for i := 0; i < 8; i++ {
		b[i] = byte(x >> (8 * uint(i)))
	}
	e, err := new(field.Element).SetBytes(b[:])
	if err != nil {
		panic(err)
	}
	return e
}

func mustSqrt(x *field.Element, name string) *field.Element {
	r, ok := new(field.Element).SqrtRatio(x, new(field.Element).One())
	if ok != 1 {
		panic("ed25519x: constant " + name + " is not a square")
	}
	return r
}

func init() {
	// The signs of the square-root constants are irrelevant: every use is
	// followed by an explicit sign normalisation of X (see setsign below),
	// and exchanging sqrt(-1) for its negative swaps fffb3/fffb4 together
	// with the branch that selects between them.
	a := feFromUint64(486662)
	feMA.Negate(a)
	feMA2.Square(a)
	feMA2.Negate(feMA2)
	feSqrtM1.Set(mustSqrt(new(field.Element).Negate(new(field.Element).One()), "sqrtm1"))
	a2 := new(field.Element).Add(a, feFromUint64(2)) // A+2
	aa2 := new(field.Element).Multiply(a, a2)        // A(A+2)
	two := new(field.Element).Add(aa2, aa2)          // 2A(A+2)
	feFFFB2.Set(mustSqrt(two, "fffb2"))
	feFFFB1.Set(mustSqrt(new(field.Element).Negate(two), "fffb1"))
	iaa2 := new(field.Element).Multiply(feSqrtM1, aa2)
	feFFFB4.Set(mustSqrt(iaa2, "fffb4"))
	feFFFB3.Set(mustSqrt(new(field.Element).Negate(iaa2), "fffb3"))
}

// feDivPowM1 sets r = u * v^3 * (u*v^7)^((p-5)/8) (crypto-ops fe_divpowm1).
func feDivPowM1(r, u, v *field.Element) {
	var v3, uv7, t0 field.Element
	v3.Square(v)
	v3.Multiply(&v3, v) // v^3
	uv7.Square(&v3)
	uv7.Multiply(&uv7, v)
	uv7.Multiply(&uv7, u) // u*v^7
	t0.Pow22523(&uv7)
	t0.Multiply(&t0, &v3)
	r.Multiply(&t0, u)
}

func feIsNonZero(x *field.Element) bool {
	return x.Equal(new(field.Element).Zero()) != 1
}

// SetMoneroHashToPointRaw maps the 32 bytes s (interpreted as a 256-bit
// little-endian integer reduced mod p, top bit included) to a curve point
// exactly like Monero's ge_fromfe_frombytes_vartime. The result is NOT yet
// multiplied by the cofactor; hash_to_ec / hashToPoint multiply by 8 after.
func (r *Point) SetMoneroHashToPointRaw(s *[32]byte) *Point {
	var u, v, w, x, y, z, rX field.Element

	// u = s mod p, where all 256 bits of s count (field.SetBytes drops bit 255,
	// which is worth 2^255 = 19 mod p).
	if _, err := u.SetBytes(s[:]); err != nil {
		panic(err)
	}
	if s[31]>>7 == 1 {
		u.Add(&u, feFromUint64(19))
	}

	v.Square(&u)
	v.Add(&v, &v) // 2u^2
	w.One()
	w.Add(&v, &w)           // w = 2u^2+1
	x.Square(&w)            // w^2
	y.Multiply(feMA2, &v)   // -2A^2u^2
	x.Add(&x, &y)           // x = w^2 - 2A^2u^2
	feDivPowM1(&rX, &w, &x) // (w/x)^((p+3)/8)
	y.Square(&rX)
	x.Multiply(&y, &x)
	y.Subtract(&w, &x)
	z.Set(feMA)
	sign := 0
	negative := false
	if feIsNonZero(&y) {
		y.Add(&w, &x)
		if feIsNonZero(&y) {
			negative = true
		} else {
			rX.Multiply(&rX, feFFFB1)
		}
	} else {
		rX.Multiply(&rX, feFFFB2)
	}
	if !negative {
		rX.Multiply(&rX, &u) // u*sqrt(2A(A+2)w/x)
		z.Multiply(&z, &v)   // -2Au^2
		sign = 0
	} else {
		x.Multiply(&x, feSqrtM1)
		y.Subtract(&w, &x)
		if feIsNonZero(&y) {
			y.Add(&w, &x)
			if feIsNonZero(&y) {
				panic("ed25519x: hash-to-point: impossible branch")
			}
			rX.Multiply(&rX, feFFFB3)
		} else {
			rX.Multiply(&rX, feFFFB4)
		}
		// rX = sqrt(A(A+2)w/x), z = -A
		sign = 1
	}
	if rX.IsNegative() != sign {
		rX.Negate(&rX)
	}
	var p2 projP2
	p2.Z.Add(&z, &w)
	p2.Y.Subtract(&z, &w)
	p2.X.Multiply(&rX, &p2.Z)
	return r.fromP2(&p2)
}
