// Copyright (c) 2021 The Go Authors. All rights reserved.
// Use of this source code is governed by a BSD-style
// license that can be found in the LICENSE file.

// Package edwards25519 implements group logic for the twisted Edwards curve
//
//	-x^2 + y^2 = 1 + -(121665/121666)*x^2*y^2
//
// This is better known as the Edwards curve equivalent to Curve25519, and is
// the curve used by the Ed25519 signature scheme.
//
// Most users don't need this package, and should instead use crypto/ed25519 for
// signatures, golang.org/x/crypto/curve25519 for Diffie-Hellman, or
// github.com/gtank/ristretto255 for prime order group logic.
//
// However, developers who do need to interact with low-level edwards25519
// operations can use filippo.io/edwards25519, an extended version of this
// package repackaged as an importable module.
//
// (Note that filippo.io/edwards25519 and github.com/gtank/ristretto255 are not
// maintained by the Go team and are not covered by the Go 1 Compatibility Promise.)
package ed25519x
