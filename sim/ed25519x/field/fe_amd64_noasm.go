// Copyright (c) 2019 The Go Authors. All rights reserved.
// Use of this source code is governed by a BSD-style
// license that can be found in the LICENSE file.

//go:build !amd64 || purego

package field

func feMul(v, x, y *Element) { feMulGeneric(v, x, y) }

func feSquare(v, x *Element) { feSquareGeneric(v, x) }
