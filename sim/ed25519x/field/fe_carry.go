// Copyright (c) 2021 The Go Authors. All rights reserved.
// Use of this source code is governed by a BSD-style
// license that can be found in the LICENSE file.

package field

// The arm64 assembly of carryPropagate is not carried over; the generic
// implementation is used on every platform.
func (v *Element) carryPropagate() *Element {
	return v.carryPropagateGeneric()
}
