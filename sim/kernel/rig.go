package kernel

import (
	"crypto/sha256"
	"encoding/hex"
	"fmt"
	"sort"
	"testing"
	"time"
)

// Tier selects the depth of a run.
type Tier string

const (
	Quick    Tier = "quick"
	Thorough Tier = "thorough"
)

// Violation is one failure of a property's oracle.
type Violation struct {
	// Class is the stable kind of the violation ("agreement", "double-sign",
	// "panic", ...). Shrinking keeps the class.
	Class string `json:"class"`
	// Key identifies the specific input / call site / history signature; it is
	// what the known-findings file matches on. Must be deterministic.
	Key string `json:"key"`
	// Message is free text for humans.
	Message string `json:"message"`
}

func (v *Violation) String() string {
	return fmt.Sprintf("%s [%s]: %s", v.Class, v.Key, v.Message)
}

// Ctx is what a rig's run receives.
type Ctx struct {
	T     *testing.T // for synctest bubbles
	Tape  *Tape
	Tier  Tier
	Prop  string
	known map[string]string // key -> what; read-only

	res *Result
	fp  []byte
}

// Result is what one run reports.
type Result struct {
	Seed       uint64         `json:"seed"`
	Violations []*Violation   `json:"violations,omitempty"`
	Known      []*Violation   `json:"known,omitempty"`
	NonTrivial bool           `json:"nontrivial"`
	Finger     string         `json:"finger"`
	Faults     map[string]int `json:"faults,omitempty"`
	Probes     map[string]int `json:"probes,omitempty"`
	SimTimeMs  int64          `json:"sim_ms"`
	Events     int            `json:"events"`
	Evals      int            `json:"evals"`
	Sample     interface{}    `json:"sample,omitempty"`
	Harness    string         `json:"harness,omitempty"` // harness trouble (exit 2), never a violation
	WallMs     int64          `json:"wall_ms"`
}

// Fault counts one injected fault that actually fired.
func (c *Ctx) Fault(kind string) { c.FaultN(kind, 1) }

// FaultN counts n fired faults.
func (c *Ctx) FaultN(kind string, n int) {
	if c.res.Faults == nil {
		c.res.Faults = map[string]int{}
	}
	c.res.Faults[kind] += n
}

// Probe counts one reach of a rare branch.
func (c *Ctx) Probe(name string) { c.ProbeN(name, 1) }

// ProbeN counts n reaches.
func (c *Ctx) ProbeN(name string, n int) {
	if c.res.Probes == nil {
		c.res.Probes = map[string]int{}
	}
	c.res.Probes[name] += n
}

// Event counts simulated events (deliveries, operations, steps).
func (c *Ctx) Event(n int) { c.res.Events += n; beat() }

// Evals counts oracle evaluations beyond the run itself (crash scenarios,
// damaged reads, tampered inputs...).
func (c *Ctx) Evals(n int) { c.res.Evals += n }

// SimTime adds simulated time covered.
func (c *Ctx) SimTime(d time.Duration) { c.res.SimTimeMs += d.Milliseconds() }

// NonTrivial marks the run as having reached the rig's non-triviality rule.
func (c *Ctx) NonTrivial() { c.res.NonTrivial = true }

// Finger folds state-signature material into the run's fingerprint (used to
// count distinct runs). Must be deterministic in the tape.
func (c *Ctx) Finger(parts ...interface{}) {
	h := sha256.New()
	h.Write(c.fp)
	fmt.Fprint(h, parts...)
	c.fp = h.Sum(nil)[:16]
}

// Sample sets the written-out sample of this run (kept small).
func (c *Ctx) Sample(v interface{}) { c.res.Sample = v }

// IsKnown reports whether a violation key is listed as a known finding.
func (c *Ctx) IsKnown(key string) bool {
	_, ok := c.known[key]
	return ok
}

// Violate records a violation; if its key is a known finding it is recorded
// as such and the rig may continue. Returns true when the violation is new
// (the rig should normally stop the run).
func (c *Ctx) Violate(class, key, format string, args ...interface{}) bool {
	v := &Violation{Class: class, Key: key, Message: fmt.Sprintf(format, args...)}
	if c.IsKnown(key) {
		for _, k := range c.res.Known {
			if k.Key == key {
				return false
			}
		}
		c.res.Known = append(c.res.Known, v)
		return false
	}
	c.res.Violations = append(c.res.Violations, v)
	return true
}

// Failed reports whether a new (unlisted) violation has been recorded.
func (c *Ctx) Failed() bool { return len(c.res.Violations) > 0 }

// HarnessTrouble records a problem of the harness itself (exit 2).
func (c *Ctx) HarnessTrouble(format string, args ...interface{}) {
	if c.res.Harness == "" {
		c.res.Harness = fmt.Sprintf(format, args...)
	}
}

// Rig is one simulated system + workload + oracle for one property.
type Rig struct {
	Property string
	Name     string
	Level    string // "exploration" | "fault_enumeration"
	// Rule describes generation and the non-triviality/distinctness rule.
	Rule string
	// Components lists what ran real code and what ran a stub.
	Real []string
	Stub []string
	// Assumptions of the check.
	Assumptions []string
	// Runs is the default number of runs per tier (across all workers).
	QuickRuns, ThoroughRuns int
	// Budget is the wall-clock cap per tier.
	QuickBudget, ThoroughBudget time.Duration
	// Run performs one run; it must be a pure function of c.Tape (and tier).
	Run func(c *Ctx)
	// MaxProcs per worker (0 = 1).
	MaxProcs int
	// RunsPerProcess recycles workers after this many runs (0 = no limit).
	RunsPerProcess int
	// RunTimeout is the wall-clock watchdog per run (0 = 120s).
	RunTimeout time.Duration
	// HangTimeout/OnHang: a run whose Ctx.Event has not been called for
	// HangTimeout of wall-clock time is presented, with a dump of all goroutine
	// stacks, to OnHang; a non-nil result is reported as a violation (with the
	// unshrunk tape as replay file, whose replay must hang the same way),
	// otherwise the run goes on until RunTimeout (harness trouble, exit 2).
	HangTimeout time.Duration
	OnHang      func(stacks string) *Violation
	// OnCrash, when set, is handed the log of a worker PROCESS that the Go
	// runtime killed (unrecovered panic or fatal error on some goroutine) and
	// may classify the crash as a violation of the property: ok=true with a
	// stable key. The parent then writes a seed-only replay file, confirms it
	// by regenerating the run in a fresh child process (which must die at the
	// same site) and goes on with the next seed.
	OnCrash func(log string) (class, key, msg string, ok bool)
}

var rigs = map[string]*Rig{}

// Register adds a rig; one rig per property id.
func Register(r *Rig) {
	if _, dup := rigs[r.Property]; dup {
		panic("duplicate rig for " + r.Property)
	}
	rigs[r.Property] = r
}

// RigFor returns the rig of a property.
func RigFor(prop string) *Rig { return rigs[prop] }

func sortedKeys(m map[string]int) []string {
	ks := make([]string, 0, len(m))
	for k := range m {
		ks = append(ks, k)
	}
	sort.Strings(ks)
	return ks
}

func hexFinger(b []byte) string { return hex.EncodeToString(b) }
