package kernel

import (
	"fmt"
	"strings"
	"testing"
	"testing/synctest"
)

// Bubble runs f inside a testing/synctest bubble (virtual clock, quiescence
// detection) on its own goroutine and returns when f has returned.
//
// abandon=false: the bubble is expected to end cleanly (every goroutine f
// started exits); the end-of-bubble "blocked goroutines remain" panic is
// tolerated (harness matter, never a verdict).
// abandon=true: for code under test that starts goroutines which can never be
// stopped (e.g. the mempool cache's expiry loops): after f returns the root
// goroutine parks on a channel created outside the bubble, which is not a
// durable block, so the bubble's clock stops and the leftover goroutines sleep
// forever without burning CPU. The worker process must then be recycled
// (Rig.RunsPerProcess).
func Bubble(c *Ctx, abandon bool, f func()) {
	done := make(chan interface{}, 1) // created outside the bubble
	never := make(chan struct{})
	go func() {
		defer func() {
			if r := recover(); r != nil {
				msg := fmt.Sprint(r)
				if strings.Contains(msg, "deadlock") || strings.Contains(msg, "blocked goroutines") {
					select {
					case done <- nil:
					default:
					}
					return
				}
				select {
				case done <- r:
				default:
				}
			}
		}()
		synctest.Test(c.T, func(t *testing.T) {
			defer func() {
				if r := recover(); r != nil {
					site, inRepo := PanicSite()
					done <- bubblePanic{r, site, inRepo}
					if abandon {
						<-never
					}
					return
				}
				done <- nil
				if abandon {
					<-never
				}
			}()
			f()
		})
	}()
	r := <-done
	if bp, ok := r.(bubblePanic); ok {
		msg := fmt.Sprint(bp.v)
		if len(msg) > 300 {
			msg = msg[:300]
		}
		if bp.inRepo {
			c.Violate("panic", "panic/"+bp.site, "uncaught panic in code under test at %s: %s", bp.site, msg)
		} else {
			c.HarnessTrouble("harness panic at %s: %s", bp.site, msg)
		}
	} else if r != nil {
		c.HarnessTrouble("bubble: %v", r)
	}
}

type bubblePanic struct {
	v      interface{}
	site   string
	inRepo bool
}
