package kernel

import (
	"fmt"
	"runtime"
	"strings"
	"testing"
	"time"
)

// Execute performs one run of rig on tape and returns its result. A panic that
// escapes the rig is classified by its stack: raised inside the code under
// test (a linkchain frame above the first harness frame) it is a violation of
// class "panic"; raised by harness code it is harness trouble.
func Execute(t *testing.T, rig *Rig, tier Tier, tape *Tape, known map[string]string) (res *Result) {
	res = &Result{Seed: tape.Seed()}
	c := &Ctx{T: t, Tape: tape, Tier: tier, Prop: rig.Property, known: known, res: res}
	start := time.Now()
	defer func() {
		if r := recover(); r != nil {
			where, inRepo := panicSite()
			msg := fmt.Sprint(r)
			if len(msg) > 300 {
				msg = msg[:300]
			}
			if inRepo {
				c.Violate("panic", "panic/"+where, "uncaught panic in code under test at %s: %s", where, msg)
			} else {
				c.HarnessTrouble("harness panic at %s: %s", where, msg)
			}
		}
		res.Finger = hexFinger(c.fp)
		res.WallMs = time.Since(start).Milliseconds()
	}()
	rig.Run(c)
	return res
}

const repoPrefix = "github.com/lianxiangcloud/linkchain/"

// panicSite walks the stack of a recovered panic and returns the function that
// raised it (first non-runtime frame after the panic call) and whether that
// frame belongs to the repository under test.
func panicSite() (string, bool) {
	pcs := make([]uintptr, 64)
	n := runtime.Callers(3, pcs)
	frames := runtime.CallersFrames(pcs[:n])
	seenPanic := false
	for {
		f, more := frames.Next()
		fn := f.Function
		if !seenPanic {
			if fn == "runtime.gopanic" || strings.HasPrefix(fn, "runtime.panic") || fn == "runtime.goPanicIndex" || strings.HasPrefix(fn, "runtime.goPanic") || fn == "runtime.sigpanic" {
				seenPanic = true
			}
		} else if !strings.HasPrefix(fn, "runtime.") {
			return fn, strings.HasPrefix(fn, repoPrefix)
		}
		if !more {
			break
		}
	}
	return "unknown", false
}

// PanicSite is panicSite for rigs that recover panics themselves; call it
// directly inside the deferred function.
func PanicSite() (string, bool) {
	pcs := make([]uintptr, 64)
	n := runtime.Callers(2, pcs)
	frames := runtime.CallersFrames(pcs[:n])
	seenPanic := false
	for {
		f, more := frames.Next()
		fn := f.Function
		if !seenPanic {
			if fn == "runtime.gopanic" || strings.HasPrefix(fn, "runtime.panic") || strings.HasPrefix(fn, "runtime.goPanic") || fn == "runtime.sigpanic" {
				seenPanic = true
			}
		} else if !strings.HasPrefix(fn, "runtime.") {
			return fn, strings.HasPrefix(fn, repoPrefix)
		}
		if !more {
			break
		}
	}
	return "unknown", false
}

// Try runs f and converts a panic into (site, message, true).
func Try(f func()) (site string, msg string, panicked bool) {
	defer func() {
		if r := recover(); r != nil {
			site, _ = PanicSite()
			msg = fmt.Sprint(r)
			if len(msg) > 300 {
				msg = msg[:300]
			}
			panicked = true
		}
	}()
	f()
	return
}
