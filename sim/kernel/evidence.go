package kernel

import (
	"encoding/json"
	"fmt"
	"os"
	"path/filepath"
	"sort"
	"time"
)

type aggregate struct {
	rig        *Rig
	prop       string
	tier       Tier
	seed       uint64
	runs       int
	evals      int
	events     int
	nontrivial int
	fingers    map[string]bool
	faults     map[string]int
	probes     map[string]int
	simMs      int64
	samples    []interface{}
	seeds      []uint64
	knownWhat  map[string]string
	knownSeen  map[string]int
	violations int
	wall       time.Duration
	runWallMs  int64
}

func newAggregate(rig *Rig, prop string, tier Tier, seed uint64) *aggregate {
	return &aggregate{rig: rig, prop: prop, tier: tier, seed: seed, fingers: map[string]bool{},
		faults: map[string]int{}, probes: map[string]int{}, knownWhat: loadKnown(prop), knownSeen: map[string]int{}}
}

func (a *aggregate) add(r *Result) {
	if r == nil {
		return
	}
	a.runs++
	a.evals += r.Evals
	a.events += r.Events
	a.simMs += r.SimTimeMs
	a.runWallMs += r.WallMs
	if r.NonTrivial {
		a.nontrivial++
		a.fingers[r.Finger] = true
	}
	for k, v := range r.Faults {
		a.faults[k] += v
	}
	for k, v := range r.Probes {
		a.probes[k] += v
	}
	if r.Sample != nil && len(a.samples) < 3 {
		a.samples = append(a.samples, map[string]interface{}{"seed": r.Seed, "run": r.Sample})
	}
	if len(a.seeds) < 16 {
		a.seeds = append(a.seeds, r.Seed)
	}
	for _, k := range r.Known {
		a.knownSeen[k.Key]++
	}
}

func (a *aggregate) knownKeys() []string {
	// every listed known finding is printed (the file is the list); the count
	// of runs that reproduced it is in the evidence
	ks := make([]string, 0, len(a.knownWhat))
	for k := range a.knownWhat {
		ks = append(ks, k)
	}
	sort.Strings(ks)
	return ks
}

func (a *aggregate) writeEvidence() error {
	level := a.rig.Level
	if level == "" {
		level = "exploration"
	}
	samples := a.samples
	if len(samples) == 0 {
		samples = []interface{}{map[string]interface{}{"note": "no run produced a sample"}}
	}
	evals := a.runs + a.evals
	wallS := a.wall.Seconds()
	perHour := 0.0
	if wallS > 0 {
		perHour = float64(a.runs) / wallS * 3600
	}
	cov := map[string]interface{}{
		"evaluations":         evals,
		"distinct_nontrivial": len(a.fingers),
		"rule":                a.rig.Rule,
		"samples":             samples,
		"runs":                a.runs,
		"nontrivial_runs":     a.nontrivial,
		"oracle_evaluations":  a.evals,
		"events":              a.events,
		"runs_per_hour":       int64(perHour),
		"sim_time_s":          float64(a.simMs) / 1000,
		"faults_fired":        a.faults,
		"probes":              a.probes,
		"components":          map[string]interface{}{"real": a.rig.Real, "stub": a.rig.Stub},
		"seeds_first":         a.seeds,
		"known_findings_hit":  a.knownSeen,
		"rig":                 a.rig.Name,
		"distinct_measure":    "sha256 over the run's sequence of state signatures (rig-specific Finger calls), counted over runs that met the non-triviality rule",
	}
	ev := map[string]interface{}{
		"property_id": a.prop,
		"tier":        string(a.tier),
		"seed":        int64(a.seed),
		"level":       level,
		"coverage":    cov,
		"assumptions": a.rig.Assumptions,
		"wall_s":      wallS,
		"violations":  a.violations,
	}
	b, err := json.MarshalIndent(ev, "", " ")
	if err != nil {
		return err
	}
	dir := filepath.Join(outRoot(), "evidence")
	os.MkdirAll(dir, 0755)
	return os.WriteFile(filepath.Join(dir, a.prop+".json"), append(b, '\n'), 0644)
}

func (a *aggregate) printSummary() {
	fmt.Printf("SUMMARY property=%s tier=%s runs=%d nontrivial=%d distinct=%d oracle_evals=%d events=%d sim_s=%.1f wall_s=%.1f\n",
		a.prop, a.tier, a.runs, a.nontrivial, len(a.fingers), a.evals, a.events, float64(a.simMs)/1000, a.wall.Seconds())
	if len(a.faults) > 0 {
		fmt.Printf("  faults:")
		for _, k := range sortedKeys(a.faults) {
			fmt.Printf(" %s=%d", k, a.faults[k])
		}
		fmt.Println()
	}
	if len(a.probes) > 0 {
		fmt.Printf("  probes:")
		for _, k := range sortedKeys(a.probes) {
			fmt.Printf(" %s=%d", k, a.probes[k])
		}
		fmt.Println()
	}
}

// ---------------------------------------------------------------- known findings

type knownEntry struct {
	Property string `json:"property"`
	Key      string `json:"key"`
	Status   string `json:"status"` // "known" | "fixed"
	Commit   string `json:"commit,omitempty"`
	What     string `json:"what"`
}

// loadKnown returns key -> what for entries of status "known" of prop. The
// file is read only, never written at run time.
func loadKnown(prop string) map[string]string {
	out := map[string]string{}
	b, err := os.ReadFile(filepath.Join(root(), "known_findings.json"))
	if err != nil {
		return out
	}
	var es []knownEntry
	if json.Unmarshal(b, &es) != nil {
		return out
	}
	for _, e := range es {
		if e.Property == prop && e.Status == "known" {
			out[e.Key] = e.What
		}
	}
	return out
}
