package kernel

import (
	"encoding/json"
	"fmt"
	"os"
	"os/exec"
	"sort"
	"strings"
	"testing"
)

// Determinism self-test (VERIF_MODE=det): every seed is executed in generate
// mode and again from its own recorded tape in the same process; the parent
// repeats this in several fresh processes at different GOMAXPROCS and compares
// the digests of everything a run reports.

func digest(r *Result) string {
	var vs []string
	for _, v := range r.Violations {
		vs = append(vs, v.Class+"|"+v.Key)
	}
	for _, v := range r.Known {
		vs = append(vs, "known:"+v.Key)
	}
	sort.Strings(vs)
	fs, _ := json.Marshal(r.Faults)
	ps, _ := json.Marshal(r.Probes)
	return fmt.Sprintf("finger=%s nt=%v ev=%d evals=%d sim=%d faults=%s probes=%s viol=%s harness=%q",
		r.Finger, r.NonTrivial, r.Events, r.Evals, r.SimTimeMs, fs, ps, strings.Join(vs, ","), r.Harness)
}

func detWorker(t *testing.T, prop string) {
	rig := RigFor(prop)
	tier := tierFromEnv()
	base := seedFromEnv()
	n := envInt("VERIF_RUNS", 8)
	known := loadKnown(prop)
	startWatchdog()
	for k := 0; k < n; k++ {
		seed := RunSeed(base, k)
		tape := NewTape(seed)
		arm(seed, 600e9)
		r1 := Execute(t, rig, tier, tape, known)
		r2 := Execute(t, rig, tier, ReplayTape(seed, tape.Streams()), known)
		disarm()
		d1, d2 := digest(r1), digest(r2)
		if d1 != d2 {
			fmt.Printf("DET-MISMATCH-INPROCESS seed=%d\n  gen:    %s\n  replay: %s\n", seed, d1, d2)
		}
		fmt.Printf("DET seed=%d %s\n", seed, d1)
	}
}

func detParent(prop string) int {
	exe, _ := os.Executable()
	outs := map[string][]string{}
	bad := false
	for _, procs := range []string{"1", "4", "16", "1"} {
		cmd := exec.Command(exe, "-test.run", "^TestSim$", "-test.count=1", "-test.timeout=0")
		scratch, _ := os.MkdirTemp(outRoot()+"/build", "det-")
		cmd.Env = append(os.Environ(), "VERIF_MODE=detworker", "GOMAXPROCS="+procs, "VERIF_SCRATCH="+scratch)
		b, err := cmd.CombinedOutput()
		os.RemoveAll(scratch)
		if err != nil {
			fmt.Printf("HARNESS: det worker failed: %v\n%s\n", err, lastLines(string(b), 20))
			return 2
		}
		for _, ln := range strings.Split(string(b), "\n") {
			if strings.HasPrefix(ln, "DET-MISMATCH") || strings.HasPrefix(ln, "  gen:") || strings.HasPrefix(ln, "  replay:") {
				fmt.Println(ln)
				bad = true
			}
			if strings.HasPrefix(ln, "DET seed=") {
				f := strings.SplitN(ln, " ", 3)
				outs[f[1]] = append(outs[f[1]], f[2])
			}
		}
	}
	seeds := make([]string, 0, len(outs))
	for s := range outs {
		seeds = append(seeds, s)
	}
	sort.Strings(seeds)
	for _, s := range seeds {
		for _, d := range outs[s][1:] {
			if d != outs[s][0] {
				fmt.Printf("DET-MISMATCH-ACROSS-PROCESSES %s\n  a: %s\n  b: %s\n", s, outs[s][0], d)
				bad = true
				break
			}
		}
	}
	if bad {
		fmt.Printf("DETERMINISM: FAILED (%d seeds x 4 processes x 2 executions)\n", len(seeds))
		return 2
	}
	fmt.Printf("DETERMINISM: OK (%d seeds x 4 processes (GOMAXPROCS 1,4,16,1) x 2 executions each, digests identical)\n", len(seeds))
	return 0
}
