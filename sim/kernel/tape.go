// Package kernel is the shared core of the deterministic simulator: the choice
// tape every run is a pure function of, the worker/parent runner, the tape
// shrinker, replay files, the known-findings file and the evidence writer.
package kernel

import (
	"encoding/binary"
	"hash/fnv"
	"sort"
)

// Tape is the single source of every random decision of a run. In generate
// mode each named stream is an independent PRNG derived from (seed, stream
// name) and every draw is recorded; in replay mode draws are served from the
// recorded values (reduced modulo the requested range; 0 past the end), which
// is what makes shrinking safe: any edited tape is still a legal run.
type Tape struct {
	root   *tapeRoot
	stream string
	sd     *streamData
}

type tapeRoot struct {
	seed    uint64
	replay  bool
	streams map[string]*streamData
}

type streamData struct {
	rng   splitmix
	vals  []uint64 // recorded (generate) or source (replay)
	pos   int      // replay cursor
	drawn int      // number of draws performed in this execution
}

type splitmix struct{ s uint64 }

func (r *splitmix) next() uint64 {
	r.s += 0x9e3779b97f4a7c15
	z := r.s
	z = (z ^ (z >> 30)) * 0xbf58476d1ce4e5b9
	z = (z ^ (z >> 27)) * 0x94d049bb133111eb
	return z ^ (z >> 31)
}

// NewTape returns a generating tape for seed.
func NewTape(seed uint64) *Tape {
	r := &tapeRoot{seed: seed, streams: map[string]*streamData{}}
	return r.get("main")
}

// ReplayTape returns a tape that serves the recorded streams.
func ReplayTape(seed uint64, streams map[string][]uint64) *Tape {
	r := &tapeRoot{seed: seed, replay: true, streams: map[string]*streamData{}}
	for k, v := range streams {
		cp := make([]uint64, len(v))
		copy(cp, v)
		r.streams[k] = &streamData{vals: cp}
	}
	return r.get("main")
}

func (r *tapeRoot) get(stream string) *Tape {
	sd, ok := r.streams[stream]
	if !ok {
		sd = &streamData{}
		if !r.replay {
			h := fnv.New64a()
			var b [8]byte
			binary.LittleEndian.PutUint64(b[:], r.seed)
			h.Write(b[:])
			h.Write([]byte(stream))
			sd.rng = splitmix{s: h.Sum64()}
		}
		r.streams[stream] = sd
	}
	return &Tape{root: r, stream: stream, sd: sd}
}

// Fork returns the named sub-stream (the same name always yields the same
// stream, so that unrelated decisions do not shift each other when a step is
// deleted during minimisation).
func (t *Tape) Fork(stream string) *Tape { return t.root.get(stream) }

// Seed returns the seed the tape was created from.
func (t *Tape) Seed() uint64 { return t.root.seed }

// Replaying reports whether the tape serves recorded values.
func (t *Tape) Replaying() bool { return t.root.replay }

func (t *Tape) raw() uint64 {
	sd := t.sd
	sd.drawn++
	if t.root.replay {
		if sd.pos < len(sd.vals) {
			v := sd.vals[sd.pos]
			sd.pos++
			return v
		}
		sd.pos++
		return 0
	}
	v := sd.rng.next()
	sd.vals = append(sd.vals, v)
	return v
}

// Uint64 draws 64 bits.
func (t *Tape) Uint64() uint64 { return t.raw() }

// Int draws uniformly from [0,n). n<=1 draws nothing and returns 0.
func (t *Tape) Int(n int) int {
	if n <= 1 {
		return 0
	}
	v := t.raw()
	if !t.root.replay {
		// store the reduced value so that shrinking toward 0 is meaningful
		v = v % uint64(n)
		t.sd.vals[len(t.sd.vals)-1] = v
		return int(v)
	}
	return int(v % uint64(n))
}

// Range draws uniformly from [lo,hi] inclusive.
func (t *Tape) Range(lo, hi int) int {
	if hi <= lo {
		return lo
	}
	return lo + t.Int(hi-lo+1)
}

// Bool is true with probability num/den.
func (t *Tape) Bool(num, den int) bool {
	if num <= 0 {
		return false
	}
	if num >= den {
		return true
	}
	// value 0 (the shrink target) must mean "false": no fault, simpler run
	return t.Int(den) >= den-num
}

// Pick draws an index weighted by w (all weights >= 0, at least one > 0).
func (t *Tape) Pick(w ...int) int {
	tot := 0
	for _, x := range w {
		tot += x
	}
	if tot <= 0 {
		return 0
	}
	v := t.Int(tot)
	for i, x := range w {
		if v < x {
			return i
		}
		v -= x
	}
	return len(w) - 1
}

// Bytes draws n bytes.
func (t *Tape) Bytes(n int) []byte {
	out := make([]byte, 0, n+8)
	for len(out) < n {
		var b [8]byte
		binary.LittleEndian.PutUint64(b[:], t.raw())
		out = append(out, b[:]...)
	}
	return out[:n]
}

// Read implements io.Reader from the tape (for seeded key generation).
func (t *Tape) Read(p []byte) (int, error) {
	copy(p, t.Bytes(len(p)))
	return len(p), nil
}

// Shuffle permutes n items with swap.
func (t *Tape) Shuffle(n int, swap func(i, j int)) {
	for i := n - 1; i > 0; i-- {
		j := t.Int(i + 1)
		swap(i, j)
	}
}

// Streams returns a copy of the recorded values of every stream, truncated to
// what this execution actually consumed.
func (t *Tape) Streams() map[string][]uint64 {
	out := map[string][]uint64{}
	for k, sd := range t.root.streams {
		n := len(sd.vals)
		if t.root.replay && sd.drawn < n {
			n = sd.drawn
		}
		if n == 0 {
			continue
		}
		cp := make([]uint64, n)
		copy(cp, sd.vals[:n])
		out[k] = cp
	}
	return out
}

// StreamNames returns the sorted stream names of m.
func StreamNames(m map[string][]uint64) []string {
	names := make([]string, 0, len(m))
	for k := range m {
		names = append(names, k)
	}
	sort.Strings(names)
	return names
}

// Draws returns the total number of draws performed so far.
func (t *Tape) Draws() int {
	n := 0
	for _, sd := range t.root.streams {
		n += sd.drawn
	}
	return n
}
