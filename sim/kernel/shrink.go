package kernel

import (
	"testing"
	"time"
)

// Shrink minimises a violating tape while the same violation class and key
// persist. Every candidate is re-executed in-process; the budget caps both the
// number of candidates and the wall-clock time.
func Shrink(t *testing.T, rig *Rig, tier Tier, seed uint64, streams map[string][]uint64, want *Violation, known map[string]string, maxCand int, budget time.Duration) (map[string][]uint64, int) {
	deadline := time.Now().Add(budget)
	tried := 0
	cur := cloneStreams(streams)

	still := func(cand map[string][]uint64) bool {
		if tried >= maxCand || time.Now().After(deadline) {
			return false
		}
		tried++
		res := Execute(t, rig, tier, ReplayTape(seed, cand), known)
		for _, v := range res.Violations {
			if v.Class == want.Class && v.Key == want.Key {
				return true
			}
		}
		return false
	}

	// the tape consumed by the violating execution is already truncated to
	// what was drawn (Streams()); passes: drop tails, drop blocks, zero, halve.
	improved := true
	for round := 0; improved && round < 6; round++ {
		improved = false
		for _, name := range StreamNames(cur) {
			// 1. truncate tail
			for cut := len(cur[name]) / 2; cut >= 1; cut /= 2 {
				for len(cur[name]) >= cut {
					cand := cloneStreams(cur)
					cand[name] = cand[name][:len(cand[name])-cut]
					if still(cand) {
						cur = cand
						improved = true
					} else {
						break
					}
				}
			}
			// 2. delete blocks
			for _, bs := range []int{16, 8, 4, 2, 1} {
				for i := 0; i+bs <= len(cur[name]); {
					cand := cloneStreams(cur)
					cand[name] = append(cand[name][:i:i], cand[name][i+bs:]...)
					if still(cand) {
						cur = cand
						improved = true
					} else {
						i += bs
					}
					if tried >= maxCand {
						break
					}
				}
			}
			// 3. zero / halve values
			for i := 0; i < len(cur[name]); i++ {
				if cur[name][i] == 0 {
					continue
				}
				cand := cloneStreams(cur)
				cand[name][i] = 0
				if still(cand) {
					cur = cand
					improved = true
					continue
				}
				if cur[name][i] > 1 {
					cand = cloneStreams(cur)
					cand[name][i] = cur[name][i] / 2
					if still(cand) {
						cur = cand
						improved = true
					}
				}
				if tried >= maxCand {
					break
				}
			}
		}
		if tried >= maxCand || time.Now().After(deadline) {
			break
		}
	}
	return cur, tried
}

func cloneStreams(m map[string][]uint64) map[string][]uint64 {
	out := make(map[string][]uint64, len(m))
	for k, v := range m {
		cp := make([]uint64, len(v))
		copy(cp, v)
		out[k] = cp
	}
	return out
}
