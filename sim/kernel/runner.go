package kernel

import (
	"bufio"
	"encoding/json"
	"fmt"
	"os"
	"os/exec"
	"path/filepath"
	"runtime"
	"runtime/pprof"
	"sort"
	"strconv"
	"strings"
	"sync"
	"testing"
	"time"
)

// Environment of a check process:
//   VERIF_MODE    parent | worker | replay   (unset: plain `go test`, skipped)
//   VERIF_ROOT    /verif (where evidence/, replays/, known_findings.json live)
//   VERIF_TIER    quick | thorough
//   VERIF_SEED    base seed (int)
//   VERIF_RUNS    override number of runs
//   VERIF_BUDGET  override wall budget (Go duration)
//   VERIF_WORKERS override number of worker processes
//   VERIF_REPLAY  path of a replay file (mode replay)

// ReplayFile is the on-disk reproduction of one violation.
type ReplayFile struct {
	Property  string              `json:"property"`
	Rig       string              `json:"rig"`
	Tier      Tier                `json:"tier"`
	Seed      uint64              `json:"seed"`
	Tape      map[string][]uint64 `json:"tape"`
	Violation *Violation          `json:"violation"`
	Shrunk    bool                `json:"shrunk"`
	Cands     int                 `json:"shrink_candidates"`
	DrawsFrom int                 `json:"draws_before_shrink"`
	DrawsTo   int                 `json:"draws_after_shrink"`
	Trace     interface{}         `json:"trace,omitempty"`
	// Crash: the run killed the worker PROCESS (an unrecovered panic or a
	// fatal error on a goroutine of the code under test). The file carries the
	// seed only (the tape of a run that never returned cannot be recorded or
	// shrunk); the replay regenerates the run from the seed in a child process
	// and reproduces if the child dies at the same site.
	Crash    bool   `json:"crash,omitempty"`
	CrashLog string `json:"crash_log,omitempty"`
}

type workerLine struct {
	Kind   string  `json:"kind"` // "run" | "violation" | "harness" | "done"
	Res    *Result `json:"res,omitempty"`
	Replay string  `json:"replay,omitempty"`
	Msg    string  `json:"msg,omitempty"`
	Worker int     `json:"worker"`
}

func root() string {
	if r := os.Getenv("VERIF_ROOT"); r != "" {
		return r
	}
	return "/verif"
}

// outRoot is where evidence/, replays/ and build scratch are written
// (VERIF_OUTDIR; defaults to VERIF_ROOT). Runs against a scratch copy of the
// repository use a separate one so they never clobber /verif/evidence.
func outRoot() string {
	if r := os.Getenv("VERIF_OUTDIR"); r != "" {
		return r
	}
	return root()
}

func envInt(name string, def int) int {
	if s := os.Getenv(name); s != "" {
		if v, err := strconv.Atoi(s); err == nil {
			return v
		}
	}
	return def
}

func tierFromEnv() Tier {
	if os.Getenv("VERIF_TIER") == "thorough" {
		return Thorough
	}
	return Quick
}

func seedFromEnv() uint64 {
	if s := os.Getenv("VERIF_SEED"); s != "" {
		if v, err := strconv.ParseInt(s, 10, 64); err == nil {
			return uint64(v)
		}
		if v, err := strconv.ParseUint(s, 10, 64); err == nil {
			return v
		}
	}
	return 1
}

// RunSeed derives the seed of global run k from the base seed.
func RunSeed(base uint64, k int) uint64 {
	r := splitmix{s: base*0x9e3779b97f4a7c15 + uint64(k)}
	r.next()
	return r.next() >> 1 // keep it a positive int64 for JSON consumers
}

// Main is the TestMain of every check binary.
func Main(m *testing.M, prop string) {
	switch os.Getenv("VERIF_MODE") {
	case "parent":
		os.Exit(parentMain(prop))
	case "det":
		os.Exit(detParent(prop))
	case "replay":
		if os.Getenv("VERIF_CRASHCHILD") == "" {
			if rf, ok := readReplay(os.Getenv("VERIF_REPLAY")); ok && rf.Crash {
				os.Exit(crashReplay(prop, os.Getenv("VERIF_REPLAY"), rf, true))
			}
		}
		os.Exit(m.Run())
	case "worker", "detworker", "one":
		os.Exit(m.Run())
	default:
		fmt.Println("verif check binary: run through /verif/check")
		os.Exit(0)
	}
}

// Worker is the body of TestSim in every check binary.
func Worker(t *testing.T, prop string) {
	switch os.Getenv("VERIF_MODE") {
	case "worker":
		workerMain(t, prop)
	case "replay":
		replayMain(t, prop)
	case "detworker":
		detWorker(t, prop)
	case "one":
		// debugging aid: one seed (VERIF_SEED is the run seed itself), result printed
		rig := RigFor(prop)
		seed := seedFromEnv()
		startWatchdog()
		arm(seed, 10*time.Minute)
		tape := NewTape(seed)
		res := Execute(t, rig, tierFromEnv(), tape, loadKnown(prop))
		b, _ := json.MarshalIndent(res, "", " ")
		fmt.Printf("%s\n", b)
	default:
		t.Skip("not under /verif/check")
	}
}

// ---------------------------------------------------------------- worker

var watchdog struct {
	sync.Mutex
	deadline time.Time
	seed     uint64
	out      *os.File
	worker   int

	// hang detection: the run's Ctx.Event calls beat; a run that makes no
	// progress for rig.HangTimeout is handed, with a dump of all goroutine
	// stacks, to rig.OnHang, which may classify it as a violation of the
	// property (e.g. a lock leaked by the code under test) instead of harness
	// trouble
	lastBeat time.Time
	rig      *Rig
	tier     Tier
	tape     *Tape
	replay   string // replay mode: path of the replay file being replayed
	// a violation found and written out unshrunk; while the tape is being
	// shrunk a stuck candidate must not turn the finding into harness trouble
	pending []byte
}

// beat records progress of the current run.
func beat() {
	watchdog.Lock()
	watchdog.lastBeat = time.Now()
	watchdog.Unlock()
}

func startWatchdog() {
	go func() {
		for {
			time.Sleep(500 * time.Millisecond)
			watchdog.Lock()
			dl, seed, out, w := watchdog.deadline, watchdog.seed, watchdog.out, watchdog.worker
			rig, lastBeat, tape, tier, replay := watchdog.rig, watchdog.lastBeat, watchdog.tape, watchdog.tier, watchdog.replay
			watchdog.Unlock()
			if !dl.IsZero() && rig != nil && rig.OnHang != nil && rig.HangTimeout > 0 && !lastBeat.IsZero() && time.Since(lastBeat) > rig.HangTimeout {
				buf := make([]byte, 4<<20)
				n := runtime.Stack(buf, true)
				if v := rig.OnHang(string(buf[:n])); v != nil {
					if replay != "" {
						fmt.Printf("REPRODUCED class=%s key=%s\n  %s\nVIOLATION property=%s replay=%s\n", v.Class, v.Key, v.Message, rig.Property, replay)
						os.Exit(1)
					}
					if tape != nil && out != nil {
						rf := &ReplayFile{Property: rig.Property, Rig: rig.Name, Tier: tier, Seed: seed, Tape: tape.Streams(), Violation: v, Shrunk: false}
						path := filepath.Join(outRoot(), "replays", fmt.Sprintf("%s-%d.json", rig.Property, seed))
						os.MkdirAll(filepath.Dir(path), 0755)
						b, _ := json.MarshalIndent(rf, "", " ")
						os.WriteFile(path, b, 0644)
						lb, _ := json.Marshal(workerLine{Kind: "violation", Worker: w, Res: &Result{Seed: seed, Violations: []*Violation{v}}, Replay: path})
						out.Write(append(lb, '\n'))
						db, _ := json.Marshal(workerLine{Kind: "done", Worker: w, Msg: "0"})
						out.Write(append(db, '\n'))
						if sp := os.Getenv("VERIF_STOP"); sp != "" {
							os.WriteFile(sp, []byte("stop"), 0644)
						}
						os.Exit(0)
					}
				}
			}
			if !dl.IsZero() && time.Now().After(dl) {
				watchdog.Lock()
				pend := watchdog.pending
				watchdog.Unlock()
				if out != nil && pend != nil {
					// shrinking got stuck: report the violation with its unshrunk tape
					out.Write(append(pend, '\n'))
					db, _ := json.Marshal(workerLine{Kind: "done", Worker: w, Msg: "0"})
					out.Write(append(db, '\n'))
					if sp := os.Getenv("VERIF_STOP"); sp != "" {
						os.WriteFile(sp, []byte("stop"), 0644)
					}
					os.Exit(0)
				}
				if out != nil {
					b, _ := json.Marshal(workerLine{Kind: "harness", Worker: w, Msg: fmt.Sprintf("watchdog: run seed=%d exceeded its wall-clock limit (deadline %s, now %s)", seed, dl.Format("15:04:05.000"), time.Now().Format("15:04:05.000"))})
					out.Write(append(b, '\n'))
					buf := make([]byte, 1<<16)
					n := runtime.Stack(buf, true)
					os.WriteFile(filepath.Join(outRoot(), "build", fmt.Sprintf("hang-%d.txt", seed)), buf[:n], 0644)
				}
				os.Exit(3)
			}
		}
	}()
}

func arm(seed uint64, d time.Duration) {
	watchdog.Lock()
	watchdog.deadline = time.Now().Add(d)
	watchdog.seed = seed
	watchdog.lastBeat = time.Now()
	watchdog.Unlock()
}

func armRun(rig *Rig, tier Tier, tape *Tape, replay string) {
	watchdog.Lock()
	watchdog.rig, watchdog.tier, watchdog.tape, watchdog.replay = rig, tier, tape, replay
	watchdog.Unlock()
}

func disarm() {
	watchdog.Lock()
	watchdog.deadline = time.Time{}
	watchdog.Unlock()
}

func workerMain(t *testing.T, prop string) {
	rig := RigFor(prop)
	if rig == nil {
		t.Fatalf("no rig for %s", prop)
	}
	tier := tierFromEnv()
	base := seedFromEnv()
	w := envInt("VERIF_WORKER", 0)
	W := envInt("VERIF_NWORKERS", 1)
	first := envInt("VERIF_FIRST", 0) // first global run index for this process
	total := envInt("VERIF_TOTAL", 1) // global number of runs
	maxHere := envInt("VERIF_MAXRUNS", 0)
	deadlineUnix := envInt("VERIF_DEADLINE", 0)
	outPath := os.Getenv("VERIF_OUT")
	stopPath := os.Getenv("VERIF_STOP")
	known := loadKnown(prop)

	out, err := os.OpenFile(outPath, os.O_CREATE|os.O_WRONLY|os.O_APPEND, 0644)
	if err != nil {
		t.Fatalf("open out: %v", err)
	}
	defer out.Close()
	emit := func(l workerLine) {
		l.Worker = w
		b, _ := json.Marshal(l)
		out.Write(append(b, '\n'))
	}
	watchdog.Lock()
	watchdog.out = out
	watchdog.worker = w
	watchdog.Unlock()
	startWatchdog()
	runTimeout := rig.RunTimeout
	if runTimeout == 0 {
		runTimeout = 300 * time.Second
	}

	done := 0
	next := first
	for k := first; k < total; k += W {
		next = k
		if maxHere > 0 && done >= maxHere {
			break
		}
		if deadlineUnix > 0 && time.Now().Unix() >= int64(deadlineUnix) {
			break
		}
		if stopPath != "" {
			if _, err := os.Stat(stopPath); err == nil {
				break
			}
		}
		seed := RunSeed(base, k)
		if rig.OnCrash != nil {
			os.WriteFile(outPath+".cur", []byte(fmt.Sprintf("%d %d", k, seed)), 0644)
		}
		tape := NewTape(seed)
		armRun(rig, tier, tape, "")
		arm(seed, runTimeout)
		res := Execute(t, rig, tier, tape, known)
		disarm()
		armRun(nil, tier, nil, "")
		done++
		next = k + W
		if os.Getenv("VERIF_DIAG") != "" {
			if f, err := os.OpenFile(os.Getenv("VERIF_DIAG"), os.O_APPEND|os.O_CREATE|os.O_WRONLY, 0644); err == nil {
				fmt.Fprintf(f, "DIAG run %d seed=%d goroutines=%d at=%s\n", done, seed, runtime.NumGoroutine(), time.Now().Format("15:04:05.000"))
				f.Close()
			}
		}
		if res.Harness != "" {
			emit(workerLine{Kind: "harness", Msg: fmt.Sprintf("seed=%d: %s", seed, res.Harness)})
			if stopPath != "" {
				os.WriteFile(stopPath, []byte("stop"), 0644)
			}
			break
		}
		if len(res.Violations) > 0 {
			v := res.Violations[0]
			streams := tape.Streams()
			before := countDraws(streams)
			path := filepath.Join(outRoot(), "replays", fmt.Sprintf("%s-%d.json", prop, seed))
			os.MkdirAll(filepath.Dir(path), 0755)
			if ub, err := json.MarshalIndent(&ReplayFile{Property: prop, Rig: rig.Name, Tier: tier, Seed: seed, Tape: streams, Violation: v, Shrunk: false, Trace: res.Sample}, "", " "); err == nil {
				os.WriteFile(path, ub, 0644)
				pl, _ := json.Marshal(workerLine{Kind: "violation", Worker: w, Res: res, Replay: path})
				watchdog.Lock()
				watchdog.pending = pl
				watchdog.Unlock()
			}
			arm(seed, 4*time.Minute)
			var shrunk map[string][]uint64
			cands := 0
			if os.Getenv("VERIF_NOSHRINK") != "" {
				shrunk = streams
			} else {
				shrunk, cands = Shrink(t, rig, tier, seed, streams, v, known, 400, 90*time.Second)
			}
			disarm()
			// final execution of the shrunk tape to record its own message/trace
			arm(seed, runTimeout)
			fin := Execute(t, rig, tier, ReplayTape(seed, shrunk), known)
			disarm()
			watchdog.Lock()
			watchdog.pending = nil
			watchdog.Unlock()
			vv := v
			for _, x := range fin.Violations {
				if x.Class == v.Class && x.Key == v.Key {
					vv = x
				}
			}
			rf := &ReplayFile{Property: prop, Rig: rig.Name, Tier: tier, Seed: seed, Tape: shrunk, Violation: vv,
				Shrunk: true, Cands: cands, DrawsFrom: before, DrawsTo: countDraws(shrunk), Trace: fin.Sample}
			b, _ := json.MarshalIndent(rf, "", " ")
			os.WriteFile(path, b, 0644)
			emit(workerLine{Kind: "violation", Res: res, Replay: path})
			if stopPath != "" {
				os.WriteFile(stopPath, []byte("stop"), 0644)
			}
			break
		}
		if done > 3 {
			res.Sample = nil // keep the result file small
		}
		emit(workerLine{Kind: "run", Res: res})
	}
	if d := os.Getenv("VERIF_DIAG"); d != "" {
		if f, err := os.OpenFile(d, os.O_APPEND|os.O_CREATE|os.O_WRONLY, 0644); err == nil {
			pprof.Lookup("goroutine").WriteTo(f, 1)
			f.Close()
		}
	}
	emit(workerLine{Kind: "done", Msg: strconv.Itoa(next)})
}

func countDraws(m map[string][]uint64) int {
	n := 0
	for _, v := range m {
		n += len(v)
	}
	return n
}

// ---------------------------------------------------------------- replay

func replayMain(t *testing.T, prop string) {
	rig := RigFor(prop)
	path := os.Getenv("VERIF_REPLAY")
	b, err := os.ReadFile(path)
	if err != nil {
		fmt.Printf("HARNESS: cannot read replay file: %v\n", err)
		os.Exit(2)
	}
	var rf ReplayFile
	if err := json.Unmarshal(b, &rf); err != nil {
		fmt.Printf("HARNESS: bad replay file: %v\n", err)
		os.Exit(2)
	}
	// listed known findings stay non-fatal during a replay (the run continues
	// past them exactly as it did when the file was recorded), except the key
	// the file itself is about: a replay file OF a known finding reproduces it
	known := loadKnown(prop)
	if rf.Violation != nil {
		delete(known, rf.Violation.Key)
	}
	startWatchdog()
	armRun(rig, rf.Tier, nil, path)
	arm(rf.Seed, 10*time.Minute)
	tape := ReplayTape(rf.Seed, rf.Tape)
	if rf.Crash {
		tape = NewTape(rf.Seed)
	}
	res := Execute(t, rig, rf.Tier, tape, known)
	disarm()
	if rf.Crash {
		// the run came back: the process crash did not happen again
		fmt.Printf("NOT REPRODUCED (the run regenerated from seed %d completed without killing the process)\n", rf.Seed)
		os.Exit(0)
	}
	if res.Harness != "" {
		fmt.Printf("HARNESS: %s\n", res.Harness)
		os.Exit(2)
	}
	for _, v := range res.Violations {
		if rf.Violation == nil || (v.Class == rf.Violation.Class && v.Key == rf.Violation.Key) {
			fmt.Printf("REPRODUCED class=%s key=%s\n  %s\n", v.Class, v.Key, v.Message)
			if res.Sample != nil {
				sb, _ := json.MarshalIndent(res.Sample, "  ", " ")
				fmt.Printf("  trace: %s\n", sb)
			}
			fmt.Printf("VIOLATION property=%s replay=%s\n", prop, path)
			os.Exit(1)
		}
	}
	if len(res.Violations) > 0 {
		fmt.Printf("DIFFERENT violation on replay: %s\n", res.Violations[0])
		os.Exit(4)
	}
	fmt.Printf("NOT REPRODUCED\n")
	os.Exit(0)
}

// ---------------------------------------------------------------- parent

func parentMain(prop string) int {
	rig := RigFor(prop)
	if rig == nil {
		fmt.Printf("HARNESS: no rig registered for %s\n", prop)
		return 2
	}
	tier := tierFromEnv()
	base := seedFromEnv()
	runs, budget := rig.QuickRuns, rig.QuickBudget
	if tier == Thorough {
		runs, budget = rig.ThoroughRuns, rig.ThoroughBudget
	}
	runs = envInt("VERIF_RUNS", runs)
	if s := os.Getenv("VERIF_BUDGET"); s != "" {
		if d, err := time.ParseDuration(s); err == nil {
			budget = d
		}
	}
	if budget == 0 {
		budget = 60 * time.Second
	}
	W := envInt("VERIF_WORKERS", runtime.NumCPU())
	if W > runs {
		W = runs
	}
	if W < 1 {
		W = 1
	}
	procs := rig.MaxProcs
	if procs == 0 {
		procs = 1
	}
	start := time.Now()
	deadline := start.Add(budget)
	exe, _ := os.Executable()
	tmp, err := os.MkdirTemp(filepath.Join(outRoot(), "build"), "run-"+prop+"-")
	if err != nil {
		fmt.Printf("HARNESS: %v\n", err)
		return 2
	}
	defer os.RemoveAll(tmp)
	stop := filepath.Join(tmp, "stop")
	// per-worker scratch for the real files of the code under test (WAL,
	// validator key file, kv wal): on tmpfs when available, fsync is the
	// dominant cost otherwise
	scratchBase := tmp
	if st, err := os.Stat("/dev/shm"); err == nil && st.IsDir() {
		if d, err := os.MkdirTemp("/dev/shm", "verif-"+prop+"-"); err == nil {
			scratchBase = d
			defer os.RemoveAll(d)
		}
	}

	fmt.Printf("SEED %d property=%s rig=%s tier=%s runs=%d workers=%d budget=%s\n", base, prop, rig.Name, tier, runs, W, budget)

	var wg sync.WaitGroup
	outs := make([]string, W)
	harness := make([]string, W)
	crashes := make([]int, W)
	var crashMu sync.Mutex
	var crashReplays []string
	for w := 0; w < W; w++ {
		outs[w] = filepath.Join(tmp, fmt.Sprintf("w%d.jsonl", w))
		wg.Add(1)
		go func(w int) {
			defer wg.Done()
			first := w
			for {
				if time.Now().After(deadline) || first >= runs {
					return
				}
				if _, err := os.Stat(stop); err == nil {
					return
				}
				cmd := exec.Command(exe, "-test.run", "^TestSim$", "-test.count=1", "-test.timeout=0")
				cmd.Env = append(os.Environ(),
					"VERIF_MODE=worker",
					"VERIF_WORKER="+strconv.Itoa(w),
					"VERIF_NWORKERS="+strconv.Itoa(W),
					"VERIF_FIRST="+strconv.Itoa(first),
					"VERIF_TOTAL="+strconv.Itoa(runs),
					"VERIF_MAXRUNS="+strconv.Itoa(rig.RunsPerProcess),
					"VERIF_DEADLINE="+strconv.FormatInt(deadline.Unix(), 10),
					"VERIF_OUT="+outs[w],
					"VERIF_STOP="+stop,
					"VERIF_SCRATCH="+filepath.Join(scratchBase, fmt.Sprintf("scratch%d", w)),
					"GOMAXPROCS="+strconv.Itoa(procs),
				)
				logf, _ := os.Create(filepath.Join(tmp, fmt.Sprintf("w%d.log", w)))
				cmd.Stdout, cmd.Stderr = logf, logf
				err := cmd.Run()
				logf.Close()
				// find where this process stopped
				nxt, sawDone := lastDone(outs[w])
				if (err != nil || !sawDone) && rig.OnCrash != nil && crashes[w] < 3 {
					// the process died: a Go runtime crash (unrecovered panic / fatal
					// error) is handed to the rig, which may classify it as a violation
					logText := tailFile(filepath.Join(tmp, fmt.Sprintf("w%d.log", w)), 400)
					if isRuntimeCrash(logText) {
						var k int
						var seed uint64
						if cb, rerr := os.ReadFile(outs[w] + ".cur"); rerr == nil {
							if _, serr := fmt.Sscanf(string(cb), "%d %d", &k, &seed); serr == nil {
								if class, key, msg, ok := rig.OnCrash(logText); ok {
									crashes[w]++
									rf := ReplayFile{Property: prop, Rig: rig.Name, Tier: tier, Seed: seed, Crash: true, CrashLog: lastLines(crashExcerpt(logText), 60),
										Violation: &Violation{Class: class, Key: key, Message: msg}}
									rp := filepath.Join(outRoot(), "replays", fmt.Sprintf("%s-%d.json", prop, seed))
									os.MkdirAll(filepath.Dir(rp), 0755)
									jb, _ := json.MarshalIndent(rf, "", " ")
									os.WriteFile(rp, jb, 0644)
									crashMu.Lock()
									crashReplays = append(crashReplays, rp)
									crashMu.Unlock()
									first = k + W
									continue
								}
							}
						}
					}
				}
				if err != nil || !sawDone {
					tail := tailFile(filepath.Join(tmp, fmt.Sprintf("w%d.log", w)), 30)
					harness[w] = fmt.Sprintf("worker %d exited abnormally (%v); log tail:\n%s", w, err, tail)
					os.WriteFile(stop, []byte("stop"), 0644)
					return
				}
				if nxt <= first {
					return
				}
				first = nxt
			}
		}(w)
	}
	wg.Wait()

	// merge
	agg := newAggregate(rig, prop, tier, base)
	var violReplays []string
	for w := 0; w < W; w++ {
		f, err := os.Open(outs[w])
		if err != nil {
			continue
		}
		sc := bufio.NewScanner(f)
		sc.Buffer(make([]byte, 1<<20), 64<<20)
		for sc.Scan() {
			var l workerLine
			if json.Unmarshal(sc.Bytes(), &l) != nil {
				continue
			}
			switch l.Kind {
			case "run":
				agg.add(l.Res)
			case "violation":
				agg.add(l.Res)
				violReplays = append(violReplays, l.Replay)
			case "harness":
				harness[w] = l.Msg + "\n" + harness[w]
			}
		}
		f.Close()
	}
	agg.wall = time.Since(start)

	exit := 0
	var confirmed []string
	sort.Strings(violReplays)
	seenKey := map[string]bool{}
	for _, rp := range violReplays {
		if k := replayKey(rp); seenKey[k] {
			os.Remove(rp) // same violation key already reported from another seed
			continue
		} else {
			seenKey[k] = true
		}
		// confirm in a fresh process
		cmd := exec.Command(exe, "-test.run", "^TestSim$", "-test.count=1", "-test.timeout=0")
		cmd.Env = append(os.Environ(), "VERIF_MODE=replay", "VERIF_REPLAY="+rp, "GOMAXPROCS="+strconv.Itoa(procs),
			"VERIF_SCRATCH="+filepath.Join(scratchBase, "scratch-replay"))
		outb, err := cmd.CombinedOutput()
		code := 0
		if ee, ok := err.(*exec.ExitError); ok {
			code = ee.ExitCode()
		}
		if code == 1 && strings.Contains(string(outb), "VIOLATION property=") {
			confirmed = append(confirmed, rp)
			for _, ln := range strings.Split(string(outb), "\n") {
				if strings.HasPrefix(ln, "REPRODUCED") || strings.HasPrefix(ln, "  ") && !strings.HasPrefix(ln, "  trace") {
					fmt.Println(ln)
				}
			}
		} else {
			fmt.Printf("HARNESS: violation in %s did not reproduce from its own tape in a fresh process (exit %d)\n%s\n", rp, code, lastLines(string(outb), 15))
			exit = 2
		}
	}
	sort.Strings(crashReplays)
	for _, rp := range crashReplays {
		rf, ok := readReplay(rp)
		if !ok {
			continue
		}
		k := rf.Violation.Class + "|" + rf.Violation.Key
		if seenKey[k] {
			os.Remove(rp)
			continue
		}
		seenKey[k] = true
		if what, isKnown := agg.knownWhat[rf.Violation.Key]; isKnown {
			_ = what
			agg.knownSeen[rf.Violation.Key]++
			os.Remove(rp)
			continue
		}
		switch crashReplay(prop, rp, rf, false) {
		case 1:
			confirmed = append(confirmed, rp)
		default:
			fmt.Printf("HARNESS: process crash recorded in %s did not reproduce from its seed in a fresh process\n", rp)
			exit = 2
		}
	}
	for _, h := range harness {
		if strings.TrimSpace(h) != "" {
			fmt.Printf("HARNESS: %s\n", strings.TrimSpace(h))
			exit = 2
		}
	}
	agg.violations = len(confirmed)
	if agg.runs == 0 && exit == 0 {
		fmt.Printf("HARNESS: no run completed\n")
		exit = 2
	}
	if err := agg.writeEvidence(); err != nil {
		fmt.Printf("HARNESS: evidence: %v\n", err)
		if exit == 0 {
			exit = 2
		}
	}
	agg.printSummary()
	for _, k := range agg.knownKeys() {
		fmt.Printf("KNOWN-FINDING: property=%s %s — %s\n", prop, k, agg.knownWhat[k])
	}
	for _, rp := range confirmed {
		fmt.Printf("VIOLATION property=%s replay=%s\n", prop, rp)
		exit = 1
	}
	return exit
}

func replayKey(path string) string {
	b, err := os.ReadFile(path)
	if err != nil {
		return path
	}
	var rf ReplayFile
	if json.Unmarshal(b, &rf) != nil || rf.Violation == nil {
		return path
	}
	return rf.Violation.Class + "|" + rf.Violation.Key
}

func lastDone(path string) (int, bool) {
	f, err := os.Open(path)
	if err != nil {
		return 0, false
	}
	defer f.Close()
	sc := bufio.NewScanner(f)
	sc.Buffer(make([]byte, 1<<20), 64<<20)
	nxt, saw := 0, false
	for sc.Scan() {
		var l workerLine
		if json.Unmarshal(sc.Bytes(), &l) != nil {
			continue
		}
		saw = false
		if l.Kind == "done" {
			nxt, _ = strconv.Atoi(l.Msg)
			saw = true
		}
	}
	return nxt, saw
}

func tailFile(path string, n int) string {
	b, err := os.ReadFile(path)
	if err != nil {
		return ""
	}
	return lastLines(string(b), n)
}

func lastLines(s string, n int) string {
	lines := strings.Split(strings.TrimRight(s, "\n"), "\n")
	if len(lines) > n {
		lines = lines[len(lines)-n:]
	}
	return strings.Join(lines, "\n")
}

// ---------------------------------------------------------------- process crashes

func readReplay(path string) (ReplayFile, bool) {
	var rf ReplayFile
	b, err := os.ReadFile(path)
	if err != nil || json.Unmarshal(b, &rf) != nil || rf.Violation == nil {
		return rf, false
	}
	return rf, true
}

// isRuntimeCrash: the log of a process the Go runtime killed (not the
// kernel's own watchdog, which exits with "HARNESS: watchdog").
func isRuntimeCrash(log string) bool {
	if strings.Contains(log, "HARNESS: watchdog") {
		return false
	}
	return strings.Contains(log, "\npanic: ") || strings.HasPrefix(log, "panic: ") || strings.Contains(log, "fatal error: ") || strings.Contains(log, "[signal SIG")
}

// crashExcerpt cuts the log down to the crash report (from "panic:" / "fatal error:").
func crashExcerpt(log string) string {
	for _, mark := range []string{"\npanic: ", "\nfatal error: "} {
		if i := strings.Index(log, mark); i >= 0 {
			return log[i+1:]
		}
	}
	return log
}

// CrashSite returns the panic value line and the first frame of the crashing
// goroutine that lies in a package whose import path contains pkgPart (the
// code under test), e.g. "consensus.(*ConsensusReactor).Receive".
func CrashSite(log, pkgPart string) (value, site string) {
	ex := crashExcerpt(log)
	lines := strings.Split(ex, "\n")
	if len(lines) > 0 {
		value = strings.TrimSpace(lines[0])
		if len(value) > 200 {
			value = value[:200]
		}
	}
	inGoroutine := false
	for _, ln := range lines {
		if strings.HasPrefix(ln, "goroutine ") {
			if inGoroutine {
				break // only the crashing goroutine (the first one printed)
			}
			inGoroutine = true
			continue
		}
		if !inGoroutine || strings.HasPrefix(ln, "\t") || strings.HasPrefix(ln, " ") {
			continue
		}
		if i := strings.Index(ln, pkgPart); i >= 0 {
			fn := ln[i+len(pkgPart):]
			if j := strings.LastIndex(fn, "("); j > 0 {
				fn = fn[:j]
			}
			fn = strings.TrimPrefix(fn, "/")
			// drop closure suffixes and addresses that may vary
			if j := strings.Index(fn, ".func"); j > 0 {
				fn = fn[:j]
			}
			return value, fn
		}
	}
	return value, ""
}

// crashReplay regenerates the run of a crash replay file in a child process
// and reports whether the child dies at the same site. Returns 1 (reproduced,
// REPRODUCED/VIOLATION lines printed when verbose or confirming), 0 (not
// reproduced) or 2 (trouble).
func crashReplay(prop, path string, rf ReplayFile, standalone bool) int {
	rig := RigFor(prop)
	if rig.OnCrash == nil {
		fmt.Printf("HARNESS: %s is a process-crash replay but rig %s has no crash classifier\n", path, rig.Name)
		return 2
	}
	exe, _ := os.Executable()
	procs := rig.MaxProcs
	if procs == 0 {
		procs = 1
	}
	scratch, _ := os.MkdirTemp("", "verif-crashreplay-")
	defer os.RemoveAll(scratch)
	cmd := exec.Command(exe, "-test.run", "^TestSim$", "-test.count=1", "-test.timeout=0")
	cmd.Env = append(os.Environ(), "VERIF_MODE=replay", "VERIF_CRASHCHILD=1", "VERIF_REPLAY="+path, "GOMAXPROCS="+strconv.Itoa(procs), "VERIF_SCRATCH="+scratch)
	outb, _ := cmd.CombinedOutput()
	log := string(outb)
	if isRuntimeCrash(log) {
		if class, key, msg, ok := rig.OnCrash(log); ok && class == rf.Violation.Class && key == rf.Violation.Key {
			fmt.Printf("REPRODUCED class=%s key=%s\n  %s\n", class, key, msg)
			ex := strings.Split(crashExcerpt(log), "\n")
			for _, ln := range ex[:minInt(14, len(ex))] {
				fmt.Printf("    %s\n", ln)
			}
			if standalone {
				fmt.Printf("VIOLATION property=%s replay=%s\n", prop, path)
			}
			return 1
		} else if ok {
			fmt.Printf("DIFFERENT violation: the child died at %s|%s, the file is about %s|%s\n", class, key, rf.Violation.Class, rf.Violation.Key)
			if standalone {
				return 4
			}
			return 0
		}
	}
	if standalone {
		fmt.Printf("NOT REPRODUCED\n%s\n", lastLines(log, 5))
	}
	return 0
}

func minInt(a, b int) int {
	if a < b {
		return a
	}
	return b
}
