// Package simnode assembles linkchain's real execution pipeline and consensus
// objects over the simulated disk, the way cmd/commands/init.go and
// node.NewNode do, without sockets, RPC or key stores.
package simnode

import (
	"encoding/binary"
	"encoding/hex"
	"encoding/json"
	"fmt"
	"math/big"
	"sort"
	"strings"

	bc "github.com/lianxiangcloud/linkchain/blockchain"
	"github.com/lianxiangcloud/linkchain/config"
	cs "github.com/lianxiangcloud/linkchain/consensus"
	cc "github.com/lianxiangcloud/linkchain/contract/contractcodes"
	"github.com/lianxiangcloud/linkchain/libs/common"
	"github.com/lianxiangcloud/linkchain/libs/crypto"
	"github.com/lianxiangcloud/linkchain/libs/log"
	"github.com/lianxiangcloud/linkchain/state"
	"github.com/lianxiangcloud/linkchain/types"

	wasmvm "github.com/xunleichain/tc-wasm/vm"

	"verif/sim/simdb"
)

// ValKey is one validator identity of the simulated chain.
type ValKey struct {
	Priv     crypto.PrivKeyEd25519
	Power    int64
	CoinBase common.Address
}

// PubKey returns the validator's public key.
func (v ValKey) PubKey() crypto.PubKey { return v.Priv.PubKey() }

// Address returns the validator address.
func (v ValKey) Address() []byte { return v.Priv.PubKey().Address() }

// Alloc is a genesis account.
type Alloc struct {
	Addr    common.Address
	Balance *big.Int
	Nonce   uint64
}

// CandidateSpec is one record of the candidates contract storage.
type CandidateSpec struct {
	Key     ValKey
	Score   int64
	Deposit *big.Int // in wei; written to the pledge contract's electorsMap
}

// GenesisSpec describes the simulated chain's genesis.
type GenesisSpec struct {
	ChainID    string
	Vals       []ValKey
	Alloc      []Alloc
	IsTrie     bool
	PartSize   int
	VotePeriod uint64 // 0: no coefficient record (the default applies)
	Candidates []CandidateSpec
	Time       uint64
	// CoefficientContract deploys the REAL genesis Coefficient wasm contract
	// (contract/contractcodes.CoefficientCodes, initialised like
	// cmd/commands/init.go initWasmContract does) instead of a bare storage
	// record, and gives the committee right "coefficient" to Governor, so that
	// Governor's transactions updateVotePeriod / updateVoteRate / updateCalRate /
	// updateMaxScore / updateUTXOFee change the chain's coefficients. VotePeriod
	// > 0 replaces the contract's initial period (1321).
	CoefficientContract bool
	Governor            common.Address
}

// DB names used by node.NewNode.
const (
	DBBlockStore    = "blockstore"
	DBBalanceRecord = "balance_record"
	DBTxMgr         = "txmgr"
	DBStatus        = "consensus_state"
	DBState         = "state"
	DBEvidence      = "evidence"
	DBUtxo          = "utxo"
	DBUtxoOutput    = "utxo_output"
	DBUtxoOutputTok = "utxo_output_token"
)

// tlv helpers: the layout state/state_contract.go reads.
const (
	tagString = byte(6)
	tagArray  = byte(7)
)

func packStringKey(key1, key2 string) []byte {
	out := make([]byte, 0, len(key1)+len(key2)+3)
	out = append(out, key1...)
	out = append(out, tagString)
	var b [2]byte
	binary.LittleEndian.PutUint16(b[:], uint16(len(key2)))
	out = append(out, b[:]...)
	out = append(out, key2...)
	return out
}

func packStringV(strs []string) []byte {
	out := []byte{tagArray}
	var b [2]byte
	binary.LittleEndian.PutUint16(b[:], uint16(len(strs)))
	out = append(out, b[:]...)
	for _, s := range strs {
		out = append(out, tagString)
		binary.LittleEndian.PutUint16(b[:], uint16(len(s)))
		out = append(out, b[:]...)
		out = append(out, s...)
	}
	return out
}

// packJSONValue wraps a JSON document the way the WASM contracts store an
// object string: 3 bytes of header (tag + 2 length bytes) and a trailing NUL.
func packJSONValue(js []byte) []byte {
	out := []byte{tagString}
	var b [2]byte
	binary.LittleEndian.PutUint16(b[:], uint16(len(js)+1))
	out = append(out, b[:]...)
	out = append(out, js...)
	out = append(out, 0)
	return out
}

func pubKeyString(pk crypto.PubKey) string {
	return "0x" + hex.EncodeToString(pk.Bytes()) + string(rune(0))
}

// WriteWhiteList writes the validator white-list contract storage.
func WriteWhiteList(st *state.StateDB, vals []ValKey) {
	addr := config.ContractValidatorsAddr
	if !st.Exist(addr) {
		st.CreateAccount(addr)
		st.SetNonce(addr, 1)
	}
	keys := make([]string, 0, len(vals))
	for _, v := range vals {
		k := pubKeyString(v.PubKey())
		keys = append(keys, k)
		js, _ := json.Marshal(state.ValidatorJSON{PubKey: "0x" + hex.EncodeToString(v.PubKey().Bytes()), CoinBase: v.CoinBase, VotingPower: v.Power})
		st.SetState(addr, crypto.Keccak256Hash(packStringKey("Validator", k)), packJSONValue(js))
	}
	st.SetState(addr, crypto.Keccak256Hash([]byte("ValidatorList")), packStringV(keys))
}

// WriteCoefficient writes the coefficient contract record.
func WriteCoefficient(st *state.StateDB, co state.CoefficientJSON) {
	addr := config.ContractCoefficientAddr
	if !st.Exist(addr) {
		st.CreateAccount(addr)
		st.SetNonce(addr, 1)
	}
	js, _ := json.Marshal(co)
	st.SetState(addr, crypto.Keccak256Hash([]byte("Coefficient")), packJSONValue(js))
}

// WriteCandidates writes the candidates contract records and their deposits.
func WriteCandidates(st *state.StateDB, cands []CandidateSpec) {
	addr := config.ContractCandidatesAddr
	if !st.Exist(addr) {
		st.CreateAccount(addr)
		st.SetNonce(addr, 1)
	}
	pledge := config.ContractPledgeAddr
	if !st.Exist(pledge) {
		st.CreateAccount(pledge)
		st.SetNonce(pledge, 1)
	}
	keys := make([]string, 0, len(cands))
	for _, c := range cands {
		k := pubKeyString(c.Key.PubKey())
		keys = append(keys, k)
		js, _ := json.Marshal(state.CandidateJSON{PubKey: "0x" + hex.EncodeToString(c.Key.PubKey().Bytes()), CoinBase: c.Key.CoinBase, VotingPower: c.Key.Power, Score: c.Score})
		st.SetState(addr, crypto.Keccak256Hash(packStringKey("cand", k)), packJSONValue(js))
		if c.Deposit != nil {
			dep := c.Deposit.String()
			// tagObj, tagString, len(2), string+NUL  (GetCandidatesDeposit reads value[2:4] as length, value[4:4+len-1])
			v := []byte{1, tagString} // first byte non-zero: storage trims leading zero bytes
			var b [2]byte
			binary.LittleEndian.PutUint16(b[:], uint16(len(dep)+1))
			v = append(v, b[:]...)
			v = append(v, dep...)
			v = append(v, 0)
			st.SetState(pledge, crypto.Keccak256Hash(packStringKey("electorsMap", c.Key.CoinBase.String()+string(rune(0)))), v)
		}
	}
	st.SetState(addr, crypto.Keccak256Hash([]byte("pubkeys")), packStringV(keys))
}

// DeployGenesisWasm installs a genesis wasm contract and runs its init entry
// exactly like cmd/commands/init.go initWasmContract.
func DeployGenesisWasm(st *state.StateDB, addr common.Address, codeHex string) error {
	code := common.Hex2Bytes(codeHex)
	st.CreateAccount(addr)
	st.SetNonce(addr, 1)
	st.SetCode(addr, code)
	ic := wasmvm.NewContract(common.EmptyAddress.Bytes(), addr.Bytes(), big.NewInt(0), uint64(1000000000000000000))
	ic.SetCallCode(addr.Bytes(), crypto.Keccak256Hash(code).Bytes(), code)
	ic.Input = []byte("init|{}")
	ic.CreateCall = true
	eng := wasmvm.NewEngine(ic, ic.Gas, st, log.NewNopLogger())
	wapp, err := eng.NewApp(ic.Address().String(), ic.Code, false)
	if err != nil {
		return err
	}
	wapp.EntryFunc = wasmvm.APPEntry
	_, err = eng.Run(wapp, ic.Input)
	return err
}

// WriteCommitteeRight writes one entry of the committee contract's "right"
// map (what the inner contracts read through TC_ContractStoragePureGet):
// owner holds the named right.
func WriteCommitteeRight(st *state.StateDB, right string, owner common.Address) {
	addr := config.ContractCommitteeAddr
	if !st.Exist(addr) {
		st.CreateAccount(addr)
		st.SetNonce(addr, 1)
	}
	var b [2]byte
	key := append([]byte("right"), tagString)
	binary.LittleEndian.PutUint16(b[:], uint16(len(right)+1))
	key = append(append(append(key, b[:]...), right...), 0)
	own := "0x" + hex.EncodeToString(owner.Bytes()) + string(rune(0))
	val := []byte{tagString}
	binary.LittleEndian.PutUint16(b[:], uint16(len(own)))
	val = append(append(val, b[:]...), own...)
	st.SetState(addr, crypto.Keccak256Hash(key), val)
}

// DeployCoefficientContract deploys the real Coefficient contract, hands the
// right "coefficient" to governor and, if votePeriod > 0, replaces the initial
// vote period in the record the contract's init wrote (its own JSON layout).
func DeployCoefficientContract(st *state.StateDB, governor common.Address, votePeriod uint64) error {
	if err := DeployGenesisWasm(st, config.ContractCoefficientAddr, cc.CoefficientCodes); err != nil {
		return err
	}
	WriteCommitteeRight(st, "coefficient", governor)
	slot := crypto.Keccak256Hash([]byte("Coefficient"))
	rec := st.GetState(config.ContractCoefficientAddr, slot)
	if len(rec) <= 4 {
		return fmt.Errorf("init wrote no coefficient record")
	}
	if votePeriod > 0 {
		js := string(rec[3 : len(rec)-1])
		const was = `"VotePeriod":1321`
		if !strings.Contains(js, was) {
			return fmt.Errorf("unexpected initial record %q", js)
		}
		js = strings.Replace(js, was, fmt.Sprintf(`"VotePeriod":%d`, votePeriod), 1)
		st.SetState(config.ContractCoefficientAddr, slot, packJSONValue([]byte(js)))
	}
	if co := st.GetCoefficient(log.NewNopLogger()); co == nil || (votePeriod > 0 && co.VotePeriod != votePeriod) {
		return fmt.Errorf("coefficient record unreadable after deployment: %+v", co)
	}
	return nil
}

// GenesisDoc returns the consensus genesis document of the spec.
func (g *GenesisSpec) GenesisDoc() *types.GenesisDoc {
	params := types.DefaultConsensusParams()
	if g.PartSize > 0 {
		params.BlockGossip.BlockPartSizeBytes = g.PartSize
	}
	doc := &types.GenesisDoc{ChainID: g.ChainID, GenesisTime: "2000-01-01", ConsensusParams: params}
	for _, v := range g.Vals {
		doc.Validators = append(doc.Validators, types.GenesisValidator{PubKey: v.PubKey(), Power: v.Power, CoinBase: v.CoinBase})
	}
	return doc
}

// Install writes the genesis block, state and consensus status to disk, the
// way `lkchain init` does (createGenesisBlock + createConsensusStatus), with
// the validator white list equal to the genesis validators.
func (g *GenesisSpec) Install(disk *simdb.Disk) error {
	doc := g.GenesisDoc()
	stateDB := disk.DB(DBState)
	storeState, err := state.New(common.EmptyHash, state.NewKeyValueDBWithCache(stateDB, 0, g.IsTrie, 0))
	if err != nil {
		return err
	}
	blockStore := bc.NewBlockStore(disk.DB(DBBlockStore))
	blockStore.SaveInitHeight(types.BlockHeightZero)

	allocs := append([]Alloc(nil), g.Alloc...)
	sort.Slice(allocs, func(i, j int) bool { return allocs[i].Addr.String() < allocs[j].Addr.String() })
	for _, a := range allocs {
		storeState.AddBalance(a.Addr, a.Balance)
		storeState.SetNonce(a.Addr, a.Nonce)
	}
	WriteWhiteList(storeState, g.Vals)
	if g.CoefficientContract {
		if err := DeployCoefficientContract(storeState, g.Governor, g.VotePeriod); err != nil {
			return fmt.Errorf("coefficient contract: %v", err)
		}
	} else if g.VotePeriod > 0 {
		def := types.DefaultCoefficient()
		WriteCoefficient(storeState, state.CoefficientJSON{VotePeriod: g.VotePeriod, VoteRate: def.VoteRate, CalRate: def.CalRate, MaxScore: def.MaxScore, UTXOFee: def.UTXOFee.String()})
	}
	if len(g.Candidates) > 0 {
		WriteCandidates(storeState, g.Candidates)
	}

	t := g.Time
	if t == 0 {
		t = 946684800 // 2000-01-01, the bubble's epoch
	}
	header := &types.Header{
		ChainID:    g.ChainID,
		Height:     types.BlockHeightZero,
		Coinbase:   common.EmptyAddress,
		Time:       t,
		ParentHash: common.EmptyHash,
		StateHash:  common.EmptyHash,
		GasLimit:   doc.ConsensusParams.BlockSize.MaxGas,
	}
	stateHash := storeState.IntermediateRoot(false)
	trieRoot, err := storeState.Commit(false, header.Height)
	if err != nil {
		return err
	}
	storeState.Database().TrieDB().Commit(trieRoot, false)
	txsResult := types.TxsResult{TrieRoot: trieRoot, StateHash: stateHash}
	header.StateHash = stateHash
	block := &types.Block{Header: header, Data: &types.Data{}, LastCommit: &types.Commit{}}
	blockStore.SaveBlock(block, block.MakePartSet(doc.ConsensusParams.BlockGossip.BlockPartSizeBytes), nil, nil, &txsResult)

	brs := bc.NewBalanceRecordStore(disk.DB(DBBalanceRecord), false)
	types.BlockBalanceRecordsInstance.SetBlockTime(block.Time())
	types.BlockBalanceRecordsInstance.SetBlockHash(block.Hash())
	brs.Save(block.Height, types.BlockBalanceRecordsInstance)
	types.BlockBalanceRecordsInstance.Reset()

	if _, err := cs.CreateStatusFromGenesisDoc(disk.DB(DBStatus), doc); err != nil {
		return fmt.Errorf("status: %v", err)
	}
	return nil
}
