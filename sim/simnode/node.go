package simnode

import (
	"fmt"
	"net"
	"os/signal"
	"sync"
	"syscall"

	"github.com/lianxiangcloud/linkchain/app"
	bc "github.com/lianxiangcloud/linkchain/blockchain"
	cfg "github.com/lianxiangcloud/linkchain/config"
	cs "github.com/lianxiangcloud/linkchain/consensus"
	"github.com/lianxiangcloud/linkchain/evidence"
	cmn "github.com/lianxiangcloud/linkchain/libs/common"
	"github.com/lianxiangcloud/linkchain/libs/crypto"
	"github.com/lianxiangcloud/linkchain/libs/log"
	"github.com/lianxiangcloud/linkchain/libs/p2p"
	"github.com/lianxiangcloud/linkchain/libs/txmgr"
	mempl "github.com/lianxiangcloud/linkchain/mempool"
	"github.com/lianxiangcloud/linkchain/metrics"
	"github.com/lianxiangcloud/linkchain/types"
	"github.com/lianxiangcloud/linkchain/utxo"

	"verif/sim/simdb"
)

var metricsOnce sync.Once

// InitGlobals initialises the process-wide singletons the node code expects.
func InitGlobals() {
	metricsOnce.Do(func() {
		// cmn.Kill() (finalizeCommit on ApplyBlock failure) sends SIGTERM to the
		// own process; the simulator records the request through the log tap
		signal.Ignore(syscall.SIGTERM)
		log.Root().SetHandler(log.DiscardHandler())
		pk := crypto.GenPrivKeyEd25519FromSecret([]byte("verif-metrics")).PubKey()
		metrics.PrometheusMetricInstance.Init(cfg.DefaultConfig(), pk, log.NewNopLogger())
		metrics.PrometheusMetricInstance.SetRole(types.NodePeer)
		// a proposer key that never equals pk keeps the candidate-score metrics branch off
		metrics.PrometheusMetricInstance.SetCurrentProposerPubkey(crypto.GenPrivKeyEd25519FromSecret([]byte("verif-metrics-other")).PubKey())
	})
}

// Chain is the execution pipeline of one node over one simulated disk: the
// stores, the application and the mempool, assembled in the order of
// node.NewNode (including the "status is one block behind the store" rebuild).
type Chain struct {
	Disk       *simdb.Disk
	IsTrie     bool
	BlockStore *bc.BlockStore
	Balance    *bc.BalanceRecordStore
	TxService  *txmgr.Service
	UtxoStore  *utxo.UtxoStore
	EvStore    *evidence.EvidenceStore
	EvPool     *evidence.EvidencePool
	EventBus   *types.EventBus
	App        *app.LinkApplication
	BlockExec  *cs.BlockExecutor
	Mempool    *mempl.Mempool
	Status     cs.NewStatus
	Switch     *Switch
	Rebuilt    bool // the startup reconciliation applied a stored block
	Logger     log.Logger
}

// ChainOpts configures OpenChain.
type ChainOpts struct {
	IsTrie     bool
	MempoolCfg *cfg.MempoolConfig
	Logger     log.Logger
	Switch     *Switch
	WaitForTxs bool
}

// OpenChain assembles the pipeline over disk. It mirrors node.NewNode up to
// the construction of the mempool.
func OpenChain(disk *simdb.Disk, o ChainOpts) (*Chain, error) {
	InitGlobals()
	logger := o.Logger
	if logger == nil {
		logger = log.NewNopLogger()
	}
	c := &Chain{Disk: disk, IsTrie: o.IsTrie, Logger: logger, Switch: o.Switch}
	if c.Switch == nil {
		c.Switch = NewSwitch("node")
	}

	c.BlockStore = bc.NewBlockStore(disk.DB(DBBlockStore))
	initHeight, err := c.BlockStore.LoadInitHeight()
	if err != nil {
		return nil, fmt.Errorf("LoadInitHeight: %v", err)
	}
	types.UpdateBlockHeightZero(initHeight)
	c.Balance = bc.NewBalanceRecordStore(disk.DB(DBBalanceRecord), false)
	types.SaveBalanceRecord = false

	c.TxService = txmgr.NewCrossState(disk.DB(DBTxMgr), c.BlockStore)
	c.TxService.SetLogger(logger)
	c.BlockStore.SetCrossState(c.TxService)

	statusDB := disk.DB(DBStatus)
	status, err := cs.LoadStatus(statusDB)
	if err != nil {
		return nil, fmt.Errorf("LoadStatus: %v", err)
	}

	c.EventBus = types.NewEventBus()
	c.EventBus.SetLogger(logger)
	c.EvStore = evidence.NewEvidenceStore(disk.DB(DBEvidence))
	c.EvPool = evidence.NewEvidencePool(statusDB, c.EvStore, status.Copy())
	c.EvPool.SetLogger(logger)
	types.BlacklistInstance.Init(disk.DB(DBEvidence))

	c.UtxoStore = utxo.NewUtxoStore(disk.DB(DBUtxo), disk.DB(DBUtxoOutput), disk.DB(DBUtxoOutputTok))
	c.UtxoStore.SetLogger(logger)

	c.App, err = app.NewLinkApplication(disk.DB(DBState), c.BlockStore, c.UtxoStore, c.TxService, c.EventBus, o.IsTrie, c.Balance, app.SetPoceeds, app.AllocAward)
	if err != nil {
		return nil, fmt.Errorf("NewLinkApplication: %v", err)
	}
	c.App.SetLogger(logger)
	c.App.SetConm(p2p.VerifNewConManager(logger)) // node.NewNode hands the application the switch's connection manager

	c.BlockExec = cs.NewBlockExecutor(statusDB, logger, c.EvPool)

	appHeight := c.App.Height()
	if status.LastBlockHeight+1 == appHeight {
		blockMeta := c.App.LoadBlockMeta(appHeight)
		block := c.App.LoadBlock(appHeight)
		if blockMeta == nil || block == nil {
			return nil, types.ErrUnknownBlock
		}
		validators := c.App.GetValidators(appHeight)
		newStatus, err := c.BlockExec.ApplyBlock(status, blockMeta.BlockID, block, validators)
		if err != nil {
			return nil, fmt.Errorf("rebuild status: %v", err)
		}
		status = newStatus.Copy()
		c.Rebuilt = true
	}
	c.Status = status

	mc := o.MempoolCfg
	if mc == nil {
		mc = cfg.DefaultMempoolConfig()
		// no tx cache and no broadcast routine by default: the cache's expiry
		// goroutines can never be stopped (rigs about the cache pass their own config)
		mc.CacheSize = 0
		mc.Broadcast = false
	}
	c.Mempool = mempl.NewMempool(mc, status.LastBlockHeight, c.Switch)
	c.Mempool.SetLogger(logger)
	c.Mempool.SetApp(c.App)
	c.App.SetMempool(c.Mempool)
	if o.WaitForTxs {
		c.Mempool.EnableTxsAvailable()
	}
	return c, nil
}

// RegisterRate points the process-wide UTXO change-rate getter at this chain's
// application (NewLinkApplication registers a global; with several replicas in
// one process the acting one must re-register before it runs).
func (c *Chain) RegisterRate() {
	types.RegisterUTXORateGetter(types.NewUTXOChangeRateGetter(c.App.GetUTXOChangeRate))
}

// Close stops the goroutines the chain started.
func (c *Chain) Close() {
	if c.Mempool != nil {
		c.Mempool.Stop()
	}
}

// ---------------------------------------------------------------- switch stub

// Sent is one message handed to the (stub) p2p layer.
type Sent struct {
	ChID   byte
	PeerID string // "" = broadcast
	Except string // BroadcastE: all but this peer
	Msg    []byte
}

// Switch is a socket-free p2p.P2PManager: it records what reactors hand to it
// and forwards to an optional callback.
type Switch struct {
	cmn.BaseService
	mu       sync.Mutex
	name     string
	peers    map[string]p2p.Peer
	reactors map[string]p2p.Reactor
	OnSend   func(s Sent)
	Stopped  []StoppedPeer
}

// StoppedPeer records a StopPeerForError call.
type StoppedPeer struct {
	PeerID string
	Reason string
}

// NewSwitch returns a started stub switch.
func NewSwitch(name string) *Switch {
	s := &Switch{name: name, peers: map[string]p2p.Peer{}, reactors: map[string]p2p.Reactor{}}
	s.BaseService = *cmn.NewBaseService(nil, "SimSwitch", s)
	s.Start()
	return s
}

func (s *Switch) OnStart() error { return nil }
func (s *Switch) OnStop()        {}

// AddPeer registers a peer object.
func (s *Switch) AddPeer(p p2p.Peer) {
	s.mu.Lock()
	s.peers[p.ID()] = p
	s.mu.Unlock()
}

func (s *Switch) GetByID(peerID string) p2p.Peer {
	s.mu.Lock()
	defer s.mu.Unlock()
	return s.peers[peerID]
}

func (s *Switch) StopPeerForError(peer p2p.Peer, reason interface{}) {
	s.mu.Lock()
	id := ""
	if peer != nil {
		id = peer.ID()
	}
	s.Stopped = append(s.Stopped, StoppedPeer{id, fmt.Sprint(reason)})
	s.mu.Unlock()
}

func (s *Switch) Reactor(name string) p2p.Reactor { return s.reactors[name] }

func (s *Switch) AddReactor(name string, r p2p.Reactor) p2p.Reactor {
	s.reactors[name] = r
	return r
}

func (s *Switch) send(x Sent) chan bool {
	ch := make(chan bool, 1)
	ch <- true
	if f := s.OnSend; f != nil {
		f(x)
	}
	return ch
}

func (s *Switch) Broadcast(chID byte, msg []byte) chan bool {
	return s.send(Sent{ChID: chID, Msg: msg})
}

func (s *Switch) BroadcastE(chID byte, peerID string, msg []byte) chan bool {
	return s.send(Sent{ChID: chID, Except: peerID, Msg: msg})
}

type peerSet struct{ s *Switch }

func (ps peerSet) HasID(id string) bool       { return ps.s.GetByID(id) != nil }
func (ps peerSet) HasIP(ip string) bool       { return false }
func (ps peerSet) GetByID(id string) p2p.Peer { return ps.s.GetByID(id) }
func (ps peerSet) GetByIP(ip string) p2p.Peer { return nil }
func (ps peerSet) List() []p2p.Peer {
	ps.s.mu.Lock()
	defer ps.s.mu.Unlock()
	ids := make([]string, 0, len(ps.s.peers))
	for id := range ps.s.peers {
		ids = append(ids, id)
	}
	sortStrings(ids)
	out := make([]p2p.Peer, 0, len(ids))
	for _, id := range ids {
		out = append(out, ps.s.peers[id])
	}
	return out
}
func (ps peerSet) Size() int {
	ps.s.mu.Lock()
	defer ps.s.mu.Unlock()
	return len(ps.s.peers)
}

func (s *Switch) Peers() p2p.IPeerSet         { return peerSet{s} }
func (s *Switch) LocalNodeInfo() p2p.NodeInfo { return p2p.NodeInfo{Moniker: s.name} }
func (s *Switch) NumPeers() (outbound, inbound, dialing int) {
	return s.Peers().Size(), 0, 0
}
func (s *Switch) MarkBadNode(nodeInfo p2p.NodeInfo) {}
func (s *Switch) CloseAllConnection()               {}

var _ p2p.P2PManager = (*Switch)(nil)

// Peer is a socket-free p2p.Peer whose sends go to a callback.
type Peer struct {
	cmn.BaseService
	id     string
	mu     sync.Mutex
	data   map[string]interface{}
	OnSend func(chID byte, msg []byte) bool
}

// NewPeer returns a started stub peer.
func NewPeer(id string, onSend func(chID byte, msg []byte) bool) *Peer {
	p := &Peer{id: id, data: map[string]interface{}{}, OnSend: onSend}
	p.BaseService = *cmn.NewBaseService(nil, "SimPeer", p)
	p.Start()
	return p
}

func (p *Peer) OnStart() error { return nil }
func (p *Peer) OnStop()        {}
func (p *Peer) ID() string     { return p.id }
func (p *Peer) RemoteAddr() net.Addr {
	return &net.TCPAddr{IP: net.IPv4(10, 0, 0, 1), Port: 1}
}
func (p *Peer) NodeInfo() p2p.NodeInfo       { return p2p.NodeInfo{Moniker: p.id} }
func (p *Peer) IsOutbound() bool             { return true }
func (p *Peer) Status() p2p.ConnectionStatus { return p2p.ConnectionStatus{} }
func (p *Peer) Send(chID byte, msg []byte) bool {
	if p.OnSend != nil {
		return p.OnSend(chID, msg)
	}
	return true
}
func (p *Peer) TrySend(chID byte, msg []byte) bool { return p.Send(chID, msg) }
func (p *Peer) Close() error                       { return nil }
func (p *Peer) Set(key string, v interface{}) {
	p.mu.Lock()
	p.data[key] = v
	p.mu.Unlock()
}
func (p *Peer) Get(key string) interface{} {
	p.mu.Lock()
	defer p.mu.Unlock()
	return p.data[key]
}

var _ p2p.Peer = (*Peer)(nil)

func sortStrings(s []string) {
	for i := 1; i < len(s); i++ {
		for j := i; j > 0 && s[j] < s[j-1]; j-- {
			s[j], s[j-1] = s[j-1], s[j]
		}
	}
}
