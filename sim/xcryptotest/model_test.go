package xcryptotest

import (
	"bytes"
	"encoding/binary"
	"encoding/hex"
	"fmt"
	"math/big"
	mrand "math/rand"
	"sync"
	"testing"

	"github.com/btcsuite/btcutil/base58"
	"golang.org/x/crypto/sha3"

	"github.com/lianxiangcloud/linkchain/libs/cryptonote/ringct"
	lk "github.com/lianxiangcloud/linkchain/libs/cryptonote/types"
	"github.com/lianxiangcloud/linkchain/libs/cryptonote/xcrypto"
)

// ---------------------------------------------------------------------------
// helpers

func hx(s string) (k lk.Key) {
	b, err := hex.DecodeString(s)
	if err != nil || len(b) != 32 {
		panic("bad hex key " + s)
	}
	copy(k[:], b)
	return k
}

func d2h(v uint64) (k lk.Key) {
	binary.LittleEndian.PutUint64(k[:8], v)
	return k
}

func keccak(b ...[]byte) (out lk.Key) {
	h := sha3.NewLegacyKeccak256()
	for _, c := range b {
		h.Write(c)
	}
	h.Sum(out[:0])
	return out
}

// seedRand makes the model deterministic for the duration of one test.
func seedRand(t testing.TB, seed int64) {
	xcrypto.SetRand(mrand.New(mrand.NewSource(seed)))
	t.Cleanup(func() { xcrypto.SetRand(nil) })
}

// must unwraps a (Key, error) result; an error is a test bug or a model bug.
func must(k lk.Key, err error) lk.Key {
	if err != nil {
		panic(fmt.Sprintf("unexpected error: %v", err))
	}
	return k
}

var (
	identity = ringct.I
	zeroKey  = lk.Key{}
)

// ---------------------------------------------------------------------------
// constants and primitive vectors

func TestKeccakVectors(t *testing.T) {
	// first entries of the hashpair table in /repo/libs/cryptonote/xcrypto/data_test.go
	for _, v := range [][2]string{
		{"c5d2460186f7233c927e7db2dcc703c0e500b653ca82273b7bfad8045d85a470", ""},
		{"eead6dbfc7340a56caedc044696a168870549a6a7f6f56961e84a54bd9970b8a", "cc"},
		{"a8eaceda4d47b3281a795ad9e1ea2122b407baf9aabcb9e18b5717b7873537d2", "41fb"},
	} {
		in, _ := hex.DecodeString(v[1])
		if got := keccak(in); got != hx(v[0]) {
			t.Fatalf("keccak(%s) = %x", v[1], got)
		}
	}
}

func TestGeneratorH(t *testing.T) {
	one := d2h(1)
	if got := xcrypto.ScalarmultH(one); got != ringct.H {
		t.Fatalf("1*H = %x want %x", got, ringct.H)
	}
	if got := xcrypto.ScalarmultBase(one); got != ringct.G {
		t.Fatalf("1*G = %x want %x", got, ringct.G)
	}
	// H = 8 * toPoint(cn_fast_hash(G))   (rctTypes.h)
	h8 := must(xcrypto.Scalarmult8(keccak(ringct.G[:])))
	if h8 != ringct.H {
		t.Fatalf("8*toPoint(H(G)) = %x want %x", h8, ringct.H)
	}
	// INV_EIGHT * 8 == 1
	p := must(xcrypto.ScalarmultKey(ringct.H, ringct.INV_EIGHT))
	if back := must(xcrypto.Scalarmult8(p)); back != ringct.H {
		t.Fatalf("8*(H/8) != H")
	}
}

func TestKeyVectors(t *testing.T) {
	// vectors of /repo/libs/cryptonote/xcrypto/keys_test.go (produced by libxcrypto)
	spendSec := lk.SecretKey(hx("b0ef6bd527b9b23b9ceef70dc8b4cd1ee83ca14541964e764ad23f5151204f0f"))
	sk, pk := xcrypto.GenerateKeys(spendSec)
	if sk != spendSec {
		t.Fatalf("spend secret changed: %x", sk)
	}
	if lk.Key(pk) != hx("7d996b0f2db6dbb5f2a086211f2399a4a7479b2c911af307fdc3f7f61a88cb0e") {
		t.Fatalf("spend public = %x", pk)
	}
	// wallet.RecoveryKeyToAccount: view = generate_keys(keccak(spend secret))
	vsk, vpk := xcrypto.GenerateKeys(lk.SecretKey(keccak(sk[:])))
	if lk.Key(vsk) != hx("42ba20adb337e5eca797565be11c9adb0a8bef8c830bccc2df712535d3b8f608") {
		t.Fatalf("view secret = %x", vsk)
	}
	if lk.Key(vpk) != hx("1c06bcac7082f73af10460b5f2849aded79374b2fbdaae5d9384b9b6514fddcb") {
		t.Fatalf("view public = %x", vpk)
	}
	pk2, err := xcrypto.SecretKeyToPublicKey(sk)
	if err != nil || pk2 != pk {
		t.Fatalf("SecretKeyToPublicKey mismatch %x %v", pk2, err)
	}
	// not canonical -> error
	if _, err := xcrypto.SecretKeyToPublicKey(lk.SecretKey(ringct.L)); err == nil {
		t.Fatalf("SecretKeyToPublicKey(l) must fail")
	}

	// Subaddress vector of /repo/wallet/wallet/key_test.go TestGetSubaddr
	// (address of subaddress 1 of the account above, produced by libxcrypto).
	raw := base58.Decode("oHXav7gNves6vewvdMoBtwd3nNeM1sNBBQUdSggUVVB2XB7vg7JUXjntBpGx5LEkahq9yzRb25UuymoW8oYmnycV2hgYsb")
	if len(raw) != 1+32+32+4 {
		t.Fatalf("unexpected address length %d", len(raw))
	}
	acc := &lk.AccountKey{
		Addr:      lk.AccountAddress{SpendPublicKey: pk, ViewPublicKey: vpk},
		SpendSKey: sk, ViewSKey: vsk,
	}
	sub, err := xcrypto.TlvGetSubaddress(acc, 1)
	if err != nil {
		t.Fatal(err)
	}
	if !bytes.Equal(sub.SpendPublicKey[:], raw[1:33]) || !bytes.Equal(sub.ViewPublicKey[:], raw[33:65]) {
		t.Fatalf("subaddress 1 mismatch:\n got  %x %x\n want %x %x", sub.SpendPublicKey, sub.ViewPublicKey, raw[1:33], raw[33:65])
	}
	if main, _ := xcrypto.TlvGetSubaddress(acc, 0); main != acc.Addr {
		t.Fatalf("subaddress 0 must be the main address")
	}
}

func TestCheckKeyEdgeCases(t *testing.T) {
	cases := []struct {
		name string
		key  string
		ok   bool
	}{
		{"identity", "0100000000000000000000000000000000000000000000000000000000000000", true},
		{"y=0 (order 4)", "0000000000000000000000000000000000000000000000000000000000000000", true},
		{"y=0 sign bit (order 4)", "0000000000000000000000000000000000000000000000000000000000000080", true},
		{"y=-1 (order 2)", "ecffffffffffffffffffffffffffffffffffffffffffffffffffffffffffff7f", true},
		{"identity with sign bit (x=0, negative)", "0100000000000000000000000000000000000000000000000000000000000080", false},
		{"y=p (non canonical 0)", "edffffffffffffffffffffffffffffffffffffffffffffffffffffffffffff7f", false},
		{"y=p+1 (non canonical 1)", "eeffffffffffffffffffffffffffffffffffffffffffffffffffffffffffff7f", false},
		{"y=2^255-1", "ffffffffffffffffffffffffffffffffffffffffffffffffffffffffffffff7f", false},
		{"basepoint", "5866666666666666666666666666666666666666666666666666666666666666", true},
		{"not on curve", "0200000000000000000000000000000000000000000000000000000000000000", false},
	}
	for _, c := range cases {
		if got := xcrypto.CheckKey(lk.PublicKey(hx(c.key))); got != c.ok {
			t.Errorf("CheckKey(%s) = %v want %v", c.name, got, c.ok)
		}
	}
}

func TestScalarOps(t *testing.T) {
	seedRand(t, 1)
	for i := 0; i < 20; i++ {
		a, b := xcrypto.SkGen(), xcrypto.SkGen()
		s := xcrypto.ScAdd(lk.EcScalar(a), lk.EcScalar(b))
		if back := xcrypto.ScSub(lk.EcScalar(s), lk.EcScalar(b)); back != a {
			t.Fatalf("(a+b)-b != a")
		}
		// (a+b)G == aG + bG
		lhs := xcrypto.ScalarmultBase(s)
		rhs := must(xcrypto.AddKeys(xcrypto.ScalarmultBase(a), xcrypto.ScalarmultBase(b)))
		if lhs != rhs {
			t.Fatalf("(a+b)G != aG+bG")
		}
		if sa := xcrypto.SecretAdd(lk.SecretKey(a), lk.SecretKey(b)); lk.Key(sa) != s {
			t.Fatalf("SecretAdd != ScAdd")
		}
	}
	// l reduces to zero, l+1 to one
	if z := xcrypto.ScAdd(lk.EcScalar(ringct.L), lk.EcScalar(zeroKey)); z != zeroKey {
		t.Fatalf("l mod l = %x", z)
	}
}

func TestScalarmultKeyDoesNotReduce(t *testing.T) {
	seedRand(t, 2)
	// prime-order point: l*P == identity
	_, p := xcrypto.SkpkGen()
	if r := must(xcrypto.ScalarmultKey(p, ringct.L)); r != identity {
		t.Fatalf("l*P = %x, want identity", r)
	}
	// add the order-4 point (y = 0): l*(P+T) = T != identity. This is the
	// key-image domain check of types.checkTxSemantic.
	pt := must(xcrypto.AddKeys(p, zeroKey))
	if r := must(xcrypto.ScalarmultKey(pt, ringct.L)); r == identity {
		t.Fatalf("l*(P+T) must not be the identity")
	}
	// but 8*(P+T) == 8*P
	a := must(xcrypto.Scalarmult8(pt))
	b := must(xcrypto.Scalarmult8(p))
	if a != b {
		t.Fatalf("8(P+T) != 8P")
	}
	if _, err := xcrypto.ScalarmultKey(hx("0200000000000000000000000000000000000000000000000000000000000000"), d2h(3)); err == nil {
		t.Fatalf("ScalarmultKey on an invalid point must fail")
	}
}

// Monero's ge_scalarmult is specified for a[31] <= 127 only. For bigger inputs
// the top signed radix-16 digit e63 = (a[31] + carry + 8) >> 4 can exceed 8, in
// which case the table lookup adds the identity: the result is
// (a - e63*2^252)*P. linkchain's app tests rely on this (they use point
// encodings as secret keys), so the model reproduces it.
func TestGeScalarmultOutOfSpec(t *testing.T) {
	seedRand(t, 17)
	l := new(big.Int).SetBytes(reverse(ringct.L[:]))
	_, p := xcrypto.SkpkGen()
	cases := []lk.Key{ringct.H, ringct.G, hx("ffffffffffffffffffffffffffffffffffffffffffffffffffffffffffffffff"),
		hx("0000000000000000000000000000000000000000000000000000000000000080"),
		hx("f8ffffffffffffffffffffffffffffffffffffffffffffffffffffffffffff87"),
		hx("00000000000000000000000000000000000000000000000000000000000000f0")}
	for i := 0; i < 20; i++ {
		k := xcrypto.SkGen()
		k[31] |= 0x80 | byte(i<<3)
		cases = append(cases, k)
	}
	for _, a := range cases {
		// signed radix-16 recoding exactly as in crypto-ops.c
		carry := 0
		for i := 0; i < 31; i++ {
			carry += int(a[i])
			carry2 := (carry + 8) >> 4
			carry = (carry2 + 8) >> 4
		}
		carry += int(a[31])
		e63 := (carry + 8) >> 4
		eff := new(big.Int).SetBytes(reverse(a[:]))
		if e63 > 8 {
			eff.Sub(eff, new(big.Int).Lsh(big.NewInt(int64(e63)), 252))
		}
		eff.Mod(eff, l)
		var kb lk.Key
		copy(kb[:], reverse(eff.FillBytes(make([]byte, 32))))
		want := must(xcrypto.ScalarmultKey(p, kb))
		if got := must(xcrypto.ScalarmultKey(p, a)); got != want {
			t.Errorf("ScalarmultKey(P, %x): got %x want %x (e63=%d)", a, got, want, e63)
		}
		wantH := must(xcrypto.ScalarmultKey(ringct.H, kb))
		if got := xcrypto.ScalarmultH(a); got != wantH {
			t.Errorf("ScalarmultH(%x): got %x want %x", a, got, wantH)
		}
		// ScalarmultBase reduces first (rctOps scalarmultBase), no quirk
		full := new(big.Int).Mod(new(big.Int).SetBytes(reverse(a[:])), l)
		var fb lk.Key
		copy(fb[:], reverse(full.FillBytes(make([]byte, 32))))
		if xcrypto.ScalarmultBase(a) != xcrypto.ScalarmultBase(fb) {
			t.Errorf("ScalarmultBase(%x) is not (a mod l)*G", a)
		}
	}
}

func reverse(b []byte) []byte {
	r := make([]byte, len(b))
	for i := range b {
		r[len(b)-1-i] = b[i]
	}
	return r
}

// ---------------------------------------------------------------------------
// key derivation, one-time addresses, key images, subaddresses

type account struct {
	keys     lk.AccountKey
	keyIndex map[lk.PublicKey]uint64
}

func newAccount(nSub int) *account {
	ssk, spk := xcrypto.GenerateKeys(lk.SecretKey{})
	vsk, vpk := xcrypto.GenerateKeys(lk.SecretKey(keccak(ssk[:])))
	a := &account{
		keys: lk.AccountKey{
			Addr:      lk.AccountAddress{SpendPublicKey: spk, ViewPublicKey: vpk},
			SpendSKey: ssk, ViewSKey: vsk,
		},
		keyIndex: map[lk.PublicKey]uint64{spk: 0},
	}
	for i := 1; i <= nSub; i++ {
		sub := xcrypto.GetSubaddress(&a.keys, uint32(i))
		a.keyIndex[sub.SpendPublicKey] = uint64(i)
	}
	return a
}

func TestDerivationConsistency(t *testing.T) {
	seedRand(t, 3)
	acc := newAccount(0)
	for idx := 0; idx < 5; idx++ {
		r, R := xcrypto.SkpkGen()
		// sender: r*A, receiver: a*R
		ds, err := xcrypto.GenerateKeyDerivation(acc.keys.Addr.ViewPublicKey, lk.SecretKey(r))
		if err != nil {
			t.Fatal(err)
		}
		dr, err := xcrypto.GenerateKeyDerivation(lk.PublicKey(R), acc.keys.ViewSKey)
		if err != nil {
			t.Fatal(err)
		}
		if ds != dr {
			t.Fatalf("8rA != 8aR")
		}
		ot, err := xcrypto.DerivePublicKey(ds, idx, acc.keys.Addr.SpendPublicKey)
		if err != nil {
			t.Fatal(err)
		}
		x, err := xcrypto.DeriveSecretKey(dr, idx, acc.keys.SpendSKey)
		if err != nil {
			t.Fatal(err)
		}
		if pub, err := xcrypto.SecretKeyToPublicKey(x); err != nil || pub != ot {
			t.Fatalf("derived secret does not match one-time address")
		}
		// receiver recognises the output
		sp, err := xcrypto.DeriveSubaddressPublicKey(ot, dr, idx)
		if err != nil || sp != acc.keys.Addr.SpendPublicKey {
			t.Fatalf("DeriveSubaddressPublicKey did not recover the spend key")
		}
		// a different output index gives a different address
		ot2, _ := xcrypto.DerivePublicKey(ds, idx+1, acc.keys.Addr.SpendPublicKey)
		if ot2 == ot {
			t.Fatalf("output index not bound")
		}
		// DerivationToScalar is Hs(derivation || varint(idx)): ot = Hs*G + B
		hs, _ := xcrypto.DerivationToScalar(ds, idx)
		want := must(xcrypto.AddKeys(xcrypto.ScalarmultBase(lk.Key(hs)), lk.Key(acc.keys.Addr.SpendPublicKey)))
		if want != lk.Key(ot) {
			t.Fatalf("DerivePublicKey != Hs*G + B")
		}
		// key image = x*Hp(P), in the prime-order subgroup, deterministic
		ki, err := xcrypto.GenerateKeyImage(ot, x)
		if err != nil {
			t.Fatal(err)
		}
		ki2, _ := xcrypto.GenerateKeyImage(ot, x)
		if ki != ki2 {
			t.Fatalf("key image not deterministic")
		}
		if r := must(xcrypto.ScalarmultKey(lk.Key(ki), ringct.L)); r != identity {
			t.Fatalf("key image outside the prime-order subgroup")
		}
	}
	// varint boundary: index 127 and 128 hash differently sized buffers
	d, _ := xcrypto.GenerateKeyDerivation(acc.keys.Addr.ViewPublicKey, lk.SecretKey(d2h(5)))
	s127, _ := xcrypto.DerivationToScalar(d, 127)
	s128, _ := xcrypto.DerivationToScalar(d, 128)
	if lk.Key(s127) != lk.Key(hashToScalarRef(append(d[:], 0x7f))) || lk.Key(s128) != lk.Key(hashToScalarRef(append(d[:], 0x80, 0x01))) {
		t.Fatalf("varint encoding of the output index is wrong")
	}
	if _, err := xcrypto.GenerateKeyDerivation(lk.PublicKey(hx("0200000000000000000000000000000000000000000000000000000000000000")), lk.SecretKey(d2h(5))); err == nil {
		t.Fatalf("derivation with an invalid public key must fail")
	}
}

// hashToScalarRef = sc_reduce32(keccak(data)) computed via the exported API
// (ScAdd reduces its inputs).
func hashToScalarRef(data []byte) lk.Key {
	h := keccak(data)
	return xcrypto.ScAdd(lk.EcScalar(h), lk.EcScalar(zeroKey))
}

func TestSubaddressConsistency(t *testing.T) {
	seedRand(t, 4)
	acc := newAccount(3)
	for sub := uint32(1); sub <= 3; sub++ {
		addr := xcrypto.GetSubaddress(&acc.keys, sub)
		// D = B + m*G, C = a*D
		m := xcrypto.GetSubaddressSecretKey(acc.keys.ViewSKey, sub)
		d := must(xcrypto.AddKeys(lk.Key(acc.keys.Addr.SpendPublicKey), xcrypto.ScalarmultBase(lk.Key(m))))
		if d != lk.Key(addr.SpendPublicKey) {
			t.Fatalf("D != B + mG")
		}
		c := must(xcrypto.ScalarmultKey(d, lk.Key(acc.keys.ViewSKey)))
		if c != lk.Key(addr.ViewPublicKey) {
			t.Fatalf("C != aD")
		}
		// m = Hs("SubAddr\0" || a || major=0 || minor=sub)
		buf := append([]byte("SubAddr\x00"), acc.keys.ViewSKey[:]...)
		var idx [8]byte
		binary.LittleEndian.PutUint32(idx[4:], sub)
		buf = append(buf, idx[:]...)
		if lk.Key(m) != hashToScalarRef(buf) {
			t.Fatalf("subaddress secret is not Hs(SubAddr||a||0||index)")
		}

		// Sending to a subaddress: tx key R = r*D (types.GenerateAdditionalKeys),
		// derivation r*C == a*R, one-time key Hs*G + D.
		r, _ := xcrypto.SkpkGen()
		R := must(xcrypto.ScalarmultKey(lk.Key(addr.SpendPublicKey), r))
		ds, _ := xcrypto.GenerateKeyDerivation(addr.ViewPublicKey, lk.SecretKey(r))
		dr, _ := xcrypto.GenerateKeyDerivation(lk.PublicKey(R), acc.keys.ViewSKey)
		if ds != dr {
			t.Fatalf("subaddress derivations differ")
		}
		ot, _ := xcrypto.DerivePublicKey(ds, 0, addr.SpendPublicKey)
		sp, _ := xcrypto.DeriveSubaddressPublicKey(ot, dr, 0)
		if got, ok := acc.keyIndex[sp]; !ok || got != uint64(sub) {
			t.Fatalf("output to subaddress %d not recognised", sub)
		}
		// spending key: (b + Hs) + m
		x, _ := xcrypto.DeriveSecretKey(dr, 0, acc.keys.SpendSKey)
		x = xcrypto.SecretAdd(x, m)
		if pub, err := xcrypto.SecretKeyToPublicKey(x); err != nil || pub != ot {
			t.Fatalf("subaddress spend secret does not match the one-time address")
		}
	}
}

// ---------------------------------------------------------------------------
// ECDH amount/mask encoding

func TestEcdhRoundTrip(t *testing.T) {
	seedRand(t, 5)
	for _, short := range []bool{false, true} {
		for i := 0; i < 10; i++ {
			shared := xcrypto.SkGen()
			mask := xcrypto.SkGen()
			amount := d2h(mrand.Uint64())
			tup := lk.EcdhTuple{Mask: mask, Amount: amount}
			if !xcrypto.EcdhEncode(&tup, shared, short) {
				t.Fatal("encode failed")
			}
			if tup.Amount == amount {
				t.Fatalf("amount not hidden (short=%v)", short)
			}
			if short && tup.Mask != zeroKey {
				t.Fatalf("short encoding must zero the mask")
			}
			if !xcrypto.EcdhDecode(&tup, shared, short) {
				t.Fatal("decode failed")
			}
			if tup.Amount != amount {
				t.Fatalf("amount round trip failed (short=%v)", short)
			}
			if !short && tup.Mask != mask {
				t.Fatalf("mask round trip failed")
			}
			if short {
				// v2: mask = Hs("commitment_mask" || shared), the same mask the
				// range prover derives from the amount key.
				if tup.Mask != hashToScalarRef(append([]byte("commitment_mask"), shared[:]...)) {
					t.Fatalf("short decode mask is not genCommitmentMask")
				}
				_, _, masks, err := xcrypto.TlvProveRangeBulletproof(lk.KeyV{amount}, lk.KeyV{shared})
				if err != nil || masks[0] != tup.Mask {
					t.Fatalf("prover mask != genCommitmentMask")
				}
			}
			// wrong shared secret decodes to something else
			tup2 := lk.EcdhTuple{Mask: mask, Amount: amount}
			xcrypto.EcdhEncode(&tup2, shared, short)
			xcrypto.EcdhDecode(&tup2, xcrypto.SkGen(), short)
			if tup2.Amount == amount {
				t.Fatalf("decoding with a wrong key returned the amount")
			}
		}
	}
}

// ---------------------------------------------------------------------------
// commitments

func TestCommitments(t *testing.T) {
	seedRand(t, 6)
	// GenC(a, v) = aG + vH ; ZeroCommit(v) = G + vH ; AddKeys2(a, b, B) = aG + bB
	a := xcrypto.SkGen()
	c := must(xcrypto.GenC(a, 1234567))
	want := must(xcrypto.AddKeys(xcrypto.ScalarmultBase(a), xcrypto.ScalarmultH(d2h(1234567))))
	if c != want {
		t.Fatalf("GenC != aG + vH")
	}
	if c2 := must(xcrypto.AddKeys2(a, d2h(1234567), ringct.H)); c2 != c {
		t.Fatalf("AddKeys2 != GenC")
	}
	z := must(xcrypto.ZeroCommit(77))
	if z != must(xcrypto.GenC(d2h(1), 77)) {
		t.Fatalf("ZeroCommit != GenC(1, v)")
	}

	// balance: sum(in) == sum(out) + fee*H when masks and amounts balance
	inAmt := []uint64{700, 500}
	outAmt := []uint64{900, 250}
	fee := uint64(50)
	outMasks := []lk.Key{xcrypto.SkGen(), xcrypto.SkGen()}
	sumOut := xcrypto.ScAdd(lk.EcScalar(outMasks[0]), lk.EcScalar(outMasks[1]))
	in0 := xcrypto.SkGen()
	in1 := xcrypto.ScSub(lk.EcScalar(sumOut), lk.EcScalar(in0))
	ins := lk.KeyV{must(xcrypto.GenC(in0, lk.Lk_amount(inAmt[0]))), must(xcrypto.GenC(in1, lk.Lk_amount(inAmt[1])))}
	outs := lk.KeyV{
		must(xcrypto.GenC(outMasks[0], lk.Lk_amount(outAmt[0]))),
		must(xcrypto.GenC(outMasks[1], lk.Lk_amount(outAmt[1]))),
		xcrypto.ScalarmultH(d2h(fee)),
	}
	si := must(xcrypto.TlvAddKeyV(ins))
	so := must(xcrypto.TlvAddKeyV(outs))
	if si != so {
		t.Fatalf("balanced commitments do not sum up")
	}
	outs[2] = xcrypto.ScalarmultH(d2h(fee + 1))
	if so2 := must(xcrypto.TlvAddKeyV(outs)); so2 == si {
		t.Fatalf("unbalanced commitments sum up")
	}
	if e := must(xcrypto.TlvAddKeyV(nil)); e != identity {
		t.Fatalf("empty sum is not the identity")
	}
	if _, err := xcrypto.TlvAddKeyV(lk.KeyV{hx("0200000000000000000000000000000000000000000000000000000000000000")}); err == nil {
		t.Fatalf("sum with an invalid point must fail")
	}
}

// ---------------------------------------------------------------------------
// classic ring signature (ring of one, as used by linkchain)

func TestRingSignatureRoundTrip(t *testing.T) {
	seedRand(t, 7)
	for i := 0; i < 5; i++ {
		x, P := xcrypto.SkpkGen()
		ki, _ := xcrypto.GenerateKeyImage(lk.PublicKey(P), lk.SecretKey(x))
		prefix := lk.Hash(xcrypto.SkGen())
		pubs := []lk.PublicKey{lk.PublicKey(P)}
		sig, err := xcrypto.GenerateRingSignature(prefix, ki, pubs, lk.SecretKey(x), 0)
		if err != nil {
			t.Fatal(err)
		}
		if !xcrypto.CheckRingSignature(prefix, ki, pubs, sig) {
			t.Fatalf("valid ring signature rejected")
		}
		// tamper: prefix, key image, public key, c, r
		p2 := prefix
		p2[0] ^= 1
		if xcrypto.CheckRingSignature(p2, ki, pubs, sig) {
			t.Fatalf("signature valid for another prefix")
		}
		_, other := xcrypto.SkpkGen()
		if xcrypto.CheckRingSignature(prefix, lk.KeyImage(other), pubs, sig) {
			t.Fatalf("signature valid for another key image")
		}
		if xcrypto.CheckRingSignature(prefix, ki, []lk.PublicKey{lk.PublicKey(other)}, sig) {
			t.Fatalf("signature valid for another public key")
		}
		s2 := *sig
		s2.C[0] ^= 1
		if xcrypto.CheckRingSignature(prefix, ki, pubs, &s2) {
			t.Fatalf("signature valid with changed c")
		}
		s2 = *sig
		s2.R[0] ^= 1
		if xcrypto.CheckRingSignature(prefix, ki, pubs, &s2) {
			t.Fatalf("signature valid with changed r")
		}
		// non canonical scalar: r + l
		s2 = *sig
		s2.R = lk.EcScalar(addLE(lk.Key(sig.R), ringct.L))
		if xcrypto.CheckRingSignature(prefix, ki, pubs, &s2) {
			t.Fatalf("signature valid with non canonical r")
		}
		// a signature made with a wrong secret (fake key image) does not verify
		fake, _ := xcrypto.SkpkGen()
		fki, _ := xcrypto.GenerateKeyImage(lk.PublicKey(P), lk.SecretKey(fake))
		fsig, err := xcrypto.GenerateRingSignature(prefix, fki, pubs, lk.SecretKey(fake), 0)
		if err == nil && xcrypto.CheckRingSignature(prefix, fki, pubs, fsig) {
			t.Fatalf("signature with a wrong secret verifies")
		}
	}
	// the single-signature wrapper cannot carry rings larger than one
	x, P := xcrypto.SkpkGen()
	_, Q := xcrypto.SkpkGen()
	ki, _ := xcrypto.GenerateKeyImage(lk.PublicKey(P), lk.SecretKey(x))
	if _, err := xcrypto.GenerateRingSignature(lk.Hash{}, ki, []lk.PublicKey{lk.PublicKey(P), lk.PublicKey(Q)}, lk.SecretKey(x), 0); err == nil {
		t.Fatalf("ring of two must be refused by the wrapper")
	}
	if _, err := xcrypto.GenerateRingSignature(lk.Hash{}, ki, nil, lk.SecretKey(x), 0); err == nil {
		t.Fatalf("empty ring must be refused")
	}
}

// addLE adds two 256-bit little-endian integers (mod 2^256).
func addLE(a, b lk.Key) (r lk.Key) {
	carry := 0
	for i := 0; i < 32; i++ {
		s := int(a[i]) + int(b[i]) + carry
		r[i] = byte(s)
		carry = s >> 8
	}
	return r
}

// ---------------------------------------------------------------------------
// MLSAG simple

// mlsagFixture builds a minimal RctSig (no outputs) whose single input is
// signed with ring size n at position idx.
func mlsagFixture(t testing.TB, n, idx int) *lk.RctSig {
	t.Helper()
	x, P := xcrypto.SkpkGen()
	mask := xcrypto.SkGen()
	amount := lk.Lk_amount(4242)
	cin := must(xcrypto.GenC(mask, amount))
	ring := make(lk.CtkeyV, n)
	for k := range ring {
		if k == idx {
			ring[k] = lk.Ctkey{Dest: P, Mask: cin}
			continue
		}
		_, d := xcrypto.SkpkGen()
		ring[k] = lk.Ctkey{Dest: d, Mask: must(xcrypto.GenC(xcrypto.SkGen(), lk.Lk_amount(1000+k)))}
	}
	a := xcrypto.SkGen()
	cout := must(xcrypto.GenC(a, amount))
	rv := &lk.RctSig{}
	rv.Type = uint8(lk.RCTTypeBulletproof)
	rv.Message = xcrypto.SkGen()
	rv.MixRing = lk.CtkeyM{ring}
	rv.P.PseudoOuts = lk.KeyV{cout}
	hash, err := xcrypto.TlvGetPreMlsagHash(rv)
	if err != nil {
		t.Fatal(err)
	}
	mg, err := xcrypto.TlvProveRctMGSimple(hash, ring, lk.Ctkey{Dest: x, Mask: mask}, a, cout, nil, nil, uint32(idx))
	if err != nil {
		t.Fatal(err)
	}
	rv.P.MGs = []lk.MgSig{*mg}
	return rv
}

func TestMLSAGSimpleRoundTrip(t *testing.T) {
	seedRand(t, 8)
	for n := 1; n <= 11; n++ {
		for idx := 0; idx < n; idx++ {
			rv := mlsagFixture(t, n, idx)
			mg := &rv.P.MGs[0]
			if len(mg.Ss) != n || len(mg.Ss[0]) != 2 || len(mg.II) != 1 {
				t.Fatalf("unexpected MLSAG shape n=%d: ss=%d II=%d", n, len(mg.Ss), len(mg.II))
			}
			// key image is x*Hp(P)
			if r := must(xcrypto.ScalarmultKey(mg.II[0], ringct.L)); r != identity {
				t.Fatalf("MLSAG key image outside the prime-order subgroup")
			}
			ok := xcrypto.TlvVerRctNotSemanticsSimple(rv)
			if n == 1 {
				// Monero MLSAG_Ver: "Error! What is c if cols = 1!" -- a ring of
				// one never verifies; linkchain uses CheckRingSignature there.
				if ok {
					t.Fatalf("ring size 1 must be rejected by MLSAG_Ver")
				}
				continue
			}
			if !ok {
				t.Fatalf("valid MLSAG rejected (n=%d idx=%d)", n, idx)
			}
		}
	}
}

func TestMLSAGKeyImageMatchesGenerateKeyImage(t *testing.T) {
	seedRand(t, 9)
	x, P := xcrypto.SkpkGen()
	mask := xcrypto.SkGen()
	cin := must(xcrypto.GenC(mask, 5))
	_, d := xcrypto.SkpkGen()
	ring := lk.CtkeyV{{Dest: d, Mask: must(xcrypto.GenC(xcrypto.SkGen(), 9))}, {Dest: P, Mask: cin}}
	a := xcrypto.SkGen()
	cout := must(xcrypto.GenC(a, 5))
	mg, err := xcrypto.TlvProveRctMGSimple(xcrypto.SkGen(), ring, lk.Ctkey{Dest: x, Mask: mask}, a, cout, nil, nil, 1)
	if err != nil {
		t.Fatal(err)
	}
	ki, _ := xcrypto.GenerateKeyImage(lk.PublicKey(P), lk.SecretKey(x))
	if lk.Key(ki) != mg.II[0] {
		t.Fatalf("MLSAG key image differs from GenerateKeyImage")
	}
	// multisig parameters are not modelled
	if _, err := xcrypto.TlvProveRctMGSimple(xcrypto.SkGen(), ring, lk.Ctkey{Dest: x, Mask: mask}, a, cout, nil, &lk.MultisigKLRki{}, 1); err == nil {
		t.Fatalf("kLRki must be refused")
	}
	if _, err := xcrypto.TlvProveRctMGSimple(xcrypto.SkGen(), ring, lk.Ctkey{Dest: x, Mask: mask}, a, cout, nil, nil, 2); err == nil {
		t.Fatalf("index out of range must be refused")
	}
}

func TestMLSAGWrongSecretsDoNotVerify(t *testing.T) {
	seedRand(t, 10)
	mk := func(mutate func(inSk *lk.Ctkey, a *lk.Key, amountOut *lk.Lk_amount)) bool {
		x, P := xcrypto.SkpkGen()
		mask := xcrypto.SkGen()
		cin := must(xcrypto.GenC(mask, 100))
		_, d := xcrypto.SkpkGen()
		ring := lk.CtkeyV{{Dest: P, Mask: cin}, {Dest: d, Mask: must(xcrypto.GenC(xcrypto.SkGen(), 9))}}
		a := xcrypto.SkGen()
		inSk := lk.Ctkey{Dest: x, Mask: mask}
		amountOut := lk.Lk_amount(100)
		mutate(&inSk, &a, &amountOut)
		cout := must(xcrypto.GenC(a, amountOut))
		rv := &lk.RctSig{}
		rv.Type = uint8(lk.RCTTypeBulletproof)
		rv.MixRing = lk.CtkeyM{ring}
		rv.P.PseudoOuts = lk.KeyV{cout}
		hash, _ := xcrypto.TlvGetPreMlsagHash(rv)
		mg, err := xcrypto.TlvProveRctMGSimple(hash, ring, inSk, a, cout, nil, nil, 0)
		if err != nil {
			return false
		}
		rv.P.MGs = []lk.MgSig{*mg}
		return xcrypto.TlvVerRctNotSemanticsSimple(rv)
	}
	if !mk(func(*lk.Ctkey, *lk.Key, *lk.Lk_amount) {}) {
		t.Fatalf("control case failed")
	}
	if mk(func(s *lk.Ctkey, a *lk.Key, v *lk.Lk_amount) { s.Dest = xcrypto.SkGen() }) {
		t.Fatalf("MLSAG with a wrong spend secret verifies")
	}
	if mk(func(s *lk.Ctkey, a *lk.Key, v *lk.Lk_amount) { s.Mask = xcrypto.SkGen() }) {
		t.Fatalf("MLSAG with a wrong input mask verifies")
	}
	// pseudo output commits to another amount than the input: the second row
	// is not a commitment to zero, so the signer does not know its discrete log
	if mk(func(s *lk.Ctkey, a *lk.Key, v *lk.Lk_amount) { *v = 101 }) {
		t.Fatalf("MLSAG with a different pseudo-out amount verifies (inflation)")
	}
}

// ---------------------------------------------------------------------------
// full RingCT "simple" signatures

type rctFixture struct {
	rv      *lk.RctSig
	amtKeys lk.KeyV
	outAmts []uint64
}

func buildRct(t testing.TB, typ uint8, inAmts, outAmts []uint64, fee uint64, ringSize int) *rctFixture {
	t.Helper()
	rv := &lk.RctSig{}
	rv.Type = typ
	rv.Message = xcrypto.SkGen()
	rv.TxnFee = lk.Lk_amount(fee)

	nOut := len(outAmts)
	amtKeys := make(lk.KeyV, nOut)
	amts := make(lk.KeyV, nOut)
	for j := range outAmts {
		amtKeys[j] = xcrypto.SkGen()
		amts[j] = d2h(outAmts[j])
	}
	proof, c, masks, err := xcrypto.TlvProveRangeBulletproof(amts, amtKeys)
	if err != nil {
		t.Fatal(err)
	}
	rv.P.Bulletproofs = []lk.Bulletproof{*proof}
	rv.OutPk = make(lk.CtkeyV, nOut)
	rv.EcdhInfo = make([]lk.EcdhTuple, nOut)
	sumOut := zeroKey
	for j := 0; j < nOut; j++ {
		rv.OutPk[j].Mask = must(xcrypto.Scalarmult8(c[j]))
		_, rv.OutPk[j].Dest = xcrypto.SkpkGen()
		rv.EcdhInfo[j] = lk.EcdhTuple{Mask: masks[j], Amount: amts[j]}
		if !xcrypto.EcdhEncode(&rv.EcdhInfo[j], amtKeys[j], typ == uint8(lk.RCTTypeBulletproof2)) {
			t.Fatal("ecdh encode")
		}
		sumOut = xcrypto.ScAdd(lk.EcScalar(sumOut), lk.EcScalar(masks[j]))
	}

	nIn := len(inAmts)
	rv.MixRing = make(lk.CtkeyM, nIn)
	rv.P.PseudoOuts = make(lk.KeyV, nIn)
	inSk := make([]lk.Ctkey, nIn)
	idx := make([]uint32, nIn)
	ra := make(lk.KeyV, nIn)
	sumIn := zeroKey
	for i := 0; i < nIn; i++ {
		x, P := xcrypto.SkpkGen()
		m := xcrypto.SkGen()
		inSk[i] = lk.Ctkey{Dest: x, Mask: m}
		idx[i] = uint32((i*7 + 3) % ringSize)
		ring := make(lk.CtkeyV, ringSize)
		for k := range ring {
			if uint32(k) == idx[i] {
				ring[k] = lk.Ctkey{Dest: P, Mask: must(xcrypto.GenC(m, lk.Lk_amount(inAmts[i])))}
				continue
			}
			_, d := xcrypto.SkpkGen()
			ring[k] = lk.Ctkey{Dest: d, Mask: must(xcrypto.GenC(xcrypto.SkGen(), lk.Lk_amount(31337+k)))}
		}
		rv.MixRing[i] = ring
		if i < nIn-1 {
			ra[i] = xcrypto.SkGen()
			sumIn = xcrypto.ScAdd(lk.EcScalar(sumIn), lk.EcScalar(ra[i]))
		} else {
			ra[i] = xcrypto.ScSub(lk.EcScalar(sumOut), lk.EcScalar(sumIn))
		}
		rv.P.PseudoOuts[i] = must(xcrypto.GenC(ra[i], lk.Lk_amount(inAmts[i])))
	}
	hash, err := xcrypto.TlvGetPreMlsagHash(rv)
	if err != nil {
		t.Fatal(err)
	}
	rv.P.MGs = make([]lk.MgSig, nIn)
	for i := 0; i < nIn; i++ {
		mg, err := xcrypto.TlvProveRctMGSimple(hash, rv.MixRing[i], inSk[i], ra[i], rv.P.PseudoOuts[i], nil, nil, idx[i])
		if err != nil {
			t.Fatal(err)
		}
		rv.P.MGs[i] = *mg
	}
	return &rctFixture{rv: rv, amtKeys: amtKeys, outAmts: outAmts}
}

func cloneKeyV(v lk.KeyV) lk.KeyV {
	if v == nil {
		return nil
	}
	return append(lk.KeyV{}, v...)
}

func cloneRct(r *lk.RctSig) *lk.RctSig {
	c := *r
	c.MixRing = make(lk.CtkeyM, len(r.MixRing))
	for i := range r.MixRing {
		c.MixRing[i] = append(lk.CtkeyV{}, r.MixRing[i]...)
	}
	c.PseudoOuts = cloneKeyV(r.PseudoOuts)
	c.EcdhInfo = append([]lk.EcdhTuple{}, r.EcdhInfo...)
	c.OutPk = append(lk.CtkeyV{}, r.OutPk...)
	c.P.PseudoOuts = cloneKeyV(r.P.PseudoOuts)
	c.P.Bulletproofs = make([]lk.Bulletproof, len(r.P.Bulletproofs))
	for i, b := range r.P.Bulletproofs {
		b.V, b.L, b.R = cloneKeyV(b.V), cloneKeyV(b.L), cloneKeyV(b.R)
		c.P.Bulletproofs[i] = b
	}
	c.P.MGs = make([]lk.MgSig, len(r.P.MGs))
	for i, m := range r.P.MGs {
		ss := make(lk.KeyM, len(m.Ss))
		for j := range m.Ss {
			ss[j] = cloneKeyV(m.Ss[j])
		}
		c.P.MGs[i] = lk.MgSig{Ss: ss, Cc: m.Cc, II: cloneKeyV(m.II)}
	}
	return &c
}

func verSimple(t testing.TB, rv *lk.RctSig) bool {
	t.Helper()
	err, ok := xcrypto.TlvVerRctSimple(rv)
	if err != nil {
		t.Fatalf("TlvVerRctSimple internal error: %v", err)
	}
	return ok
}

func TestRctSimpleRoundTripAndTamper(t *testing.T) {
	seedRand(t, 11)
	for _, typ := range []uint8{uint8(lk.RCTTypeBulletproof), uint8(lk.RCTTypeBulletproof2)} {
		fx := buildRct(t, typ, []uint64{1000000, 2500000}, []uint64{3000000, 400000, 90000}, 10000, 11)
		rv := fx.rv
		if !verSimple(t, rv) {
			t.Fatalf("valid rctSig (type %d) rejected", typ)
		}
		if !xcrypto.TlvVerRctNotSemanticsSimple(rv) {
			t.Fatalf("valid rctSig (type %d) rejected by the MLSAG part", typ)
		}
		if !ringct.VerRctSimpleTlv(rv) || !ringct.VerRctNonSemanticsSimple(rv) {
			t.Fatalf("ringct wrappers disagree")
		}
		// receiver can decode every output and re-open the commitment
		for j := range rv.EcdhInfo {
			tup := rv.EcdhInfo[j]
			if !xcrypto.EcdhDecode(&tup, fx.amtKeys[j], typ == uint8(lk.RCTTypeBulletproof2)) {
				t.Fatal("decode")
			}
			if tup.Amount != d2h(fx.outAmts[j]) {
				t.Fatalf("output %d amount mismatch", j)
			}
			if c := must(xcrypto.GenC(tup.Mask, lk.Lk_amount(fx.outAmts[j]))); c != rv.OutPk[j].Mask {
				t.Fatalf("output %d commitment does not open", j)
			}
		}

		otherPoint := xcrypto.ScalarmultBase(d2h(987654321))
		type tamper struct {
			name     string
			f        func(r *lk.RctSig)
			mlsagBad bool // the MLSAG part alone must already fail
		}
		tampers := []tamper{
			{"message", func(r *lk.RctSig) { r.Message[5] ^= 1 }, true},
			{"fee+1", func(r *lk.RctSig) { r.TxnFee++ }, true},
			{"ecdh amount", func(r *lk.RctSig) { r.EcdhInfo[1].Amount[0] ^= 1 }, true},
			{"outPk mask", func(r *lk.RctSig) { r.OutPk[0].Mask = otherPoint }, true},
			{"outPk mask swap", func(r *lk.RctSig) { r.OutPk[0].Mask, r.OutPk[1].Mask = r.OutPk[1].Mask, r.OutPk[0].Mask }, true},
			{"pseudoOut", func(r *lk.RctSig) { r.P.PseudoOuts[0] = otherPoint }, true},
			{"pseudoOut swap", func(r *lk.RctSig) { r.P.PseudoOuts[0], r.P.PseudoOuts[1] = r.P.PseudoOuts[1], r.P.PseudoOuts[0] }, true},
			{"base pseudoOuts not empty", func(r *lk.RctSig) { r.PseudoOuts = cloneKeyV(r.P.PseudoOuts) }, false},
			{"ring member dest", func(r *lk.RctSig) { r.MixRing[0][2].Dest = otherPoint }, true},
			{"ring member mask", func(r *lk.RctSig) { r.MixRing[1][4].Mask = otherPoint }, true},
			{"ring members swapped", func(r *lk.RctSig) { r.MixRing[0][0], r.MixRing[0][1] = r.MixRing[0][1], r.MixRing[0][0] }, true},
			{"ring truncated", func(r *lk.RctSig) { r.MixRing[0] = r.MixRing[0][:10] }, true},
			{"rings swapped", func(r *lk.RctSig) { r.MixRing[0], r.MixRing[1] = r.MixRing[1], r.MixRing[0] }, true},
			{"mg cc", func(r *lk.RctSig) { r.P.MGs[0].Cc[0] ^= 1 }, true},
			{"mg ss", func(r *lk.RctSig) { r.P.MGs[1].Ss[3][1][7] ^= 1 }, true},
			{"mg ss non canonical", func(r *lk.RctSig) { r.P.MGs[1].Ss[3][0] = addLE(r.P.MGs[1].Ss[3][0], ringct.L) }, true},
			{"mg key image", func(r *lk.RctSig) { r.P.MGs[0].II[0] = otherPoint }, true},
			{"mg key image + torsion", func(r *lk.RctSig) { r.P.MGs[0].II[0], _ = xcrypto.AddKeys(r.P.MGs[0].II[0], zeroKey) }, true},
			{"mg dropped", func(r *lk.RctSig) { r.P.MGs = r.P.MGs[:1] }, true},
			{"mgs swapped", func(r *lk.RctSig) { r.P.MGs[0], r.P.MGs[1] = r.P.MGs[1], r.P.MGs[0] }, true},
			{"bulletproof T", func(r *lk.RctSig) { r.P.Bulletproofs[0].T[0] ^= 1 }, true},
			{"bulletproof A", func(r *lk.RctSig) { r.P.Bulletproofs[0].A[0] ^= 1 }, true},
			{"bulletproof L", func(r *lk.RctSig) { r.P.Bulletproofs[0].L[6][9] ^= 1 }, true},
			{"bulletproof R", func(r *lk.RctSig) { r.P.Bulletproofs[0].R[0][9] ^= 1 }, true},
			{"bulletproof V (not hashed, range proof only)", func(r *lk.RctSig) { r.P.Bulletproofs[0].V[0] = otherPoint }, false},
			{"bulletproof dropped", func(r *lk.RctSig) { r.P.Bulletproofs = nil }, true},
			{"output dropped", func(r *lk.RctSig) {
				r.OutPk = r.OutPk[:2]
				r.EcdhInfo = r.EcdhInfo[:2]
			}, true},
			{"type null", func(r *lk.RctSig) { r.Type = uint8(lk.RCTTypeNull) }, true},
			{"type full", func(r *lk.RctSig) { r.Type = uint8(lk.RCTTypeFull) }, true},
		}
		if typ == uint8(lk.RCTTypeBulletproof) {
			// full ecdh tuples are serialised for type 3 only; type 4 carries 8 byte amounts
			tampers = append(tampers,
				tamper{"ecdh mask", func(r *lk.RctSig) { r.EcdhInfo[0].Mask[0] ^= 1 }, true},
				tamper{"ecdh amount high byte", func(r *lk.RctSig) { r.EcdhInfo[0].Amount[20] ^= 1 }, true},
				tamper{"type 3->4", func(r *lk.RctSig) { r.Type = uint8(lk.RCTTypeBulletproof2) }, true})
		} else {
			tampers = append(tampers,
				tamper{"type 4->3", func(r *lk.RctSig) { r.Type = uint8(lk.RCTTypeBulletproof) }, true})
		}
		for _, tc := range tampers {
			c := cloneRct(rv)
			tc.f(c)
			if verSimple(t, c) {
				t.Errorf("type %d: tampered rctSig (%s) verifies", typ, tc.name)
			}
			if tc.mlsagBad && xcrypto.TlvVerRctNotSemanticsSimple(c) {
				t.Errorf("type %d: tampered rctSig (%s) passes the MLSAG part", typ, tc.name)
			}
		}
		// the clone helper itself must not break anything
		if !verSimple(t, cloneRct(rv)) {
			t.Fatalf("clone does not verify")
		}
	}
}

func TestRctSimpleUnbalanced(t *testing.T) {
	seedRand(t, 12)
	// in = 1000, out = 900 + 200, fee 0: every signature is honest but the
	// amounts do not balance -> semantics must fail, MLSAGs are fine.
	fx := buildRct(t, uint8(lk.RCTTypeBulletproof), []uint64{1000}, []uint64{900, 200}, 0, 5)
	if verSimple(t, fx.rv) {
		t.Fatalf("unbalanced transaction verifies")
	}
	if !xcrypto.TlvVerRctNotSemanticsSimple(fx.rv) {
		t.Fatalf("MLSAG part should be independent of the balance")
	}
	// balanced control, including a non zero fee
	fx = buildRct(t, uint8(lk.RCTTypeBulletproof), []uint64{1000}, []uint64{900, 60}, 40, 5)
	if !verSimple(t, fx.rv) {
		t.Fatalf("balanced transaction rejected")
	}
}

func TestPreMlsagHashBindsFields(t *testing.T) {
	seedRand(t, 13)
	fx := buildRct(t, uint8(lk.RCTTypeBulletproof), []uint64{500}, []uint64{300, 150}, 50, 3)
	base, err := xcrypto.TlvGetPreMlsagHash(fx.rv)
	if err != nil {
		t.Fatal(err)
	}
	again, _ := xcrypto.TlvGetPreMlsagHash(cloneRct(fx.rv))
	if base != again {
		t.Fatalf("pre-MLSAG hash not deterministic")
	}
	changes := map[string]func(r *lk.RctSig){
		"message":    func(r *lk.RctSig) { r.Message[0] ^= 1 },
		"type":       func(r *lk.RctSig) { r.Type = uint8(lk.RCTTypeBulletproof2) },
		"fee":        func(r *lk.RctSig) { r.TxnFee++ },
		"ecdh mask":  func(r *lk.RctSig) { r.EcdhInfo[0].Mask[1] ^= 1 },
		"ecdh amt":   func(r *lk.RctSig) { r.EcdhInfo[1].Amount[1] ^= 1 },
		"outPk mask": func(r *lk.RctSig) { r.OutPk[1].Mask[1] ^= 1 },
		"bp A":       func(r *lk.RctSig) { r.P.Bulletproofs[0].A[3] ^= 1 },
		"bp S":       func(r *lk.RctSig) { r.P.Bulletproofs[0].S[3] ^= 1 },
		"bp T1":      func(r *lk.RctSig) { r.P.Bulletproofs[0].T1[3] ^= 1 },
		"bp T2":      func(r *lk.RctSig) { r.P.Bulletproofs[0].T2[3] ^= 1 },
		"bp taux":    func(r *lk.RctSig) { r.P.Bulletproofs[0].Taux[3] ^= 1 },
		"bp mu":      func(r *lk.RctSig) { r.P.Bulletproofs[0].Mu[3] ^= 1 },
		"bp L":       func(r *lk.RctSig) { r.P.Bulletproofs[0].L[2][3] ^= 1 },
		"bp R":       func(r *lk.RctSig) { r.P.Bulletproofs[0].R[2][3] ^= 1 },
		"bp a":       func(r *lk.RctSig) { r.P.Bulletproofs[0].Aa[3] ^= 1 },
		"bp b":       func(r *lk.RctSig) { r.P.Bulletproofs[0].B[3] ^= 1 },
		"bp t":       func(r *lk.RctSig) { r.P.Bulletproofs[0].T[3] ^= 1 },
	}
	for name, f := range changes {
		c := cloneRct(fx.rv)
		f(c)
		h, err := xcrypto.TlvGetPreMlsagHash(c)
		if err != nil {
			t.Fatalf("%s: %v", name, err)
		}
		if h == base {
			t.Errorf("pre-MLSAG hash does not bind %s", name)
		}
	}
	// As in Monero, these are NOT part of the pre-MLSAG hash (they are bound
	// by the MLSAG itself or by the transaction prefix hash = message).
	for name, f := range map[string]func(r *lk.RctSig){
		"p.pseudoOuts": func(r *lk.RctSig) { r.P.PseudoOuts[0][0] ^= 1 },
		"mixRing":      func(r *lk.RctSig) { r.MixRing[0][0].Dest[0] ^= 1 },
		"outPk dest":   func(r *lk.RctSig) { r.OutPk[0].Dest[0] ^= 1 },
		"MGs":          func(r *lk.RctSig) { r.P.MGs[0].Cc[0] ^= 1 },
	} {
		c := cloneRct(fx.rv)
		f(c)
		if h, _ := xcrypto.TlvGetPreMlsagHash(c); h != base {
			t.Errorf("pre-MLSAG hash unexpectedly covers %s", name)
		}
	}
	// error paths
	c := cloneRct(fx.rv)
	c.MixRing = nil
	if _, err := xcrypto.TlvGetPreMlsagHash(c); err == nil {
		t.Errorf("empty mixRing must be an error")
	}
	c = cloneRct(fx.rv)
	c.OutPk = c.OutPk[:1]
	if _, err := xcrypto.TlvGetPreMlsagHash(c); err == nil {
		t.Errorf("outPk/ecdhInfo size mismatch must be an error")
	}
}

// ---------------------------------------------------------------------------
// range proof stand-in

func flipEveryByte(p *lk.Bulletproof, f func(name string)) {
	fields := []struct {
		name string
		k    *lk.Key
	}{{"A", &p.A}, {"S", &p.S}, {"T1", &p.T1}, {"T2", &p.T2}, {"taux", &p.Taux}, {"mu", &p.Mu}, {"a", &p.Aa}, {"b", &p.B}, {"t", &p.T}}
	for i := range p.L {
		fields = append(fields, struct {
			name string
			k    *lk.Key
		}{fmt.Sprintf("L[%d]", i), &p.L[i]})
	}
	for i := range p.R {
		fields = append(fields, struct {
			name string
			k    *lk.Key
		}{fmt.Sprintf("R[%d]", i), &p.R[i]})
	}
	for i := range p.V {
		fields = append(fields, struct {
			name string
			k    *lk.Key
		}{fmt.Sprintf("V[%d]", i), &p.V[i]})
	}
	for _, fl := range fields {
		for b := 0; b < 32; b++ {
			fl.k[b] ^= 0x01
			f(fmt.Sprintf("%s byte %d", fl.name, b))
			fl.k[b] ^= 0x01
		}
	}
}

func TestRangeProofStandIn(t *testing.T) {
	seedRand(t, 14)
	for n := 1; n <= 16; n++ {
		amounts := make(lk.KeyV, n)
		sk := make(lk.KeyV, n)
		vals := make([]uint64, n)
		for j := 0; j < n; j++ {
			vals[j] = mrand.Uint64()
			if j == 0 {
				vals[j] = ^uint64(0) // 2^64-1 is in range
			}
			if j == 1 {
				vals[j] = 0
			}
			amounts[j] = d2h(vals[j])
			sk[j] = xcrypto.SkGen()
		}
		proof, c, masks, err := xcrypto.TlvProveRangeBulletproof(amounts, sk)
		if err != nil {
			t.Fatal(err)
		}
		lg := 0
		for 1<<uint(lg) < n {
			lg++
		}
		if len(proof.L) != 6+lg || len(proof.R) != 6+lg || len(proof.V) != n || len(c) != n || len(masks) != n {
			t.Fatalf("n=%d: unexpected proof shape L=%d R=%d V=%d", n, len(proof.L), len(proof.R), len(proof.V))
		}
		for j := 0; j < n; j++ {
			// C = (1/8)(mask*G + amount*H), mask = Hs("commitment_mask"||sk)
			if masks[j] != hashToScalarRef(append([]byte("commitment_mask"), sk[j][:]...)) {
				t.Fatalf("mask %d is not genCommitmentMask(sk)", j)
			}
			c8 := must(xcrypto.Scalarmult8(c[j]))
			if c8 != must(xcrypto.GenC(masks[j], lk.Lk_amount(vals[j]))) {
				t.Fatalf("8*C[%d] != mask*G + amount*H", j)
			}
			if proof.V[j] != c[j] {
				t.Fatalf("V != C")
			}
		}
		ok, err := xcrypto.TlvVerBulletproof(proof)
		if err != nil || !ok {
			t.Fatalf("n=%d: valid range proof rejected (%v)", n, err)
		}
		// the linkchain node drops V and rebuilds it from outPk (checkRctSigData)
		rebuilt := *proof
		rebuilt.V = make(lk.KeyV, n)
		for j := 0; j < n; j++ {
			outPk := must(xcrypto.Scalarmult8(c[j]))
			rebuilt.V[j] = must(xcrypto.ScalarmultKey(outPk, ringct.INV_EIGHT))
		}
		if ok, _ := xcrypto.TlvVerBulletproof(&rebuilt); !ok {
			t.Fatalf("n=%d: proof with V rebuilt from outPk rejected", n)
		}
		// a 64-bit proof is not a 128-bit proof
		if ok, _ := xcrypto.TlvVerBulletproof128(proof); ok {
			t.Fatalf("64-bit proof accepted by the 128-bit verifier")
		}
		if n <= 3 || n == 16 {
			cp := *proof
			cp.V, cp.L, cp.R = cloneKeyV(proof.V), cloneKeyV(proof.L), cloneKeyV(proof.R)
			flipEveryByte(&cp, func(name string) {
				if ok, _ := xcrypto.TlvVerBulletproof(&cp); ok {
					t.Errorf("n=%d: proof verifies after flipping %s", n, name)
				}
			})
		}
		// V replaced by a commitment to another amount / other mask
		cp := *proof
		cp.V = cloneKeyV(proof.V)
		cp.V[n-1] = must(xcrypto.ScalarmultKey(must(xcrypto.GenC(masks[n-1], lk.Lk_amount(vals[n-1]+1))), ringct.INV_EIGHT))
		if ok, _ := xcrypto.TlvVerBulletproof(&cp); ok {
			t.Fatalf("proof verifies for a commitment to another amount")
		}
		// wrong number of commitments
		cp = *proof
		cp.V = append(cloneKeyV(proof.V), proof.V[0])
		if ok, _ := xcrypto.TlvVerBulletproof(&cp); ok {
			t.Fatalf("proof verifies with an extra commitment")
		}
		cp.V = nil
		if ok, _ := xcrypto.TlvVerBulletproof(&cp); ok {
			t.Fatalf("proof verifies without commitments")
		}
	}
	// 128-bit variant (linkchain extension), amounts up to 2^128-1
	for _, n := range []int{1, 8, 15, 16} {
		amounts := make(lk.KeyV, n)
		sk := make(lk.KeyV, n)
		for j := 0; j < n; j++ {
			for b := 0; b < 16; b++ {
				amounts[j][b] = byte(mrand.Intn(256))
			}
			if j == 0 {
				for b := 0; b < 16; b++ {
					amounts[j][b] = 0xff
				}
			}
			sk[j] = xcrypto.SkGen()
		}
		proof, c, masks, err := xcrypto.TlvProveRangeBulletproof128(amounts, sk)
		if err != nil {
			t.Fatal(err)
		}
		for j := 0; j < n; j++ {
			c8 := must(xcrypto.Scalarmult8(c[j]))
			if c8 != must(xcrypto.AddKeys2(masks[j], amounts[j], ringct.H)) {
				t.Fatalf("128: 8*C[%d] != mask*G + amount*H", j)
			}
		}
		if ok, err := xcrypto.TlvVerBulletproof128(proof); err != nil || !ok {
			t.Fatalf("128: valid proof for n=%d rejected", n)
		}
		if ok, _ := xcrypto.TlvVerBulletproof(proof); ok {
			t.Fatalf("128-bit proof accepted by the 64-bit verifier")
		}
		if n == 16 {
			cp := *proof
			cp.V, cp.L, cp.R = cloneKeyV(proof.V), cloneKeyV(proof.L), cloneKeyV(proof.R)
			flipEveryByte(&cp, func(name string) {
				if ok, _ := xcrypto.TlvVerBulletproof128(&cp); ok {
					t.Errorf("128: proof verifies after flipping %s", name)
				}
			})
		}
	}
	if _, _, _, err := xcrypto.TlvProveRangeBulletproof(make(lk.KeyV, 17), make(lk.KeyV, 17)); err == nil {
		t.Fatalf("17 outputs must be refused")
	}
	if _, _, _, err := xcrypto.TlvProveRangeBulletproof(nil, nil); err == nil {
		t.Fatalf("0 outputs must be refused")
	}
	if _, _, _, err := xcrypto.TlvProveRangeBulletproof(make(lk.KeyV, 2), make(lk.KeyV, 1)); err == nil {
		t.Fatalf("size mismatch must be refused")
	}
}

func TestRangeProofOutOfRange(t *testing.T) {
	seedRand(t, 15)
	pow := func(bit int) (k lk.Key) { k[bit/8] = 1 << uint(bit%8); return k }
	minus1 := func(bit int) (k lk.Key) {
		for i := 0; i < bit/8; i++ {
			k[i] = 0xff
		}
		return k
	}
	sk := lk.KeyV{xcrypto.SkGen(), xcrypto.SkGen()}
	type tc struct {
		amount lk.Key
		ok64   bool
		ok128  bool
	}
	for i, c := range []tc{
		{d2h(0), true, true},
		{minus1(64), true, true},
		{pow(64), false, true},
		{pow(100), false, true},
		{minus1(128), false, true},
		{pow(128), false, false},
		{pow(200), false, false},
		// l-1: a "negative" amount, the classic inflation attempt
		{xcrypto.ScSub(lk.EcScalar(zeroKey), lk.EcScalar(d2h(1))), false, false},
	} {
		amounts := lk.KeyV{d2h(5), c.amount}
		p64, _, _, err := xcrypto.TlvProveRangeBulletproof(amounts, sk)
		if err != nil {
			t.Fatal(err)
		}
		if ok, _ := xcrypto.TlvVerBulletproof(p64); ok != c.ok64 {
			t.Errorf("case %d: 64-bit verify = %v want %v", i, ok, c.ok64)
		}
		p128, _, _, err := xcrypto.TlvProveRangeBulletproof128(amounts, sk)
		if err != nil {
			t.Fatal(err)
		}
		if ok, _ := xcrypto.TlvVerBulletproof128(p128); ok != c.ok128 {
			t.Errorf("case %d: 128-bit verify = %v want %v", i, ok, c.ok128)
		}
	}
	// A forger who re-labels an out-of-range commitment: take the valid proof
	// for amount 5 and swap in the commitment of amount 2^64+5 with the same
	// mask -> must fail.
	p, _, masks, _ := xcrypto.TlvProveRangeBulletproof(lk.KeyV{d2h(5)}, sk[:1])
	big := d2h(5)
	big[8] = 1
	cBig := must(xcrypto.AddKeys2(masks[0], big, ringct.H))
	p.V[0] = must(xcrypto.ScalarmultKey(cBig, ringct.INV_EIGHT))
	if ok, _ := xcrypto.TlvVerBulletproof(p); ok {
		t.Fatalf("proof re-used for an out-of-range commitment")
	}
}

// genuineBulletproof is the proof embedded in the repository's own test vector
// (/repo/libs/cryptonote/ringct/rctsigs_test.go): a real Monero Bulletproof
// over two outputs produced by the C++ library.
func genuineBulletproof() *lk.Bulletproof {
	return &lk.Bulletproof{
		V: lk.KeyV{
			{121, 201, 148, 20, 165, 225, 8, 37, 186, 117, 239, 0, 3, 148, 76, 241, 86, 55, 38, 123, 182, 35, 115, 126, 76, 56, 186, 191, 23, 80, 177, 49},
			{26, 147, 229, 167, 215, 242, 199, 47, 231, 16, 233, 227, 242, 178, 70, 89, 248, 248, 207, 138, 54, 17, 16, 176, 107, 247, 101, 177, 77, 58, 37, 148},
		},
		A:    hx("95647eb6cd4f4069772856993834342b7f690f59eed1f301f283e8b14405363f"),
		S:    hx("6b6165b145168b27067b5c0d818eed9a30cccde64992e54173e93dead100cf70"),
		T1:   hx("55c57232820320b96461891139e66ce1db32c619a60f2025bfc8c548541e8398"),
		T2:   hx("3bb482fa82c45c48b4eb97d6209e84a5f0cb162b89bba6faa6ec4e902584e90e"),
		Taux: hx("d66c860c3aefc2ab1b0cf313322301d7e8f3708fdc0c3357a96c90001cbd0304"),
		Mu:   hx("13bca9af218a7b338f545ce41207a569bc2782a287579c540bc5512fa1df160c"),
		L: lk.KeyV{
			hx("0e8c4d421ba587014396c7b6a4d2d8f712e36b1e77ab6c7a7af392323730de47"),
			hx("076f2b793683ed05185a84f709f68e2d690cd23f173c34644a0d671e6b2c4f11"),
			hx("f8d7f6e2daab96fd7af323c6ee151726160e4909ca8daf41eacfca18284b7ae0"),
			hx("a739997085ca3edae4626e071f4fedce3932d588d3b50a3243ad477363c954f4"),
			hx("528c36c85da0f9d2bc9717d1dcc8c32d87dae876828d7a0efb613692165378fd"),
			hx("4a0aa4c991d3fb8d43ddc09ae38fe997a639021ad59809655e07822f800a294b"),
			hx("56432f98804f3cfcaf8e01b0754f6238edfb2a3acdccd9ce0d467c77002f6e24"),
		},
		R: lk.KeyV{
			hx("b6568f296b10a8d1013f2678318696d0e8ee789a8068d58132b3d23cf33ebfa1"),
			hx("aef046121dafb1ab0b413f9af87e2fa5d778ff1672ea5a4cd35816dcb3a785e5"),
			hx("9a6bd083d81492bd6eabba028453d9f135ecd89eed568986570c2e2d5ede9193"),
			hx("3a0e619c330e2e4115eb6d058bebf325488a41e0baf244079506f49a143c557e"),
			hx("c1e91c8453be0d937940612f0f12791bbf88b792997ba1992f5cccad2966f76a"),
			hx("cf789a52460ff1849068528f5703c06776003e7986b83377f1cedb990e18f1b9"),
			hx("931a749bbc369277d2fc5d19ff815c61c28868437ccc6e5e27e357227785086e"),
		},
		Aa: hx("759d97bf74dd6d7764a33f81a8a0877a4d390937c531eefdedbb4ee7353d4905"),
		B:  hx("040a261a96e8505eec140dd99bc08be9feb8ab19eca1fa0a595671666f656b01"),
		T:  hx("fd8f60033729870acc31d32fb7a5592f869d2f697c80f0e1f8c3826f85559406"),
	}
}

// The verifier also implements genuine Monero Bulletproof verification; the
// real proof must verify and every modification of it must be rejected.
func TestGenuineBulletproofVerifier(t *testing.T) {
	p := genuineBulletproof()
	if ok, err := xcrypto.TlvVerBulletproof(p); err != nil || !ok {
		t.Fatalf("genuine Monero Bulletproof rejected: ok=%v err=%v", ok, err)
	}
	if ok, _ := xcrypto.TlvVerBulletproof128(p); ok {
		t.Fatalf("genuine 64-bit Bulletproof accepted as a 128-bit proof")
	}
	n := 0
	flipEveryByte(p, func(name string) {
		n++
		if n%5 != 0 { // every fifth byte position keeps the test fast
			return
		}
		if ok, _ := xcrypto.TlvVerBulletproof(p); ok {
			t.Errorf("genuine Bulletproof verifies after flipping %s", name)
		}
	})
	// swapped commitments, dropped commitment, truncated rounds
	q := genuineBulletproof()
	q.V[0], q.V[1] = q.V[1], q.V[0]
	if ok, _ := xcrypto.TlvVerBulletproof(q); ok {
		t.Errorf("genuine Bulletproof verifies with swapped commitments")
	}
	q = genuineBulletproof()
	q.V = q.V[:1]
	if ok, _ := xcrypto.TlvVerBulletproof(q); ok {
		t.Errorf("genuine Bulletproof verifies with a dropped commitment")
	}
	q = genuineBulletproof()
	q.L, q.R = q.L[:6], q.R[:6]
	if ok, _ := xcrypto.TlvVerBulletproof(q); ok {
		t.Errorf("genuine Bulletproof verifies with truncated L/R")
	}
	// non canonical scalar
	q = genuineBulletproof()
	q.Taux = addLE(q.Taux, ringct.L)
	if ok, _ := xcrypto.TlvVerBulletproof(q); ok {
		t.Errorf("genuine Bulletproof verifies with a non canonical taux")
	}
}

// Garbage which is not a stand-in proof is handed to the genuine verifier and
// rejected.
func TestRangeProofGarbageRejected(t *testing.T) {
	seedRand(t, 16)
	p := &lk.Bulletproof{V: lk.KeyV{xcrypto.ScalarmultBase(d2h(3))}, L: make(lk.KeyV, 6), R: make(lk.KeyV, 6)}
	for i := range p.L {
		p.L[i] = xcrypto.ScalarmultBase(xcrypto.SkGen())
		p.R[i] = xcrypto.ScalarmultBase(xcrypto.SkGen())
	}
	p.A, p.S, p.T1, p.T2 = p.L[0], p.L[1], p.L[2], p.L[3]
	p.Taux, p.Mu, p.Aa, p.B, p.T = xcrypto.SkGen(), xcrypto.SkGen(), xcrypto.SkGen(), xcrypto.SkGen(), xcrypto.SkGen()
	if ok, err := xcrypto.TlvVerBulletproof(p); ok || err != nil {
		t.Fatalf("garbage proof: ok=%v err=%v", ok, err)
	}
	if ok, _ := xcrypto.TlvVerBulletproof(&lk.Bulletproof{}); ok {
		t.Fatalf("empty proof accepted")
	}
}

// ---------------------------------------------------------------------------
// determinism and concurrency

func TestSetRandDeterminism(t *testing.T) {
	run := func() (lk.Key, lk.Key, *lk.RctSig) {
		xcrypto.SetRand(mrand.New(mrand.NewSource(99)))
		defer xcrypto.SetRand(nil)
		sk := xcrypto.SkGen()
		_, pk := xcrypto.SkpkGen()
		return sk, pk, mlsagFixture(t, 4, 2)
	}
	s1, p1, r1 := run()
	s2, p2, r2 := run()
	if s1 != s2 || p1 != p2 {
		t.Fatalf("SkGen/SkpkGen not deterministic under SetRand")
	}
	if r1.P.MGs[0].Cc != r2.P.MGs[0].Cc || r1.P.MGs[0].Ss[3][1] != r2.P.MGs[0].Ss[3][1] {
		t.Fatalf("MLSAG not deterministic under SetRand")
	}
	// default source: two calls differ
	if xcrypto.SkGen() == xcrypto.SkGen() {
		t.Fatalf("crypto/rand source returned the same scalar twice")
	}
	sk, pk := xcrypto.GenerateKeys(lk.SecretKey{})
	sk2, _ := xcrypto.GenerateKeys(lk.SecretKey{})
	if sk == sk2 || !xcrypto.CheckKey(pk) {
		t.Fatalf("GenerateKeys(zero) must generate fresh random keys")
	}
}

func TestConcurrentUse(t *testing.T) {
	fx := buildRct(t, uint8(lk.RCTTypeBulletproof), []uint64{1000, 50}, []uint64{1000, 40}, 10, 6)
	var wg sync.WaitGroup
	errs := make(chan string, 64)
	for g := 0; g < 8; g++ {
		wg.Add(1)
		go func(g int) {
			defer wg.Done()
			for i := 0; i < 5; i++ {
				if !ringct.VerRctSimpleTlv(fx.rv) {
					errs <- "shared rctSig rejected"
				}
				own := mlsagFixture(t, 3+g%3, 1)
				if !xcrypto.TlvVerRctNotSemanticsSimple(own) {
					errs <- "own MLSAG rejected"
				}
				x, P := xcrypto.SkpkGen()
				ki, _ := xcrypto.GenerateKeyImage(lk.PublicKey(P), lk.SecretKey(x))
				sig, err := xcrypto.GenerateRingSignature(lk.Hash{1}, ki, []lk.PublicKey{lk.PublicKey(P)}, lk.SecretKey(x), 0)
				if err != nil || !xcrypto.CheckRingSignature(lk.Hash{1}, ki, []lk.PublicKey{lk.PublicKey(P)}, sig) {
					errs <- "ring signature rejected"
				}
			}
		}(g)
	}
	wg.Wait()
	close(errs)
	for e := range errs {
		t.Error(e)
	}
}

// ---------------------------------------------------------------------------
// benchmarks (indicative cost of the model inside a simulator)

func BenchmarkProveRange2(b *testing.B) {
	amounts := lk.KeyV{d2h(1), d2h(2)}
	sk := lk.KeyV{xcrypto.SkGen(), xcrypto.SkGen()}
	for i := 0; i < b.N; i++ {
		xcrypto.TlvProveRangeBulletproof(amounts, sk)
	}
}

func BenchmarkVerRange2(b *testing.B) {
	p, _, _, _ := xcrypto.TlvProveRangeBulletproof(lk.KeyV{d2h(1), d2h(2)}, lk.KeyV{xcrypto.SkGen(), xcrypto.SkGen()})
	b.ResetTimer()
	for i := 0; i < b.N; i++ {
		xcrypto.TlvVerBulletproof(p)
	}
}

func BenchmarkMLSAGProve11(b *testing.B) {
	for i := 0; i < b.N; i++ {
		mlsagFixture(b, 11, 5)
	}
}

func BenchmarkMLSAGVerify11(b *testing.B) {
	rv := mlsagFixture(b, 11, 5)
	b.ResetTimer()
	for i := 0; i < b.N; i++ {
		if !xcrypto.TlvVerRctNotSemanticsSimple(rv) {
			b.Fatal("verify")
		}
	}
}
