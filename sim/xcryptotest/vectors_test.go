package xcryptotest

// Real transactions produced by the C++ library are embedded (as RLP hex) in
// the repository's own tests of app/ and wallet/wallet. Those tests only run
// them through the state processor, which performs no cryptographic checks.
// Here they are pulled out of the test sources and pushed through
// UTXOTransaction.CheckBasic on top of the model: genuine Bulletproofs, genuine
// classic ring signatures, commitment balance and account signatures of
// transactions the model did not create.

import (
	"encoding/hex"
	"fmt"
	"os"
	"path/filepath"
	"regexp"
	"strings"
	"testing"

	"github.com/lianxiangcloud/linkchain/libs/cryptonote/ringct"
	lk "github.com/lianxiangcloud/linkchain/libs/cryptonote/types"
	"github.com/lianxiangcloud/linkchain/libs/cryptonote/xcrypto"
	"github.com/lianxiangcloud/linkchain/libs/ser"
	"github.com/lianxiangcloud/linkchain/types"
)

func repoRoot() string {
	if r := os.Getenv("VERIF_REPO"); r != "" {
		return r
	}
	return "/repo"
}

func decodeUTXOTx(t *testing.T, h string) *types.UTXOTransaction {
	t.Helper()
	raw, err := hex.DecodeString(h)
	if err != nil {
		t.Fatalf("bad hex: %v", err)
	}
	var tx types.UTXOTransaction
	if err := ser.DecodeBytes(raw, &tx); err != nil {
		t.Fatalf("cannot decode transaction: %v", err)
	}
	return &tx
}

// funcBody returns the source text of the top-level function name in src.
func funcBody(src, name string) string {
	i := strings.Index(src, "\nfunc "+name+"(")
	if i < 0 {
		return ""
	}
	rest := src[i+1:]
	if j := strings.Index(rest[1:], "\nfunc "); j >= 0 {
		return rest[:j+1]
	}
	return rest
}

var reGenTx = regexp.MustCompile(`(\w+)\s*:?=\s*genUTXOTransaction\("([0-9a-f]+)"\)`)

func TestRealTransactionVectorsStateProcessor(t *testing.T) {
	path := filepath.Join(repoRoot(), "app", "state_processor_test.go")
	srcb, err := os.ReadFile(path)
	if err != nil {
		t.Skipf("repository test source not available: %v", err)
	}
	src := string(srcb)
	checked := 0
	for _, fn := range []string{"TestSingleAccount2MulitipleUTXO", "TestSingleUTXO2Account", "TestSingleUTXO2Mix"} {
		body := funcBody(src, fn)
		if body == "" {
			t.Errorf("%s not found in %s", fn, path)
			continue
		}
		censor := &fakeCensor{store: &fakeStore{spent: map[lk.Key]bool{}}}
		for _, m := range reGenTx.FindAllStringSubmatch(body, -1) {
			name, tx := m[1], decodeUTXOTx(t, m[2])
			kind := tx.UTXOKind()
			if err := tx.CheckBasic(censor); err != nil {
				t.Errorf("%s/%s (kind %v): real transaction rejected by CheckBasic: %v", fn, name, kind, err)
				continue
			}
			checked++
			t.Logf("%s/%s: kind=%v inputs=%d outputs=%d bulletproofs=%d classic sigs=%d -> CheckBasic ok",
				fn, name, kind, len(tx.Inputs), len(tx.Outputs), len(tx.RCTSig.P.Bulletproofs), len(tx.RCTSig.P.Ss))
			// its outputs become spendable by the next transaction of the test
			censor.store.outs = append(censor.store.outs, tx.GetOutputData(1)...)

			// the same transaction with one flipped byte must be rejected
			bad := decodeUTXOTx(t, m[2])
			switch {
			case len(bad.RCTSig.P.Ss) > 0:
				bad.RCTSig.P.Ss[0].C[3] ^= 1
			case len(bad.RCTSig.P.Bulletproofs) > 0:
				bad.RCTSig.P.Bulletproofs[0].Mu[3] ^= 1
			}
			storeBefore := &fakeCensor{store: &fakeStore{outs: censor.store.outs[:len(censor.store.outs)-len(tx.GetOutputData(1))], spent: map[lk.Key]bool{}}}
			if err := bad.CheckBasic(storeBefore); err == nil {
				t.Errorf("%s/%s: modified real transaction passes CheckBasic", fn, name)
			}
		}
	}
	if checked < 5 {
		t.Errorf("only %d real transactions checked, expected 5", checked)
	}
}

var reRawTx = regexp.MustCompile(`(?:genUTXOTransaction\(|rawTx:\s*)"([0-9a-f]{600,})"`)

// Real transactions whose ring members are not available: everything up to the
// ring lookup (structure, commitment balance, genuine range proof, key image
// domain) must pass, i.e. CheckBasic must fail exactly with ErrGetInputFromDB
// (or succeed when there is no UTXO input).
func TestRealTransactionVectorsOther(t *testing.T) {
	seen := map[string]bool{}
	n := 0
	for _, rel := range []string{"app/app_test.go", "wallet/wallet/transaction_test.go"} {
		srcb, err := os.ReadFile(filepath.Join(repoRoot(), rel))
		if err != nil {
			t.Skipf("repository test source not available: %v", err)
		}
		for _, m := range reRawTx.FindAllStringSubmatch(string(srcb), -1) {
			if seen[m[1]] {
				continue
			}
			seen[m[1]] = true
			tx := decodeUTXOTx(t, m[1])
			censor := &fakeCensor{store: &fakeStore{spent: map[lk.Key]bool{}}}
			err := tx.CheckBasic(censor)
			kind := tx.UTXOKind()
			hasUin := kind&types.Uin == types.Uin
			switch {
			case hasUin && err == types.ErrGetInputFromDB:
			case !hasUin && err == nil:
			case err == types.ErrCheckInOutCommitNotEqual && balancesWithOldFeeRule(tx):
				// wallet TestSubaddrSpend vector: made before linkchain scaled
				// commitments by UTXO_COMMITMENT_CHANGE_RATE; it balances with
				// fee*H instead of (fee/1e10)*H, so today's rule rejects it.
				// Amounts were 128 bit wide then: its range proof is a genuine
				// linkchain 128-bit Bulletproof (8 = 7 + log2(2) rounds), the
				// only real vector for TlvVerBulletproof128.
				bp := tx.RCTSig.P.Bulletproofs[0]
				if len(bp.L) != 8 {
					t.Errorf("%s: expected a 128-bit proof with 8 rounds, got %d", rel, len(bp.L))
				}
				bp.V = nil
				for _, o := range tx.RCTSig.OutPk {
					bp.V = append(bp.V, must(xcrypto.ScalarmultKey(o.Mask, ringct.INV_EIGHT)))
				}
				if ok, e := xcrypto.TlvVerBulletproof128(&bp); e != nil || !ok {
					t.Errorf("%s: genuine 128-bit range proof of the old-rule transaction rejected", rel)
					continue
				}
				if ok, _ := xcrypto.TlvVerBulletproof(&bp); ok {
					t.Errorf("%s: 128-bit proof accepted by the 64-bit verifier", rel)
				}
				bp.L = append(lk.KeyV{}, bp.L...)
				bp.L[3][0] ^= 1
				if ok, _ := xcrypto.TlvVerBulletproof128(&bp); ok {
					t.Errorf("%s: modified genuine 128-bit range proof accepted", rel)
				}
				err = fmt.Errorf("%v (expected: vector predates the 1e10 commitment unit; balances with fee*H; genuine 128-bit range proof verified)", err)
			default:
				t.Errorf("%s: real transaction (kind %v, %d bytes): unexpected CheckBasic result: %v", rel, kind, len(m[1])/2, err)
				continue
			}
			n++
			t.Logf("%s: kind=%v inputs=%d outputs=%d bulletproofs=%d MGs=%d ring=%d -> %v",
				rel, kind, len(tx.Inputs), len(tx.Outputs), len(tx.RCTSig.P.Bulletproofs), len(tx.RCTSig.P.MGs), ringSize(tx), err)
		}
	}
	if n == 0 {
		t.Errorf("no real transaction vectors found")
	}
}

// balancesWithOldFeeRule reports sum(pseudoOuts) == sum(outPk) + fee*H with the
// fee taken in base units (the rule before UTXO_COMMITMENT_CHANGE_RATE).
func balancesWithOldFeeRule(tx *types.UTXOTransaction) bool {
	if !tx.Fee.IsUint64() {
		return false
	}
	sumIn, err := xcrypto.TlvAddKeyV(tx.RCTSig.P.PseudoOuts)
	if err != nil {
		return false
	}
	outs := lk.KeyV{xcrypto.ScalarmultH(d2h(tx.Fee.Uint64()))}
	for _, o := range tx.RCTSig.OutPk {
		outs = append(outs, o.Mask)
	}
	sumOut, err := xcrypto.TlvAddKeyV(outs)
	return err == nil && sumIn == sumOut
}

func ringSize(tx *types.UTXOTransaction) int {
	for _, in := range tx.Inputs {
		if u, ok := in.(*types.UTXOInput); ok {
			return len(u.KeyOffset)
		}
	}
	return 0
}
