package xcryptotest

// End-to-end exercise of linkchain's own UTXO transaction code (types/tx_utxo.go)
// on top of the pure-Go xcrypto model: account -> UTXO funding transaction,
// wallet-side scanning/decoding, UTXO -> UTXO spend with an 11 member ring
// (MLSAG) and with the "short ring" of one member (classic ring signature),
// and CheckBasic on everything.

import (
	"errors"
	"math/big"
	"testing"

	"github.com/lianxiangcloud/linkchain/libs/common"
	"github.com/lianxiangcloud/linkchain/libs/crypto"
	lk "github.com/lianxiangcloud/linkchain/libs/cryptonote/types"
	"github.com/lianxiangcloud/linkchain/libs/cryptonote/xcrypto"
	"github.com/lianxiangcloud/linkchain/types"
)

// ---- fakes for types.TxCensor ------------------------------------------------

type fakeStore struct {
	outs  []*types.UTXOOutputData
	spent map[lk.Key]bool
}

func (s *fakeStore) GetUtxoOutput(token common.Address, seq uint64) (*types.UTXOOutputData, error) {
	if seq >= uint64(len(s.outs)) {
		return nil, errors.New("no such output")
	}
	return s.outs[seq], nil
}

func (s *fakeStore) GetUtxoOutputs(seqs []uint64, token common.Address) ([]*types.UTXOOutputData, error) {
	res := make([]*types.UTXOOutputData, 0, len(seqs))
	for _, q := range seqs {
		o, err := s.GetUtxoOutput(token, q)
		if err != nil {
			return nil, err
		}
		res = append(res, o)
	}
	return res, nil
}

func (s *fakeStore) HaveTxKeyimgAsSpent(k *lk.Key) bool { return s.spent[*k] }

type fakeState struct{}

func (fakeState) Exist(common.Address) bool                                { return true }
func (fakeState) GetNonce(common.Address) uint64                           { return 0 }
func (fakeState) SetNonce(common.Address, uint64)                          {}
func (fakeState) GetBalance(common.Address) *big.Int                       { return new(big.Int) }
func (fakeState) SubBalance(common.Address, *big.Int)                      {}
func (fakeState) GetTokenBalance(common.Address, common.Address) *big.Int  { return new(big.Int) }
func (fakeState) SubTokenBalance(common.Address, common.Address, *big.Int) {}
func (fakeState) IsContract(common.Address) bool                           { return false }
func (fakeBlockChain) IsTxSpendTimeUnlocked(uint64) bool                   { return true }
func (c *fakeCensor) TxMgr() types.TxMgr                                   { return nil }
func (c *fakeCensor) State() types.State                                   { return fakeState{} }
func (c *fakeCensor) Block() *types.Block                                  { return nil }
func (c *fakeCensor) GetLastChangedVals() (uint64, []*types.Validator)     { return 0, nil }
func (c *fakeCensor) LockState()                                           {}
func (c *fakeCensor) UnlockState()                                         {}
func (c *fakeCensor) IsWasmContract([]byte) bool                           { return false }
func (c *fakeCensor) BlockChain() types.BlockChain                         { return fakeBlockChain{} }
func (c *fakeCensor) UTXOStore() types.UTXOStore                           { return c.store }
func (c *fakeCensor) Mempool() types.Mempool                               { return nil }
func (c *fakeCensor) GetUTXOGas() uint64                                   { return 500000 }

type fakeBlockChain struct{}

type fakeCensor struct{ store *fakeStore }

// ---- wallet side helpers -------------------------------------------------------

var (
	unit   = big.NewInt(types.UTXO_COMMITMENT_CHANGE_RATE) // one commitment unit
	gasFee = big.NewInt(types.ParGasPrice)                 // fees must be multiples of this
)

func units(n int64) *big.Int { return new(big.Int).Mul(big.NewInt(n), unit) }

// ownedOutput is what a wallet remembers about a received output.
type ownedOutput struct {
	global   uint64 // index in the fake UTXO store
	rKey     lk.PublicKey
	outIndex uint64
	amount   *big.Int
	mask     lk.Key
}

// scan plays the receiving wallet: recognise the outputs of tx that belong to
// acc, decode amount and mask and check them against the on-chain commitment.
func scan(t *testing.T, acc *account, tx *types.UTXOTransaction, firstGlobal uint64) []ownedOutput {
	t.Helper()
	var res []ownedOutput
	rkeys := append([]lk.PublicKey{tx.RKey}, tx.AddKeys...)
	var deriv []lk.KeyDerivation
	for _, rk := range rkeys {
		d, err := xcrypto.GenerateKeyDerivation(rk, acc.keys.ViewSKey)
		if err == nil {
			deriv = append(deriv, d)
		}
	}
	n := uint64(0)
	for _, out := range tx.Outputs {
		uo, ok := out.(*types.UTXOOutput)
		if !ok {
			continue
		}
		idx := n
		n++
		d, _, err := types.IsOutputBelongToAccount(&acc.keys, acc.keyIndex, uo.OTAddr, deriv, idx)
		if err != nil {
			continue
		}
		scalar, err := xcrypto.DerivationToScalar(d, int(idx))
		if err != nil {
			t.Fatal(err)
		}
		tup := tx.RCTSig.EcdhInfo[idx]
		if !xcrypto.EcdhDecode(&tup, lk.Key(scalar), false) {
			t.Fatal("EcdhDecode failed")
		}
		// the wallet re-computes the commitment through the range prover
		_, commits, _, err := xcrypto.TlvProveRangeBulletproof(lk.KeyV{tup.Amount}, lk.KeyV{lk.Key(scalar)})
		if err != nil {
			t.Fatal(err)
		}
		c8, _ := xcrypto.Scalarmult8(commits[0])
		if c8 != tx.RCTSig.OutPk[idx].Mask {
			t.Fatalf("decoded amount/mask do not open the output commitment")
		}
		amount := new(big.Int).Mul(types.Hash2BigInt(tup.Amount), unit)
		// find the derivation's tx key for spending later
		var rk lk.PublicKey
		for i := range deriv {
			if deriv[i] == d {
				rk = rkeys[i]
			}
		}
		res = append(res, ownedOutput{global: firstGlobal + idx, rKey: rk, outIndex: idx, amount: amount, mask: tup.Mask})
	}
	return res
}

// fund creates a signed account->UTXO transaction paying `amounts` to `dests`,
// checks it and appends its outputs to the store.
func fund(t *testing.T, censor *fakeCensor, dests []*account, amounts []*big.Int) (*types.UTXOTransaction, uint64) {
	t.Helper()
	key, err := crypto.GenerateKey()
	if err != nil {
		t.Fatal(err)
	}
	from := crypto.PubkeyToAddress(key.PublicKey)
	total := new(big.Int).Mul(gasFee, big.NewInt(50000)) // fee
	var ds []types.DestEntry
	for i, d := range dests {
		ds = append(ds, &types.UTXODestEntry{Addr: d.keys.Addr, Amount: amounts[i]})
		total.Add(total, amounts[i])
	}
	tx, _, err := types.NewAinTransaction(&types.AccountSourceEntry{From: from, Nonce: 0, Amount: total}, ds, common.EmptyAddress, nil)
	if err != nil {
		t.Fatalf("NewAinTransaction: %v", err)
	}
	if err := tx.Sign(types.GlobalSTDSigner, key); err != nil {
		t.Fatal(err)
	}
	if err := tx.CheckBasic(censor); err != nil {
		t.Fatalf("CheckBasic(account->utxo): %v", err)
	}
	first := uint64(len(censor.store.outs))
	censor.store.outs = append(censor.store.outs, tx.GetOutputData(1)...)
	return tx, first
}

// spend builds a UTXO->UTXO transaction spending `in` with the given ring
// (global indices, must contain in.global).
func spend(t *testing.T, censor *fakeCensor, acc *account, in ownedOutput, ring []uint64, claimedAmount *big.Int, dests []types.DestEntry) (*types.UTXOTransaction, error) {
	t.Helper()
	src := &types.UTXOSourceEntry{RKey: in.rKey, OutIndex: in.outIndex, Amount: claimedAmount, Mask: in.mask}
	found := false
	for pos, g := range ring {
		o := censor.store.outs[g]
		src.Ring = append(src.Ring, types.UTXORingEntry{Index: g, OTAddr: o.OTAddr, Commit: o.Commit})
		if g == in.global {
			src.RingIndex = uint64(pos)
			found = true
		}
	}
	if !found {
		t.Fatal("ring does not contain the real input")
	}
	sources := []*types.UTXOSourceEntry{src}
	tx, ephs, mKeys, _, err := types.NewUinTransaction(&acc.keys, acc.keyIndex, sources, dests, common.EmptyAddress, common.EmptyAddress, nil)
	if err != nil {
		return nil, err
	}
	if err := types.UInTransWithRctSig(tx, sources, ephs, dests, mKeys); err != nil {
		return nil, err
	}
	return tx, nil
}

func TestE2EUTXOTransactions(t *testing.T) {
	seedRand(t, 21)
	censor := &fakeCensor{store: &fakeStore{spent: map[lk.Key]bool{}}}
	alice, bob := newAccount(2), newAccount(0)

	// 1. fund: one account->UTXO transaction with 11 outputs (one range proof
	//    over 11 commitments); output 3 belongs to alice, the rest are decoys.
	var dests []*account
	var amounts []*big.Int
	for i := 0; i < 11; i++ {
		if i == 3 {
			dests = append(dests, alice)
		} else {
			dests = append(dests, newAccount(0))
		}
		amounts = append(amounts, units(int64(1000000000*(i+1))))
	}
	fundTx, first := fund(t, censor, dests, amounts)
	if got := len(fundTx.RCTSig.P.Bulletproofs[0].L); got != 10 {
		t.Fatalf("range proof for 11 outputs has %d L entries, want 10", got)
	}
	owned := scan(t, alice, fundTx, first)
	if len(owned) != 1 || owned[0].global != first+3 || owned[0].amount.Cmp(amounts[3]) != 0 {
		t.Fatalf("alice did not find her output: %+v", owned)
	}
	if len(scan(t, bob, fundTx, first)) != 0 {
		t.Fatalf("bob found an output that is not his")
	}

	// 2. alice -> bob with change to alice's subaddress 2, ring of 11 (MLSAG).
	ring := make([]uint64, 11)
	for i := range ring {
		ring[i] = first + uint64(i)
	}
	fee := new(big.Int).Mul(gasFee, big.NewInt(500000))
	toBob := units(1500000000)
	change := new(big.Int).Sub(new(big.Int).Sub(owned[0].amount, toBob), fee)
	sub2 := xcrypto.GetSubaddress(&alice.keys, 2)
	spendDests := []types.DestEntry{
		&types.UTXODestEntry{Addr: bob.keys.Addr, Amount: toBob},
		&types.UTXODestEntry{Addr: sub2, Amount: change, IsSubaddress: true, IsChange: true},
	}
	tx, err := spend(t, censor, alice, owned[0], ring, owned[0].amount, spendDests)
	if err != nil {
		t.Fatalf("building the MLSAG spend failed: %v", err)
	}
	if tx.Fee.Cmp(fee) != 0 {
		t.Fatalf("fee = %v want %v", tx.Fee, fee)
	}
	if len(tx.RCTSig.P.MGs) != 1 || len(tx.RCTSig.P.MGs[0].Ss) != 11 {
		t.Fatalf("unexpected MLSAG shape")
	}
	// what travels on the wire does not contain Message/MixRing/II/V: wipe them
	// like a receiving node would see them.
	tx.RCTSig.Message = lk.Key{}
	tx.RCTSig.MixRing = nil
	tx.RCTSig.P.MGs[0].II = nil
	tx.RCTSig.P.Bulletproofs[0].V = nil
	if err := tx.CheckBasic(censor); err != nil {
		t.Fatalf("CheckBasic(utxo->utxo, ring 11): %v", err)
	}
	firstSpend := uint64(len(censor.store.outs))
	censor.store.outs = append(censor.store.outs, tx.GetOutputData(2)...)
	if got := scan(t, bob, tx, firstSpend); len(got) != 1 || got[0].amount.Cmp(toBob) != 0 {
		t.Fatalf("bob did not receive his output: %+v", got)
	}
	aliceChange := scan(t, alice, tx, firstSpend)
	if len(aliceChange) != 1 || aliceChange[0].amount.Cmp(change) != 0 {
		t.Fatalf("alice did not receive her change on the subaddress: %+v", aliceChange)
	}

	// 3. tampering with the signed transaction must be caught by CheckBasic.
	for name, mutate := range map[string]func(tx *types.UTXOTransaction){
		"mlsag cc":       func(tx *types.UTXOTransaction) { tx.RCTSig.P.MGs[0].Cc[0] ^= 1 },
		"mlsag ss":       func(tx *types.UTXOTransaction) { tx.RCTSig.P.MGs[0].Ss[5][1][0] ^= 1 },
		"pseudo out":     func(tx *types.UTXOTransaction) { tx.RCTSig.P.PseudoOuts[0] = xcrypto.ScalarmultBase(d2h(7)) },
		"out commitment": func(tx *types.UTXOTransaction) { tx.RCTSig.OutPk[0].Mask = xcrypto.ScalarmultBase(d2h(7)) },
		"range proof":    func(tx *types.UTXOTransaction) { tx.RCTSig.P.Bulletproofs[0].L[0][0] ^= 1 },
		"ecdh amount":    func(tx *types.UTXOTransaction) { tx.RCTSig.EcdhInfo[0].Amount[0] ^= 1 },
		"fee":            func(tx *types.UTXOTransaction) { tx.Fee = new(big.Int).Add(tx.Fee, gasFee) },
		"one-time addr": func(tx *types.UTXOTransaction) {
			tx.Outputs[0].(*types.UTXOOutput).OTAddr = xcrypto.ScalarmultBase(d2h(9))
		},
		"key image": func(tx *types.UTXOTransaction) {
			tx.Inputs[0].(*types.UTXOInput).KeyImage = xcrypto.ScalarmultBase(d2h(9))
		},
		"key image torsion": func(tx *types.UTXOTransaction) {
			in := tx.Inputs[0].(*types.UTXOInput)
			in.KeyImage, _ = xcrypto.AddKeys(in.KeyImage, lk.Key{})
		},
		"ring member": func(tx *types.UTXOTransaction) {
			// offsets are relative: this replaces the last ring member by the
			// next output in the store (which exists after step 2)
			tx.Inputs[0].(*types.UTXOInput).KeyOffset[10]++
		},
	} {
		bad, err := spend(t, censor, alice, owned[0], ring, owned[0].amount, spendDests)
		if err != nil {
			t.Fatal(err)
		}
		mutate(bad)
		if err := bad.CheckBasic(censor); err == nil {
			t.Errorf("tampered transaction (%s) passes CheckBasic", name)
		}
	}

	// 4. inflation attempt with a full ring: claim more than the input holds.
	inflated := new(big.Int).Add(owned[0].amount, units(5000000))
	infDests := []types.DestEntry{&types.UTXODestEntry{Addr: bob.keys.Addr, Amount: new(big.Int).Sub(inflated, fee)}}
	if bad, err := spend(t, censor, alice, owned[0], ring, inflated, infDests); err == nil {
		if err := bad.CheckBasic(censor); err == nil {
			t.Errorf("MLSAG spend claiming a larger input amount passes CheckBasic (inflation)")
		}
	}

	// 5. a stranger cannot spend alice's output (wrong keys -> output not recognised)
	if _, err := spend(t, censor, bob, owned[0], ring, owned[0].amount, spendDests); err == nil {
		t.Errorf("bob could build a spend of alice's output")
	}
}

func TestE2EShortRing(t *testing.T) {
	seedRand(t, 22)
	censor := &fakeCensor{store: &fakeStore{spent: map[lk.Key]bool{}}}
	alice, bob := newAccount(0), newAccount(0)
	fundTx, first := fund(t, censor, []*account{alice, newAccount(0)}, []*big.Int{units(3000000000), units(1)})
	owned := scan(t, alice, fundTx, first)
	if len(owned) != 1 {
		t.Fatalf("alice did not find her output")
	}
	fee := new(big.Int).Mul(gasFee, big.NewInt(500000))
	dests := []types.DestEntry{&types.UTXODestEntry{Addr: bob.keys.Addr, Amount: new(big.Int).Sub(owned[0].amount, fee)}}
	// ring of ONE member: linkchain switches to the classic ring signature
	// (types.SHORT_RING_MEMBER_NUM) instead of MLSAG.
	tx, err := spend(t, censor, alice, owned[0], []uint64{owned[0].global}, owned[0].amount, dests)
	if err != nil {
		t.Fatalf("building the short-ring spend failed: %v", err)
	}
	if len(tx.RCTSig.P.Ss) != 1 {
		t.Fatalf("short ring spend carries no classic signature")
	}
	if err := tx.CheckBasic(censor); err != nil {
		t.Fatalf("CheckBasic(short ring): %v", err)
	}
	bad, _ := spend(t, censor, alice, owned[0], []uint64{owned[0].global}, owned[0].amount, dests)
	bad.RCTSig.P.Ss[0].R[0] ^= 1
	if err := bad.CheckBasic(censor); err == nil {
		t.Errorf("short-ring spend with a broken ring signature passes CheckBasic")
	}

	// OBSERVATION about /repo (not about the model): in the short-ring path
	// nothing ties the pseudo output commitment to the commitment of the spent
	// output (the MLSAG row C_in - C_pseudo that does this is skipped and the
	// classic ring signature only covers the one-time key). The result is
	// logged, not asserted, so that a fix in /repo does not break this test.
	inflated := new(big.Int).Add(owned[0].amount, units(999000000))
	infDests := []types.DestEntry{&types.UTXODestEntry{Addr: bob.keys.Addr, Amount: new(big.Int).Sub(inflated, fee)}}
	inf, err := spend(t, censor, alice, owned[0], []uint64{owned[0].global}, inflated, infDests)
	if err != nil {
		t.Logf("short-ring inflation attempt could not be built: %v", err)
		return
	}
	if err := inf.CheckBasic(censor); err == nil {
		t.Logf("OBSERVATION: short-ring spend of a %v input claiming %v passes CheckBasic (pseudo-out amount is not bound to the spent output)", owned[0].amount, inflated)
	} else {
		t.Logf("short-ring inflation attempt rejected: %v", err)
	}
}
