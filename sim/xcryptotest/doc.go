// Package xcryptotest holds the tests of the pure-Go xcrypto model
// (/verif/xcryptomodel). They must be run with the build overlay that swaps
// the cgo wrappers of libs/cryptonote/xcrypto for the model:
//
//	cd /verif && . ./env.sh && mkoverlay && cd sim &&
//	go1.26.8 test -vet=off -overlay /verif/build/overlay.json -count=1 ./xcryptotest/
package xcryptotest
