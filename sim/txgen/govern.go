package txgen

// Governance transactions (additions for the C05 rig rigs/execrig and the C13
// rig rigs/crashrig): calls of the REAL genesis Coefficient wasm contract
// (simnode.GenesisSpec.CoefficientContract) that change the chain's election
// and fee coefficients. Nothing here is used by Batch/Next/make.

import (
	"fmt"
	"math/big"

	"github.com/lianxiangcloud/linkchain/config"
	"github.com/lianxiangcloud/linkchain/types"
)

// KGovern labels a call of the Coefficient contract.
const KGovern Kind = "govern"

// Calldata of the Coefficient contract's methods.
func GovVotePeriod(n int64) string { return fmt.Sprintf(`updateVotePeriod|{"0":%d}`, n) }
func GovVoteRate(deno, nume, upper int) string {
	return fmt.Sprintf(`updateVoteRate|{"0":{"Deno":%d,"Nume":%d,"UpperLimit":%d}}`, deno, nume, upper)
}
func GovCalRate(s, d, r int64) string {
	return fmt.Sprintf(`updateCalRate|{"0":{"Srate":%d,"Drate":%d,"Rrate":%d}}`, s, d, r)
}
func GovMaxScore(n int64) string    { return fmt.Sprintf(`updateMaxScore|{"0":%d}`, n) }
func GovUTXOFee(v *big.Int) string { return fmt.Sprintf(`updateUTXOFee|{"0":"%s"}`, v.String()) }

// Govern builds a call of the Coefficient contract (input as built by the
// Gov* helpers). It succeeds only if from holds the committee right
// "coefficient" and the arguments pass the contract's checks; the ledger
// follows the receipt (no value moves either way).
func (g *Gen) Govern(from *Account, input string) *Item {
	data := []byte(input)
	gas := uint64(50000000) + intrinsic(data, false)
	if !g.canPay(from.Addr, gas, bi(0)) {
		return nil
	}
	to := config.ContractCoefficientAddr
	n := g.nextNonce(from.Addr)
	tx := types.NewTransaction(n, to, bi(0), gas, nil, data)
	g.signTx(from, tx)
	g.pendNonce[from.Addr] = n + 1
	g.reserve(Native, from.Addr, priceOf(gas))
	return g.record(&Item{Tx: tx, Kind: KGovern, From: from.Addr, To: &to, Token: Native, Value: bi(0), Data: data, Gas: gas, GasTight: true,
		Note: fmt.Sprintf("%s governs: %s", from.Name, input)})
}
