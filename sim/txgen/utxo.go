package txgen

import (
	"encoding/binary"
	"fmt"
	"math/big"
	"sort"
	"sync"

	"github.com/lianxiangcloud/linkchain/libs/common"
	"github.com/lianxiangcloud/linkchain/libs/crypto"
	lktypes "github.com/lianxiangcloud/linkchain/libs/cryptonote/types"
	"github.com/lianxiangcloud/linkchain/libs/cryptonote/xcrypto"
	"github.com/lianxiangcloud/linkchain/types"

	"verif/sim/kernel"
)

var (
	utxoOnce  sync.Once
	utxoReady bool
)

// UtxoReady reports whether the pure-Go xcrypto model is installed (the stub
// panics "not implemented" on every call).
func UtxoReady() bool {
	utxoOnce.Do(func() {
		defer func() {
			if r := recover(); r != nil {
				utxoReady = false
			}
		}()
		var one lktypes.Key
		one[0] = 1
		p := xcrypto.ScalarmultBase(one)
		utxoReady = p != (lktypes.Key{})
	})
	return utxoReady
}

// drbg is a Keccak counter-mode generator: the model's randomness (tx keys,
// pseudo-out masks, signature nonces) is a function of 32 tape bytes, and stays
// non-degenerate when a shrunk tape serves zeros.
type drbg struct {
	seed []byte
	ctr  uint64
	buf  []byte
}

func (d *drbg) Read(p []byte) (int, error) {
	for i := range p {
		if len(d.buf) == 0 {
			var c [8]byte
			binary.LittleEndian.PutUint64(c[:], d.ctr)
			d.ctr++
			d.buf = crypto.Keccak256([]byte("txgen-drbg"), d.seed, c[:])
		}
		p[i] = d.buf[0]
		d.buf = d.buf[1:]
	}
	return len(p), nil
}

// SeedCrypto makes the xcrypto model's randomness a function of the tape
// (process-wide; call once per run before confidential transactions are built).
func SeedCrypto(t *kernel.Tape) {
	if UtxoReady() {
		xcrypto.SetRand(&drbg{seed: t.Bytes(32)})
	}
}

// Wallet is a confidential wallet held by the generator.
type Wallet struct {
	Index int
	Acc   lktypes.AccountKey
	// KeyIndex maps spend public keys (main and sub-addresses) to the sub-address index.
	KeyIndex map[lktypes.PublicKey]uint64
	Subs     []lktypes.AccountAddress // Subs[0] is the main address
}

// NewWallet derives a wallet (spend key from the tape, view key from the spend
// key, nSub sub-addresses).
func NewWallet(t *kernel.Tape, index, nSub int) *Wallet {
	seed := crypto.Keccak256(t.Bytes(32), []byte(fmt.Sprintf("wallet-%d", index)))
	var rk lktypes.SecretKey
	copy(rk[:], seed)
	rk[31] &= 0x0f
	rk[0] |= 1
	ssk, spk := xcrypto.GenerateKeys(rk)
	var vrk lktypes.SecretKey
	copy(vrk[:], crypto.Keccak256(ssk[:]))
	vrk[31] &= 0x0f
	vrk[0] |= 1
	vsk, vpk := xcrypto.GenerateKeys(vrk)
	w := &Wallet{Index: index, KeyIndex: map[lktypes.PublicKey]uint64{}}
	w.Acc = lktypes.AccountKey{Addr: lktypes.AccountAddress{SpendPublicKey: spk, ViewPublicKey: vpk}, SpendSKey: ssk, ViewSKey: vsk}
	w.KeyIndex[spk] = 0
	w.Subs = append(w.Subs, w.Acc.Addr)
	for i := 1; i <= nSub; i++ {
		sub := xcrypto.GetSubaddress(&w.Acc, uint32(i))
		w.KeyIndex[sub.SpendPublicKey] = uint64(i)
		w.Subs = append(w.Subs, sub)
	}
	return w
}

// hiddenAux is what the owning wallet remembers about an output.
type hiddenAux struct {
	rKey     lktypes.PublicKey
	outIndex uint64 // position among the UTXO outputs of its transaction
	mask     lktypes.Key
	otAddr   lktypes.Key
	commit   lktypes.Key
}

type utxoInfo struct {
	kind   types.UTXOKind
	token  common.Address
	from   common.Address // account side: payer of the account input / signer paying a token tx's fee
	accIn  *big.Int       // account input amount (for the coin: value + fee)
	accOut *big.Int       // account output amount
	accTo  common.Address
	fee    *big.Int  // the transaction's Fee field
	spends []*Hidden // hidden outputs consumed
	outs   []*Hidden // hidden outputs created, in output order (Index is assigned when applied)
	// forged > 0: a deliberately unbalanced transaction (the inputs are claimed
	// to hold `forged` more than they do); only meaningful if the chain accepts it
	forged  *big.Int
	tamper  string
	nonceTx bool // consumes an account nonce (account input)
}

func (g *Gen) initWallets() {
	wt := g.T.Fork("wallets")
	for i := 0; i < g.Cfg.Wallets; i++ {
		g.wallets = append(g.wallets, NewWallet(wt, i, 2))
	}
	SeedCrypto(g.T.Fork("xcrypto-rand"))
}

// Wallets returns the generator's confidential wallets.
func (g *Gen) Wallets() []*Wallet { return g.wallets }

// rateOf returns the commitment unit of a token as the generator knows it
// (coin: the chain's constant; issued tokens: from the decimals it deployed them with).
func (g *Gen) rateOf(token common.Address) *big.Int {
	if token == Native {
		return bi(types.UTXO_COMMITMENT_CHANGE_RATE)
	}
	c := g.L.Contracts[token]
	if c == nil {
		return nil
	}
	r, err := types.UTXOChangeRateFromUint8(c.Decimals)
	if err != nil {
		return nil
	}
	return bi(r)
}

func (g *Gen) utxoGas() uint64 {
	if g.Cfg.UTXOGas > 0 {
		return g.Cfg.UTXOGas
	}
	return types.DefaultCoefficient().UTXOFee.Uint64()
}

// scan plays the receiving wallet: finds the outputs of tx that belong to w,
// decodes amount and mask and checks that they open the on-chain commitment.
func scan(w *Wallet, tx *types.UTXOTransaction, rate *big.Int) ([]*Hidden, error) {
	rkeys := append([]lktypes.PublicKey{tx.RKey}, tx.AddKeys...)
	var deriv []lktypes.KeyDerivation
	var derivKey []lktypes.PublicKey
	for _, rk := range rkeys {
		d, err := xcrypto.GenerateKeyDerivation(rk, w.Acc.ViewSKey)
		if err == nil {
			deriv = append(deriv, d)
			derivKey = append(derivKey, rk)
		}
	}
	var res []*Hidden
	n := uint64(0)
	for _, out := range tx.Outputs {
		uo, ok := out.(*types.UTXOOutput)
		if !ok {
			continue
		}
		idx := n
		n++
		d, sub, err := types.IsOutputBelongToAccount(&w.Acc, w.KeyIndex, uo.OTAddr, deriv, idx)
		if err != nil {
			continue
		}
		scalar, err := xcrypto.DerivationToScalar(d, int(idx))
		if err != nil {
			return nil, err
		}
		tup := tx.RCTSig.EcdhInfo[idx]
		if !xcrypto.EcdhDecode(&tup, lktypes.Key(scalar), false) {
			return nil, fmt.Errorf("EcdhDecode failed")
		}
		_, commits, _, err := xcrypto.TlvProveRangeBulletproof(lktypes.KeyV{tup.Amount}, lktypes.KeyV{lktypes.Key(scalar)})
		if err != nil {
			return nil, err
		}
		c8, _ := xcrypto.Scalarmult8(commits[0])
		if c8 != tx.RCTSig.OutPk[idx].Mask {
			return nil, fmt.Errorf("decoded amount/mask do not open the output commitment")
		}
		var rk lktypes.PublicKey
		for i := range deriv {
			if deriv[i] == d {
				rk = derivKey[i]
			}
		}
		res = append(res, &Hidden{Token: tx.TokenID, Amount: new(big.Int).Mul(types.Hash2BigInt(tup.Amount), rate), Owner: w.Index, Sub: sub,
			aux: &hiddenAux{rKey: rk, outIndex: idx, mask: tup.Mask, otAddr: uo.OTAddr, commit: tx.RCTSig.OutPk[idx].Mask}})
	}
	return res, nil
}

// hiddenDest draws a confidential destination: wallet and (sub-)address.
func (g *Gen) hiddenDest(amount *big.Int, prefer int) (*types.UTXODestEntry, *Wallet) {
	w := g.wallets[g.T.Int(len(g.wallets))]
	if prefer >= 0 && g.T.Bool(1, 2) {
		w = g.wallets[prefer]
	}
	sub := 0
	if g.T.Bool(1, 3) {
		sub = 1 + g.T.Int(len(w.Subs)-1)
	}
	return &types.UTXODestEntry{Addr: w.Subs[sub], Amount: cp(amount), IsSubaddress: sub > 0}, w
}

// collectOuts scans tx with every destination wallet and returns the created
// hidden outputs in output order; it fails if an output is not recognised by
// the wallet it was sent to or decodes to another amount.
func (g *Gen) collectOuts(tx *types.UTXOTransaction, dests []types.DestEntry, owners []*Wallet, rate *big.Int) ([]*Hidden, error) {
	var outs []*Hidden
	pos := uint64(0)
	for i, d := range dests {
		ud, ok := d.(*types.UTXODestEntry)
		if !ok {
			continue
		}
		found, err := scan(owners[i], tx, rate)
		if err != nil {
			return nil, err
		}
		var mine *Hidden
		for _, h := range found {
			if h.aux.(*hiddenAux).outIndex == pos {
				mine = h
			}
		}
		if mine == nil {
			return nil, fmt.Errorf("output %d not recognised by wallet %d", pos, owners[i].Index)
		}
		if mine.Amount.Cmp(ud.Amount) != 0 {
			return nil, fmt.Errorf("output %d decodes to %v, sent %v", pos, mine.Amount, ud.Amount)
		}
		outs = append(outs, mine)
		pos++
	}
	return outs, nil
}

func roundTo(v, unit *big.Int) *big.Int {
	q := new(big.Int).Div(v, unit)
	return q.Mul(q, unit)
}

// hiddenAmount draws a hidden amount (a multiple of unit) between lo and hi coins-equivalents.
func (g *Gen) hiddenAmount(unit *big.Int, max *big.Int) *big.Int {
	var v *big.Int
	switch g.T.Pick(5, 2, 1) {
	case 0:
		v = LK(int64(100 + g.T.Int(3000)))
	case 1:
		v = add(LK(int64(60+g.T.Int(500))), new(big.Int).SetUint64(g.T.Uint64()%1000000000000000000))
	default:
		v = cp(unit) // the smallest representable amount
	}
	if v.Cmp(max) > 0 {
		v = cp(max)
	}
	return roundTo(v, unit)
}

// AccToUtxo builds an account -> hidden transaction of the coin or of an issued token.
func (g *Gen) AccToUtxo(from *Account, token common.Address) *Item {
	if len(g.wallets) == 0 {
		return nil
	}
	unit := g.rateOf(token)
	if unit == nil {
		return nil
	}
	nOut := 1 + g.T.Pick(4, 3, 1)
	var dests []types.DestEntry
	var owners []*Wallet
	total := new(big.Int)
	if token == Native {
		av := g.avail(Native, from.Addr)
		av.Sub(av, LK(2000))
		if av.Cmp(LK(200)) < 0 {
			return nil
		}
		for i := 0; i < nOut; i++ {
			a := g.hiddenAmount(unit, new(big.Int).Div(av, bi(int64(nOut))))
			d, w := g.hiddenDest(a, -1)
			dests, owners = append(dests, d), append(owners, w)
			total.Add(total, a)
		}
	} else {
		av := g.avail(token, from.Addr)
		if av.Cmp(unit) < 0 {
			return nil
		}
		for i := 0; i < nOut; i++ {
			a := roundTo(new(big.Int).Div(g.part(av), bi(int64(nOut))), unit)
			d, w := g.hiddenDest(a, -1)
			dests, owners = append(dests, d), append(owners, w)
			total.Add(total, a)
		}
		if total.Cmp(unit) < 0 {
			return nil
		}
	}
	gas := transferGas(total)
	if token != Native {
		gas = transferGas(bi(0))
	}
	if g.T.Bool(1, 5) {
		gas += uint64(1 + g.T.Int(100000)) // paying more than needed is allowed
	}
	fee := priceOf(gas)
	n := g.nextNonce(from.Addr)
	src := &types.AccountSourceEntry{From: from.Addr, Nonce: n, Amount: cp(total)}
	if token == Native {
		src.Amount.Add(src.Amount, fee)
		if g.avail(Native, from.Addr).Cmp(src.Amount) < 0 {
			return nil
		}
	} else if !g.canPay(from.Addr, gas, bi(0)) {
		return nil
	}
	var tx *types.UTXOTransaction
	var err error
	_, _, panicked := kernel.Try(func() { tx, _, err = types.NewAinTokenTransaction(src, dests, token, fee, nil) })
	if panicked || err != nil || tx == nil {
		return nil
	}
	if err := tx.Sign(types.GlobalSTDSigner, from.Key); err != nil {
		return nil
	}
	outs, err := g.collectOuts(tx, dests, owners, unit)
	if err != nil {
		g.LastUtxoError = err
		return nil
	}
	g.pendNonce[from.Addr] = n + 1
	if token == Native {
		g.reserve(Native, from.Addr, src.Amount)
	} else {
		g.reserve(token, from.Addr, total)
		g.reserve(Native, from.Addr, fee)
	}
	return g.record(&Item{Tx: tx, Kind: KAcc2Utxo, From: from.Addr, Token: token, Value: cp(total), Gas: gas,
		utxo: &utxoInfo{kind: types.AinUout, token: token, from: from.Addr, accIn: cp(src.Amount), fee: fee, outs: outs, nonceTx: true},
		Note: fmt.Sprintf("%s -> hidden %v of %s in %d outputs (fee %v)", from.Name, total, tokShort(token), nOut, fee)})
}

func tokShort(t common.Address) string {
	if t == Native {
		return "coin"
	}
	return fmt.Sprintf("token %x..", t[:4])
}

// OutputReader gives access to the chain's output index (normally the
// proposing replica's UtxoStore.GetUtxoOutput).
type OutputReader func(token common.Address, seq uint64) (*types.UTXOOutputData, error)

func (g *Gen) readOutput(token common.Address, seq uint64) (*types.UTXOOutputData, error) {
	if g.Outputs != nil {
		return g.Outputs(token, seq)
	}
	hs := g.L.Hidden[token]
	if seq >= uint64(len(hs)) {
		return nil, fmt.Errorf("no output %d", seq)
	}
	a := hs[seq].aux.(*hiddenAux)
	return &types.UTXOOutputData{OTAddr: a.otAddr, Commit: a.commit, TokenID: token, Height: hs[seq].Height}, nil
}

// spendable returns the wallet's unspent, not pending outputs of a token.
func (g *Gen) spendable(w *Wallet, token common.Address) []*Hidden {
	var out []*Hidden
	for _, h := range g.L.Hidden[token] {
		if h.Owner == w.Index && !h.Spent && !g.pendKI[hiddenID(h)] {
			out = append(out, h)
		}
	}
	return out
}

func hiddenID(h *Hidden) string { return fmt.Sprintf("%x/%d", h.Token, h.Index) }

// sourceFor builds the spend description of h with a ring of the given size
// drawn from the token's output index (always containing h).
func (g *Gen) sourceFor(h *Hidden, ringSize int, claimed *big.Int) (*types.UTXOSourceEntry, error) {
	a := h.aux.(*hiddenAux)
	total := uint64(len(g.L.Hidden[h.Token]))
	if uint64(ringSize) > total {
		ringSize = int(total)
	}
	members := map[uint64]bool{h.Index: true}
	for try := 0; len(members) < ringSize; try++ {
		m := uint64(g.T.Int(int(total)))
		if try >= 4*ringSize {
			// a degenerate (shrunk) tape keeps drawing the same index: fill up in order
			for m = 0; members[m]; m++ {
			}
		}
		members[m] = true
	}
	var idx []uint64
	for m := range members {
		idx = append(idx, m)
	}
	sort.Slice(idx, func(i, j int) bool { return idx[i] < idx[j] })
	src := &types.UTXOSourceEntry{RKey: a.rKey, OutIndex: a.outIndex, Amount: cp(claimed), Mask: a.mask}
	for pos, m := range idx {
		o, err := g.readOutput(h.Token, m)
		if err != nil {
			return nil, err
		}
		src.Ring = append(src.Ring, types.UTXORingEntry{Index: m, OTAddr: o.OTAddr, Commit: o.Commit})
		if m == h.Index {
			src.RingIndex = uint64(pos)
			if o.OTAddr != a.otAddr || o.Commit != a.commit {
				return nil, fmt.Errorf("output index %d of the chain differs from the wallet's record", m)
			}
		}
	}
	return src, nil
}

// SpendOpts steers UtxoSpend.
type SpendOpts struct {
	Wallet    *Wallet
	Token     common.Address
	ToAccount bool // hidden -> account (else hidden -> hidden)
	// RingSize 1 = "short ring" (classic ring signature), >= 2 = MLSAG; 0 = drawn.
	RingSize int
	// Inflate > 0: claim that the (first) input holds Inflate more than it does
	// and hand the surplus out (an attack; see the tamper catalogue).
	Inflate *big.Int
}

// UtxoSpend builds a transaction spending hidden outputs of a wallet.
func (g *Gen) UtxoSpend(o SpendOpts) *Item { return g.utxoSpend(o, spendHooks{}) }

// spendHooks are the adversarial seams of utxoSpend (all nil = the plain builder).
type spendHooks struct {
	// pre runs between construction and signing (see UtxoSpendPre).
	pre func(tx *types.UTXOTransaction, dests []types.DestEntry)
	// rct replaces types.UInTransWithRctSig (see UtxoSpendForged); the created
	// outputs are then not scanned back by the destination wallets.
	rct func(tx *types.UTXOTransaction, sources []*types.UTXOSourceEntry, ephs []*types.UTXOInputEphemeral, dests []types.DestEntry, mkeys lktypes.KeyV) error
}

// utxoSpend is UtxoSpend with an optional hook between construction and
// signing and an optional replacement of the RingCT stage (adversarial.go, forge.go).
func (g *Gen) utxoSpend(o SpendOpts, hk spendHooks) *Item {
	w, token := o.Wallet, o.Token
	unit := g.rateOf(token)
	if w == nil || unit == nil {
		return nil
	}
	cands := g.spendable(w, token)
	if len(cands) == 0 {
		return nil
	}
	// inputs: one or two outputs, enough to carry the fee
	g.T.Shuffle(len(cands), func(i, j int) { cands[i], cands[j] = cands[j], cands[i] })
	nIn := 1
	if len(cands) > 1 && g.T.Bool(1, 3) {
		nIn = 2
	}
	ins := cands[:nIn]
	inSum := new(big.Int)
	for _, h := range ins {
		inSum.Add(inSum, h.Amount)
	}
	claimedSum := cp(inSum)
	if o.Inflate != nil {
		claimedSum.Add(claimedSum, o.Inflate)
	}
	ring := o.RingSize
	if ring == 0 {
		ring = []int{1, 2, 3, 5, 11}[g.T.Pick(3, 3, 2, 1, 1)]
	}
	if ring > 1 && len(g.L.Hidden[token]) < 2 {
		ring = 1
	}
	// fee and outputs
	var (
		dests  []types.DestEntry
		owners []*Wallet
		accTo  common.Address
		accOut = new(big.Int)
		signer *Account
	)
	var gas uint64
	budget := cp(claimedSum)
	if token != Native {
		signer = g.pickAcct()
	}
	if o.ToAccount {
		accTo = g.eoaTarget()
	}
	withChange := g.T.Bool(2, 3)
	// gas the chain demands for this shape (the generator may pay more, never less)
	feeFor := func(prim *big.Int, change bool) uint64 {
		gs := uint64(0)
		if o.ToAccount {
			if token == Native {
				gs += transferGas(prim)
			} else {
				gs += transferGas(bi(0))
			}
			if change {
				gs += g.utxoGas()
			}
		} else {
			gs += g.utxoGas()
		}
		return gs
	}
	var fee, primary, rest *big.Int
	if token == Native {
		// the fee comes out of the hidden value: primary + change + fee = claimed inputs
		maxFee := priceOf(transferGas(budget) + g.utxoGas())
		room := sub(budget, maxFee)
		if room.Cmp(unit) < 0 {
			return nil
		}
		primary = roundTo(g.part(room), unit)
		if primary.Sign() == 0 && (o.ToAccount || g.T.Bool(3, 4)) {
			primary = roundTo(room, unit)
		}
		gas = feeFor(primary, withChange)
		fee = priceOf(gas)
		rest = sub(sub(budget, primary), fee)
		if !withChange || rest.Sign() == 0 {
			// no change output: what is left over is paid as fee, which must stay a
			// multiple of the gas price; the sub-price remainder joins the primary amount
			withChange = false
			gas = feeFor(primary, false)
			fee = priceOf(gas)
			rest = sub(sub(budget, primary), fee)
			e := new(big.Int).Mod(rest, bi(types.ParGasPrice))
			primary.Add(primary, e)
			fee = sub(budget, primary)
			if fee.Cmp(priceOf(feeFor(primary, false))) < 0 {
				return nil
			}
			gas = new(big.Int).Div(fee, bi(types.ParGasPrice)).Uint64()
			rest = new(big.Int)
		}
	} else {
		// token: hidden in == hidden/account out, the fee is paid in coin by the signer
		primary = roundTo(g.part(budget), unit)
		if primary.Sign() == 0 {
			primary = cp(budget)
		}
		rest = sub(budget, primary)
		if !withChange || rest.Sign() == 0 {
			primary, rest, withChange = cp(budget), new(big.Int), false
		}
		gas = feeFor(primary, withChange)
		if g.T.Bool(1, 5) {
			gas += uint64(1 + g.T.Int(100000))
		}
		fee = priceOf(gas)
		if !g.canPay(signer.Addr, gas, bi(0)) {
			return nil
		}
	}
	if o.ToAccount {
		accOut = cp(primary)
		dests, owners = append(dests, &types.AccountDestEntry{To: accTo, Amount: cp(primary)}), append(owners, nil)
	} else {
		d, ow := g.hiddenDest(primary, -1)
		dests, owners = append(dests, d), append(owners, ow)
	}
	if withChange {
		d, ow := g.hiddenDest(rest, w.Index)
		dests, owners = append(dests, d), append(owners, ow)
	}
	if o.ToAccount && accOut.Cmp(unit) < 0 {
		return nil
	}
	// sources
	var sources []*types.UTXOSourceEntry
	for i, h := range ins {
		claimed := cp(h.Amount)
		if i == 0 && o.Inflate != nil {
			claimed.Add(claimed, o.Inflate)
		}
		s, err := g.sourceFor(h, ring, claimed)
		if err != nil {
			g.LastUtxoError = err
			return nil
		}
		sources = append(sources, s)
	}
	var tx *types.UTXOTransaction
	var err error
	_, _, panicked := kernel.Try(func() {
		var ephs []*types.UTXOInputEphemeral
		var mkeys lktypes.KeyV
		tx, ephs, mkeys, _, err = types.NewUinTokenTransaction(&w.Acc, w.KeyIndex, sources, dests, token, common.EmptyAddress, fee, nil)
		if err != nil {
			return
		}
		if hk.pre != nil {
			hk.pre(tx, dests)
		}
		if signer != nil {
			if err = tx.Sign(types.GlobalSTDSigner, signer.Key); err != nil {
				return
			}
		}
		if hk.rct != nil {
			err = hk.rct(tx, sources, ephs, dests, mkeys)
			return
		}
		err = types.UInTransWithRctSig(tx, sources, ephs, dests, mkeys)
	})
	if panicked || err != nil || tx == nil {
		if err != nil {
			g.LastUtxoError = err
		}
		return nil
	}
	// what travels on the wire does not contain these
	tx.RCTSig.Message = lktypes.Key{}
	tx.RCTSig.MixRing = nil
	for i := range tx.RCTSig.P.MGs {
		tx.RCTSig.P.MGs[i].II = nil
	}
	var outs []*Hidden
	if hk.rct == nil {
		if outs, err = g.collectOuts(tx, dests, owners, unit); err != nil {
			g.LastUtxoError = err
			return nil
		}
	}
	for _, h := range ins {
		g.pendKI[hiddenID(h)] = true
	}
	kind, ukind := KUtxo2Utxo, types.UinUout
	if o.ToAccount {
		kind, ukind = KUtxo2Acc, types.UinAout
		if withChange {
			ukind |= types.Uout
		}
	}
	info := &utxoInfo{kind: ukind, token: token, accOut: accOut, accTo: accTo, fee: cp(fee), spends: ins, outs: outs}
	from := common.EmptyAddress
	if signer != nil {
		from = signer.Addr
		info.from = from
		g.reserve(Native, from, fee)
	}
	if o.Inflate != nil {
		info.forged = cp(o.Inflate)
	}
	return g.record(&Item{Tx: tx, Kind: kind, From: from, Token: token, Value: cp(primary), Gas: gas, utxo: info,
		Note: fmt.Sprintf("wallet%d spends %d hidden (%v %s, ring %d) -> %s %v, change %v, fee %v", w.Index, len(ins), inSum, tokShort(token), ring, map[bool]string{true: "account", false: "hidden"}[o.ToAccount], primary, withChange, fee)})
}

func (g *Gen) makeUtxo(k Kind, from *Account) *Item {
	if len(g.wallets) == 0 {
		return nil
	}
	// token choice: mostly the coin, sometimes an issued token somebody holds
	token := Native
	if g.T.Bool(1, 4) {
		var ts []common.Address
		for _, t := range g.L.Tokens() {
			if t != Native && !g.L.OpaqueTokens[t] && g.rateOf(t) != nil {
				ts = append(ts, t)
			}
		}
		if len(ts) > 0 {
			token = ts[g.T.Int(len(ts))]
		}
	}
	switch k {
	case KAcc2Utxo:
		if token != Native {
			// a generator account holding the token
			var hs []*Account
			for _, h := range g.L.HoldersOf(token) {
				if a := g.byAddr[h]; a != nil && g.avail(token, h).Sign() > 0 {
					hs = append(hs, a)
				}
			}
			if len(hs) == 0 {
				token = Native
			} else {
				from = hs[g.T.Int(len(hs))]
			}
		}
		return g.AccToUtxo(from, token)
	case KUtxo2Utxo, KUtxo2Acc:
		// a wallet with something to spend
		var ws []*Wallet
		for _, w := range g.wallets {
			if len(g.spendable(w, token)) > 0 {
				ws = append(ws, w)
			}
		}
		if len(ws) == 0 && token != Native {
			token = Native
			for _, w := range g.wallets {
				if len(g.spendable(w, token)) > 0 {
					ws = append(ws, w)
				}
			}
		}
		if len(ws) == 0 {
			return nil
		}
		return g.UtxoSpend(SpendOpts{Wallet: ws[g.T.Int(len(ws))], Token: token, ToAccount: k == KUtxo2Acc})
	}
	return nil
}

// ---------------------------------------------------------------- ledger side

func (l *Ledger) applyUTXO(it *Item, r *types.Receipt, fee *big.Int, height uint64, ok bool) {
	u := it.utxo
	if !ok {
		l.mismatch("status/"+string(it.Kind)+"/model-ok-receipt-fail", "%s: confidential transaction failed in the VM stage (%s)", it.Note, r.VMErr)
	}
	if u.nonceTx {
		l.nonce[u.from]++
	}
	// account side, from the transaction's contents
	if u.accIn != nil {
		if !l.debit(u.token, u.from, u.accIn) {
			l.mismatch("utxo/account-input-exceeds-balance", "%s: account input %v above the modelled balance", it.Note, u.accIn)
		}
	}
	if u.token != Native || (u.accIn == nil && false) {
		// token transactions pay the fee in coin from the signer
		if u.from != (common.Address{}) {
			if !l.debit(Native, u.from, fee) {
				l.mismatch("fee/exceeds-balance", "%s: fee %v exceeds the signer's modelled balance", it.Note, fee)
			}
		}
	}
	if u.accOut != nil && u.accOut.Sign() > 0 {
		l.credit(u.token, u.accTo, u.accOut)
	}
	// hidden side
	for _, h := range u.spends {
		if h.Spent {
			l.mismatch("utxo/double-spend-committed", "%s: hidden output %s spent twice", it.Note, hiddenID(h))
		}
		h.Spent = true
	}
	for _, h := range u.outs {
		h.Index = uint64(len(l.Hidden[u.token]))
		h.Height = height
		l.Hidden[u.token] = append(l.Hidden[u.token], h)
	}
	if u.forged != nil && u.forged.Sign() > 0 {
		bump(l.Forged, u.token, u.forged)
	}
}
