package txgen

import (
	"math/big"
	"sync"

	"github.com/lianxiangcloud/linkchain/libs/common"
	lktypes "github.com/lianxiangcloud/linkchain/libs/cryptonote/types"
	"github.com/lianxiangcloud/linkchain/libs/cryptonote/xcrypto"
	"github.com/lianxiangcloud/linkchain/types"
)

var (
	utxoOnce  sync.Once
	utxoReady bool
)

// UtxoReady reports whether the pure-Go xcrypto model is installed (the stub
// panics "not implemented" on every call).
func UtxoReady() bool {
	utxoOnce.Do(func() {
		defer func() {
			if r := recover(); r != nil {
				utxoReady = false
			}
		}()
		var one lktypes.Key
		one[0] = 1
		p := xcrypto.ScalarmultBase(one)
		utxoReady = p != (lktypes.Key{})
	})
	return utxoReady
}

// Wallet is a confidential wallet held by the generator.
type Wallet struct {
	Index int
	Acc   lktypes.AccountKey
	// KeyIndex maps spend public keys (main and sub-addresses) to the sub-address index.
	KeyIndex map[lktypes.PublicKey]uint64
	Subs     []lktypes.AccountAddress // Subs[0] is the main address
}

type utxoInfo struct {
	kind     types.UTXOKind
	from     common.Address // account side payer (zero for pure UTXO input)
	accIn    *big.Int       // account input amount (value + fee for the coin)
	accOut   *big.Int       // account output amount
	accTo    common.Address
	fee      *big.Int
	spends   []*Hidden
	outs     []*Hidden // new hidden outputs in output order (Index filled at apply time)
	tampered string
}

func (g *Gen) initWallets() {}

func (g *Gen) makeUtxo(k Kind, from *Account) *Item { return nil }

func (l *Ledger) applyUTXO(it *Item, r *types.Receipt, fee *big.Int, height uint64, ok bool) {}
