// Package txgen is the shared transaction/workload generator of the
// simulation rigs: externally owned accounts with secp256k1 keys drawn from the
// choice tape, every transaction kind the chain accepts (plain and token
// transfers, EVM creations and calls that succeed / revert / run out of gas,
// optional ready-made WASM contracts, contract-upgrade and multi-signature
// transactions, confidential transactions with generator-held wallets), a
// reference ledger advanced from receipts and transaction contents only, and a
// driver for one chain replica (build / check / commit / apply a block without
// the consensus state machine).
//
// See README.md for the API summary.
package txgen

import (
	"crypto/ecdsa"
	"math/big"

	"github.com/lianxiangcloud/linkchain/libs/common"
	"github.com/lianxiangcloud/linkchain/libs/crypto"

	"verif/sim/kernel"
)

// Account is an externally owned account.
type Account struct {
	Name string
	Key  *ecdsa.PrivateKey
	Addr common.Address
}

// NewAccount draws a secp256k1 key from the tape.
func NewAccount(t *kernel.Tape, name string) *Account {
	for i := 0; ; i++ {
		// hashed together with the name so that a degenerate (shrunk, all-zero)
		// tape still yields distinct accounts
		b := crypto.Keccak256(t.Bytes(32), []byte(name), []byte{byte(i)})
		// keep the scalar comfortably inside the group order and non-zero
		b[0] &= 0x7f
		b[31] |= 1
		k, err := crypto.ToECDSA(b)
		if err != nil {
			continue
		}
		return &Account{Name: name, Key: k, Addr: crypto.PubkeyToAddress(k.PublicKey)}
	}
}

// Units.
var (
	// Wei per LK (the native coin has 18 decimals).
	Ether = new(big.Int).Exp(big.NewInt(10), big.NewInt(18), nil)
)

// LK returns n whole coins in wei.
func LK(n int64) *big.Int { return new(big.Int).Mul(big.NewInt(n), Ether) }

func bi(v int64) *big.Int                { return big.NewInt(v) }
func cp(v *big.Int) *big.Int             { return new(big.Int).Set(v) }
func add(a, b *big.Int) *big.Int         { return new(big.Int).Add(a, b) }
func sub(a, b *big.Int) *big.Int         { return new(big.Int).Sub(a, b) }
func mulU(a *big.Int, u uint64) *big.Int { return new(big.Int).Mul(a, new(big.Int).SetUint64(u)) }
