package txgen

import (
	"fmt"
	"math/big"
	"os"
	"path/filepath"
	"sort"
	"strings"

	"github.com/lianxiangcloud/linkchain/config"
	"github.com/lianxiangcloud/linkchain/libs/common"
	"github.com/lianxiangcloud/linkchain/libs/crypto"
	"github.com/lianxiangcloud/linkchain/libs/ser"
	"github.com/lianxiangcloud/linkchain/types"

	"verif/sim/kernel"
	"verif/sim/simnode"
)

// Kind names a transaction kind of the workload.
type Kind string

const (
	KTransfer      Kind = "transfer"          // coin, EOA -> EOA (existing or fresh)
	KTransferOver  Kind = "transfer-over"     // coin, value above the balance: fails in the VM stage, fee only (block-only)
	KTokenNative   Kind = "tokentx-native"    // TokenTransaction carrying the coin
	KToken         Kind = "token-transfer"    // TokenTransaction of an issued token, EOA -> EOA
	KTokenOver     Kind = "token-over"        // token value above the balance (block-only)
	KTokenContract Kind = "token-to-contract" // TokenTransaction into a contract
	KCreate        Kind = "create"            // contract creation (with or without endowment)
	KCreateFail    Kind = "create-fail"       // constructor reverts / INVALID / oversized code
	KValueContract Kind = "value-to-contract" // coin to a contract, empty calldata
	KCallStore     Kind = "call-store"
	KCallRevert    Kind = "call-revert"
	KCallTight     Kind = "call-tight-gas" // gas limit swept around the need: may run out of gas
	KCallIssue     Kind = "call-issue"
	KCallIssueBad  Kind = "call-issue-bad"
	KCallSuicide   Kind = "call-suicide"
	KCallForward   Kind = "call-forward"
	KCallDying     Kind = "call-after-suicide" // value to a contract that self-destructed earlier in the same block
	KMultiSign     Kind = "multisign"
	KUpgrade       Kind = "upgrade"
	KWasmCreate    Kind = "wasm-create"
	KWasmCall      Kind = "wasm-call"
	KAcc2Utxo      Kind = "acc-to-utxo"
	KUtxo2Utxo     Kind = "utxo-to-utxo"
	KUtxo2Acc      Kind = "utxo-to-acc"
)

// AccountKinds are the kinds that need no confidential-transaction support.
var AccountKinds = []Kind{KTransfer, KTransferOver, KTokenNative, KToken, KTokenOver, KTokenContract, KCreate, KCreateFail,
	KValueContract, KCallStore, KCallRevert, KCallTight, KCallIssue, KCallIssueBad, KCallSuicide, KCallForward, KCallDying,
	KMultiSign, KUpgrade}

// WasmKinds use the ready-made WASM contracts of the repository's test data.
var WasmKinds = []Kind{KWasmCreate, KWasmCall}

// UtxoKinds need the xcrypto model (UtxoReady()).
var UtxoKinds = []Kind{KAcc2Utxo, KUtxo2Utxo, KUtxo2Acc}

// Item is one generated transaction with what the generator knows about it.
type Item struct {
	Tx   types.Tx
	Kind Kind
	Note string // short human-readable description

	From  common.Address
	To    *common.Address
	Token common.Address // token carried (Native for the coin)
	Value *big.Int
	Data  []byte
	Gas   uint64
	// GasTight: the gas limit is deliberately close to the need; the model
	// cannot tell success from out-of-gas and follows the receipt.
	GasTight bool
	// BlockOnly: valid inside a block but refused by the mempool's state check
	// (offer it only through an explicit transaction list).
	BlockOnly bool
	// creation
	Create      ContractKind
	CreateFails bool
	NewAddr     common.Address // predicted address of the created contract
	Decimals    byte
	// opaque (WASM) items: effects not modelled; Touches lists the accounts whose holdings become unpredictable
	Opaque  bool
	Touches []common.Address
	// MayPass: for KUpgrade, the target holds WASM code (success possible)
	MayPass bool

	createdAt common.Address
	utxo      *utxoInfo
}

// Config configures a generator.
type Config struct {
	Accounts int      // funded externally owned accounts (default 6)
	Funds    *big.Int // genesis balance of each (default 1e6 coins)
	// Kinds enabled; nil = AccountKinds (+ UtxoKinds when Utxo is set and the model is installed).
	Kinds []Kind
	// Weights per kind; missing/zero entries get a weight drawn from the tape
	// (swarm testing: each run emphasises a different mix).
	Weights map[Kind]int
	// BlockOnly permits kinds that the mempool refuses (KTransferOver, KTokenOver).
	BlockOnly bool
	// Utxo enables confidential transactions if UtxoReady().
	Utxo bool
	// Wallets is the number of confidential wallets (default 3).
	Wallets int
	// Validators sign MultiSignAccountTx (needs > 2/3 of the power).
	Validators []simnode.ValKey
	// MaxValue caps plain transfer amounts (default 1000 coins).
	MaxValue *big.Int
	// UTXOGas is the chain's current gas charge for a confidential transfer
	// (App.GetUTXOGas()); 0 = the default coefficient's value.
	UTXOGas uint64
}

// Gen is a tape-driven workload generator with a reference ledger.
type Gen struct {
	T     *kernel.Tape
	Cfg   Config
	Accts []*Account
	L     *Ledger

	byAddr  map[common.Address]*Account
	weights []int
	kinds   []Kind

	// pending view: what the not-yet-committed items may spend (worst case)
	pendNonce map[common.Address]uint64
	pendSpend map[common.Address]map[common.Address]*big.Int // token -> addr -> amount
	pending   map[common.Hash]*Item
	order     []*Item
	variant   int
	fresh     int
	dyingNow  map[common.Address]bool // contracts with a pending self-destruct in this batch
	wasm      *wasmSet
	wallets   []*Wallet
	pendKI    map[string]bool
	msNonce   uint64

	// Outputs reads the chain's output index for ring members (set it to the
	// proposing replica's UtxoStore.GetUtxoOutput); nil = the generator's own record.
	Outputs OutputReader
	// LastUtxoError is the last reason a confidential transaction could not be built.
	LastUtxoError error
}

// New creates a generator; all randomness comes from t.
func New(t *kernel.Tape, cfg Config) *Gen {
	if cfg.Accounts <= 0 {
		cfg.Accounts = 6
	}
	if cfg.Funds == nil {
		cfg.Funds = LK(1000000)
	}
	if cfg.MaxValue == nil {
		cfg.MaxValue = LK(1000)
	}
	if cfg.Wallets <= 0 {
		cfg.Wallets = 3
	}
	g := &Gen{T: t, Cfg: cfg, byAddr: map[common.Address]*Account{}, L: NewLedger(config.ContractFoundationAddr)}
	for i := 0; i < cfg.Accounts; i++ {
		a := NewAccount(t, fmt.Sprintf("acct%d", i))
		g.Accts = append(g.Accts, a)
		g.byAddr[a.Addr] = a
		g.L.SetGenesis(a.Addr, cfg.Funds, 0)
	}
	kinds := cfg.Kinds
	if kinds == nil {
		kinds = append([]Kind(nil), AccountKinds...)
		if cfg.Utxo && UtxoReady() {
			kinds = append(kinds, UtxoKinds...)
		}
	}
	for _, k := range kinds {
		if !cfg.BlockOnly && (k == KTransferOver || k == KTokenOver) {
			continue
		}
		if (k == KAcc2Utxo || k == KUtxo2Utxo || k == KUtxo2Acc) && !(cfg.Utxo && UtxoReady()) {
			continue
		}
		if (k == KWasmCreate || k == KWasmCall) && loadWasm() == nil {
			continue
		}
		w := cfg.Weights[k]
		if w <= 0 {
			w = 1 + t.Int(8)
			if t.Bool(1, 5) {
				w = 0 // swarm: some kinds are off in this run
			}
			if k == KTransfer {
				w += 4
			}
		}
		g.kinds = append(g.kinds, k)
		g.weights = append(g.weights, w)
	}
	if cfg.Utxo && UtxoReady() {
		g.initWallets()
	}
	g.resetPending()
	return g
}

// Alloc returns the genesis allocations the generator assumes.
func (g *Gen) Alloc() []simnode.Alloc {
	var out []simnode.Alloc
	for _, a := range g.Accts {
		out = append(out, simnode.Alloc{Addr: a.Addr, Balance: cp(g.Cfg.Funds)})
	}
	return out
}

// KnowGenesis tells the ledger about genesis accounts created outside the
// generator (system contract accounts, validators' coinbases...).
func (g *Gen) KnowGenesis(addrs ...common.Address) {
	for _, a := range addrs {
		g.L.Know(a)
	}
}

func (g *Gen) resetPending() {
	g.pendNonce = map[common.Address]uint64{}
	g.pendSpend = map[common.Address]map[common.Address]*big.Int{}
	g.pending = map[common.Hash]*Item{}
	g.order = nil
	g.dyingNow = map[common.Address]bool{}
	g.pendKI = map[string]bool{}
	g.msNonce = g.L.Nonce(types.MultiSignNonceAddr)
}

// Reset forgets all pending (generated but not committed) items.
func (g *Gen) Reset() { g.resetPending() }

// Pending returns the generated, not yet committed items in generation order.
func (g *Gen) Pending() []*Item { return append([]*Item(nil), g.order...) }

func (g *Gen) nextNonce(a common.Address) uint64 {
	if n, ok := g.pendNonce[a]; ok {
		return n
	}
	return g.L.Nonce(a)
}

func (g *Gen) avail(token, a common.Address) *big.Int {
	v := g.L.Balance(token, a)
	if m := g.pendSpend[token]; m != nil && m[a] != nil {
		v.Sub(v, m[a])
	}
	if v.Sign() < 0 {
		return new(big.Int)
	}
	return v
}

func (g *Gen) reserve(token, a common.Address, v *big.Int) {
	m := g.pendSpend[token]
	if m == nil {
		m = map[common.Address]*big.Int{}
		g.pendSpend[token] = m
	}
	if m[a] == nil {
		m[a] = new(big.Int)
	}
	m[a].Add(m[a], v)
}

func (g *Gen) record(it *Item) *Item {
	g.pending[it.Tx.Hash()] = it
	g.order = append(g.order, it)
	return it
}

// ---------------------------------------------------------------- gas rules

const (
	bigGas   = uint64(300000000) // ample for every embedded contract path (value-transfer fees inside contracts are charged as gas per coin moved)
	storeGas = uint64(400000)
)

func transferGas(v *big.Int) uint64 { return types.CalNewAmountGas(v, types.EverLiankeFee) }
func contractValueGas(v *big.Int) uint64 {
	if v.Sign() == 0 {
		return 0
	}
	return types.CalNewAmountGas(v, types.EverContractLiankeFee)
}

func intrinsic(data []byte, create bool) uint64 {
	g, _ := types.IntrinsicGas(data, create, config.EvmGasRate)
	return g
}

// ---------------------------------------------------------------- builders

func (g *Gen) signTx(from *Account, tx *types.Transaction) {
	if err := tx.Sign(types.GlobalSTDSigner, from.Key); err != nil {
		panic(err)
	}
}

// canPay reports whether from can prepay gas (and, for the mempool's state
// check, the value) on top of everything pending.
func (g *Gen) canPay(from common.Address, gas uint64, nativeValue *big.Int) bool {
	need := add(priceOf(gas), nativeValue)
	return g.avail(Native, from).Cmp(need) >= 0
}

// Transfer builds a coin transfer to an account without code. over=true
// makes the value exceed the sender's balance (block-only).
func (g *Gen) Transfer(from *Account, to common.Address, value *big.Int) *Item {
	gas := transferGas(value)
	over := g.avail(Native, from.Addr).Cmp(add(value, priceOf(gas))) < 0
	if !g.canPay(from.Addr, gas, bi(0)) {
		return nil
	}
	n := g.nextNonce(from.Addr)
	tx := types.NewTransaction(n, to, value, gas, nil, nil)
	g.signTx(from, tx)
	g.pendNonce[from.Addr] = n + 1
	g.reserve(Native, from.Addr, priceOf(gas))
	kind := KTransfer
	if over {
		kind = KTransferOver
	} else {
		g.reserve(Native, from.Addr, value)
	}
	return g.record(&Item{Tx: tx, Kind: kind, From: from.Addr, To: &to, Token: Native, Value: cp(value), Gas: gas, BlockOnly: over,
		Note: fmt.Sprintf("%s -> %x.. %v wei", from.Name, to[:4], value)})
}

// TokenTransfer builds a TokenTransaction (token may be Native) to an account without code.
func (g *Gen) TokenTransfer(from *Account, token, to common.Address, value *big.Int) *Item {
	gas := uint64(types.MinGasLimit)
	native := bi(0)
	if token == Native {
		gas = transferGas(value)
		native = value
	}
	over := g.avail(token, from.Addr).Cmp(value) < 0
	if token == Native {
		over = g.avail(Native, from.Addr).Cmp(add(value, priceOf(gas))) < 0
	}
	if !g.canPay(from.Addr, gas, bi(0)) {
		return nil
	}
	n := g.nextNonce(from.Addr)
	tx := types.NewTokenTransaction(token, n, to, value, gas, nil, nil)
	if err := tx.Sign(types.GlobalSTDSigner, from.Key); err != nil {
		panic(err)
	}
	g.pendNonce[from.Addr] = n + 1
	g.reserve(Native, from.Addr, priceOf(gas))
	kind := KToken
	if token == Native {
		kind = KTokenNative
	}
	if over {
		kind = KTokenOver
	} else if token == Native {
		g.reserve(Native, from.Addr, native)
	} else {
		g.reserve(token, from.Addr, value)
	}
	return g.record(&Item{Tx: tx, Kind: kind, From: from.Addr, To: &to, Token: token, Value: cp(value), Gas: gas, BlockOnly: over,
		Note: fmt.Sprintf("%s -> %x.. %v of token %x..", from.Name, to[:4], value, token[:4])})
}

// TokenToContract sends a token into a contract (its code runs with the token as call value).
func (g *Gen) TokenToContract(from *Account, token, contract common.Address, value *big.Int, data []byte) *Item {
	gas := storeGas + intrinsic(data, false)
	if token == Native {
		gas += contractValueGas(value)
	}
	if g.avail(token, from.Addr).Cmp(value) < 0 || !g.canPay(from.Addr, gas, bi(0)) {
		return nil
	}
	if token == Native && !g.canPay(from.Addr, gas, value) {
		return nil
	}
	n := g.nextNonce(from.Addr)
	tx := types.NewTokenTransaction(token, n, contract, value, gas, nil, data)
	if err := tx.Sign(types.GlobalSTDSigner, from.Key); err != nil {
		panic(err)
	}
	g.pendNonce[from.Addr] = n + 1
	g.reserve(Native, from.Addr, priceOf(gas))
	g.reserve(token, from.Addr, value)
	return g.record(&Item{Tx: tx, Kind: KTokenContract, From: from.Addr, To: &contract, Token: token, Value: cp(value), Data: data, Gas: gas,
		Note: fmt.Sprintf("%s -> contract %x.. %v of token %x..", from.Name, contract[:4], value, token[:4])})
}

// Create builds a contract creation of an embedded kind with an endowment.
func (g *Gen) Create(from *Account, kind ContractKind, value *big.Int, decimals byte) *Item {
	g.variant++
	code := ContractCode(kind, byte(g.variant), decimals)
	gas := uint64(1500000) + transferGas(value)
	if !g.canPay(from.Addr, gas, value) {
		return nil
	}
	n := g.nextNonce(from.Addr)
	tx := types.NewContractCreation(n, value, gas, nil, code)
	g.signTx(from, tx)
	g.pendNonce[from.Addr] = n + 1
	g.reserve(Native, from.Addr, add(priceOf(gas), value))
	return g.record(&Item{Tx: tx, Kind: KCreate, From: from.Addr, Token: Native, Value: cp(value), Data: code, Gas: gas,
		Create: kind, Decimals: decimals, NewAddr: crypto.CreateAddress(from.Addr, n, code),
		Note: fmt.Sprintf("%s creates %s (+%v wei)", from.Name, kind, value)})
}

// CreateFailing builds a creation whose constructor fails (mode 0 revert, 1 INVALID, 2 oversized code).
func (g *Gen) CreateFailing(from *Account, mode int, value *big.Int) *Item {
	g.variant++
	code := FailingCreationCode(mode, byte(g.variant))
	gas := uint64(600000) + transferGas(value)
	if !g.canPay(from.Addr, gas, value) {
		return nil
	}
	n := g.nextNonce(from.Addr)
	tx := types.NewContractCreation(n, value, gas, nil, code)
	g.signTx(from, tx)
	g.pendNonce[from.Addr] = n + 1
	g.reserve(Native, from.Addr, add(priceOf(gas), value))
	return g.record(&Item{Tx: tx, Kind: KCreateFail, From: from.Addr, Token: Native, Value: cp(value), Data: code, Gas: gas,
		Create: CRevert, CreateFails: true, NewAddr: crypto.CreateAddress(from.Addr, n, code),
		Note: fmt.Sprintf("%s failing creation mode %d (+%v wei)", from.Name, mode, value)})
}

// Call builds a coin-carrying call of a contract. gas 0 = ample gas.
func (g *Gen) Call(from *Account, kind Kind, contract common.Address, value *big.Int, data []byte, gas uint64, tight bool) *Item {
	if gas == 0 {
		gas = bigGas + contractValueGas(value) + intrinsic(data, false)
	}
	if !g.canPay(from.Addr, gas, value) {
		return nil
	}
	n := g.nextNonce(from.Addr)
	tx := types.NewTransaction(n, contract, value, gas, nil, data)
	g.signTx(from, tx)
	g.pendNonce[from.Addr] = n + 1
	g.reserve(Native, from.Addr, add(priceOf(gas), value))
	return g.record(&Item{Tx: tx, Kind: kind, From: from.Addr, To: &contract, Token: Native, Value: cp(value), Data: data, Gas: gas, GasTight: tight,
		Note: fmt.Sprintf("%s %s %x.. value %v gas %d", from.Name, kind, contract[:4], value, gas)})
}

// MultiSign builds a MultiSignAccountTx installing signers (generator
// accounts, power 10 each, minimum 10*min) for txType, signed by the
// configured validators.
func (g *Gen) MultiSign(txType types.SupportType, signers []*Account, min int) *Item {
	if len(g.Cfg.Validators) == 0 {
		return nil
	}
	info := types.MultiSignMainInfo{AccountNonce: g.msNonce, SupportTxType: txType}
	info.MinSignerPower = int32(10 * min)
	for _, s := range signers {
		info.Signers = append(info.Signers, &types.SignerEntry{Power: 10, Addr: s.Addr})
	}
	tx := types.NewMultiSignAccountTx(&info, nil)
	bz, err := ser.EncodeToBytes(tx.MultiSignMainInfo)
	if err != nil {
		panic(err)
	}
	for _, v := range g.Cfg.Validators {
		sig, err := v.Priv.Sign(bz)
		if err != nil {
			panic(err)
		}
		tx.Signatures = append(tx.Signatures, types.ValidatorSign{Addr: v.PubKey().Address(), Signature: sig.Bytes()})
	}
	g.msNonce++
	return g.record(&Item{Tx: tx, Kind: KMultiSign, From: types.MultiSignNonceAddr, Token: Native, Value: bi(0),
		Note: fmt.Sprintf("multisign type %v: %d signers, min %d", txType, len(signers), min)})
}

// minimal WASM module header: passes the "payload is WASM" test of ContractUpgradeTx
var emptyWasm = []byte{0x00, 0x61, 0x73, 0x6d, 0x01, 0x00, 0x00, 0x00}

// Upgrade builds a ContractUpgradeTx for an inner contract address, signed by
// from and by enough installed signers. Returns nil when no signers are installed.
func (g *Gen) Upgrade(from *Account, target common.Address) *Item {
	si := g.L.Signers[types.TxContractCreateType]
	if si == nil {
		return nil
	}
	n := g.nextNonce(from.Addr)
	main := &types.ContractUpgradeMainInfo{FromAddr: from.Addr, Recipient: target, AccountNonce: n, Payload: emptyWasm}
	tx := types.UpgradeContractTx(main, nil)
	// the sender first, then signers until the minimum power is reached
	if err := tx.Sign(types.GlobalSTDSigner, from.Key); err != nil {
		panic(err)
	}
	power := int32(0)
	for _, s := range si.Signers {
		if s.Addr == from.Addr {
			power += s.Power
		}
	}
	for _, s := range si.Signers {
		if power >= si.MinSignerPower {
			break
		}
		a := g.byAddr[s.Addr]
		if a == nil || a == from {
			continue
		}
		if err := tx.Sign(types.GlobalSTDSigner, a.Key); err != nil {
			panic(err)
		}
		power += s.Power
	}
	if power < si.MinSignerPower {
		return nil
	}
	g.pendNonce[from.Addr] = n + 1
	return g.record(&Item{Tx: tx, Kind: KUpgrade, From: from.Addr, To: &target, Token: Native, Value: bi(0),
		Note: fmt.Sprintf("%s upgrades inner contract %x..", from.Name, target[len(target)-4:])})
}

// ---------------------------------------------------------------- random workload

func (g *Gen) pickAcct() *Account { return g.Accts[g.T.Int(len(g.Accts))] }

func (g *Gen) pickAddr(list []common.Address) (common.Address, bool) {
	if len(list) == 0 {
		return common.Address{}, false
	}
	return list[g.T.Int(len(list))], true
}

// amount draws a transfer amount: mostly "round" values, sometimes 0, 1 wei,
// values straddling a whole coin (the fee schedule is per started coin).
func (g *Gen) amount(max *big.Int) *big.Int {
	switch g.T.Pick(2, 6, 3, 2, 1) {
	case 0:
		return bi(int64(g.T.Int(3))) // 0,1,2 wei
	case 1:
		v := LK(int64(1 + g.T.Int(50)))
		if v.Cmp(max) > 0 {
			return cp(max)
		}
		return v
	case 2:
		// around a whole-coin boundary
		v := LK(int64(1 + g.T.Int(20)))
		v.Add(v, bi(int64(g.T.Int(3))-1))
		if v.Cmp(max) > 0 {
			return cp(max)
		}
		return v
	case 3:
		v := new(big.Int).SetUint64(g.T.Uint64() % 1000000000000000000)
		if v.Cmp(max) > 0 {
			return cp(max)
		}
		return v
	default:
		return cp(max)
	}
}

func (g *Gen) freshAddr() common.Address {
	g.fresh++
	var a common.Address
	copy(a[:], crypto.Keccak256([]byte(fmt.Sprintf("txgen-fresh-%d-%d", g.T.Seed(), g.fresh)))[:20])
	return a
}

func (g *Gen) eoaTarget() common.Address {
	if len(g.L.Graves) > 0 && g.T.Bool(1, 6) {
		// an address that used to be a contract until it self-destructed
		return g.L.Graves[g.T.Int(len(g.L.Graves))]
	}
	switch g.T.Pick(6, 2, 1) {
	case 0:
		return g.pickAcct().Addr
	case 1:
		return g.freshAddr()
	default:
		// an address that exists only as a destination so far
		return g.freshAddrReuse()
	}
}

func (g *Gen) freshAddrReuse() common.Address {
	if g.fresh == 0 {
		return g.freshAddr()
	}
	var a common.Address
	copy(a[:], crypto.Keccak256([]byte(fmt.Sprintf("txgen-fresh-%d-%d", g.T.Seed(), 1+g.T.Int(g.fresh))))[:20])
	return a
}

func (g *Gen) liveNotDying(kinds ...ContractKind) []common.Address {
	var out []common.Address
	for _, a := range g.L.LiveContracts(kinds...) {
		if !g.dyingNow[a] {
			out = append(out, a)
		}
	}
	return out
}

// innerCall draws calldata for a call (made by a forwarder) into target.
func (g *Gen) innerCall(target common.Address, depth int) []byte {
	c := g.L.Contracts[target]
	if c == nil {
		return nil
	}
	switch c.Kind {
	case CStore:
		if g.T.Bool(1, 4) {
			return nil
		}
		return CallStore(bi(int64(g.T.Int(16))), bi(int64(g.T.Int(4))), 1+g.T.Int(3))
	case CRevert:
		return CallRevert(g.T.Bool(1, 3))
	case CIssuer, CIssuerBad:
		return CallIssue(bi(int64(1+g.T.Int(1000))*1e10), g.eoaOrContract())
	case CSuicide:
		if g.T.Bool(1, 3) {
			return nil
		}
		g.dyingNow[target] = true
		return CallSuicide(g.beneficiary(target))
	case CForward:
		if depth >= 2 {
			return nil
		}
		t2 := g.forwardTarget()
		return CallForward(t2, g.T.Bool(1, 2), g.innerCall(t2, depth+1))
	}
	return nil
}

func (g *Gen) eoaOrContract() common.Address {
	if cs := g.L.LiveContracts(); len(cs) > 0 && g.T.Bool(1, 3) {
		return cs[g.T.Int(len(cs))]
	}
	return g.eoaTarget()
}

func (g *Gen) beneficiary(self common.Address) common.Address {
	switch g.T.Pick(3, 3, 1) {
	case 0:
		return common.Address{} // itself
	case 1:
		return g.eoaTarget()
	default:
		return g.eoaOrContract()
	}
}

func (g *Gen) forwardTarget() common.Address {
	if cs := g.L.LiveContracts(); len(cs) > 0 && g.T.Bool(3, 4) {
		return cs[g.T.Int(len(cs))]
	}
	return g.eoaTarget()
}

// Next generates one more transaction of a kind drawn from the configured
// mix, valid on top of the ledger state plus everything still pending. It
// returns nil only if nothing at all can be generated.
func (g *Gen) Next() *Item {
	for try := 0; try < 12; try++ {
		k := g.kinds[g.T.Pick(g.weights...)]
		if it := g.make(k); it != nil {
			return it
		}
		// a call kind whose contract does not exist yet: deploy it, so that the
		// next block can make the call
		switch k {
		case KToken, KTokenOver, KTokenContract:
			// nobody holds an issued token yet: issue some to a generator account
			if cs := g.liveNotDying(CIssuer); len(cs) > 0 {
				f := g.pickAcct()
				if it := g.Call(f, KCallIssue, cs[g.T.Int(len(cs))], bi(0), CallIssue(mulU(bi(1e10), uint64(1+g.T.Int(100000))), f.Addr), 0, false); it != nil {
					return it
				}
			}
		case KUtxo2Utxo, KUtxo2Acc:
			// nothing hidden to spend yet: fund a wallet
			if it := g.make(KAcc2Utxo); it != nil {
				return it
			}
		}
		if ck, ok := needs[k]; ok && len(g.liveNotDying(ck)) == 0 {
			if it := g.Create(g.pickAcct(), ck, g.smallValue(), []byte{8, 10, 18, 18}[g.T.Int(4)]); it != nil {
				return it
			}
		}
	}
	from := g.pickAcct()
	return g.Transfer(from, g.pickAcct().Addr, bi(1))
}

// needs maps call kinds to the contract kind they call.
var needs = map[Kind]ContractKind{KCallStore: CStore, KCallTight: CStore, KTokenContract: CStore, KCallRevert: CRevert, KCallIssue: CIssuer,
	KCallIssueBad: CIssuerBad, KCallSuicide: CSuicide, KCallForward: CForward, KValueContract: CStore, KToken: CIssuer}

// Batch generates n transactions.
func (g *Gen) Batch(n int) []*Item {
	var out []*Item
	for i := 0; i < n; i++ {
		if it := g.Next(); it != nil {
			out = append(out, it)
		}
	}
	return out
}

// Make generates one transaction of the given kind (nil if its preconditions do not hold yet).
func (g *Gen) Make(k Kind) *Item { return g.make(k) }

func (g *Gen) smallValue() *big.Int {
	if g.T.Bool(1, 2) {
		return bi(0)
	}
	return g.amount(LK(20))
}

func (g *Gen) make(k Kind) *Item {
	from := g.pickAcct()
	switch k {
	case KTransfer:
		max := g.avail(Native, from.Addr)
		max.Sub(max, LK(600)) // leave room for gas
		if max.Sign() <= 0 {
			return nil
		}
		if max.Cmp(g.Cfg.MaxValue) > 0 {
			max = cp(g.Cfg.MaxValue)
		}
		return g.Transfer(from, g.eoaTarget(), g.amount(max))
	case KTransferOver:
		if !g.Cfg.BlockOnly {
			return nil
		}
		// above the whole supply: cannot be covered whatever arrives earlier in
		// the block (a transfer that unexpectedly succeeded would leave the
		// sender unable to prepay gas for its later transactions)
		v := add(mulU(g.Cfg.Funds, uint64(len(g.Accts))), LK(int64(1+g.T.Int(5))))
		return g.Transfer(from, g.eoaTarget(), v)
	case KTokenNative:
		max := g.avail(Native, from.Addr)
		max.Sub(max, LK(600))
		if max.Sign() <= 0 {
			return nil
		}
		if max.Cmp(g.Cfg.MaxValue) > 0 {
			max = cp(g.Cfg.MaxValue)
		}
		return g.TokenTransfer(from, Native, g.eoaTarget(), g.amount(max))
	case KToken, KTokenOver, KTokenContract:
		// a generator account holding some issued token
		type hold struct {
			a *Account
			t common.Address
		}
		var hs []hold
		for _, t := range g.L.Tokens() {
			if t == Native || g.L.OpaqueTokens[t] {
				continue
			}
			for _, h := range g.L.HoldersOf(t) {
				if a := g.byAddr[h]; a != nil && g.avail(t, h).Sign() > 0 {
					hs = append(hs, hold{a, t})
				}
			}
		}
		if len(hs) == 0 {
			return nil
		}
		h := hs[g.T.Int(len(hs))]
		av := g.avail(h.t, h.a.Addr)
		switch k {
		case KTokenOver:
			if !g.Cfg.BlockOnly {
				return nil
			}
			// far above any possible balance (issues pending in the same block
			// included): a token transfer that unexpectedly succeeded would starve
			// the sender's later account->hidden transactions, whose token balance
			// is checked at the validity stage
			_ = av
			return g.TokenTransfer(h.a, h.t, g.eoaTarget(), add(new(big.Int).Lsh(bi(1), 128), bi(int64(g.T.Int(100)))))
		case KTokenContract:
			c, ok := g.pickAddr(g.liveNotDying(CStore))
			if !ok {
				return nil
			}
			var data []byte
			if g.T.Bool(1, 2) {
				data = CallStore(bi(int64(g.T.Int(16))), bi(int64(g.T.Int(4))), 1+g.T.Int(2))
			}
			return g.TokenToContract(h.a, h.t, c, g.part(av), data)
		}
		return g.TokenTransfer(h.a, h.t, g.eoaTarget(), g.part(av))
	case KCreate:
		kinds := []ContractKind{CStore, CRevert, CIssuer, CIssuerBad, CSuicide, CForward}
		ck := kinds[g.T.Pick(4, 2, 3, 1, 3, 3)]
		dec := []byte{8, 10, 18, 18}[g.T.Int(4)]
		return g.Create(from, ck, g.smallValue(), dec)
	case KCreateFail:
		return g.CreateFailing(from, g.T.Int(3), g.smallValue())
	case KValueContract:
		c, ok := g.pickAddr(g.liveNotDying(CStore, CIssuer, CSuicide, CForward, CRevert))
		if !ok {
			return nil
		}
		return g.Call(from, k, c, g.amount(LK(20)), nil, 0, false)
	case KCallStore:
		c, ok := g.pickAddr(g.liveNotDying(CStore))
		if !ok {
			return nil
		}
		// few keys and frequent zero values: slots get rewritten and cleared
		return g.Call(from, k, c, g.smallValue(), CallStore(bi(int64(g.T.Int(6))), bi(int64(g.T.Pick(3, 1, 1, 1))), 1+g.T.Int(6)), 0, false)
	case KCallTight:
		c, ok := g.pickAddr(g.liveNotDying(CStore))
		if !ok {
			return nil
		}
		v := g.smallValue()
		data := CallStore(bi(int64(g.T.Int(32))), bi(int64(1+g.T.Int(4))), 1+g.T.Int(3))
		gas := intrinsic(data, false) + contractValueGas(v) + uint64(g.T.Int(70000))
		if g.T.Bool(1, 6) && v.Sign() > 0 {
			// not even the value-transfer gas on top of the intrinsic gas: fails
			// before the VM is entered (the tx-level rule only demands gas >= value fee)
			gas = contractValueGas(v) + uint64(g.T.Int(int(intrinsic(data, false))))
		}
		return g.Call(from, k, c, v, data, gas, true)
	case KCallRevert:
		c, ok := g.pickAddr(g.liveNotDying(CRevert))
		if !ok {
			return nil
		}
		return g.Call(from, k, c, g.smallValue(), CallRevert(g.T.Bool(1, 3)), 0, false)
	case KCallIssue, KCallIssueBad:
		want := CIssuer
		if k == KCallIssueBad {
			want = CIssuerBad
		}
		c, ok := g.pickAddr(g.liveNotDying(want))
		if !ok {
			return nil
		}
		unit := int64(1e10)
		amt := mulU(bi(unit), uint64(1+g.T.Int(100000)))
		if g.T.Bool(1, 8) {
			amt = bi(0)
		}
		to := from.Addr
		if g.T.Bool(1, 2) {
			to = g.eoaOrContract()
		}
		return g.Call(from, k, c, g.smallValue(), CallIssue(amt, to), 0, false)
	case KCallSuicide:
		c, ok := g.pickAddr(g.liveNotDying(CSuicide))
		if !ok {
			return nil
		}
		it := g.Call(from, k, c, g.smallValue(), CallSuicide(g.beneficiary(c)), 0, false)
		if it != nil {
			g.dyingNow[c] = true
		}
		return it
	case KCallDying:
		var ds []common.Address
		for a := range g.dyingNow {
			ds = append(ds, a)
		}
		if len(ds) == 0 {
			return nil
		}
		sort.Slice(ds, func(i, j int) bool { return string(ds[i][:]) < string(ds[j][:]) })
		c := ds[g.T.Int(len(ds))]
		if g.L.Contracts[c] == nil {
			return nil
		}
		return g.Call(from, k, c, g.amount(LK(5)), nil, 0, false)
	case KCallForward:
		c, ok := g.pickAddr(g.liveNotDying(CForward))
		if !ok {
			return nil
		}
		t := g.forwardTarget()
		if t == c && g.T.Bool(1, 2) {
			t = g.eoaTarget()
		}
		return g.Call(from, k, c, g.smallValue(), CallForward(t, g.T.Bool(1, 2), g.innerCall(t, 1)), 0, false)
	case KMultiSign:
		n := 1 + g.T.Int(3)
		if n > len(g.Accts) {
			n = len(g.Accts)
		}
		typ := types.TxContractCreateType
		if g.T.Bool(1, 4) {
			typ = types.TxUpdateValidatorsType
		}
		return g.MultiSign(typ, g.Accts[:n], 1+g.T.Int(n))
	case KUpgrade:
		si := g.L.Signers[types.TxContractCreateType]
		if si == nil || len(si.Signers) == 0 {
			return nil
		}
		f := g.byAddr[si.Signers[g.T.Int(len(si.Signers))].Addr]
		if f == nil {
			return nil
		}
		targets := []common.Address{config.ContractValidatorsAddr, config.ContractFoundationAddr, config.ContractCandidatesAddr}
		return g.Upgrade(f, targets[g.T.Int(len(targets))])
	case KWasmCreate, KWasmCall:
		return g.makeWasm(k, from)
	case KAcc2Utxo, KUtxo2Utxo, KUtxo2Acc:
		return g.makeUtxo(k, from)
	}
	return nil
}

func (g *Gen) part(av *big.Int) *big.Int {
	if av.Sign() <= 0 {
		return bi(0)
	}
	switch g.T.Pick(3, 1, 1) {
	case 0:
		d := bi(int64(2 + g.T.Int(8)))
		return new(big.Int).Div(av, d)
	case 1:
		return cp(av)
	default:
		return bi(0)
	}
}

// ---------------------------------------------------------------- commit

// Txs returns the transactions of items.
func Txs(items []*Item) types.Txs {
	out := make(types.Txs, 0, len(items))
	for _, it := range items {
		out = append(out, it.Tx)
	}
	return out
}

// Committed advances the reference ledger by a committed block: txs are the
// block's transactions (all must have been produced by this generator),
// receipts the chain's receipts for them. Pending bookkeeping is reset:
// generated items that were not in the block are forgotten.
func (g *Gen) Committed(height uint64, txs types.Txs, receipts types.Receipts) ([]*Item, error) {
	items := make([]*Item, 0, len(txs))
	for _, tx := range txs {
		it := g.pending[tx.Hash()]
		if it == nil {
			return nil, fmt.Errorf("txgen: committed tx %x was not generated here (or already committed)", tx.Hash())
		}
		items = append(items, it)
	}
	if err := g.L.ApplyBlock(height, items, receipts); err != nil {
		return nil, err
	}
	g.resetPending()
	return items, nil
}

// ---------------------------------------------------------------- WASM (ready-made test contracts)

type wasmSet struct {
	base, concall []byte
}

var wasmCache *wasmSet
var wasmTried bool

func repoDir() string {
	if d := os.Getenv("VERIF_REPO"); d != "" {
		return d
	}
	return "/repo"
}

// loadWasm reads the hex-encoded WASM token contracts of the repository's
// test data (no compiler needed); nil if they are not there.
func loadWasm() *wasmSet {
	if wasmTried {
		return wasmCache
	}
	wasmTried = true
	dir := filepath.Join(repoDir(), "test", "token", "app_issue_test_contracts")
	rd := func(n string) []byte {
		b, err := os.ReadFile(filepath.Join(dir, n))
		if err != nil {
			return nil
		}
		return common.Hex2Bytes(strings.TrimSpace(string(b)))
	}
	b, c := rd("WBase.bin"), rd("WConCall.bin")
	if len(b) == 0 || len(c) == 0 || !types.IsWasmContract(b) || !types.IsWasmContract(c) {
		return nil
	}
	wasmCache = &wasmSet{base: b, concall: c}
	return wasmCache
}

func (g *Gen) makeWasm(k Kind, from *Account) *Item {
	ws := loadWasm()
	if ws == nil {
		return nil
	}
	switch k {
	case KWasmCreate:
		code := ws.base
		name := "WBase"
		if g.T.Bool(1, 2) {
			code, name = ws.concall, "WConCall"
		}
		gas := uint64(9999999)
		if !g.canPay(from.Addr, gas, bi(0)) {
			return nil
		}
		n := g.nextNonce(from.Addr)
		tx := types.NewContractCreation(n, bi(0), gas, nil, code)
		g.signTx(from, tx)
		g.pendNonce[from.Addr] = n + 1
		g.reserve(Native, from.Addr, priceOf(gas))
		addr := crypto.CreateAddress(from.Addr, n, code)
		return g.record(&Item{Tx: tx, Kind: k, From: from.Addr, Token: Native, Value: bi(0), Data: code, Gas: gas, Opaque: true,
			Create: CWasm, NewAddr: addr, Touches: []common.Address{addr}, Note: from.Name + " creates wasm " + name})
	case KWasmCall:
		cs := g.L.LiveContracts(CWasm)
		if len(cs) < 1 {
			return nil
		}
		c := cs[g.T.Int(len(cs))]
		other := cs[g.T.Int(len(cs))]
		fn := []string{"Call", "DCall", "GetDecimals"}[g.T.Int(3)]
		input := []byte(fn + `|{"0":"` + other.String() + `"}`)
		if fn == "GetDecimals" {
			input = []byte("GetDecimals|{}")
		}
		v := bi(0)
		if g.T.Bool(1, 2) {
			v = bi(1e10)
		}
		gas := uint64(9999999)
		if !g.canPay(from.Addr, gas, v) {
			return nil
		}
		n := g.nextNonce(from.Addr)
		tx := types.NewTransaction(n, c, v, gas, nil, input)
		g.signTx(from, tx)
		g.pendNonce[from.Addr] = n + 1
		g.reserve(Native, from.Addr, add(priceOf(gas), v))
		return g.record(&Item{Tx: tx, Kind: k, From: from.Addr, To: &c, Token: Native, Value: v, Data: input, Gas: gas, Opaque: true,
			Touches: []common.Address{c, other}, Note: fmt.Sprintf("%s wasm %s on %x..", from.Name, fn, c[:4])})
	}
	return nil
}

// ResetPending forgets everything generated since the last committed block
// (for callers that build blocks which are never committed).
func (g *Gen) ResetPending() { g.resetPending() }
