package txgen

import (
	"bytes"
	"fmt"
	"sync"
	"time"

	cs "github.com/lianxiangcloud/linkchain/consensus"
	"github.com/lianxiangcloud/linkchain/libs/common"
	lktypes "github.com/lianxiangcloud/linkchain/libs/cryptonote/types"
	"github.com/lianxiangcloud/linkchain/libs/ser"
	"github.com/lianxiangcloud/linkchain/types"

	"verif/sim/kernel"
	"verif/sim/simdb"
	"verif/sim/simnode"
)

// PoolShim is the types.Mempool handed to the application of a replica. It
// delegates to the replica's real mempool and adds two seams: an explicit
// transaction list for the next CreateBlock, and a hook in front of
// GetTxFromCache (the only shared object the parallel signature pre-check of
// CheckBlock touches).
type PoolShim struct {
	Real types.Mempool

	mu sync.Mutex
	// explicit, when set, is what the next Reap returns (once).
	explicit    types.Txs
	hasExplicit bool
	// BeforeCacheGet, when non-nil, is called (no lock held) by every
	// GetTxFromCache before it is answered; it may block.
	BeforeCacheGet func(hash common.Hash)
	// CacheGets / CacheHits count the calls.
	CacheGets, CacheHits int
}

var _ types.Mempool = (*PoolShim)(nil)

// SetExplicit makes the next Reap return txs instead of the pool content.
func (p *PoolShim) SetExplicit(txs types.Txs) {
	p.mu.Lock()
	p.explicit, p.hasExplicit = txs, true
	p.mu.Unlock()
}

func (p *PoolShim) Reap(maxTxs int) types.Txs {
	p.mu.Lock()
	if p.hasExplicit {
		txs := p.explicit
		p.explicit, p.hasExplicit = nil, false
		p.mu.Unlock()
		return txs
	}
	p.mu.Unlock()
	return p.Real.Reap(maxTxs)
}
func (p *PoolShim) Update(height uint64, txs types.Txs) error { return p.Real.Update(height, txs) }
func (p *PoolShim) GetTxFromCache(h common.Hash) types.Tx {
	if f := p.BeforeCacheGet; f != nil {
		f(h)
	}
	tx := p.Real.GetTxFromCache(h)
	p.mu.Lock()
	p.CacheGets++
	if tx != nil {
		p.CacheHits++
	}
	p.mu.Unlock()
	return tx
}
func (p *PoolShim) Lock()                                { p.Real.Lock() }
func (p *PoolShim) Unlock()                              { p.Real.Unlock() }
func (p *PoolShim) KeyImageExists(k lktypes.Key) bool    { return p.Real.KeyImageExists(k) }
func (p *PoolShim) KeyImagePush(k lktypes.Key) bool      { return p.Real.KeyImagePush(k) }
func (p *PoolShim) KeyImageRemoveKeys(ks []*lktypes.Key) { p.Real.KeyImageRemoveKeys(ks) }
func (p *PoolShim) KeyImageReset()                       { p.Real.KeyImageReset() }

// Replica drives one chain replica (application, stores, mempool over one
// simulated disk) through the steps consensus would perform, without the
// consensus state machine.
type Replica struct {
	Name  string
	Spec  *simnode.GenesisSpec
	Chain *simnode.Chain
	Pool  *PoolShim
	// LastCommit is the seen commit of the last committed block (the next
	// block's LastCommit).
	LastCommit *types.Commit
	// ExtraKeys are further validator keys SignCommit may use (candidates that
	// can be elected into the validator set).
	ExtraKeys []simnode.ValKey
}

// OpenReplica assembles a replica over disk (which must hold the installed
// genesis or a later image) the way node start-up does, points the
// application at the validator set (for MultiSignAccountTx checks) and
// installs the pool shim.
func OpenReplica(name string, spec *simnode.GenesisSpec, disk *simdb.Disk, o simnode.ChainOpts) (*Replica, error) {
	o.IsTrie = spec.IsTrie
	ch, err := simnode.OpenChain(disk, o)
	if err != nil {
		return nil, err
	}
	r := &Replica{Name: name, Spec: spec, Chain: ch}
	r.Pool = &PoolShim{Real: ch.Mempool}
	ch.App.SetMempool(r.Pool)
	ch.App.SetLastChangedVals(ch.Status.LastHeightValidatorsChanged, ch.Status.Validators.Copy().Validators)
	if h := ch.App.Height(); h > types.BlockHeightZero {
		r.LastCommit = ch.App.LoadSeenCommit(h)
	}
	return r, nil
}

// Height is the height of the last committed block.
func (r *Replica) Height() uint64 { return r.Chain.App.Height() }

// BlockSpec says what the next block should contain.
type BlockSpec struct {
	// Txs, when Explicit, is the exact transaction list; otherwise the block is
	// filled from the replica's mempool.
	Txs      types.Txs
	Explicit bool
	Time     uint64
	// Evidence to include besides the mandatory FaultValidatorsEvidence.
	Evidence []types.Evidence
}

// Propose builds a fully valid block on this replica the way
// consensus.createProposalBlock does (CreateBlock, header fields, evidence,
// PreRunBlock) and returns a freshly decoded copy (what peers would receive)
// with its part set. The replica's state is not changed.
func (r *Replica) Propose(bs BlockSpec) (block *types.Block, parts *types.PartSet, err error) {
	st := r.Chain.Status
	H := st.LastBlockHeight + 1
	if r.Chain.App.Height()+1 != H {
		return nil, nil, fmt.Errorf("replica %s: status height %d, app height %d", r.Name, st.LastBlockHeight, r.Chain.App.Height())
	}
	var commit *types.Commit
	if H == types.BlockHeightOne {
		commit = &types.Commit{}
	} else if r.LastCommit != nil {
		commit = r.LastCommit
	} else {
		return nil, nil, fmt.Errorf("replica %s: no commit for height %d", r.Name, H-1)
	}
	r.Chain.RegisterRate()
	if bs.Explicit {
		r.Pool.SetExplicit(bs.Txs)
	}
	var b *types.Block
	site, msg, panicked := kernel.Try(func() {
		b = r.Chain.App.CreateBlock(H, st.ConsensusParams.BlockSize.MaxTxs, st.ConsensusParams.BlockSize.MaxGas, bs.Time)
	})
	if panicked {
		return nil, nil, fmt.Errorf("CreateBlock panicked at %s: %s", site, msg)
	}
	if b == nil {
		return nil, nil, fmt.Errorf("CreateBlock returned nil")
	}
	b.Header.Coinbase = st.Validators.GetProposer().CoinBase
	b.AddEvidence(bs.Evidence)
	if H > types.BlockHeightOne && !st.LastRecover {
		lastRound := commit.FirstPrecommit().Round
		fvi := &types.FaultValidatorsEvidence{BlockHeight: H - 1, Round: lastRound}
		if lastRound == 0 {
			fvi.Proposer = st.LastValidators.GetProposer().PubKey
		} else {
			fvi.FaultVal = st.LastValidators.GetProposer().PubKey
			vs := st.LastValidators.Copy()
			vs.IncrementAccum(lastRound)
			fvi.Proposer = vs.GetProposer().PubKey
		}
		b.AddEvidence([]types.Evidence{fvi})
	}
	b.Recover = 0
	b.ChainID = st.ChainID
	b.LastCommit = commit
	b.LastBlockID = st.LastBlockID
	b.LastCommitHash = b.LastCommit.Hash()
	b.EvidenceHash = b.Evidence.Hash()
	b.ConsensusHash = common.BytesToHash(st.ConsensusParams.Hash())
	b.ValidatorsHash = common.BytesToHash(st.Validators.Hash())
	site, msg, panicked = kernel.Try(func() { r.Chain.App.PreRunBlock(b) })
	if panicked {
		return nil, nil, &ProposePanic{Site: site, Msg: msg}
	}
	block, err = CloneBlock(b)
	if err != nil {
		return nil, nil, err
	}
	parts = block.MakePartSet(st.ConsensusParams.BlockGossip.BlockPartSizeBytes)
	return block, parts, nil
}

// ProposePanic is returned by Propose when PreRunBlock panicked (the
// application refused a transaction of the list at the validity stage).
type ProposePanic struct{ Site, Msg string }

func (p *ProposePanic) Error() string { return "PreRunBlock panicked at " + p.Site + ": " + p.Msg }

// CloneBlock encodes and decodes a block: the copy has no cached hashes or
// recovered senders, like a block received from the network.
func CloneBlock(b *types.Block) (*types.Block, error) {
	bz, err := ser.EncodeToBytes(b)
	if err != nil {
		return nil, err
	}
	var out types.Block
	if err := ser.DecodeBytes(bz, &out); err != nil {
		return nil, err
	}
	return &out, nil
}

// CloneTx encodes and decodes a transaction (fresh caches).
func CloneTx(tx types.Tx) (types.Tx, error) {
	bz, err := ser.EncodeToBytes(&tx)
	if err != nil {
		return nil, err
	}
	var out types.Tx
	if err := ser.DecodeBytes(bz, &out); err != nil {
		return nil, err
	}
	return out, nil
}

// SignCommit makes the commit for block at round 0: one precommit per
// validator of the current set, signed with the keys of the genesis spec
// (validators whose key is not in the spec are left absent).
func (r *Replica) SignCommit(block *types.Block, parts *types.PartSet) (*types.Commit, error) {
	st := r.Chain.Status
	id := types.BlockID{Hash: block.Hash(), PartsHeader: parts.Header()}
	c := &types.Commit{BlockID: id}
	n := st.Validators.Size()
	signed := int64(0)
	ts := time.Unix(int64(block.Header.Time), 0).UTC()
	for i := 0; i < n; i++ {
		addr, val := st.Validators.GetByIndex(i)
		var key *simnode.ValKey
		for k := range r.Spec.Vals {
			if bytes.Equal(r.Spec.Vals[k].Address(), addr) {
				key = &r.Spec.Vals[k]
				break
			}
		}
		for k := range r.ExtraKeys {
			if key == nil && bytes.Equal(r.ExtraKeys[k].Address(), addr) {
				key = &r.ExtraKeys[k]
			}
		}
		if key == nil {
			c.Precommits = append(c.Precommits, nil)
			continue
		}
		v := &types.Vote{ValidatorAddress: addr, ValidatorIndex: i, ValidatorSize: n, Height: block.Height, Round: 0,
			Timestamp: ts, Type: types.VoteTypePrecommit, BlockID: id}
		sig, err := key.Priv.Sign(v.SignBytes(st.ChainID))
		if err != nil {
			return nil, err
		}
		v.Signature = sig
		c.Precommits = append(c.Precommits, v)
		signed += val.VotingPower
	}
	if 3*signed <= 2*st.Validators.TotalVotingPower() {
		return nil, fmt.Errorf("SignCommit: only %d of %d voting power available", signed, st.Validators.TotalVotingPower())
	}
	return c, nil
}

// Check runs the application's CheckBlock (which also prepares the commit).
// A panic of the code under test is returned as an error.
func (r *Replica) Check(block *types.Block) (ok bool, err error) {
	r.Chain.RegisterRate()
	site, msg, panicked := kernel.Try(func() { ok = r.Chain.App.CheckBlock(block) })
	if panicked {
		return false, fmt.Errorf("CheckBlock panicked at %s: %s", site, msg)
	}
	return ok, nil
}

// Commit performs CommitBlock and ApplyBlock (the sequence of
// consensus.finalizeCommit; fastsync selects the blockchain reactor's flavour)
// for a block that passed Check on this replica. It returns the next validator
// list the application reported.
func (r *Replica) Commit(block *types.Block, parts *types.PartSet, seen *types.Commit, fastsync bool) ([]*types.Validator, error) {
	r.Chain.RegisterRate()
	var vals []*types.Validator
	var err error
	site, msg, panicked := kernel.Try(func() { vals, err = r.Chain.App.CommitBlock(block, parts, seen, fastsync) })
	if panicked {
		return nil, fmt.Errorf("CommitBlock panicked at %s: %s", site, msg)
	}
	if err != nil {
		return nil, fmt.Errorf("CommitBlock: %v", err)
	}
	old := r.Chain.Status.LastHeightValidatorsChanged
	var ns cs.NewStatus
	site, msg, panicked = kernel.Try(func() {
		ns, err = r.Chain.BlockExec.ApplyBlock(r.Chain.Status.Copy(), types.BlockID{Hash: block.Hash(), PartsHeader: parts.Header()}, block, vals)
	})
	if panicked {
		return nil, fmt.Errorf("ApplyBlock panicked at %s: %s", site, msg)
	}
	if err != nil {
		return nil, fmt.Errorf("ApplyBlock: %v", err)
	}
	r.Chain.Status = ns
	if ns.LastHeightValidatorsChanged > old {
		r.Chain.App.SetLastChangedVals(ns.LastHeightValidatorsChanged, ns.Validators.Copy().Validators)
	}
	r.LastCommit = seen
	return vals, nil
}

// Receipts returns the stored receipts of a committed height.
func (r *Replica) Receipts(height uint64) types.Receipts {
	rs := r.Chain.BlockStore.GetReceipts(height)
	if rs == nil {
		return nil
	}
	return *rs
}

// Submit offers a transaction to the replica's mempool (as a local client).
func (r *Replica) Submit(tx types.Tx) error {
	r.Chain.RegisterRate()
	var err error
	site, msg, panicked := kernel.Try(func() { err = r.Chain.Mempool.AddTx("", tx) })
	if panicked {
		return fmt.Errorf("AddTx panicked at %s: %s", site, msg)
	}
	return err
}

// Step is the whole cycle on a single replica: propose (explicit list or pool
// content), sign, check, commit. It returns the committed block.
func (r *Replica) Step(bs BlockSpec) (*types.Block, error) {
	block, parts, err := r.Propose(bs)
	if err != nil {
		return nil, err
	}
	seen, err := r.SignCommit(block, parts)
	if err != nil {
		return nil, err
	}
	ok, err := r.Check(block)
	if err != nil {
		return nil, err
	}
	if !ok {
		return nil, fmt.Errorf("replica %s rejected its own block at height %d", r.Name, block.Height)
	}
	if _, err := r.Commit(block, parts, seen, false); err != nil {
		return nil, err
	}
	return block, nil
}
