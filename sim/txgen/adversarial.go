package txgen

// Additions for the C06 rig (rigs/ledgerrig): two more embedded contracts with
// their reference models, a token-carrying contract call with ample gas, a
// confidential spend with a hook between construction and signing, and small
// accessors. Nothing here is used by Batch/Next/make: the random workload of
// the other rigs (kinds, weights, tape consumption) is unchanged.

import (
	"fmt"
	"math/big"

	"github.com/lianxiangcloud/linkchain/libs/common"
	"github.com/lianxiangcloud/linkchain/types"
)

const (
	opDUP4 = 0x83
)

const (
	// CRepeat: calldata target|count|mode|value|inner...: CALLs target `count`
	// times, each time with `value` wei of its own balance (the call value just
	// received included) and the inner calldata. mode 0: REVERT as soon as an
	// inner call fails; 1: ignore inner failures; 2: ignore inner failures and
	// REVERT after the last call (everything the inner calls did is undone);
	// 3: like 2 but INVALID (all gas consumed). Shorter calldata: accepts value.
	CRepeat ContractKind = "repeat"
	// CVault: calldata to|token|amount|mode: TRANSFERTOKEN amount of token (zero
	// address = the coin) from its own holdings to `to`; the opcode reverts the
	// frame if the holdings do not cover it. mode 0: STOP; 1: REVERT after the
	// transfer; other: INVALID after the transfer. Empty calldata: accepts value.
	CVault ContractKind = "vault"
)

func runtimeRepeat() []byte {
	a := newAsm()
	a.push1(0x80).op(opCALLDATASIZE, opLT).ref("end").op(opJUMPI)
	a.push1(0x80).op(opCALLDATASIZE, opSUB)              // [n]
	a.op(opDUP1).push1(0x80).push1(0).op(opCALLDATACOPY) // [n]
	a.push1(0x20).op(opCALLDATALOAD)                     // [n, i]
	a.label("loop")
	a.op(opDUP1, opISZERO).ref("done").op(opJUMPI)
	a.push1(1).op(opSWAP1, opSUB)    // [n, i-1]
	a.push1(0).push1(0)              // retSize retOff
	a.op(opDUP4)                     // inSize = n
	a.push1(0)                       // inOff
	a.push1(0x60).op(opCALLDATALOAD) // value
	a.push1(0).op(opCALLDATALOAD)    // target
	a.op(opGAS, opCALL)              // [n, i, ok]
	a.push1(0x40).op(opCALLDATALOAD) // [n, i, ok, mode]
	a.op(opOR, opISZERO).ref("rev").op(opJUMPI)
	a.ref("loop").op(opJUMP)
	a.label("done")
	a.push1(0x40).op(opCALLDATALOAD).push1(2).op(opEQ).ref("rev").op(opJUMPI)
	a.push1(0x40).op(opCALLDATALOAD).push1(3).op(opEQ).ref("inv").op(opJUMPI)
	a.label("end").op(opSTOP)
	a.label("rev").push1(0).push1(0).op(opREVERT)
	a.label("inv").op(opINVALID)
	return a.bytes()
}

func runtimeVault() []byte {
	a := newAsm()
	a.op(opCALLDATASIZE, opISZERO).ref("end").op(opJUMPI)
	a.push1(0).op(opCALLDATALOAD)    // to
	a.push1(0x20).op(opCALLDATALOAD) // token
	a.push1(0x40).op(opCALLDATALOAD) // amount
	a.op(opTRANSFERTOKEN)
	a.push1(0x60).op(opCALLDATALOAD) // [mode]
	a.op(opDUP1, opISZERO).ref("end").op(opJUMPI)
	a.push1(1).op(opEQ).ref("rev").op(opJUMPI)
	a.op(opINVALID)
	a.label("rev").push1(0).push1(0).op(opREVERT)
	a.label("end").op(opSTOP)
	return a.bytes()
}

// CallRepeat builds calldata for a CRepeat contract.
func CallRepeat(target common.Address, count int, mode int, perCallValue *big.Int, inner []byte) []byte {
	out := append(wordA(target), wordU(uint64(count))...)
	out = append(out, wordU(uint64(mode))...)
	out = append(out, word(perCallValue)...)
	return append(out, inner...)
}

// CallVault builds calldata for a CVault contract.
func CallVault(to, token common.Address, amount *big.Int, mode int) []byte {
	out := append(wordA(to), wordA(token)...)
	out = append(out, word(amount)...)
	return append(out, wordU(uint64(mode))...)
}

// modelRepeat is the reference model of CRepeat.
func (l *Ledger) modelRepeat(self common.Address, data []byte, depth int) bool {
	if len(data) < 128 {
		return true
	}
	if depth >= maxModelDepth {
		return false
	}
	target, count, mode, val := common.BigToAddress(wordAt(data, 0)), wordAt(data, 1), wordAt(data, 2), wordAt(data, 3)
	inner := data[128:]
	n := 0
	if count.IsUint64() && count.Uint64() < 64 {
		n = int(count.Uint64())
	} else {
		return false // never generated: the model does not follow such a loop
	}
	for i := 0; i < n; i++ {
		ok := l.simCall(self, target, Native, val, inner, false, depth+1)
		if !ok && mode.Sign() == 0 {
			return false
		}
	}
	if mode.Cmp(bi(2)) == 0 || mode.Cmp(bi(3)) == 0 {
		return false
	}
	return true
}

// modelVault is the reference model of CVault.
func (l *Ledger) modelVault(self common.Address, data []byte) bool {
	if len(data) == 0 {
		return true
	}
	to, token, amount, mode := common.BigToAddress(wordAt(data, 0)), common.BigToAddress(wordAt(data, 1)), wordAt(data, 2), wordAt(data, 3)
	if amount.Sign() > 0 {
		if !l.debit(token, self, amount) {
			return false
		}
		l.credit(token, to, amount)
	}
	return mode.Sign() == 0
}

// ---------------------------------------------------------------- builders / accessors

// NextNonce is the nonce the next generated transaction of a would carry.
func (g *Gen) NextNonce(a common.Address) uint64 { return g.nextNonce(a) }

// Avail is what a can still spend of token on top of everything pending.
func (g *Gen) Avail(token, a common.Address) *big.Int { return g.avail(token, a) }

// UnitOf is the commitment unit of a token as the generator knows it (nil if unknown).
func (g *Gen) UnitOf(token common.Address) *big.Int { return g.rateOf(token) }

// Account returns the generator account with the given address (nil if none).
func (g *Gen) Account(a common.Address) *Account { return g.byAddr[a] }

// AmpleGas is the gas limit the generator gives contract calls that must not run out of gas.
const AmpleGas = bigGas

// TokenCall builds a TokenTransaction into a contract with an explicit gas
// limit (0 = ample), unlike TokenToContract whose limit only covers CStore.
func (g *Gen) TokenCall(from *Account, kind Kind, token, contract common.Address, value *big.Int, data []byte, gas uint64, tight bool) *Item {
	if gas == 0 {
		gas = bigGas + intrinsic(data, false)
		if token == Native {
			gas += contractValueGas(value)
		}
	}
	if g.avail(token, from.Addr).Cmp(value) < 0 || !g.canPay(from.Addr, gas, bi(0)) {
		return nil
	}
	if token == Native && !g.canPay(from.Addr, gas, value) {
		return nil
	}
	n := g.nextNonce(from.Addr)
	tx := types.NewTokenTransaction(token, n, contract, value, gas, nil, data)
	if err := tx.Sign(types.GlobalSTDSigner, from.Key); err != nil {
		panic(err)
	}
	g.pendNonce[from.Addr] = n + 1
	g.reserve(Native, from.Addr, priceOf(gas))
	g.reserve(token, from.Addr, value)
	return g.record(&Item{Tx: tx, Kind: kind, From: from.Addr, To: &contract, Token: token, Value: cp(value), Data: data, Gas: gas, GasTight: tight,
		Note: fmt.Sprintf("%s %s %x.. %v of %s gas %d", from.Name, kind, contract[:4], value, tokShort(token), gas)})
}

// UtxoSpendPre is UtxoSpend with a hook that runs after the transaction has
// been constructed (inputs, outputs, account-output commitments, fee) and
// before anything is signed or proven: account signature, range proof,
// pseudo-outs and ring signatures are then made over whatever the hook left
// behind, so every signature and proof of the result verifies. dests are the
// destination entries the range proof and output commitments will be made
// from. For adversarial transactions only: the returned item's bookkeeping
// describes the untouched transaction.
func (g *Gen) UtxoSpendPre(o SpendOpts, pre func(tx *types.UTXOTransaction, dests []types.DestEntry)) *Item {
	return g.utxoSpend(o, spendHooks{pre: pre})
}

// noteTokensAtCreation records (without changing any balance) issued tokens
// that sit at an address at the moment a contract is successfully created
// there: they must still be there afterwards. StateDB.CreateAccount once
// carried only the coin balance over to the new account object (C06 finding
// destroyed/tokens-at-address-when-contract-created-there, fixed); the C06 rig
// uses the record to name a token deficit of such a block precisely.
func (l *Ledger) noteTokensAtCreation(addr common.Address) {
	for _, t := range l.Tokens() {
		if t == Native {
			continue
		}
		if v := l.Balance(t, addr); v.Sign() > 0 {
			if l.TokensAtCreation == nil {
				l.TokensAtCreation = map[common.Address]*big.Int{}
			}
			bump(l.TokensAtCreation, t, v)
		}
	}
}

// HiddenDelta is, for a confidential item, the value of the hidden outputs it
// creates minus the true value of the hidden outputs it spends, as the
// builder recorded them (nil for other items).
func (it *Item) HiddenDelta() *big.Int {
	if it == nil || it.utxo == nil {
		return nil
	}
	d := new(big.Int)
	for _, h := range it.utxo.outs {
		d.Add(d, h.Amount)
	}
	for _, h := range it.utxo.spends {
		d.Sub(d, h.Amount)
	}
	return d
}
