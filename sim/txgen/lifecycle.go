package txgen

// Contract storage life cycles (additions for the C05 rig rigs/execrig and the
// C13 rig rigs/crashrig): two more embedded contracts, their value model
// (hooked into Ledger.runModel by one case line), an independent storage model
// and a generator of multi-block life cycles
//
//	create (constructor writes slots) -> overwrite -> clear -> read / re-set
//	-> SELFDESTRUCT (holding storage, coin, tokens) -> re-creation at the same
//	address through CREATE2 -> reads of everything the previous incarnation held
//
// Nothing here is used by Batch/Next/make: the random workload of the other
// rigs (kinds, weights, tape consumption) is unchanged. A rig opts in with
// NewLife(g, tape) and calls LifeGen.Batch / LifeGen.Committed.

import (
	"bytes"
	"fmt"
	"math/big"
	"sort"

	"github.com/lianxiangcloud/linkchain/libs/common"
	"github.com/lianxiangcloud/linkchain/libs/crypto"
	"github.com/lianxiangcloud/linkchain/types"

	"verif/sim/kernel"
)

// further opcodes (prefixed: other additions to this package define their own)
const (
	lopSLOAD   = 0x54
	lopCREATE2 = 0xf5
)

const (
	// CLife: calldata is a list of 3-word operations (op, a, b) executed in
	// order: 1 SSTORE(a, b); 2 LOG1(topic a, data SLOAD(a)); 3 SELFDESTRUCT(a)
	// (a = 0: to itself); 4 SSTORE(b, SLOAD(a)); 5 SSTORE(a, SLOAD(a)+b);
	// 6 REVERT. Unknown op: skipped. Empty calldata: accepts value. Its
	// constructor writes a few slots.
	CLife ContractKind = "life"
	// CFactory: calldata salt: CREATE2 (no endowment) of the fixed child (a
	// CLife whose constructor writes LifeChildSlots) with that salt; REVERTs
	// when the creation fails (address occupied). Empty calldata: accepts value.
	CFactory ContractKind = "life-factory"
)

// Kinds of the life-cycle items (labels; never drawn by Gen.Next).
const (
	KLifeCreate    Kind = "life-create"
	KFactoryCreate Kind = "life-factory-create"
	KLifeSpawn     Kind = "life-spawn" // factory CREATE2 of a child
	KLifeCall      Kind = "life-call"  // storage operations
	KLifeKill      Kind = "life-kill"  // operations ending in SELFDESTRUCT
	KLifeToken     Kind = "life-token" // issued token + storage operations
	KLifeFund      Kind = "life-fund"  // coin, empty calldata
)

// LifeKinds lists them.
var LifeKinds = []Kind{KLifeCreate, KFactoryCreate, KLifeSpawn, KLifeCall, KLifeKill, KLifeToken, KLifeFund}

// Operations of a CLife contract.
const (
	LifeSet    = 1
	LifeGet    = 2
	LifeKill   = 3
	LifeCopy   = 4
	LifeInc    = 5
	LifeRevert = 6
)

// LifeOp is one operation of a CLife call.
type LifeOp struct {
	Op   int
	A, B *big.Int
}

func (o LifeOp) String() string {
	n := map[int]string{LifeSet: "set", LifeGet: "get", LifeKill: "kill", LifeCopy: "copy", LifeInc: "inc", LifeRevert: "revert"}[o.Op]
	short := func(v *big.Int) string {
		if v == nil {
			return "0"
		}
		s := v.Text(16)
		if len(s) > 8 {
			s = s[:6] + ".."
		}
		return s
	}
	switch o.Op {
	case LifeGet, LifeKill:
		return n + "(" + short(o.A) + ")"
	case LifeRevert:
		return n
	}
	return n + "(" + short(o.A) + "," + short(o.B) + ")"
}

// CallLife builds calldata for a CLife contract.
func CallLife(ops ...LifeOp) []byte {
	var out []byte
	z := new(big.Int)
	for _, o := range ops {
		a, b := o.A, o.B
		if a == nil {
			a = z
		}
		if b == nil {
			b = z
		}
		out = append(out, wordU(uint64(o.Op))...)
		out = append(out, word(a)...)
		out = append(out, word(b)...)
	}
	return out
}

// ParseLife is the inverse of CallLife (a trailing partial triple is read
// zero-padded, as CALLDATALOAD does).
func ParseLife(data []byte) []LifeOp {
	var ops []LifeOp
	for i := 0; 96*i < len(data); i++ {
		ops = append(ops, LifeOp{Op: int(wordAt(data, 3*i).Uint64() & 0xffff), A: wordAt(data, 3*i+1), B: wordAt(data, 3*i+2)})
		if wordAt(data, 3*i).BitLen() > 16 {
			ops[len(ops)-1].Op = -1
		}
	}
	return ops
}

// CallFactory builds calldata for a CFactory contract.
func CallFactory(salt uint64) []byte { return wordU(salt) }

func runtimeLife() []byte {
	a := newAsm()
	a.push1(0) // [pc]
	a.label("loop")
	a.op(opCALLDATASIZE, opDUP2, opLT, opISZERO).ref("end").op(opJUMPI) // pc < size ?
	a.op(opDUP1, opCALLDATALOAD)                                        // [pc, op]
	for i, l := range []string{"set", "get", "kill", "copy", "inc", "rev"} {
		a.op(opDUP1).push1(byte(i+1)).op(opEQ).ref(l).op(opJUMPI)
	}
	a.op(opPOP).ref("next").op(opJUMP)

	argA := func() { a.op(opDUP1).push1(0x20).op(opADD, opCALLDATALOAD) } // [pc] -> [pc, a]
	a.label("set").op(opPOP)
	a.op(opDUP1).push1(0x40).op(opADD, opCALLDATALOAD) // [pc, b]
	a.op(opDUP2).push1(0x20).op(opADD, opCALLDATALOAD) // [pc, b, a]
	a.op(opSSTORE).ref("next").op(opJUMP)

	a.label("get").op(opPOP)
	argA()                                 // [pc, a]
	a.op(opDUP1, lopSLOAD)                 // [pc, a, v]
	a.push1(0).op(opMSTORE)                // [pc, a]
	a.push1(0x20).push1(0).op(opLOG1)      // [pc]
	a.ref("next").op(opJUMP)

	a.label("kill").op(opPOP)
	argA() // [pc, a]
	a.op(opDUP1, opISZERO).ref("self").op(opJUMPI)
	a.op(opSELFDESTRUCT)
	a.label("self").op(opPOP, opADDRESS, opSELFDESTRUCT)

	a.label("copy").op(opPOP)
	argA()
	a.op(lopSLOAD)                                     // [pc, v]
	a.op(opDUP2).push1(0x40).op(opADD, opCALLDATALOAD) // [pc, v, b]
	a.op(opSSTORE).ref("next").op(opJUMP)

	a.label("inc").op(opPOP)
	argA()                                             // [pc, a]
	a.op(opDUP1, lopSLOAD)                             // [pc, a, v]
	a.op(opDUP3).push1(0x40).op(opADD, opCALLDATALOAD) // [pc, a, v, b]
	a.op(opADD, opSWAP1, opSSTORE)                     // [pc]
	a.ref("next").op(opJUMP)

	a.label("rev").push1(0).push1(0).op(opREVERT)

	a.label("next").push1(0x60).op(opADD).ref("loop").op(opJUMP)
	a.label("end").op(opSTOP)
	return a.bytes()
}

// lifeCtor is a constructor prefix writing slots[i] := vals[i].
func lifeCtor(variant byte, slots, vals []byte) []byte {
	c := []byte{opPUSH1, variant, opPOP}
	for i := range slots {
		c = append(c, opPUSH1, vals[i], opPUSH1, slots[i], opSSTORE)
	}
	return c
}

// lifeInitOf reads the slots a lifeCtor prefix writes back from creation code.
func lifeInitOf(code []byte) map[byte]byte {
	init := map[byte]byte{}
	for i := 3; i+4 < len(code) && code[i] == opPUSH1 && code[i+2] == opPUSH1 && code[i+4] == opSSTORE; i += 5 {
		init[code[i+3]] = code[i+1]
	}
	return init
}

// LifeCode returns the creation code of a CLife contract whose constructor
// writes slots[i] := vals[i] (one byte each, vals non-zero).
func LifeCode(variant byte, slots, vals []byte) []byte {
	return deployer(lifeCtor(variant, slots, vals), runtimeLife())
}

// LifeChildSlots is what the constructor of a factory child writes.
var LifeChildSlots = map[byte]byte{0: 0x11, 1: 0x22}

// LifeChildInit is the (fixed) creation code of a factory child.
func LifeChildInit() []byte { return LifeCode(0xc2, []byte{0, 1}, []byte{0x11, 0x22}) }

// LifeChildAddr is the CREATE2 address of the child of factory for salt.
func LifeChildAddr(factory common.Address, salt uint64) common.Address {
	var s [32]byte
	copy(s[:], wordU(salt))
	return crypto.CreateAddress2(factory, s, crypto.Keccak256(LifeChildInit()))
}

func runtimeFactory() []byte {
	init := LifeChildInit()
	a := newAsm()
	a.op(opCALLDATASIZE, opISZERO).ref("end").op(opJUMPI)
	a.op(opPUSH2, byte(len(init)>>8), byte(len(init))) // length
	a.op(opPUSH2, 0, 0)                                // code offset of the init code (patched below)
	at := len(a.code) - 2
	a.push1(0).op(opCODECOPY)
	a.push1(0).op(opCALLDATALOAD)                      // salt
	a.op(opPUSH2, byte(len(init)>>8), byte(len(init))) // size
	a.push1(0)                                         // offset
	a.push1(0)                                         // endowment
	a.op(lopCREATE2)
	a.op(opISZERO).ref("fail").op(opJUMPI)
	a.label("end").op(opSTOP)
	a.label("fail").push1(0).push1(0).op(opREVERT)
	code := a.bytes()
	code[at], code[at+1] = byte(len(code)>>8), byte(len(code))
	return append(code, init...)
}

// FactoryCode returns the creation code of a CFactory contract.
func FactoryCode(variant byte) []byte {
	return deployer([]byte{opPUSH1, variant, opPOP}, runtimeFactory())
}

// ---------------------------------------------------------------- value model (Ledger.runModel case CLife, CFactory)

func (l *Ledger) runLife(c *ContractInfo, self common.Address, data []byte) bool {
	if len(data) == 0 {
		return true
	}
	if c.Kind == CFactory {
		salt := wordAt(data, 0)
		if !salt.IsUint64() {
			return true // address not tracked; the generator never does this
		}
		// CREATE2 fails (the factory reverts) iff the address holds an account
		// with code or a nonce: a child that is alive (or dying in this block)
		return l.Contracts[LifeChildAddr(self, salt.Uint64())] == nil
	}
	for _, o := range ParseLife(data) {
		switch o.Op {
		case LifeRevert:
			return false
		case LifeKill:
			to := common.BigToAddress(o.A)
			if to == (common.Address{}) {
				to = self
			}
			for _, t := range l.Tokens() {
				v := l.Balance(t, self)
				if v.Sign() == 0 {
					continue
				}
				l.set(t, self, new(big.Int))
				if to == self {
					bump(l.Destroyed, t, v)
				} else {
					l.credit(t, to, v)
				}
			}
			l.known[to] = true
			c.Dying = true
			return true
		}
	}
	return true
}

// ---------------------------------------------------------------- storage model

// LifeContract is what the storage model knows about one CLife address.
type LifeContract struct {
	Addr    common.Address
	Alive   bool                // holds code (from the block after its creation until the end of the block of its SELFDESTRUCT)
	Dying   bool                // executed SELFDESTRUCT in the block being applied
	Slots   map[string]*big.Int // non-zero storage (key: 32-byte slot)
	Touched map[string]bool     // every slot any incarnation ever wrote or read
	Births  int                 // creations at this address
	Factory common.Address      // zero for top-level creations
	Salt    uint64
}

// LifeModel is the reference model of the storage of CLife contracts: plain
// maps advanced from transaction contents and receipt statuses only.
type LifeModel struct {
	C         map[common.Address]*LifeContract
	Factories map[common.Address]bool
	// StatusMismatch counts receipts whose status the model did not expect.
	StatusMismatch int
	Deletes        int // slots cleared (non-zero -> zero) in committed blocks
	Kills          int // contracts removed holding storage
	Rebirths       int // creations at an address that had held a contract before
	ZeroReads      int // committed reads / re-writes of a slot cleared in an EARLIER block
	BlockDeletes   int // the same for the last applied block only
	lastCleared    map[string]uint64 // addr+slot -> height of the block that cleared it
	height         uint64
}

func newLifeModel() *LifeModel {
	return &LifeModel{C: map[common.Address]*LifeContract{}, Factories: map[common.Address]bool{}, lastCleared: map[string]uint64{}}
}

func slotKey(v *big.Int) string { return string(word(v)) }

// SlotHash converts a model slot key to the hash the state API takes.
func SlotHash(k string) common.Hash { return common.BytesToHash([]byte(k)) }

// Addrs returns every address the model knows (alive or not), sorted.
func (m *LifeModel) Addrs() []common.Address {
	out := make([]common.Address, 0, len(m.C))
	for a := range m.C {
		out = append(out, a)
	}
	sort.Slice(out, func(i, j int) bool { return bytes.Compare(out[i][:], out[j][:]) < 0 })
	return out
}

// TouchedSlots returns the slot keys of c ever used, sorted.
func (c *LifeContract) TouchedSlots() []string {
	out := make([]string, 0, len(c.Touched))
	for k := range c.Touched {
		out = append(out, k)
	}
	sort.Strings(out)
	return out
}

// Value returns the modelled value of a slot (zero if absent).
func (c *LifeContract) Value(k string) *big.Int {
	if v := c.Slots[k]; v != nil {
		return cp(v)
	}
	return new(big.Int)
}

// LifeSnapshot is an immutable copy of the model's observable part.
type LifeSnapshot struct {
	Addrs []common.Address
	Alive map[common.Address]bool
	// Births counts the creations at the address so far (> 1: re-created).
	Births map[common.Address]int
	Slots  map[common.Address]map[string]string // every touched slot -> value (hex, "0" for empty)
}

// Snapshot copies the observable part (for per-height references).
func (m *LifeModel) Snapshot() *LifeSnapshot {
	s := &LifeSnapshot{Addrs: m.Addrs(), Alive: map[common.Address]bool{}, Births: map[common.Address]int{}, Slots: map[common.Address]map[string]string{}}
	for _, a := range s.Addrs {
		c := m.C[a]
		s.Alive[a] = c.Alive
		s.Births[a] = c.Births
		sl := map[string]string{}
		for _, k := range c.TouchedSlots() {
			sl[k] = c.Value(k).Text(16)
		}
		s.Slots[a] = sl
	}
	return s
}

func (m *LifeModel) born(addr, factory common.Address, salt uint64, init map[byte]byte) {
	c := m.C[addr]
	if c == nil {
		c = &LifeContract{Addr: addr, Touched: map[string]bool{}}
		m.C[addr] = c
	}
	if c.Births > 0 {
		m.Rebirths++
	}
	c.Births++
	c.Alive, c.Dying = true, false
	c.Factory, c.Salt = factory, salt
	c.Slots = map[string]*big.Int{}
	for s, v := range init {
		k := slotKey(bi(int64(s)))
		c.Slots[k] = bi(int64(v))
		c.Touched[k] = true
	}
}

func (m *LifeModel) store(c *LifeContract, k string, v *big.Int) {
	c.Touched[k] = true
	id := string(c.Addr[:]) + k
	old := c.Slots[k]
	if h, ok := m.lastCleared[id]; ok && h < m.height {
		m.ZeroReads++
		delete(m.lastCleared, id)
	}
	v = new(big.Int).And(v, maxWord)
	if v.Sign() == 0 {
		if old != nil {
			delete(c.Slots, k)
			m.Deletes++
			m.BlockDeletes++
			m.lastCleared[id] = m.height
		}
		return
	}
	c.Slots[k] = v
	delete(m.lastCleared, id)
}

func (m *LifeModel) load(c *LifeContract, k string) *big.Int {
	c.Touched[k] = true
	if h, ok := m.lastCleared[string(c.Addr[:])+k]; ok && h < m.height {
		m.ZeroReads++
	}
	return c.Value(k)
}

var maxWord = new(big.Int).Sub(new(big.Int).Lsh(big.NewInt(1), 256), big.NewInt(1))

// exec applies the operations of one successful call; false = the model
// expects the call to revert (nothing applied).
func (m *LifeModel) exec(c *LifeContract, ops []LifeOp) bool {
	for _, o := range ops {
		if o.Op == LifeRevert {
			return false
		}
		if o.Op == LifeKill {
			break
		}
	}
	for _, o := range ops {
		switch o.Op {
		case LifeSet:
			m.store(c, slotKey(o.A), o.B)
		case LifeGet:
			m.load(c, slotKey(o.A))
		case LifeCopy:
			m.store(c, slotKey(o.B), m.load(c, slotKey(o.A)))
		case LifeInc:
			m.store(c, slotKey(o.A), add(m.load(c, slotKey(o.A)), o.B))
		case LifeKill:
			c.Dying = true
			return true
		}
	}
	return true
}

// ApplyBlock advances the model by one committed block (items in block order).
func (m *LifeModel) ApplyBlock(height uint64, items []*Item, receipts types.Receipts) {
	m.height = height
	m.BlockDeletes = 0
	for i, it := range items {
		ok := receipts[i].Status == types.ReceiptStatusSuccessful
		switch it.Kind {
		case KLifeCreate:
			if ok {
				m.born(it.NewAddr, common.Address{}, 0, lifeInitOf(it.Data))
			} else {
				m.StatusMismatch++
			}
		case KFactoryCreate:
			if ok {
				m.Factories[it.NewAddr] = true
			} else {
				m.StatusMismatch++
			}
		case KLifeSpawn:
			salt := wordAt(it.Data, 0).Uint64()
			child := LifeChildAddr(*it.To, salt)
			c := m.C[child]
			expect := m.Factories[*it.To] && (c == nil || !c.Alive)
			if ok != expect {
				m.StatusMismatch++
			}
			if ok {
				m.born(child, *it.To, salt, LifeChildSlots)
			}
		case KLifeCall, KLifeKill, KLifeToken:
			c := m.C[*it.To]
			if c == nil || !c.Alive {
				if !ok {
					m.StatusMismatch++
				}
				continue // no code there: a plain transfer
			}
			ops := ParseLife(it.Data)
			expect := true
			for _, o := range ops {
				if o.Op == LifeRevert {
					expect = false
				}
				if o.Op == LifeKill || o.Op == LifeRevert {
					break
				}
			}
			if ok != expect {
				m.StatusMismatch++
			}
			if ok {
				m.exec(c, ops)
			}
		}
	}
	for _, a := range m.Addrs() {
		c := m.C[a]
		if c.Dying {
			if len(c.Slots) > 0 {
				m.Kills++
			}
			for k := range c.Slots {
				m.lastCleared[string(c.Addr[:])+k] = height
			}
			c.Alive, c.Dying = false, false
			c.Slots = map[string]*big.Int{}
		}
	}
}

// ---------------------------------------------------------------- reading a state back

// LifeStateReader is the part of the public state API (state.StateDB) the
// life-cycle oracles read.
type LifeStateReader interface {
	GetCodeSize(common.Address) int
	GetNonce(common.Address) uint64
	GetBalance(common.Address) *big.Int
	GetTokenBalances(common.Address) types.TokenValues
	GetState(common.Address, common.Hash) []byte
}

// LifeView is what one state says about the life-cycle contracts: for every
// address of the snapshot (alive or not) code presence, nonce, coin balance,
// token balances and every slot any incarnation touched.
//
// Slots of addresses whose contract self-destructed (the address may exist
// again as a plain account after a transfer to it) and of contracts created
// again at such an address are kept apart ("after destruction").
type LifeView struct {
	Text       []byte   // canonical rendering of everything but the slots after destruction, one ';'-terminated record per address
	After      []byte   // the slots after destruction
	Diffs      []string // disagreements with the snapshot (model)
	AfterDiffs []string // disagreements with the snapshot in slots after destruction
}

// ReadLife reads the addresses and slots of snap from st.
func ReadLife(st LifeStateReader, snap *LifeSnapshot) *LifeView {
	v := &LifeView{}
	var b, ab bytes.Buffer
	short := func(k string) []byte {
		t := bytes.TrimLeft([]byte(k), "\x00")
		if len(t) == 0 {
			return []byte{0}
		}
		if len(t) > 6 {
			t = t[:6]
		}
		return t
	}
	for _, a := range snap.Addrs {
		code := st.GetCodeSize(a)
		fmt.Fprintf(&b, "%x code=%d nonce=%d bal=%v tokens=[", a[:], code, st.GetNonce(a), st.GetBalance(a))
		tvs := st.GetTokenBalances(a)
		sort.Sort(tvs)
		for _, tv := range tvs {
			fmt.Fprintf(&b, "%x:%v,", tv.TokenAddr[:], tv.Value)
		}
		b.WriteString("]")
		if (code > 0) != snap.Alive[a] {
			v.Diffs = append(v.Diffs, fmt.Sprintf("code-presence: contract %x has %d bytes of code, model says alive=%v", a[:6], code, snap.Alive[a]))
		}
		after := !snap.Alive[a] || snap.Births[a] > 1
		keys := make([]string, 0, len(snap.Slots[a]))
		for k := range snap.Slots[a] {
			keys = append(keys, k)
		}
		sort.Strings(keys)
		for _, k := range keys {
			got := new(big.Int).SetBytes(st.GetState(a, SlotHash(k)))
			want := snap.Slots[a][k]
			d := ""
			if got.Text(16) != want {
				d = fmt.Sprintf("slot-value: contract %x (alive=%v, creations at this address %d) slot %x reads %s, model %s", a[:6], snap.Alive[a], snap.Births[a], short(k), got.Text(16), want)
			}
			if after {
				fmt.Fprintf(&ab, "%x %x=%s;", a[:], short(k), got.Text(16))
				if d != "" {
					v.AfterDiffs = append(v.AfterDiffs, d)
				}
				continue
			}
			fmt.Fprintf(&b, " %x=%s", short(k), got.Text(16))
			if d != "" {
				v.Diffs = append(v.Diffs, d)
			}
		}
		b.WriteString(";")
	}
	v.Text, v.After = b.Bytes(), ab.Bytes()
	return v
}

// FirstLifeDiff names the first record in which two renderings differ.
func FirstLifeDiff(a, b []byte) string {
	as, bs := bytes.Split(a, []byte(";")), bytes.Split(b, []byte(";"))
	for i := range as {
		if i >= len(bs) || !bytes.Equal(as[i], bs[i]) {
			o := []byte("<nothing>")
			if i < len(bs) {
				o = bs[i]
			}
			return fmt.Sprintf("%s  VERSUS  %s", as[i], o)
		}
	}
	return "lengths differ"
}

// ---------------------------------------------------------------- generator

// LifeGen generates life-cycle transactions through a Gen (shared nonces,
// spending reservations, pending set and ledger) from its own tape stream.
type LifeGen struct {
	G *Gen
	M *LifeModel
	T *kernel.Tape

	// Rebirth permits CREATE2 at an address whose earlier child self-destructed
	// (re-creation at the same address). Off by default.
	Rebirth bool
	// NoTokens switches the issued-token steps off (no issuer is deployed, no
	// token is issued or sent by this generator).
	NoTokens bool

	variant  int
	busy     map[common.Address]bool // contracts with a pending kill or spawn in this batch
	bigSlots []*big.Int
}

// NewLife attaches a life-cycle generator to g; t is its own tape stream.
func NewLife(g *Gen, t *kernel.Tape) *LifeGen {
	lg := &LifeGen{G: g, M: newLifeModel(), T: t, busy: map[common.Address]bool{}}
	for i := 0; i < 2; i++ {
		lg.bigSlots = append(lg.bigSlots, new(big.Int).SetBytes(crypto.Keccak256([]byte(fmt.Sprintf("txgen-life-slot-%d", i)))))
	}
	return lg
}

// Committed is Gen.Committed followed by the storage model and the ledger's
// registration of CREATE2 children. Use it INSTEAD of Gen.Committed.
func (lg *LifeGen) Committed(height uint64, txs types.Txs, receipts types.Receipts) ([]*Item, error) {
	items, err := lg.G.Committed(height, txs, receipts)
	if err != nil {
		return nil, err
	}
	lg.M.ApplyBlock(height, items, receipts)
	L := lg.G.L
	child := map[common.Address]bool{}
	for a, c := range lg.M.C {
		if c.Factory == (common.Address{}) {
			continue
		}
		child[a] = true
		if c.Alive && L.Contracts[a] == nil {
			L.Contracts[a] = &ContractInfo{Kind: CLife, Creator: c.Factory}
			L.nonce[a] = 1
			L.known[a] = true
		}
	}
	// CREATE2 addresses can hold code again: never offer them as "plain account
	// that used to be a contract" (the gas rule of a transfer depends on code)
	if len(child) > 0 {
		kept := L.Graves[:0:0]
		for _, a := range L.Graves {
			if !child[a] {
				kept = append(kept, a)
			}
		}
		L.Graves = kept
	}
	for a := range L.Contracts {
		if L.Contracts[a].Kind == CFactory {
			lg.M.Factories[a] = true
		}
	}
	lg.busy = map[common.Address]bool{}
	return items, nil
}

// Reset forgets the per-batch bookkeeping (call with Gen.Reset).
func (lg *LifeGen) Reset() { lg.busy = map[common.Address]bool{} }

// live returns the CLife contracts that hold code in the committed state and
// have no pending kill in this batch.
func (lg *LifeGen) live() []*LifeContract {
	var out []*LifeContract
	for _, a := range lg.M.Addrs() {
		c := lg.M.C[a]
		if c.Alive && !lg.busy[a] && lg.G.L.Contracts[a] != nil && !lg.G.dyingNow[a] {
			out = append(out, c)
		}
	}
	return out
}

func (lg *LifeGen) factories() []common.Address {
	var out []common.Address
	for _, a := range lg.G.L.LiveContracts(CFactory) {
		if !lg.G.dyingNow[a] {
			out = append(out, a)
		}
	}
	return out
}

func (lg *LifeGen) create(from *Account, kind Kind, ck ContractKind, code []byte, value *big.Int, note string) *Item {
	g := lg.G
	gas := uint64(3000000) + transferGas(value)
	if !g.canPay(from.Addr, gas, value) {
		return nil
	}
	n := g.nextNonce(from.Addr)
	tx := types.NewContractCreation(n, value, gas, nil, code)
	g.signTx(from, tx)
	g.pendNonce[from.Addr] = n + 1
	g.reserve(Native, from.Addr, add(priceOf(gas), value))
	return g.record(&Item{Tx: tx, Kind: kind, From: from.Addr, Token: Native, Value: cp(value), Data: code, Gas: gas,
		Create: ck, NewAddr: crypto.CreateAddress(from.Addr, n, code),
		Note: fmt.Sprintf("%s creates %s (+%v wei)", from.Name, note, value)})
}

// CreateLife deploys a CLife contract whose constructor writes n slots.
func (lg *LifeGen) CreateLife(from *Account, nSlots int, value *big.Int) *Item {
	lg.variant++
	var slots, vals []byte
	for i := 0; i < nSlots; i++ {
		slots, vals = append(slots, byte(i)), append(vals, byte(1+(lg.variant*7+i*13)%250))
	}
	return lg.create(from, KLifeCreate, CLife, LifeCode(byte(lg.variant), slots, vals), value, fmt.Sprintf("life contract (%d constructor slots)", nSlots))
}

// CreateFactory deploys a CFactory contract.
func (lg *LifeGen) CreateFactory(from *Account) *Item {
	lg.variant++
	return lg.create(from, KFactoryCreate, CFactory, FactoryCode(byte(lg.variant)), bi(0), "life factory")
}

// Spawn makes factory CREATE2 its child for salt.
func (lg *LifeGen) Spawn(from *Account, factory common.Address, salt uint64) *Item {
	it := lg.G.Call(from, KLifeSpawn, factory, bi(0), CallFactory(salt), 0, false)
	if it != nil {
		it.Note = fmt.Sprintf("%s: factory %x.. CREATE2 salt %d -> %x..", from.Name, factory[:4], salt, LifeChildAddr(factory, salt).Bytes()[:4])
		lg.busy[LifeChildAddr(factory, salt)] = true
	}
	return it
}

// Ops calls a CLife contract with operations (coin value optional).
func (lg *LifeGen) Ops(from *Account, contract common.Address, value *big.Int, ops []LifeOp) *Item {
	kind := KLifeCall
	for _, o := range ops {
		if o.Op == LifeRevert {
			break
		}
		if o.Op == LifeKill {
			kind = KLifeKill
			break
		}
	}
	it := lg.G.Call(from, kind, contract, value, CallLife(ops...), 0, false)
	if it != nil {
		it.Note = fmt.Sprintf("%s %s %x.. value %v: %v", from.Name, kind, contract[:4], value, ops)
		if kind == KLifeKill {
			lg.busy[contract] = true
			lg.G.dyingNow[contract] = true
		}
	}
	return it
}

// TokenOps sends an issued token into a CLife contract together with operations.
func (lg *LifeGen) TokenOps(from *Account, token, contract common.Address, value *big.Int, ops []LifeOp) *Item {
	g := lg.G
	data := CallLife(ops...)
	gas := bigGas + intrinsic(data, false)
	if token == Native || g.avail(token, from.Addr).Cmp(value) < 0 || !g.canPay(from.Addr, gas, bi(0)) {
		return nil
	}
	n := g.nextNonce(from.Addr)
	tx := types.NewTokenTransaction(token, n, contract, value, gas, nil, data)
	if err := tx.Sign(types.GlobalSTDSigner, from.Key); err != nil {
		panic(err)
	}
	g.pendNonce[from.Addr] = n + 1
	g.reserve(Native, from.Addr, priceOf(gas))
	g.reserve(token, from.Addr, value)
	return g.record(&Item{Tx: tx, Kind: KLifeToken, From: from.Addr, To: &contract, Token: token, Value: cp(value), Data: data, Gas: gas,
		Note: fmt.Sprintf("%s life-token %x.. %v of token %x..: %v", from.Name, contract[:4], value, token[:4], ops)})
}

func (lg *LifeGen) slot(c *LifeContract) *big.Int {
	t := lg.T
	if t.Bool(1, 8) {
		return cp(lg.bigSlots[t.Int(len(lg.bigSlots))])
	}
	return bi(int64(t.Int(6)))
}

func (lg *LifeGen) value() *big.Int {
	t := lg.T
	switch t.Pick(5, 2, 1) {
	case 0:
		return bi(int64(1 + t.Int(250)))
	case 1:
		return new(big.Int).SetBytes(crypto.Keccak256(t.Bytes(4)))
	default:
		return bi(0x4444)
	}
}

// amount draws a coin amount up to max whole coins from the life stream.
func (lg *LifeGen) amount(maxLK int) *big.Int {
	t := lg.T
	switch t.Pick(1, 3, 1) {
	case 0:
		return bi(int64(t.Int(3)))
	case 1:
		return LK(int64(1 + t.Int(maxLK)))
	default:
		return add(LK(int64(1+t.Int(maxLK))), bi(int64(t.Int(3))-1))
	}
}

func keyInt(k string) *big.Int { return new(big.Int).SetBytes([]byte(k)) }

// script draws 1-4 operations for c from its modelled state: mostly
// operations on slots that hold something (overwrite, clear) or held
// something before (read, re-set, copy, increment).
func (lg *LifeGen) script(c *LifeContract) []LifeOp {
	t := lg.T
	var full, cleared []string
	for _, k := range c.TouchedSlots() {
		if c.Slots[k] != nil {
			full = append(full, k)
		} else {
			cleared = append(cleared, k)
		}
	}
	pick := func(l []string) *big.Int { return keyInt(l[t.Int(len(l))]) }
	var ops []LifeOp
	n := 1 + t.Int(4)
	for i := 0; i < n; i++ {
		wf, wc := 0, 0
		if len(full) > 0 {
			wf = 1
		}
		if len(cleared) > 0 {
			wc = 1
		}
		switch t.Pick(5*wf, 2*wf, 3, 3*wc, 1*wf, 3*wc, 2*wc, 1*wf, 1, 1*wf, 1) {
		case 0: // clear
			ops = append(ops, LifeOp{LifeSet, pick(full), bi(0)})
		case 1: // overwrite
			ops = append(ops, LifeOp{LifeSet, pick(full), lg.value()})
		case 2: // set any
			ops = append(ops, LifeOp{LifeSet, lg.slot(c), lg.value()})
		case 3: // read a cleared slot
			ops = append(ops, LifeOp{LifeGet, pick(cleared), nil})
		case 4:
			ops = append(ops, LifeOp{LifeGet, pick(full), nil})
		case 5: // write a cleared slot again
			ops = append(ops, LifeOp{LifeSet, pick(cleared), lg.value()})
		case 6: // increment / copy from a cleared slot
			if t.Bool(1, 2) {
				ops = append(ops, LifeOp{LifeInc, pick(cleared), bi(int64(1 + t.Int(9)))})
			} else {
				ops = append(ops, LifeOp{LifeCopy, pick(cleared), lg.slot(c)})
			}
		case 7:
			ops = append(ops, LifeOp{LifeInc, pick(full), bi(int64(1 + t.Int(9)))})
		case 8: // set and clear inside one transaction
			s := lg.slot(c)
			ops = append(ops, LifeOp{LifeSet, s, lg.value()}, LifeOp{LifeSet, s, bi(0)})
		case 9: // clear and set inside one transaction
			s := pick(full)
			ops = append(ops, LifeOp{LifeSet, s, bi(0)}, LifeOp{LifeSet, s, lg.value()})
		case 10: // clear everything
			for _, k := range full {
				ops = append(ops, LifeOp{LifeSet, keyInt(k), bi(0)})
			}
			if len(full) == 0 {
				ops = append(ops, LifeOp{LifeGet, lg.slot(c), nil})
			}
		}
	}
	if len(ops) > 8 {
		ops = ops[:8]
	}
	return ops
}

// sweep reads every slot any incarnation of c ever touched.
func (lg *LifeGen) sweep(c *LifeContract) []LifeOp {
	var ops []LifeOp
	for _, k := range c.TouchedSlots() {
		ops = append(ops, LifeOp{LifeGet, keyInt(k), nil})
		if len(ops) == 8 {
			break
		}
	}
	return ops
}

func (lg *LifeGen) tokenHolder() (*Account, common.Address, *big.Int) {
	g := lg.G
	for _, tk := range g.L.Tokens() {
		if tk == Native || g.L.OpaqueTokens[tk] {
			continue
		}
		for _, h := range g.L.HoldersOf(tk) {
			if a := g.byAddr[h]; a != nil {
				if av := g.avail(tk, h); av.Sign() > 0 {
					return a, tk, av
				}
			}
		}
	}
	return nil, common.Address{}, nil
}

// Next generates one life-cycle transaction (nil only if no sender can pay).
func (lg *LifeGen) Next() *Item {
	g, t := lg.G, lg.T
	for try := 0; try < 6; try++ {
		from := g.Accts[t.Int(len(g.Accts))]
		live := lg.live()
		facts := lg.factories()
		wCreate, wFactory, wSpawn, wOps, wKill, wFund, wToken := 1, 0, 0, 0, 0, 0, 0
		if len(live) < 2 {
			wCreate = 6
		}
		if len(facts) == 0 {
			wFactory = 3
		} else {
			wSpawn = 4
		}
		if len(live) > 0 {
			wOps, wKill, wFund, wToken = 12, 3, 1, 1
			if h, _, _ := lg.tokenHolder(); h != nil {
				wToken = 4
			}
		}
		if lg.NoTokens {
			wToken = 0
		}
		switch t.Pick(wCreate, wFactory, wSpawn, wOps, wKill, wFund, wToken) {
		case 0:
			v := bi(0)
			if t.Bool(1, 3) {
				v = lg.amount(5)
			}
			if it := lg.CreateLife(from, 1+t.Int(4), v); it != nil {
				return it
			}
		case 1:
			if it := lg.CreateFactory(from); it != nil {
				return it
			}
		case 2:
			f := facts[t.Int(len(facts))]
			// prefer a salt whose child lived before (re-creation at the same address)
			var dead, unused []uint64
			for s := uint64(0); s < 3; s++ {
				a := LifeChildAddr(f, s)
				if lg.busy[a] {
					continue
				}
				if c := lg.M.C[a]; c == nil {
					unused = append(unused, s)
				} else if !c.Alive && lg.Rebirth {
					dead = append(dead, s)
				}
			}
			var salt uint64
			switch {
			case len(dead) > 0 && (len(unused) == 0 || t.Bool(4, 5)):
				salt = dead[t.Int(len(dead))]
			case len(unused) > 0:
				salt = unused[t.Int(len(unused))]
			default:
				// no free salt: sometimes a colliding CREATE2 on a living child (the
				// creation fails consuming all gas, the factory reverts)
				var alive []uint64
				for s := uint64(0); s < 3; s++ {
					if c := lg.M.C[LifeChildAddr(f, s)]; c != nil && c.Alive && !lg.busy[c.Addr] {
						alive = append(alive, s)
					}
				}
				if len(alive) == 0 || !t.Bool(1, 4) {
					continue
				}
				salt = alive[t.Int(len(alive))]
			}
			if it := lg.Spawn(from, f, salt); it != nil {
				return it
			}
		case 3:
			c := live[t.Int(len(live))]
			var ops []LifeOp
			if c.Births > 1 && t.Bool(1, 2) {
				ops = lg.sweep(c) // a re-created contract: nothing of the previous incarnation may be visible
			} else {
				ops = lg.script(c)
			}
			if t.Bool(1, 12) {
				ops = append(ops, LifeOp{LifeRevert, nil, nil})
			}
			v := bi(0)
			if t.Bool(1, 5) {
				v = lg.amount(3)
			}
			if it := lg.Ops(from, c.Addr, v, ops); it != nil {
				return it
			}
		case 4:
			// prefer victims that hold storage
			var rich []*LifeContract
			for _, c := range live {
				if len(c.Slots) > 0 {
					rich = append(rich, c)
				}
			}
			if len(rich) == 0 || t.Bool(1, 5) {
				rich = live
			}
			c := rich[t.Int(len(rich))]
			var ben common.Address
			switch t.Pick(2, 2, 2, 1) {
			case 0: // itself: everything it holds is destroyed
			case 1:
				ben = g.Accts[t.Int(len(g.Accts))].Addr
			case 2:
				ben = g.freshAddr()
			default:
				o := live[t.Int(len(live))]
				if o != c {
					ben = o.Addr
				}
			}
			var ops []LifeOp
			if t.Bool(1, 2) {
				ops = lg.script(c)
				for i, o := range ops {
					if o.Op == LifeRevert || o.Op == LifeKill {
						ops = ops[:i]
						break
					}
				}
			}
			ops = append(ops, LifeOp{LifeKill, new(big.Int).SetBytes(ben[:]), nil})
			if it := lg.Ops(from, c.Addr, lg.amount(2), ops); it != nil {
				return it
			}
		case 5:
			c := live[t.Int(len(live))]
			if it := g.Call(from, KLifeFund, c.Addr, lg.amount(10), nil, 0, false); it != nil {
				return it
			}
		case 6:
			h, tk, av := lg.tokenHolder()
			if h == nil {
				// nobody holds an issued token: issue some (an issuer is deployed when none exists)
				if cs := g.liveNotDying(CIssuer); len(cs) > 0 {
					if it := g.Call(from, KCallIssue, cs[t.Int(len(cs))], bi(0), CallIssue(mulU(bi(1e10), uint64(1+t.Int(100000))), from.Addr), 0, false); it != nil {
						return it
					}
				} else if it := g.Create(from, CIssuer, bi(0), 18); it != nil {
					return it
				}
				continue
			}
			c := live[t.Int(len(live))]
			if it := lg.TokenOps(h, tk, c.Addr, new(big.Int).Div(av, bi(int64(1+t.Int(4)))), lg.script(c)); it != nil {
				return it
			}
		}
	}
	return nil
}

// Batch generates up to n life-cycle transactions.
func (lg *LifeGen) Batch(n int) []*Item {
	var out []*Item
	for i := 0; i < n; i++ {
		if it := lg.Next(); it != nil {
			out = append(out, it)
		}
	}
	return out
}
