package txgen

import (
	"encoding/binary"
	"fmt"
	"math/big"

	"github.com/lianxiangcloud/linkchain/libs/common"
)

// ---------------------------------------------------------------- assembler

// EVM opcodes used by the embedded contracts.
const (
	opSTOP         = 0x00
	opADD          = 0x01
	opSUB          = 0x03
	opLT           = 0x10
	opEQ           = 0x14
	opISZERO       = 0x15
	opOR           = 0x17
	opADDRESS      = 0x30
	opCALLVALUE    = 0x34
	opCALLDATALOAD = 0x35
	opCALLDATASIZE = 0x36
	opCALLDATACOPY = 0x37
	opCODECOPY     = 0x39
	opPOP          = 0x50
	opMSTORE       = 0x52
	opSSTORE       = 0x55
	opJUMP         = 0x56
	opJUMPI        = 0x57
	opGAS          = 0x5a
	opJUMPDEST     = 0x5b
	opPUSH1        = 0x60
	opPUSH2        = 0x61
	opDUP1         = 0x80
	opDUP2         = 0x81
	opDUP3         = 0x82
	opSWAP1        = 0x90
	opLOG1         = 0xa1
	opCALL         = 0xf1
	opRETURN       = 0xf3
	opREVERT       = 0xfd
	opINVALID      = 0xfe
	opSELFDESTRUCT = 0xff
	// linkchain token opcodes (vm/evm/opcodes.go)
	opISSUE         = 0xe0
	opTRANSFERTOKEN = 0xe3
)

type asm struct {
	code   []byte
	labels map[string]int
	fixups map[int]string
}

func newAsm() *asm { return &asm{labels: map[string]int{}, fixups: map[int]string{}} }

func (a *asm) op(b ...byte) *asm { a.code = append(a.code, b...); return a }

// push1 pushes a one-byte constant.
func (a *asm) push1(v byte) *asm { return a.op(opPUSH1, v) }

// ref pushes the (2-byte) offset of a label, resolved by bytes().
func (a *asm) ref(label string) *asm {
	a.op(opPUSH2, 0, 0)
	a.fixups[len(a.code)-2] = label
	return a
}

// label places a JUMPDEST.
func (a *asm) label(name string) *asm {
	a.labels[name] = len(a.code)
	return a.op(opJUMPDEST)
}

func (a *asm) bytes() []byte {
	out := append([]byte(nil), a.code...)
	for at, l := range a.fixups {
		pos, ok := a.labels[l]
		if !ok {
			panic("txgen asm: unknown label " + l)
		}
		binary.BigEndian.PutUint16(out[at:], uint16(pos))
	}
	return out
}

// deployer wraps runtime code into creation code: optional constructor prefix,
// then CODECOPY of the runtime to memory 0 and RETURN.
func deployer(ctor, runtime []byte) []byte {
	const tail = 3 + 3 + 2 + 1 + 3 + 2 + 1 // the fixed-size copy/return sequence below
	off := len(ctor) + tail
	a := newAsm().op(ctor...)
	a.op(opPUSH2, byte(len(runtime)>>8), byte(len(runtime))) // length
	a.op(opPUSH2, byte(off>>8), byte(off))                   // code offset
	a.push1(0)                                               // memory offset
	a.op(opCODECOPY)
	a.op(opPUSH2, byte(len(runtime)>>8), byte(len(runtime)))
	a.push1(0)
	a.op(opRETURN)
	if len(a.code) != off {
		panic("txgen deployer: size mismatch")
	}
	return append(a.bytes(), runtime...)
}

// ---------------------------------------------------------------- contracts

// ContractKind names the behaviour of an embedded contract; the reference
// ledger models each kind in a few lines (ledger.go: simCall).
type ContractKind string

const (
	// CStore: calldata key|value|count: SSTOREs count slots key+i := value+i,
	// emits LOG1(topic=key, data=value); accepts any value. Empty calldata: accepts value.
	CStore ContractKind = "store"
	// CRevert: writes a slot, then REVERTs (calldata word 0 == 0 or absent) or
	// hits INVALID (word 0 != 0, consumes all gas). Never succeeds.
	CRevert ContractKind = "revert"
	// CIssuer: decimals() answers a constant; calldata amount|to: ISSUE amount of
	// its own token and TRANSFERTOKEN it to `to`. Empty calldata: accepts value.
	CIssuer ContractKind = "issuer"
	// CIssuerBad: like CIssuer but decimals() answers 30 (out of range), so every
	// issue is reverted by the chain's "issue without decimals" rule.
	CIssuerBad ContractKind = "issuer-bad-decimals"
	// CSuicide: calldata beneficiary (0 = itself): SELFDESTRUCT. Empty calldata: accepts value.
	CSuicide ContractKind = "suicide"
	// CForward: calldata target|mode|inner...: CALLs target with the whole call
	// value and the inner calldata; on inner failure reverts (mode 0) or keeps
	// the value and succeeds (mode != 0). Shorter calldata: accepts value.
	CForward ContractKind = "forward"
	// CWasm: an opaque ready-made WASM contract from the repository's test data
	// (not modelled; its own token and its own native holdings are excluded
	// from per-account prediction).
	CWasm ContractKind = "wasm"
)

// decimals selector: keccak("decimals()")[:4]
var selDecimals = []byte{0x31, 0x3c, 0xe5, 0x67}

func runtimeStore() []byte {
	a := newAsm()
	a.op(opCALLDATASIZE, opISZERO).ref("end").op(opJUMPI)
	a.push1(0x40).op(opCALLDATALOAD) // [n]
	a.label("loop")
	a.op(opDUP1, opISZERO).ref("done").op(opJUMPI)
	a.push1(1).op(opSWAP1, opSUB)                      // [i]
	a.op(opDUP1).push1(0x20).op(opCALLDATALOAD, opADD) // [i, value+i]
	a.op(opDUP2).push1(0x00).op(opCALLDATALOAD, opADD) // [i, value+i, key+i]
	a.op(opSSTORE)                                     // [i]
	a.ref("loop").op(opJUMP)
	a.label("done").op(opPOP)
	a.push1(0x20).op(opCALLDATALOAD).push1(0).op(opMSTORE)
	a.push1(0).op(opCALLDATALOAD)
	a.push1(0x20).push1(0).op(opLOG1)
	a.label("end").op(opSTOP)
	return a.bytes()
}

func runtimeRevert() []byte {
	a := newAsm()
	a.push1(1).push1(1).op(opSSTORE)
	a.push1(0).op(opCALLDATALOAD)
	a.op(opISZERO).ref("rev").op(opJUMPI)
	a.op(opINVALID)
	a.label("rev").push1(0).push1(0).op(opREVERT)
	return a.bytes()
}

func runtimeIssuer(decimals byte) []byte {
	a := newAsm()
	a.op(opCALLDATASIZE).push1(4).op(opEQ).ref("dec").op(opJUMPI)
	a.op(opCALLDATASIZE, opISZERO).ref("end").op(opJUMPI)
	a.push1(0).op(opCALLDATALOAD, opISSUE)
	a.push1(0x20).op(opCALLDATALOAD) // to
	a.op(opADDRESS)                  // token
	a.push1(0).op(opCALLDATALOAD)    // amount
	a.op(opTRANSFERTOKEN)
	a.label("end").op(opSTOP)
	a.label("dec").push1(decimals).push1(0).op(opMSTORE).push1(0x20).push1(0).op(opRETURN)
	return a.bytes()
}

func runtimeSuicide() []byte {
	a := newAsm()
	a.op(opCALLDATASIZE, opISZERO).ref("end").op(opJUMPI)
	a.push1(0).op(opCALLDATALOAD)
	a.op(opDUP1, opISZERO).ref("self").op(opJUMPI)
	a.op(opSELFDESTRUCT)
	a.label("self").op(opPOP, opADDRESS, opSELFDESTRUCT)
	a.label("end").op(opSTOP)
	return a.bytes()
}

func runtimeForward() []byte {
	a := newAsm()
	a.push1(0x40).op(opCALLDATASIZE, opLT).ref("end").op(opJUMPI)
	a.push1(0x40).op(opCALLDATASIZE, opSUB)              // [n]
	a.op(opDUP1).push1(0x40).push1(0).op(opCALLDATACOPY) // [n]
	a.push1(0).push1(0)                                  // retSize retOff
	a.op(opDUP3)                                         // inSize
	a.push1(0)                                           // inOff
	a.op(opCALLVALUE)
	a.push1(0).op(opCALLDATALOAD) // target
	a.op(opGAS, opCALL)           // [n, ok]
	a.push1(0x20).op(opCALLDATALOAD, opOR)
	a.ref("end").op(opJUMPI)
	a.push1(0).push1(0).op(opREVERT)
	a.label("end").op(opSTOP)
	return a.bytes()
}

// ContractCode returns the creation code of an embedded contract kind.
// variant perturbs the code (a trailing data byte after STOP-reachable code is
// not possible in creation code, so the variant is a leading PUSH/POP pair) so
// that one sender can deploy the same kind repeatedly at distinct addresses
// with distinct code hashes. decimals is used by the issuer kinds.
func ContractCode(kind ContractKind, variant byte, decimals byte) []byte {
	ctor := []byte{opPUSH1, variant, opPOP}
	switch kind {
	case CStore:
		return deployer(ctor, runtimeStore())
	case CRevert:
		return deployer(ctor, runtimeRevert())
	case CIssuer:
		return deployer(ctor, runtimeIssuer(decimals))
	case CIssuerBad:
		return deployer(ctor, runtimeIssuer(30))
	case CSuicide:
		return deployer(ctor, runtimeSuicide())
	case CForward:
		return deployer(ctor, runtimeForward())
	case CRepeat:
		return deployer(ctor, runtimeRepeat())
	case CVault:
		return deployer(ctor, runtimeVault())
	}
	panic(fmt.Sprintf("txgen: no code for contract kind %q", kind))
}

// FailingCreationCode returns creation code whose constructor reverts
// (mode 0), hits INVALID (mode 1) or returns oversized runtime code (mode 2).
func FailingCreationCode(mode int, variant byte) []byte {
	a := newAsm().push1(variant).op(opPOP)
	switch mode {
	case 0:
		a.push1(1).push1(1).op(opSSTORE).push1(0).push1(0).op(opREVERT)
	case 1:
		a.op(opINVALID)
	default:
		// RETURN(0, 0x6100) : 24832 bytes > MaxCodeSize
		a.op(opPUSH2, 0x61, 0x00).push1(0).op(opRETURN)
	}
	return a.bytes()
}

func word(v *big.Int) []byte { return common.LeftPadBytes(v.Bytes(), 32) }
func wordU(v uint64) []byte  { return word(new(big.Int).SetUint64(v)) }
func wordA(a common.Address) []byte {
	return common.LeftPadBytes(a.Bytes(), 32)
}

// CallStore builds calldata for a CStore contract.
func CallStore(key, value *big.Int, count int) []byte {
	return append(append(word(key), word(value)...), wordU(uint64(count))...)
}

// CallRevert builds calldata for a CRevert contract (invalid=true: INVALID opcode).
func CallRevert(invalid bool) []byte {
	if invalid {
		return wordU(1)
	}
	return wordU(0)
}

// CallIssue builds calldata for a CIssuer contract.
func CallIssue(amount *big.Int, to common.Address) []byte {
	return append(word(amount), wordA(to)...)
}

// CallSuicide builds calldata for a CSuicide contract (zero beneficiary = the contract itself).
func CallSuicide(beneficiary common.Address) []byte { return wordA(beneficiary) }

// CallForward builds calldata for a CForward contract.
func CallForward(target common.Address, swallow bool, inner []byte) []byte {
	m := uint64(0)
	if swallow {
		m = 1
	}
	return append(append(wordA(target), wordU(m)...), inner...)
}
