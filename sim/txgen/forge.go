package txgen

// Hand-built RingCT stages for the C06 rig: confidential transactions whose
// per-output / per-input lists (output commitments, encrypted amounts, range
// proof, pseudo-outs, additional keys) do not match the outputs and inputs they
// are supposed to describe, with every signature made AFTER the reshaping so
// that all of them verify. Not used by Batch/Next.

import (
	"fmt"
	"math/big"

	"github.com/lianxiangcloud/linkchain/libs/common"
	"github.com/lianxiangcloud/linkchain/libs/cryptonote/ringct"
	lktypes "github.com/lianxiangcloud/linkchain/libs/cryptonote/types"
	"github.com/lianxiangcloud/linkchain/libs/cryptonote/xcrypto"
	"github.com/lianxiangcloud/linkchain/types"

	"verif/sim/kernel"
)

// RctForge describes how the RingCT part deviates from the honest one. All
// amounts are in commitment units and may be negative (committed modulo the
// group order). The zero value builds the honest stage.
type RctForge struct {
	// InflateUnits is added to hidden output 0: its commitment, encrypted amount
	// and range proof are made for honest+InflateUnits.
	InflateUnits *big.Int
	// SurplusOut: one extra entry of OutPk per element, committing to that many
	// units, belonging to no output and covered by no range proof.
	SurplusOut []*big.Int
	// SurplusIn: one extra pseudo-out per element (an "input" commitment without
	// key image, ring or signature).
	SurplusIn []*big.Int
	// Unproven > 0: the last Unproven hidden outputs get plain commitments that
	// the range proof does not cover; UnprovenDelta is added to the amount of
	// the last one (so that it can be negative).
	Unproven      int
	UnprovenDelta *big.Int
	// DropLastOutPk: the last hidden output gets no commitment at all; its
	// amount is added to output 0 (the balance equation still holds).
	DropLastOutPk bool
	// EcdhDelta / AddKeysDelta: entries appended (> 0, copies of the last one) or
	// removed (< 0) from EcdhInfo / AddKeys. ProofCopies: extra copies of the
	// range proof entry.
	EcdhDelta, AddKeysDelta, ProofCopies int
	// ExtraAccountInput (account->hidden transactions only): a second account
	// input of that many units, same nonce, placed in front of the genuine one,
	// with a commitment of its own that takes part in the balance equation. The
	// statement knows one account input per transaction (its amount is what the
	// sender is debited): whatever the second one "pays" comes from nowhere.
	ExtraAccountInput *big.Int
}

// ForgedValue is what the forged transaction is worth by the plain value
// model: the hidden outputs' amounts as committed (wei; an output without
// commitment or with a negative amount counts as nothing).
type ForgedValue struct {
	HiddenOut *big.Int // Σ amounts of the hidden outputs created
	HiddenIn  *big.Int // Σ true amounts of the hidden outputs spent
}

func unitsKey(v *big.Int) (lktypes.Key, error) {
	if v.Sign() >= 0 {
		return types.BigInt2Hash(v)
	}
	k, err := types.BigInt2Hash(new(big.Int).Neg(v))
	if err != nil {
		return k, err
	}
	return ringct.ScSub(lktypes.EcScalar(ringct.Z), lktypes.EcScalar(k)), nil
}

// forgeOutputs fills OutPk, EcdhInfo and the range proof of tx for the hidden
// outputs worth amounts (units) with the recipients' shared scalars mkeys,
// reshaped by f. It returns the sum of all output blinding factors (surplus
// entries included) and the value of the real outputs.
func forgeOutputs(tx *types.UTXOTransaction, unit *big.Int, amounts []*big.Int, mkeys lktypes.KeyV, f RctForge) (sumCF lktypes.Key, worth *big.Int, err error) {
	n := len(amounts)
	if n == 0 || n != len(mkeys) {
		return sumCF, nil, fmt.Errorf("forge: %d amounts, %d keys", n, len(mkeys))
	}
	amts := make([]*big.Int, n)
	for i := range amounts {
		amts[i] = cp(amounts[i])
	}
	if f.InflateUnits != nil {
		amts[0].Add(amts[0], f.InflateUnits)
	}
	if f.DropLastOutPk {
		if n < 2 {
			return sumCF, nil, fmt.Errorf("forge: needs two hidden outputs")
		}
		amts[0].Add(amts[0], amts[n-1])
		n--
		amts = amts[:n]
	}
	proven := n
	if f.Unproven > 0 {
		if f.Unproven >= n {
			return sumCF, nil, fmt.Errorf("forge: needs more hidden outputs")
		}
		proven = n - f.Unproven
		if f.UnprovenDelta != nil {
			amts[n-1].Add(amts[n-1], f.UnprovenDelta)
		}
	}
	var keys lktypes.KeyV
	for i := 0; i < proven; i++ {
		k, e := unitsKey(amts[i])
		if e != nil || amts[i].Sign() < 0 {
			return sumCF, nil, fmt.Errorf("forge: proven amount %v not representable", amts[i])
		}
		keys = append(keys, k)
	}
	proof, commits, masks, e := ringct.ProveRangeBulletproof(keys, mkeys[:proven])
	if e != nil {
		return sumCF, nil, e
	}
	proof.V = nil
	tx.RCTSig.P.Bulletproofs = []lktypes.Bulletproof{*proof}
	for i := 0; i < f.ProofCopies; i++ {
		tx.RCTSig.P.Bulletproofs = append(tx.RCTSig.P.Bulletproofs, *proof)
	}
	tx.RCTSig.OutPk = make(lktypes.CtkeyV, n)
	tx.RCTSig.EcdhInfo = make([]lktypes.EcdhTuple, n)
	sumCF = ringct.Z
	worth = new(big.Int)
	for i := 0; i < n; i++ {
		var mask, amt lktypes.Key
		if i < proven {
			mask, amt = masks[i], keys[i]
			tx.RCTSig.OutPk[i].Mask, _ = ringct.Scalarmult8(commits[i])
		} else {
			mask = ringct.SkGen()
			if amt, e = unitsKey(amts[i]); e != nil {
				return sumCF, nil, e
			}
			if tx.RCTSig.OutPk[i].Mask, e = ringct.AddKeys2(mask, amt, ringct.H); e != nil {
				return sumCF, nil, e
			}
		}
		sumCF = ringct.ScAdd(lktypes.EcScalar(mask), lktypes.EcScalar(sumCF))
		tx.RCTSig.EcdhInfo[i].Mask, tx.RCTSig.EcdhInfo[i].Amount = mask, amt
		if !ringct.EcdhEncode(&tx.RCTSig.EcdhInfo[i], mkeys[i], false) {
			return sumCF, nil, types.ErrEcdhEncode
		}
		if amts[i].Sign() > 0 {
			worth.Add(worth, new(big.Int).Mul(amts[i], unit))
		}
	}
	for _, s := range f.SurplusOut {
		m := ringct.SkGen()
		k, e := unitsKey(s)
		if e != nil {
			return sumCF, nil, e
		}
		c, e := ringct.AddKeys2(m, k, ringct.H)
		if e != nil {
			return sumCF, nil, e
		}
		tx.RCTSig.OutPk = append(tx.RCTSig.OutPk, lktypes.Ctkey{Mask: c})
		sumCF = ringct.ScAdd(lktypes.EcScalar(m), lktypes.EcScalar(sumCF))
	}
	for d := f.EcdhDelta; d > 0; d-- {
		tx.RCTSig.EcdhInfo = append(tx.RCTSig.EcdhInfo, tx.RCTSig.EcdhInfo[len(tx.RCTSig.EcdhInfo)-1])
	}
	if d := -f.EcdhDelta; d > 0 && d <= len(tx.RCTSig.EcdhInfo) {
		tx.RCTSig.EcdhInfo = tx.RCTSig.EcdhInfo[:len(tx.RCTSig.EcdhInfo)-d]
	}
	return sumCF, worth, nil
}

// surplusPseudoOuts appends the extra pseudo-outs and returns the sum of their blinding factors.
func surplusPseudoOuts(tx *types.UTXOTransaction, f RctForge) (lktypes.Key, error) {
	sum := ringct.Z
	for _, s := range f.SurplusIn {
		m := ringct.SkGen()
		k, err := unitsKey(s)
		if err != nil {
			return sum, err
		}
		c, err := ringct.AddKeys2(m, k, ringct.H)
		if err != nil {
			return sum, err
		}
		tx.RCTSig.P.PseudoOuts = append(tx.RCTSig.P.PseudoOuts, c)
		sum = ringct.ScAdd(lktypes.EcScalar(m), lktypes.EcScalar(sum))
	}
	return sum, nil
}

// adjustAddKeys applies AddKeysDelta (before anything is signed: AddKeys are signed fields).
func adjustAddKeys(tx *types.UTXOTransaction, f RctForge) {
	for d := f.AddKeysDelta; d > 0; d-- {
		if len(tx.AddKeys) == 0 {
			tx.AddKeys = append(tx.AddKeys, tx.RKey)
		} else {
			tx.AddKeys = append(tx.AddKeys, tx.AddKeys[len(tx.AddKeys)-1])
		}
	}
	if d := -f.AddKeysDelta; d > 0 && d <= len(tx.AddKeys) {
		tx.AddKeys = tx.AddKeys[:len(tx.AddKeys)-d]
	}
}

// recipientScalars recomputes, from the receiving wallets' side, the shared
// scalar of every hidden output of tx (outs in output order, as recorded by the builder).
func (g *Gen) recipientScalars(tx *types.UTXOTransaction, outs []*Hidden) (lktypes.KeyV, error) {
	rkeys := append([]lktypes.PublicKey{tx.RKey}, tx.AddKeys...)
	var mkeys lktypes.KeyV
	idx := uint64(0)
	for _, out := range tx.Outputs {
		uo, ok := out.(*types.UTXOOutput)
		if !ok {
			continue
		}
		if int(idx) >= len(outs) || outs[idx].Owner < 0 || outs[idx].Owner >= len(g.wallets) {
			return nil, fmt.Errorf("forge: no owner for output %d", idx)
		}
		w := g.wallets[outs[idx].Owner]
		var deriv []lktypes.KeyDerivation
		for _, rk := range rkeys {
			if d, err := xcrypto.GenerateKeyDerivation(rk, w.Acc.ViewSKey); err == nil {
				deriv = append(deriv, d)
			}
		}
		d, _, err := types.IsOutputBelongToAccount(&w.Acc, w.KeyIndex, uo.OTAddr, deriv, idx)
		if err != nil {
			return nil, err
		}
		sc, err := xcrypto.DerivationToScalar(d, int(idx))
		if err != nil {
			return nil, err
		}
		mkeys = append(mkeys, lktypes.Key(sc))
		idx++
	}
	return mkeys, nil
}

// ForgeAccToUtxo rebuilds the RingCT part of an honest account->hidden item
// (from AccToUtxo, not yet committed) according to f, re-derives the account
// input's blinding factor and commitment so that the commitment equation holds
// whenever f is balanced, and signs the result with the sender's key. The
// honest item stays as it is; the forged transaction is returned as a freshly
// decoded object together with its value by the plain model.
func (g *Gen) ForgeAccToUtxo(it *Item, f RctForge) (types.Tx, *ForgedValue, error) {
	if it == nil || it.utxo == nil || it.utxo.accIn == nil {
		return nil, nil, fmt.Errorf("forge: not an account->hidden item")
	}
	from := g.byAddr[it.From]
	unit := g.rateOf(it.Token)
	if from == nil || unit == nil {
		return nil, nil, fmt.Errorf("forge: unknown sender or token")
	}
	c, err := CloneTx(it.Tx)
	if err != nil {
		return nil, nil, err
	}
	tx := c.(*types.UTXOTransaction)
	mkeys, err := g.recipientScalars(tx, it.utxo.outs)
	if err != nil {
		return nil, nil, err
	}
	var amounts []*big.Int
	for _, h := range it.utxo.outs {
		amounts = append(amounts, new(big.Int).Div(h.Amount, unit))
	}
	var val *ForgedValue
	var ferr error
	_, _, panicked := kernel.Try(func() {
		tx.RCTSig = lktypes.RctSig{}
		adjustAddKeys(tx, f)
		sumOut, worth, e := forgeOutputs(tx, unit, amounts, mkeys, f)
		if e != nil {
			ferr = e
			return
		}
		sumIn, e := surplusPseudoOuts(tx, f)
		if e != nil {
			ferr = e
			return
		}
		var ain *types.AccountInput
		for _, in := range tx.Inputs {
			if a, ok := in.(*types.AccountInput); ok {
				ain = a
			}
		}
		inKey, e := unitsKey(new(big.Int).Div(ain.Amount, unit))
		if e != nil {
			ferr = e
			return
		}
		ain.CF = ringct.ScSub(lktypes.EcScalar(sumOut), lktypes.EcScalar(sumIn))
		if f.ExtraAccountInput != nil {
			xKey, e := unitsKey(f.ExtraAccountInput)
			if e != nil {
				ferr = e
				return
			}
			extra := &types.AccountInput{Nonce: ain.Nonce, Amount: new(big.Int).Mul(f.ExtraAccountInput, unit), CF: ringct.SkGen()}
			extra.Commit, _ = ringct.AddKeys2(extra.CF, xKey, ringct.H)
			ain.CF = ringct.ScSub(lktypes.EcScalar(ain.CF), lktypes.EcScalar(extra.CF))
			tx.Inputs = append([]types.Input{extra}, tx.Inputs...)
		}
		ain.Commit, _ = ringct.AddKeys2(ain.CF, inKey, ringct.H)
		if e := tx.Sign(types.GlobalSTDSigner, from.Key); e != nil {
			ferr = e
			return
		}
		val = &ForgedValue{HiddenOut: worth, HiddenIn: new(big.Int)}
	})
	if panicked || ferr != nil || val == nil {
		if ferr == nil {
			ferr = fmt.Errorf("forge: builder panicked")
		}
		return nil, nil, ferr
	}
	out, err := CloneTx(tx)
	return out, val, err
}

// UtxoSpendForged is UtxoSpend with the RingCT stage (output commitments,
// range proof, pseudo-outs, ring signatures) built by hand according to f:
// the honest stage reshaped, then signed, so that every ring signature covers
// the reshaped lists. The item's bookkeeping describes the honest transaction;
// never commit it through Committed.
func (g *Gen) UtxoSpendForged(o SpendOpts, f RctForge) (*Item, *ForgedValue) {
	var val *ForgedValue
	unit := g.rateOf(o.Token)
	it := g.utxoSpend(o, spendHooks{
		pre: func(tx *types.UTXOTransaction, dests []types.DestEntry) { adjustAddKeys(tx, f) },
		rct: func(tx *types.UTXOTransaction, sources []*types.UTXOSourceEntry, ephs []*types.UTXOInputEphemeral, dests []types.DestEntry, mkeys lktypes.KeyV) error {
			v, err := forgeUinRct(tx, unit, sources, ephs, dests, mkeys, f)
			val = v
			return err
		}})
	if it == nil || val == nil {
		return nil, nil
	}
	for _, h := range it.utxo.spends {
		val.HiddenIn.Add(val.HiddenIn, h.Amount)
	}
	return it, val
}

// forgeUinRct follows types.UInTransWithRctSig step by step, with the lists reshaped by f.
func forgeUinRct(tx *types.UTXOTransaction, unit *big.Int, sources []*types.UTXOSourceEntry, ephs []*types.UTXOInputEphemeral,
	dests []types.DestEntry, mkeys lktypes.KeyV, f RctForge) (*ForgedValue, error) {
	var amounts []*big.Int
	for _, d := range dests {
		if d.Type() == types.TypeUTXODest {
			amounts = append(amounts, new(big.Int).Div(d.GetAmount(), unit))
		}
	}
	sumOutCF, worth := ringct.Z, new(big.Int)
	if len(amounts) > 0 {
		var err error
		if sumOutCF, worth, err = forgeOutputs(tx, unit, amounts, mkeys, f); err != nil {
			return nil, err
		}
	} else if f.InflateUnits != nil || len(f.SurplusOut) > 0 || f.Unproven > 0 || f.DropLastOutPk {
		return nil, fmt.Errorf("forge: no hidden output to reshape")
	}
	n := len(sources)
	inSKey := make(lktypes.CtkeyV, n)
	rings := make(lktypes.CtkeyM, n)
	indexs := make([]uint32, n)
	inAmounts := make([]lktypes.Key, n)
	for i := 0; i < n; i++ {
		inSKey[i] = lktypes.Ctkey{Dest: lktypes.Key(ephs[i].SKey), Mask: sources[i].Mask}
		indexs[i] = uint32(sources[i].RingIndex)
		rings[i] = make(lktypes.CtkeyV, len(sources[i].Ring))
		for j := range sources[i].Ring {
			rings[i][j] = lktypes.Ctkey{Dest: sources[i].Ring[j].OTAddr, Mask: sources[i].Ring[j].Commit}
		}
		k, err := types.BigInt2Hash(new(big.Int).Div(sources[i].Amount, unit))
		if err != nil {
			return nil, err
		}
		inAmounts[i] = k
	}
	tx.RCTSig.Type = uint8(lktypes.RCTTypeBulletproof)
	tx.RCTSig.Message = tx.PrefixHash()
	tx.RCTSig.MixRing = rings
	tx.RCTSig.P.PseudoOuts = make(lktypes.KeyV, n)
	tx.RCTSig.P.MGs = make([]lktypes.MgSig, n)
	tx.RCTSig.P.Ss = make([]lktypes.Signature, n)
	// the surplus pseudo-outs come after the real ones; their blinding factors
	// count on the input side
	surplus := &types.UTXOTransaction{}
	sumSurplus, err := surplusPseudoOuts(surplus, f)
	if err != nil {
		return nil, err
	}
	ra := make(lktypes.KeyV, n)
	sumInCF := sumSurplus
	i := 0
	for i = 0; i < n-1; i++ {
		ra[i] = ringct.SkGen()
		sumInCF = ringct.ScAdd(lktypes.EcScalar(ra[i]), lktypes.EcScalar(sumInCF))
		tx.RCTSig.P.PseudoOuts[i], _ = ringct.AddKeys2(ra[i], inAmounts[i], ringct.H)
	}
	ra[i] = ringct.ScSub(lktypes.EcScalar(sumOutCF), lktypes.EcScalar(sumInCF))
	tx.RCTSig.P.PseudoOuts[i], _ = ringct.AddKeys2(ra[i], inAmounts[i], ringct.H)
	tx.RCTSig.P.PseudoOuts = append(tx.RCTSig.P.PseudoOuts, surplus.RCTSig.P.PseudoOuts...)
	hash, err := ringct.GetPreMlsagHash(&tx.RCTSig)
	if err != nil {
		return nil, err
	}
	short := n > 0 && len(sources[0].Ring) == types.SHORT_RING_MEMBER_NUM
	for i := 0; i < n; i++ {
		if short {
			if len(sources[i].Ring) != types.SHORT_RING_MEMBER_NUM {
				return nil, types.ErrMixRingMemberNotSupport
			}
			pubs := []lktypes.PublicKey{lktypes.PublicKey(ephs[i].OTAddr)}
			ssig, err := xcrypto.GenerateRingSignature(lktypes.Hash(hash), lktypes.KeyImage(ephs[i].KeyImage), pubs, ephs[i].SKey, 0)
			if err != nil {
				return nil, err
			}
			tx.RCTSig.P.Ss[i] = *ssig
		} else {
			mg, err := ringct.ProveRctMGSimple(hash, rings[i], inSKey[i], ra[i], tx.RCTSig.P.PseudoOuts[i], nil, nil, indexs[i])
			if err != nil {
				return nil, err
			}
			tx.RCTSig.P.MGs[i] = *mg
		}
	}
	return &ForgedValue{HiddenOut: worth, HiddenIn: new(big.Int)}, nil
}

var _ = common.Address{}

// AdoptOutputs plays the receiving wallets for a committed confidential
// transaction that did not come out of this generator's builders (a forged
// one): every hidden output one of the generator's wallets can decode is
// entered into the ledger's output list (global index = position in the
// chain's output store, which must be in step with the ledger), so that later
// spends can use it. Account-side effects are not booked. It returns the
// decoded amounts in output order.
func (g *Gen) AdoptOutputs(tx *types.UTXOTransaction, height uint64) ([]*big.Int, error) {
	unit := g.rateOf(tx.TokenID)
	if unit == nil {
		return nil, fmt.Errorf("adopt: unknown token")
	}
	byIdx := map[uint64]*Hidden{}
	for _, w := range g.wallets {
		found, err := scan(w, tx, unit)
		if err != nil {
			return nil, err
		}
		for _, h := range found {
			byIdx[h.aux.(*hiddenAux).outIndex] = h
		}
	}
	var amounts []*big.Int
	n := uint64(0)
	for _, out := range tx.Outputs {
		if _, ok := out.(*types.UTXOOutput); !ok {
			continue
		}
		h := byIdx[n]
		if h == nil {
			return nil, fmt.Errorf("adopt: output %d not decodable by any wallet", n)
		}
		h.Index = uint64(len(g.L.Hidden[tx.TokenID]))
		h.Height = height
		g.L.Hidden[tx.TokenID] = append(g.L.Hidden[tx.TokenID], h)
		amounts = append(amounts, cp(h.Amount))
		n++
	}
	return amounts, nil
}
