package txgen

import (
	"bytes"
	"fmt"
	"math/big"
	"sort"

	"github.com/lianxiangcloud/linkchain/libs/common"
	"github.com/lianxiangcloud/linkchain/types"
)

// Native is the token id of the native coin.
var Native = common.EmptyAddress

// ContractInfo is what the ledger knows about a deployed contract.
type ContractInfo struct {
	Kind     ContractKind
	Decimals byte
	Creator  common.Address
	// Dying is set when the contract executed SELFDESTRUCT in the block being
	// applied; the account is removed when the block is finalised.
	Dying bool
}

// Hidden is one confidential output known to the generator.
type Hidden struct {
	Token  common.Address
	Index  uint64 // global output index of the token (position in the chain's output store)
	Height uint64
	Amount *big.Int // in wei (a multiple of the token's commitment unit)
	Owner  int      // wallet index, -1 if unknown
	Sub    uint64   // sub-address index of the owner
	Spent  bool
	// construction material kept by the generator (see utxo.go)
	aux interface{}
}

// Mismatch is a disagreement between the reference model and a receipt.
type Mismatch struct {
	Key string
	Msg string
}

// Ledger is the reference model of value: plain maps advanced from receipts
// and transaction contents, never from the implementation's state.
type Ledger struct {
	Collector common.Address                                 // fee collector account
	bal       map[common.Address]map[common.Address]*big.Int // token -> holder -> amount (Native included)
	nonce     map[common.Address]uint64
	Contracts map[common.Address]*ContractInfo
	Hidden    map[common.Address][]*Hidden // token -> outputs by global index
	known     map[common.Address]bool

	// running totals of the designed exceptions and of fees
	Issued    map[common.Address]*big.Int // token -> Σ issued by its own contract
	Destroyed map[common.Address]*big.Int // token -> Σ destroyed by self-destruct in favour of itself
	// Lost is value the model predicts to vanish outside the two designed
	// exceptions (value held by a contract that self-destructed earlier in the
	// same block and received more afterwards; it is deleted with the account
	// when the block is finalised). Reported by the conservation oracle.
	Lost map[common.Address]*big.Int
	// Forged is hidden value that deliberately unbalanced confidential
	// transactions of the generator claimed without owning it and that the
	// chain nevertheless accepted (value created; reported by the oracle).
	Forged map[common.Address]*big.Int
	// TokensAtCreation: issued tokens that sat at an address when a contract was
	// created there (token -> amount, accumulated until the user resets it to
	// nil). Information only: the ledger keeps them where they are.
	TokensAtCreation map[common.Address]*big.Int
	FeesSum          *big.Int // Σ fees debited from payers = Σ credited to the collector
	// Signers set by MultiSignAccountTx per supported type.
	Signers map[types.SupportType]*types.SignersInfo

	// Graves are addresses of contracts removed by SELFDESTRUCT (plain accounts again).
	Graves []common.Address

	Height     uint64
	Mismatches []Mismatch
	// Unmodelled is set when a block contained something the model cannot
	// follow (opaque WASM effects); per-account prediction is then off for the
	// addresses in Opaque and for tokens in OpaqueTokens.
	Opaque       map[common.Address]bool
	OpaqueTokens map[common.Address]bool
}

// NewLedger returns an empty ledger.
func NewLedger(collector common.Address) *Ledger {
	l := &Ledger{Collector: collector,
		bal:       map[common.Address]map[common.Address]*big.Int{},
		nonce:     map[common.Address]uint64{},
		Contracts: map[common.Address]*ContractInfo{},
		Hidden:    map[common.Address][]*Hidden{},
		known:     map[common.Address]bool{},
		Issued:    map[common.Address]*big.Int{}, Destroyed: map[common.Address]*big.Int{}, Lost: map[common.Address]*big.Int{}, Forged: map[common.Address]*big.Int{},
		FeesSum: new(big.Int), Signers: map[types.SupportType]*types.SignersInfo{},
		Opaque: map[common.Address]bool{}, OpaqueTokens: map[common.Address]bool{}}
	l.known[collector] = true
	return l
}

// ---------------------------------------------------------------- accessors

// Balance returns the balance of addr in token (Native for the coin).
func (l *Ledger) Balance(token, addr common.Address) *big.Int {
	if m := l.bal[token]; m != nil {
		if v := m[addr]; v != nil {
			return cp(v)
		}
	}
	return new(big.Int)
}

// Nonce returns the account nonce.
func (l *Ledger) Nonce(addr common.Address) uint64 { return l.nonce[addr] }

// SetGenesis records a genesis allocation.
func (l *Ledger) SetGenesis(addr common.Address, balance *big.Int, nonce uint64) {
	l.set(Native, addr, balance)
	l.nonce[addr] = nonce
}

// Know adds addr to the known-address universe (zero balances).
func (l *Ledger) Know(addr common.Address) { l.known[addr] = true }

func (l *Ledger) set(token, addr common.Address, v *big.Int) {
	m := l.bal[token]
	if m == nil {
		m = map[common.Address]*big.Int{}
		l.bal[token] = m
	}
	m[addr] = cp(v)
	l.known[addr] = true
}

func (l *Ledger) credit(token, addr common.Address, v *big.Int) {
	l.set(token, addr, add(l.Balance(token, addr), v))
}

func (l *Ledger) debit(token, addr common.Address, v *big.Int) bool {
	b := l.Balance(token, addr)
	if b.Cmp(v) < 0 {
		return false
	}
	l.set(token, addr, sub(b, v))
	return true
}

func bump(m map[common.Address]*big.Int, token common.Address, v *big.Int) {
	if m[token] == nil {
		m[token] = new(big.Int)
	}
	m[token].Add(m[token], v)
}

// Universe returns every address the ledger has seen, sorted.
func (l *Ledger) Universe() []common.Address {
	out := make([]common.Address, 0, len(l.known))
	for a := range l.known {
		out = append(out, a)
	}
	sort.Slice(out, func(i, j int) bool { return bytes.Compare(out[i][:], out[j][:]) < 0 })
	return out
}

// Tokens returns every token id with a non-zero entry, sorted (Native first).
func (l *Ledger) Tokens() []common.Address {
	seen := map[common.Address]bool{Native: true}
	for t := range l.bal {
		seen[t] = true
	}
	for t := range l.Hidden {
		seen[t] = true
	}
	out := make([]common.Address, 0, len(seen))
	for t := range seen {
		out = append(out, t)
	}
	sort.Slice(out, func(i, j int) bool { return bytes.Compare(out[i][:], out[j][:]) < 0 })
	return out
}

// HoldersOf returns the holders with a non-zero balance of token, sorted.
func (l *Ledger) HoldersOf(token common.Address) []common.Address {
	var out []common.Address
	for a, v := range l.bal[token] {
		if v.Sign() > 0 {
			out = append(out, a)
		}
	}
	sort.Slice(out, func(i, j int) bool { return bytes.Compare(out[i][:], out[j][:]) < 0 })
	return out
}

// PublicSupply sums the account balances of token.
func (l *Ledger) PublicSupply(token common.Address) *big.Int {
	s := new(big.Int)
	for _, v := range l.bal[token] {
		s.Add(s, v)
	}
	return s
}

// HiddenSupply sums the unspent hidden outputs of token.
func (l *Ledger) HiddenSupply(token common.Address) *big.Int {
	s := new(big.Int)
	for _, h := range l.Hidden[token] {
		if !h.Spent {
			s.Add(s, h.Amount)
		}
	}
	return s
}

// LiveContracts returns the addresses of contracts of the given kinds
// (all kinds if none given), sorted.
func (l *Ledger) LiveContracts(kinds ...ContractKind) []common.Address {
	var out []common.Address
	for a, c := range l.Contracts {
		if len(kinds) == 0 {
			out = append(out, a)
			continue
		}
		for _, k := range kinds {
			if c.Kind == k {
				out = append(out, a)
				break
			}
		}
	}
	sort.Slice(out, func(i, j int) bool { return bytes.Compare(out[i][:], out[j][:]) < 0 })
	return out
}

// ---------------------------------------------------------------- snapshots

type ledgerSnap struct {
	bal       map[common.Address]map[common.Address]*big.Int
	dying     map[common.Address]bool
	issued    map[common.Address]*big.Int
	destroyed map[common.Address]*big.Int
	known     map[common.Address]bool
}

func cloneAmounts(m map[common.Address]*big.Int) map[common.Address]*big.Int {
	o := make(map[common.Address]*big.Int, len(m))
	for k, v := range m {
		o[k] = cp(v)
	}
	return o
}

func (l *Ledger) snapshot() *ledgerSnap {
	s := &ledgerSnap{bal: map[common.Address]map[common.Address]*big.Int{}, dying: map[common.Address]bool{},
		issued: cloneAmounts(l.Issued), destroyed: cloneAmounts(l.Destroyed), known: map[common.Address]bool{}}
	for t, m := range l.bal {
		s.bal[t] = cloneAmounts(m)
	}
	for a, c := range l.Contracts {
		s.dying[a] = c.Dying
	}
	for a := range l.known {
		s.known[a] = true
	}
	return s
}

func (l *Ledger) restore(s *ledgerSnap) {
	l.bal = s.bal
	for a, c := range l.Contracts {
		c.Dying = s.dying[a]
	}
	l.Issued, l.Destroyed = s.issued, s.destroyed
	// addresses touched by a reverted call stay in the known universe (they
	// must still hold nothing): keep the union
	for a := range s.known {
		l.known[a] = true
	}
}

// ---------------------------------------------------------------- contract model

const maxModelDepth = 8

// simCall models a message call: value moves from caller to callee, then the
// callee's code runs; false = the call fails and everything it did is undone.
// The model assumes ample gas (the generator marks gas-tight transactions).
func (l *Ledger) simCall(caller, callee, token common.Address, value *big.Int, data []byte, top bool, depth int) bool {
	snap := l.snapshot()
	if !top {
		// inner CALL: the EVM checks the caller's balance first (top level: done by the state transition)
		if l.Balance(token, caller).Cmp(value) < 0 {
			return false
		}
		if !l.debit(token, caller, value) {
			return false
		}
	}
	l.known[callee] = true
	c := l.Contracts[callee]
	if c == nil {
		// no code: plain credit (a call without value to a non-existent account does nothing)
		l.credit(token, callee, value)
		return true
	}
	l.credit(token, callee, value)
	ok := l.runModel(c, caller, callee, token, value, data, depth)
	if !ok {
		l.restore(snap)
	}
	return ok
}

func wordAt(data []byte, i int) *big.Int {
	b := make([]byte, 32)
	if off := 32 * i; off < len(data) {
		copy(b, data[off:])
	}
	return new(big.Int).SetBytes(b)
}

func (l *Ledger) runModel(c *ContractInfo, caller, self, token common.Address, value *big.Int, data []byte, depth int) bool {
	switch c.Kind {
	case CStore:
		return true
	case CRevert:
		return false
	case CIssuer, CIssuerBad:
		if len(data) == 4 || len(data) == 0 {
			return true
		}
		amount, to := wordAt(data, 0), common.BigToAddress(wordAt(data, 1))
		if c.Kind == CIssuerBad {
			return false // "issue without decimals set"
		}
		if amount.Sign() > 0 {
			l.credit(self, self, amount)
			bump(l.Issued, self, amount)
			l.debit(self, self, amount)
			l.credit(self, to, amount)
		}
		return true
	case CSuicide:
		if len(data) == 0 {
			return true
		}
		to := common.BigToAddress(wordAt(data, 0))
		if to == (common.Address{}) {
			to = self
		}
		for _, t := range l.Tokens() {
			v := l.Balance(t, self)
			if v.Sign() == 0 {
				continue
			}
			l.set(t, self, new(big.Int))
			if to == self {
				bump(l.Destroyed, t, v)
			} else {
				l.credit(t, to, v)
			}
		}
		l.known[to] = true
		c.Dying = true
		return true
	case CForward:
		if len(data) < 64 {
			return true
		}
		if depth >= maxModelDepth {
			return false
		}
		target, swallow := common.BigToAddress(wordAt(data, 0)), wordAt(data, 1).Sign() != 0
		// the forwarder CALLs with the native call value only (CALL moves the
		// coin, whatever token the transaction carried)
		inner := value
		if token != Native {
			inner = new(big.Int)
		}
		ok := l.simCall(self, target, Native, inner, data[64:], false, depth+1)
		return ok || swallow
	case CRepeat:
		return l.modelRepeat(self, data, depth)
	case CVault:
		return l.modelVault(self, data)
	case CLife, CFactory: // lifecycle.go
		return l.runLife(c, self, data)
	}
	return true
}

// ---------------------------------------------------------------- block application

func (l *Ledger) mismatch(key, format string, args ...interface{}) {
	l.Mismatches = append(l.Mismatches, Mismatch{Key: key, Msg: fmt.Sprintf(format, args...)})
}

func priceOf(gas uint64) *big.Int { return mulU(bi(types.ParGasPrice), gas) }

// ApplyBlock advances the ledger by one committed block: items are the
// generator's descriptions of the block's transactions in block order,
// receipts the chain's receipts of the same block. Disagreements between the
// model's view (who may succeed) and the receipts are appended to Mismatches;
// balances always follow the receipts.
func (l *Ledger) ApplyBlock(height uint64, items []*Item, receipts types.Receipts) error {
	if len(items) != len(receipts) {
		return fmt.Errorf("ledger: %d items but %d receipts", len(items), len(receipts))
	}
	l.Height = height
	blockFees := new(big.Int)
	for i, it := range items {
		r := receipts[i]
		if it.Kind != KMultiSign && r.TxHash != it.Tx.Hash() {
			return fmt.Errorf("ledger: receipt %d is for tx %x, item is %x", i, r.TxHash, it.Tx.Hash())
		}
		fee := priceOf(r.GasUsed)
		blockFees.Add(blockFees, fee)
		l.applyItem(it, r, fee, height)
	}
	// end of block: fees reach the collector, self-destructed accounts vanish
	l.credit(Native, l.Collector, blockFees)
	l.FeesSum.Add(l.FeesSum, blockFees)
	for _, a := range l.LiveContracts() {
		c := l.Contracts[a]
		if !c.Dying {
			continue
		}
		for _, t := range l.Tokens() {
			if v := l.Balance(t, a); v.Sign() > 0 {
				bump(l.Lost, t, v)
				l.set(t, a, new(big.Int))
			}
		}
		delete(l.Contracts, a)
		l.nonce[a] = 0
		l.Graves = append(l.Graves, a)
	}
	return nil
}

func (l *Ledger) applyItem(it *Item, r *types.Receipt, fee *big.Int, height uint64) {
	ok := r.Status == types.ReceiptStatusSuccessful
	switch it.Kind {
	case KMultiSign:
		// no fee, no receipt content; takes effect when the block is stored
		l.nonce[types.MultiSignNonceAddr]++
		l.known[types.MultiSignNonceAddr] = true
		tx := it.Tx.(*types.MultiSignAccountTx)
		si := tx.SignersInfo
		l.Signers[tx.SupportTxType] = &si
		return
	case KUpgrade:
		l.nonce[it.From]++
		l.known[it.From] = true
		if r.GasUsed != 0 {
			l.mismatch("fee/upgrade-charged", "contract upgrade tx charged gas %d", r.GasUsed)
		}
		if ok && !it.MayPass {
			l.mismatch("status/upgrade/model-fail-receipt-ok", "upgrade of a contract without WASM code reported success")
		}
		return
	}
	if it.utxo != nil {
		l.applyUTXO(it, r, fee, height, ok)
		return
	}

	// account-based, fee paid by the sender
	if !l.debit(Native, it.From, fee) {
		l.mismatch("fee/exceeds-balance", "%s: fee %v exceeds the sender's modelled balance %v", it.Kind, fee, l.Balance(Native, it.From))
		l.set(Native, it.From, new(big.Int))
	}
	if it.Gas > 0 && r.GasUsed > it.Gas {
		l.mismatch("fee/above-limit", "%s: gas used %d above the limit %d", it.Kind, r.GasUsed, it.Gas)
	}
	nonceBefore := l.nonce[it.From]
	l.nonce[it.From] = nonceBefore + 1

	snap := l.snapshot()
	modelOK := l.simTx(it, fee)
	if it.Opaque {
		// not modelled: follow the receipt, mark what cannot be predicted
		l.restore(snap)
		for _, a := range it.Touches {
			l.Opaque[a] = true
			l.known[a] = true
		}
		if ok && it.To != nil {
			// plain value reached the opaque callee
			if l.debit(it.Token, it.From, it.Value) {
				l.credit(it.Token, *it.To, it.Value)
			}
		}
		if ok && it.Create != "" {
			l.Contracts[r.ContractAddress] = &ContractInfo{Kind: it.Create, Creator: it.From}
			l.Opaque[r.ContractAddress] = true
			l.OpaqueTokens[r.ContractAddress] = true
			l.known[r.ContractAddress] = true
			l.nonce[r.ContractAddress] = 1
			if l.debit(Native, it.From, it.Value) {
				l.credit(Native, r.ContractAddress, it.Value)
			}
		}
		return
	}
	switch {
	case ok && modelOK:
		// keep the modelled effects
		if it.Create != "" {
			if r.ContractAddress != it.NewAddr {
				l.mismatch("create/address", "%s: receipt says contract at %x, CreateAddress(sender, nonce, code) is %x", it.Note, r.ContractAddress, it.NewAddr)
			}
			l.Contracts[it.NewAddr] = &ContractInfo{Kind: it.Create, Decimals: it.Decimals, Creator: it.From}
			l.nonce[it.NewAddr] = 1
			it.createdAt = it.NewAddr
			l.noteTokensAtCreation(it.NewAddr) // see adversarial.go (a record only, balances untouched)
		}
	case !ok && !modelOK:
		l.restore(snap)
	case !ok && modelOK:
		l.restore(snap)
		if !it.GasTight {
			l.mismatch("status/"+string(it.Kind)+"/model-ok-receipt-fail", "%s: model expects success, receipt failed (%s)", it.Note, r.VMErr)
		}
	case ok && !modelOK:
		l.restore(snap)
		l.mismatch("status/"+string(it.Kind)+"/model-fail-receipt-ok", "%s: model expects failure, receipt succeeded", it.Note)
	}
}

// simTx applies the modelled effects of an account-based transaction (beyond
// fee and nonce) and reports whether the model expects it to succeed.
func (l *Ledger) simTx(it *Item, fee *big.Int) bool {
	from := it.From
	if it.Token == Native {
		// the chain first takes gasLimit x price, then looks whether the value is
		// covered, and refunds unused gas at the end: the value must fit beside
		// the whole prepayment (the ledger has debited the final fee already)
		room := add(l.Balance(Native, from), fee)
		if room.Cmp(add(it.Value, priceOf(it.Gas))) < 0 {
			return false
		}
	}
	if it.Create != "" {
		// creation: value moves to the new contract (address taken from the
		// receipt and cross-checked against CreateAddress)
		if l.Balance(Native, from).Cmp(it.Value) < 0 {
			return false
		}
		if it.CreateFails {
			return false
		}
		l.debit(Native, from, it.Value)
		l.credit(Native, it.NewAddr, it.Value)
		return true
	}
	// the state transition first takes the value from the sender (failing the tx if it cannot)
	if !l.debit(it.Token, from, it.Value) {
		return false
	}
	if it.To == nil {
		return false
	}
	return l.simCall(from, *it.To, it.Token, it.Value, it.Data, true, 0)
}
