package jumpdest_cache

import (
	"testing"

	"github.com/lianxiangcloud/linkchain/libs/common"
	dbm "github.com/lianxiangcloud/linkchain/libs/db"
	"github.com/lianxiangcloud/linkchain/state"
	"github.com/lianxiangcloud/linkchain/vm/evm"
	"github.com/lianxiangcloud/linkchain/vm/runtime"
)

func TestTwoCreates(t *testing.T) {
	// init1: PUSH1 3; JUMP; JUMPDEST; STOP  (5 bytes)
	init1 := []byte{byte(evm.PUSH1), 3, byte(evm.JUMP), byte(evm.JUMPDEST), byte(evm.STOP)}
	// init2: PUSH1 60; JUMP; pad...; JUMPDEST at 60; STOP
	init2 := make([]byte, 62)
	init2[0], init2[1], init2[2] = byte(evm.PUSH1), 60, byte(evm.JUMP)
	init2[60], init2[61] = byte(evm.JUMPDEST), byte(evm.STOP)
	var code []byte
	// build: codecopy init1 to mem 0, create; codecopy init2 to mem 0, create; stop
	emit := func(b ...byte) { code = append(code, b...) }
	const hdr = 2 * 15
	off1, off2 := hdr+1, hdr+1+len(init1)
	for _, x := range []struct{ off, l int }{{off1, len(init1)}, {off2, len(init2)}} {
		emit(byte(evm.PUSH1), byte(x.l), byte(evm.PUSH1), byte(x.off), byte(evm.PUSH1), 0, byte(evm.CODECOPY))
		emit(byte(evm.PUSH1), byte(x.l), byte(evm.PUSH1), 0, byte(evm.PUSH1), 0, byte(evm.CREATE), byte(evm.POP))
	}
	emit(byte(evm.STOP))
	if len(code) != hdr+1 {
		t.Fatal(len(code))
	}
	code = append(code, init1...)
	code = append(code, init2...)
	st, _ := state.New(common.EmptyHash, state.NewDatabase(dbm.NewMemDB()))
	a := common.HexToAddress("0xa11ce")
	st.CreateAccount(a)
	st.SetCode(a, code)
	defer func() {
		if p := recover(); p != nil {
			t.Fatalf("PANIC on clean tree: %v", p)
		}
	}()
	_, left, err := runtime.Call(a, nil, &runtime.Config{State: st, GasLimit: 10000000})
	t.Logf("left=%d err=%v", left, err)
}
