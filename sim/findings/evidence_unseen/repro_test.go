// Package evidence_unseen demonstrates, against the real evidence store on
// the repository's own MemDB, the defect found by the C02 cluster check:
// committing a block that carries DuplicateVoteEvidence this node has not
// seen itself panics inside EvidencePool.Update (ApplyBlock), which in the
// node kills the consensus receive routine / the fast-sync loop.
//
//   cd /verif/sim && go1.26.8 test -tags verif -overlay /verif/build/overlay.json ./findings/evidence_unseen/
//
// Fails (panic "EOF") before the fix commit in /repo, passes after it.
package evidence_unseen

import (
	"testing"
	"time"

	"github.com/lianxiangcloud/linkchain/evidence"
	"github.com/lianxiangcloud/linkchain/libs/crypto"
	dbm "github.com/lianxiangcloud/linkchain/libs/db"
	"github.com/lianxiangcloud/linkchain/types"
)

func TestCommittedEvidenceNotSeenLocally(t *testing.T) {
	priv := crypto.GenPrivKeyEd25519FromSecret([]byte("byz"))
	mk := func(tag byte) *types.Vote {
		v := &types.Vote{ValidatorAddress: priv.PubKey().Address(), ValidatorIndex: 0, ValidatorSize: 1, Height: 1, Round: 0,
			Timestamp: time.Unix(0, 0).UTC(), Type: types.VoteTypePrevote}
		v.BlockID.Hash[0] = tag
		sig, _ := priv.Sign(v.SignBytes("chain"))
		v.Signature = sig
		return v
	}
	ev := &types.DuplicateVoteEvidence{PubKey: priv.PubKey(), VoteA: mk(1), VoteB: mk(2)}
	store := evidence.NewEvidenceStore(dbm.NewMemDB())
	defer func() {
		if r := recover(); r != nil {
			t.Fatalf("MarkEvidenceAsCommitted panicked for evidence the node had not stored: %v", r)
		}
	}()
	store.MarkEvidenceAsCommitted(ev)
	if ei := store.GetEvidence(ev.Height(), ev.Hash()); ei == nil || !ei.Committed {
		t.Fatalf("evidence not recorded as committed")
	}
}
