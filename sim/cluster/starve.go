package cluster

import (
	"time"

	cs "github.com/lianxiangcloud/linkchain/consensus"
	"github.com/lianxiangcloud/linkchain/libs/ser"
	"github.com/lianxiangcloud/linkchain/types"
)

// The "starve" adversary: a Byzantine validator with full control over
// delivery order (both are inside C01's quantifier) that engineers the
// situation the locking rules exist for. With four equal validators:
//
//	round r0:   every correct node misses exactly one prevote for the proposed
//	            block X, so nobody sees a polka; the adversary prevotes nil so
//	            that everybody sees +2/3 of any, times out and precommits nil;
//	round r0+1: a new block Y is proposed; only the victim receives all
//	            prevotes for Y, sees the polka, locks Y and precommits it; the
//	            others precommit nil, no commit;
//	round r0+2: the withheld round-r0 prevotes for X are released to the
//	            victim: a proof-of-lock for X from a round BEFORE its lock.
//
// A correct victim stays locked on Y. What it does is judged by the ordinary
// oracles (I2-I5, agreement); the script asserts nothing itself.
type starve struct {
	H        uint64
	r0       int
	victim   int
	withheld map[int]string // destination node -> validator address (hex) whose block prevotes it does not get
	held     [][]byte       // encoded round-r0 prevotes for the victim
	released bool
	releaseR int
}

func (cl *Cluster) initStarve(b *byzActor) {
	t := cl.c.Tape.Fork("starve")
	h := cl.honest()
	s := &starve{H: uint64(t.Range(1, 2)), r0: t.Int(2), victim: h[t.Int(len(h))].idx, withheld: map[int]string{}}
	s.releaseR = s.r0 + 2 + t.Int(2)
	for i, n := range h {
		s.withheld[n.idx] = hexOf(h[(i+1+t.Int(len(h)-1))%len(h)].key.Address())
		if s.withheld[n.idx] == hexOf(n.key.Address()) {
			s.withheld[n.idx] = hexOf(h[(i+1)%len(h)].key.Address())
		}
	}
	cl.adv = s
}

// intercept decides whether the adversary keeps a message from its destination.
func (s *starve) intercept(cl *Cluster, to int, msg cs.ConsensusMessage) bool {
	vm, ok := msg.(*cs.VoteMessage)
	if !ok || vm.Vote == nil || s.released {
		return false
	}
	v := vm.Vote
	if v.Height != s.H || v.Type != types.VoteTypePrevote || v.BlockID.IsZero() || cl.isByz(to) {
		return false
	}
	if s.withheld[to] != hexOf(v.ValidatorAddress) {
		return false
	}
	switch v.Round {
	case s.r0:
		cl.c.Fault("adversary-withholds-prevote")
		if to == s.victim && len(s.held) < 8 {
			s.held = append(s.held, ser.MustEncodeToBytesWithType(msg))
		}
		return true
	case s.r0 + 1:
		if to != s.victim {
			cl.c.Fault("adversary-withholds-prevote")
			return true
		}
	}
	return false
}

// starveAct is the adversary's periodic action.
func (b *byzActor) starveAct() {
	cl := b.cl
	s := cl.adv
	defer cl.push(&event{at: cl.now + time.Duration(10+cl.sched.Int(30))*time.Millisecond, kind: evByz, fn: b.starveAct})
	if s == nil {
		return
	}
	for _, h := range cl.honest() {
		if !h.alive || h.failed {
			continue
		}
		rs := h.roundState()
		if rs.Height != s.H {
			continue
		}
		idx, _ := rs.Validators.GetByAddress(b.n.key.Address())
		if idx < 0 {
			continue
		}
		size := rs.Validators.Size()
		// a functioning proposer at its turns (the same block for everybody)
		if bytesEqual(rs.Validators.GetProposer().Address, b.n.key.Address()) && rs.Proposal == nil && rs.Step <= 3 {
			key := keyOf(h.idx, rs.Height, rs.Round, 0, "starve-prop")
			if !b.done[key] {
				b.done[key] = true
				if blk, _ := b.buildBlock(h, rs, 7+rs.Round); blk != nil {
					b.sendBlock(h, rs.Height, rs.Round, blk, "adversary-block")
				}
			}
		}
		// nil votes in the two starved rounds so that everybody sees +2/3 of any
		for r := s.r0; r <= s.r0+1 && r <= rs.Round; r++ {
			for _, typ := range []byte{types.VoteTypePrevote, types.VoteTypePrecommit} {
				key := keyOf(h.idx, rs.Height, r, typ, "starve-nil")
				if b.done[key] {
					continue
				}
				b.done[key] = true
				if v := b.signVote(rs.Height, r, typ, types.BlockID{}, size, idx); v != nil {
					cl.c.Fault("adversary-nil-vote")
					cl.send(b.n.idx, h.idx, voteMsg(v), "adversary-nil")
				}
			}
		}
	}
	// release the old proof-of-lock to the victim once it has moved on
	if !s.released {
		v := cl.nodes[s.victim]
		if v.alive && !v.failed {
			rs := v.roundState()
			if rs.Height > s.H {
				s.released = true
			} else if rs.Height == s.H && rs.Round >= s.releaseR {
				s.released = true
				if rs.LockedBlock != nil {
					cl.c.Probe("stale-pol-released-to-locked-victim")
				}
				for _, bz := range s.held {
					cl.c.Fault("adversary-releases-withheld-prevote")
					cl.sendBytes(b.n.idx, s.victim, cs.VoteChannel, bz, "adversary-release")
				}
			}
		}
	}
}
